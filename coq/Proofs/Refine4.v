(* Property C02, refinement continued: whole blocks (ApplyBlockToState against [spec_block]) and chains
   ([apply_chain] against [ledger_of_chain]). *)
From Coq Require Import Arith.
From Virel Require Import Lib.Config Lib.U64 Lib.AMap Lib.CheckLib Model.Emission Model.Ledger Spec.Rules
  Proofs.AMapLemmas Proofs.Emission Proofs.Conservation Proofs.Pointwise Proofs.Refine Proofs.Staking Proofs.StakedSum
  Proofs.Refine2 Proofs.Refine3.
Open Scope N_scope.
Open Scope bool_scope.

(* counters (incoming-transfer counter, nonce) at least K steps away from the end of the uint64 range *)
Definition ctr_ok (l : ledger) (K : N) : Prop :=
  forall a, inc (acct_at l a) + K < two64 /\ nonce (acct_at l a) + K < two64.

Lemma ctr_ok_mono l K K' : K' <= K -> ctr_ok l K -> ctr_ok l K'.
Proof. intros Hle H a. destruct (H a). split; lia. Qed.

Lemma leq_credit_model l ls rc amt id v : leq l ls ->
  leq (put_state (set_intx l v) rc
         (mkacct (bal (acct_at l rc) + amt) (nonce (acct_at l rc)) (inc (acct_at l rc) + 1) (deleg (acct_at l rc))))
      (credit ls rc amt id).
Proof.
  intros H. unfold credit. cbv zeta. rewrite <- (leq_acct_of l ls rc H). change acct_of with acct_at.
  destruct H as (A & B & C). split; [|split; assumption].
  intros a. change (get_state (set_intx ?x ?w) a) with (get_state x a).
  rewrite !get_state_put. change (get_state (set_intx l v) a) with (get_state l a). rewrite A. reflexivity.
Qed.

Lemma get_staker_leq l ls hv : leq l ls -> get_staker l hv = get_staker ls hv.
Proof. intros (_ & B & C). unfold get_staker. rewrite B, C. reflexivity. Qed.

Section Blocks.
Variable cfg : config.
Variable genesis_addr team_key : N.
Notation sgn t := (addr_of_key (tx_signer t)).

(* side conditions on a transaction of a block of height h: uint64-typed amounts, version byte of its payload kind,
   stateless validation passed *)
Definition tx_side (h : N) (t : tx) : Prop :=
  wf_tx cfg t /\ ver_ok t = true /\ prevalidate_tx cfg team_key t h = Ok tt.

Definition txs_ctr (txs : list tx) : N := fold_right (fun t acc => tx_ctr t + 1 + acc) 0 txs.

Lemma tx_side_ok h t : tx_side h t -> tx_ok cfg t.
Proof.
  intros (Hwf & _ & Hpre). split; [exact Hwf|]. destruct (prevalidate_total cfg team_key t h Hpre) as [tot ->]. discriminate.
Qed.

Lemma apply_tx_ctr l t h bh top_h l1 tot K :
  total_bal l < two64 -> wf_tx cfg t -> tx_total cfg t = Some tot ->
  apply_tx cfg l t h bh top_h = Ok l1 ->
  ctr_ok l (tx_ctr t + 1 + K) -> ctr_ok l1 K.
Proof.
  intros Hb Hwf Htot Happ Hc.
  destruct (apply_tx_shape cfg _ _ _ _ _ _ _ Hb Hwf Htot Happ)
    as (x & lk & stk & outs & Hx & Hn & Hkp & Hso & Hnp & Hbal & Hin64 & Hrest).
  pose proof (acct_at_of_get _ _ _ Hx) as Hax.
  assert (Hn1 : nonce x + 1 < two64) by (destruct (Hc (sgn t)) as [_ H]; rewrite Hax in H; lia).
  assert (Hc1 : forall a, inc (acct_at l a) + out_cnt outs a < two64).
  { intros a. destruct (Hc a) as [H _]. pose proof (out_cnt_le_ctr cfg t _ outs a Hso). lia. }
  destruct (Hrest Hn1 Hc1) as (R1 & _).
  intros a. rewrite R1. cbv zeta. cbn [inc nonce].
  pose proof (out_cnt_le_ctr cfg t _ outs a Hso) as Hle. destruct (Hc a) as [Hi Hno].
  destruct (N.eqb_spec a (sgn t)) as [Ea|_]; [|split; lia].
  rewrite Ea, Hax in Hi, Hno. cbn [inc nonce]. split; lia.
Qed.

(* ---- the transactions of a block ---- *)
Definition spec_step (h : N) (acc : N * ledger * N) (t : tx) : N * ledger * N :=
  let '(c, l, fee) := acc in
  if negb (c =? 0) then acc else
  let '(c', l') := spec_tx cfg team_key l t h in (c', l', fee + tx_fee t).

Hypothesis Hfee : cfg_ok_fee cfg = true.

Lemma apply_txs_refines txs : forall l ls h bh fee l' fee' K,
  leq l ls -> total_bal l < two64 -> fee < two64 -> SInv l ->
  ctr_ok l (txs_ctr txs + K) -> Forall (tx_side h) txs -> h - 1 + unlock_time cfg < two64 ->
  apply_txs cfg l txs h bh (h - 1) fee = Ok (l', fee') ->
  exists ls', fold_left (spec_step h) txs (0, ls, fee) = (0, ls', fee') /\ leq l' ls' /\ ctr_ok l' K.
Proof.
  induction txs as [|t txs IH]; intros l ls h bh fee l' fee' K Hq Hb Hf HI Hc Hside Hul H; cbn [apply_txs] in H.
  - injection H as <- <-. exists ls. split; [reflexivity|]. split; [exact Hq|].
    cbn [txs_ctr fold_right] in Hc. rewrite N.add_0_l in Hc. exact Hc.
  - inversion Hside as [|? ? Ht Hside']; subst. destruct Ht as (Hwf & Hver & Hpre).
    bind_inv H. rename a into l1. guard_inv H. apply Bool.negb_true_iff in G.
    destruct (prevalidate_total cfg team_key t h Hpre) as [tot Htot].
    cbn [txs_ctr fold_right] in Hc. fold (txs_ctr txs) in Hc.
    assert (Hinc : forall a, inc (acct_at l a) + tx_ctr t < two64) by (intros a; destruct (Hc a); lia).
    assert (Hnonce : nonce (acct_at l (sgn t)) + 1 < two64) by (destruct (Hc (sgn t)); lia).
    destruct (tx_refines_strong cfg team_key l t h bh l1 Hfee Hver Hb Hwf HI Hinc Hnonce Hul Hpre E) as [Hz Hq1].
    destruct (spec_tx_leq cfg team_key l ls t h Hq) as [Hfe Hq2].
    pose proof (apply_tx_total cfg _ _ _ _ _ _ _ Hb Hwf Htot E) as Htot1.
    pose proof (apply_tx_SInv cfg _ _ _ _ _ _ HI Hwf E) as HI1.
    assert (Hc1 : ctr_ok l1 (txs_ctr txs + K)).
    { apply (apply_tx_ctr l t h bh (h - 1) l1 tot _ Hb Hwf Htot E).
      replace (tx_ctr t + 1 + (txs_ctr txs + K)) with (tx_ctr t + 1 + txs_ctr txs + K) by lia. exact Hc. }
    destruct Hwf as (Hfee64 & _).
    destruct (wadd_nowrap_of_check fee (tx_fee t) Hf Hfee64 G) as [Hw Hw64]. rewrite Hw in H.
    cbn [fold_left]. unfold spec_step at 2. cbn [negb N.eqb].
    rewrite Hz in Hfe.
    destruct (spec_tx cfg team_key ls t h) as [c' ls1] eqn:Es. cbn [fst snd] in Hfe, Hq2. subst c'.
    apply (IH l1 ls1 h bh (fee + tx_fee t) l' fee' K); try assumption; [|lia].
    apply (leq_trans _ _ _ Hq1 Hq2).
Qed.

(* ---- the coinbase outputs ---- *)
Definition cb_sout (b : lblock) (o : N * N) : sout :=
  let '(ty, a) := o in
  if ty =? OUT_COINBASE_DEV then mksout ty a genesis_addr 0
  else if ty =? OUT_COINBASE_POW then mksout ty a (lb_recipient b) 0
  else if ty =? OUT_COINBASE_POS then mksout ty a (delegate_addr (lb_delegate_id b)) (lb_delegate_id b)
  else mksout ty a burn_addr 0.

Definition cb_step (b : lblock) (acc : N * ledger) (o : N * N) : N * ledger :=
  let '(c, l) := acc in
  if negb (c =? 0) then acc else
  let '(ty, a) := o in
  if ty =? OUT_COINBASE_DEV then (0, credit l genesis_addr a (lb_hash b))
  else if ty =? OUT_COINBASE_POW then (0, credit l (lb_recipient b) a (lb_hash b))
  else if ty =? OUT_COINBASE_POS then
    spec_pos_reward (credit l (delegate_addr (lb_delegate_id b)) a (lb_hash b)) (lb_hash b) (lb_delegate_id b) a
  else (0, credit l burn_addr a (lb_hash b)).

Lemma cb_sout_fields b ty a : o_type (cb_sout b (ty, a)) = ty /\ o_amt (cb_sout b (ty, a)) = a.
Proof.
  unfold cb_sout. destruct (ty =? OUT_COINBASE_DEV); [split; reflexivity|].
  destruct (ty =? OUT_COINBASE_POW); [split; reflexivity|].
  destruct (ty =? OUT_COINBASE_POS); split; reflexivity.
Qed.

Lemma coinbase_refines b cb : forall l ls l' K,
  leq l ls -> SInv l -> total_bal l + sum_amounts cb < two64 -> ctr_ok l (N.of_nat (length cb) + K) ->
  apply_outputs l (lb_hash b) (map (cb_sout b) cb) (lb_hash b) = (l', None) ->
  exists ls', fold_left (cb_step b) cb (0, ls) = (0, ls') /\ leq l' ls' /\ ctr_ok l' K.
Proof.
  induction cb as [|[ty a] cb IH]; intros l ls l' K Hq HI Hb Hc H; cbn [map apply_outputs] in H.
  - injection H as <-. exists ls. split; [reflexivity|]. split; [exact Hq|].
    cbn [length] in Hc. exact Hc.
  - destruct (cb_sout_fields b ty a) as [Hty Hamt].
    remember (cb_sout b (ty, a)) as o eqn:Ho. rewrite Hty, Hamt in H.
    unfold sum_amounts in Hb. cbn [fold_right snd] in Hb. fold (sum_amounts cb) in Hb.
    fold (acct_at l (o_rcpt o)) in H. set (st := acct_at l (o_rcpt o)) in *.
    assert (Hbal : bal st <= total_bal l).
    { pose proof (bal_at_le_total l (o_rcpt o)) as Hle. unfold bal_at in Hle. unfold st, acct_at.
      destruct (get_state l (o_rcpt o)); cbn [fopt bal acct0] in *; lia. }
    destruct (safe_add (bal st) a) as [b'|] eqn:Esa; [|discriminate H].
    apply safe_add_some in Esa; [|lia|lia]. destruct Esa as [-> Hlt].
    assert (HcS : ctr_ok l (1 + (N.of_nat (length cb) + K))).
    { eapply ctr_ok_mono; [|exact Hc]. cbn [length]. lia. }
    rewrite wadd_small in H by (destruct (HcS (o_rcpt o)) as [Hi _]; fold st in Hi; lia).
    match type of H with context [put_state (set_intx l ?v) _ ?s] =>
      set (l2 := put_state (set_intx l v) (o_rcpt o) s) in *;
      pose proof (leq_credit_model l ls (o_rcpt o) a (lb_hash b) v Hq) as Hq2; fold st in Hq2; fold l2 in Hq2 end.
    assert (HI2 : SInv l2) by (apply (SInv_ext l); [reflexivity|reflexivity|exact HI]).
    assert (Ht2 : total_bal l2 = total_bal l + a).
    { pose proof (total_put_state (set_intx l (pset (intx l) (o_rcpt o, inc st + 1) (lb_hash b))) (o_rcpt o)
                    (mkacct (bal st + a) (nonce st) (inc st + 1) (deleg st))) as Hp.
      change (total_bal (set_intx l _)) with (total_bal l) in Hp.
      assert (Hbs : bal_at (set_intx l (pset (intx l) (o_rcpt o, inc st + 1) (lb_hash b))) (o_rcpt o) = bal st).
      { unfold bal_at, st, acct_at. change (get_state (set_intx l _) (o_rcpt o)) with (get_state l (o_rcpt o)).
        destruct (get_state l (o_rcpt o)); reflexivity. }
      rewrite Hbs in Hp. cbn [bal] in Hp. unfold l2. lia. }
    assert (Hc2 : ctr_ok l2 (N.of_nat (length cb) + K)).
    { intros a'. unfold l2. rewrite acct_at_put. change (acct_at (set_intx l _) a') with (acct_at l a').
      destruct (HcS a') as [Hi Hn].
      destruct (N.eqb_spec a' (o_rcpt o)) as [->|_]; [fold st in Hi, Hn; cbn [inc nonce]; split; lia|split; lia]. }
    (* the rule's step *)
    cbn [fold_left]. unfold cb_step at 2. cbn [negb N.eqb].
    unfold cb_sout in Ho.
    destruct (ty =? OUT_COINBASE_DEV) eqn:Ed.
    { apply N.eqb_eq in Ed. rewrite Ed in H.
      change (OUT_COINBASE_DEV =? OUT_COINBASE_POS) with false in H. cbv iota in H.
      rewrite Ho in Hq2. cbn [o_rcpt] in Hq2.
      apply (IH l2 _ l' K Hq2 HI2 ltac:(lia) Hc2 H). }
    destruct (ty =? OUT_COINBASE_POW) eqn:Ep.
    { apply N.eqb_eq in Ep. rewrite Ep in H.
      change (OUT_COINBASE_POW =? OUT_COINBASE_POS) with false in H. cbv iota in H.
      rewrite Ho in Hq2. cbn [o_rcpt] in Hq2.
      apply (IH l2 _ l' K Hq2 HI2 ltac:(lia) Hc2 H). }
    destruct (ty =? OUT_COINBASE_POS) eqn:Es.
    { destruct (apply_pos_reward l2 (lb_hash b) o) as [l3|c|c] eqn:Epos; [|discriminate H|discriminate H].
      assert (Ho64 : o_amt o < two64) by (rewrite Ho; cbn [o_amt]; lia).
      pose proof (pos_reward_refines l2 (lb_hash b) o l3 HI2 Ho64 Epos) as Hpr.
      assert (Hex : o_extra o = lb_delegate_id b) by (rewrite Ho; reflexivity).
      rewrite Hex, Hamt in Hpr.
      rewrite Ho in Hq2. cbn [o_rcpt] in Hq2.
      destruct (spec_pos_reward_leq l2 _ (lb_hash b) (lb_delegate_id b) a Hq2) as [Hfe Hq3].
      destruct (spec_pos_reward l2 (lb_hash b) (lb_delegate_id b) a) as [c2 lsx] eqn:Esx.
      destruct Hpr as (Hc0 & Hax & Hdx & Hsx). subst c2. cbn [fst snd] in Hfe, Hq3.
      destruct (spec_pos_reward (credit ls (delegate_addr (lb_delegate_id b)) a (lb_hash b)) (lb_hash b) (lb_delegate_id b) a)
        as [c3 lsy] eqn:Esy. cbn [fst snd] in Hfe, Hq3. subst c3.
      assert (Hq4 : leq l3 lsy).
      { apply (leq_trans _ lsx); [|exact Hq3]. split; [|split; assumption].
        intros a'. unfold get_state. rewrite Hax. reflexivity. }
      destruct (apply_pos_reward_SInv l2 (lb_hash b) o l3 HI2 Ho64 Epos) as [HI3 _].
      pose proof (accts_apply_pos_reward _ _ _ _ Epos) as Ha3.
      assert (Ht3 : total_bal l3 = total_bal l2) by (unfold total_bal; rewrite Ha3; reflexivity).
      assert (Hc3 : ctr_ok l3 (N.of_nat (length cb) + K)).
      { intros a'. unfold acct_at, get_state. rewrite Ha3. exact (Hc2 a'). }
      apply (IH l3 lsy l' K Hq4 HI3 ltac:(lia) Hc3 H). }
    { rewrite Ho in Hq2. cbn [o_rcpt] in Hq2.
      apply (IH l2 _ l' K Hq2 HI2 ltac:(lia) Hc2 H). }
Qed.

Lemma coinbase_len v s total cb : coinbase cfg v s total = CbOuts cb -> (length cb <= 4)%nat.
Proof.
  unfold coinbase. destruct (v =? 0); [intros [= <-]; cbn; lia|].
  destruct (v =? 1); [|discriminate]. destruct s.
  - intros [= <-]. cbn [length app]. rewrite ?app_length. repeat destruct (_ =? 0)%N; cbn [length app]; lia.
  - intros [= <-]. cbn [length app]. rewrite ?app_length. repeat destruct (_ =? 0)%N; cbn [length app]; lia.
Qed.

Hypothesis Hem : cfg_ok_emission cfg = true.

(* ---- ApplyBlockToState ---- *)
Theorem block_refines l ls b l1 K :
  leq l ls ->
  total_bal l + reward cfg (lb_height b) <= max_supply cfg ->
  Forall (tx_side (lb_height b)) (lb_txs b) -> SInv l ->
  ctr_ok l (txs_ctr (lb_txs b) + 4 + K) ->
  lb_height b - 1 + unlock_time cfg < two64 ->
  apply_block cfg genesis_addr l b (lb_height b - 1) = Ok l1 ->
  fst (spec_block cfg genesis_addr team_key ls b) = 0 /\
  leq l1 (snd (spec_block cfg genesis_addr team_key ls b)) /\ ctr_ok l1 K.
Proof.
  destruct (ok_facts cfg Hem) as ((HRI & HRI64) & H9 & Hms & Hms64 & _).
  intros Hq Hb Hside HI Hc Hul H. unfold apply_block in H.
  bind_inv H. rename E into Elot. bind_inv H. destruct a0 as [l2 fee].
  assert (Hl64 : total_bal l < two64) by lia.
  assert (Htx : Forall (tx_ok cfg) (lb_txs b)) by (eapply Forall_impl; [|exact Hside]; apply tx_side_ok).
  destruct (apply_txs_total cfg (lb_txs b) l (lb_height b) (lb_hash b) (lb_height b - 1) 0 l2 fee Hl64 two64_pos Htx E)
    as [Ht1 Hfee64].
  assert (Hwf : Forall (wf_tx cfg) (lb_txs b)) by (eapply Forall_impl; [|exact Htx]; intros t [Hw _]; exact Hw).
  pose proof (apply_txs_SInv cfg (lb_txs b) l _ _ _ _ _ _ HI Hwf E) as HI2.
  destruct (apply_txs_refines (lb_txs b) l ls (lb_height b) (lb_hash b) 0 l2 fee (4 + K) Hq Hl64 two64_pos HI
              ltac:(replace (txs_ctr (lb_txs b) + (4 + K)) with (txs_ctr (lb_txs b) + 4 + K) by lia; exact Hc) Hside Hul E)
    as (ls2 & Hfold & Hq2 & Hc2).
  guard_inv H. apply Bool.negb_true_iff in G.
  pose proof (reward_le_BR cfg Hem (lb_height b)) as HrBR.
  destruct (wadd_nowrap_of_check (reward cfg (lb_height b)) fee ltac:(lia) Hfee64 G) as [Hw Hw64].
  rewrite Hw in H. bind_inv H. rename a0 into outs.
  destruct (sum_souts_coinbase _ _ _ _ _ E0) as (cb & Ecb & Hsum).
  assert (Hver : lb_version b <= 1).
  { unfold coinbase in Ecb. destruct (N.eqb_spec (lb_version b) 0) as [->|?]; [lia|].
    destruct (N.eqb_spec (lb_version b) 1) as [->|?]; [lia|discriminate]. }
  destruct (coinbase_sum cfg Hem (lb_version b) (lb_signed b) (reward cfg (lb_height b) + fee) Hver ltac:(lia))
    as (cb' & Ecb' & Hs' & _).
  rewrite Ecb in Ecb'. injection Ecb' as <-.
  assert (Houts : outs = map (cb_sout b) cb).
  { unfold coinbase_souts in E0. rewrite Ecb in E0. injection E0 as <-. reflexivity. }
  destruct (apply_outputs l2 (lb_hash b) outs (lb_hash b)) as [l3 e] eqn:Eao.
  destruct e as [[u|c|c]|]; try discriminate H. injection H as <-.
  rewrite Houts in Eao.
  pose proof (coinbase_len _ _ _ _ Ecb) as Hlen.
  destruct (coinbase_refines b cb l2 ls2 l3 K Hq2 HI2 ltac:(lia)
              ltac:(eapply ctr_ok_mono; [|exact Hc2]; lia) Eao) as (ls3 & Hcb & Hq3 & Hc3).
  (* the rule *)
  unfold spec_block.
  rewrite <- (get_staker_leq l ls _ Hq).
  assert (Hlot : (if 0 <? lb_version b
                  then match get_staker l (lb_prev_lottery b) with Ok s => s =? lb_next_delegate_id b | _ => false end
                  else true) = true).
  { destruct (0 <? lb_version b); [|reflexivity].
    bind_inv Elot. unfold guard in Elot. destruct (a0 =? lb_next_delegate_id b); [reflexivity|discriminate]. }
  rewrite Hlot. cbn [negb].
  change (fold_left _ (lb_txs b) (0, ls, 0)) with (fold_left (spec_step (lb_height b)) (lb_txs b) (0, ls, 0)).
  rewrite Hfold. cbn [negb N.eqb]. rewrite Ecb.
  change (fold_left _ cb (0, ls2)) with (fold_left (cb_step b) cb (0, ls2)).
  rewrite Hcb. cbn [fst snd negb N.eqb].
  split; [reflexivity|]. split; [exact Hq3|exact Hc3].
Qed.

(* ---- chains ---- *)
Fixpoint chain_ctr (bs : list lblock) : N :=
  match bs with [] => 0 | b :: r => txs_ctr (lb_txs b) + 4 + chain_ctr r end.

Theorem chain_refines bs : forall l ls (h : nat) l' K,
  leq l ls -> total_bal l = sum_rewards cfg h -> heights_from h bs ->
  Forall (fun b => Forall (tx_side (lb_height b)) (lb_txs b)) bs -> SInv l ->
  ctr_ok l (chain_ctr bs + K) ->
  Forall (fun b => lb_height b - 1 + unlock_time cfg < two64) bs ->
  apply_chain cfg genesis_addr l bs = Ok l' ->
  fst (ledger_of_chain cfg genesis_addr team_key ls bs) = 0 /\
  leq l' (snd (ledger_of_chain cfg genesis_addr team_key ls bs)) /\ ctr_ok l' K.
Proof.
  induction bs as [|b bs IH]; intros l ls h l' K Hq Ht Hh Hside HI Hc Hul H; cbn [apply_chain] in H.
  - injection H as <-. cbn [ledger_of_chain fst snd]. split; [reflexivity|]. split; [exact Hq|].
    cbn [chain_ctr] in Hc. rewrite N.add_0_l in Hc. exact Hc.
  - destruct Hh as [Hhb Hh]. inversion Hside as [|? ? Hb Hbs]; subst. inversion Hul as [|? ? Hu Hus]; subst.
    bind_inv H. rename a into l1.
    assert (Hroom : total_bal l + reward cfg (lb_height b) <= max_supply cfg).
    { rewrite Ht, Hhb. change (sum_rewards cfg h + reward cfg (N.of_nat (S h))) with (sum_rewards cfg (S h)).
      apply (sum_rewards_le_max cfg Hem). }
    assert (Htx : Forall (tx_ok cfg) (lb_txs b)) by (eapply Forall_impl; [|exact Hb]; apply tx_side_ok).
    assert (Hstep : total_bal l1 = sum_rewards cfg (S h)).
    { rewrite (apply_block_total cfg genesis_addr Hem _ _ _ _ Hroom Htx E). rewrite Ht, Hhb. reflexivity. }
    pose proof (apply_block_SInv cfg genesis_addr Hem _ _ _ _ Hroom Htx HI E) as HI1.
    cbn [chain_ctr] in Hc.
    destruct (block_refines l ls b l1 (chain_ctr bs + K) Hq Hroom Hb HI
                ltac:(replace (txs_ctr (lb_txs b) + 4 + (chain_ctr bs + K)) with (txs_ctr (lb_txs b) + 4 + chain_ctr bs + K) by lia; exact Hc)
                Hu E) as (Hz & Hq1 & Hc1).
    cbn [ledger_of_chain].
    destruct (spec_block cfg genesis_addr team_key ls b) as [c ls1] eqn:Esb. cbn [fst snd] in Hz, Hq1. subst c.
    cbn [negb N.eqb].
    apply (IH l1 ls1 (S h) l' K Hq1 Hstep Hh Hbs HI1 Hc1 Hus H).
Qed.

(* the same, started from one ledger and stated on accounts / delegate table / staked total *)
Corollary block_refines_same l b l1 :
  total_bal l + reward cfg (lb_height b) <= max_supply cfg ->
  Forall (tx_side (lb_height b)) (lb_txs b) -> SInv l ->
  ctr_ok l (txs_ctr (lb_txs b) + 4) ->
  lb_height b - 1 + unlock_time cfg < two64 ->
  apply_block cfg genesis_addr l b (lb_height b - 1) = Ok l1 ->
  let '(c, ls) := spec_block cfg genesis_addr team_key l b in
  c = 0 /\ same_accounts l1 ls /\ dlgs l1 = dlgs ls /\ staked l1 = staked ls.
Proof.
  intros Hb Hside HI Hc Hul H.
  destruct (block_refines l l b l1 0 (leq_refl l) Hb Hside HI ltac:(rewrite N.add_0_r; exact Hc) Hul H) as (Hz & Hq & _).
  destruct (spec_block cfg genesis_addr team_key l b) as [c ls]. cbn [fst snd] in Hz, Hq.
  split; [exact Hz|]. split; [apply leq_same_accounts; exact Hq|]. destruct Hq as (_ & B & C). split; assumption.
Qed.

Corollary block_refused_by_rules_refused_by_code l b :
  total_bal l + reward cfg (lb_height b) <= max_supply cfg ->
  Forall (tx_side (lb_height b)) (lb_txs b) -> SInv l ->
  ctr_ok l (txs_ctr (lb_txs b) + 4) ->
  lb_height b - 1 + unlock_time cfg < two64 ->
  fst (spec_block cfg genesis_addr team_key l b) <> 0 ->
  forall l1, apply_block cfg genesis_addr l b (lb_height b - 1) <> Ok l1.
Proof.
  intros Hb Hside HI Hc Hul Hne l1 H.
  destruct (block_refines l l b l1 0 (leq_refl l) Hb Hside HI ltac:(rewrite N.add_0_r; exact Hc) Hul H) as (Hz & _).
  contradiction.
Qed.

Corollary chain_refines_same bs l (h : nat) l' :
  total_bal l = sum_rewards cfg h -> heights_from h bs ->
  Forall (fun b => Forall (tx_side (lb_height b)) (lb_txs b)) bs -> SInv l ->
  ctr_ok l (chain_ctr bs) ->
  Forall (fun b => lb_height b - 1 + unlock_time cfg < two64) bs ->
  apply_chain cfg genesis_addr l bs = Ok l' ->
  let '(c, ls) := ledger_of_chain cfg genesis_addr team_key l bs in
  c = 0 /\ same_accounts l' ls /\ dlgs l' = dlgs ls /\ staked l' = staked ls.
Proof.
  intros Ht Hh Hside HI Hc Hul H.
  destruct (chain_refines bs l l h l' 0 (leq_refl l) Ht Hh Hside HI ltac:(rewrite N.add_0_r; exact Hc) Hul H) as (Hz & Hq & _).
  destruct (ledger_of_chain cfg genesis_addr team_key l bs) as [c ls]. cbn [fst snd] in Hz, Hq.
  split; [exact Hz|]. split; [apply leq_same_accounts; exact Hq|]. destruct Hq as (_ & B & C). split; assumption.
Qed.

(* a whole chain from the empty ledger: genesis block (height 0) first, then heights 1, 2, ... - exactly what
   Check/C02.v evaluates on the implementation's main chains *)
Corollary chain_refines_from_genesis b0 bs l' :
  lb_height b0 = 0 -> heights_from 0 bs ->
  Forall (fun b => Forall (tx_side (lb_height b)) (lb_txs b)) (b0 :: bs) ->
  chain_ctr (b0 :: bs) < two64 ->
  Forall (fun b => lb_height b - 1 + unlock_time cfg < two64) (b0 :: bs) ->
  apply_chain cfg genesis_addr ledger0 (b0 :: bs) = Ok l' ->
  let '(c, ls) := ledger_of_chain cfg genesis_addr team_key ledger0 (b0 :: bs) in
  c = 0 /\ same_accounts l' ls /\ dlgs l' = dlgs ls /\ staked l' = staked ls.
Proof.
  intros Hh0 Hh Hside Hc Hul H. cbn [apply_chain] in H. bind_inv H. rename a into l1.
  inversion Hside as [|? ? Hb Hbs]; subst. inversion Hul as [|? ? Hu Hus]; subst.
  assert (Hroom : total_bal ledger0 + reward cfg (lb_height b0) <= max_supply cfg).
  { rewrite Hh0. change (total_bal ledger0) with 0. rewrite N.add_0_l.
    change (reward cfg 0) with (sum_rewards cfg 0). apply (sum_rewards_le_max cfg Hem). }
  assert (Htx : Forall (tx_ok cfg) (lb_txs b0)) by (eapply Forall_impl; [|exact Hb]; apply tx_side_ok).
  assert (Hc0 : ctr_ok ledger0 (txs_ctr (lb_txs b0) + 4 + chain_ctr bs)).
  { intros a. cbn [chain_ctr] in Hc. change (acct_at ledger0 a) with acct0. cbn [inc nonce acct0]. split; lia. }
  destruct (block_refines ledger0 ledger0 b0 l1 (chain_ctr bs) (leq_refl _) Hroom Hb SInv0 Hc0 Hu E) as (Hz & Hq1 & Hc1).
  assert (Hstep : total_bal l1 = sum_rewards cfg 0).
  { rewrite (apply_block_total cfg genesis_addr Hem _ _ _ _ Hroom Htx E). rewrite Hh0. reflexivity. }
  pose proof (apply_block_SInv cfg genesis_addr Hem _ _ _ _ Hroom Htx SInv0 E) as HI1.
  cbn [ledger_of_chain].
  destruct (spec_block cfg genesis_addr team_key ledger0 b0) as [c ls1] eqn:Esb. cbn [fst snd] in Hz, Hq1. subst c.
  cbn [negb N.eqb].
  destruct (chain_refines bs l1 ls1 0 l' 0 Hq1 Hstep Hh Hbs HI1 ltac:(rewrite N.add_0_r; exact Hc1) Hus H) as (Hz2 & Hq2 & _).
  destruct (ledger_of_chain cfg genesis_addr team_key ls1 bs) as [c ls]. cbn [fst snd] in Hz2, Hq2.
  split; [exact Hz2|]. split; [apply leq_same_accounts; exact Hq2|]. destruct Hq2 as (_ & B & C). split; assumption.
Qed.

End Blocks.
