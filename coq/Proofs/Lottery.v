(* Property C06, the counting statements behind the lottery interval theorem.

   GetStaker turns a 128-bit value hv into the coin index  i = hv mod S  (S = staked total) and walks the delegate table
   in database order, adding up the pools' totals; it stops at the first pool whose cumulated total reaches i
   (test  i <= seen').  So the pool at position p, with P = cumulated total of the pools before it and t = its own
   total, is chosen exactly for the indices
        0 <= i <= t               when p = 0   (index 0 always falls to the first pool, even an empty one)
        P <  i <= P + t           when p > 0
   and the index S itself is never produced by  mod.  Counted over 0 <= i < S:
        count(p) = t + [p = 0] - [t > 0 and every later pool is empty]
   i.e. every pool is chosen for exactly as many indices as it has coins, except that the first pool has one more and
   the last non-empty pool one less (both corrections cancel when they are the same pool).

   All counts are over a symbolic bound: [count_below f n] is the number of i < n with f i = true; it is related to
   the list formulation  length (filter f (seq 0 n))  by [count_below_filter]. *)
From Virel Require Import Lib.Config Lib.U64 Lib.AMap Model.Ledger Proofs.AMapLemmas Proofs.Conservation Proofs.Staking
  Proofs.StakedSum.
Open Scope N_scope.

(* ---------------- counting below a bound ---------------- *)
Definition count_below (f : N -> bool) (n : N) : N :=
  N.recursion 0 (fun i acc => if f i then acc + 1 else acc) n.

Lemma count_below_0 f : count_below f 0 = 0.
Proof. reflexivity. Qed.

Lemma count_below_succ f n : count_below f (N.succ n) = count_below f n + (if f n then 1 else 0).
Proof.
  unfold count_below. rewrite N.recursion_succ; [|reflexivity|].
  - destruct (f n); lia.
  - intros x y <- a b <-. reflexivity.
Qed.

(* the same number, as the length of a filtered list of naturals *)
Lemma count_below_filter f n :
  count_below f n = N.of_nat (length (filter (fun k => f (N.of_nat k)) (seq 0 (N.to_nat n)))).
Proof.
  induction n as [|n IH] using N.peano_ind; [reflexivity|].
  rewrite count_below_succ, IH, N2Nat.inj_succ, seq_S, filter_app, app_length. cbn [plus filter].
  rewrite N2Nat.id. destruct (f n); cbn [length]; lia.
Qed.

Lemma count_below_ext f g n : (forall i, i < n -> f i = g i) -> count_below f n = count_below g n.
Proof.
  induction n as [|n IH] using N.peano_ind; intros H; [reflexivity|].
  rewrite !count_below_succ, IH by (intros i Hi; apply H; lia). rewrite (H n) by lia. reflexivity.
Qed.

Lemma count_below_le f n : count_below f n <= n.
Proof.
  induction n as [|n IH] using N.peano_ind; [rewrite count_below_0; lia|].
  rewrite count_below_succ. destruct (f n); lia.
Qed.

Lemma count_below_mono f n m : n <= m -> count_below f n <= count_below f m.
Proof.
  intros H. replace m with (n + (m - n)) by lia. generalize (m - n) as k. clear H m.
  induction k as [|k IH] using N.peano_ind; [rewrite N.add_0_r; lia|].
  rewrite N.add_succ_r, count_below_succ. destruct (f (n + k)); lia.
Qed.

(* counting below a sum *)
Lemma count_below_add f a b : count_below f (a + b) = count_below f a + count_below (fun i => f (a + i)) b.
Proof.
  induction b as [|b IH] using N.peano_ind; [rewrite N.add_0_r, count_below_0; lia|].
  rewrite N.add_succ_r, !count_below_succ, IH. lia.
Qed.

(* the integers of a half-open interval [a, b) that lie below n *)
Lemma count_below_interval a b n : a <= b ->
  count_below (fun i => (a <=? i) && (i <? b)) n = N.min b n - N.min a n.
Proof.
  intros Hab. induction n as [|n IH] using N.peano_ind; [rewrite count_below_0; lia|].
  rewrite count_below_succ, IH.
  destruct (N.leb_spec a n), (N.ltb_spec n b); cbn [andb]; lia.
Qed.

(* a single value *)
Lemma count_below_point x n : count_below (fun i => i =? x) n = if x <? n then 1 else 0.
Proof.
  rewrite (count_below_ext _ (fun i => (x <=? i) && (i <? x + 1))).
  - rewrite count_below_interval by lia. destruct (N.ltb_spec x n); lia.
  - intros i _. destruct (N.eqb_spec i x), (N.leb_spec x i), (N.ltb_spec i (x + 1)); cbn [andb]; lia.
Qed.

(* a predicate of  hv mod s, counted over q whole periods and r more values *)
Lemma count_below_periodic f s q r : 0 < s ->
  count_below (fun hv => f (hv mod s)) (q * s + r) = q * count_below f s + count_below (fun hv => f (hv mod s)) r.
Proof.
  intros Hs. induction q as [|q IH] using N.peano_ind.
  - cbn [N.mul]. rewrite N.add_0_l. lia.
  - replace (N.succ q * s + r) with (s + (q * s + r)) by lia.
    rewrite count_below_add.
    rewrite (count_below_ext (fun hv => f (hv mod s)) f s) by (intros i Hi; rewrite N.mod_small by exact Hi; reflexivity).
    rewrite (count_below_ext (fun i => f ((s + i) mod s)) (fun hv => f (hv mod s)) (q * s + r)).
    + rewrite IH. lia.
    + intros i _. replace (s + i) with (i + 1 * s) by lia. rewrite N.mod_add by lia. reflexivity.
Qed.

Lemma count_below_mod f s m : 0 < s ->
  count_below (fun hv => f (hv mod s)) m = (m / s) * count_below f s + count_below f (m mod s).
Proof.
  intros Hs. pose proof (N.div_mod m s ltac:(lia)) as E. pose proof (N.mod_lt m s ltac:(lia)) as Hr.
  rewrite E at 1. rewrite (N.mul_comm s). rewrite count_below_periodic by exact Hs. f_equal.
  apply count_below_ext. intros i Hi. rewrite N.mod_small by lia. reflexivity.
Qed.

(* the number of values below m that are congruent to i *)
Lemma count_residue s m i : 0 < s -> i < s ->
  count_below (fun hv => hv mod s =? i) m = m / s + (if i <? m mod s then 1 else 0).
Proof.
  intros Hs Hi. rewrite (count_below_mod (fun x => x =? i)) by exact Hs.
  rewrite !count_below_point. destruct (N.ltb_spec i s); [|lia]. lia.
Qed.

(* ---------------- the walk, by position ---------------- *)
(* position of the pool at which the walk stops; the length of the table when it runs off the end *)
Fixpoint walk_pos (ds : list (N * dlg)) (idx seen : N) : nat :=
  match ds with
  | [] => O
  | (_, d) :: r => if idx <=? seen + tot d then O else S (walk_pos r idx (seen + tot d))
  end.

(* the model's walk stops at that position *)
Lemma walk_pos_correct ds : forall idx seen,
  seen + sum_tot ds < two64 ->
  walk_delegates ds idx seen = Ok (option_map snd (nth_error ds (walk_pos ds idx seen))).
Proof.
  induction ds as [|[k d] ds IH]; intros idx seen Hb; cbn [walk_delegates walk_pos].
  - reflexivity.
  - cbn [sum_tot] in Hb. rewrite total_amount_exact by lia. cbn [bind].
    rewrite wadd_small by lia. destruct (N.ltb_spec (seen + tot d) seen); [lia|].
    destruct (N.leb_spec idx (seen + tot d)); [reflexivity|].
    cbn [nth_error]. apply IH. lia.
Qed.

(* the interval of the pool at position |pre| *)
Lemma walk_pos_interval pre : forall k d post idx seen,
  walk_pos (pre ++ (k, d) :: post) idx seen = length pre <->
  idx <= seen + sum_tot pre + tot d /\ (pre <> [] -> seen + sum_tot pre < idx).
Proof.
  induction pre as [|[k0 d0] pre IH]; intros k d post idx seen; cbn [app walk_pos length sum_tot].
  - destruct (N.leb_spec idx (seen + tot d)); split.
    + intros _. split; [lia|]. intros C. contradiction C. reflexivity.
    + reflexivity.
    + discriminate.
    + intros [Hle _]. lia.
  - destruct (N.leb_spec idx (seen + tot d0)) as [Hle|Hgt]; split.
    + discriminate.
    + intros [_ Hlo]. specialize (Hlo ltac:(discriminate)). lia.
    + intros E. injection E as E. apply IH in E. destruct E as [Hhi Hlo]. split; [lia|]. intros _.
      destruct pre as [|x pre']; [cbn [sum_tot]; lia|]. specialize (Hlo ltac:(discriminate)). lia.
    + intros [Hhi Hlo]. specialize (Hlo ltac:(discriminate)). f_equal. apply IH. split; [lia|]. intros _. lia.
Qed.

Lemma walk_pos_bound ds : forall idx seen, idx <= seen + sum_tot ds -> ds <> [] -> (walk_pos ds idx seen < length ds)%nat.
Proof.
  induction ds as [|[k d] ds IH]; intros idx seen Hb Hne; [contradiction Hne; reflexivity|].
  cbn [walk_pos length sum_tot] in *. destruct (N.leb_spec idx (seen + tot d)) as [Hle|Hgt]; [apply Nat.lt_0_succ|].
  apply -> Nat.succ_lt_mono. apply IH; [lia|]. intros ->. cbn [sum_tot] in Hb. lia.
Qed.

(* the pool's interval as a boolean predicate on the index *)
Definition in_interval (pre : list (N * dlg)) (d : dlg) (i : N) : bool :=
  match pre with
  | [] => (0 <=? i) && (i <? tot d + 1)
  | _ :: _ => (sum_tot pre + 1 <=? i) && (i <? sum_tot pre + tot d + 1)
  end.

Lemma walk_pos_in_interval pre k d post i :
  Nat.eqb (walk_pos (pre ++ (k, d) :: post) i 0) (length pre) = in_interval pre d i.
Proof.
  pose proof (walk_pos_interval pre k d post i 0) as W. rewrite !N.add_0_l in W.
  destruct (Nat.eqb_spec (walk_pos (pre ++ (k, d) :: post) i 0) (length pre)) as [E|E].
  - apply W in E. destruct E as [Hhi Hlo]. unfold in_interval. destruct pre as [|x pre'].
    + cbn [sum_tot] in Hhi. destruct (N.leb_spec 0 i), (N.ltb_spec i (tot d + 1)); cbn [andb]; lia.
    + specialize (Hlo ltac:(discriminate)).
      destruct (N.leb_spec (sum_tot (x :: pre') + 1) i), (N.ltb_spec i (sum_tot (x :: pre') + tot d + 1)); cbn [andb]; lia.
  - symmetry. apply Bool.not_true_is_false. intros Hin. apply E. apply W. unfold in_interval in Hin. destruct pre as [|x pre'].
    + apply Bool.andb_true_iff in Hin. destruct Hin as [_ Hin]. apply N.ltb_lt in Hin. cbn [sum_tot]. split; [lia|].
      intros C. contradiction C. reflexivity.
    + apply Bool.andb_true_iff in Hin. destruct Hin as [Hlo Hhi]. apply N.leb_le in Hlo. apply N.ltb_lt in Hhi.
      split; [lia|]. intros _. lia.
Qed.

(* number of the indices of the pool's interval that lie below n *)
Lemma count_in_interval pre d n :
  count_below (in_interval pre d) n =
  match pre with
  | [] => N.min (tot d + 1) n
  | _ :: _ => N.min (sum_tot pre + tot d + 1) n - N.min (sum_tot pre + 1) n
  end.
Proof.
  unfold in_interval. destruct pre as [|x pre'].
  - rewrite count_below_interval by lia. lia.
  - rewrite count_below_interval by lia. reflexivity.
Qed.

(* 1 when the condition holds *)
Definition ind (b : bool) : N := if b then 1 else 0.
Definition is_first (pre : list (N * dlg)) : bool := match pre with [] => true | _ :: _ => false end.
(* the pool holds coins and no pool after it does *)
Definition is_last_funded (d : dlg) (post : list (N * dlg)) : bool := (0 <? tot d) && (sum_tot post =? 0).

(* THE COUNT OF COIN INDICES *)
Lemma count_indices_of_pool pre k d post :
  0 < sum_tot (pre ++ (k, d) :: post) ->
  count_below (fun i => Nat.eqb (walk_pos (pre ++ (k, d) :: post) i 0) (length pre)) (sum_tot (pre ++ (k, d) :: post))
  + ind (is_last_funded d post)
  = tot d + ind (is_first pre).
Proof.
  intros Hpos.
  rewrite (count_below_ext _ (in_interval pre d)) by (intros i _; apply walk_pos_in_interval).
  rewrite count_in_interval. rewrite sum_tot_app in *. cbn [sum_tot] in *.
  unfold ind, is_first, is_last_funded.
  destruct pre as [|x pre']; cbn [sum_tot] in *;
    destruct (N.ltb_spec 0 (tot d)), (N.eqb_spec (sum_tot post) 0); cbn [andb]; lia.
Qed.

(* ---------------- GetStaker ---------------- *)
Definition lottery_pos (l : ledger) (hv : N) : nat := walk_pos (dlgs l) (hv mod staked l) 0.

(* the pool GetStaker names is the one at that position *)
Lemma get_staker_pos l hv :
  SInv l -> 0 < staked l ->
  exists k d, nth_error (dlgs l) (lottery_pos l hv) = Some (k, d) /\ get_staker l hv = Ok (d_id d).
Proof.
  intros (_ & _ & Hsum & H64) Hpos. unfold get_staker, lottery_pos.
  destruct (N.eqb_spec (staked l) 0) as [E|_]; [lia|].
  assert (Hidx : hv mod staked l < staked l) by (apply N.mod_lt; lia).
  rewrite walk_pos_correct by lia. cbn [bind].
  assert (Hne : dlgs l <> []) by (intros E; rewrite E in Hsum; cbn [sum_tot] in Hsum; lia).
  pose proof (walk_pos_bound (dlgs l) (hv mod staked l) 0 ltac:(lia) Hne) as Hb.
  apply nth_error_Some in Hb.
  destruct (nth_error (dlgs l) (walk_pos (dlgs l) (hv mod staked l) 0)) as [[k d]|]; [|contradiction Hb; reflexivity].
  exists k, d. split; reflexivity.
Qed.

(* the value hv elects the pool with identifier id *)
Definition elects (l : ledger) (id hv : N) : bool :=
  match get_staker l hv with Ok s => s =? id | _ => false end.

Lemma nodup_fst_pos (ds : list (N * dlg)) p p' k d d' :
  NoDup (map fst ds) -> nth_error ds p = Some (k, d) -> nth_error ds p' = Some (k, d') -> p = p'.
Proof.
  intros Hnd H1 H2. rewrite NoDup_nth_error in Hnd. apply Hnd.
  - rewrite map_length. apply nth_error_Some. rewrite H1. discriminate.
  - rewrite (map_nth_error fst p ds H1), (map_nth_error fst p' ds H2). reflexivity.
Qed.

(* with distinct identifiers in the table, electing by identifier is electing by position *)
Lemma elects_pos l pre k d post hv :
  SInv l -> 0 < staked l -> NoDup (map fst (dlgs l)) -> dlgs l = pre ++ (k, d) :: post ->
  elects l (d_id d) hv = Nat.eqb (lottery_pos l hv) (length pre).
Proof.
  intros HI Hpos Hnd Eds. destruct (get_staker_pos l hv HI Hpos) as (k' & d' & Hn & Hg).
  unfold elects. rewrite Hg.
  destruct HI as (_ & Hkey & _ & _).
  assert (Hhere : nth_error (dlgs l) (length pre) = Some (k, d)).
  { rewrite Eds, nth_error_app2 by apply Nat.le_refl. rewrite Nat.sub_diag. reflexivity. }
  assert (Hk : d_id d = k).
  { unfold keyed in Hkey. rewrite Forall_forall in Hkey. apply (Hkey (k, d)). eapply nth_error_In. exact Hhere. }
  assert (Hk' : d_id d' = k').
  { unfold keyed in Hkey. rewrite Forall_forall in Hkey. apply (Hkey (k', d')). eapply nth_error_In. exact Hn. }
  destruct (Nat.eqb_spec (lottery_pos l hv) (length pre)) as [E|E].
  - rewrite E, Hhere in Hn. injection Hn as <- <-. apply N.eqb_refl.
  - apply N.eqb_neq. intros Eid. apply E. rewrite <- Hk', Eid, Hk in Hn.
    exact (nodup_fst_pos (dlgs l) _ _ k d' d Hnd Hn Hhere).
Qed.

(* the arithmetic of the share bound *)
Lemma share_arith s t c e q r m :
  m = s * q + r -> r < s -> e <= c -> e <= r -> c <= t + 1 -> t <= c + 1 ->
  (q * c + e) * s <= (t + 1) * m + (t + 1) * s /\ t * m <= (q * c + e + t) * s + m.
Proof. intros -> Hr He1 He2 Hc1 Hc2. split; nia. Qed.

Section Counts.
Variable l : ledger.
Variables (pre post : list (N * dlg)) (k : N) (d : dlg).
Hypothesis HI : SInv l.
Hypothesis Hpos : 0 < staked l.
Hypothesis Eds : dlgs l = pre ++ (k, d) :: post.

Notation S_ := (staked l).
Notation sel := (fun i => Nat.eqb (walk_pos (dlgs l) i 0) (length pre)).

Lemma staked_is_sum : staked l = sum_tot (pre ++ (k, d) :: post).
Proof. destruct HI as (_ & _ & Hs & _). rewrite <- Eds. exact Hs. Qed.

(* (1) coin indices *)
Lemma lottery_counts_indices :
  count_below (fun i => Nat.eqb (lottery_pos l i) (length pre)) (staked l) + ind (is_last_funded d post)
  = tot d + ind (is_first pre).
Proof.
  pose proof staked_is_sum as Hs.
  rewrite (count_below_ext _ sel).
  - rewrite Eds, Hs. apply count_indices_of_pool. rewrite <- Hs. exact Hpos.
  - intros i Hi. unfold lottery_pos. rewrite N.mod_small by exact Hi. reflexivity.
Qed.

Lemma lottery_counts_within_one :
  let c := count_below (fun i => Nat.eqb (lottery_pos l i) (length pre)) (staked l) in
  c <= tot d + 1 /\ tot d <= c + 1.
Proof.
  cbn zeta. pose proof lottery_counts_indices as H. unfold ind in H.
  destruct (is_last_funded d post), (is_first pre); lia.
Qed.

(* (2) lottery values below any bound m (m = 2^128 for the values cut from a block hash) *)
Lemma lottery_counts_values m :
  let c := count_below (fun i => Nat.eqb (lottery_pos l i) (length pre)) (staked l) in
  let n := count_below (fun hv => Nat.eqb (lottery_pos l hv) (length pre)) m in
  exists e, n = (m / staked l) * c + e /\ e <= c /\ e <= m mod staked l.
Proof.
  cbn zeta. exists (count_below sel (m mod staked l)).
  assert (Hr : m mod staked l < staked l) by (apply N.mod_lt; lia).
  split; [|split].
  - unfold lottery_pos. rewrite (count_below_mod sel) by exact Hpos. f_equal. f_equal.
    apply count_below_ext. intros i Hi. rewrite N.mod_small by exact Hi. reflexivity.
  - rewrite (count_below_ext (fun i => Nat.eqb (lottery_pos l i) (length pre)) sel).
    + apply count_below_mono. lia.
    + intros i Hi. unfold lottery_pos. rewrite N.mod_small by exact Hi. reflexivity.
  - apply count_below_le.
Qed.

(* the share of the values below m against the share of the stake: cross-multiplied,
     | n / m  -  tot d / S |  <=  1 / S  +  (tot d + 1) / m                                              *)
Lemma lottery_share_of_values m :
  let n := count_below (fun hv => Nat.eqb (lottery_pos l hv) (length pre)) m in
  n * staked l <= (tot d + 1) * m + (tot d + 1) * staked l /\
  tot d * m <= (n + tot d) * staked l + m.
Proof.
  cbn zeta. destruct (lottery_counts_values m) as (e & En & He1 & He2). cbn zeta in En, He1.
  pose proof lottery_counts_within_one as [Hc1 Hc2]. cbn zeta in Hc1, Hc2.
  rewrite En.
  pose proof (N.div_mod m (staked l) ltac:(lia)) as E. pose proof (N.mod_lt m (staked l) ltac:(lia)) as Hr.
  exact (share_arith _ _ _ _ _ _ _ E Hr He1 He2 Hc1 Hc2).
Qed.

End Counts.

(* ---------------- by identifier (the identifiers of the table being distinct) ---------------- *)
Lemma lottery_counts_indices_by_id l pre k d post :
  SInv l -> 0 < staked l -> NoDup (map fst (dlgs l)) -> dlgs l = pre ++ (k, d) :: post ->
  count_below (elects l (d_id d)) (staked l) + ind (is_last_funded d post) = tot d + ind (is_first pre).
Proof.
  intros HI Hpos Hnd Eds.
  rewrite (count_below_ext _ (fun i => Nat.eqb (lottery_pos l i) (length pre)))
    by (intros i _; apply (elects_pos l pre k d post i HI Hpos Hnd Eds)).
  exact (lottery_counts_indices l pre post k d HI Hpos Eds).
Qed.

Lemma lottery_share_of_values_by_id l pre k d post m :
  SInv l -> 0 < staked l -> NoDup (map fst (dlgs l)) -> dlgs l = pre ++ (k, d) :: post ->
  let n := count_below (elects l (d_id d)) m in
  n * staked l <= (tot d + 1) * m + (tot d + 1) * staked l /\
  tot d * m <= (n + tot d) * staked l + m.
Proof.
  intros HI Hpos Hnd Eds. cbn zeta.
  rewrite (count_below_ext _ (fun i => Nat.eqb (lottery_pos l i) (length pre)))
    by (intros i _; apply (elects_pos l pre k d post i HI Hpos Hnd Eds)).
  exact (lottery_share_of_values l pre post k d HI Hpos Eds m).
Qed.

(* the counts of all pools add up: every index elects some position of the table *)
Lemma lottery_pos_in_table l hv : SInv l -> 0 < staked l -> (lottery_pos l hv < length (dlgs l))%nat.
Proof.
  intros HI Hpos. destruct (get_staker_pos l hv HI Hpos) as (k & d & Hn & _).
  apply nth_error_Some. rewrite Hn. discriminate.
Qed.
