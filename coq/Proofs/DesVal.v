(* What decoders return on genuine byte strings (every element below 256, at most L of them): ranges of the
   integers, lengths and contents of the byte fields.  Used to show that accepted inputs decode to well-formed values. *)
From Virel Require Import Lib.U64 Model.Des Proofs.Des Proofs.DesSafe.
Open Scope N_scope.

Definition bytes (l : list N) : Prop := Forall (fun b => b < 256) l.

Definition vinv (L : N) (s : des) : Prop := bytes (d_data s) /\ blen (d_data s) <= L.

Definition vsafe (L : N) {A} (m : M A) (P : A -> Prop) : Prop :=
  forall s, vinv L s -> match m s with MOk a s' => P a /\ vinv L s' | _ => True end.

Lemma vsafe_weaken L {A} (m : M A) (P Q : A -> Prop) : vsafe L m P -> (forall a, P a -> Q a) -> vsafe L m Q.
Proof. intros H HQ s Hs. specialize (H s Hs). destruct (m s); auto. destruct H. auto. Qed.

Lemma vsafe_ret L {A} (a : A) (P : A -> Prop) : P a -> vsafe L (ret a) P.
Proof. intros H s Hs. cbn. auto. Qed.
Lemma vsafe_fail L {A} (P : A -> Prop) : vsafe L (@fail A) P.
Proof. intros s Hs. exact I. Qed.
Lemma vsafe_ret_err L {A} (a : A) (P : A -> Prop) : P a -> vsafe L (ret_err a) P.
Proof. intros H s Hs. unfold ret_err. destruct (d_err s); cbn; auto. Qed.
Lemma vsafe_check_err L : vsafe L check_err (fun _ => True).
Proof. apply vsafe_ret_err. exact I. Qed.
Lemma vsafe_alloc L n : vsafe L (alloc n) (fun _ => True).
Proof. intros s Hs. cbn. auto. Qed.
Lemma vsafe_remaining L : vsafe L remaining (fun r => bytes r /\ blen r <= L).
Proof. intros s Hs. cbn. auto. Qed.

Lemma vsafe_bind L {A Bt} (m : M A) (f : A -> M Bt) (P : A -> Prop) (Q : Bt -> Prop) :
  vsafe L m P -> (forall a, P a -> vsafe L (f a) Q) -> vsafe L (bind m f) Q.
Proof.
  intros Hm Hf s Hs. unfold bind. specialize (Hm s Hs). destruct (m s) as [a s'| |]; auto.
  destruct Hm as [Ha Hs']. apply (Hf a Ha s' Hs').
Qed.

Lemma bytes_split l n a b : bytes l -> split_at l n = Some (a, b) -> bytes a /\ bytes b.
Proof. intros Hl E. destruct (split_at_some _ _ _ _ E) as [-> _]. apply Forall_app in Hl. exact Hl. Qed.

Lemma bytes_zeros n : bytes (zeros n).
Proof. unfold zeros, bytes. apply Forall_forall. intros x Hx. apply repeat_spec in Hx. subst x. reflexivity. Qed.

Lemma vinv_set_err L s : vinv L s -> vinv L (set_err s).
Proof. intros H. exact H. Qed.

Lemma vsafe_to_array L n b : bytes b -> vsafe L (to_array n b) (fun a => bytes a /\ blen a = n).
Proof.
  intros Hb s Hs. unfold to_array. destruct (split_at b n) as [[a r]|] eqn:E; [|exact I].
  destruct (bytes_split _ _ _ _ Hb E) as [Ha _]. destruct (split_at_len _ _ _ _ E) as (_ & Hn & _). auto.
Qed.

Lemma vsafe_read_u8 L : vsafe L read_u8 (fun b => b < 256).
Proof.
  intros s [Hb Hl]. unfold read_u8, vinv. destruct (d_err s); [cbn; split; [reflexivity|split; assumption]|].
  destruct (d_data s) as [|b r] eqn:E; cbn [d_data set_err with_data].
  - rewrite E. split; [reflexivity|]. split; assumption.
  - inversion Hb; subst. split; [assumption|]. split; [assumption|]. rewrite blen_cons in Hl. lia.
Qed.

Lemma vsafe_read_le L n : vsafe L (read_le n) (fun v => v < 256 ^ n).
Proof.
  intros s [Hb Hl]. unfold read_le, vinv.
  assert (H0 : 0 < 256 ^ n) by (apply N.neq_0_lt_0, N.pow_nonzero; discriminate).
  destruct (d_err s); [cbn; split; [assumption|split; assumption]|].
  destruct (lenltb (d_data s) n); [cbn; split; [assumption|split; assumption]|].
  destruct (split_at (d_data s) n) as [[a r]|] eqn:E; [|exact I].
  destruct (bytes_split _ _ _ _ Hb E) as [Ha Hr]. destruct (split_at_len _ _ _ _ E) as (Hrl & Hn & _).
  cbn [with_data d_data]. split; [rewrite <- Hn; apply le_value_lt; assumption|]. split; [assumption|lia].
Qed.

Lemma vsafe_read_uvarint L : vsafe L read_uvarint (fun v => v < two64).
Proof.
  intros s [Hb Hl]. unfold read_uvarint, vinv.
  destruct (d_err s); [cbn; split; [reflexivity|split; assumption]|].
  destruct (lenltb (d_data s) 1); [cbn; split; [reflexivity|split; assumption]|].
  pose proof (uvarint_lt (d_data s)) as Hv.
  destruct (uvarint (d_data s)) as [d x]. cbn [fst] in Hv.
  destruct (x <? 0)%Z; [cbn; split; [reflexivity|split; assumption]|].
  destruct (split_at (d_data s) (Z.to_N x)) as [[a r]|] eqn:E; [|exact I].
  destruct (bytes_split _ _ _ _ Hb E) as [_ Hr]. destruct (split_at_len _ _ _ _ E) as (Hrl & _).
  cbn [with_data d_data]. split; [assumption|]. split; [assumption|lia].
Qed.

Lemma vsafe_read_fixed L n : vsafe L (read_fixed n) (fun b => bytes b /\ blen b = n).
Proof.
  intros s [Hb Hl]. unfold read_fixed, vinv.
  destruct (d_err s); [cbn; split; [split; [apply bytes_zeros|apply zeros_len]|split; assumption]|].
  destruct (lenltb (d_data s) n); [cbn; split; [split; [apply bytes_zeros|apply zeros_len]|split; assumption]|].
  destruct (split_at (d_data s) n) as [[a r]|] eqn:E; [|exact I].
  destruct (bytes_split _ _ _ _ Hb E) as [Ha Hr]. destruct (split_at_len _ _ _ _ E) as (Hrl & Hn & _).
  cbn [with_data d_data]. split; [split; assumption|]. split; [assumption|lia].
Qed.

Lemma vsafe_read_byte_slice L : vsafe L (read_byte_slice_gen true) (fun b => bytes b /\ blen b <= L).
Proof.
  intros s [Hb Hl]. unfold read_byte_slice_gen, vinv.
  assert (Hnil : bytes [] /\ blen (@nil N) <= L) by (split; [constructor|rewrite blen_nil; lia]).
  destruct (d_err s); [cbn; split; [assumption|split; assumption]|].
  destruct (lenltb (d_data s) 1); [cbn; split; [assumption|split; assumption]|].
  destruct (uvarint (d_data s)) as [len x].
  destruct (x <? 0)%Z; [cbn; split; [assumption|split; assumption]|].
  destruct (split_at (d_data s) (Z.to_N x)) as [[a r]|] eqn:E; [|exact I].
  destruct (bytes_split _ _ _ _ Hb E) as [_ Hr]. destruct (split_at_len _ _ _ _ E) as (Hrl & _).
  destruct (lenltb r len); [cbn; split; [assumption|split; [assumption|lia]]|].
  destruct (split_at r len) as [[b r']|] eqn:E2; [|exact I].
  destruct (bytes_split _ _ _ _ Hr E2) as [Hbb Hr']. destruct (split_at_len _ _ _ _ E2) as (Hrl2 & _ & Hbl).
  cbn [d_data]. split; [split; [assumption|lia]|]. split; [assumption|lia].
Qed.

Lemma vsafe_rep L {A} (m : M A) (P : A -> Prop) n :
  vsafe L m P -> vsafe L (rep n m) (fun l => Forall P l /\ length l = n).
Proof.
  intros Hm. induction n as [|k IH]; cbn [rep].
  - apply vsafe_ret. split; [constructor|reflexivity].
  - apply (vsafe_bind L m _ P); [exact Hm|]. intros a Ha.
    apply (vsafe_bind L _ _ (fun l => Forall P l /\ length l = k)); [exact IH|].
    intros l [Hl Hn]. apply vsafe_ret. split; [constructor; assumption|cbn; lia].
Qed.

Lemma vsafe_result L {A} (m : M A) (P : A -> Prop) bs v :
  vsafe L m P -> bytes bs -> blen bs <= L -> result_of (run m bs) = ROk v -> P v.
Proof.
  intros H Hb Hl. specialize (H (init bs) (conj Hb Hl)). unfold run. destruct (m (init bs)) as [a s'| |]; cbn; try discriminate.
  intros [= <-]. apply H.
Qed.
