(* Non-vacuity of the at-most-once theorems (Proofs/NonceOnce.v, NonceOnceNode.v): the node of Proofs/BranchRefuted.v that
   follows G - A1 - A2 - S3 - S4 - S5 - S6, where S3 carries three transactions of key 3 (register pool 2, choose it,
   stake one coin) with the nonces 1, 2, 3.  Every premise of the node-level theorem holds for that history (the premise
   on the chains of stored blocks through Proofs/StorePaths.v); the transactions of its main chain have the keys
   (3,1), (3,2), (3,3) and the ledger holds nonce 3 for the address of key 3.  A block that repeated one of them is
   refused by the chain rule: the replay of [S3; S3'] with S3' carrying the stake a second time fails with code 362. *)
From Virel Require Import Lib.Config Lib.U64 Lib.AMap Model.Emission Model.Ledger Model.Node Spec.Chain
  Proofs.AMapLemmas Proofs.Emission Proofs.Conservation Proofs.Pointwise Proofs.NodeBasics Proofs.ForkChoice
  Proofs.ChainInv Proofs.ChainRun Proofs.ChainHeights Proofs.Undo Proofs.Undo2 Proofs.Refine2
  Proofs.Replay1 Proofs.Replay2 Proofs.Replay3 Proofs.Replay4 Proofs.Replay5 Proofs.Replay6
  Proofs.BranchRefuted Proofs.StorePaths Proofs.NonceOnce Proofs.NonceOnceNode Gen.Params.
Open Scope N_scope.

Definition nx_ops : list (block * N) := r_at (r_trunk ++ r_branch).

Lemma nx_node_eq : run cfg_verifnet 7 0 r_node0 nx_ops = r_node_branch. Proof. vm_compute. reflexivity. Qed.

Theorem at_most_once_premises :
  node0 cfg_verifnet 7 r_genesis = Ok r_node0 /\
  let n := run cfg_verifnet 7 0 r_node0 nx_ops in
  cfg_ok_emission cfg_verifnet = true /\ cfg_ok_feepos cfg_verifnet = true /\
  b_height r_genesis = 0 /\ b_cd r_genesis = b_diff r_genesis /\ N.of_nat (length nx_ops) < two64 - 1 /\
  Forall (tx_c cfg_verifnet) (b_txs r_genesis) /\
  (forall h b, get_block n h = Some b -> Forall (fun t => wf_tx cfg_verifnet t /\ ver_ok t = true) (b_txs b)) /\
  (forall bs, up (b_hash r_genesis) (blocks n) (b_hash r_genesis) bs ->
     NoDup (bkeys r_genesis ++ flat_map bkeys bs) /\ c0 r_genesis + bnouts bs < two64 /\ c0 r_genesis + bntx bs < two64).
Proof.
  assert (H0 : node0 cfg_verifnet 7 r_genesis = Ok r_node0) by (vm_compute; reflexivity).
  split; [exact H0|]. cbn zeta.
  assert (Hg0 : b_height r_genesis = 0) by reflexivity.
  assert (Hcd : b_cd r_genesis = b_diff r_genesis) by reflexivity.
  assert (Hlen : N.of_nat (length nx_ops) < two64 - 1) by (vm_compute; reflexivity).
  destruct (reachable_invariants cfg_verifnet 7 0 r_genesis r_node0 nx_ops H0 Hg0 Hcd Hlen) as ((HB & _) & _).
  rewrite nx_node_eq in *.
  split; [vm_compute; reflexivity|]. split; [vm_compute; reflexivity|]. split; [exact Hg0|]. split; [exact Hcd|].
  split; [exact Hlen|]. split; [constructor|]. split.
  - intros h b Hb. unfold get_block in Hb. apply nget_in in Hb. vm_compute in Hb.
    repeat (destruct Hb as [Hb|Hb]; [injection Hb as <- <-; repeat constructor; vm_compute; reflexivity|]). destruct Hb.
  - apply paths_of_store.
    + exact HB.
    + vm_compute. reflexivity.
    + apply nodupb_ok. vm_compute. reflexivity.
    + vm_compute. reflexivity.
    + vm_compute. reflexivity.
Qed.

Theorem at_most_once_example :
  let n := run cfg_verifnet 7 0 r_node0 nx_ops in
  let txs := flat_map b_txs (r_genesis :: mchain n) in
  map b_hash (mchain n) = [2; 3; 23; 24; 25; 26] /\
  map tx_key txs = [(3, 1); (3, 2); (3, 3)] /\
  NoDup (map tx_key txs) /\
  NoDup (map tx_key (chain_txs (lbs n (mchain n)))) /\
  (forall k, let mine := filter (signed_by k) txs in
     map tx_nonce mine = map N.of_nat (seq 1 (length mine)) /\
     nonce (acct_at (ldg n) (addr_of_key k)) = N.of_nat (length mine)) /\
  (forall a, nonce (acct_at (ldg n) a) = N.of_nat (length (filter (sig_at a) txs))) /\
  nonce (acct_at (ldg n) (addr_of_key 3)) = 3.
Proof.
  destruct at_most_once_premises as (H0 & H). cbn zeta in H.
  destruct H as (Hok & Hfp & Hg0 & Hcd & Hlen & Hgen & Htyped & Hpaths).
  pose proof (reachable_at_most_once cfg_verifnet 7 0 r_genesis r_node0 nx_ops Hok Hfp H0 Hg0 Hcd Hlen Hgen Htyped Hpaths)
    as (A & B & C & D).
  cbn zeta. split; [vm_compute; reflexivity|]. split; [vm_compute; reflexivity|].
  split; [exact A|]. split; [exact B|]. split; [exact C|]. split; [exact D|]. vm_compute. reflexivity.
Qed.

(* the chain rule at work: a second block carrying the stake transaction (nonce 3) again does not apply *)
Definition nx_replayed : lblock :=
  mklblock 99 1 4 7 0 2 false 0 [mktx 103 4 3 3 true false (TStake 1000000000 2 0) 3 710000000].

Theorem replayed_tx_refused :
  let n := run cfg_verifnet 7 0 r_node0 nx_ops in
  (exists l, apply_chain cfg_verifnet 7 (ldg r_node0) (firstn 3 (lbs n (mchain n))) = Ok l /\
             nonce (acct_at l (addr_of_key 3)) = 3) /\
  apply_chain cfg_verifnet 7 (ldg r_node0) (firstn 3 (lbs n (mchain n)) ++ [nx_replayed]) = Err 362.
Proof. cbn zeta. split; [eexists; split; vm_compute; reflexivity|vm_compute; reflexivity]. Qed.
