(* Non-vacuity and sharpness for Proofs/StakedBound.v, StakedBoundNode.v, MempoolInv.v, TemplateReach.v.

   1. The bound staked <= balances on a reachable ledger with a non-zero stake: the node of Proofs/BranchRefuted.v that
      follows G - A1 - A2 - S3 - S4 - S5 - S6 (one coin staked in pool 2).
   2. The mempool across a reorganisation: G - A1 with a transfer of key 3, then B1 and B2 (children of G and B1): the node
      reorganises to G - B1 - B2, RemoveBlockFromState re-adds the transfer to the mempool, and the next template carries it;
      every premise of template_txs_ok_reachable holds and its conclusion is the applicability of that list.
   3. The two side conditions on delivered transactions cannot be dropped from the mempool invariant: witnesses on the
      operation that re-adds the transactions of a disconnected block. *)
From Virel Require Import Lib.Config Lib.U64 Lib.AMap Model.Emission Model.Ledger Model.Node Model.Mempool Spec.Chain
  Proofs.AMapLemmas Proofs.Emission Proofs.Conservation Proofs.Pointwise Proofs.NodeBasics Proofs.ForkChoice
  Proofs.ChainInv Proofs.ChainRun Proofs.ChainHeights Proofs.Undo Proofs.Undo2 Proofs.Refine2
  Proofs.Replay1 Proofs.Replay2 Proofs.Replay3 Proofs.Replay4 Proofs.Replay5 Proofs.Replay6
  Proofs.Mempool Proofs.Mempool2 Proofs.Mempool3 Proofs.Mempool4 Proofs.KeyInv
  Proofs.BranchRefuted Proofs.StorePaths Proofs.NonceOnceEx Proofs.StakedBound Proofs.StakedBoundNode Proofs.MempoolInv
  Proofs.TemplateReach Gen.Params.
Open Scope N_scope.

(* ---- 1 ---- *)
Theorem staked_bound_example :
  let n := run cfg_verifnet 7 0 r_node0 nx_ops in
  staked (ldg n) = 1000000000 /\ total_bal (ldg n) = 1225000000000 /\
  staked (ldg n) <= total_bal (ldg n) /\
  staked (ldg n) + total_bal (ldg n) <= 2 * max_supply cfg_verifnet /\
  staked (ldg n) + total_bal (ldg n) < two64.
Proof.
  destruct at_most_once_premises as (H0 & H). cbn zeta in H.
  destruct H as (Hok & Hfp & Hg0 & Hcd & Hlen & Hgen & Htyped & Hpaths).
  cbn zeta. split; [vm_compute; reflexivity|]. split; [vm_compute; reflexivity|].
  exact (reachable_staked_bound cfg_verifnet 7 0 r_genesis r_node0 nx_ops Hok Hfp H0 Hg0 Hcd Hlen Hgen Htyped Hpaths).
Qed.

(* ---- 2 ---- *)
Definition m_tx : tx := mktx 101 1 3 3 true false (TTransfer [(9, 1000)]) 1 246000000.
Definition m_A1 : block := r_block 2 0 1 [1; 0; 0] 0 5 [m_tx].
Definition m_B1 : block := r_block 4 0 1 [1; 0; 0] 0 5 [].
Definition m_B2 : block := r_block 5 0 2 [4; 1; 0] 0 9 [].
Definition m_ops : list (block * N) := r_at [m_A1; m_B1; m_B2].
Definition m_w0 : wnode :=
  Eval vm_compute in match wnode0 cfg_verifnet 7 r_genesis with Ok w => w | _ => mkwnode (mknode [] [] 0 0 0 [] ledger0) [] [] [] end.
Definition m_w1 : wnode := Eval vm_compute in fst (fst (wdeliver cfg_verifnet 7 0 m_w0 m_A1 r_now 0 7200)).
Definition m_w2 : wnode := Eval vm_compute in fst (fst (wdeliver cfg_verifnet 7 0 m_w1 m_B1 r_now 0 7200)).
Definition m_w3 : wnode := Eval vm_compute in fst (fst (wdeliver cfg_verifnet 7 0 m_w2 m_B2 r_now 0 7200)).
Definition m_entry : mentry := mkmentry 101 1 123 246000000 7200 7 [(246001000, 7)] [(9, 1000)].

Lemma m_side_empty w b : b_txs b = [] -> block_side cfg_verifnet w b.
Proof. intros E. unfold block_side. rewrite E. split; [constructor|]. split; [intros t []|intros t t' []]. Qed.

Lemma m_reachable : reachable_t cfg_verifnet 7 0 r_genesis m_w3.
Proof.
  assert (R0 : reachable_t cfg_verifnet 7 0 r_genesis m_w0) by (apply RT_genesis; vm_compute; reflexivity).
  assert (R1 : reachable_t cfg_verifnet 7 0 r_genesis m_w1).
  { apply (RT_deliver cfg_verifnet 7 0 r_genesis m_w0 m_A1 r_now 0 7200 m_w1 Accepted false R0); [|vm_compute; reflexivity].
    split; [|split].
    - repeat constructor; vm_compute; reflexivity.
    - intros t _ t0 Hg. vm_compute in Hg. discriminate Hg.
    - intros t t' [<-|[]] [<-|[]] _. reflexivity. }
  assert (R2 : reachable_t cfg_verifnet 7 0 r_genesis m_w2).
  { apply (RT_deliver cfg_verifnet 7 0 r_genesis m_w1 m_B1 r_now 0 7200 m_w2 Accepted false R1); [|vm_compute; reflexivity].
    apply m_side_empty. reflexivity. }
  apply (RT_deliver cfg_verifnet 7 0 r_genesis m_w2 m_B2 r_now 0 7200 m_w3 Accepted false R2); [|vm_compute; reflexivity].
  apply m_side_empty. reflexivity.
Qed.

Lemma m_wn : wn m_w3 = run cfg_verifnet 7 0 r_node0 m_ops. Proof. vm_compute. reflexivity. Qed.

Theorem template_reach_example :
  (* the history: A1 (with the transfer) accepted as tip, B1 stored beside it, B2 makes the node reorganise *)
  top (wn m_w1) = 2 /\ mpool m_w1 = [] /\ top (wn m_w2) = 2 /\ top (wn m_w3) = 5 /\
  map b_hash (mchain (wn m_w3)) = [4; 5] /\
  (* the transfer is back in the mempool, and the invariant holds *)
  mpool m_w3 = [m_entry] /\ nget (txstore m_w3) 101 = Some m_tx /\
  reachable_t cfg_verifnet 7 0 r_genesis m_w3 /\ mp_inv cfg_verifnet m_w3 /\
  (* the premises about the store *)
  wn m_w3 = run cfg_verifnet 7 0 r_node0 m_ops /\
  (forall h b, get_block (wn m_w3) h = Some b -> Forall (fun t => wf_tx cfg_verifnet t /\ ver_ok t = true) (b_txs b)) /\
  (forall bs, up (b_hash r_genesis) (blocks (wn m_w3)) (b_hash r_genesis) bs ->
     NoDup (bkeys r_genesis ++ flat_map bkeys bs) /\ c0 r_genesis + bnouts bs < two64 /\ c0 r_genesis + bntx bs < two64) /\
  (* the template carries the transfer, and its list is applicable *)
  exists t w', get_block_template cfg_verifnet false m_w3 9 r_now 0 = Ok (t, w') /\ b_txs t = [m_tx] /\ b_height t = 3 /\
    forall bh, exists l1 fee, apply_txs cfg_verifnet (ldg (wn m_w3)) (b_txs t) (b_height t) bh (top_h (wn m_w3)) 0 = Ok (l1, fee).
Proof.
  assert (H0 : node0 cfg_verifnet 7 r_genesis = Ok r_node0) by (vm_compute; reflexivity).
  assert (Hg0 : b_height r_genesis = 0) by reflexivity.
  assert (Hcd : b_cd r_genesis = b_diff r_genesis) by reflexivity.
  assert (Hlen : N.of_nat (length m_ops) < two64 - 1) by (vm_compute; reflexivity).
  destruct (reachable_invariants cfg_verifnet 7 0 r_genesis r_node0 m_ops H0 Hg0 Hcd Hlen) as ((HB & _) & _).
  rewrite <- m_wn in HB.
  assert (Htyped : forall h b, get_block (wn m_w3) h = Some b -> Forall (fun t => wf_tx cfg_verifnet t /\ ver_ok t = true) (b_txs b)).
  { intros h b Hb. unfold get_block in Hb. apply nget_in in Hb. vm_compute in Hb.
    repeat (destruct Hb as [Hb|Hb]; [injection Hb as <- <-; repeat constructor; vm_compute; reflexivity|]). destruct Hb. }
  assert (Hpaths : forall bs, up (b_hash r_genesis) (blocks (wn m_w3)) (b_hash r_genesis) bs ->
     NoDup (bkeys r_genesis ++ flat_map bkeys bs) /\ c0 r_genesis + bnouts bs < two64 /\ c0 r_genesis + bntx bs < two64).
  { apply paths_of_store; [exact HB|vm_compute; reflexivity|apply nodupb_ok; vm_compute; reflexivity
                           |vm_compute; reflexivity|vm_compute; reflexivity]. }
  split; [vm_compute; reflexivity|]. split; [vm_compute; reflexivity|]. split; [vm_compute; reflexivity|].
  split; [vm_compute; reflexivity|]. split; [vm_compute; reflexivity|]. split; [vm_compute; reflexivity|].
  split; [vm_compute; reflexivity|]. split; [exact m_reachable|].
  split; [exact (reachable_mp_inv cfg_verifnet 7 0 r_genesis m_w3 eq_refl m_reachable)|].
  split; [exact m_wn|]. split; [exact Htyped|]. split; [exact Hpaths|].
  destruct (get_block_template cfg_verifnet false m_w3 9 r_now 0) as [[t w']|c|c] eqn:Et;
    [|vm_compute in Et; discriminate Et|vm_compute in Et; discriminate Et].
  exists t, w'. split; [reflexivity|].
  assert (Htx : b_txs t = [m_tx] /\ b_height t = 3) by (vm_compute in Et; injection Et as <- _; split; reflexivity).
  split; [exact (proj1 Htx)|]. split; [exact (proj2 Htx)|]. intros bh.
  apply (template_txs_ok_reachable cfg_verifnet 7 0 r_genesis r_node0 m_ops
           ltac:(vm_compute; reflexivity) ltac:(vm_compute; reflexivity) ltac:(vm_compute; reflexivity)
           H0 Hg0 Hcd eq_refl Hlen) with (w := m_w3) (rcpt := 9) (now := r_now) (now_s := 0) (w' := w').
  - rewrite <- m_wn. exact Htyped.
  - rewrite <- m_wn. exact Hpaths.
  - exact m_reachable.
  - exact m_wn.
  - exact Et.
Qed.

(* ---- 3 ---- *)
(* [ids]: the Tx index holds another transaction under the id of a transaction of the disconnected block (the index never
   overwrites): the re-added entry is made from the block's transaction, the index answers with the other one *)
Definition x_other : tx := mktx 101 1 3 3 true false (TTransfer [(9, 5000)]) 1 246000000.
Definition x_w (mp : list mentry) (store : list (N * tx)) : wnode := mkwnode (wn m_w1) mp [] store.

Theorem mp_inv_disconnect_needs_ids :
  mp_inv cfg_verifnet (x_w [] [(101, x_other)]) /\
  mp_disconnect cfg_verifnet [] m_A1 0 7200 = Ok [m_entry] /\
  tx_adm cfg_verifnet x_other /\
  ~ mp_inv cfg_verifnet (x_w [m_entry] [(101, x_other)]).
Proof.
  split; [intros e t []|]. split; [vm_compute; reflexivity|]. split.
  - split; [|vm_compute; discriminate]. split; [reflexivity|]. split; [repeat constructor; vm_compute; reflexivity|].
    split; [vm_compute; discriminate|]. intros nl nm Hd. discriminate Hd.
  - intros H. destruct (H m_entry x_other (or_introl eq_refl) eq_refl) as ((exp & He) & _).
    vm_compute in He. discriminate He.
Qed.

(* [typed]: a version-0 transfer (what the blocks below HARDFORK_V2 carry) in the disconnected block: the re-added entry's
   transaction is not [tx_adm] (its version byte does not name the payload kind) *)
Definition x_v0 : tx := mktx 101 0 3 3 true false (TTransfer [(9, 1000)]) 1 246000000.
Definition x_A1 : block := r_block 2 0 1 [1; 0; 0] 0 5 [x_v0].
Definition x_entry0 : mentry := mkmentry 101 0 123 246000000 7200 7 [(246001000, 7)] [(9, 1000)].

Theorem mp_inv_disconnect_needs_typed :
  mp_inv cfg_verifnet (x_w [] [(101, x_v0)]) /\
  mp_disconnect cfg_verifnet [] x_A1 0 7200 = Ok [x_entry0] /\
  wf_tx cfg_verifnet x_v0 /\ ver_ok x_v0 = true /\
  ~ mp_inv cfg_verifnet (x_w [x_entry0] [(101, x_v0)]).
Proof.
  split; [intros e t []|]. split; [vm_compute; reflexivity|].
  split; [repeat constructor; vm_compute; reflexivity|]. split; [reflexivity|].
  intros H. destruct (H x_entry0 x_v0 (or_introl eq_refl) eq_refl) as (_ & ((Hty & _) & _)).
  unfold tx_typed in Hty. vm_compute in Hty. discriminate Hty.
Qed.
