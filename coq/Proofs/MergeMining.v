(* Proofs about merge mining (property C16): the chain-list sort, setMiningBlob, and what the proof-of-work
   input commits to.  The model follows block/block.go and block/commitment.go after the repairs recorded in
   KNOWN_FINDINGS.json. *)
From Coq Require Import Bool Sorting.Sorted Sorting.Permutation.
From Virel Require Import Lib.Config Lib.U64 Lib.CheckLib Model.MergeMining.
Open Scope bool_scope.
Open Scope N_scope.

Section Proofs.
Variable cfg : config.
Variable H : Type.
Variable Heqb : H -> H -> bool.
(* the equality test on 32-byte arrays decides equality *)
Hypothesis Heqb_spec : forall a b, Heqb a b = true <-> a = b.

Notation hid := (hashing_id H).
Notation own := (network_id cfg).
Notation net := (hid_net H).
Notation hsh := (hid_hash H).
Notation nets l := (map (hid_net H) l).

Definition lt_net (a b : hid) : Prop := net a < net b.
Definition nonown (v : hid) : bool := negb (net v =? own).

(* ------------------------------------------------------------------ small list facts *)
Lemma existsb_false {A} (f : A -> bool) l : existsb f l = false <-> forall x, In x l -> f x = false.
Proof.
  induction l as [|a l IH]; cbn.
  - split; [intros _ x []|reflexivity].
  - rewrite orb_false_iff, IH. split.
    + intros [Ha Hl] x [<-|Hx]; [exact Ha|apply Hl; exact Hx].
    + intros Hall. split; [apply Hall; left; reflexivity|intros x Hx; apply Hall; right; exact Hx].
Qed.

Lemma filter_all {A} (f : A -> bool) l : (forall x, In x l -> f x = true) -> filter f l = l.
Proof.
  induction l as [|a l IH]; cbn; intros Hall; [reflexivity|].
  rewrite (Hall a (or_introl eq_refl)). f_equal. apply IH. intros x Hx. apply Hall. right. exact Hx.
Qed.

Lemma in_nets (x : hid) l : In x l -> In (net x) (nets l).
Proof. apply in_map. Qed.

Lemma in_nets_inv n (l : list hid) : In n (nets l) -> exists x, In x l /\ net x = n.
Proof. intros Hin. apply in_map_iff in Hin. destruct Hin as (x & E & Hx). exists x. split; assumption. Qed.

(* ------------------------------------------------------------------ strictly sorted lists *)
Lemma sorted_inv (y : hid) r : StronglySorted lt_net (y :: r) ->
  StronglySorted lt_net r /\ forall z, In z r -> net y < net z.
Proof.
  intros Hs. apply StronglySorted_inv in Hs. destruct Hs as [Hr Hf]. split; [exact Hr|].
  intros z Hz. rewrite Forall_forall in Hf. exact (Hf z Hz).
Qed.

Lemma sorted_cons (y : hid) r : StronglySorted lt_net r -> (forall z, In z r -> net y < net z) ->
  StronglySorted lt_net (y :: r).
Proof. intros Hr Hf. constructor; [exact Hr|]. apply Forall_forall. exact Hf. Qed.

(* one entry per network *)
Lemma sorted_net_unique l : StronglySorted lt_net l ->
  forall a b, In a l -> In b l -> net a = net b -> a = b.
Proof.
  induction l as [|y r IH]; intros Hs a b Ha Hb E; [destruct Ha|].
  destruct (sorted_inv y r Hs) as [Hr Hf].
  destruct Ha as [<-|Ha]; destruct Hb as [<-|Hb].
  - reflexivity.
  - specialize (Hf b Hb). lia.
  - specialize (Hf a Ha). lia.
  - apply IH; assumption.
Qed.

Lemma sorted_nodup_nets l : StronglySorted lt_net l -> NoDup (nets l).
Proof.
  induction l as [|y r IH]; intros Hs; cbn; [constructor|].
  destruct (sorted_inv y r Hs) as [Hr Hf]. constructor; [|apply IH; exact Hr].
  intros Hin. destruct (in_nets_inv _ _ Hin) as (z & Hz & E). specialize (Hf z Hz). lia.
Qed.

(* a strictly sorted list is determined by its elements *)
Lemma sorted_perm_unique s1 : forall s2,
  StronglySorted lt_net s1 -> StronglySorted lt_net s2 -> Permutation s1 s2 -> s1 = s2.
Proof.
  induction s1 as [|a s1 IH]; intros s2 H1 H2 Hp.
  - apply Permutation_nil in Hp. symmetry. exact Hp.
  - destruct s2 as [|b s2]; [apply Permutation_sym, Permutation_nil in Hp; discriminate|].
    destruct (sorted_inv a s1 H1) as [H1r H1f]. destruct (sorted_inv b s2 H2) as [H2r H2f].
    assert (E : a = b).
    { assert (Ha : In a (b :: s2)) by (eapply Permutation_in; [exact Hp|left; reflexivity]).
      destruct Ha as [->|Ha]; [reflexivity|].
      assert (Hb : In b (a :: s1)) by (eapply Permutation_in; [apply Permutation_sym; exact Hp|left; reflexivity]).
      destruct Hb as [->|Hb]; [reflexivity|].
      specialize (H1f b Hb). specialize (H2f a Ha). lia. }
    subst b. f_equal. apply IH; try assumption. eapply Permutation_cons_inv. exact Hp.
Qed.

(* ------------------------------------------------------------------ the sort (SortOtherChains, MiningBlob) *)
Lemma insert_chain_spec (x : hid) l : StronglySorted lt_net l ->
  (In (net x) (nets l) -> insert_chain H x l = None) /\
  (~ In (net x) (nets l) ->
   exists s, insert_chain H x l = Some s /\ StronglySorted lt_net s /\ Permutation (x :: l) s).
Proof.
  induction l as [|y r IH]; intros Hs.
  - split; [intros []|]. intros _. exists [x]. split; [reflexivity|]. split; [|apply Permutation_refl].
    apply sorted_cons; [constructor|intros z []].
  - destruct (sorted_inv y r Hs) as [Hr Hf]. specialize (IH Hr). destruct IH as [IHn IHs].
    cbn [insert_chain].
    destruct (N.ltb_spec (net x) (net y)) as [Hxy|Hxy].
    + split.
      * intros Hin. exfalso. cbn in Hin. destruct Hin as [E|Hin]; [lia|].
        destruct (in_nets_inv _ _ Hin) as (z & Hz & E). specialize (Hf z Hz). lia.
      * intros _. exists (x :: y :: r). split; [reflexivity|]. split; [|apply Permutation_refl].
        apply sorted_cons; [exact Hs|]. intros z [<-|Hz]; [exact Hxy|]. specialize (Hf z Hz). lia.
    + destruct (N.ltb_spec (net y) (net x)) as [Hyx|Hyx].
      * split.
        -- intros Hin. cbn in Hin. destruct Hin as [E|Hin]; [lia|]. rewrite (IHn Hin). reflexivity.
        -- intros Hnin. assert (Hnin' : ~ In (net x) (nets r)) by (intros Hc; apply Hnin; right; exact Hc).
           destruct (IHs Hnin') as (s & Es & Ss & Ps). exists (y :: s). rewrite Es. split; [reflexivity|].
           split.
           ++ apply sorted_cons; [exact Ss|]. intros z Hz.
              assert (Hz' : In z (x :: r)) by (eapply Permutation_in; [apply Permutation_sym; exact Ps|exact Hz]).
              destruct Hz' as [<-|Hz']; [exact Hyx|apply Hf; exact Hz'].
           ++ eapply Permutation_trans; [apply perm_swap|]. apply perm_skip. exact Ps.
      * split; [reflexivity|]. intros Hnin. exfalso. apply Hnin. left. lia.
Qed.

Lemma sort_chains_spec l :
  (NoDup (nets l) -> exists s, sort_chains H l = Some s /\ StronglySorted lt_net s /\ Permutation l s) /\
  (~ NoDup (nets l) -> sort_chains H l = None).
Proof.
  induction l as [|x r IH].
  - split; [|intros Hn; exfalso; apply Hn; constructor].
    intros _. exists []. split; [reflexivity|]. split; constructor.
  - destruct IH as [IHs IHn]. cbn [sort_chains map].
    destruct (in_dec N.eq_dec (net x) (nets r)) as [Hin|Hnin].
    + (* x repeats a network id of r *)
      split; [intros Hnd; exfalso; apply NoDup_cons_iff in Hnd; tauto|]. intros _.
      destruct (ListDec.NoDup_dec N.eq_dec (nets r)) as [Hnd|Hnd]; [|rewrite (IHn Hnd); reflexivity].
      destruct (IHs Hnd) as (s & Es & Ss & Ps). rewrite Es.
      apply (insert_chain_spec x s Ss). eapply Permutation_in; [apply Permutation_map; exact Ps|exact Hin].
    + split.
      * intros Hnd. apply NoDup_cons_iff in Hnd. destruct Hnd as [_ Hnd].
        destruct (IHs Hnd) as (s & Es & Ss & Ps). rewrite Es.
        assert (Hnin' : ~ In (net x) (nets s)).
        { intros Hc. apply Hnin. eapply Permutation_in; [apply Permutation_map, Permutation_sym; exact Ps|exact Hc]. }
        destruct (proj2 (insert_chain_spec x s Ss) Hnin') as (s2 & E2 & S2 & P2).
        exists s2. split; [exact E2|]. split; [exact S2|].
        eapply Permutation_trans; [apply perm_skip; exact Ps|exact P2].
      * intros Hn. assert (Hn' : ~ NoDup (nets r)) by (intros Hc; apply Hn; constructor; assumption).
        rewrite (IHn Hn'). reflexivity.
Qed.

Lemma sort_chains_some l : NoDup (nets l) ->
  exists s, sort_chains H l = Some s /\ StronglySorted lt_net s /\ Permutation l s.
Proof. apply sort_chains_spec. Qed.

Lemma sort_chains_none_iff l : sort_chains H l = None <-> ~ NoDup (nets l).
Proof.
  split.
  - intros E Hnd. destruct (sort_chains_some l Hnd) as (s & Es & _). rewrite E in Es. discriminate Es.
  - apply sort_chains_spec.
Qed.

Lemma sort_chains_some_inv l s : sort_chains H l = Some s -> StronglySorted lt_net s /\ Permutation l s.
Proof.
  intros E. destruct (ListDec.NoDup_dec N.eq_dec (nets l)) as [Hnd|Hnd].
  - destruct (sort_chains_some l Hnd) as (s' & Es & Ss & Ps). rewrite E in Es. injection Es as <-. split; assumption.
  - rewrite (proj2 (sort_chains_spec l) Hnd) in E. discriminate E.
Qed.

(* sorting the elements of a strictly sorted list, in any order, gives that list back *)
Lemma sort_chains_of_perm l cs : StronglySorted lt_net cs -> Permutation l cs -> sort_chains H l = Some cs.
Proof.
  intros Ss Pp.
  assert (Hnd : NoDup (nets l)).
  { eapply Permutation_NoDup; [apply Permutation_map, Permutation_sym; exact Pp|apply sorted_nodup_nets; exact Ss]. }
  destruct (sort_chains_some l Hnd) as (s & Es & Ss' & Ps). rewrite Es. f_equal.
  apply sorted_perm_unique; try assumption.
  eapply Permutation_trans; [apply Permutation_sym; exact Ps|exact Pp].
Qed.

(* ------------------------------------------------------------------ this network's entry in a sorted list *)
Lemma filter_nonown_perm cs (o : hid) : StronglySorted lt_net cs -> In o cs -> net o = own ->
  Permutation (filter nonown cs ++ [o]) cs /\ filter (fun v => net v =? own) cs = [o].
Proof.
  induction cs as [|y r IH]; intros Ss Hin Eo; [destruct Hin|].
  destruct (sorted_inv y r Ss) as [Hr Hf]. cbn [filter]. unfold nonown at 1.
  destruct (N.eqb_spec (net y) own) as [Ey|Ey]; cbn [negb].
  - assert (y = o).
    { destruct Hin as [E|Hin]; [exact E|]. specialize (Hf o Hin). lia. }
    subst y.
    assert (Hall : forall z, In z r -> nonown z = true).
    { intros z Hz. specialize (Hf z Hz). unfold nonown. apply negb_true_iff, N.eqb_neq. lia. }
    rewrite (filter_all nonown r Hall). split.
    + apply Permutation_sym. change (o :: r) with ([o] ++ r). apply Permutation_app_comm.
    + f_equal. assert (Hnone : forall z, In z r -> negb (net z =? own) = true) by exact Hall.
      clear - Hnone. induction r as [|z r IHr]; [reflexivity|]. cbn.
      pose proof (Hnone z (or_introl eq_refl)) as Hz. apply negb_true_iff in Hz. rewrite Hz.
      apply IHr. intros w Hw. apply Hnone. right. exact Hw.
  - destruct Hin as [E|Hin]; [subst y; contradiction|].
    destruct (IH Hr Hin Eo) as [Pp Ef]. split; [cbn; apply perm_skip; exact Pp|exact Ef].
Qed.

(* ------------------------------------------------------------------ setMiningBlob *)
Definition dupb (a b : hid) : bool := Heqb (hsh a) (hsh b) || (net a =? net b).

Lemma dupb_sym a b : dupb a b = dupb b a.
Proof.
  unfold dupb. f_equal; [|apply N.eqb_sym].
  destruct (Heqb (hsh a) (hsh b)) eqn:E1; destruct (Heqb (hsh b) (hsh a)) eqn:E2; try reflexivity.
  - apply Heqb_spec in E1. symmetry in E1. apply Heqb_spec in E1. congruence.
  - apply Heqb_spec in E2. symmetry in E2. apply Heqb_spec in E2. congruence.
Qed.

(* the duplicate checks of the loop, for the entries [new] appended one by one to [others] *)
Fixpoint no_dups (others new : list hid) : Prop :=
  match new with
  | [] => True
  | v :: r => is_dup H Heqb others v = false /\ no_dups (others ++ [v]) r
  end.

Lemma is_dup_false others v : is_dup H Heqb others v = false <-> forall oc, In oc others -> dupb oc v = false.
Proof. unfold is_dup. apply existsb_false. Qed.

Lemma nodup_chains_cons v r :
  nodup_chains H Heqb (v :: r) = true <-> (forall w, In w r -> dupb v w = false) /\ nodup_chains H Heqb r = true.
Proof.
  cbn [nodup_chains]. rewrite andb_true_iff, negb_true_iff. rewrite existsb_false. reflexivity.
Qed.

Lemma no_dups_iff new : forall others,
  no_dups others new <->
  (forall oc v, In oc others -> In v new -> dupb oc v = false) /\ nodup_chains H Heqb new = true.
Proof.
  induction new as [|v r IH]; intros others.
  - cbn. split; [intros _; split; [intros ? ? _ []|reflexivity]|tauto].
  - cbn [no_dups]. rewrite is_dup_false, IH, nodup_chains_cons. split.
    + intros (Hv & Hr & Hnd). split; [|split; [|exact Hnd]].
      * intros oc w Hoc [<-|Hw]; [apply Hv; exact Hoc|apply Hr; [apply in_or_app; left; exact Hoc|exact Hw]].
      * intros w Hw. apply Hr; [apply in_or_app; right; left; reflexivity|exact Hw].
    + intros (Hall & Hvr & Hnd). split; [|split; [|exact Hnd]].
      * intros oc Hoc. apply Hall; [exact Hoc|left; reflexivity].
      * intros oc w Hoc Hw. apply in_app_or in Hoc. destruct Hoc as [Hoc|[<-|[]]].
        -- apply Hall; [exact Hoc|right; exact Hw].
        -- apply Hvr. exact Hw.
Qed.

(* strictly ascending from a lower bound *)
Fixpoint asc_from (last : N) (l : list hid) : Prop :=
  match l with [] => True | v :: r => last < net v /\ asc_from (net v) r end.

Lemma asc_from_iff l : forall a,
  asc_from a l <-> (forall z, In z l -> a < net z) /\ StronglySorted lt_net l.
Proof.
  induction l as [|v r IH]; intros a; cbn [asc_from].
  - split; [intros _; split; [intros z []|constructor]|tauto].
  - rewrite IH. split.
    + intros (Hav & Hf & Hs). split.
      * intros z [<-|Hz]; [exact Hav|]. specialize (Hf z Hz). lia.
      * apply sorted_cons; assumption.
    + intros (Hf & Hs). destruct (sorted_inv v r Hs) as [Hr Hfr].
      split; [apply Hf; left; reflexivity|]. split; assumption.
Qed.

Definition own_cond (contains : bool) (l : list hid) : Prop :=
  if contains then ~ In own (nets l) else In own (nets l).

Lemma filter_nonown_cons v r :
  filter nonown (v :: r) = if net v =? own then filter nonown r else v :: filter nonown r.
Proof. cbn [filter]. unfold nonown at 1. destruct (net v =? own); reflexivity. Qed.

(* the loop from the second iteration on *)
Lemma smb_loop_spec chains : forall others contains i last res, i <> 0 ->
  smb_loop cfg H Heqb chains others contains i last = Some res <->
  asc_from last chains /\ own_cond contains chains /\ no_dups others (filter nonown chains) /\
  res = others ++ filter nonown chains.
Proof.
  induction chains as [|v r IH]; intros others contains i last res Hi.
  - cbn. rewrite app_nil_r. destruct contains; cbn.
    + split; [intros [= <-]; tauto|intros (_ & _ & _ & ->); reflexivity].
    + split; [discriminate|intros (_ & [] & _)].
  - cbn [smb_loop asc_from]. rewrite filter_nonown_cons.
    assert (Ei : (0 <? i) = true) by (apply N.ltb_lt; lia). rewrite Ei. cbn [andb].
    destruct (N.leb_spec (net v) last) as [Hle|Hlt].
    { split; [discriminate|]. intros ((Hc & _) & _). lia. }
    assert (Hi' : i + 1 <> 0) by lia.
    destruct (N.eqb_spec (net v) own) as [Ev|Ev]; cbn [negb].
    + (* this network's entry *)
      destruct contains.
      * split; [discriminate|]. intros (_ & Hc & _). exfalso. apply Hc. left. exact Ev.
      * rewrite (IH others true (i + 1) (net v) res Hi'). unfold own_cond. split.
        -- intros (Ha & _ & Hd & Er). repeat split; try assumption. left. exact Ev.
        -- intros ((_ & Ha) & _ & Hd & Er). repeat split; try assumption.
           intros Hin. destruct (in_nets_inv _ _ Hin) as (z & Hz & Ez).
           apply asc_from_iff in Ha. destruct Ha as [Hf _]. specialize (Hf z Hz). lia.
    + (* another chain *)
      cbn [no_dups].
      destruct (is_dup H Heqb others v) eqn:Ed.
      * split; [discriminate|]. intros (_ & _ & (Hc & _) & _). discriminate.
      * rewrite (IH (others ++ [v]) contains (i + 1) (net v) res Hi'). rewrite <- app_assoc. cbn [app].
        assert (Hoc : own_cond contains (v :: r) <-> own_cond contains r).
        { unfold own_cond. cbn [map In]. destruct contains; split; tauto. }
        rewrite Hoc. tauto.
Qed.

(* the whole loop *)
Lemma smb_loop_top chains res :
  smb_loop cfg H Heqb chains [] false 0 0 = Some res <->
  StronglySorted lt_net chains /\ In own (nets chains) /\ nodup_chains H Heqb (filter nonown chains) = true /\
  res = filter nonown chains.
Proof.
  destruct chains as [|v r].
  - cbn. split; [discriminate|intros (_ & [] & _)].
  - cbn [smb_loop]. change (0 <? 0) with false. cbn [andb]. rewrite filter_nonown_cons.
    assert (H1 : 0 + 1 <> 0) by lia.
    destruct (N.eqb_spec (net v) own) as [Ev|Ev]; cbn [negb].
    + rewrite (smb_loop_spec r [] true (0 + 1) (net v) res H1). cbn [app]. unfold own_cond.
      rewrite asc_from_iff, no_dups_iff. split.
      * intros ((Hf & Hs) & _ & (_ & Hnd) & Er). repeat split; try assumption.
        -- apply sorted_cons; assumption.
        -- left. exact Ev.
      * intros (Hs & _ & Hnd & Er). destruct (sorted_inv v r Hs) as [Hr Hf]. repeat split; try assumption.
        -- intros Hin. destruct (in_nets_inv _ _ Hin) as (z & Hz & Ez). specialize (Hf z Hz). lia.
        -- intros oc w [].
    + unfold is_dup. cbn [existsb].
      rewrite (smb_loop_spec r ([] ++ [v]) false (0 + 1) (net v) res H1). cbn [app]. unfold own_cond.
      rewrite asc_from_iff, no_dups_iff, nodup_chains_cons. split.
      * intros ((Hf & Hs) & Hin & (Hd & Hnd) & Er). repeat split; try assumption.
        -- apply sorted_cons; assumption.
        -- right. exact Hin.
        -- intros w Hw. apply Hd; [left; reflexivity|exact Hw].
      * intros (Hs & Hin & (Hd & Hnd) & Er). destruct (sorted_inv v r Hs) as [Hr Hf]. repeat split; try assumption.
        -- destruct Hin as [E|Hin]; [congruence|exact Hin].
        -- intros oc w [<-|[]] Hw. apply Hd. exact Hw.
Qed.

(* the block setMiningBlob produces: timestamp, nonces and other chains from the blob, everything else kept *)
Definition with_blob (b : block H) (m : blob H) (others : list hid) : block H :=
  mkblock H (b_version H b) (b_height H b) (m_timestamp H m) (m_nonce H m) (m_nonce_extra H m)
          others (b_recipient H b) (b_ancestors H b) (b_side_blocks H b)
          (b_delegate_id H b) (b_next_delegate_id H b) (b_stake_sig H b)
          (b_difficulty H b) (b_cumulative_diff H b) (b_txs H b).

(* setMiningBlob succeeds exactly on chain lists that are strictly sorted (every entry, this network's included),
   contain this network's id, and whose other chains pass the duplicate test; it then keeps all other chains *)
Lemma set_mining_blob_ok_iff b m b' :
  set_mining_blob cfg H Heqb b m = SmbOk b' <->
  StronglySorted lt_net (m_chains H m) /\ In own (nets (m_chains H m)) /\
  nodup_chains H Heqb (filter nonown (m_chains H m)) = true /\
  b' = with_blob b m (filter nonown (m_chains H m)).
Proof.
  unfold set_mining_blob.
  destruct (smb_loop cfg H Heqb (m_chains H m) [] false 0 0) as [others|] eqn:E.
  - apply smb_loop_top in E. destruct E as (Hs & Hin & Hnd & ->). split.
    + intros [= <-]. repeat split; assumption.
    + intros (_ & _ & _ & ->). reflexivity.
  - split; [discriminate|]. intros (Hs & Hin & Hnd & _).
    assert (E' : smb_loop cfg H Heqb (m_chains H m) [] false 0 0 = Some (filter nonown (m_chains H m))).
    { apply smb_loop_top. repeat split; assumption. }
    rewrite E in E'. discriminate E'.
Qed.

Lemma set_mining_blob_err_iff b m :
  set_mining_blob cfg H Heqb b m = SmbErr <->
  ~ (StronglySorted lt_net (m_chains H m) /\ In own (nets (m_chains H m)) /\
     nodup_chains H Heqb (filter nonown (m_chains H m)) = true).
Proof.
  split.
  - intros E (Hs & Hin & Hnd).
    assert (E' : set_mining_blob cfg H Heqb b m = SmbOk (with_blob b m (filter nonown (m_chains H m)))).
    { apply set_mining_blob_ok_iff. repeat split; assumption. }
    rewrite E in E'. discriminate E'.
  - intros Hn. destruct (set_mining_blob cfg H Heqb b m) as [b'|] eqn:E; [|reflexivity].
    exfalso. apply Hn. apply set_mining_blob_ok_iff in E. tauto.
Qed.

(* the other chains of an accepted blob pass PrevalidateBlock's checks on OtherChains *)
Lemma set_mining_blob_validated b m b' :
  set_mining_blob cfg H Heqb b m = SmbOk b' ->
  validated_other_chains cfg H Heqb (b_other_chains H b') = true.
Proof.
  intros E. apply set_mining_blob_ok_iff in E. destruct E as (_ & _ & Hnd & ->). cbn.
  unfold validated_other_chains. rewrite Hnd, andb_true_r.
  apply forallb_forall. intros x Hx. apply filter_In in Hx. exact (proj2 Hx).
Qed.

(* ------------------------------------------------------------------ hashing ids and the mining blob *)
Section Hashing.
Variable hash_block : block H -> H.
Variable hash_hid : H -> list H -> H.

Notation own_hid := (own_hid cfg H hash_block hash_hid).
Notation mining_blob := (mining_blob cfg H hash_block hash_hid).

Lemma own_hid_net b : net (own_hid b) = own.
Proof. reflexivity. Qed.

(* setMiningBlob does not touch anything the hashing id depends on *)
Lemma own_hid_with_blob b m others : own_hid (with_blob b m others) = own_hid b.
Proof. reflexivity. Qed.

Lemma validated_facts l : validated_other_chains cfg H Heqb l = true ->
  ~ In own (nets l) /\ NoDup (nets l).
Proof.
  unfold validated_other_chains. rewrite andb_true_iff. intros [Hf Hnd]. split.
  - intros Hin. destruct (in_nets_inv _ _ Hin) as (z & Hz & Ez).
    rewrite forallb_forall in Hf. specialize (Hf z Hz). apply negb_true_iff, N.eqb_neq in Hf. contradiction.
  - clear Hf. induction l as [|v r IH]; cbn; [constructor|].
    apply nodup_chains_cons in Hnd. destruct Hnd as [Hd Hr]. constructor; [|apply IH; exact Hr].
    intros Hin. destruct (in_nets_inv _ _ Hin) as (z & Hz & Ez). specialize (Hd z Hz).
    unfold dupb in Hd. apply orb_false_iff in Hd. destruct Hd as [_ Hd]. apply N.eqb_neq in Hd. congruence.
Qed.

(* a blob's chain list is strictly ordered, one entry per network, this chain's hashing id among them *)
Lemma blob_chains_sorted b : validated_other_chains cfg H Heqb (b_other_chains H b) = true ->
  exists m, mining_blob b = Some m /\
    m_timestamp H m = b_timestamp H b /\ m_nonce H m = b_nonce H b /\ m_nonce_extra H m = b_nonce_extra H b /\
    StronglySorted lt_net (m_chains H m) /\ NoDup (nets (m_chains H m)) /\
    Permutation (b_other_chains H b ++ [own_hid b]) (m_chains H m) /\
    filter (fun v => net v =? own) (m_chains H m) = [own_hid b].
Proof.
  intros Hv. destruct (validated_facts _ Hv) as [Hno Hnd].
  assert (Hnd' : NoDup (nets (b_other_chains H b ++ [own_hid b]))).
  { rewrite map_app. cbn [map]. apply Permutation_NoDup with (l := own :: nets (b_other_chains H b)).
    - change (own :: nets (b_other_chains H b)) with ([own] ++ nets (b_other_chains H b)). apply Permutation_app_comm.
    - constructor; assumption. }
  destruct (sort_chains_some _ Hnd') as (s & Es & Ss & Ps).
  unfold MergeMining.mining_blob. rewrite Es. eexists. split; [reflexivity|]. cbn.
  repeat split; try assumption.
  - apply sorted_nodup_nets. exact Ss.
  - apply (filter_nonown_perm s (own_hid b) Ss); [|reflexivity].
    eapply Permutation_in; [exact Ps|]. apply in_or_app. right. left. reflexivity.
Qed.

(* a slave-chain node that receives a blob whose chain list is strictly sorted, contains its own hashing id and whose
   other chains are pairwise distinct reconstructs exactly the mined block: same timestamp and nonces, all other
   chains in order, nothing else changed, and the block's own mining blob is the blob received *)
Lemma slave_reconstructs job ts n ne cs :
  StronglySorted lt_net cs -> In (own_hid job) cs -> nodup_chains H Heqb (filter nonown cs) = true ->
  let m := mkblob H ts n ne cs in
  let b' := with_blob job m (filter nonown cs) in
  set_mining_blob cfg H Heqb job m = SmbOk b' /\ mining_blob b' = Some m.
Proof.
  intros Ss Hin Hnd m b'. split.
  - apply set_mining_blob_ok_iff. cbn. repeat split; try assumption.
    change own with (net (own_hid job)). apply in_nets. exact Hin.
  - subst b'. unfold MergeMining.mining_blob. rewrite own_hid_with_blob.
    cbn [b_other_chains b_timestamp b_nonce b_nonce_extra with_blob].
    rewrite (sort_chains_of_perm (filter nonown cs ++ [own_hid job]) cs Ss); [reflexivity|].
    apply (filter_nonown_perm cs (own_hid job) Ss Hin). reflexivity.
Qed.

(* the same, seen from the master chain: whatever validated set of other chains the mined block carries, in whatever
   position this chain's id falls among them *)
Lemma slave_reconstructs_any_others job ts n ne others :
  validated_other_chains cfg H Heqb others = true ->
  exists cs, sort_chains H (others ++ [own_hid job]) = Some cs /\
    let m := mkblob H ts n ne cs in
    exists b', set_mining_blob cfg H Heqb job m = SmbOk b' /\ mining_blob b' = Some m /\
               b_timestamp H b' = ts /\ b_nonce H b' = n /\ b_nonce_extra H b' = ne /\
               Permutation (b_other_chains H b') others.
Proof.
  intros Hv. destruct (validated_facts _ Hv) as [Hno Hnd].
  assert (Hnd' : NoDup (nets (others ++ [own_hid job]))).
  { rewrite map_app. cbn [map]. apply Permutation_NoDup with (l := own :: nets others).
    - change (own :: nets others) with ([own] ++ nets others). apply Permutation_app_comm.
    - constructor; assumption. }
  destruct (sort_chains_some _ Hnd') as (cs & Es & Ss & Ps). exists cs. split; [exact Es|]. intros m.
  assert (Hin : In (own_hid job) cs).
  { eapply Permutation_in; [exact Ps|]. apply in_or_app. right. left. reflexivity. }
  destruct (filter_nonown_perm cs (own_hid job) Ss Hin eq_refl) as [Pf _].
  assert (Pothers : Permutation (filter nonown cs) others).
  { apply Permutation_app_inv_r with (l := [own_hid job]).
    eapply Permutation_trans; [exact Pf|apply Permutation_sym; exact Ps]. }
  assert (Hnd2 : nodup_chains H Heqb (filter nonown cs) = true).
  { (* pairwise distinctness is invariant under permutation *)
    unfold validated_other_chains in Hv. apply andb_true_iff in Hv. destruct Hv as [_ Hv].
    clear - Hv Pothers Heqb_spec. apply Permutation_sym in Pothers. revert Hv.
    induction Pothers as [|x l l' Hp IH|x y l|l l' l'' Hp1 IH1 Hp2 IH2]; intros Hv.
    - exact Hv.
    - apply nodup_chains_cons in Hv. destruct Hv as [Hd Hr]. apply nodup_chains_cons. split; [|apply IH; exact Hr].
      intros w Hw. apply Hd. eapply Permutation_in; [apply Permutation_sym; exact Hp|exact Hw].
    - apply nodup_chains_cons in Hv. destruct Hv as [Hdy Hr]. apply nodup_chains_cons in Hr. destruct Hr as [Hdx Hr].
      apply nodup_chains_cons. split.
      + intros w [<-|Hw]; [rewrite dupb_sym; apply Hdy; left; reflexivity|apply Hdx; exact Hw].
      + apply nodup_chains_cons. split; [|exact Hr]. intros w Hw. apply Hdy. right. exact Hw.
    - apply IH2, IH1. exact Hv. }
  destruct (slave_reconstructs job ts n ne cs Ss Hin Hnd2) as [E1 E2].
  eexists. split; [exact E1|]. split; [exact E2|]. cbn. repeat split; try reflexivity. exact Pothers.
Qed.

(* work is credited (the block's own blob is the received blob) only if the blob contains this chain's hashing id *)
Lemma accept_needs_own_hid job m b' :
  set_mining_blob cfg H Heqb job m = SmbOk b' -> mining_blob b' = Some m -> In (own_hid job) (m_chains H m).
Proof.
  intros E Em. apply set_mining_blob_ok_iff in E. destruct E as (_ & _ & _ & ->).
  unfold MergeMining.mining_blob in Em. cbn [b_other_chains with_blob] in Em.
  change (MergeMining.own_hid cfg H hash_block hash_hid (with_blob job m (filter nonown (m_chains H m)))) with (own_hid job) in Em.
  destruct (sort_chains H (filter nonown (m_chains H m) ++ [own_hid job])) as [s|] eqn:Es; [|discriminate].
  injection Em as Em. destruct (sort_chains_some_inv _ _ Es) as [_ Ps].
  rewrite <- Em. cbn. eapply Permutation_in; [exact Ps|]. apply in_or_app. right. left. reflexivity.
Qed.

(* ---- what the proof-of-work input commits to ----
   explicit hypotheses standing for BLAKE3 and the encoders: Block.Hash identifies what Block.Serialize writes
   (ser_norm), the hashing-id hash identifies the base hash and the ancestors *)
Hypothesis hash_block_inj : forall b1 b2, hash_block b1 = hash_block b2 -> ser_norm H b1 = ser_norm H b2.
Hypothesis hash_hid_inj : forall x a y a', hash_hid x a = hash_hid y a' -> x = y /\ a = a'.

Lemma blob_commits b1 b2 m :
  mining_blob b1 = Some m -> mining_blob b2 = Some m ->
  ser_norm H (base_mask H b1) = ser_norm H (base_mask H b2) /\
  b_ancestors H b1 = b_ancestors H b2 /\
  b_timestamp H b1 = b_timestamp H b2 /\ b_nonce H b1 = b_nonce H b2 /\ b_nonce_extra H b1 = b_nonce_extra H b2 /\
  Permutation (b_other_chains H b1) (b_other_chains H b2).
Proof.
  unfold MergeMining.mining_blob. intros E1 E2.
  destruct (sort_chains H (b_other_chains H b1 ++ [own_hid b1])) as [s1|] eqn:Es1; [|discriminate].
  destruct (sort_chains H (b_other_chains H b2 ++ [own_hid b2])) as [s2|] eqn:Es2; [|discriminate].
  injection E1 as E1. injection E2 as E2. subst m. injection E2 as Et En Ee Ec. subst s2.
  destruct (sort_chains_some_inv _ _ Es1) as [Ss P1]. destruct (sort_chains_some_inv _ _ Es2) as [_ P2].
  assert (Eo : own_hid b1 = own_hid b2).
  { apply (sorted_net_unique s1 Ss).
    - eapply Permutation_in; [exact P1|]. apply in_or_app. right. left. reflexivity.
    - eapply Permutation_in; [exact P2|]. apply in_or_app. right. left. reflexivity.
    - reflexivity. }
  assert (Eh : hash_hid (base_hash H hash_block b1) (b_ancestors H b1) = hash_hid (base_hash H hash_block b2) (b_ancestors H b2)).
  { unfold MergeMining.own_hid in Eo. injection Eo as Eo. exact Eo. }
  apply hash_hid_inj in Eh. destruct Eh as [Eb Ea]. unfold base_hash in Eb. apply hash_block_inj in Eb.
  repeat split; try assumption; try (symmetry; assumption).
  apply Permutation_app_inv_r with (l := [own_hid b1]).
  eapply Permutation_trans; [exact P1|]. rewrite Eo. apply Permutation_sym. exact P2.
Qed.

(* blocks as validation admits them: non-zero difficulty; before the proof-of-stake fork the three proof-of-stake
   fields are not part of the encoding and stay at their zero values *)
Definition ser_wf (b : block H) : Prop :=
  b_difficulty H b <> 0 /\
  (b_version H b = 0 -> b_delegate_id H b = 0 /\ b_next_delegate_id H b = 0 /\ b_stake_sig H b = blank_sig).

(* the block with stake signature and next delegate id blanked *)
Definition clear_ps (b : block H) : block H :=
  mkblock H (b_version H b) (b_height H b) (b_timestamp H b) (b_nonce H b) (b_nonce_extra H b)
          (b_other_chains H b) (b_recipient H b) (b_ancestors H b) (b_side_blocks H b)
          (b_delegate_id H b) 0 blank_sig (b_difficulty H b) (b_cumulative_diff H b) (b_txs H b).

(* two well-formed blocks with the same proof-of-work input and the same order of other chains are the same block
   except for the stake signature and the next delegate id *)
Lemma blob_commits_sorted b1 b2 m : ser_wf b1 -> ser_wf b2 ->
  mining_blob b1 = Some m -> mining_blob b2 = Some m ->
  b_other_chains H b1 = b_other_chains H b2 ->
  clear_ps b1 = clear_ps b2.
Proof.
  intros [Hd1 Hv1] [Hd2 Hv2] E1 E2 Eoc.
  destruct (blob_commits b1 b2 m E1 E2) as (Eb & Ea & Et & En & Ee & _).
  unfold ser_norm in Eb. cbn [base_mask b_difficulty b_version] in Eb.
  destruct (N.eqb_spec (b_difficulty H b1) 0) as [?|_]; [contradiction|].
  destruct (N.eqb_spec (b_difficulty H b2) 0) as [?|_]; [contradiction|].
  destruct b1 as [v1 h1 t1 n1 e1 oc1 rc1 an1 sb1 d1 nd1 sg1 df1 cd1 tx1].
  destruct b2 as [v2 h2 t2 n2 e2 oc2 rc2 an2 sb2 d2 nd2 sg2 df2 cd2 tx2].
  cbn in *. subst.
  destruct (N.eqb_spec v1 0) as [Ez1|Ez1]; destruct (N.eqb_spec v2 0) as [Ez2|Ez2]; cbn in Eb; injection Eb; intros; subst;
    try congruence; unfold clear_ps; cbn.
  - destruct (Hv1 eq_refl) as (-> & _ & _). destruct (Hv2 eq_refl) as (-> & _ & _). reflexivity.
  - reflexivity.
Qed.

End Hashing.

(* ---- the full-strength statement of blob_commits, and why it is false ----
   validation (PrevalidateBlock) does not ask OtherChains to be sorted, while the mining blob sorts them: permuting
   the other chains of a block gives a different block (different Block.Hash) with the same proof-of-work input.
   Recorded as an open finding (KNOWN_FINDINGS.json): repairing it is a consensus-rule change. *)
Definition blob_commits_full (hash_block : block H -> H) (hash_hid : H -> list H -> H) : Prop :=
  forall b1 b2 m,
    validated_other_chains cfg H Heqb (b_other_chains H b1) = true ->
    validated_other_chains cfg H Heqb (b_other_chains H b2) = true ->
    mining_blob cfg H hash_block hash_hid b1 = Some m -> mining_blob cfg H hash_block hash_hid b2 = Some m ->
    b_other_chains H b1 = b_other_chains H b2.

Lemma blob_commits_full_refuted hash_block hash_hid (h1 h2 : H) : h1 <> h2 ->
  ~ blob_commits_full hash_block hash_hid.
Proof.
  intros Hne Hfull.
  set (c1 := (own + 1, h1) : hid). set (c2 := (own + 2, h2) : hid).
  set (mk := fun oc => mkblock H 1 5 0 0 0 oc 0 [] 0 0 0 0 1 1 0).
  assert (Hneq : Heqb h1 h2 = false).
  { destruct (Heqb h1 h2) eqn:E; [apply Heqb_spec in E; contradiction|reflexivity]. }
  assert (Hneq' : Heqb h2 h1 = false).
  { destruct (Heqb h2 h1) eqn:E; [apply Heqb_spec in E; symmetry in E; contradiction|reflexivity]. }
  assert (Hv : forall a b : hid, (a = c1 /\ b = c2) \/ (a = c2 /\ b = c1) -> validated_other_chains cfg H Heqb [a; b] = true).
  { intros a b Hab. unfold validated_other_chains. cbn.
    destruct Hab as [[-> ->]|[-> ->]]; cbn; rewrite ?Hneq, ?Hneq'; cbn;
      repeat match goal with |- context [?x =? ?y] => let E := fresh in destruct (N.eqb_spec x y) as [E|E]; [exfalso; lia|] end;
      reflexivity. }
  assert (Hown : forall oc, MergeMining.own_hid cfg H hash_block hash_hid (mk oc) = MergeMining.own_hid cfg H hash_block hash_hid (mk [])).
  { reflexivity. }
  set (o := MergeMining.own_hid cfg H hash_block hash_hid (mk [])).
  assert (Hnd : NoDup (nets ([c1; c2] ++ [o]))).
  { cbn. repeat constructor; cbn; intuition lia. }
  destruct (sort_chains_some _ Hnd) as (s & Es & Ss & Ps).
  assert (Es2 : sort_chains H ([c2; c1] ++ [o]) = Some s).
  { apply sort_chains_of_perm; [exact Ss|]. eapply Permutation_trans; [|exact Ps]. cbn. apply perm_swap. }
  specialize (Hfull (mk [c1; c2]) (mk [c2; c1]) (mkblob H 0 0 0 s)).
  unfold MergeMining.mining_blob in Hfull. cbn [b_other_chains mk] in Hfull.
  rewrite (Hown [c1; c2]), (Hown [c2; c1]) in Hfull. fold o in Hfull. rewrite Es, Es2 in Hfull. cbn in Hfull.
  specialize (Hfull (Hv c1 c2 (or_introl (conj eq_refl eq_refl))) (Hv c2 c1 (or_intror (conj eq_refl eq_refl))) eq_refl eq_refl).
  injection Hfull as E. lia.
Qed.

End Proofs.

(* ------------------------------------------------------------------ the run-time checker's reference predicate
   Check/C16.v decides "well-formed chain list" by its own boolean functions (H := N, hashes renumbered); they say
   exactly what the condition of set_mining_blob_ok_iff / set_mining_blob_err_iff says. *)
From Virel Require Import Check.C16.

Section Checker.
Variable cfg : config.
Notation ownN := (network_id cfg).

Lemma existsb_ext_in {A} (f g : A -> bool) l : (forall x, In x l -> f x = g x) -> existsb f l = existsb g l.
Proof.
  induction l as [|a l IH]; intros Hfg; [reflexivity|]. cbn.
  rewrite (Hfg a (or_introl eq_refl)). f_equal. apply IH. intros x Hx. apply Hfg. right. exact Hx.
Qed.

Lemma strictly_ascending_iff (l : list (hashing_id N)) :
  strictly_ascending l = true <-> StronglySorted (lt_net N) l.
Proof.
  induction l as [|a [|b r] IH].
  - split; [constructor|reflexivity].
  - split; [intros _; apply sorted_cons; [constructor|intros z []]|reflexivity].
  - change (strictly_ascending (a :: b :: r)) with ((fst a <? fst b) && strictly_ascending (b :: r)).
    rewrite andb_true_iff, N.ltb_lt, IH. split.
    + intros [Hab Hs]. apply sorted_cons; [exact Hs|].
      destruct (sorted_inv N b r Hs) as [_ Hf].
      intros z [<-|Hz]; [exact Hab|]. specialize (Hf z Hz). unfold hid_net in *. lia.
    + intros Hs. destruct (sorted_inv N a (b :: r) Hs) as [Hr Hf]. split; [|exact Hr].
      apply (Hf b). left. reflexivity.
Qed.

Lemma sorted_filter (f : hashing_id N -> bool) l : StronglySorted (lt_net N) l -> StronglySorted (lt_net N) (filter f l).
Proof.
  induction l as [|a r IH]; intros Hs; [constructor|].
  destruct (sorted_inv N a r Hs) as [Hr Hf]. cbn. destruct (f a); [|apply IH; exact Hr].
  apply sorted_cons; [apply IH; exact Hr|]. intros z Hz. apply filter_In in Hz. apply Hf. tauto.
Qed.

Lemma nodup_hashes_chains l : StronglySorted (lt_net N) l -> nodup_hashes l = nodup_chains N N.eqb l.
Proof.
  induction l as [|v r IH]; intros Hs; [reflexivity|].
  destruct (sorted_inv N v r Hs) as [Hr Hf]. cbn [nodup_hashes nodup_chains]. rewrite (IH Hr). f_equal. f_equal.
  apply existsb_ext_in. intros w Hw. specialize (Hf w Hw). unfold hid_hash, hid_net in *.
  destruct (N.eqb_spec (fst v) (fst w)) as [E|_]; [lia|]. rewrite orb_false_r. apply N.eqb_sym.
Qed.

Lemma checker_wellformed_iff (ch : list (hashing_id N)) :
  blob_wellformed cfg ch = true <->
  StronglySorted (lt_net N) ch /\ In ownN (map (hid_net N) ch) /\
  nodup_chains N N.eqb (filter (nonown cfg N) ch) = true.
Proof.
  unfold blob_wellformed. rewrite !andb_true_iff, strictly_ascending_iff.
  change (others_of cfg ch) with (filter (nonown cfg N) ch).
  split.
  - intros [[Hs Hc] Hn]. split; [exact Hs|]. split.
    + apply Nat.eqb_eq in Hc. unfold count_net in Hc.
      destruct (filter (fun v => fst v =? ownN) ch) as [|x t] eqn:Ef; [discriminate|].
      assert (Hx : In x (filter (fun v => fst v =? ownN) ch)) by (rewrite Ef; left; reflexivity).
      apply filter_In in Hx. destruct Hx as [Hx Ex]. apply N.eqb_eq in Ex. rewrite <- Ex. apply in_map. exact Hx.
    + rewrite <- nodup_hashes_chains; [exact Hn|]. apply sorted_filter. exact Hs.
  - intros (Hs & Hin & Hn). split; [split; [exact Hs|]|].
    + apply in_map_iff in Hin. destruct Hin as (o & Eo & Ho).
      destruct (filter_nonown_perm cfg N ch o Hs Ho Eo) as [_ Ef].
      unfold count_net.
      assert (G : length (filter (fun v : N * N => fst v =? ownN) ch) = 1%nat) by exact (f_equal (@length _) Ef).
      rewrite G. reflexivity.
    + rewrite nodup_hashes_chains; [exact Hn|]. apply sorted_filter. exact Hs.
Qed.

End Checker.
