(* From the byte-level codec model to the symbolic ledger model: whatever the wire decoders return is typed.

   For EVERY list of numbers bs (no bound on its length, no bound on its elements), every configuration and both modes of
   Transaction.Deserialize: if the decoder returns a transaction, then its version byte is the one of its payload kind
   (mode with version byte: 1..5 = AssociatedTransactionVersion of the payload; mode without: 0 and the payload is a
   transfer) and every integer field is below 2^64.  Hence its abstraction (Spec/TxAbs.v) satisfies [ver_ok]
   (Proofs/Refine2.v) and [wf_tx] (Proofs/Conservation.v): the two "codec facts" that Proofs/Replay4.v, Replay5.v and
   History3.v take as premises on the block store.

   Where the bound comes from.  Every integer field of a transaction (output amounts and payment ids, delegate ids,
   stake amounts, unlock heights, nonce, fee) is read by Des.ReadUvarint.  Go's binary.Uvarint accumulates
   x |= uint64(b & 0x7f) << s in a uint64 and reports an overflow (n < 0) on a tenth byte above 1 or an eleventh byte;
   Des.ReadUvarint then sets the sticky error and returns 0.  Model/Des.v transcribes exactly that ([uvarint_go]: shifts
   through [wshl] are taken modulo 2^64, overflow gives (0, negative)), so the value handed on is below 2^64 on every
   input ([uvarint_lt] of Proofs/DesSafe.v; no premise on the bytes).  No field of a transaction is read with
   ReadUint64, so no premise "elements below 256" is needed either.

   The reasoning is a postcondition calculus without any state invariant: [post m P] = whenever m goes on, its value
   satisfies P. *)
From Virel Require Import Lib.Config Lib.U64 Model.Des Model.Codec Model.CodecBlock Proofs.Des Proofs.DesSafe Spec.TxAbs.
From Virel Require Model.Ledger Proofs.Conservation Proofs.Refine2 Proofs.Mempool.
Open Scope N_scope.

(* ------------------------------------------------------------------ postconditions *)
Definition post {A} (m : M A) (P : A -> Prop) : Prop :=
  forall s, match m s with MOk a _ => P a | _ => True end.

Lemma post_any {A} (m : M A) : post m (fun _ => True).
Proof. intros s. destruct (m s); exact I. Qed.

Lemma post_weaken {A} (m : M A) (P Q : A -> Prop) : post m P -> (forall a, P a -> Q a) -> post m Q.
Proof. intros Hm HPQ s. specialize (Hm s). destruct (m s); [apply HPQ; exact Hm|exact I|exact I]. Qed.

Lemma post_ret {A} (a : A) (P : A -> Prop) : P a -> post (ret a) P.
Proof. intros Ha s. exact Ha. Qed.

Lemma post_fail {A} (P : A -> Prop) : post (@fail A) P.
Proof. intros s. exact I. Qed.

Lemma post_ret_err {A} (a : A) (P : A -> Prop) : P a -> post (ret_err a) P.
Proof. intros Ha s. unfold ret_err. destruct (d_err s); [exact I|exact Ha]. Qed.

Lemma post_bind {A B} (m : M A) (f : A -> M B) (P : A -> Prop) (Q : B -> Prop) :
  post m P -> (forall a, P a -> post (f a) Q) -> post (bind m f) Q.
Proof.
  intros Hm Hf s. unfold bind. specialize (Hm s). destruct (m s) as [a s'| |]; [|exact I|exact I].
  exact (Hf a Hm s').
Qed.

(* a step whose value does not matter *)
Lemma post_skip {A B} (m : M A) (f : A -> M B) (Q : B -> Prop) :
  (forall a, post (f a) Q) -> post (bind m f) Q.
Proof. intros Hf. apply (post_bind m f (fun _ => True)); [apply post_any|intros a _; apply Hf]. Qed.

Lemma post_sub_des {A} (sl : list N) (m : M A) (P : A -> Prop) : post m P -> post (sub_des sl m) P.
Proof.
  intros Hm s. unfold sub_des. specialize (Hm (mkdes sl false (d_alloc s))).
  destruct (m (mkdes sl false (d_alloc s))); [exact Hm|exact I|exact I].
Qed.

Lemma post_rep {A} (m : M A) (P : A -> Prop) n : post m P -> post (rep n m) (Forall P).
Proof.
  intros Hm. induction n as [|k IH]; cbn [rep].
  - apply post_ret. constructor.
  - apply (post_bind m _ P); [exact Hm|]. intros a Ha.
    apply (post_bind _ _ (Forall P)); [exact IH|]. intros l Hl. apply post_ret. constructor; assumption.
Qed.

(* Des.ReadUvarint: below 2^64 on every input *)
Lemma post_read_uvarint : post read_uvarint (fun v => v < two64).
Proof.
  intros s. unfold read_uvarint.
  destruct (d_err s); [reflexivity|].
  destruct (lenltb (d_data s) 1); [reflexivity|].
  pose proof (uvarint_lt (d_data s)) as Hv.
  destruct (uvarint (d_data s)) as [d x]. cbn [fst] in Hv.
  destruct (x <? 0)%Z; [reflexivity|].
  destruct (split_at (d_data s) (Z.to_N x)) as [[a r]|]; [exact Hv|exact I].
Qed.

Lemma post_result {A} (m : M A) (P : A -> Prop) bs v : post m P -> result_of (run m bs) = ROk v -> P v.
Proof.
  intros Hm. unfold run. specialize (Hm (init bs)). destruct (m (init bs)) as [a s'| |]; cbn [result_of]; try discriminate.
  intros [= <-]. exact Hm.
Qed.

Lemma post_run {A} (m : M A) (P : A -> Prop) bs v s' : post m P -> run m bs = MOk v s' -> P v.
Proof. intros Hm H. apply (post_result m P bs v Hm). rewrite H. reflexivity. Qed.

(* ------------------------------------------------------------------ what a decoded transaction looks like *)
Definition output_u64 (o : output) : Prop := o_payment_id o < two64 /\ o_amount o < two64.

Definition data_u64 (d : txdata) : Prop :=
  match d with
  | Transfer outs => Forall output_u64 outs
  | RegisterDelegate _ id => id < two64
  | SetDelegate d p => d < two64 /\ p < two64
  | Stake a d p => a < two64 /\ d < two64 /\ p < two64
  | Unstake a d => a < two64 /\ d < two64
  end.

(* mode with version byte: the byte is not 0 and is the version of the payload kind (so it is one of 1..5);
   mode without: version 0 and a transfer *)
Definition tx_struct (has_version : bool) (t : tx) : Prop :=
  (if has_version then tx_version t <> 0 /\ tx_version t = data_version (tx_data t)
   else tx_version t = 0 /\ exists outs, tx_data t = Transfer outs)
  /\ data_u64 (tx_data t) /\ tx_nonce t < two64 /\ tx_fee t < two64.

Section Decoders.
Variable cfg : config.

Lemma post_dec_output : post (dec_output cfg) output_u64.
Proof.
  unfold dec_output. apply post_skip. intros r0. apply post_skip. intros r.
  apply (post_bind _ _ _ _ post_read_uvarint). intros p Hp.
  apply (post_bind _ _ _ _ post_read_uvarint). intros a Ha.
  apply post_ret_err. split; assumption.
Qed.

Lemma post_dec_transfer : post (dec_transfer cfg) (fun d => data_u64 d /\ data_version d = 1).
Proof.
  unfold dec_transfer. apply post_skip. intros n.
  destruct ((max_outputs cfg <? n) || (n =? 0)); [apply post_fail|].
  apply post_skip. intros _.
  apply (post_bind _ _ _ _ (post_rep (dec_output cfg) output_u64 (N.to_nat n) post_dec_output)). intros outs Houts.
  apply post_ret_err. split; [exact Houts|reflexivity].
Qed.

Lemma post_dec_register : post dec_register (fun d => data_u64 d /\ data_version d = 2).
Proof.
  unfold dec_register. apply post_skip. intros name.
  apply (post_bind _ _ _ _ post_read_uvarint). intros id Hid.
  apply post_ret_err. split; [exact Hid|reflexivity].
Qed.

Lemma post_dec_set_delegate : post dec_set_delegate (fun d => data_u64 d /\ data_version d = 3).
Proof.
  unfold dec_set_delegate.
  apply (post_bind _ _ _ _ post_read_uvarint). intros d Hd.
  apply (post_bind _ _ _ _ post_read_uvarint). intros p Hp.
  apply post_ret_err. split; [split; assumption|reflexivity].
Qed.

Lemma post_dec_stake : post dec_stake (fun d => data_u64 d /\ data_version d = 4).
Proof.
  unfold dec_stake.
  apply (post_bind _ _ _ _ post_read_uvarint). intros a Ha.
  apply (post_bind _ _ _ _ post_read_uvarint). intros d Hd.
  apply (post_bind _ _ _ _ post_read_uvarint). intros p Hp.
  apply post_ret_err. split; [split; [|split]; assumption|reflexivity].
Qed.

Lemma post_dec_unstake : post dec_unstake (fun d => data_u64 d /\ data_version d = 5).
Proof.
  unfold dec_unstake.
  apply (post_bind _ _ _ _ post_read_uvarint). intros a Ha.
  apply (post_bind _ _ _ _ post_read_uvarint). intros d Hd.
  apply post_ret_err. split; [split; assumption|reflexivity].
Qed.

(* Transaction.Deserialize, both modes, every configuration *)
Lemma post_dec_tx hv : post (dec_tx cfg hv) (tx_struct hv).
Proof.
  unfold dec_tx.
  apply (post_bind _ _ (fun ver => if hv then ver <> 0 else ver = 0)).
  { destruct hv; [|apply post_ret; reflexivity].
    apply post_skip. intros v.
    destruct ((max_tx_version cfg <? v) || (v =? 0)) eqn:E; [apply post_fail|].
    apply post_ret. apply Bool.orb_false_elim in E. destruct E as [_ E0]. apply N.eqb_neq in E0. exact E0. }
  intros ver Hver.
  apply post_skip. intros sg0. apply post_skip. intros sg. apply post_skip. intros si0. apply post_skip. intros si.
  apply (post_bind _ _ (fun d => data_u64 d /\ data_version d = (if ver =? 0 then 1 else ver))).
  { destruct (N.eqb_spec ver 0) as [->|Hn0]; [cbn [orb]; apply post_dec_transfer|]. cbn [orb].
    destruct (N.eqb_spec ver 1) as [->|Hn1]; [apply post_dec_transfer|].
    destruct (N.eqb_spec ver 2) as [->|Hn2]; [apply post_dec_register|].
    destruct (N.eqb_spec ver 3) as [->|Hn3]; [apply post_dec_set_delegate|].
    destruct (N.eqb_spec ver 4) as [->|Hn4]; [apply post_dec_stake|].
    destruct (N.eqb_spec ver 5) as [->|Hn5]; [apply post_dec_unstake|].
    apply post_fail. }
  intros d [Hd Hdv].
  apply (post_bind _ _ _ _ post_read_uvarint). intros nonce Hnonce.
  apply (post_bind _ _ _ _ post_read_uvarint). intros fee Hfee.
  apply post_ret_err. unfold tx_struct. cbn [tx_version tx_data tx_nonce tx_fee].
  split; [|split; [exact Hd|split; assumption]].
  destruct hv.
  - split; [exact Hver|]. destruct (N.eqb_spec ver 0) as [E|_]; [contradiction|]. symmetry. exact Hdv.
  - subst ver. split; [reflexivity|]. cbn [N.eqb] in Hdv.
    destruct d as [outs| | | |]; cbn [data_version] in Hdv; try discriminate. exists outs. reflexivity.
Qed.

Theorem dec_tx_struct hv bs t : result_of (run (dec_tx cfg hv) bs) = ROk t -> tx_struct hv t.
Proof. apply post_result. apply post_dec_tx. Qed.

(* the version byte of an accepted transaction is within 1..5 whatever MAX_TX_VERSION says *)
Lemma tx_struct_version_range t : tx_struct true t -> 1 <= tx_version t <= 5.
Proof.
  intros ((Hn0 & Hv) & _). rewrite Hv in *. destruct (tx_data t); cbn [data_version] in *; lia.
Qed.

(* ---- Block.DeserializeFull: the transactions of the returned block, in the mode its height prescribes ---- *)
Lemma post_dec_full_block :
  post (dec_full_block cfg)
       (fun r => Forall (tx_struct (hf_v2 cfg <=? hd_height (bl_header (fst r)))) (snd r)).
Proof.
  unfold dec_full_block.
  apply post_skip. intros h. apply post_skip. intros diff. apply post_skip. intros cum. apply post_skip. intros ntx.
  apply post_skip. intros _.
  destruct (max_tx_per_block cfg <? ntx); [apply post_fail|].
  apply post_skip. intros _.
  apply (post_bind _ _ (Forall (tx_struct (hf_v2 cfg <=? hd_height h)))).
  { apply post_rep. apply post_skip. intros sl.
    apply (post_bind _ _ (tx_struct (hf_v2 cfg <=? hd_height h))); [apply post_sub_des, post_dec_tx|].
    intros t Ht. apply post_skip. intros _. apply post_ret. exact Ht. }
  intros txs Htxs. apply post_ret_err. cbn [fst snd bl_header]. exact Htxs.
Qed.

Theorem dec_full_block_struct bs b txs :
  result_of (run (dec_full_block cfg) bs) = ROk (b, txs) ->
  Forall (tx_struct (hf_v2 cfg <=? hd_height (bl_header b))) txs.
Proof. intros H. exact (post_result _ _ bs (b, txs) post_dec_full_block H). Qed.

(* ---- Blockchain.GetTx (blockchain/bc-txn.go): the stored form of a transaction is the 8 little-endian bytes of the
   height it is included at, followed by Transaction.Serialize().  GetTx reads the height, then hands the remaining
   data to Transaction.Deserialize (which opens its own Des): with the version byte iff includedIn >= HARDFORK_V2_HEIGHT;
   for includedIn = 0 (not yet included) it tries one mode and, when that returns an error, the other one (first with
   the version byte iff topheight > HARDFORK_V2_HEIGHT).  This transcription is NOT part of Model/ (it is not compared
   with the implementation by a harness); the allocation counter is not carried through the failed first attempt. ---- *)
Definition dec_stored_tx (topheight : N) : M (tx * N) :=
  inc <- read_u64 ;;
  check_err ;;;
  rem <- remaining ;;
  if inc =? 0 then
    let first := hf_v2 cfg <? topheight in
    fun s => match sub_des rem (dec_tx cfg first) s with
             | MOk t s' => MOk (t, inc) s'
             | MErr _ => bind (sub_des rem (dec_tx cfg (negb first))) (fun t => ret (t, inc)) s
             | MPanic => MPanic
             end
  else t <- sub_des rem (dec_tx cfg (hf_v2 cfg <=? inc)) ;; ret (t, inc).

Lemma post_dec_stored_tx top :
  post (dec_stored_tx top)
       (fun r => if snd r =? 0 then tx_struct true (fst r) \/ tx_struct false (fst r)
                 else tx_struct (hf_v2 cfg <=? snd r) (fst r)).
Proof.
  unfold dec_stored_tx. apply post_skip. intros inc. apply post_skip. intros _. apply post_skip. intros rem.
  destruct (inc =? 0) eqn:Einc.
  - intros s. pose proof (post_sub_des rem _ _ (post_dec_tx (hf_v2 cfg <? top)) s) as H1.
    destruct (sub_des rem (dec_tx cfg (hf_v2 cfg <? top)) s) as [t s'|n|]; [| |exact I].
    + cbn [fst snd]. rewrite Einc. destruct (hf_v2 cfg <? top); [left|right]; exact H1.
    + pose proof (post_sub_des rem _ _ (post_dec_tx (negb (hf_v2 cfg <? top))) s) as H2. unfold bind.
      destruct (sub_des rem (dec_tx cfg (negb (hf_v2 cfg <? top))) s) as [t s'|n'|]; [|exact I|exact I].
      cbn [ret fst snd]. rewrite Einc. destruct (hf_v2 cfg <? top); cbn [negb] in H2; [right|left]; exact H2.
  - apply (post_bind _ _ (tx_struct (hf_v2 cfg <=? inc))); [apply post_sub_des, post_dec_tx|].
    intros t Ht. apply post_ret. cbn [fst snd]. rewrite Einc. exact Ht.
Qed.

Theorem dec_stored_tx_struct top bs t inc :
  result_of (run (dec_stored_tx top) bs) = ROk (t, inc) ->
  (exists hv, tx_struct hv t) /\ (inc <> 0 -> tx_struct (hf_v2 cfg <=? inc) t).
Proof.
  intros H. pose proof (post_result _ _ bs (t, inc) (post_dec_stored_tx top) H) as Hp. cbn [fst snd] in Hp.
  destruct (N.eqb_spec inc 0) as [E|E].
  - split; [|intros Hn; contradiction]. destruct Hp as [Hp|Hp]; [exists true|exists false]; exact Hp.
  - split; [exists (hf_v2 cfg <=? inc); exact Hp|intros _; exact Hp].
Qed.

End Decoders.

(* ------------------------------------------------------------------ the abstraction is typed *)
Section Abstraction.
Variable txid_of key_id addr_id name_id : list N -> N.
Variable sig_by : tx -> N.
Variable sig_msg : tx -> bool.
Variable signer_invalid : list N -> bool.
Notation abs_tx := (abs_tx txid_of key_id addr_id name_id sig_by sig_msg signer_invalid).
Notation abs_data := (abs_data addr_id name_id).

Lemma abs_data_version d : Ledger.data_version (abs_data d) = data_version d.
Proof. destruct d; reflexivity. Qed.

Lemma abs_ver_ok hv t : tx_struct hv t -> Refine2.ver_ok (abs_tx t) = true.
Proof.
  intros (Hv & _). unfold Refine2.ver_ok, abs_tx. cbn [Ledger.tx_version Ledger.tx_data]. rewrite abs_data_version.
  destruct hv.
  - destruct Hv as [_ ->]. rewrite N.eqb_refl. apply Bool.orb_true_r.
  - destruct Hv as [-> (outs & ->)]. reflexivity.
Qed.

(* mode with version byte: the equation [tx_typed] of Proofs/Mempool.v *)
Lemma abs_tx_typed t : tx_struct true t -> Mempool.tx_typed (abs_tx t).
Proof.
  intros ((_ & Hv) & _). unfold Mempool.tx_typed, abs_tx. cbn [Ledger.tx_version Ledger.tx_data].
  rewrite abs_data_version. exact Hv.
Qed.

Lemma abs_wf_data d : data_u64 d -> Conservation.wf_data (abs_data d).
Proof.
  destruct d as [outs|name id|d p|a d p|a d]; cbn [data_u64 abs_data Conservation.wf_data]; try tauto.
  intros H. apply Forall_map. eapply Forall_impl; [|exact H]. intros o [_ Ha]. exact Ha.
Qed.

Lemma abs_wf_tx cfg hv t : register_burn cfg < two64 -> tx_struct hv t -> Conservation.wf_tx cfg (abs_tx t).
Proof.
  intros Hb (_ & Hd & _ & Hf). unfold Conservation.wf_tx, abs_tx. cbn [Ledger.tx_fee Ledger.tx_data].
  split; [exact Hf|]. split; [apply abs_wf_data; exact Hd|exact Hb].
Qed.

(* every integer of the abstraction is a uint64 (not only those wf_tx asks for) *)
Lemma abs_nonce_u64 hv t : tx_struct hv t -> Ledger.tx_nonce (abs_tx t) < two64.
Proof. intros (_ & _ & Hn & _). exact Hn. Qed.

(* the side condition on the constants *)
Definition cfg_ok_burn (cfg : config) : bool := register_burn cfg <? two64.

(* ---- (2) Transaction.Deserialize ---- *)
Theorem decoded_tx_is_typed cfg hv bs t :
  cfg_ok_burn cfg = true ->
  result_of (run (dec_tx cfg hv) bs) = ROk t ->
  Refine2.ver_ok (abs_tx t) = true /\ Conservation.wf_tx cfg (abs_tx t).
Proof.
  intros Hb H. apply N.ltb_lt in Hb. pose proof (dec_tx_struct cfg hv bs t H) as Hs.
  split; [exact (abs_ver_ok hv t Hs)|exact (abs_wf_tx cfg hv t Hb Hs)].
Qed.

(* ... and which version it carries: with the version byte the one of the payload kind, within 1..5; without, 0 *)
Theorem decoded_tx_version cfg hv bs t :
  result_of (run (dec_tx cfg hv) bs) = ROk t ->
  if hv then Mempool.tx_typed (abs_tx t) /\ 1 <= Ledger.tx_version (abs_tx t) <= 5
  else Ledger.tx_version (abs_tx t) = 0 /\ exists outs, Ledger.tx_data (abs_tx t) = Ledger.TTransfer outs.
Proof.
  intros H. pose proof (dec_tx_struct cfg hv bs t H) as Hs. destruct hv.
  - split; [exact (abs_tx_typed t Hs)|exact (tx_struct_version_range t Hs)].
  - destruct Hs as ((Hv & outs & Hd) & _). unfold abs_tx. cbn [Ledger.tx_version Ledger.tx_data].
    split; [exact Hv|]. rewrite Hd. eexists. reflexivity.
Qed.

(* ---- (3) Block.DeserializeFull ---- *)
Theorem decoded_block_txs_typed cfg bs b txs :
  cfg_ok_burn cfg = true ->
  result_of (run (dec_full_block cfg) bs) = ROk (b, txs) ->
  Forall (fun t => Refine2.ver_ok (abs_tx t) = true /\ Conservation.wf_tx cfg (abs_tx t)) txs.
Proof.
  intros Hb H. apply N.ltb_lt in Hb. pose proof (dec_full_block_struct cfg bs b txs H) as Hs.
  eapply Forall_impl; [|exact Hs]. intros t Ht.
  split; [exact (abs_ver_ok _ t Ht)|exact (abs_wf_tx cfg _ t Hb Ht)].
Qed.

(* the version regime: below HARDFORK_V2_HEIGHT every transaction of a decoded block has version 0 (and is a transfer),
   from that height on every transaction has the version of its payload kind, within 1..5: exactly the split that
   Transaction.Prevalidate makes on the block height (check 202 of prevalidate_tx) *)
Theorem decoded_block_txs_regime cfg bs b txs :
  result_of (run (dec_full_block cfg) bs) = ROk (b, txs) ->
  Forall (fun t => if hd_height (bl_header b) <? hf_v2 cfg
                   then Ledger.tx_version (abs_tx t) = 0 /\ exists outs, Ledger.tx_data (abs_tx t) = Ledger.TTransfer outs
                   else Mempool.tx_typed (abs_tx t) /\ 1 <= Ledger.tx_version (abs_tx t) <= 5) txs.
Proof.
  intros H. pose proof (dec_full_block_struct cfg bs b txs H) as Hs.
  eapply Forall_impl; [|exact Hs]. intros t Ht. cbv beta in Ht.
  destruct (N.ltb_spec (hd_height (bl_header b)) (hf_v2 cfg)) as [Hlt|Hge].
  - replace (hf_v2 cfg <=? hd_height (bl_header b)) with false in Ht by (symmetry; apply N.leb_gt; exact Hlt).
    destruct Ht as ((Hv & outs & Hd) & _). unfold abs_tx. cbn [Ledger.tx_version Ledger.tx_data].
    split; [exact Hv|]. rewrite Hd. eexists. reflexivity.
  - replace (hf_v2 cfg <=? hd_height (bl_header b)) with true in Ht by (symmetry; apply N.leb_le; exact Hge).
    split; [exact (abs_tx_typed t Ht)|exact (tx_struct_version_range t Ht)].
Qed.

(* ---- the stored form (Blockchain.GetTx) ---- *)
Theorem stored_tx_is_typed cfg top bs t inc :
  cfg_ok_burn cfg = true ->
  result_of (run (dec_stored_tx cfg top) bs) = ROk (t, inc) ->
  Refine2.ver_ok (abs_tx t) = true /\ Conservation.wf_tx cfg (abs_tx t).
Proof.
  intros Hb H. apply N.ltb_lt in Hb. destruct (dec_stored_tx_struct cfg top bs t inc H) as ((hv & Hs) & _).
  split; [exact (abs_ver_ok hv t Hs)|exact (abs_wf_tx cfg hv t Hb Hs)].
Qed.

(* ---- the predicates of Spec/TxAbs.v ---- *)
Theorem tx_decoded_typed cfg x :
  cfg_ok_burn cfg = true ->
  tx_decoded txid_of key_id addr_id name_id sig_by sig_msg signer_invalid cfg x ->
  Conservation.wf_tx cfg x /\ Refine2.ver_ok x = true.
Proof.
  intros Hb (hv & bs & t & H & ->). destruct (decoded_tx_is_typed cfg hv bs t Hb H) as [Hv Hw]. split; assumption.
Qed.

Lemma tx_decoded_at_decoded cfg h x :
  tx_decoded_at txid_of key_id addr_id name_id sig_by sig_msg signer_invalid cfg h x ->
  tx_decoded txid_of key_id addr_id name_id sig_by sig_msg signer_invalid cfg x.
Proof. intros (bs & t & H & ->). exists (hf_v2 cfg <=? h), bs, t. split; [exact H|reflexivity]. Qed.

End Abstraction.

(* ---- non-vacuity: the decoder does return transactions, in both modes (main-net constants).  A transfer of 5 to the
   all-zero address with nonce 1 and fee 7, key and signature bytes zero: with the version byte 1, and without. ---- *)
From Virel Require Import Gen.Params.
Definition ex_tx_bytes (has_version : bool) : list N :=
  (if has_version then [1] else []) ++ zeros 32 ++ zeros 64 ++ [1] ++ zeros 22 ++ [0; 5] ++ [1; 7].
Definition ex_tx (ver : N) : tx := mktx ver (zeros 32) (zeros 64) (Transfer [mkoutput (zeros 22) 0 5]) 1 7.

Lemma decoded_tx_examples :
  result_of (run (dec_tx cfg_mainnet true) (ex_tx_bytes true)) = ROk (ex_tx 1) /\
  result_of (run (dec_tx cfg_mainnet false) (ex_tx_bytes false)) = ROk (ex_tx 0) /\
  (* the version byte selects the payload decoder: the same bytes under version byte 4 are read as a Stake (amount 1,
     pool 0, nonce 0, fee 0; Deserialize does not look at the bytes that follow the fee), never as a transfer under
     version 4 *)
  result_of (run (dec_tx cfg_mainnet true) (4 :: ex_tx_bytes false)) = ROk (mktx 4 (zeros 32) (zeros 64) (Stake 1 0 0) 0 0) /\
  (* an overlong uvarint fee (ten continuation groups, tenth byte 2 = bit 64) is refused, not truncated *)
  result_of (run (dec_tx cfg_mainnet true)
              ([1] ++ zeros 32 ++ zeros 64 ++ [1] ++ zeros 22 ++ [0; 5] ++ [1] ++ [128; 128; 128; 128; 128; 128; 128; 128; 128; 2])) = RErr.
Proof. repeat split; vm_compute; reflexivity. Qed.
