(* Property C09: the hypotheses of C09_template_txs_ok about the ledger and the height, derived for reachable nodes.
   For every node state reachable from genesis by deliveries (reorganisations included):
     staked total <= sum of all balances (the staked coins lie at the delegate addresses: Proofs/StakedBound.v), hence
     staked total + sum of all balances <= 2 * MAX_SUPPLY < 2^64;   tip height + 1 < 2^64;   [linv] (NodeConservation.v).
   So the transaction list of every template built on a reachable node state passes the transaction loop of
   ApplyBlockToState with no hypothesis left on the ledger. *)
From Virel Require Import Lib.Config Lib.U64 Lib.AMap Lib.CheckLib Model.Emission Model.Ledger Model.Node Model.Mempool Spec.Chain
  Proofs.AMapLemmas Proofs.Emission Proofs.Conservation Proofs.Pointwise Proofs.Staking Proofs.StakedSum Proofs.Refine2
  Proofs.NodeBasics Proofs.ForkChoice Proofs.Restart Proofs.ChainInv Proofs.ChainRun Proofs.ChainHeights Proofs.Undo Proofs.Undo2 Proofs.Undo4
  Proofs.Replay1 Proofs.Replay2 Proofs.Replay3 Proofs.Replay4 Proofs.Replay5
  Proofs.Mempool Proofs.Mempool2 Proofs.Mempool3 Proofs.Mempool4 Proofs.MempoolPot Proofs.KeyInv Proofs.NodeConservation Proofs.StakedBound.
Open Scope N_scope.
Open Scope bool_scope.

Section Reach.
Variable cfg : config.
Variable genesis_addr team_key : N.

Lemma tx_c_tx_d t : tx_c cfg t -> tx_d cfg t.
Proof. intros ((Hwf & Htot & _ & Hv) & _). split; [exact Hwf|]. split; assumption. Qed.

Lemma run_len ops : forall n, (length (blocks (run cfg genesis_addr team_key n ops)) <= length (blocks n) + length ops)%nat.
Proof.
  induction ops as [|[b now] ops IH]; intros n; cbn [run fold_left fst snd length]; [lia|].
  destruct (deliver cfg genesis_addr team_key n b now) as [[n1 out] amb] eqn:E. cbn [fst snd].
  specialize (IH n1). fold (run cfg genesis_addr team_key n1 ops). apply deliver_len in E. lia.
Qed.

(* the tip height of a reachable node is below the number of deliveries *)
Theorem reachable_height_bound g n0 ops :
  node0 cfg genesis_addr g = Ok n0 -> b_height g = 0 -> b_cd g = b_diff g ->
  N.of_nat (length ops) < two64 - 1 ->
  top_h (run cfg genesis_addr team_key n0 ops) + 1 < two64.
Proof.
  intros H0 Hg0 Hcd Hlen.
  destruct (reachable_invariants cfg genesis_addr team_key g n0 ops H0 Hg0 Hcd Hlen) as ((HB & HT) & _ & (Hh & _)).
  destruct HT as (_ & t & Ht & _). rewrite <- (Hh t Ht).
  destruct HB as (_ & _ & _ & Hb). specialize (Hb _ _ Ht).
  pose proof (run_len ops n0) as Hl.
  assert (Hl0 : length (blocks n0) = 1%nat).
  { unfold node0 in H0. apply apply_block_node_eq in H0. destruct H0 as (l & ->). reflexivity. }
  unfold two64 in *. lia.
Qed.

Theorem reachable_staked_bound_general g n0 ops :
  cfg_ok_emission cfg = true ->
  node0 cfg genesis_addr g = Ok n0 -> b_height g = 0 -> b_cd g = b_diff g ->
  N.of_nat (length ops) < two64 - 1 ->
  let n := run cfg genesis_addr team_key n0 ops in
  store_pre cfg g (blocks n) ->
  staked (ldg n) <= total_bal (ldg n) /\
  staked (ldg n) + total_bal (ldg n) <= 2 * max_supply cfg /\
  staked (ldg n) + total_bal (ldg n) < two64.
Proof.
  intros Hok H0 Hg0 Hcd Hlen n Hpre.
  destruct (reachable_replay_facts cfg genesis_addr team_key g n0 ops Hok H0 Hg0 Hcd Hlen Hpre)
    as (lr & Hr & HL & HB0 & Hck & Hlen' & _). fold n in Hr, HL, Hck, Hlen'.
  destruct (reachable_conserved_general cfg genesis_addr team_key g n0 ops Hok H0 Hg0 Hcd Hlen Hpre) as (Hsum & Hmax & _).
  fold n in Hsum, Hmax.
  destruct HB0 as ((HS0 & _) & Ht0 & _). destruct Hck as (Hh & Hbc & _).
  (* the genesis ledger *)
  assert (Hpre0 : store_pre cfg g (blocks n0)).
  { apply (store_pre_mono cfg g _ _ (run_store_le cfg genesis_addr team_key ops n0)). exact Hpre. }
  assert (HD0 : DInv (ldg n0)).
  { destruct Hpre0 as (Hp1 & _).
    unfold node0, apply_block_node in H0. bind_inv H0. injection H0 as <-. cbn [ldg set_ldg blocks] in *.
    assert (Hgs : Forall (tx_c cfg) (b_txs g)).
    { apply (Hp1 (b_hash g) g). unfold nget. cbn. rewrite N.eqb_refl. reflexivity. }
    eapply (apply_block_DInv cfg genesis_addr Hok ledger0); [| |exact SInv0|exact E|exact DInv0].
    - cbn [lb_height to_lblock]. rewrite Hg0. change (total_bal ledger0) with 0. rewrite N.add_0_l.
      change (reward cfg 0) with (sum_rewards cfg 0). apply (sum_rewards_le_max cfg Hok).
    - cbn [lb_txs to_lblock]. eapply Forall_impl; [|exact Hgs]. exact tx_c_tx_d. }
  (* the replay of the main chain *)
  assert (Hd : Forall (fun b => Forall (tx_d cfg) (lb_txs b)) (lbs n (mchain n))).
  { eapply Forall_impl; [|exact Hbc]. intros b Hb. eapply Forall_impl; [|exact Hb]. exact tx_c_tx_d. }
  pose proof (apply_chain_DInv cfg genesis_addr Hok _ _ 0 lr Ht0 Hh Hd HS0 Hr HD0) as HDr.
  destruct (apply_chain_supply cfg genesis_addr Hok _ _ 0 lr Ht0 Hh (blocks_c_txok cfg _ Hbc) Hr) as [Hsr _].
  unfold lbs in Hsr. rewrite map_length, Hlen' in Hsr. cbn [Nat.add] in Hsr.
  destruct HL as (_ & _ & _ & Hst).
  assert (Hle : staked (ldg n) <= total_bal (ldg n)).
  { rewrite Hst, Hsum, <- Hsr. apply DInv_staked_le. exact HDr. }
  destruct (ok_facts cfg Hok) as (_ & _ & _ & Hms64 & _).
  split; [exact Hle|]. split; lia.
Qed.

(* with the premises of C03_ledger_is_replay *)
Theorem reachable_staked_bound g n0 ops :
  cfg_ok_emission cfg = true -> cfg_ok_feepos cfg = true ->
  node0 cfg genesis_addr g = Ok n0 -> b_height g = 0 -> b_cd g = b_diff g ->
  N.of_nat (length ops) < two64 - 1 ->
  let n := run cfg genesis_addr team_key n0 ops in
  Forall (tx_c cfg) (b_txs g) ->
  (forall h b, get_block n h = Some b -> Forall (fun t => wf_tx cfg t /\ ver_ok t = true) (b_txs b)) ->
  (forall bs, up (b_hash g) (blocks n) (b_hash g) bs ->
     NoDup (bkeys g ++ flat_map bkeys bs) /\ c0 g + bnouts bs < two64 /\ c0 g + bntx bs < two64) ->
  staked (ldg n) <= total_bal (ldg n) /\
  staked (ldg n) + total_bal (ldg n) <= 2 * max_supply cfg /\
  staked (ldg n) + total_bal (ldg n) < two64.
Proof.
  intros Hok Hfp H0 Hg0 Hcd Hlen n Hgen Htyped Hpaths.
  apply (reachable_staked_bound_general g n0 ops Hok H0 Hg0 Hcd Hlen).
  exact (proj1 (validated_store_pre cfg genesis_addr team_key g n0 ops Hfp H0 Hg0 Hcd Hlen Hgen Htyped Hpaths)).
Qed.

(* the transaction list of every template built on a reachable node state is applicable: no hypothesis on the ledger,
   on the staked total or on the height is left; [mp_inv] (the mempool invariant) stays *)
Theorem template_txs_applicable_reachable g n0 ops :
  cfg_ok_c09 cfg = true -> cfg_ok_emission cfg = true -> cfg_ok_feepos cfg = true ->
  node0 cfg genesis_addr g = Ok n0 -> b_height g = 0 -> b_cd g = b_diff g ->
  N.of_nat (length ops) < two64 - 1 ->
  let n := run cfg genesis_addr team_key n0 ops in
  Forall (tx_c cfg) (b_txs g) -> Forall noreg0 (b_txs g) ->
  (forall h b, get_block n h = Some b -> Forall (fun t => wf_tx cfg t /\ ver_ok t = true) (b_txs b)) ->
  (forall bs, up (b_hash g) (blocks n) (b_hash g) bs ->
     NoDup (bkeys g ++ flat_map bkeys bs) /\ c0 g + bnouts bs < two64 /\ c0 g + bntx bs < two64) ->
  forall w rcpt now now_s t w' bh,
  wn w = n -> mp_inv cfg w ->
  get_block_template cfg false w rcpt now now_s = Ok (t, w') ->
  exists l1 fee, apply_txs cfg (ldg (wn w)) (b_txs t) (b_height t) bh (top_h (wn w)) 0 = Ok (l1, fee).
Proof.
  intros Hc9 Hok Hfp H0 Hg0 Hcd Hlen n Hgen Hgz Htyped Hpaths w rcpt now now_s t w' bh Hw Hmp Ht.
  apply (template_txs_applicable cfg Hc9 w rcpt now now_s t w' bh Ht); [|exact Hmp| |]; rewrite Hw.
  - exact (reachable_height_bound g n0 ops H0 Hg0 Hcd Hlen).
  - exact (reachable_linv cfg genesis_addr team_key g n0 ops Hok Hfp H0 Hg0 Hcd Hlen Hgen Hgz Htyped Hpaths).
  - exact (proj2 (proj2 (reachable_staked_bound g n0 ops Hok Hfp H0 Hg0 Hcd Hlen Hgen Htyped Hpaths))).
Qed.

End Reach.
