(* Proofs about the stratum server model (Model/Stratum.v), over ALL event lists: an event list is an interleaving
   of the code's critical sections (login, template, per-connection notification, submit, disconnect) of any number
   of miners.  Goroutine-level races inside a critical section are outside the model. *)
From Coq Require Import NArith PeanoNat List Bool Lia.
From Virel Require Import Lib.Config Lib.AMap Model.Stratum.
Import ListNotations.
Open Scope N_scope.

(* ---- association lists ---- *)

Lemma nget_nset {V} (m : list (N * V)) k v q : nget (nset m k v) q = if q =? k then Some v else nget m q.
Proof.
  unfold nget, nset. induction m as [|[k' v'] r IH]; cbn.
  - destruct (q =? k); reflexivity.
  - destruct (k =? k') eqn:E.
    + apply N.eqb_eq in E. subst k'. cbn. destruct (q =? k); reflexivity.
    + cbn. destruct (q =? k') eqn:E2.
      * apply N.eqb_eq in E2. subst k'. destruct (q =? k) eqn:E3; [|reflexivity].
        apply N.eqb_eq in E3. subst q. rewrite N.eqb_refl in E. discriminate.
      * exact IH.
Qed.

Lemma nget_ndel_other {V} (m : list (N * V)) k q : q <> k -> nget (ndel m k) q = nget m q.
Proof.
  intros Hne. unfold nget, ndel. induction m as [|[k' v'] r IH]; cbn; [reflexivity|].
  destruct (k =? k') eqn:E.
  - apply N.eqb_eq in E. subst k'. destruct (q =? k) eqn:E2; [|reflexivity].
    apply N.eqb_eq in E2. contradiction.
  - cbn. destruct (q =? k'); [reflexivity|exact IH].
Qed.

Lemma nget_In {V} (m : list (N * V)) k v : nget m k = Some v -> In (k, v) m.
Proof.
  unfold nget. induction m as [|[k' v'] r IH]; cbn; [discriminate|].
  destruct (k =? k') eqn:E.
  - apply N.eqb_eq in E. subst k'. intros [= ->]. left. reflexivity.
  - intros H. right. exact (IH H).
Qed.

Lemma Forall_nset {V} (P : N * V -> Prop) m k v : Forall P m -> P (k, v) -> Forall P (nset m k v).
Proof.
  intros Hm Hk. unfold nset. induction Hm as [|[k' v'] r Hx Hr IH]; cbn.
  - constructor; [exact Hk|constructor].
  - destruct (k =? k'); constructor; assumption.
Qed.

Lemma Forall_ndel {V} (P : N * V -> Prop) m k : Forall P m -> Forall P (ndel m k).
Proof.
  intros Hm. unfold ndel. induction Hm as [|[k' v'] r Hx Hr IH]; cbn; [constructor|].
  destruct (k =? k'); [exact Hr|constructor; assumption].
Qed.

(* ---- two association lists kept in step (same keys in the same order) ---- *)

Section InStep.
Context {A B : Type}.
Variable R : A -> B -> Prop.
Definition kv_rel (x : N * A) (y : N * B) : Prop := fst x = fst y /\ R (snd x) (snd y).

Lemma instep_nget_l m g k a : Forall2 kv_rel m g -> nget m k = Some a -> exists b, nget g k = Some b /\ R a b.
Proof.
  unfold nget. induction 1 as [|[k1 a1] [k2 b1] m' g' [Hk Hr] Hf IH]; cbn; [discriminate|].
  cbn in Hk, Hr. subst k2. destruct (k =? k1).
  - intros [= <-]. exists b1. split; [reflexivity|exact Hr].
  - exact IH.
Qed.

Lemma instep_nget_r m g k b : Forall2 kv_rel m g -> nget g k = Some b -> exists a, nget m k = Some a /\ R a b.
Proof.
  unfold nget. induction 1 as [|[k1 a1] [k2 b1] m' g' [Hk Hr] Hf IH]; cbn; [discriminate|].
  cbn in Hk, Hr. subst k2. destruct (k =? k1).
  - intros [= <-]. exists a1. split; [reflexivity|exact Hr].
  - exact IH.
Qed.

Lemma instep_nset m g k a b : Forall2 kv_rel m g -> R a b -> Forall2 kv_rel (nset m k a) (nset g k b).
Proof.
  intros Hf Hr. unfold nset. induction Hf as [|[k1 a1] [k2 b1] m' g' [Hk Hr1] Hf IH]; cbn.
  - constructor; [split; [reflexivity|exact Hr]|constructor].
  - cbn in Hk, Hr1. subst k2. destruct (k =? k1).
    + constructor; [split; [reflexivity|exact Hr]|exact Hf].
    + constructor; [split; [reflexivity|exact Hr1]|exact IH].
Qed.

Lemma instep_ndel m g k : Forall2 kv_rel m g -> Forall2 kv_rel (ndel m k) (ndel g k).
Proof.
  intros Hf. unfold ndel. induction Hf as [|[k1 a1] [k2 b1] m' g' [Hk Hr1] Hf IH]; cbn; [constructor|].
  cbn in Hk, Hr1. subst k2. destruct (k =? k1); [exact Hf|].
  constructor; [split; [reflexivity|exact Hr1]|exact IH].
Qed.
End InStep.

(* ---- the last n elements of a list ---- *)

Lemma tl_skipn {A} k (l : list A) : tl (skipn k l) = skipn (S k) l.
Proof.
  revert l. induction k as [|k IH]; intros l.
  - destruct l; reflexivity.
  - destruct l as [|x r]; [reflexivity|]. cbn [skipn]. rewrite IH. reflexivity.
Qed.

Lemma lastn_length {A} n (l : list A) : length (lastn n l) = Nat.min n (length l).
Proof. unfold lastn. rewrite skipn_length. lia. Qed.

Lemma lastn_push {A} n (l : list A) x : (1 <= n)%nat ->
  lastn n (l ++ [x]) = (if Nat.leb n (length (lastn n l)) then tl (lastn n l) else lastn n l) ++ [x].
Proof.
  intros Hn. rewrite lastn_length. unfold lastn. rewrite app_length. cbn [length].
  destruct (Nat.leb n (Nat.min n (length l))) eqn:E.
  - apply Nat.leb_le in E. assert (Hl : (n <= length l)%nat) by lia.
    rewrite tl_skipn. replace (length l + 1 - n)%nat with (S (length l - n)) by lia.
    rewrite skipn_app. replace (S (length l - n) - length l)%nat with 0%nat by lia. reflexivity.
  - apply Nat.leb_gt in E. assert (Hl : (length l < n)%nat) by lia.
    replace (length l + 1 - n)%nat with 0%nat by lia. replace (length l - n)%nat with 0%nat by lia. reflexivity.
Qed.

(* ---- sorting the chains of a blob ---- *)

Fixpoint asc (l : list chain) : Prop :=
  match l with
  | [] => True
  | x :: r => (forall y, In y r -> fst x < fst y) /\ asc r
  end.

Lemma insert_chain_spec x l s :
  asc l -> insert_chain x l = Some s -> asc s /\ (forall y, In y s <-> y = x \/ In y l).
Proof.
  revert s. induction l as [|y r IH]; cbn; intros s Hl H.
  - injection H as <-. cbn. split; [split; [intros ? []|exact I]|]. intros z. intuition congruence.
  - destruct Hl as [Hy Hr]. destruct (fst x <? fst y) eqn:E1.
    + injection H as <-. apply N.ltb_lt in E1. split.
      * cbn. split; [|split; assumption]. intros z [<-|Hz]; [exact E1|]. specialize (Hy z Hz). lia.
      * intros z. cbn. intuition congruence.
    + destruct (fst y <? fst x) eqn:E2; [|discriminate].
      destruct (insert_chain x r) as [r'|] eqn:E3; [|discriminate]. cbn in H. injection H as <-.
      destruct (IH r' Hr eq_refl) as [Ha Hi]. apply N.ltb_lt in E2. split.
      * cbn. split; [|exact Ha]. intros z Hz. apply Hi in Hz. destruct Hz as [->|Hz]; [exact E2|exact (Hy z Hz)].
      * intros z. cbn. rewrite Hi. intuition congruence.
Qed.

Lemma sort_chains_spec l s : sort_chains l = Some s -> asc s /\ (forall y, In y s <-> In y l).
Proof.
  revert s. induction l as [|x r IH]; cbn; intros s H.
  - injection H as <-. split; [exact I|intros z; tauto].
  - destruct (sort_chains r) as [s0|] eqn:E; [|discriminate].
    destruct (IH s0 eq_refl) as [Ha Hi]. destruct (insert_chain_spec x s0 s Ha H) as [Ha' Hi'].
    split; [exact Ha'|]. intros z. rewrite Hi'. rewrite Hi. cbn. intuition congruence.
Qed.

Lemma find_asc (l : list chain) x :
  asc l -> In x l -> find (fun c : chain => fst c =? fst x) l = Some x.
Proof.
  induction l as [|y r IH]; cbn; intros Ha Hin; [contradiction|].
  destruct Ha as [Hy Hr]. destruct Hin as [->|Hin].
  - rewrite N.eqb_refl. reflexivity.
  - specialize (Hy x Hin). destruct (fst y =? fst x) eqn:E; [apply N.eqb_eq in E; lia|]. exact (IH Hr Hin).
Qed.

Section StratumProofs.
Variable cfg : config.
Variable pow_ok : blob -> bool.

(* a blob computed from a block names, for this chain, the block's template and recipient *)
Lemma own_entry_blob_of b sent :
  blob_of cfg b = Some sent -> own_entry cfg sent = Some (Own (b_tpl b) (b_rcp b)).
Proof.
  unfold blob_of. destruct (sort_chains _) as [ch|] eqn:E; [|discriminate]. intros [= <-].
  destruct (sort_chains_spec _ _ E) as [Ha Hi]. unfold own_entry. cbn [mb_chains].
  assert (Hin : In (network_id cfg, Own (b_tpl b) (b_rcp b)) ch).
  { apply Hi. apply in_or_app. right. left. reflexivity. }
  pose proof (find_asc ch (network_id cfg, Own (b_tpl b) (b_rcp b)) Ha Hin) as Hf. cbn [fst] in Hf.
  rewrite Hf. reflexivity.
Qed.

(* ---- the invariant ---- *)

Definition heap := list (N * blk).

(* the block a job points to: it exists, it pays addr, and the blob recomputed from it is the blob that was sent *)
Definition job_ok (h : heap) (addr : N) (j : job) : Prop :=
  exists b, nget h (j_ptr j) = Some b /\ b_rcp b = addr /\ blob_of cfg b = Some (j_sent j).
Definition conn_ok (h : heap) (c : conn) : Prop := c_addr c <> 0 /\ Forall (job_ok h (c_addr c)) (c_jobs c).
Definition conns_ok (h : heap) (m : list (N * conn)) : Prop := Forall (fun kc => conn_ok h (snd kc)) m.
Definition heap_bound (h : heap) (n : N) : Prop := forall p b, nget h p = Some b -> p < n.
Definition Inv (s : server) : Prop := heap_bound (s_heap s) (s_next s) /\ conns_ok (s_heap s) (s_conns s).

(* no block is ever overwritten *)
Definition heap_le (h h' : heap) : Prop := forall p b, nget h p = Some b -> nget h' p = Some b.

Lemma heap_le_refl h : heap_le h h.
Proof. intros p b H. exact H. Qed.

Lemma job_ok_mono h h' a j : heap_le h h' -> job_ok h a j -> job_ok h' a j.
Proof. intros Hle (b & H1 & H2 & H3). exists b. split; [exact (Hle _ _ H1)|split; assumption]. Qed.

Lemma conn_ok_mono h h' c : heap_le h h' -> conn_ok h c -> conn_ok h' c.
Proof.
  intros Hle [Ha Hj]. split; [exact Ha|]. eapply Forall_impl; [|exact Hj]. intros j. apply job_ok_mono. exact Hle.
Qed.

Lemma conns_ok_mono h h' m : heap_le h h' -> conns_ok h m -> conns_ok h' m.
Proof. intros Hle Hm. eapply Forall_impl; [|exact Hm]. intros kc. apply conn_ok_mono. exact Hle. Qed.

Lemma heap_le_alloc h n b : heap_bound h n -> heap_le h (nset h n b).
Proof.
  intros Hb p b0 Hp. rewrite nget_nset. destruct (p =? n) eqn:E; [|exact Hp].
  apply N.eqb_eq in E. subst p. apply Hb in Hp. lia.
Qed.

Lemma heap_bound_alloc h n b : heap_bound h n -> heap_bound (nset h n b) (n + 1).
Proof.
  intros Hb p b0. rewrite nget_nset. destruct (p =? n) eqn:E.
  - apply N.eqb_eq in E. intros _. lia.
  - intros Hp. apply Hb in Hp. lia.
Qed.

Lemma nget_conn_ok h m cid c : conns_ok h m -> nget m cid = Some c -> conn_ok h c.
Proof.
  intros Hm Hg. apply nget_In in Hg. unfold conns_ok in Hm. rewrite Forall_forall in Hm. exact (Hm _ Hg).
Qed.

Lemma inv_init : Inv init_server.
Proof. split; [intros p b H; discriminate|constructor]. Qed.

Lemma inv_kick s cid : Inv s -> Inv (kick s cid).
Proof. intros [Hb Hc]. split; [exact Hb|]. cbn. apply Forall_ndel. exact Hc. Qed.

Lemma Forall_push P (jobs : list job) j : Forall P jobs -> P j -> Forall P (push_job cfg jobs j).
Proof.
  intros Hj Hn. unfold push_job. apply Forall_app. split; [|constructor; [exact Hn|constructor]].
  destruct (Nat.leb _ _); [|exact Hj]. destruct Hj; [constructor|assumption].
Qed.

Ltac dm H := match type of H with context [match ?x with _ => _ end] => destruct x eqn:? end.
Ltac same H := injection H as <- <-; split; [split; assumption|apply heap_le_refl].

(* every step keeps the invariant and never overwrites a block *)
Lemma step_facts s e s' o :
  Inv s -> step cfg pow_ok s e = (s', o) -> Inv s' /\ heap_le (s_heap s) (s_heap s').
Proof.
  intros [Hb Hc] H.
  destruct e as [cid addr jid|tpl ts extra ch|cid k extra jid|cid jid n x mb|cid]; cbn [step] in H.
  - (* login *)
    unfold do_login in H. cbv zeta in H. repeat dm H; try (same H).
    injection H as <- <-. cbn.
    pose proof (heap_le_alloc _ _ (mkblk (b_tpl b) addr (b_ts b) (b_extra b) (b_nonce b) (b_chains b)) Hb) as Hle.
    split; [split|exact Hle].
    + apply heap_bound_alloc. exact Hb.
    + apply Forall_nset; [exact (conns_ok_mono _ _ _ Hle Hc)|]. cbn. split.
      * cbn. apply N.eqb_neq. assumption.
      * constructor; [|constructor]. eexists. cbn. rewrite nget_nset, N.eqb_refl. split; [reflexivity|]. split; [reflexivity|assumption].
  - (* template *)
    unfold do_template in H. injection H as <- <-. cbn.
    pose proof (heap_le_alloc _ _ (mkblk tpl 0 ts extra 0 ch) Hb) as Hle.
    split; [split|exact Hle]; [apply heap_bound_alloc; exact Hb|exact (conns_ok_mono _ _ _ Hle Hc)].
  - (* notify *)
    unfold do_notify in H. cbv zeta in H. repeat dm H; try (same H).
    injection H as <- <-. cbn.
    pose proof (heap_le_alloc _ _ (mkblk (b_tpl b) (c_addr c) (b_ts b) extra (b_nonce b) (b_chains b)) Hb) as Hle.
    split; [split|exact Hle].
    + apply heap_bound_alloc. exact Hb.
    + apply Forall_nset; [exact (conns_ok_mono _ _ _ Hle Hc)|]. cbn.
      match goal with Hx : nget (s_conns s) cid = Some c |- _ => destruct (nget_conn_ok _ _ _ _ Hc Hx) as [Ha Hj] end.
      split; [exact Ha|].
      apply Forall_push.
      * eapply Forall_impl; [|exact Hj]. intros j. apply job_ok_mono. exact Hle.
      * eexists. cbn. rewrite nget_nset, N.eqb_refl. split; [reflexivity|]. split; [reflexivity|assumption].
  - (* submit *)
    unfold do_submit in H. repeat dm H; try (same H);
      injection H as <- <-; (split; [apply inv_kick; split; assumption|apply heap_le_refl]).
  - (* disconnect *)
    injection H as <- <-. split; [apply inv_kick; split; assumption|apply heap_le_refl].
Qed.

Lemma run_facts evs : forall s s' os,
  Inv s -> run cfg pow_ok s evs = (s', os) -> Inv s' /\ heap_le (s_heap s) (s_heap s').
Proof.
  induction evs as [|e r IH]; cbn; intros s s' os Hi H.
  - injection H as <- <-. split; [exact Hi|apply heap_le_refl].
  - destruct (step cfg pow_ok s e) as [s1 o] eqn:Es. destruct (run cfg pow_ok s1 r) as [s2 os2] eqn:Er.
    injection H as <- <-. destruct (step_facts _ _ _ _ Hi Es) as [Hi1 Hle1].
    destruct (IH _ _ _ Hi1 Er) as [Hi2 Hle2]. split; [exact Hi2|].
    intros p b Hp. exact (Hle2 _ _ (Hle1 _ _ Hp)).
Qed.

Definition reachable (s : server) : Prop := exists evs os, run cfg pow_ok init_server evs = (s, os).

Lemma reachable_inv s : reachable s -> Inv s.
Proof. intros (evs & os & H). exact (proj1 (run_facts _ _ _ _ inv_init H)). Qed.

Lemma find_job_In jobs jid j : find_job jobs jid = Some j -> In j jobs /\ j_id j = jid.
Proof.
  induction jobs as [|a r IH]; cbn; [discriminate|].
  destruct (j_id a =? jid) eqn:E.
  - intros [= ->]. apply N.eqb_eq in E. split; [left; reflexivity|exact E].
  - intros H. destruct (IH H) as [Hin Hid]. split; [right; exact Hin|exact Hid].
Qed.

Lemma reachable_job_ok s cid c j :
  reachable s -> nget (s_conns s) cid = Some c -> In j (c_jobs c) -> job_ok (s_heap s) (c_addr c) j.
Proof.
  intros Hr Hc Hj. destruct (reachable_inv _ Hr) as [_ Hcs].
  destruct (nget_conn_ok _ _ _ _ Hcs Hc) as [_ Hjobs]. rewrite Forall_forall in Hjobs. exact (Hjobs _ Hj).
Qed.

(* T1: every job held by a connection points to a block whose recipient is the connection's login address, and the
   blob that was sent with it names, for this chain, a block paying that address *)
Lemma job_pays_owner s cid c j :
  reachable s -> nget (s_conns s) cid = Some c -> In j (c_jobs c) ->
  (exists b, nget (s_heap s) (j_ptr j) = Some b /\ b_rcp b = c_addr c) /\ pays cfg (j_sent j) (c_addr c) = true.
Proof.
  intros Hr Hc Hj. destruct (reachable_job_ok _ _ _ _ Hr Hc Hj) as (b & H1 & H2 & H3).
  split; [exists b; split; assumption|].
  unfold pays. rewrite (own_entry_blob_of _ _ H3). rewrite H2. apply N.eqb_refl.
Qed.

(* T2: the blob recomputed from the job's block is, at any later time, the blob that was sent with the job *)
Lemma job_is_stable s cid c j :
  reachable s -> nget (s_conns s) cid = Some c -> In j (c_jobs c) ->
  exists b, nget (s_heap s) (j_ptr j) = Some b /\ blob_of cfg b = Some (j_sent j).
Proof.
  intros Hr Hc Hj. destruct (reachable_job_ok _ _ _ _ Hr Hc Hj) as (b & H1 & H2 & H3). exists b. split; assumption.
Qed.

Lemma blob_of_fields b sent :
  blob_of cfg b = Some sent -> mb_ts sent = b_ts b /\ mb_extra sent = b_extra b /\ mb_nonce sent = b_nonce b.
Proof. unfold blob_of. destruct (sort_chains _); [|discriminate]. intros [= <-]. cbn. auto. Qed.

Lemma blob_of_renonce b sent e n :
  blob_of cfg b = Some sent ->
  blob_of cfg (mkblk (b_tpl b) (b_rcp b) (b_ts b) e n (b_chains b)) = Some (mkblob (mb_ts sent) e n (mb_chains sent)).
Proof. unfold blob_of. cbn. destruct (sort_chains _); [|discriminate]. intros [= <-]. reflexivity. Qed.

(* T2, at submit time: for a job the connection still holds, a well-formed submission without merge-mining blob is
   judged against exactly the blob the miner hashed (the sent blob with the miner's nonce and extra nonce): found when
   that blob meets the proof of work, and only then rejected for low difficulty; the state does not change *)
Lemma submit_judged_against_sent_blob s cid c jid j len n x :
  reachable s -> nget (s_conns s) cid = Some c -> find_job (c_jobs c) jid = Some j -> 4 <= len ->
  step cfg pow_ok s (ESubmit cid jid (NBytes len n) x MNone) =
    (s, if pow_ok (miner_blob (j_sent j) n x) then OFound (c_addr c) (miner_blob (j_sent j) n x) else ORejectedLowDiff).
Proof.
  intros Hr Hc Hf Hlen. destruct (find_job_In _ _ _ Hf) as [Hin _].
  destruct (reachable_job_ok _ _ _ _ Hr Hc Hin) as (b & H1 & H2 & H3).
  cbn [step]. unfold do_submit. rewrite Hc.
  destruct (len <? 4) eqn:E; [apply N.ltb_lt in E; lia|]. rewrite Hf, H1. unfold complete.
  destruct (blob_of_fields _ _ H3) as (Hts & Hex & Hno).
  set (e := match x with XBytes l v => if l =? 16 then v else b_extra b | XNone => b_extra b end).
  rewrite (blob_of_renonce b (j_sent j) e n H3). cbn [b_rcp]. rewrite H2.
  assert (Hm : miner_blob (j_sent j) n x = mkblob (mb_ts (j_sent j)) e n (mb_chains (j_sent j))).
  { unfold miner_blob, e. rewrite Hex. reflexivity. }
  rewrite Hm. reflexivity.
Qed.

(* ... hence a nonce that solves the sent blob is never rejected for failing proof of work *)
Lemma solving_nonce_accepted s cid c jid j len n x :
  reachable s -> nget (s_conns s) cid = Some c -> find_job (c_jobs c) jid = Some j -> 4 <= len ->
  pow_ok (miner_blob (j_sent j) n x) = true ->
  step cfg pow_ok s (ESubmit cid jid (NBytes len n) x MNone) = (s, OFound (c_addr c) (miner_blob (j_sent j) n x)).
Proof.
  intros Hr Hc Hf Hlen Hp. rewrite (submit_judged_against_sent_blob _ _ _ _ _ _ n x Hr Hc Hf Hlen). rewrite Hp. reflexivity.
Qed.

Lemma complete_keeps b n x mb jb : complete cfg b n x mb = CBlock jb -> b_tpl jb = b_tpl b /\ b_rcp jb = b_rcp b.
Proof.
  unfold complete. destruct mb as [| |m].
  - intros [= <-]. cbn. auto.
  - discriminate.
  - destruct (is_masterchain cfg); [discriminate|]. unfold set_mining_blob.
    destruct (smb_loop _ _ _ _ _ _); [|discriminate]. intros [= <-]. cbn. auto.
Qed.

(* T3: whatever is submitted (any nonce, extra nonce, merge-mining blob), a block that is produced pays the login
   address of the submitting connection and names, for this chain, the same template and recipient as the sent blob *)
Lemma found_block_pays_owner s cid jid nonce x mb s' r judged :
  reachable s -> step cfg pow_ok s (ESubmit cid jid nonce x mb) = (s', OFound r judged) ->
  exists c j, nget (s_conns s) cid = Some c /\ find_job (c_jobs c) jid = Some j /\ r = c_addr c /\
    own_entry cfg judged = own_entry cfg (j_sent j) /\ pays cfg judged (c_addr c) = true /\ s' = s.
Proof.
  intros Hr H. cbn [step] in H. unfold do_submit in H.
  destruct (nget (s_conns s) cid) as [c|] eqn:Hc; [|discriminate].
  destruct nonce as [|len n]; [discriminate|]. destruct (len <? 4); [discriminate|].
  destruct (find_job (c_jobs c) jid) as [j|] eqn:Hf; [|discriminate].
  destruct (find_job_In _ _ _ Hf) as [Hin _].
  destruct (reachable_job_ok _ _ _ _ Hr Hc Hin) as (b & H1 & H2 & H3). rewrite H1 in H.
  destruct (complete cfg b n x mb) as [jb|] eqn:Hcm; [|discriminate].
  destruct (blob_of cfg jb) as [jd|] eqn:Hj; [|discriminate].
  destruct (pow_ok jd); [|discriminate]. injection H as <- <- <-.
  destruct (complete_keeps _ _ _ _ _ Hcm) as [Ht Hrc].
  exists c, j. split; [reflexivity|]. split; [exact Hf|]. split; [congruence|].
  assert (Ho : own_entry cfg jd = own_entry cfg (j_sent j)).
  { rewrite (own_entry_blob_of _ _ Hj), (own_entry_blob_of _ _ H3). congruence. }
  split; [exact Ho|]. split; [|reflexivity].
  unfold pays. rewrite (own_entry_blob_of _ _ Hj). rewrite Hrc, H2. apply N.eqb_refl.
Qed.

(* T4: the events of the other miners (logins, templates, notifications, submissions, disconnections) leave a
   connection, its jobs and the blocks they point to exactly as they were *)
Definition event_cid (e : event) : option N :=
  match e with
  | ELogin cid _ _ | ENotify cid _ _ _ | ESubmit cid _ _ _ _ | EDisconnect cid => Some cid
  | ETemplate _ _ _ _ => None
  end.

Lemma others_do_not_interfere s e s' o cid :
  reachable s -> step cfg pow_ok s e = (s', o) -> event_cid e <> Some cid ->
  nget (s_conns s') cid = nget (s_conns s) cid /\
  (forall p b, nget (s_heap s) p = Some b -> nget (s_heap s') p = Some b).
Proof.
  intros Hr H Hne. split; [|exact (proj2 (step_facts _ _ _ _ (reachable_inv _ Hr) H))].
  assert (Hk : forall c0, c0 <> cid -> nget (s_conns (kick s c0)) cid = nget (s_conns s) cid).
  { intros c0 Hc0. cbn. apply nget_ndel_other. congruence. }
  destruct e as [c0 addr jid|tpl ts extra ch|c0 k extra jid|c0 jid n x mb|c0]; cbn [step] in H; cbn in Hne.
  - assert (Hc0 : cid <> c0) by congruence.
    unfold do_login in H. cbv zeta in H. repeat dm H; try (injection H as <- <-; reflexivity).
    injection H as <- <-. cbn. rewrite nget_nset. destruct (cid =? c0) eqn:E; [apply N.eqb_eq in E; contradiction|reflexivity].
  - unfold do_template in H. injection H as <- <-. reflexivity.
  - assert (Hc0 : cid <> c0) by congruence.
    unfold do_notify in H. cbv zeta in H. repeat dm H; try (injection H as <- <-; reflexivity).
    injection H as <- <-. cbn. rewrite nget_nset. destruct (cid =? c0) eqn:E; [apply N.eqb_eq in E; contradiction|reflexivity].
  - assert (Hc0 : c0 <> cid) by congruence.
    unfold do_submit in H. repeat dm H; try (injection H as <- <-; reflexivity); injection H as <- <-; apply Hk; exact Hc0.
  - assert (Hc0 : c0 <> cid) by congruence. injection H as <- <-. apply Hk. exact Hc0.
Qed.

(* ---- the jobs a connection holds are the jobs it was advertised ---- *)

Definition cfg_ok_stratum (c : config) : bool := 1 <=? stratum_jobs_history c.
Hypothesis Hok : cfg_ok_stratum cfg = true.

Definition jobkey (j : job) : N * blob := (j_id j, j_sent j).

(* server side / miner's side of one connection *)
Definition conn_view (c : conn) (v : mview) : Prop :=
  c_addr c = mv_addr v /\ map jobkey (c_jobs c) = lastn (hist cfg) (mv_jobs v).
Definition views_ok (s : server) (g : list (N * mview)) : Prop := Forall2 (kv_rel conn_view) (s_conns s) g.

Lemma hist_pos : (1 <= hist cfg)%nat.
Proof. unfold cfg_ok_stratum in Hok. apply N.leb_le in Hok. unfold hist. lia. Qed.

Lemma map_push jobs j l :
  map jobkey jobs = lastn (hist cfg) l -> map jobkey (push_job cfg jobs j) = lastn (hist cfg) (l ++ [jobkey j]).
Proof.
  intros H. rewrite (lastn_push _ _ _ hist_pos). rewrite <- H. unfold push_job. rewrite map_app, map_length. cbn [map].
  destruct (Nat.leb (hist cfg) (length jobs)); [|reflexivity]. destruct jobs; reflexivity.
Qed.

Lemma step_views s g e s' o :
  views_ok s g -> step cfg pow_ok s e = (s', o) -> views_ok s' (view_step g e o).
Proof.
  unfold views_ok. intros Hv H.
  destruct e as [cid addr jid|tpl ts extra ch|cid k extra jid|cid jid n x mb|cid]; cbn [step] in H.
  - unfold do_login in H. cbv zeta in H. repeat dm H; try (injection H as <- <-; exact Hv).
    injection H as <- <-. cbn. apply instep_nset; [exact Hv|]. split; [reflexivity|]. cbn.
    pose proof hist_pos as Hp. unfold lastn. cbn. destruct (hist cfg); [lia|reflexivity].
  - unfold do_template in H. injection H as <- <-. exact Hv.
  - unfold do_notify in H. cbv zeta in H. repeat dm H; try (injection H as <- <-; exact Hv).
    injection H as <- <-. cbn.
    match goal with Hx : nget (s_conns s) cid = Some ?c |- _ => destruct (instep_nget_l _ _ _ _ _ Hv Hx) as (v & Hg & Ha & Hj) end.
    rewrite Hg. apply instep_nset; [exact Hv|]. split; [exact Ha|]. cbn. apply (map_push _ (mkjob jid (s_next s) b0)). exact Hj.
  - unfold do_submit in H. repeat dm H; try (injection H as <- <-; exact Hv);
      injection H as <- <-; cbn; apply instep_ndel; exact Hv.
  - injection H as <- <-. cbn. apply instep_ndel. exact Hv.
Qed.

Lemma run_view_facts evs : forall s g s' g',
  views_ok s g -> run_view cfg pow_ok s g evs = (s', g') ->
  views_ok s' g' /\ exists os, run cfg pow_ok s evs = (s', os).
Proof.
  induction evs as [|e r IH]; cbn; intros s g s' g' Hv H.
  - injection H as <- <-. split; [exact Hv|]. exists []. reflexivity.
  - destruct (step cfg pow_ok s e) as [s1 o] eqn:Es.
    destruct (IH _ _ _ _ (step_views _ _ _ _ _ Hv Es) H) as [Hv' [os Hr]]. split; [exact Hv'|].
    exists (o :: os). rewrite Hr. reflexivity.
Qed.

Lemma find_sent_map jobs jid sent :
  find_sent (map jobkey jobs) jid = Some sent -> exists j, find_job jobs jid = Some j /\ j_sent j = sent.
Proof.
  induction jobs as [|a r IH]; cbn; [discriminate|].
  destruct (j_id a =? jid).
  - intros [= <-]. exists a. split; reflexivity.
  - exact IH.
Qed.

(* T5: after any event list, what the server holds for a connection is what the miner was told: same address, and
   the held jobs are exactly the last STRATUM_JOBS_HISTORY jobs that were sent to it (ids and blobs) *)
Lemma held_jobs_are_advertised evs s g cid :
  run_view cfg pow_ok init_server [] evs = (s, g) ->
  (forall c, nget (s_conns s) cid = Some c -> exists v, nget g cid = Some v /\ conn_view c v) /\
  (forall v, nget g cid = Some v -> exists c, nget (s_conns s) cid = Some c /\ conn_view c v).
Proof.
  intros H. assert (H0 : views_ok init_server []) by constructor.
  destruct (run_view_facts _ _ _ _ _ H0 H) as [Hv _]. split.
  - intros c Hc. exact (instep_nget_l _ _ _ _ _ Hv Hc).
  - intros v Hg. exact (instep_nget_r _ _ _ _ _ Hv Hg).
Qed.

(* T6: the property in the miner's own terms.  After any interleaving of any number of miners, if the miner was sent
   job jid with blob [sent] and the job is within the advertised history, then a well-formed submission is judged
   against exactly the blob the miner hashed: a block paying the miner's login address when that blob meets the proof
   of work, "low difficulty" only when it does not - never "unknown job"; and the server's state is unchanged. *)
Lemma advertised_job_is_its_own evs s g cid v jid sent len n x :
  run_view cfg pow_ok init_server [] evs = (s, g) ->
  nget g cid = Some v -> advertised cfg v jid = Some sent -> 4 <= len ->
  step cfg pow_ok s (ESubmit cid jid (NBytes len n) x MNone) =
    (s, if pow_ok (miner_blob sent n x) then OFound (mv_addr v) (miner_blob sent n x) else ORejectedLowDiff).
Proof.
  intros H Hg Ha Hlen. assert (H0 : views_ok init_server []) by constructor.
  destruct (run_view_facts _ _ _ _ _ H0 H) as [Hv [os Hr]].
  destruct (instep_nget_r _ _ _ _ _ Hv Hg) as (c & Hc & Haddr & Hjobs).
  unfold advertised in Ha. fold (hist cfg) in Ha. rewrite <- Hjobs in Ha.
  destruct (find_sent_map _ _ _ Ha) as (j & Hf & <-).
  assert (Hre : reachable s) by (exists evs, os; exact Hr).
  rewrite (submit_judged_against_sent_blob _ _ _ _ _ _ n x Hre Hc Hf Hlen). rewrite Haddr. reflexivity.
Qed.

(* every job the server sends (login answer or notification) describes a block paying the login address *)
Lemma sent_job_pays_login evs s g e s' jid sent :
  run_view cfg pow_ok init_server [] evs = (s, g) -> step cfg pow_ok s e = (s', OJob jid sent) ->
  match e with
  | ELogin cid addr _ => pays cfg sent addr = true
  | ENotify cid _ _ _ => exists v, nget g cid = Some v /\ pays cfg sent (mv_addr v) = true
  | _ => False
  end.
Proof.
  intros H Hs. assert (H0 : views_ok init_server []) by constructor.
  destruct (run_view_facts _ _ _ _ _ H0 H) as [Hv _].
  destruct e as [cid addr j|tpl ts extra ch|cid k extra j|cid j n x mb|cid]; cbn [step] in Hs.
  - unfold do_login in Hs. cbv zeta in Hs. repeat dm Hs; try discriminate. injection Hs as _ _ <-.
    unfold pays. match goal with Hb : blob_of cfg _ = Some _ |- _ => rewrite (own_entry_blob_of _ _ Hb) end. cbn. apply N.eqb_refl.
  - unfold do_template in Hs. discriminate.
  - unfold do_notify in Hs. cbv zeta in Hs. repeat dm Hs; try discriminate. injection Hs as _ _ <-.
    match goal with Hx : nget (s_conns s) cid = Some ?c |- _ => destruct (instep_nget_l _ _ _ _ _ Hv Hx) as (v & Hg & Ha & _) end.
    exists v. split; [exact Hg|]. unfold pays.
    match goal with Hb : blob_of cfg _ = Some _ |- _ => rewrite (own_entry_blob_of _ _ Hb) end. cbn. rewrite Ha. apply N.eqb_refl.
  - unfold do_submit in Hs. repeat dm Hs; discriminate.
  - discriminate.
Qed.

(* ---- a submission never takes one of the panicking branches ---- *)

Lemma NoDup_app_single (l : list N) x : NoDup l -> ~ In x l -> NoDup (l ++ [x]).
Proof.
  induction l as [|y l IH]; cbn; intros Hnd Hni; [constructor; [intros []|constructor]|].
  inversion Hnd as [|? ? Hy Hl]; subst. constructor.
  - intros Hin. apply in_app_or in Hin. destruct Hin as [Hin|[E|[]]]; [exact (Hy Hin)|subst; apply Hni; left; reflexivity].
  - apply IH; [exact Hl|tauto].
Qed.

(* the chains collected by setMiningBlob have pairwise distinct network ids, none equal to this network's *)
Definition keys_ok (nid : N) (acc : list chain) : Prop :=
  NoDup (map fst acc) /\ ~ In nid (map fst acc).

Lemma existsb_key_false acc v :
  existsb (fun oc : chain => hidv_eqb (snd oc) (snd v) || (fst oc =? fst v)) acc = false -> ~ In (fst v) (map fst acc).
Proof.
  induction acc as [|o acc IH]; cbn; intros H; [tauto|].
  apply Bool.orb_false_iff in H. destruct H as [H1 H2]. apply Bool.orb_false_iff in H1. destruct H1 as [_ Hk].
  apply N.eqb_neq in Hk. intros [E|Hin]; [congruence|]. exact (IH H2 Hin).
Qed.

Lemma smb_loop_keys nid l : forall first last contains acc oc,
  keys_ok nid acc -> smb_loop nid l first last contains acc = Some oc -> keys_ok nid oc.
Proof.
  induction l as [|v r IH]; cbn; intros first last contains acc oc Hk H.
  - destruct contains; [injection H as <-; exact Hk|discriminate].
  - destruct (negb first && (fst v <=? last)); [discriminate|].
    destruct (fst v =? nid) eqn:E; cbn [negb] in H.
    + destruct contains; [discriminate|]. exact (IH _ _ _ _ _ Hk H).
    + destruct (existsb _ acc) eqn:Ex; [discriminate|].
      apply (IH _ _ _ _ _) in H; [exact H|].
      destruct Hk as [Hnd Hni]. apply existsb_key_false in Ex. apply N.eqb_neq in E.
      unfold keys_ok. rewrite map_app. cbn [map]. split.
      * apply NoDup_app_single; assumption.
      * intros Hin. apply in_app_or in Hin. destruct Hin as [Hin|[Hin|[]]]; [exact (Hni Hin)|congruence].
Qed.

(* insertion into a sorted list without that key succeeds and keeps the keys *)
Lemma insert_chain_ok x l : ~ In (fst x) (map fst l) ->
  exists s, insert_chain x l = Some s /\ (forall k, In k (map fst s) <-> k = fst x \/ In k (map fst l)).
Proof.
  induction l as [|y r IH]; cbn; intros Hni.
  - eexists. split; [reflexivity|]. intros k. cbn. intuition (auto; congruence).
  - destruct (N.ltb_spec (fst x) (fst y)).
    + eexists. split; [reflexivity|]. intros k. cbn. intuition (auto; congruence).
    + destruct (N.ltb_spec (fst y) (fst x)).
      * destruct IH as (s & Hs & Hk); [tauto|]. rewrite Hs. cbn. eexists. split; [reflexivity|].
        intros k. cbn. rewrite Hk. intuition (auto; congruence).
      * exfalso. apply Hni. left. lia.
Qed.

Lemma sort_chains_ok l : NoDup (map fst l) ->
  exists s, sort_chains l = Some s /\ (forall k, In k (map fst s) <-> In k (map fst l)).
Proof.
  induction l as [|x r IH]; cbn; intros Hnd.
  - eexists. split; [reflexivity|]. tauto.
  - inversion Hnd as [|? ? Hni Hnd']; subst.
    destruct (IH Hnd') as (s & Hs & Hk). rewrite Hs.
    destruct (insert_chain_ok x s) as (s' & Hs' & Hk'); [rewrite Hk; exact Hni|].
    exists s'. split; [exact Hs'|]. intros k. rewrite Hk', Hk. cbn. intuition (auto; congruence).
Qed.

Lemma complete_blob_of b sent n x mb jb :
  blob_of cfg b = Some sent -> complete cfg b n x mb = CBlock jb -> blob_of cfg jb <> None.
Proof.
  intros Hb. unfold complete. destruct mb as [| |m].
  - intros [= <-]. rewrite (blob_of_renonce b sent _ n Hb). discriminate.
  - discriminate.
  - destruct (is_masterchain cfg); [discriminate|]. unfold set_mining_blob.
    destruct (smb_loop _ _ _ _ _ _) as [oc|] eqn:E; [|discriminate]. intros [= <-]. unfold blob_of. cbn [b_chains b_tpl b_rcp].
    assert (Hk : keys_ok (network_id cfg) oc).
    { eapply smb_loop_keys; [|exact E]. split; [constructor|intros []]. }
    destruct Hk as [Hnd Hni].
    destruct (sort_chains_ok (oc ++ [(network_id cfg, Own (b_tpl b) (b_rcp b))])) as (s & Hs & _).
    { rewrite map_app. cbn [map fst]. apply NoDup_app_single; assumption. }
    rewrite Hs. discriminate.
Qed.

Lemma submit_never_panics s cid jid nonce x mb s' o :
  reachable s -> step cfg pow_ok s (ESubmit cid jid nonce x mb) = (s', o) -> o <> OPanic.
Proof.
  intros Hr H. cbn [step] in H. unfold do_submit in H.
  destruct (nget (s_conns s) cid) as [c|] eqn:Hc; [|injection H as _ <-; discriminate].
  destruct nonce as [|len n]; [injection H as _ <-; discriminate|].
  destruct (len <? 4); [injection H as _ <-; discriminate|].
  destruct (find_job (c_jobs c) jid) as [j|] eqn:Hf; [|injection H as _ <-; discriminate].
  destruct (find_job_In _ _ _ Hf) as [Hin _].
  destruct (reachable_job_ok _ _ _ _ Hr Hc Hin) as (b & H1 & H2 & H3). rewrite H1 in H.
  destruct (complete cfg b n x mb) as [jb|] eqn:Hcm; [|injection H as _ <-; discriminate].
  pose proof (complete_blob_of _ _ _ _ _ _ H3 Hcm) as Hnn.
  destruct (blob_of cfg jb) as [jd|]; [|contradiction].
  injection H as _ <-. destruct (pow_ok jd); discriminate.
Qed.

(* ---- the same statements with "reachable" spelled out (the forms quoted by Props/C15.v) ---- *)

Lemma job_pays_owner_run evs s os cid c j :
  run cfg pow_ok init_server evs = (s, os) -> nget (s_conns s) cid = Some c -> In j (c_jobs c) ->
  (exists b, nget (s_heap s) (j_ptr j) = Some b /\ b_rcp b = c_addr c) /\ pays cfg (j_sent j) (c_addr c) = true.
Proof. intros H. apply job_pays_owner. exists evs, os. exact H. Qed.

Lemma job_is_stable_run evs s os cid c j :
  run cfg pow_ok init_server evs = (s, os) -> nget (s_conns s) cid = Some c -> In j (c_jobs c) ->
  exists b, nget (s_heap s) (j_ptr j) = Some b /\ blob_of cfg b = Some (j_sent j).
Proof. intros H. apply job_is_stable. exists evs, os. exact H. Qed.

Lemma submit_judged_against_sent_blob_run evs s os cid c jid j len n x :
  run cfg pow_ok init_server evs = (s, os) -> nget (s_conns s) cid = Some c -> find_job (c_jobs c) jid = Some j -> 4 <= len ->
  step cfg pow_ok s (ESubmit cid jid (NBytes len n) x MNone) =
    (s, if pow_ok (miner_blob (j_sent j) n x) then OFound (c_addr c) (miner_blob (j_sent j) n x) else ORejectedLowDiff).
Proof. intros H. apply submit_judged_against_sent_blob. exists evs, os. exact H. Qed.

Lemma found_block_pays_owner_run evs s os cid jid nonce x mb s' r judged :
  run cfg pow_ok init_server evs = (s, os) -> step cfg pow_ok s (ESubmit cid jid nonce x mb) = (s', OFound r judged) ->
  exists c j, nget (s_conns s) cid = Some c /\ find_job (c_jobs c) jid = Some j /\ r = c_addr c /\
    own_entry cfg judged = own_entry cfg (j_sent j) /\ pays cfg judged (c_addr c) = true /\ s' = s.
Proof. intros H. apply found_block_pays_owner. exists evs, os. exact H. Qed.

Lemma others_do_not_interfere_run evs s os e s' o cid :
  run cfg pow_ok init_server evs = (s, os) -> step cfg pow_ok s e = (s', o) -> event_cid e <> Some cid ->
  nget (s_conns s') cid = nget (s_conns s) cid /\
  (forall p b, nget (s_heap s) p = Some b -> nget (s_heap s') p = Some b).
Proof. intros H. apply others_do_not_interfere. exists evs, os. exact H. Qed.

Lemma submit_never_panics_run evs s os cid jid nonce x mb s' o :
  run cfg pow_ok init_server evs = (s, os) -> step cfg pow_ok s (ESubmit cid jid nonce x mb) = (s', o) -> o <> OPanic.
Proof. intros H. apply submit_never_panics. exists evs, os. exact H. Qed.

End StratumProofs.
