(* Proofs about the stratum server model (Model/Stratum.v), over ALL event lists: an event list is an interleaving
   of the code's critical sections (login, template, per-connection notification, submit, disconnect) of any number
   of miners.  Goroutine-level races inside a critical section are outside the model. *)
From Coq Require Import NArith PeanoNat List Bool Lia.
From Virel Require Import Lib.Config Lib.AMap Lib.U64 Model.Difficulty Proofs.Difficulty Model.Stratum.
Import ListNotations.
Open Scope N_scope.

(* ---- association lists ---- *)

Lemma nget_nset {V} (m : list (N * V)) k v q : nget (nset m k v) q = if q =? k then Some v else nget m q.
Proof.
  unfold nget, nset. induction m as [|[k' v'] r IH]; cbn.
  - destruct (q =? k); reflexivity.
  - destruct (k =? k') eqn:E.
    + apply N.eqb_eq in E. subst k'. cbn. destruct (q =? k); reflexivity.
    + cbn. destruct (q =? k') eqn:E2.
      * apply N.eqb_eq in E2. subst k'. destruct (q =? k) eqn:E3; [|reflexivity].
        apply N.eqb_eq in E3. subst q. rewrite N.eqb_refl in E. discriminate.
      * exact IH.
Qed.

Lemma nget_ndel_other {V} (m : list (N * V)) k q : q <> k -> nget (ndel m k) q = nget m q.
Proof.
  intros Hne. unfold nget, ndel. induction m as [|[k' v'] r IH]; cbn; [reflexivity|].
  destruct (k =? k') eqn:E.
  - apply N.eqb_eq in E. subst k'. destruct (q =? k) eqn:E2; [|reflexivity].
    apply N.eqb_eq in E2. contradiction.
  - cbn. destruct (q =? k'); [reflexivity|exact IH].
Qed.

Lemma nget_In {V} (m : list (N * V)) k v : nget m k = Some v -> In (k, v) m.
Proof.
  unfold nget. induction m as [|[k' v'] r IH]; cbn; [discriminate|].
  destruct (k =? k') eqn:E.
  - apply N.eqb_eq in E. subst k'. intros [= ->]. left. reflexivity.
  - intros H. right. exact (IH H).
Qed.

Lemma Forall_nset {V} (P : N * V -> Prop) m k v : Forall P m -> P (k, v) -> Forall P (nset m k v).
Proof.
  intros Hm Hk. unfold nset. induction Hm as [|[k' v'] r Hx Hr IH]; cbn.
  - constructor; [exact Hk|constructor].
  - destruct (k =? k'); constructor; assumption.
Qed.

Lemma Forall_ndel {V} (P : N * V -> Prop) m k : Forall P m -> Forall P (ndel m k).
Proof.
  intros Hm. unfold ndel. induction Hm as [|[k' v'] r Hx Hr IH]; cbn; [constructor|].
  destruct (k =? k'); [exact Hr|constructor; assumption].
Qed.

(* ---- two association lists kept in step (same keys in the same order) ---- *)

Section InStep.
Context {A B : Type}.
Variable R : A -> B -> Prop.
Definition kv_rel (x : N * A) (y : N * B) : Prop := fst x = fst y /\ R (snd x) (snd y).

Lemma instep_nget_l m g k a : Forall2 kv_rel m g -> nget m k = Some a -> exists b, nget g k = Some b /\ R a b.
Proof.
  unfold nget. induction 1 as [|[k1 a1] [k2 b1] m' g' [Hk Hr] Hf IH]; cbn; [discriminate|].
  cbn in Hk, Hr. subst k2. destruct (k =? k1).
  - intros [= <-]. exists b1. split; [reflexivity|exact Hr].
  - exact IH.
Qed.

Lemma instep_nget_r m g k b : Forall2 kv_rel m g -> nget g k = Some b -> exists a, nget m k = Some a /\ R a b.
Proof.
  unfold nget. induction 1 as [|[k1 a1] [k2 b1] m' g' [Hk Hr] Hf IH]; cbn; [discriminate|].
  cbn in Hk, Hr. subst k2. destruct (k =? k1).
  - intros [= <-]. exists a1. split; [reflexivity|exact Hr].
  - exact IH.
Qed.

Lemma instep_nset m g k a b : Forall2 kv_rel m g -> R a b -> Forall2 kv_rel (nset m k a) (nset g k b).
Proof.
  intros Hf Hr. unfold nset. induction Hf as [|[k1 a1] [k2 b1] m' g' [Hk Hr1] Hf IH]; cbn.
  - constructor; [split; [reflexivity|exact Hr]|constructor].
  - cbn in Hk, Hr1. subst k2. destruct (k =? k1).
    + constructor; [split; [reflexivity|exact Hr]|exact Hf].
    + constructor; [split; [reflexivity|exact Hr1]|exact IH].
Qed.

Lemma instep_ndel m g k : Forall2 kv_rel m g -> Forall2 kv_rel (ndel m k) (ndel g k).
Proof.
  intros Hf. unfold ndel. induction Hf as [|[k1 a1] [k2 b1] m' g' [Hk Hr1] Hf IH]; cbn; [constructor|].
  cbn in Hk, Hr1. subst k2. destruct (k =? k1); [exact Hf|].
  constructor; [split; [reflexivity|exact Hr1]|exact IH].
Qed.
End InStep.

(* ---- the last n elements of a list ---- *)

Lemma tl_skipn {A} k (l : list A) : tl (skipn k l) = skipn (S k) l.
Proof.
  revert l. induction k as [|k IH]; intros l.
  - destruct l; reflexivity.
  - destruct l as [|x r]; [reflexivity|]. cbn [skipn]. rewrite IH. reflexivity.
Qed.

Lemma lastn_length {A} n (l : list A) : length (lastn n l) = Nat.min n (length l).
Proof. unfold lastn. rewrite skipn_length. lia. Qed.

Lemma lastn_push {A} n (l : list A) x : (1 <= n)%nat ->
  lastn n (l ++ [x]) = (if Nat.leb n (length (lastn n l)) then tl (lastn n l) else lastn n l) ++ [x].
Proof.
  intros Hn. rewrite lastn_length. unfold lastn. rewrite app_length. cbn [length].
  destruct (Nat.leb n (Nat.min n (length l))) eqn:E.
  - apply Nat.leb_le in E. assert (Hl : (n <= length l)%nat) by lia.
    rewrite tl_skipn. replace (length l + 1 - n)%nat with (S (length l - n)) by lia.
    rewrite skipn_app. replace (S (length l - n) - length l)%nat with 0%nat by lia. reflexivity.
  - apply Nat.leb_gt in E. assert (Hl : (length l < n)%nat) by lia.
    replace (length l + 1 - n)%nat with 0%nat by lia. replace (length l - n)%nat with 0%nat by lia. reflexivity.
Qed.

(* ---- sorting the chains of a blob ---- *)

Fixpoint asc (l : list chain) : Prop :=
  match l with
  | [] => True
  | x :: r => (forall y, In y r -> fst x < fst y) /\ asc r
  end.

Lemma insert_chain_spec x l s :
  asc l -> insert_chain x l = Some s -> asc s /\ (forall y, In y s <-> y = x \/ In y l).
Proof.
  revert s. induction l as [|y r IH]; cbn; intros s Hl H.
  - injection H as <-. cbn. split; [split; [intros ? []|exact I]|]. intros z. intuition congruence.
  - destruct Hl as [Hy Hr]. destruct (fst x <? fst y) eqn:E1.
    + injection H as <-. apply N.ltb_lt in E1. split.
      * cbn. split; [|split; assumption]. intros z [<-|Hz]; [exact E1|]. specialize (Hy z Hz). lia.
      * intros z. cbn. intuition congruence.
    + destruct (fst y <? fst x) eqn:E2; [|discriminate].
      destruct (insert_chain x r) as [r'|] eqn:E3; [|discriminate]. cbn in H. injection H as <-.
      destruct (IH r' Hr eq_refl) as [Ha Hi]. apply N.ltb_lt in E2. split.
      * cbn. split; [|exact Ha]. intros z Hz. apply Hi in Hz. destruct Hz as [->|Hz]; [exact E2|exact (Hy z Hz)].
      * intros z. cbn. rewrite Hi. intuition congruence.
Qed.

Lemma sort_chains_spec l s : sort_chains l = Some s -> asc s /\ (forall y, In y s <-> In y l).
Proof.
  revert s. induction l as [|x r IH]; cbn; intros s H.
  - injection H as <-. split; [exact I|intros z; tauto].
  - destruct (sort_chains r) as [s0|] eqn:E; [|discriminate].
    destruct (IH s0 eq_refl) as [Ha Hi]. destruct (insert_chain_spec x s0 s Ha H) as [Ha' Hi'].
    split; [exact Ha'|]. intros z. rewrite Hi'. rewrite Hi. cbn. intuition congruence.
Qed.

Lemma find_asc (l : list chain) x :
  asc l -> In x l -> find (fun c : chain => fst c =? fst x) l = Some x.
Proof.
  induction l as [|y r IH]; cbn; intros Ha Hin; [contradiction|].
  destruct Ha as [Hy Hr]. destruct Hin as [->|Hin].
  - rewrite N.eqb_refl. reflexivity.
  - specialize (Hy x Hin). destruct (fst y =? fst x) eqn:E; [apply N.eqb_eq in E; lia|]. exact (IH Hr Hin).
Qed.

Section StratumProofs.
Variable cfg : config.
Variable pow : N -> blob -> N.

(* a blob computed from a block names, for this chain, the block's template and recipient *)
Lemma own_entry_blob_of b sent :
  blob_of cfg b = Some sent -> own_entry cfg sent = Some (Own (b_tpl b) (b_rcp b)).
Proof.
  unfold blob_of. destruct (sort_chains _) as [ch|] eqn:E; [|discriminate]. intros [= <-].
  destruct (sort_chains_spec _ _ E) as [Ha Hi]. unfold own_entry. cbn [mb_chains].
  assert (Hin : In (network_id cfg, Own (b_tpl b) (b_rcp b)) ch).
  { apply Hi. apply in_or_app. right. left. reflexivity. }
  pose proof (find_asc ch (network_id cfg, Own (b_tpl b) (b_rcp b)) Ha Hin) as Hf. cbn [fst] in Hf.
  rewrite Hf. reflexivity.
Qed.

(* ---- the invariant ---- *)

Definition heap := list (N * blk).

(* the block a job points to: it exists, it pays addr, and the blob recomputed from it is the blob that was sent *)
Definition job_ok (h : heap) (addr : N) (j : job) : Prop :=
  exists b, nget h (j_ptr j) = Some b /\ b_rcp b = addr /\ blob_of cfg b = Some (j_sent j).
Definition conn_ok (h : heap) (c : conn) : Prop := c_addr c <> 0 /\ Forall (job_ok h (c_addr c)) (c_jobs c).
Definition conns_ok (h : heap) (m : list (N * conn)) : Prop := Forall (fun kc => conn_ok h (snd kc)) m.
Definition heap_bound (h : heap) (n : N) : Prop := forall p b, nget h p = Some b -> p < n.
Definition Inv (s : server) : Prop := heap_bound (s_heap s) (s_next s) /\ conns_ok (s_heap s) (s_conns s).

(* no block is ever overwritten *)
Definition heap_le (h h' : heap) : Prop := forall p b, nget h p = Some b -> nget h' p = Some b.

Lemma heap_le_refl h : heap_le h h.
Proof. intros p b H. exact H. Qed.

Lemma job_ok_mono h h' a j : heap_le h h' -> job_ok h a j -> job_ok h' a j.
Proof. intros Hle (b & H1 & H2 & H3). exists b. split; [exact (Hle _ _ H1)|split; assumption]. Qed.

Lemma conn_ok_mono h h' c : heap_le h h' -> conn_ok h c -> conn_ok h' c.
Proof.
  intros Hle [Ha Hj]. split; [exact Ha|]. eapply Forall_impl; [|exact Hj]. intros j. apply job_ok_mono. exact Hle.
Qed.

Lemma conns_ok_mono h h' m : heap_le h h' -> conns_ok h m -> conns_ok h' m.
Proof. intros Hle Hm. eapply Forall_impl; [|exact Hm]. intros kc. apply conn_ok_mono. exact Hle. Qed.

Lemma heap_le_alloc h n b : heap_bound h n -> heap_le h (nset h n b).
Proof.
  intros Hb p b0 Hp. rewrite nget_nset. destruct (p =? n) eqn:E; [|exact Hp].
  apply N.eqb_eq in E. subst p. apply Hb in Hp. lia.
Qed.

Lemma heap_bound_alloc h n b : heap_bound h n -> heap_bound (nset h n b) (n + 1).
Proof.
  intros Hb p b0. rewrite nget_nset. destruct (p =? n) eqn:E.
  - apply N.eqb_eq in E. intros _. lia.
  - intros Hp. apply Hb in Hp. lia.
Qed.

Lemma nget_conn_ok h m cid c : conns_ok h m -> nget m cid = Some c -> conn_ok h c.
Proof.
  intros Hm Hg. apply nget_In in Hg. unfold conns_ok in Hm. rewrite Forall_forall in Hm. exact (Hm _ Hg).
Qed.

Lemma inv_init : Inv init_server.
Proof. split; [intros p b H; discriminate|constructor]. Qed.

Lemma inv_kick s cid : Inv s -> Inv (kick s cid).
Proof. intros [Hb Hc]. split; [exact Hb|]. cbn. apply Forall_ndel. exact Hc. Qed.

Lemma Forall_push P (jobs : list job) j : Forall P jobs -> P j -> Forall P (push_job cfg jobs j).
Proof.
  intros Hj Hn. unfold push_job. apply Forall_app. split; [|constructor; [exact Hn|constructor]].
  destruct (Nat.leb _ _); [|exact Hj]. destruct Hj; [constructor|assumption].
Qed.

Ltac dm H := match type of H with context [match ?x with _ => _ end] => destruct x eqn:? end.
Ltac same H := injection H as <- <-; split; [split; assumption|apply heap_le_refl].

(* every step keeps the invariant and never overwrites a block *)
Lemma step_facts s e s' o :
  Inv s -> step cfg pow s e = (s', o) -> Inv s' /\ heap_le (s_heap s) (s_heap s').
Proof.
  intros [Hb Hc] H.
  destruct e as [cid addr jid|tpl ts extra ch d md|cid k extra jid|cid jid n x mb|cid]; cbn [step] in H.
  - (* login *)
    unfold do_login in H. cbv zeta in H. repeat dm H; try (same H).
    injection H as <- <-. cbn.
    pose proof (heap_le_alloc _ _ (mkblk (b_tpl b) addr (b_ts b) (b_extra b) (b_nonce b) (b_chains b) (b_diff b)) Hb) as Hle.
    split; [split|exact Hle].
    + apply heap_bound_alloc. exact Hb.
    + apply Forall_nset; [exact (conns_ok_mono _ _ _ Hle Hc)|]. cbn. split.
      * cbn. apply N.eqb_neq. assumption.
      * constructor; [|constructor]. eexists. cbn. rewrite nget_nset, N.eqb_refl. split; [reflexivity|]. split; [reflexivity|assumption].
  - (* template *)
    unfold do_template in H. injection H as <- <-. cbn.
    pose proof (heap_le_alloc _ _ (mkblk tpl 0 ts extra 0 ch d) Hb) as Hle.
    split; [split|exact Hle]; [apply heap_bound_alloc; exact Hb|exact (conns_ok_mono _ _ _ Hle Hc)].
  - (* notify *)
    unfold do_notify in H. cbv zeta in H. repeat dm H; try (same H).
    injection H as <- <-. cbn.
    pose proof (heap_le_alloc _ _ (mkblk (b_tpl b) (c_addr c) (b_ts b) extra (b_nonce b) (b_chains b) (b_diff b)) Hb) as Hle.
    split; [split|exact Hle].
    + apply heap_bound_alloc. exact Hb.
    + apply Forall_nset; [exact (conns_ok_mono _ _ _ Hle Hc)|]. cbn.
      match goal with Hx : nget (s_conns s) cid = Some c |- _ => destruct (nget_conn_ok _ _ _ _ Hc Hx) as [Ha Hj] end.
      split; [exact Ha|].
      apply Forall_push.
      * eapply Forall_impl; [|exact Hj]. intros j. apply job_ok_mono. exact Hle.
      * eexists. cbn. rewrite nget_nset, N.eqb_refl. split; [reflexivity|]. split; [reflexivity|assumption].
  - (* submit *)
    unfold do_submit, submit_result, judge in H. repeat dm H; try (same H);
      injection H as <- <-; (split; [apply inv_kick; split; assumption|apply heap_le_refl]).
  - (* disconnect *)
    injection H as <- <-. split; [apply inv_kick; split; assumption|apply heap_le_refl].
Qed.

Lemma run_facts evs : forall s s' os,
  Inv s -> run cfg pow s evs = (s', os) -> Inv s' /\ heap_le (s_heap s) (s_heap s').
Proof.
  induction evs as [|e r IH]; cbn; intros s s' os Hi H.
  - injection H as <- <-. split; [exact Hi|apply heap_le_refl].
  - destruct (step cfg pow s e) as [s1 o] eqn:Es. destruct (run cfg pow s1 r) as [s2 os2] eqn:Er.
    injection H as <- <-. destruct (step_facts _ _ _ _ Hi Es) as [Hi1 Hle1].
    destruct (IH _ _ _ Hi1 Er) as [Hi2 Hle2]. split; [exact Hi2|].
    intros p b Hp. exact (Hle2 _ _ (Hle1 _ _ Hp)).
Qed.

Definition reachable (s : server) : Prop := exists evs os, run cfg pow init_server evs = (s, os).

Lemma reachable_inv s : reachable s -> Inv s.
Proof. intros (evs & os & H). exact (proj1 (run_facts _ _ _ _ inv_init H)). Qed.

Lemma find_job_In jobs jid j : find_job jobs jid = Some j -> In j jobs /\ j_id j = jid.
Proof.
  induction jobs as [|a r IH]; cbn; [discriminate|].
  destruct (j_id a =? jid) eqn:E.
  - intros [= ->]. apply N.eqb_eq in E. split; [left; reflexivity|exact E].
  - intros H. destruct (IH H) as [Hin Hid]. split; [right; exact Hin|exact Hid].
Qed.

Lemma reachable_job_ok s cid c j :
  reachable s -> nget (s_conns s) cid = Some c -> In j (c_jobs c) -> job_ok (s_heap s) (c_addr c) j.
Proof.
  intros Hr Hc Hj. destruct (reachable_inv _ Hr) as [_ Hcs].
  destruct (nget_conn_ok _ _ _ _ Hcs Hc) as [_ Hjobs]. rewrite Forall_forall in Hjobs. exact (Hjobs _ Hj).
Qed.

(* T1: every job held by a connection points to a block whose recipient is the connection's login address, and the
   blob that was sent with it names, for this chain, a block paying that address *)
Lemma job_pays_owner s cid c j :
  reachable s -> nget (s_conns s) cid = Some c -> In j (c_jobs c) ->
  (exists b, nget (s_heap s) (j_ptr j) = Some b /\ b_rcp b = c_addr c) /\ pays cfg (j_sent j) (c_addr c) = true.
Proof.
  intros Hr Hc Hj. destruct (reachable_job_ok _ _ _ _ Hr Hc Hj) as (b & H1 & H2 & H3).
  split; [exists b; split; assumption|].
  unfold pays. rewrite (own_entry_blob_of _ _ H3). rewrite H2. apply N.eqb_refl.
Qed.

(* T2: the blob recomputed from the job's block is, at any later time, the blob that was sent with the job *)
Lemma job_is_stable s cid c j :
  reachable s -> nget (s_conns s) cid = Some c -> In j (c_jobs c) ->
  exists b, nget (s_heap s) (j_ptr j) = Some b /\ blob_of cfg b = Some (j_sent j).
Proof.
  intros Hr Hc Hj. destruct (reachable_job_ok _ _ _ _ Hr Hc Hj) as (b & H1 & H2 & H3). exists b. split; assumption.
Qed.

Lemma blob_of_fields b sent :
  blob_of cfg b = Some sent -> mb_ts sent = b_ts b /\ mb_extra sent = b_extra b /\ mb_nonce sent = b_nonce b.
Proof. unfold blob_of. destruct (sort_chains _); [|discriminate]. intros [= <-]. cbn. auto. Qed.

Lemma blob_of_renonce b sent e n :
  blob_of cfg b = Some sent ->
  blob_of cfg (mkblk (b_tpl b) (b_rcp b) (b_ts b) e n (b_chains b) (b_diff b)) = Some (mkblob (mb_ts sent) e n (mb_chains sent)).
Proof. unfold blob_of. cbn. destruct (sort_chains _); [|discriminate]. intros [= <-]. reflexivity. Qed.

(* T2, at submit time: for a job the connection still holds, a well-formed submission without merge-mining blob is
   judged against exactly the blob the miner hashed (the sent blob with the miner's nonce and extra nonce), with the
   proof-of-work value of that blob under that blob's own seed, against the difficulty of the job's own block (the
   verdict is [judge]: found when the value meets that difficulty, rejected for low difficulty when it does not); the
   state does not change *)
Lemma submit_judged_against_sent_blob s cid c jid j len n x :
  reachable s -> nget (s_conns s) cid = Some c -> find_job (c_jobs c) jid = Some j -> 4 <= len ->
  exists b, nget (s_heap s) (j_ptr j) = Some b /\
  step cfg pow s (ESubmit cid jid (NBytes len n) x MNone) =
    submit_result s cid (judge cfg pow (b_diff b) (c_addr c) (miner_blob (j_sent j) n x)).
Proof.
  intros Hr Hc Hf Hlen. destruct (find_job_In _ _ _ Hf) as [Hin _].
  destruct (reachable_job_ok _ _ _ _ Hr Hc Hin) as (b & H1 & H2 & H3).
  exists b. split; [exact H1|].
  cbn [step]. unfold do_submit. rewrite Hc.
  destruct (len <? 4) eqn:E; [apply N.ltb_lt in E; lia|]. rewrite Hf, H1. unfold complete.
  destruct (blob_of_fields _ _ H3) as (Hts & Hex & Hno).
  set (e := match x with XBytes l v => if l =? 16 then v else b_extra b | XNone => b_extra b end).
  rewrite (blob_of_renonce b (j_sent j) e n H3). cbn [b_rcp b_diff]. rewrite H2.
  assert (Hm : miner_blob (j_sent j) n x = mkblob (mb_ts (j_sent j)) e n (mb_chains (j_sent j))).
  { unfold miner_blob, e. rewrite Hex. reflexivity. }
  rewrite Hm. reflexivity.
Qed.

Lemma complete_keeps b n x mb jb :
  complete cfg b n x mb = CBlock jb -> b_tpl jb = b_tpl b /\ b_rcp jb = b_rcp b /\ b_diff jb = b_diff b.
Proof.
  unfold complete. destruct mb as [| |m].
  - intros [= <-]. cbn. auto.
  - discriminate.
  - destruct (is_masterchain cfg); [discriminate|]. unfold set_mining_blob.
    destruct (smb_loop _ _ _ _ _ _); [|discriminate]. intros [= <-]. cbn. auto.
Qed.

(* T3: whatever is submitted (any nonce, extra nonce, merge-mining blob), a block that is produced pays the login
   address of the submitting connection and names, for this chain, the same template and recipient as the sent blob *)
Lemma found_block_pays_owner s cid jid nonce x mb s' r judged :
  reachable s -> step cfg pow s (ESubmit cid jid nonce x mb) = (s', OFound r judged) ->
  exists c j, nget (s_conns s) cid = Some c /\ find_job (c_jobs c) jid = Some j /\ r = c_addr c /\
    own_entry cfg judged = own_entry cfg (j_sent j) /\ pays cfg judged (c_addr c) = true /\ s' = s.
Proof.
  intros Hr H. cbn [step] in H. unfold do_submit in H.
  destruct (nget (s_conns s) cid) as [c|] eqn:Hc; [|discriminate].
  destruct nonce as [|len n]; [discriminate|]. destruct (len <? 4); [discriminate|].
  destruct (find_job (c_jobs c) jid) as [j|] eqn:Hf; [|discriminate].
  destruct (find_job_In _ _ _ Hf) as [Hin _].
  destruct (reachable_job_ok _ _ _ _ Hr Hc Hin) as (b & H1 & H2 & H3). rewrite H1 in H.
  destruct (complete cfg b n x mb) as [jb|] eqn:Hcm; [|discriminate].
  destruct (blob_of cfg jb) as [jd|] eqn:Hj; [|discriminate].
  unfold submit_result, judge in H. destruct (pow_valid _ _) as [[|]|]; try discriminate. injection H as <- <- <-.
  destruct (complete_keeps _ _ _ _ _ Hcm) as (Ht & Hrc & _).
  exists c, j. split; [reflexivity|]. split; [exact Hf|]. split; [congruence|].
  assert (Ho : own_entry cfg jd = own_entry cfg (j_sent j)).
  { rewrite (own_entry_blob_of _ _ Hj), (own_entry_blob_of _ _ H3). congruence. }
  split; [exact Ho|]. split; [|reflexivity].
  unfold pays. rewrite (own_entry_blob_of _ _ Hj). rewrite Hrc, H2. apply N.eqb_refl.
Qed.

(* T4: the events of the other miners (logins, templates, notifications, submissions, disconnections) leave a
   connection, its jobs and the blocks they point to exactly as they were *)
Definition event_cid (e : event) : option N :=
  match e with
  | ELogin cid _ _ | ENotify cid _ _ _ | ESubmit cid _ _ _ _ | EDisconnect cid => Some cid
  | ETemplate _ _ _ _ _ _ => None
  end.

Lemma others_do_not_interfere s e s' o cid :
  reachable s -> step cfg pow s e = (s', o) -> event_cid e <> Some cid ->
  nget (s_conns s') cid = nget (s_conns s) cid /\
  (forall p b, nget (s_heap s) p = Some b -> nget (s_heap s') p = Some b).
Proof.
  intros Hr H Hne. split; [|exact (proj2 (step_facts _ _ _ _ (reachable_inv _ Hr) H))].
  assert (Hk : forall c0, c0 <> cid -> nget (s_conns (kick s c0)) cid = nget (s_conns s) cid).
  { intros c0 Hc0. cbn. apply nget_ndel_other. congruence. }
  destruct e as [c0 addr jid|tpl ts extra ch d md|c0 k extra jid|c0 jid n x mb|c0]; cbn [step] in H; cbn in Hne.
  - assert (Hc0 : cid <> c0) by congruence.
    unfold do_login in H. cbv zeta in H. repeat dm H; try (injection H as <- <-; reflexivity).
    injection H as <- <-. cbn. rewrite nget_nset. destruct (cid =? c0) eqn:E; [apply N.eqb_eq in E; contradiction|reflexivity].
  - unfold do_template in H. injection H as <- <-. reflexivity.
  - assert (Hc0 : cid <> c0) by congruence.
    unfold do_notify in H. cbv zeta in H. repeat dm H; try (injection H as <- <-; reflexivity).
    injection H as <- <-. cbn. rewrite nget_nset. destruct (cid =? c0) eqn:E; [apply N.eqb_eq in E; contradiction|reflexivity].
  - assert (Hc0 : c0 <> cid) by congruence.
    unfold do_submit, submit_result, judge in H. repeat dm H; try (injection H as <- <-; reflexivity); injection H as <- <-; apply Hk; exact Hc0.
  - assert (Hc0 : c0 <> cid) by congruence. injection H as <- <-. apply Hk. exact Hc0.
Qed.

(* ---- the jobs a connection holds are the jobs it was advertised ---- *)

Definition cfg_ok_stratum (c : config) : bool := 1 <=? stratum_jobs_history c.
Hypothesis Hok : cfg_ok_stratum cfg = true.

Definition jobkey (j : job) : N * adv := (j_id j, mkadv (j_sent j) (j_target j)).

(* server side / miner's side of one connection *)
Definition conn_view (c : conn) (v : mview) : Prop :=
  c_addr c = mv_addr v /\ map jobkey (c_jobs c) = lastn (hist cfg) (mv_jobs v).
Definition views_ok (s : server) (g : list (N * mview)) : Prop := Forall2 (kv_rel conn_view) (s_conns s) g.

Lemma hist_pos : (1 <= hist cfg)%nat.
Proof. unfold cfg_ok_stratum in Hok. apply N.leb_le in Hok. unfold hist. lia. Qed.

Lemma map_push jobs j l :
  map jobkey jobs = lastn (hist cfg) l -> map jobkey (push_job cfg jobs j) = lastn (hist cfg) (l ++ [jobkey j]).
Proof.
  intros H. rewrite (lastn_push _ _ _ hist_pos). rewrite <- H. unfold push_job. rewrite map_app, map_length. cbn [map].
  destruct (Nat.leb (hist cfg) (length jobs)); [|reflexivity]. destruct jobs; reflexivity.
Qed.

Lemma judge_cases d r jd o : judge cfg pow d r jd = Some o -> o = OFound r jd \/ o = ORejectedLowDiff.
Proof. unfold judge. destruct (pow_valid _ _) as [[|]|]; intros [= <-]; auto. Qed.

Lemma step_views s g e s' o :
  views_ok s g -> step cfg pow s e = (s', o) -> views_ok s' (view_step g e o).
Proof.
  unfold views_ok. intros Hv H.
  destruct e as [cid addr jid|tpl ts extra ch d md|cid k extra jid|cid jid n x mb|cid]; cbn [step] in H.
  - unfold do_login in H. cbv zeta in H. repeat dm H; try (injection H as <- <-; exact Hv).
    injection H as <- <-. cbn. apply instep_nset; [exact Hv|]. split; [reflexivity|]. cbn.
    pose proof hist_pos as Hp. unfold lastn. cbn. destruct (hist cfg); [lia|reflexivity].
  - unfold do_template in H. injection H as <- <-. exact Hv.
  - unfold do_notify in H. cbv zeta in H. repeat dm H; try (injection H as <- <-; exact Hv).
    injection H as <- <-. cbn.
    match goal with Hx : nget (s_conns s) cid = Some ?c |- _ => destruct (instep_nget_l _ _ _ _ _ Hv Hx) as (v & Hg & Ha & Hj) end.
    rewrite Hg. apply instep_nset; [exact Hv|]. split; [exact Ha|]. cbn. match goal with Ht : job_target _ = Some ?t |- _ => apply (map_push _ (mkjob jid (s_next s) (blob_seed cfg b0) b0 t)) end. exact Hj.
  - unfold do_submit, submit_result in H. repeat dm H; try (injection H as <- <-; exact Hv);
      try (injection H as <- <-; cbn; apply instep_ndel; exact Hv).
    injection H as <- <-.
    match goal with Hj : judge _ _ _ _ _ = Some _ |- _ => destruct (judge_cases _ _ _ _ Hj) as [-> | ->] end; exact Hv.
  - injection H as <- <-. cbn. apply instep_ndel. exact Hv.
Qed.

Lemma run_view_facts evs : forall s g s' g',
  views_ok s g -> run_view cfg pow s g evs = (s', g') ->
  views_ok s' g' /\ exists os, run cfg pow s evs = (s', os).
Proof.
  induction evs as [|e r IH]; cbn; intros s g s' g' Hv H.
  - injection H as <- <-. split; [exact Hv|]. exists []. reflexivity.
  - destruct (step cfg pow s e) as [s1 o] eqn:Es.
    destruct (IH _ _ _ _ (step_views _ _ _ _ _ Hv Es) H) as [Hv' [os Hr]]. split; [exact Hv'|].
    exists (o :: os). rewrite Hr. reflexivity.
Qed.

Lemma find_sent_map jobs jid a :
  find_sent (map jobkey jobs) jid = Some a -> exists j, find_job jobs jid = Some j /\ j_sent j = a_sent a /\ j_target j = a_target a.
Proof.
  induction jobs as [|j0 r IH]; cbn; [discriminate|].
  destruct (j_id j0 =? jid).
  - intros [= <-]. exists j0. cbn. auto.
  - exact IH.
Qed.

(* T5: after any event list, what the server holds for a connection is what the miner was told: same address, and
   the held jobs are exactly the last STRATUM_JOBS_HISTORY jobs that were sent to it (ids and blobs) *)
Lemma held_jobs_are_advertised evs s g cid :
  run_view cfg pow init_server [] evs = (s, g) ->
  (forall c, nget (s_conns s) cid = Some c -> exists v, nget g cid = Some v /\ conn_view c v) /\
  (forall v, nget g cid = Some v -> exists c, nget (s_conns s) cid = Some c /\ conn_view c v).
Proof.
  intros H. assert (H0 : views_ok init_server []) by constructor.
  destruct (run_view_facts _ _ _ _ _ H0 H) as [Hv _]. split.
  - intros c Hc. exact (instep_nget_l _ _ _ _ _ Hv Hc).
  - intros v Hg. exact (instep_nget_r _ _ _ _ _ Hv Hg).
Qed.

(* T6: the property in the miner's own terms.  After any interleaving of any number of miners, if the miner was sent
   job jid with blob [a_sent a] and the job is within the advertised history, then a well-formed submission is judged
   against exactly the blob the miner hashed, under that blob's own seed, against the difficulty of one block (the
   job's own, see advertised_target_is_jobs_own below): a block paying the miner's login address when the value meets
   it, "low difficulty" only when it does not - never "unknown job"; and the server's state is unchanged. *)
Lemma advertised_job_is_its_own evs s g cid v jid a len n x :
  run_view cfg pow init_server [] evs = (s, g) ->
  nget g cid = Some v -> advertised cfg v jid = Some a -> 4 <= len ->
  exists d, step cfg pow s (ESubmit cid jid (NBytes len n) x MNone) =
    submit_result s cid (judge cfg pow d (mv_addr v) (miner_blob (a_sent a) n x)).
Proof.
  intros H Hg Ha Hlen. assert (H0 : views_ok init_server []) by constructor.
  destruct (run_view_facts _ _ _ _ _ H0 H) as [Hv [os Hr]].
  destruct (instep_nget_r _ _ _ _ _ Hv Hg) as (c & Hc & Haddr & Hjobs).
  unfold advertised in Ha. fold (hist cfg) in Ha. rewrite <- Hjobs in Ha.
  destruct (find_sent_map _ _ _ Ha) as (j & Hf & <- & _).
  assert (Hre : reachable s) by (exists evs, os; exact Hr).
  destruct (submit_judged_against_sent_blob _ _ _ _ _ _ n x Hre Hc Hf Hlen) as (b & _ & Hs).
  exists (b_diff b). rewrite Hs, Haddr. reflexivity.
Qed.

(* every job the server sends (login answer or notification) describes a block paying the login address *)
Lemma sent_job_pays_login evs s g e s' jid sent t :
  run_view cfg pow init_server [] evs = (s, g) -> step cfg pow s e = (s', OJob jid sent t) ->
  match e with
  | ELogin cid addr _ => pays cfg sent addr = true
  | ENotify cid _ _ _ => exists v, nget g cid = Some v /\ pays cfg sent (mv_addr v) = true
  | _ => False
  end.
Proof.
  intros H Hs. assert (H0 : views_ok init_server []) by constructor.
  destruct (run_view_facts _ _ _ _ _ H0 H) as [Hv _].
  destruct e as [cid addr j|tpl ts extra ch d md|cid k extra j|cid j n x mb|cid]; cbn [step] in Hs.
  - unfold do_login in Hs. cbv zeta in Hs. repeat dm Hs; try discriminate. injection Hs as _ _ <- _.
    unfold pays. match goal with Hb : blob_of cfg _ = Some _ |- _ => rewrite (own_entry_blob_of _ _ Hb) end. cbn. apply N.eqb_refl.
  - unfold do_template in Hs. discriminate.
  - unfold do_notify in Hs. cbv zeta in Hs. repeat dm Hs; try discriminate. injection Hs as _ _ <- _.
    match goal with Hx : nget (s_conns s) cid = Some ?c |- _ => destruct (instep_nget_l _ _ _ _ _ Hv Hx) as (v & Hg & Ha & _) end.
    exists v. split; [exact Hg|]. unfold pays.
    match goal with Hb : blob_of cfg _ = Some _ |- _ => rewrite (own_entry_blob_of _ _ Hb) end. cbn. rewrite Ha. apply N.eqb_refl.
  - unfold do_submit, submit_result in Hs. repeat dm Hs; try discriminate. injection Hs as _ ->.
    match goal with Hj : judge _ _ _ _ _ = Some _ |- _ => destruct (judge_cases _ _ _ _ Hj); discriminate end.
  - discriminate.
Qed.

(* ---- a submission never takes one of the panicking branches ---- *)

Lemma NoDup_app_single (l : list N) x : NoDup l -> ~ In x l -> NoDup (l ++ [x]).
Proof.
  induction l as [|y l IH]; cbn; intros Hnd Hni; [constructor; [intros []|constructor]|].
  inversion Hnd as [|? ? Hy Hl]; subst. constructor.
  - intros Hin. apply in_app_or in Hin. destruct Hin as [Hin|[E|[]]]; [exact (Hy Hin)|subst; apply Hni; left; reflexivity].
  - apply IH; [exact Hl|tauto].
Qed.

(* the chains collected by setMiningBlob have pairwise distinct network ids, none equal to this network's *)
Definition keys_ok (nid : N) (acc : list chain) : Prop :=
  NoDup (map fst acc) /\ ~ In nid (map fst acc).

Lemma existsb_key_false acc v :
  existsb (fun oc : chain => hidv_eqb (snd oc) (snd v) || (fst oc =? fst v)) acc = false -> ~ In (fst v) (map fst acc).
Proof.
  induction acc as [|o acc IH]; cbn; intros H; [tauto|].
  apply Bool.orb_false_iff in H. destruct H as [H1 H2]. apply Bool.orb_false_iff in H1. destruct H1 as [_ Hk].
  apply N.eqb_neq in Hk. intros [E|Hin]; [congruence|]. exact (IH H2 Hin).
Qed.

Lemma smb_loop_keys nid l : forall first last contains acc oc,
  keys_ok nid acc -> smb_loop nid l first last contains acc = Some oc -> keys_ok nid oc.
Proof.
  induction l as [|v r IH]; cbn; intros first last contains acc oc Hk H.
  - destruct contains; [injection H as <-; exact Hk|discriminate].
  - destruct (negb first && (fst v <=? last)); [discriminate|].
    destruct (fst v =? nid) eqn:E; cbn [negb] in H.
    + destruct contains; [discriminate|]. exact (IH _ _ _ _ _ Hk H).
    + destruct (existsb _ acc) eqn:Ex; [discriminate|].
      apply (IH _ _ _ _ _) in H; [exact H|].
      destruct Hk as [Hnd Hni]. apply existsb_key_false in Ex. apply N.eqb_neq in E.
      unfold keys_ok. rewrite map_app. cbn [map]. split.
      * apply NoDup_app_single; assumption.
      * intros Hin. apply in_app_or in Hin. destruct Hin as [Hin|[Hin|[]]]; [exact (Hni Hin)|congruence].
Qed.

(* insertion into a sorted list without that key succeeds and keeps the keys *)
Lemma insert_chain_ok x l : ~ In (fst x) (map fst l) ->
  exists s, insert_chain x l = Some s /\ (forall k, In k (map fst s) <-> k = fst x \/ In k (map fst l)).
Proof.
  induction l as [|y r IH]; cbn; intros Hni.
  - eexists. split; [reflexivity|]. intros k. cbn. intuition (auto; congruence).
  - destruct (N.ltb_spec (fst x) (fst y)).
    + eexists. split; [reflexivity|]. intros k. cbn. intuition (auto; congruence).
    + destruct (N.ltb_spec (fst y) (fst x)).
      * destruct IH as (s & Hs & Hk); [tauto|]. rewrite Hs. cbn. eexists. split; [reflexivity|].
        intros k. cbn. rewrite Hk. intuition (auto; congruence).
      * exfalso. apply Hni. left. lia.
Qed.

Lemma sort_chains_ok l : NoDup (map fst l) ->
  exists s, sort_chains l = Some s /\ (forall k, In k (map fst s) <-> In k (map fst l)).
Proof.
  induction l as [|x r IH]; cbn; intros Hnd.
  - eexists. split; [reflexivity|]. tauto.
  - inversion Hnd as [|? ? Hni Hnd']; subst.
    destruct (IH Hnd') as (s & Hs & Hk). rewrite Hs.
    destruct (insert_chain_ok x s) as (s' & Hs' & Hk'); [rewrite Hk; exact Hni|].
    exists s'. split; [exact Hs'|]. intros k. rewrite Hk', Hk. cbn. intuition (auto; congruence).
Qed.

Lemma complete_blob_of b sent n x mb jb :
  blob_of cfg b = Some sent -> complete cfg b n x mb = CBlock jb -> blob_of cfg jb <> None.
Proof.
  intros Hb. unfold complete. destruct mb as [| |m].
  - intros [= <-]. rewrite (blob_of_renonce b sent _ n Hb). discriminate.
  - discriminate.
  - destruct (is_masterchain cfg); [discriminate|]. unfold set_mining_blob.
    destruct (smb_loop _ _ _ _ _ _) as [oc|] eqn:E; [|discriminate]. intros [= <-]. unfold blob_of. cbn [b_chains b_tpl b_rcp].
    assert (Hk : keys_ok (network_id cfg) oc).
    { eapply smb_loop_keys; [|exact E]. split; [constructor|intros []]. }
    destruct Hk as [Hnd Hni].
    destruct (sort_chains_ok (oc ++ [(network_id cfg, Own (b_tpl b) (b_rcp b))])) as (s & Hs & _).
    { rewrite map_app. cbn [map fst]. apply NoDup_app_single; assumption. }
    rewrite Hs. discriminate.
Qed.

(* ---- the target sent with a job is the target of that job's own SendJob call ---- *)

Lemma nget_app_l {V} (m : list (N * V)) k v q x : nget m q = Some x -> nget (m ++ [(k, v)]) q = Some x.
Proof.
  unfold nget. induction m as [|[k' v'] r IH]; cbn; [discriminate|].
  destruct (q =? k'); [auto|exact IH].
Qed.

Lemma nget_app_inv {V} (m : list (N * V)) k v q x :
  nget (m ++ [(k, v)]) q = Some x -> nget m q = Some x \/ (q = k /\ x = v).
Proof.
  unfold nget. induction m as [|[k' v'] r IH]; cbn.
  - destruct (q =? k) eqn:E; [|discriminate]. apply N.eqb_eq in E. intros [= <-]. right. auto.
  - destruct (q =? k'); [auto|exact IH].
Qed.

Lemma nget_app_new {V} (m : list (N * V)) k v : nget m k = None -> nget (m ++ [(k, v)]) k = Some v.
Proof.
  unfold nget. induction m as [|[k' v'] r IH]; cbn.
  - rewrite N.eqb_refl. reflexivity.
  - destruct (k =? k'); [discriminate|exact IH].
Qed.

(* what a step does to the list of SendJob calls: nothing, or one more call numbered length + 1 *)
Lemma step_tpls s e s' o :
  step cfg pow s e = (s', o) ->
  s_tpls s' = s_tpls s \/
  exists tpl ts extra ch d md, e = ETemplate tpl ts extra ch d md /\
    s_tpls s' = s_tpls s ++ [(N.of_nat (length (s_tpls s)) + 1, (s_next s, md))].
Proof.
  intros H. destruct e as [cid addr jid|tpl ts extra ch d md|cid k extra jid|cid jid n x mb|cid]; cbn [step] in H.
  - left. unfold do_login in H. cbv zeta in H. repeat dm H; injection H as <- _; reflexivity.
  - right. unfold do_template in H. injection H as <- _. exists tpl, ts, extra, ch, d, md. split; reflexivity.
  - left. unfold do_notify in H. cbv zeta in H. repeat dm H; injection H as <- _; reflexivity.
  - left. unfold do_submit, submit_result in H. repeat dm H; injection H as <- _; reflexivity.
  - left. injection H as <- _. reflexivity.
Qed.

(* the calls are numbered 1 .. length *)
Definition tpls_dom (s : server) : Prop :=
  forall q x, nget (s_tpls s) q = Some x -> q <= N.of_nat (length (s_tpls s)).

Lemma step_tpls_dom s e s' o : tpls_dom s -> step cfg pow s e = (s', o) -> tpls_dom s'.
Proof.
  intros Hd H. destruct (step_tpls _ _ _ _ H) as [E|(tpl & ts & extra & ch & d & md & _ & E)]; unfold tpls_dom; rewrite E.
  - exact Hd.
  - intros q x Hq. rewrite app_length. cbn [length]. apply nget_app_inv in Hq. destruct Hq as [Hq|[-> _]].
    + apply Hd in Hq. lia.
    + lia.
Qed.

(* what a call captured is never changed by later events *)
Lemma step_tpls_stable s e s' o k x :
  step cfg pow s e = (s', o) -> nget (s_tpls s) k = Some x -> nget (s_tpls s') k = Some x.
Proof.
  intros H Hk. destruct (step_tpls _ _ _ _ H) as [E|(tpl & ts & extra & ch & d & md & _ & E)]; rewrite E.
  - exact Hk.
  - apply nget_app_l. exact Hk.
Qed.

Lemma run_tpls evs : forall s s' os,
  tpls_dom s -> run cfg pow s evs = (s', os) ->
  tpls_dom s' /\ (forall k x, nget (s_tpls s) k = Some x -> nget (s_tpls s') k = Some x).
Proof.
  induction evs as [|e r IH]; cbn; intros s s' os Hd H.
  - injection H as <- _. split; [exact Hd|auto].
  - destruct (step cfg pow s e) as [s1 o] eqn:Es. destruct (run cfg pow s1 r) as [s2 os2] eqn:Er.
    injection H as <- _. destruct (IH _ _ _ (step_tpls_dom _ _ _ _ Hd Es) Er) as [Hd2 Hst].
    split; [exact Hd2|]. intros k x Hk. apply Hst. exact (step_tpls_stable _ _ _ _ _ _ Es Hk).
Qed.

Lemma tpls_dom_init : tpls_dom init_server.
Proof. intros q x H. discriminate. Qed.

(* the critical section SendJob call k runs for a connection sends the target of the difficulty passed to call k *)
Lemma notify_target_is_calls_own s cid k extra jid s' sent t :
  step cfg pow s (ENotify cid k extra jid) = (s', OJob jid sent t) ->
  exists p d c b, nget (s_tpls s) k = Some (p, d) /\ job_target d = Some t /\ nget (s_conns s) cid = Some c /\
    nget (s_heap s) p = Some b /\ own_entry cfg sent = Some (Own (b_tpl b) (c_addr c)).
Proof.
  intros H. cbn [step] in H. unfold do_notify in H. cbv zeta in H. repeat dm H; try discriminate.
  injection H as _ <- <-.
  match goal with Hb : blob_of cfg _ = Some _ |- _ => pose proof (own_entry_blob_of _ _ Hb) as Ho end. cbn in Ho.
  do 4 eexists. repeat split; eassumption.
Qed.

(* the login answer carries the target of the difficulty stored with the template it copies (LastMinDiff, written
   together with LastBlock) *)
Lemma login_target_is_last_calls s cid addr jid s' sent t :
  step cfg pow s (ELogin cid addr jid) = (s', OJob jid sent t) ->
  exists p d b, s_last s = Some (p, d) /\ job_target d = Some t /\
    nget (s_heap s) p = Some b /\ own_entry cfg sent = Some (Own (b_tpl b) addr).
Proof.
  intros H. cbn [step] in H. unfold do_login in H. cbv zeta in H. repeat dm H; try discriminate.
  injection H as _ <- <-.
  match goal with Hb : blob_of cfg _ = Some _ |- _ => pose proof (own_entry_blob_of _ _ Hb) as Ho end. cbn in Ho.
  do 3 eexists. repeat split; eassumption.
Qed.

(* THE TARGET OF A JOB IS ITS OWN, for every interleaving: take any history, then the k-th call SendJob(bl, md) with a
   template of content tpl, then ANY further events (later calls of SendJob with other difficulties, logins,
   notifications, submissions, disconnections), then the critical section of call k for connection cid: the target it
   sends is the target of md, and the blob it sends names the content tpl of that same call *)
Lemma broadcast_target_is_its_own evs1 s1 os1 tpl ts extra ch d md s1' evs2 s2 os2 cid x jid s3 sent t :
  run cfg pow init_server evs1 = (s1, os1) ->
  step cfg pow s1 (ETemplate tpl ts extra ch d md) = (s1', ONone) ->
  run cfg pow s1' evs2 = (s2, os2) ->
  step cfg pow s2 (ENotify cid (N.of_nat (length (s_tpls s1)) + 1) x jid) = (s3, OJob jid sent t) ->
  job_target md = Some t /\ exists c, nget (s_conns s2) cid = Some c /\ own_entry cfg sent = Some (Own tpl (c_addr c)).
Proof.
  intros H1 Ht H2 Hn.
  destruct (run_facts _ _ _ _ inv_init H1) as [Hi1 _].
  destruct (run_tpls _ _ _ _ tpls_dom_init H1) as [Hd1 _].
  destruct (step_facts _ _ _ _ Hi1 Ht) as [Hi1' _].
  pose proof (step_tpls_dom _ _ _ _ Hd1 Ht) as Hd1'.
  destruct (run_facts _ _ _ _ Hi1' H2) as [_ Hle2].
  destruct (run_tpls _ _ _ _ Hd1' H2) as [_ Hst2].
  set (k := N.of_nat (length (s_tpls s1)) + 1) in *.
  assert (Hk1 : nget (s_tpls s1') k = Some (s_next s1, md)).
  { cbn [step] in Ht. unfold do_template in Ht. injection Ht as <-. cbn [s_tpls]. apply nget_app_new.
    destruct (nget (s_tpls s1) k) as [y|] eqn:E; [|reflexivity]. apply Hd1 in E. unfold k in E. lia. }
  assert (Hp1 : nget (s_heap s1') (s_next s1) = Some (mkblk tpl 0 ts extra 0 ch d)).
  { cbn [step] in Ht. unfold do_template in Ht. injection Ht as <-. cbn [s_heap]. rewrite nget_nset, N.eqb_refl. reflexivity. }
  destruct (notify_target_is_calls_own _ _ _ _ _ _ _ _ Hn) as (p & d' & c & b & Hk & Htg & Hc & Hb & Ho).
  rewrite (Hst2 _ _ Hk1) in Hk. injection Hk as <- <-.
  rewrite (Hle2 _ _ Hp1) in Hb. injection Hb as <-. cbn in Ho.
  split; [exact Htg|]. exists c. split; assumption.
Qed.

(* ---- difficulties as GetBlockTemplate produces them outside the masterchain ----
   Block.Difficulty is at least 1 (C08: GetNextDifficulty returns at least MIN_DIFFICULTY), fits 64 bits (util.GetTarget
   reads the low word only, C08_get_target_refuted) and is the minimum difficulty passed to SendJob (GetBlockTemplate
   lowers min_diff only for merge-mined chains, which exist on the masterchain only). *)
Definition tpl_ok (e : event) : Prop :=
  match e with ETemplate _ _ _ _ d md => 1 <= d /\ d < two64 /\ md = d | _ => True end.

Definition diff_ok (d : N) : Prop := 1 <= d /\ d < two64.

Lemma job_target_spec d : diff_ok d -> job_target d = Some (max_u64 / d).
Proof. intros [H1 H2]. unfold job_target. rewrite get_target_partial by assumption. reflexivity. Qed.

Lemma pow_valid_spec val d : diff_ok d -> pow_valid val d = Some (val <=? (two128 - 1) / d).
Proof.
  intros [H1 H2]. unfold pow_valid. rewrite valid_pow_value_spec; [reflexivity|exact H1|].
  unfold two64, two128 in *. lia.
Qed.

(* a value that meets the target of a difficulty (in the reading of the code: ByteTargetToDiff, then the 128-bit
   comparison) meets the difficulty *)
Lemma meets_target_meets_diff val d :
  diff_ok d -> meets_target val (max_u64 / d) = true -> (val <=? (two128 - 1) / d) = true.
Proof.
  intros [H1 H2] Hm. unfold meets_target, target_diff in Hm.
  assert (Ht : 1 <= max_u64 / d).
  { apply N.div_le_lower_bound; unfold max_u64, two64 in *; lia. }
  destruct (N.eqb_spec (max_u64 / d) 0) as [E|_]; [lia|].
  apply N.leb_le in Hm. apply N.leb_le.
  assert (Hd : d <= max_u64 / (max_u64 / d)).
  { apply N.div_le_lower_bound; [lia|]. rewrite N.mul_comm. apply N.mul_div_le. lia. }
  etransitivity; [exact Hm|]. apply N.div_le_compat_l. lia.
Qed.

(* the second invariant: every block has a well-formed difficulty; what a SendJob call captured and what LastMinDiff
   holds is the difficulty of the block captured / stored with it; the target recorded with a job is the target of the
   difficulty of the job's own block *)
Definition heap_diff_ok (h : heap) : Prop := forall p b, nget h p = Some b -> diff_ok (b_diff b).
Definition tpls_ok (h : heap) (t : list (N * (N * N))) : Prop :=
  forall k p d, nget t k = Some (p, d) -> exists b, nget h p = Some b /\ b_diff b = d.
Definition last_ok (h : heap) (l : option (N * N)) : Prop :=
  match l with Some (p, d) => exists b, nget h p = Some b /\ b_diff b = d | None => True end.
Definition job_tok (h : heap) (j : job) : Prop :=
  exists b, nget h (j_ptr j) = Some b /\ job_target (b_diff b) = Some (j_target j).
Definition conns_tok (h : heap) (m : list (N * conn)) : Prop := Forall (fun kc => Forall (job_tok h) (c_jobs (snd kc))) m.
Definition TInv (s : server) : Prop :=
  heap_diff_ok (s_heap s) /\ tpls_ok (s_heap s) (s_tpls s) /\ last_ok (s_heap s) (s_last s) /\ conns_tok (s_heap s) (s_conns s).

Lemma tinv_init : TInv init_server.
Proof.
  split; [intros p b H; discriminate|]. split; [intros k p d H; discriminate|]. split; [exact I|constructor].
Qed.

Lemma tpls_ok_mono h h' t : heap_le h h' -> tpls_ok h t -> tpls_ok h' t.
Proof. intros Hle Ht k p d Hk. destruct (Ht _ _ _ Hk) as (b & Hb & Hd). exists b. split; [exact (Hle _ _ Hb)|exact Hd]. Qed.

Lemma last_ok_mono h h' l : heap_le h h' -> last_ok h l -> last_ok h' l.
Proof. intros Hle. destruct l as [[p d]|]; [|auto]. intros (b & Hb & Hd). exists b. split; [exact (Hle _ _ Hb)|exact Hd]. Qed.

Lemma job_tok_mono h h' j : heap_le h h' -> job_tok h j -> job_tok h' j.
Proof. intros Hle (b & Hb & Ht). exists b. split; [exact (Hle _ _ Hb)|exact Ht]. Qed.

Lemma conns_tok_mono h h' m : heap_le h h' -> conns_tok h m -> conns_tok h' m.
Proof.
  intros Hle Hm. eapply Forall_impl; [|exact Hm]. intros kc Hj. eapply Forall_impl; [|exact Hj].
  intros j. apply job_tok_mono. exact Hle.
Qed.

Lemma heap_diff_ok_alloc h n b : heap_diff_ok h -> diff_ok (b_diff b) -> heap_diff_ok (nset h n b).
Proof.
  intros Hh Hb p b0. rewrite nget_nset. destruct (p =? n); [intros [= <-]; exact Hb|apply Hh].
Qed.

Lemma nget_conn_tok h m cid c : conns_tok h m -> nget m cid = Some c -> Forall (job_tok h) (c_jobs c).
Proof.
  intros Hm Hg. apply nget_In in Hg. unfold conns_tok in Hm. rewrite Forall_forall in Hm. exact (Hm _ Hg).
Qed.

Lemma tinv_kick s cid : TInv s -> TInv (kick s cid).
Proof.
  intros (H1 & H2 & H3 & H4). split; [exact H1|]. split; [exact H2|]. split; [exact H3|]. cbn. apply Forall_ndel. exact H4.
Qed.

Ltac tsame :=
  unfold TInv; try match goal with Hx : s_last _ = _ |- _ => rewrite Hx end;
  (split; [assumption|split; [assumption|split; assumption]]).

Lemma step_tfacts s e s' o :
  Inv s -> TInv s -> tpl_ok e -> step cfg pow s e = (s', o) -> TInv s'.
Proof.
  intros [Hb Hc] (Hh & Ht & Hl & Hj) Hev H.
  destruct e as [cid addr jid|tpl ts extra ch d md|cid k extra jid|cid jid n x mb|cid]; cbn [step] in H.
  - (* login *)
    unfold do_login in H. cbv zeta in H. repeat dm H; try (injection H as <- _; tsame).
    injection H as <- _. cbn.
    cbn in Hl. destruct Hl as (b1 & Hb1 & Hd1).
    match goal with Hx : nget (s_heap s) _ = Some b |- _ => rewrite Hx in Hb1; injection Hb1 as <- end.
    pose proof (heap_le_alloc _ _ (mkblk (b_tpl b) addr (b_ts b) (b_extra b) (b_nonce b) (b_chains b) (b_diff b)) Hb) as Hle.
    unfold TInv. cbn. match goal with Hx : s_last s = Some _ |- _ => rewrite Hx end.
    split; [|split; [|split]].
    + apply heap_diff_ok_alloc; [exact Hh|]. cbn. match goal with Hx : nget (s_heap s) _ = Some b |- _ => exact (Hh _ _ Hx) end.
    + exact (tpls_ok_mono _ _ _ Hle Ht).
    + cbn. exists b. split; [|exact Hd1]. apply Hle. assumption.
    + apply Forall_nset; [exact (conns_tok_mono _ _ _ Hle Hj)|]. cbn. constructor; [|constructor].
      eexists. cbn. rewrite nget_nset, N.eqb_refl. split; [reflexivity|]. cbn. rewrite Hd1. assumption.
  - (* template *)
    unfold do_template in H. injection H as <- _. cbn. cbn in Hev. destruct Hev as (Hd1 & Hd2 & ->).
    pose proof (heap_le_alloc _ _ (mkblk tpl 0 ts extra 0 ch d) Hb) as Hle.
    unfold TInv. cbn. split; [|split; [|split]].
    + apply heap_diff_ok_alloc; [exact Hh|]. cbn. split; assumption.
    + intros k p d0 Hk. apply nget_app_inv in Hk. destruct Hk as [Hk|[_ Hk]].
      * destruct (Ht _ _ _ Hk) as (b & Hb1 & Hd). exists b. split; [exact (Hle _ _ Hb1)|exact Hd].
      * injection Hk as -> ->. eexists. rewrite nget_nset, N.eqb_refl. split; reflexivity.
    + eexists. rewrite nget_nset, N.eqb_refl. split; reflexivity.
    + exact (conns_tok_mono _ _ _ Hle Hj).
  - (* notify *)
    unfold do_notify in H. cbv zeta in H. repeat dm H; try (injection H as <- _; tsame).
    injection H as <- _. cbn.
    match goal with Hx : nget (s_tpls s) k = Some _ |- _ => destruct (Ht _ _ _ Hx) as (b1 & Hb1 & Hd1) end.
    match goal with Hx : nget (s_heap s) _ = Some b |- _ => rewrite Hx in Hb1; injection Hb1 as <- end.
    pose proof (heap_le_alloc _ _ (mkblk (b_tpl b) (c_addr c) (b_ts b) extra (b_nonce b) (b_chains b) (b_diff b)) Hb) as Hle.
    unfold TInv. cbn. split; [|split; [|split]].
    + apply heap_diff_ok_alloc; [exact Hh|]. cbn. match goal with Hx : nget (s_heap s) _ = Some b |- _ => exact (Hh _ _ Hx) end.
    + exact (tpls_ok_mono _ _ _ Hle Ht).
    + exact (last_ok_mono _ _ _ Hle Hl).
    + apply Forall_nset; [exact (conns_tok_mono _ _ _ Hle Hj)|]. cbn.
      match goal with Hx : nget (s_conns s) cid = Some c |- _ => pose proof (nget_conn_tok _ _ _ _ Hj Hx) as Hjc end.
      apply Forall_push.
      * eapply Forall_impl; [|exact Hjc]. intros j. apply job_tok_mono. exact Hle.
      * eexists. cbn. rewrite nget_nset, N.eqb_refl. split; [reflexivity|]. cbn. rewrite Hd1. assumption.
  - (* submit *)
    unfold do_submit, submit_result in H. repeat dm H; try (injection H as <- _; tsame);
      injection H as <- _; apply tinv_kick; tsame.
  - injection H as <- _. apply tinv_kick; tsame.
Qed.

Lemma run_tfacts evs : forall s s' os,
  Forall tpl_ok evs -> Inv s -> TInv s -> run cfg pow s evs = (s', os) -> TInv s'.
Proof.
  induction evs as [|e r IH]; cbn; intros s s' os Hf Hi Hti H.
  - injection H as <- _. exact Hti.
  - destruct (step cfg pow s e) as [s1 o] eqn:Es. destruct (run cfg pow s1 r) as [s2 os2] eqn:Er.
    injection H as <- _. inversion Hf as [|? ? He Hr]; subst.
    apply (IH _ _ _ Hr (proj1 (step_facts _ _ _ _ Hi Es)) (step_tfacts _ _ _ _ Hi Hti He Es) Er).
Qed.

(* reachable through events whose templates have well-formed difficulties *)
Definition reachable_ok (s : server) : Prop :=
  exists evs os, Forall tpl_ok evs /\ run cfg pow init_server evs = (s, os).

Lemma reachable_ok_reachable s : reachable_ok s -> reachable s.
Proof. intros (evs & os & _ & H). exists evs, os. exact H. Qed.

Lemma reachable_ok_tinv s : reachable_ok s -> TInv s.
Proof. intros (evs & os & Hf & H). exact (run_tfacts _ _ _ _ Hf inv_init tinv_init H). Qed.

(* T7: the target recorded (sent) with a job a connection holds is the target of the difficulty of the job's own
   block - the block the submission will be judged against *)
Lemma job_target_is_of_own_block s cid c j :
  reachable_ok s -> nget (s_conns s) cid = Some c -> In j (c_jobs c) ->
  exists b, nget (s_heap s) (j_ptr j) = Some b /\ 1 <= b_diff b /\ b_diff b < two64 /\ j_target j = max_u64 / b_diff b.
Proof.
  intros Hr Hc Hin. destruct (reachable_ok_tinv _ Hr) as (Hh & _ & _ & Hj).
  pose proof (nget_conn_tok _ _ _ _ Hj Hc) as Hjc. rewrite Forall_forall in Hjc.
  destruct (Hjc _ Hin) as (b & Hb & Ht). exists b. split; [exact Hb|].
  destruct (Hh _ _ Hb) as [H1 H2]. split; [exact H1|]. split; [exact H2|].
  rewrite job_target_spec in Ht by (split; assumption). congruence.
Qed.

(* T8: A VALID SHARE IS NEVER REJECTED.  Whatever is submitted for a job the connection holds - any nonce, extra nonce
   and merge-mining blob the server can complete to a block jb whose mining blob is [judged], in whatever seed period
   the timestamp of that blob lies -: when the proof-of-work value of the judged blob UNDER THE JUDGED BLOB'S OWN SEED
   meets the target that was sent with the job, the block is found (handed to the chain, paying the login address) *)
Lemma share_meeting_target_found s cid c jid j len n x mb b jb judged :
  reachable_ok s -> nget (s_conns s) cid = Some c -> find_job (c_jobs c) jid = Some j -> 4 <= len ->
  nget (s_heap s) (j_ptr j) = Some b -> complete cfg b n x mb = CBlock jb -> blob_of cfg jb = Some judged ->
  meets_target (pow (blob_seed cfg judged) judged) (j_target j) = true ->
  step cfg pow s (ESubmit cid jid (NBytes len n) x mb) = (s, OFound (c_addr c) judged).
Proof.
  intros Hr Hc Hf Hlen Hb Hcm Hj Hm. destruct (find_job_In _ _ _ Hf) as [Hin _].
  destruct (job_target_is_of_own_block _ _ _ _ Hr Hc Hin) as (b' & Hb' & H1 & H2 & Ht).
  rewrite Hb in Hb'. injection Hb' as <-.
  destruct (reachable_job_ok _ _ _ _ (reachable_ok_reachable _ Hr) Hc Hin) as (b' & Hb' & Hrc & _).
  rewrite Hb in Hb'. injection Hb' as <-.
  destruct (complete_keeps _ _ _ _ _ Hcm) as (_ & Hrcp & Hdf).
  cbn [step]. unfold do_submit. rewrite Hc.
  destruct (len <? 4) eqn:E; [apply N.ltb_lt in E; lia|]. rewrite Hf, Hb, Hcm, Hj.
  unfold submit_result, judge. rewrite Hdf, Hrcp, Hrc.
  rewrite pow_valid_spec by (split; assumption).
  rewrite Ht in Hm. rewrite (meets_target_meets_diff _ _ (conj H1 H2) Hm). reflexivity.
Qed.

(* ... in the miner's own terms, for a submission without merge-mining blob: the job is within the advertised history,
   the blob is the one that was sent with the miner's nonce and extra nonce, the target is the one that was sent *)
Lemma advertised_share_found evs s g cid v jid a len n x :
  Forall tpl_ok evs -> run_view cfg pow init_server [] evs = (s, g) ->
  nget g cid = Some v -> advertised cfg v jid = Some a -> 4 <= len ->
  meets_target (pow (blob_seed cfg (miner_blob (a_sent a) n x)) (miner_blob (a_sent a) n x)) (a_target a) = true ->
  step cfg pow s (ESubmit cid jid (NBytes len n) x MNone) = (s, OFound (mv_addr v) (miner_blob (a_sent a) n x)).
Proof.
  intros Hf H Hg Ha Hlen Hm. assert (H0 : views_ok init_server []) by constructor.
  destruct (run_view_facts _ _ _ _ _ H0 H) as [Hv [os Hr]].
  destruct (instep_nget_r _ _ _ _ _ Hv Hg) as (c & Hc & Haddr & Hjobs).
  unfold advertised in Ha. fold (hist cfg) in Ha. rewrite <- Hjobs in Ha.
  destruct (find_sent_map _ _ _ Ha) as (j & Hfj & Hs & Ht).
  assert (Hre : reachable_ok s) by (exists evs, os; split; assumption).
  destruct (find_job_In _ _ _ Hfj) as [Hin _].
  destruct (reachable_job_ok _ _ _ _ (reachable_ok_reachable _ Hre) Hc Hin) as (b & Hb & Hrc & Hbl).
  rewrite <- Haddr, <- Hs. rewrite <- Hs, <- Ht in Hm.
  destruct (blob_of_fields _ _ Hbl) as (Hts & Hex & Hno).
  set (e := match x with XBytes l v => if l =? 16 then v else b_extra b | XNone => b_extra b end).
  assert (Hmb : miner_blob (j_sent j) n x = mkblob (mb_ts (j_sent j)) e n (mb_chains (j_sent j))).
  { unfold miner_blob, e. rewrite Hex. reflexivity. }
  apply (share_meeting_target_found s cid c jid j len n x MNone b
           (mkblk (b_tpl b) (b_rcp b) (b_ts b) e n (b_chains b) (b_diff b))); try assumption.
  - reflexivity.
  - rewrite Hmb. apply blob_of_renonce. exact Hbl.
Qed.

(* a submission - any nonce text, extra nonce, merge-mining blob, job id - never takes a panicking branch *)
Lemma submit_never_panics s cid jid nonce x mb s' o :
  reachable_ok s -> step cfg pow s (ESubmit cid jid nonce x mb) = (s', o) -> o <> OPanic.
Proof.
  intros Hro H. pose proof (reachable_ok_reachable _ Hro) as Hr. cbn [step] in H. unfold do_submit in H.
  destruct (nget (s_conns s) cid) as [c|] eqn:Hc; [|injection H as _ <-; discriminate].
  destruct nonce as [|len n]; [injection H as _ <-; discriminate|].
  destruct (len <? 4); [injection H as _ <-; discriminate|].
  destruct (find_job (c_jobs c) jid) as [j|] eqn:Hf; [|injection H as _ <-; discriminate].
  destruct (find_job_In _ _ _ Hf) as [Hin _].
  destruct (reachable_job_ok _ _ _ _ Hr Hc Hin) as (b & H1 & H2 & H3). rewrite H1 in H.
  destruct (job_target_is_of_own_block _ _ _ _ Hro Hc Hin) as (b' & Hb' & Hd1 & Hd2 & _).
  rewrite H1 in Hb'. injection Hb' as <-.
  destruct (complete cfg b n x mb) as [jb|] eqn:Hcm; [|injection H as _ <-; discriminate].
  pose proof (complete_blob_of _ _ _ _ _ _ H3 Hcm) as Hnn.
  destruct (complete_keeps _ _ _ _ _ Hcm) as (_ & _ & Hdf).
  destruct (blob_of cfg jb) as [jd|]; [|contradiction].
  unfold submit_result, judge in H. rewrite Hdf in H. rewrite pow_valid_spec in H by (split; assumption).
  destruct (_ <=? _); injection H as _ <-; discriminate.
Qed.

(* ---- a merge-mining blob that names the job's own hashing id is reconstructed exactly ---- *)

Lemma insert_chain_head x l : asc (x :: l) -> insert_chain x l = Some (x :: l).
Proof.
  destruct l as [|y r]; cbn; intros [Hx Ha]; [reflexivity|].
  specialize (Hx y (or_introl eq_refl)). apply N.ltb_lt in Hx. rewrite Hx. reflexivity.
Qed.

Lemma asc_tail x l : asc (x :: l) -> asc l.
Proof. intros [_ H]. exact H. Qed.

Lemma sort_tail_own own post : asc (own :: post) -> sort_chains (post ++ [own]) = Some (own :: post).
Proof.
  induction post as [|y p IH]; intros Ha; [reflexivity|].
  destruct Ha as [Ho Hyp]. cbn [app sort_chains].
  rewrite IH.
  - cbn [insert_chain]. assert (Hlt : fst own < fst y) by (apply Ho; left; reflexivity).
    destruct (N.ltb_spec (fst y) (fst own)); [lia|]. apply N.ltb_lt in Hlt. rewrite Hlt.
    rewrite (insert_chain_head y p Hyp). reflexivity.
  - split; [|exact (asc_tail _ _ Hyp)]. intros z Hz. apply Ho. right. exact Hz.
Qed.

Lemma asc_app_r pre l : asc (pre ++ l) -> asc l.
Proof. induction pre as [|x r IH]; cbn; [auto|]. intros [_ H]. exact (IH H). Qed.

Lemma sort_mid pre own post : asc (pre ++ own :: post) -> sort_chains (pre ++ post ++ [own]) = Some (pre ++ own :: post).
Proof.
  induction pre as [|x r IH]; intros Ha.
  - apply sort_tail_own. exact Ha.
  - cbn [app sort_chains]. rewrite (IH (asc_tail _ _ Ha)). apply insert_chain_head. exact Ha.
Qed.

Definition others (nid : N) (l : list chain) : list chain := filter (fun v : chain => negb (fst v =? nid)) l.

Lemma others_all nid l : (forall v, In v l -> fst v <> nid) -> others nid l = l.
Proof.
  induction l as [|v r IH]; cbn; intros H; [reflexivity|].
  destruct (N.eqb_spec (fst v) nid) as [E|_]; [exfalso; exact (H v (or_introl eq_refl) E)|].
  cbn [negb]. fold (others nid r). rewrite IH; [reflexivity|]. intros z Hz. apply H. right. exact Hz.
Qed.

Lemma smb_loop_spec nid l : forall first last contains acc oc,
  smb_loop nid l first last contains acc = Some oc ->
  oc = acc ++ others nid l /\ asc l /\ (first = false -> forall v, In v l -> last < fst v) /\
  ((contains = true /\ forall v, In v l -> fst v <> nid) \/
   (contains = false /\ exists pre own post, l = pre ++ own :: post /\ fst own = nid /\ forall v, In v (pre ++ post) -> fst v <> nid)).
Proof.
  induction l as [|v r IH]; cbn [smb_loop]; intros first last contains acc oc H.
  - destruct contains; [|discriminate]. injection H as <-. cbn. rewrite app_nil_r.
    split; [reflexivity|]. split; [exact I|]. split; [intros _ z []|]. left. split; [reflexivity|intros z []].
  - destruct (negb first && (fst v <=? last)) eqn:E1; [discriminate|].
    assert (Hfl : first = false -> last < fst v).
    { intros ->. cbn in E1. apply N.leb_gt in E1. exact E1. }
    destruct (fst v =? nid) eqn:E2; cbn [negb] in H.
    + destruct contains; [discriminate|]. apply N.eqb_eq in E2.
      destruct (IH _ _ _ _ _ H) as (Hoc & Ha & Hl & Hc).
      destruct Hc as [[_ Hno]|[Hf _]]; [|discriminate].
      split. { rewrite Hoc. cbn. apply N.eqb_eq in E2. rewrite E2. reflexivity. }
      split. { split; [|exact Ha]. intros y Hy. exact (Hl eq_refl y Hy). }
      split. { intros Hf z [<-|Hz]; [exact (Hfl Hf)|]. specialize (Hl eq_refl z Hz). specialize (Hfl Hf). lia. }
      right. split; [reflexivity|]. exists [], v, r. split; [reflexivity|]. split; [exact E2|exact Hno].
    + destruct (existsb _ acc); [discriminate|]. apply N.eqb_neq in E2.
      destruct (IH _ _ _ _ _ H) as (Hoc & Ha & Hl & Hc).
      split. { rewrite Hoc. cbn. destruct (N.eqb_spec (fst v) nid); [contradiction|]. cbn. rewrite <- app_assoc. reflexivity. }
      split. { split; [|exact Ha]. intros y Hy. exact (Hl eq_refl y Hy). }
      split. { intros Hf z [<-|Hz]; [exact (Hfl Hf)|]. specialize (Hl eq_refl z Hz). specialize (Hfl Hf). lia. }
      destruct Hc as [[Hct Hno]|[Hcf (pre & own & post & Hr & Ho & Hno)]].
      * left. split; [exact Hct|]. intros z [<-|Hz]; [exact E2|exact (Hno z Hz)].
      * right. split; [exact Hcf|]. exists (v :: pre), own, post. split; [rewrite Hr; reflexivity|]. split; [exact Ho|].
        intros z [<-|Hz]; [exact E2|exact (Hno z Hz)].
Qed.

Lemma others_split nid pre own post :
  fst own = nid -> (forall v, In v (pre ++ post) -> fst v <> nid) -> others nid (pre ++ own :: post) = pre ++ post.
Proof.
  intros Ho Hno. unfold others. rewrite filter_app. cbn [filter]. apply N.eqb_eq in Ho. rewrite Ho. cbn [negb].
  pose proof (others_all nid pre) as Hp. pose proof (others_all nid post) as Hq. unfold others in Hp, Hq.
  f_equal; [apply Hp|apply Hq]; intros z Hz; apply Hno; apply in_or_app; auto.
Qed.

Lemma find_skip (nid : N) pre (own : chain) post :
  fst own = nid -> (forall v, In v pre -> fst v <> nid) ->
  find (fun c : chain => fst c =? nid) (pre ++ own :: post) = Some own.
Proof.
  intros Ho Hno. induction pre as [|y r IH]; cbn.
  - apply N.eqb_eq in Ho. rewrite Ho. reflexivity.
  - destruct (N.eqb_spec (fst y) nid) as [E|_]; [exfalso; exact (Hno y (or_introl eq_refl) E)|].
    apply IH. intros z Hz. apply Hno. right. exact Hz.
Qed.

(* Block.SetMiningBlob followed by Commitment().MiningBlob(): a blob the block accepts and that names, for this
   chain, the block's own hashing id comes back as it was *)
Lemma set_mining_blob_exact b m b1 :
  set_mining_blob cfg b m = Some b1 -> own_entry cfg m = Some (Own (b_tpl b) (b_rcp b)) -> blob_of cfg b1 = Some m.
Proof.
  unfold set_mining_blob. destruct (smb_loop _ _ _ _ _ _) as [oc|] eqn:E; [|discriminate]. intros [= <-] Hown.
  destruct (smb_loop_spec _ _ _ _ _ _ _ E) as (Hoc & Ha & _ & Hc). cbn [app] in Hoc.
  destruct Hc as [[Hf _]|[_ (pre & own & post & Hl & Ho & Hno)]]; [discriminate|].
  unfold own_entry in Hown. rewrite Hl in Hown.
  match type of Hown with match ?f with _ => _ end = _ =>
    assert (Hff : f = Some own) by (apply find_skip; [exact Ho|intros z Hz; apply Hno; apply in_or_app; auto]);
    rewrite Hff in Hown end.
  injection Hown as Hs.
  assert (Hown : own = (network_id cfg, Own (b_tpl b) (b_rcp b))) by (destruct own; cbn in *; congruence).
  unfold blob_of. cbn [b_chains b_tpl b_rcp b_ts b_extra b_nonce].
  assert (Hoc' : oc = pre ++ post) by (rewrite Hoc, Hl; apply others_split; assumption).
  rewrite Hoc', <- app_assoc, <- Hown.
  rewrite Hl in Ha. pose proof (sort_mid pre own post Ha) as Hsm.
  match goal with |- match ?t with _ => _ end = _ => replace t with (Some (pre ++ own :: post)) by (symmetry; exact Hsm) end.
  destruct m. cbn in *. rewrite Hl. reflexivity.
Qed.

(* T9: a merge-mining submission that names the job's own hashing id is either refused as a whole (chain list not
   strictly ascending, ...) or judged as EXACTLY the blob that was submitted, with the miner's nonce and extra nonce,
   under that blob's own seed, against the difficulty of the job's own block *)
Lemma merge_blob_judged_as_submitted s cid c jid j len n x m :
  reachable s -> nget (s_conns s) cid = Some c -> find_job (c_jobs c) jid = Some j -> 4 <= len ->
  own_entry cfg m = own_entry cfg (j_sent j) ->
  exists b, nget (s_heap s) (j_ptr j) = Some b /\
  (step cfg pow s (ESubmit cid jid (NBytes len n) x (MBlob m)) = (kick s cid, OBlobRefused) \/
   step cfg pow s (ESubmit cid jid (NBytes len n) x (MBlob m)) =
     submit_result s cid (judge cfg pow (b_diff b) (c_addr c) (miner_blob m n x))).
Proof.
  intros Hr Hc Hf Hlen Hown. destruct (find_job_In _ _ _ Hf) as [Hin _].
  destruct (reachable_job_ok _ _ _ _ Hr Hc Hin) as (b & H1 & H2 & H3).
  exists b. split; [exact H1|].
  cbn [step]. unfold do_submit. rewrite Hc.
  destruct (len <? 4) eqn:E; [apply N.ltb_lt in E; lia|]. rewrite Hf, H1. unfold complete.
  destruct (is_masterchain cfg); [left; reflexivity|].
  destruct (set_mining_blob cfg b m) as [b1|] eqn:Es; [|left; reflexivity]. right.
  rewrite (own_entry_blob_of _ _ H3) in Hown.
  pose proof (set_mining_blob_exact _ _ _ Es Hown) as Hb1.
  destruct (blob_of_fields _ _ Hb1) as (Hts & Hex & Hno).
  set (e := match x with XBytes l v => if l =? 16 then v else b_extra b1 | XNone => b_extra b1 end).
  rewrite (blob_of_renonce b1 m e n Hb1). cbn [b_rcp b_diff].
  assert (Hk : b_rcp b1 = b_rcp b /\ b_diff b1 = b_diff b).
  { unfold set_mining_blob in Es. destruct (smb_loop _ _ _ _ _ _); [|discriminate]. injection Es as <-. cbn. auto. }
  destruct Hk as [-> ->]. rewrite H2.
  assert (Hm : miner_blob m n x = mkblob (mb_ts m) e n (mb_chains m)).
  { unfold miner_blob, e. rewrite Hex. reflexivity. }
  rewrite Hm. reflexivity.
Qed.

(* ---- the same statements with "reachable" spelled out (the forms quoted by Props/C15.v) ---- *)

Lemma job_pays_owner_run evs s os cid c j :
  run cfg pow init_server evs = (s, os) -> nget (s_conns s) cid = Some c -> In j (c_jobs c) ->
  (exists b, nget (s_heap s) (j_ptr j) = Some b /\ b_rcp b = c_addr c) /\ pays cfg (j_sent j) (c_addr c) = true.
Proof. intros H. apply job_pays_owner. exists evs, os. exact H. Qed.

Lemma job_is_stable_run evs s os cid c j :
  run cfg pow init_server evs = (s, os) -> nget (s_conns s) cid = Some c -> In j (c_jobs c) ->
  exists b, nget (s_heap s) (j_ptr j) = Some b /\ blob_of cfg b = Some (j_sent j).
Proof. intros H. apply job_is_stable. exists evs, os. exact H. Qed.

Lemma submit_judged_against_sent_blob_run evs s os cid c jid j len n x :
  run cfg pow init_server evs = (s, os) -> nget (s_conns s) cid = Some c -> find_job (c_jobs c) jid = Some j -> 4 <= len ->
  exists b, nget (s_heap s) (j_ptr j) = Some b /\
  step cfg pow s (ESubmit cid jid (NBytes len n) x MNone) =
    submit_result s cid (judge cfg pow (b_diff b) (c_addr c) (miner_blob (j_sent j) n x)).
Proof. intros H. apply submit_judged_against_sent_blob. exists evs, os. exact H. Qed.

Lemma found_block_pays_owner_run evs s os cid jid nonce x mb s' r judged :
  run cfg pow init_server evs = (s, os) -> step cfg pow s (ESubmit cid jid nonce x mb) = (s', OFound r judged) ->
  exists c j, nget (s_conns s) cid = Some c /\ find_job (c_jobs c) jid = Some j /\ r = c_addr c /\
    own_entry cfg judged = own_entry cfg (j_sent j) /\ pays cfg judged (c_addr c) = true /\ s' = s.
Proof. intros H. apply found_block_pays_owner. exists evs, os. exact H. Qed.

Lemma others_do_not_interfere_run evs s os e s' o cid :
  run cfg pow init_server evs = (s, os) -> step cfg pow s e = (s', o) -> event_cid e <> Some cid ->
  nget (s_conns s') cid = nget (s_conns s) cid /\
  (forall p b, nget (s_heap s) p = Some b -> nget (s_heap s') p = Some b).
Proof. intros H. apply others_do_not_interfere. exists evs, os. exact H. Qed.

Lemma submit_never_panics_run evs s os cid jid nonce x mb s' o :
  Forall tpl_ok evs -> run cfg pow init_server evs = (s, os) -> step cfg pow s (ESubmit cid jid nonce x mb) = (s', o) -> o <> OPanic.
Proof. intros Hf H. apply submit_never_panics. exists evs, os. split; assumption. Qed.

Lemma job_target_is_of_own_block_run evs s os cid c j :
  Forall tpl_ok evs -> run cfg pow init_server evs = (s, os) -> nget (s_conns s) cid = Some c -> In j (c_jobs c) ->
  exists b, nget (s_heap s) (j_ptr j) = Some b /\ 1 <= b_diff b /\ b_diff b < two64 /\ j_target j = max_u64 / b_diff b.
Proof. intros Hf H. apply job_target_is_of_own_block. exists evs, os. split; assumption. Qed.

Lemma share_meeting_target_found_run evs s os cid c jid j len n x mb b jb judged :
  Forall tpl_ok evs -> run cfg pow init_server evs = (s, os) ->
  nget (s_conns s) cid = Some c -> find_job (c_jobs c) jid = Some j -> 4 <= len ->
  nget (s_heap s) (j_ptr j) = Some b -> complete cfg b n x mb = CBlock jb -> blob_of cfg jb = Some judged ->
  meets_target (pow (blob_seed cfg judged) judged) (j_target j) = true ->
  step cfg pow s (ESubmit cid jid (NBytes len n) x mb) = (s, OFound (c_addr c) judged).
Proof. intros Hf H. apply share_meeting_target_found. exists evs, os. split; assumption. Qed.

Lemma merge_blob_judged_as_submitted_run evs s os cid c jid j len n x m :
  run cfg pow init_server evs = (s, os) -> nget (s_conns s) cid = Some c -> find_job (c_jobs c) jid = Some j -> 4 <= len ->
  own_entry cfg m = own_entry cfg (j_sent j) ->
  exists b, nget (s_heap s) (j_ptr j) = Some b /\
  (step cfg pow s (ESubmit cid jid (NBytes len n) x (MBlob m)) = (kick s cid, OBlobRefused) \/
   step cfg pow s (ESubmit cid jid (NBytes len n) x (MBlob m)) =
     submit_result s cid (judge cfg pow (b_diff b) (c_addr c) (miner_blob m n x))).
Proof. intros H. apply merge_blob_judged_as_submitted. exists evs, os. exact H. Qed.

End StratumProofs.

(* the targets sent in a run, in order (used by the worked example of Props/C15.v) *)
Definition sent_targets (os : list outcome) : list N :=
  flat_map (fun o => match o with OJob _ _ t => [t] | _ => [] end) os.
