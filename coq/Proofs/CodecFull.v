(* The wire block (Block.DeserializeFull = [dec_full_block]): every accepted byte string decodes to a well-formed
   (block, transactions) pair, hence re-encoding the decoded value (SerializeFullBlock = [enc_full_block]) decodes to that
   same value.  Also: re-encoding for the bare byte-slice and Uint128 readers.

   The one non-compositional ingredient is the length prefix of every transaction: [enc_full_block] writes
   [add_byte_slice (enc_tx t)], which decodes back only when [blen (enc_tx t) < 2^64].  That bound comes from the input:
   the re-encoding of a decoded transaction is at most 5 bytes longer than the slice it was decoded from.
   It CAN be longer: Des.ReadUvarint takes binary.Uvarint's "buffer too small" answer (n = 0) for success, value 0,
   nothing consumed, so one dangling continuation byte at the end of the slice is read as up to five zero fields
   ([tx_truncated_varint_witness]); apart from that, AppendUvarint is the shortest encoding Uvarint accepts
   ([uvarint_min]). *)
From Virel Require Import Lib.Config Lib.U64 Model.Des Model.Codec Model.CodecBlock
  Proofs.Des Proofs.DesSafe Proofs.DesVal Proofs.Codec Proofs.CodecSafe Proofs.CodecWf Proofs.CodecBlock
  Proofs.CodecBlockSafe Proofs.CodecBlockWf Gen.Params.
Open Scope N_scope.

(* ------------------------------------------------------------------ AppendUvarint is minimal *)

Lemma lor_lt_pow2 x y n : x < 2 ^ n -> y < 2 ^ n -> N.lor x y < 2 ^ n.
Proof.
  intros Hx Hy.
  destruct (N.eq_dec (N.lor x y) 0) as [E|Hn]; [rewrite E; apply N.neq_0_lt_0, N.pow_nonzero; discriminate|].
  apply N.log2_lt_pow2; [lia|]. rewrite N.log2_lor.
  destruct (N.eq_dec x 0) as [Hx0|Hx0]; destruct (N.eq_dec y 0) as [Hy0|Hy0].
  - exfalso. apply Hn. rewrite Hx0, Hy0. reflexivity.
  - rewrite Hx0. cbn [N.log2]. rewrite N.max_0_l. apply N.log2_lt_pow2; [lia|assumption].
  - rewrite Hy0. cbn [N.log2]. rewrite N.max_0_r. apply N.log2_lt_pow2; [lia|assumption].
  - apply N.max_lub_lt; apply N.log2_lt_pow2; try assumption; lia.
Qed.

Lemma wshl_le b s : wshl b s <= b * 2 ^ s.
Proof. unfold wshl. apply N.mod_le. discriminate. Qed.

Lemma pow2_pos s : 0 < 2 ^ s.
Proof. apply N.neq_0_lt_0, N.pow_nonzero. discriminate. Qed.

Lemma lor_step x b s : x < 2 ^ s -> b < 128 -> N.lor x (wshl b s) < 2 ^ (s + 7).
Proof.
  intros Hx Hb. apply lor_lt_pow2.
  - eapply N.lt_le_trans; [exact Hx|]. apply N.pow_le_mono_r; [discriminate|lia].
  - eapply N.le_lt_trans; [apply wshl_le|]. rewrite pow2_split. pose proof (pow2_pos s) as Hp.
    generalize dependent (2 ^ s). intros p _ Hp. nia.
Qed.

(* a positive answer (v, n) of Uvarint: n = bytes read, v < 2^(7 n) *)
Lemma uvarint_go_bound : forall buf i x s v n, x < 2 ^ s -> uvarint_go buf i x s = (v, n) -> (0 < n)%Z ->
  exists k, n = Z.of_N (i + 1 + k) /\ v < 2 ^ (s + 7 * (k + 1)).
Proof.
  induction buf as [|b r IH]; intros i x s v n Hx E Hn; cbn [uvarint_go] in E.
  - inversion E; subst. lia.
  - destruct (i =? 10). { inversion E; subst; lia. }
    destruct (b <? 128) eqn:Hb.
    + destruct ((i =? 9) && (1 <? b)). { inversion E; subst; lia. }
      inversion E; subst. exists 0. split; [f_equal; lia|].
      apply N.ltb_lt in Hb. replace (s + 7 * (0 + 1)) with (s + 7) by lia. apply lor_step; assumption.
    + apply IH in E; [| |exact Hn].
      * destruct E as (k & -> & Hv). exists (k + 1). split; [f_equal; lia|].
        replace (s + 7 * (k + 1 + 1)) with (s + 7 + 7 * (k + 1)) by lia. exact Hv.
      * apply lor_step; [exact Hx|]. change 127 with (N.ones 7). rewrite N.land_ones. apply N.mod_lt. discriminate.
Qed.

Lemma put_uvarint_f_len_min : forall fuel m v, 1 <= m -> v < 2 ^ (7 * m) -> blen (put_uvarint_f fuel v) <= m.
Proof.
  induction fuel as [|f IH]; intros m v Hm Hv; cbn [put_uvarint_f].
  - rewrite blen_cons, blen_nil. lia.
  - destruct (N.leb_spec 128 v) as [Hge|Hlt].
    + rewrite blen_cons.
      assert (Hm2 : 2 <= m).
      { destruct (N.eq_dec m 1) as [E|]; [|lia]. rewrite E in Hv. change (2 ^ (7 * 1)) with 128 in Hv. lia. }
      assert (Hq : v / 128 < 2 ^ (7 * (m - 1))).
      { apply N.div_lt_upper_bound; [discriminate|]. rewrite <- pow2_split.
        replace (7 * (m - 1) + 7) with (7 * m) by lia. exact Hv. }
      specialize (IH (m - 1) (v / 128) ltac:(lia) Hq). lia.
    + rewrite blen_cons, blen_nil. lia.
Qed.

(* AppendUvarint(v) is never longer than an encoding of v that Uvarint accepts *)
Lemma uvarint_min buf v n : uvarint buf = (v, n) -> (0 < n)%Z -> blen (put_uvarint v) <= Z.to_N n.
Proof.
  unfold uvarint. intros E Hn.
  destruct (uvarint_go_bound buf 0 0 0 v n) as (k & -> & Hv); [cbn; lia | exact E | exact Hn |].
  unfold put_uvarint. rewrite N2Z.id. apply put_uvarint_f_len_min; [lia|].
  replace (7 * (0 + 1 + k)) with (0 + 7 * (k + 1)) by lia. exact Hv.
Qed.

(* ------------------------------------------------------------------ the "buffer too small" answer *)

(* remaining data on which Uvarint answers n = 0: nothing but continuation bytes (at most ten of them) *)
Definition stuckb (d : list N) : bool := forallb (fun b => 128 <=? b) d && (blen d <=? 10).

Lemma stuckb_suffix a r : stuckb (a ++ r) = true -> stuckb r = true.
Proof.
  unfold stuckb. rewrite forallb_app, blen_app. intros H. apply andb_prop in H. destruct H as [H1 H2].
  apply andb_prop in H1. destruct H1 as [_ H1]. rewrite H1. apply N.leb_le in H2. apply N.leb_le. lia.
Qed.

Lemma stuckb_len d : stuckb d = true -> blen d <= 10.
Proof. unfold stuckb. intros H. apply andb_prop in H. destruct H as [_ H]. apply N.leb_le. exact H. Qed.

Lemma uvarint_go_zero : forall buf i x s v, i <= 10 -> uvarint_go buf i x s = (v, 0%Z) ->
  v = 0 /\ forallb (fun b => 128 <=? b) buf = true /\ blen buf + i <= 10.
Proof.
  induction buf as [|b r IH]; intros i x s v Hi E; cbn [uvarint_go] in E.
  - inversion E. split; [reflexivity|]. split; [reflexivity|]. unfold blen. cbn [length]. lia.
  - destruct (N.eqb_spec i 10). { exfalso. inversion E. lia. }
    destruct (b <? 128) eqn:Hb.
    + exfalso. destruct ((i =? 9) && (1 <? b)); inversion E; lia.
    + apply IH in E; [|lia]. destruct E as (-> & Hall & Hlen). split; [reflexivity|].
      cbn [forallb]. rewrite Hall. apply N.ltb_ge in Hb.
      replace (128 <=? b) with true by (symmetry; apply N.leb_le; lia). rewrite blen_cons. split; [reflexivity|lia].
Qed.

Lemma uvarint_zero buf v : uvarint buf = (v, 0%Z) -> v = 0 /\ stuckb buf = true.
Proof.
  unfold uvarint. intros E. destruct (uvarint_go_zero buf 0 0 0 v ltac:(lia) E) as (Hv & Hall & Hlen).
  split; [exact Hv|]. unfold stuckb. rewrite Hall. apply N.leb_le. lia.
Qed.

(* ------------------------------------------------------------------ size accounting over the decoder monad

   [csz m P sz k]: P holds of every returned value; and when m returns WITHOUT a pending error, it started without one,
   and the returned value a accounts for at least [sz a] consumed bytes - except that k more are granted when the
   remaining data is stuck (every truncated-varint read returns one unpaid zero). *)
Definition csz {A} (m : M A) (P : A -> Prop) (sz : A -> N) (k : N) : Prop :=
  forall s, match m s with
            | MOk a s' =>
                P a /\
                (d_err s' = false ->
                 d_err s = false /\ (stuckb (d_data s) = true -> stuckb (d_data s') = true) /\
                 sz a + blen (d_data s') <= blen (d_data s) + (if stuckb (d_data s') then k else 0))
            | _ => True
            end.

Lemma csz_weaken {A} (m : M A) (P P' : A -> Prop) sz sz' k k' :
  csz m P sz k -> (forall a, P a -> P' a) -> (forall a, sz' a <= sz a) -> k <= k' -> csz m P' sz' k'.
Proof.
  intros H HP Hsz Hk s. specialize (H s). destruct (m s) as [a s'| |]; [|exact I|exact I].
  destruct H as [Pa H]. split; [auto|]. intros He. destruct (H He) as (He0 & Hst & Hb).
  split; [exact He0|]. split; [exact Hst|]. specialize (Hsz a). destruct (stuckb (d_data s')); lia.
Qed.

Lemma csz_bind {A B} (m : M A) (f : A -> M B) (P : A -> Prop) (Q : B -> Prop) sz1 sz k1 k :
  csz m P sz1 k1 -> k1 <= k -> (forall a, P a -> csz (f a) Q (fun b => sz b - sz1 a) (k - k1)) -> csz (bind m f) Q sz k.
Proof.
  intros Hm Hk Hf s. unfold bind. specialize (Hm s). destruct (m s) as [a s1| |]; [|exact I|exact I].
  destruct Hm as [Pa Hm]. specialize (Hf a Pa s1). destruct (f a s1) as [b s2| |]; [|exact I|exact I].
  destruct Hf as [Qb Hf]. split; [exact Qb|]. intros He2.
  destruct (Hf He2) as (He1 & Hst1 & Hb1). destruct (Hm He1) as (He0 & Hst0 & Hb0).
  split; [exact He0|]. split; [auto|].
  destruct (stuckb (d_data s1)) eqn:E1.
  - rewrite (Hst1 eq_refl) in *. lia.
  - destruct (stuckb (d_data s2)); lia.
Qed.

Lemma csz_ret {A} (v : A) (P : A -> Prop) sz k : P v -> sz v = 0 -> csz (ret v) P sz k.
Proof.
  intros Pv Hz s. cbn [ret]. split; [exact Pv|]. intros He. split; [exact He|]. split; [auto|].
  rewrite Hz. destruct (stuckb (d_data s)); lia.
Qed.

Lemma csz_ret_err {A} (v : A) (P : A -> Prop) sz k : P v -> sz v = 0 -> csz (ret_err v) P sz k.
Proof.
  intros Pv Hz s. unfold ret_err. destruct (d_err s) eqn:Ee; [exact I|].
  split; [exact Pv|]. intros _. split; [first [exact Ee|reflexivity]|]. split; [auto|].
  rewrite Hz. destruct (stuckb (d_data s)); lia.
Qed.

Lemma csz_fail {A} (P : A -> Prop) sz k : csz (@fail A) P sz k.
Proof. intros s. exact I. Qed.

Lemma csz_alloc n : csz (alloc n) (fun _ => True) (fun _ => 0) 0.
Proof.
  intros s. cbn [alloc]. split; [exact I|]. cbn [d_err d_data]. intros He. split; [exact He|]. split; [auto|].
  destruct (stuckb (d_data s)); lia.
Qed.

(* consumed a prefix *)
Lemma consumed_prefix d a r : d = a ++ r -> (stuckb d = true -> stuckb r = true) /\ blen d = blen a + blen r.
Proof. intros ->. split; [apply stuckb_suffix|apply blen_app]. Qed.

Lemma csz_read_u8 : csz read_u8 (fun _ => True) (fun _ => 1) 0.
Proof.
  intros s. unfold read_u8. destruct (d_err s) eqn:Ee.
  - split; [exact I|]. intros H. congruence.
  - destruct (d_data s) as [|b r] eqn:Ed.
    + split; [exact I|]. cbn [set_err d_err]. intros H. discriminate.
    + split; [exact I|]. cbn [with_data d_data d_err]. intros _. split; [first [exact Ee|reflexivity]|].
      destruct (consumed_prefix (b :: r) [b] r eq_refl) as [H1 H2]. split; [exact H1|].
      rewrite (blen_cons b []), blen_nil in H2. destruct (stuckb r); lia.
Qed.

Lemma csz_read_le n : csz (read_le n) (fun _ => True) (fun _ => n) 0.
Proof.
  intros s. unfold read_le. destruct (d_err s) eqn:Ee.
  - split; [exact I|]. intros H. congruence.
  - destruct (lenltb (d_data s) n).
    + split; [exact I|]. cbn [set_err d_err]. intros H. discriminate.
    + destruct (split_at (d_data s) n) as [[b r]|] eqn:Es; [|exact I].
      split; [exact I|]. cbn [with_data d_data d_err]. intros _. split; [first [exact Ee|reflexivity]|].
      destruct (split_at_some _ _ _ _ Es) as [Hd Hb].
      destruct (consumed_prefix _ b r Hd) as [H1 H2]. split; [exact H1|]. destruct (stuckb r); lia.
Qed.

Lemma csz_read_fixed n : csz (read_fixed n) (fun _ => True) (fun b => blen b) 0.
Proof.
  intros s. unfold read_fixed. destruct (d_err s) eqn:Ee.
  - split; [exact I|]. cbn [d_err]. intros H. discriminate.
  - destruct (lenltb (d_data s) n).
    + split; [exact I|]. cbn [d_err]. intros H. discriminate.
    + destruct (split_at (d_data s) n) as [[b r]|] eqn:Es; [|exact I].
      split; [exact I|]. cbn [with_data d_data d_err]. intros _. split; [first [exact Ee|reflexivity]|].
      destruct (split_at_some _ _ _ _ Es) as [Hd Hb].
      destruct (consumed_prefix _ b r Hd) as [H1 H2]. split; [exact H1|]. destruct (stuckb r); lia.
Qed.

Lemma csz_to_array n b0 : csz (to_array n b0) (fun r => blen r <= blen b0) (fun _ => 0) 0.
Proof.
  intros s. unfold to_array. destruct (split_at b0 n) as [[a r]|] eqn:Es; [|exact I].
  destruct (split_at_len _ _ _ _ Es) as (_ & _ & Ha). split; [exact Ha|].
  intros He. split; [exact He|]. split; [auto|]. destruct (stuckb (d_data s)); lia.
Qed.

Lemma put_uvarint_0_len : blen (put_uvarint 0) = 1.
Proof. reflexivity. Qed.

Lemma csz_read_uvarint : csz read_uvarint (fun _ => True) (fun v => blen (put_uvarint v)) 1.
Proof.
  intros s. unfold read_uvarint. destruct (d_err s) eqn:Ee.
  - split; [exact I|]. intros H. congruence.
  - destruct (lenltb (d_data s) 1).
    + split; [exact I|]. cbn [set_err d_err]. intros H. discriminate.
    + destruct (uvarint (d_data s)) as [v x] eqn:Eu. destruct (Z.ltb_spec x 0) as [Hneg|Hpos].
      * split; [exact I|]. cbn [set_err d_err]. intros H. discriminate.
      * destruct (split_at (d_data s) (Z.to_N x)) as [[a r]|] eqn:Es; [|exact I].
        split; [exact I|]. cbn [with_data d_data d_err]. intros _. split; [first [exact Ee|reflexivity]|].
        destruct (split_at_some _ _ _ _ Es) as [Hd Ha].
        destruct (consumed_prefix _ a r Hd) as [H1 H2]. split; [exact H1|].
        destruct (Z.eq_dec x 0) as [Hx0|Hx0].
        -- subst x. destruct (uvarint_zero _ _ Eu) as [-> Hst]. rewrite put_uvarint_0_len.
           rewrite (H1 Hst) in *. change (Z.to_N 0) with 0 in Ha. lia.
        -- pose proof (uvarint_min _ _ _ Eu ltac:(lia)) as Hmin. destruct (stuckb r); lia.
Qed.

Lemma csz_read_byte_slice : csz (read_byte_slice_gen true) (fun _ => True) (fun b => blen (add_byte_slice b)) 1.
Proof.
  intros s. unfold read_byte_slice_gen. destruct (d_err s) eqn:Ee.
  - split; [exact I|]. intros H. congruence.
  - destruct (lenltb (d_data s) 1).
    + split; [exact I|]. cbn [set_err d_err]. intros H. discriminate.
    + destruct (uvarint (d_data s)) as [len x] eqn:Eu. destruct (Z.ltb_spec x 0) as [Hneg|Hpos].
      * split; [exact I|]. cbn [set_err d_err]. intros H. discriminate.
      * destruct (split_at (d_data s) (Z.to_N x)) as [[a r]|] eqn:Es; [|exact I].
        destruct (lenltb r len).
        { split; [exact I|]. cbn [d_err]. intros H. discriminate. }
        destruct (split_at r len) as [[b r']|] eqn:Es2; [|exact I].
        split; [exact I|]. cbn [d_data d_err]. intros _. split; [first [exact Ee|reflexivity]|].
        destruct (split_at_some _ _ _ _ Es) as [Hd Ha]. destruct (split_at_some _ _ _ _ Es2) as [Hd2 Hb].
        destruct (consumed_prefix _ a r Hd) as [H1 _]. destruct (consumed_prefix _ b r' Hd2) as [H2 _].
        split; [auto|]. unfold add_byte_slice. rewrite blen_app, Hb.
        assert (Hlen : blen (d_data s) = blen a + blen b + blen r') by (rewrite Hd, Hd2, !blen_app; lia).
        destruct (Z.eq_dec x 0) as [Hx0|Hx0].
        -- subst x. destruct (uvarint_zero _ _ Eu) as [-> Hst]. rewrite put_uvarint_0_len.
           rewrite (H2 (H1 Hst)). change (Z.to_N 0) with 0 in Ha. lia.
        -- pose proof (uvarint_min _ _ _ Eu ltac:(lia)) as Hmin. destruct (stuckb r'); lia.
Qed.

(* ------------------------------------------------------------------ error stickiness and a constant consumption *)

(* returning without a pending error: there was none before and at least c bytes were consumed *)
Definition mono {A} (m : M A) (c : N) : Prop :=
  forall s, match m s with
            | MOk _ s' => d_err s' = false -> d_err s = false /\ blen (d_data s') + c <= blen (d_data s)
            | _ => True
            end.

Lemma mono_of_csz {A} (m : M A) P sz k c : csz m P sz k -> (forall a, c + k <= sz a) -> mono m c.
Proof.
  intros H Hc s. specialize (H s). destruct (m s) as [a s'| |]; [|exact I|exact I].
  destruct H as [_ H]. intros He. destruct (H He) as (He0 & _ & Hb). split; [exact He0|].
  specialize (Hc a). destruct (stuckb (d_data s')); lia.
Qed.

Lemma mono_le {A} (m : M A) c c' : mono m c -> c' <= c -> mono m c'.
Proof.
  intros H Hc s. specialize (H s). destruct (m s) as [a s'| |]; [|exact I|exact I].
  intros He. destruct (H He). split; [assumption|lia].
Qed.

Lemma mono_bind {A B} (m : M A) (f : A -> M B) c1 c2 c :
  mono m c1 -> (forall a, mono (f a) c2) -> c <= c1 + c2 -> mono (bind m f) c.
Proof.
  intros Hm Hf Hc s. unfold bind. specialize (Hm s). destruct (m s) as [a s1| |]; [|exact I|exact I].
  specialize (Hf a s1). destruct (f a s1) as [b s2| |]; [|exact I|exact I].
  intros He2. destruct (Hf He2) as [He1 H1]. destruct (Hm He1) as [He0 H0]. split; [exact He0|lia].
Qed.

Lemma mono_bind0 {A B} (m : M A) (f : A -> M B) : mono m 0 -> (forall a, mono (f a) 0) -> mono (bind m f) 0.
Proof. intros Hm Hf. apply (mono_bind m f 0 0); [exact Hm|exact Hf|lia]. Qed.

Lemma mono_ret {A} (v : A) : mono (ret v) 0.
Proof. intros s. cbn [ret]. intros He. split; [exact He|lia]. Qed.
Lemma mono_ret_err {A} (v : A) : mono (ret_err v) 0.
Proof. intros s. unfold ret_err. destruct (d_err s) eqn:Ee; [exact I|]. intros _. split; [first [exact Ee|reflexivity]|lia]. Qed.
Lemma mono_fail {A} c : mono (@fail A) c.
Proof. intros s. exact I. Qed.
Lemma mono_alloc n : mono (alloc n) 0.
Proof. intros s. cbn [alloc d_err d_data]. intros He. split; [exact He|lia]. Qed.
Lemma mono_remaining : mono remaining 0.
Proof. intros s. cbn [remaining]. intros He. split; [exact He|lia]. Qed.

Lemma mono_read_u8 : mono read_u8 1.
Proof. apply (mono_of_csz _ _ _ _ _ csz_read_u8). intros _. lia. Qed.
Lemma mono_read_le n : mono (read_le n) n.
Proof. apply (mono_of_csz _ _ _ _ _ (csz_read_le n)). intros _. lia. Qed.
Lemma mono_read_uvarint : mono read_uvarint 0.
Proof.
  apply (mono_of_csz _ _ _ _ _ csz_read_uvarint). intros v. pose proof (put_uvarint_f_len_pos 9 v) as H.
  unfold put_uvarint. lia.
Qed.
Lemma mono_read_fixed n : mono (read_fixed n) 0.
Proof. apply (mono_of_csz _ _ _ _ _ (csz_read_fixed n)). intros b. lia. Qed.
Lemma mono_to_array n b : mono (to_array n b) 0.
Proof. apply (mono_of_csz _ _ _ _ _ (csz_to_array n b)). intros _. lia. Qed.
Lemma mono_read_byte_slice : mono (read_byte_slice_gen true) 0.
Proof.
  apply (mono_of_csz _ _ _ _ _ csz_read_byte_slice). intros b. unfold add_byte_slice. rewrite blen_app.
  pose proof (put_uvarint_f_len_pos 9 (blen b)) as H. unfold put_uvarint. lia.
Qed.

Lemma mono_rep {A} n (m : M A) : mono m 0 -> mono (rep n m) 0.
Proof.
  intros Hm. induction n as [|n IH]; cbn [rep]; [apply mono_ret|].
  apply mono_bind0; [exact Hm|]. intros a. apply mono_bind0; [exact IH|]. intros l. apply mono_ret.
Qed.

Ltac mstep :=
  lazymatch goal with
  | |- mono (bind _ _) 0 => apply mono_bind0; [|intros ?]
  | |- mono (rep _ _) 0 => apply mono_rep
  | |- mono (ret _) 0 => apply mono_ret
  | |- mono (ret_err _) 0 => apply mono_ret_err
  | |- mono check_err 0 => apply mono_ret_err
  | |- mono fail _ => apply mono_fail
  | |- mono (alloc _) 0 => apply mono_alloc
  | |- mono remaining 0 => apply mono_remaining
  | |- mono read_u8 0 => apply (mono_le _ 1 0 mono_read_u8); lia
  | |- mono (read_le ?n) 0 => apply (mono_le _ n 0 (mono_read_le n)); lia
  | |- mono read_u16 0 => unfold read_u16
  | |- mono read_u32 0 => unfold read_u32
  | |- mono read_u64 0 => unfold read_u64
  | |- mono read_uvarint 0 => apply mono_read_uvarint
  | |- mono (read_fixed _) 0 => apply mono_read_fixed
  | |- mono (to_array _ _) 0 => apply mono_to_array
  | |- mono (read_byte_slice_gen true) 0 => apply mono_read_byte_slice
  | |- mono read_byte_slice 0 => unfold read_byte_slice
  | |- mono (read_array _) 0 => unfold read_array
  | |- mono read_u128 0 => unfold read_u128
  | |- mono dec_hid 0 => unfold dec_hid
  | |- mono (dec_chains _) 0 => unfold dec_chains
  | |- mono (if ?b then _ else _) _ => destruct b
  | |- mono (match ?p with (_, _) => _ end) _ => destruct p
  end.

Lemma mono_read_u128 : mono read_u128 0.
Proof. repeat mstep. Qed.

(* decoders that end in "return value, d.Error()" return with a clean error flag *)
Definition eclean {A} (m : M A) : Prop := forall s, match m s with MOk _ s' => d_err s' = false | _ => True end.
Lemma eclean_bind {A B} (m : M A) (f : A -> M B) : (forall a, eclean (f a)) -> eclean (bind m f).
Proof. intros Hf s. unfold bind. destruct (m s) as [a s1| |]; [|exact I|exact I]. apply Hf. Qed.
Lemma eclean_ret_err {A} (v : A) : eclean (ret_err v).
Proof. intros s. unfold ret_err. destruct (d_err s) eqn:Ee; [exact I|first [exact Ee|reflexivity]]. Qed.

(* never returns without a pending error when started on stuck data *)
Definition nostuck {A} (m : M A) : Prop :=
  forall s, stuckb (d_data s) = true -> match m s with MOk _ s' => d_err s' = true | _ => True end.

Lemma nostuck_fixed_bind {A} n (f : list N -> M A) : 10 < n -> (forall a, mono (f a) 0) -> nostuck (bind (read_fixed n) f).
Proof.
  intros Hn Hf s Hst. unfold bind, read_fixed. apply stuckb_len in Hst.
  assert (Hany : forall s1, d_err s1 = true -> match f (zeros n) s1 with MOk _ s' => d_err s' = true | _ => True end).
  { intros s1 He1. specialize (Hf (zeros n) s1). destruct (f (zeros n) s1) as [b s2| |]; [|exact I|exact I].
    destruct (d_err s2) eqn:E2; [reflexivity|]. destruct (Hf eq_refl) as [Hc _]. congruence. }
  destruct (d_err s) eqn:Ee; [apply Hany; reflexivity|].
  rewrite lenltb_spec. replace (blen (d_data s) <? n) with true by (symmetry; apply N.ltb_lt; lia).
  apply Hany. reflexivity.
Qed.

Lemma nostuck_rep_S {A} n (m : M A) : mono m 0 -> nostuck m -> nostuck (rep (S n) m).
Proof.
  intros Hmono Hns s Hst. cbn [rep]. unfold bind. specialize (Hns s Hst). destruct (m s) as [a s1| |]; [|exact I|exact I].
  pose proof (mono_rep n m Hmono s1) as Hr. destruct (rep n m s1) as [l s2| |]; [|exact I|exact I].
  cbn [ret]. destruct (d_err s2) eqn:E2; [reflexivity|]. destruct (Hr eq_refl) as [Hc _]. congruence.
Qed.

(* a counted list of elements none of which can start on stuck data: the unpaid zeros are those of the last element *)
Lemma csz_rep {A} (m : M A) (P : A -> Prop) (enc : A -> list N) k n :
  csz m P (fun a => blen (enc a)) k -> mono m 0 -> nostuck m ->
  csz (rep n m) (fun l => Forall P l /\ length l = n) (fun l => blen (concat (map enc l))) k.
Proof.
  intros Hcs Hmono Hns. induction n as [|n IH]; intros s; cbn [rep].
  - cbn [ret]. split; [split; [constructor|reflexivity]|]. intros He. split; [exact He|]. split; [auto|].
    cbn [map concat]. rewrite blen_nil. destruct (stuckb (d_data s)); lia.
  - unfold bind. pose proof (Hcs s) as Hm. destruct (m s) as [a s1| |]; [|exact I|exact I].
    destruct Hm as [Pa Hm]. pose proof (IH s1) as Hr.
    destruct (rep n m s1) as [l s2| |] eqn:Er; [|exact I|exact I]. cbn [ret]. destruct Hr as [[Hall Hlen] Hr].
    split; [split; [constructor; assumption|cbn [length]; lia]|]. intros He2.
    destruct (Hr He2) as (He1 & Hst1 & Hb1). destruct (Hm He1) as (He0 & Hst0 & Hb0).
    split; [exact He0|]. split; [auto|]. cbn [map concat]. rewrite blen_app.
    destruct (stuckb (d_data s1)) eqn:E1.
    + destruct n as [|n'].
      * cbn [rep ret] in Er. inversion Er; subst l s2. cbn [map concat] in *. rewrite blen_nil. rewrite E1. lia.
      * exfalso. pose proof (nostuck_rep_S n' m Hmono Hns s1 E1) as Hc. rewrite Er in Hc. congruence.
    + destruct (stuckb (d_data s2)); lia.
Qed.

(* ------------------------------------------------------------------ transactions *)
Section TxSize.
Variable cfg : config.
Hypothesis Hokc : cfg_ok_codec cfg = true.

Lemma csz_dec_output : csz (dec_output cfg) (fun _ => True) (fun o => blen (enc_output o)) 2.
Proof.
  unfold dec_output.
  eapply csz_bind; [apply csz_read_fixed | lia | intros r0 _].
  eapply csz_bind; [apply csz_to_array | lia | intros r Hr].
  eapply csz_bind; [apply csz_read_uvarint | lia | intros p _].
  eapply csz_bind; [apply csz_read_uvarint | lia | intros a _].
  apply csz_ret_err; [exact I|]. cbv beta in *. unfold enc_output. cbn [o_recipient o_payment_id o_amount].
  rewrite !blen_app. lia.
Qed.

Lemma mono_dec_output : mono (dec_output cfg) 0.
Proof. unfold dec_output. repeat mstep. Qed.

Lemma nostuck_dec_output : nostuck (dec_output cfg).
Proof.
  destruct (ok_consts cfg Hokc) as (_ & Ha & _). unfold dec_output. rewrite Ha.
  apply nostuck_fixed_bind; [lia|]. intros r0. repeat mstep.
Qed.

Lemma csz_dec_transfer : csz (dec_transfer cfg) (fun _ => True) (fun d => blen (enc_txdata d)) 3.
Proof.
  unfold dec_transfer.
  eapply csz_bind; [apply csz_read_uvarint | lia | intros n _].
  destruct ((max_outputs cfg <? n) || (n =? 0)); [apply csz_fail|].
  eapply csz_bind; [apply csz_alloc | lia | intros ? _].
  eapply csz_bind;
    [apply (csz_rep (dec_output cfg) (fun _ => True) enc_output 2 (N.to_nat n) csz_dec_output mono_dec_output nostuck_dec_output)
    | lia | intros outs [_ Hlen]].
  apply csz_ret_err; [exact I|]. cbv beta in *. cbn [enc_txdata]. rewrite blen_app.
  replace (blen outs) with n by (unfold blen; lia). lia.
Qed.

Lemma csz_dec_register : csz dec_register (fun _ => True) (fun d => blen (enc_txdata d)) 2.
Proof.
  unfold dec_register, read_byte_slice.
  eapply csz_bind; [apply csz_read_byte_slice | lia | intros name _].
  eapply csz_bind; [apply csz_read_uvarint | lia | intros id _].
  apply csz_ret_err; [exact I|]. cbv beta in *. cbn [enc_txdata]. rewrite !blen_app. lia.
Qed.
Lemma csz_dec_set_delegate : csz dec_set_delegate (fun _ => True) (fun d => blen (enc_txdata d)) 2.
Proof.
  unfold dec_set_delegate.
  eapply csz_bind; [apply csz_read_uvarint | lia | intros d _].
  eapply csz_bind; [apply csz_read_uvarint | lia | intros p _].
  apply csz_ret_err; [exact I|]. cbv beta in *. cbn [enc_txdata]. rewrite !blen_app. lia.
Qed.
Lemma csz_dec_stake : csz dec_stake (fun _ => True) (fun d => blen (enc_txdata d)) 3.
Proof.
  unfold dec_stake.
  eapply csz_bind; [apply csz_read_uvarint | lia | intros a _].
  eapply csz_bind; [apply csz_read_uvarint | lia | intros d _].
  eapply csz_bind; [apply csz_read_uvarint | lia | intros p _].
  apply csz_ret_err; [exact I|]. cbv beta in *. cbn [enc_txdata]. rewrite !blen_app. lia.
Qed.
Lemma csz_dec_unstake : csz dec_unstake (fun _ => True) (fun d => blen (enc_txdata d)) 2.
Proof.
  unfold dec_unstake.
  eapply csz_bind; [apply csz_read_uvarint | lia | intros a _].
  eapply csz_bind; [apply csz_read_uvarint | lia | intros d _].
  apply csz_ret_err; [exact I|]. cbv beta in *. cbn [enc_txdata]. rewrite !blen_app. lia.
Qed.

Ltac to3 H := eapply csz_weaken; [apply H | auto | intros ?; lia | lia].

(* the re-encoding of a decoded transaction is at most 5 bytes longer than what was consumed *)
Lemma csz_dec_tx hv : csz (dec_tx cfg hv) (fun _ => True) (fun t => blen (enc_tx t)) 5.
Proof.
  unfold dec_tx.
  eapply (csz_bind _ _ (fun _ => True) _ (fun v => if v =? 0 then 0 else 1) _ 0); [ | lia | intros ver _].
  { destruct hv.
    - eapply csz_bind; [apply csz_read_u8 | lia | intros v _].
      destruct ((max_tx_version cfg <? v) || (v =? 0)); [apply csz_fail|].
      apply csz_ret; [exact I|]. cbv beta in *. destruct (v =? 0); lia.
    - apply csz_ret; [exact I|reflexivity]. }
  eapply csz_bind; [apply csz_read_fixed | lia | intros sg0 _].
  eapply csz_bind; [apply csz_to_array | lia | intros sg Hsg].
  eapply csz_bind; [apply csz_read_fixed | lia | intros si0 _].
  eapply csz_bind; [apply csz_to_array | lia | intros si Hsi].
  eapply (csz_bind _ _ (fun _ => True) _ (fun d => blen (enc_txdata d)) _ 3); [ | lia | intros data _].
  { destruct ((ver =? 0) || (ver =? 1)); [apply csz_dec_transfer|].
    destruct (ver =? 2); [to3 csz_dec_register|].
    destruct (ver =? 3); [to3 csz_dec_set_delegate|].
    destruct (ver =? 4); [apply csz_dec_stake|].
    destruct (ver =? 5); [to3 csz_dec_unstake|].
    apply csz_fail. }
  eapply csz_bind; [apply csz_read_uvarint | lia | intros nonce _].
  eapply csz_bind; [apply csz_read_uvarint | lia | intros fee _].
  apply csz_ret_err; [exact I|]. cbv beta in *. unfold enc_tx.
  cbn [tx_version tx_signer tx_signature tx_data tx_nonce tx_fee]. rewrite !blen_app.
  unfold add_u8. destruct (ver =? 0); rewrite ?blen_cons, ?blen_nil; lia.
Qed.

Lemma eclean_dec_tx hv : eclean (dec_tx cfg hv).
Proof. unfold dec_tx. repeat (apply eclean_bind; intros ?). apply eclean_ret_err. Qed.

(* on a whole slice: Transaction.Deserialize(sl, hasVersion) = t  =>  len(t.Serialize()) <= len(sl) + 5 *)
Theorem tx_reencode_len hv sl t : result_of (run (dec_tx cfg hv) sl) = ROk t -> blen (enc_tx t) <= blen sl + 5.
Proof.
  unfold run. intros H. pose proof (csz_dec_tx hv (init sl)) as Hc. pose proof (eclean_dec_tx hv (init sl)) as He.
  destruct (dec_tx cfg hv (init sl)) as [t' s'| |]; try discriminate. cbn [result_of] in H. inversion H; subst t'.
  destruct Hc as [_ Hc]. destruct (Hc He) as (_ & _ & Hb). cbn [init d_data] in Hb. destruct (stuckb (d_data s')); lia.
Qed.

(* one element of the transaction list of the wire block *)
Lemma vsafe_full_tx L hv : L + 5 < two64 ->
  vsafe L (sl <- read_byte_slice ;; t <- sub_des sl (dec_tx cfg hv) ;; alloc (SZ_TX + 2 * blen sl + 256) ;;; ret t)
        (fun t => wf_tx cfg hv t = true /\ blen (enc_tx t) < two64).
Proof.
  intros HL. unfold read_byte_slice.
  eapply vsafe_bind; [apply vsafe_read_byte_slice | intros sl [Hsb Hsl]].
  intros s Hs. unfold bind at 1. unfold sub_des.
  assert (HL' : L < two64) by lia.
  pose proof (safe_dec_tx_wf cfg Hokc L HL' hv (mkdes sl false (d_alloc s)) Hsl) as Hsafe.
  pose proof (csz_dec_tx hv (mkdes sl false (d_alloc s))) as Hcs.
  pose proof (eclean_dec_tx hv (mkdes sl false (d_alloc s))) as Hec.
  destruct (dec_tx cfg hv (mkdes sl false (d_alloc s))) as [t s'| |]; [|exact I|exact I].
  unfold bind, alloc, ret. cbn [d_data d_err d_alloc].
  destruct Hsafe as (Hwf & _). destruct Hcs as [_ Hcs]. destruct (Hcs Hec) as (_ & _ & Hb). cbn [d_data] in Hb.
  split; [split; [exact Hwf|]|exact Hs]. destruct (stuckb (d_data s')); lia.
Qed.

End TxSize.

(* ------------------------------------------------------------------ the wire block *)

Lemma step_vm L {A B} (m : M A) (f : A -> M B) (P : A -> Prop) c s r :
  vsafe L m P -> mono m c -> vinv L s -> result_of (bind m f s) = ROk r ->
  exists a s', P a /\ vinv L s' /\ (d_err s' = false -> d_err s = false /\ blen (d_data s') + c <= blen (d_data s))
               /\ result_of (f a s') = ROk r.
Proof.
  intros Hv Hm Hs H. unfold bind in H. specialize (Hv s Hs). specialize (Hm s).
  destruct (m s) as [a s'| |]; [|discriminate|discriminate]. exists a, s'. destruct Hv as [Pa Hs']. auto.
Qed.

Lemma step_v L {A B} (m : M A) (f : A -> M B) (P : A -> Prop) s r :
  vsafe L m P -> vinv L s -> result_of (bind m f s) = ROk r -> exists a s', P a /\ result_of (f a s') = ROk r.
Proof.
  intros Hv Hs H. unfold bind in H. specialize (Hv s Hs).
  destruct (m s) as [a s'| |]; [|discriminate|discriminate]. exists a, s'. destruct Hv as [Pa _]. auto.
Qed.

Section FullBlock.
Variable cfg : config.
Hypothesis Hok : cfg_ok_block cfg = true.

Lemma mono_dec_commitment : mono (dec_commitment cfg) 0.
Proof. unfold dec_commitment. repeat mstep. Qed.

(* a header returned without a pending error consumed at least its version byte and its nonce *)
Lemma mono_dec_header : mono (dec_header cfg) 5.
Proof.
  unfold dec_header.
  apply (mono_bind _ _ 1 4); [apply mono_read_u8 | intros ver | lia].
  apply (mono_bind _ _ 0 4); [apply mono_read_uvarint | intros height | lia].
  apply (mono_bind _ _ 0 4); [apply mono_read_uvarint | intros ts | lia].
  apply (mono_bind _ _ 4 0); [apply mono_read_le | intros nonce | lia].
  pose proof mono_dec_commitment as Hc.
  repeat mstep; try exact Hc.
Qed.

(* Block.DeserializeFull: whatever it returns is a well-formed wire block, with an empty id list *)
Theorem full_block_dec_wf bs b txs : bytes bs -> blen bs < two64 ->
  result_of (run (dec_full_block cfg) bs) = ROk (b, txs) -> wf_full_block cfg b txs = true /\ bl_txs b = [].
Proof.
  intros Hb Hl H. destruct (okb_consts cfg Hok) as (Hokc & _).
  unfold run, dec_full_block in H. set (L := blen bs) in *.
  assert (Hs0 : vinv L (init bs)) by (split; [exact Hb|cbn [init d_data]; lia]).
  destruct (step_vm L _ _ _ 5 _ _ (vsafe_dec_header cfg Hok L Hl) mono_dec_header Hs0 H) as (h & s1 & Hh & Hs1 & Hm1 & H1).
  clear H.
  destruct (step_vm L _ _ _ 0 _ _ (vsafe_read_u128 L) mono_read_u128 Hs1 H1) as (diff & s2 & Hdiff & Hs2 & Hm2 & H2).
  clear H1.
  destruct (step_vm L _ _ _ 0 _ _ (vsafe_read_u128 L) mono_read_u128 Hs2 H2) as (cum & s3 & Hcum & Hs3 & Hm3 & H3).
  clear H2.
  destruct (step_vm L _ _ _ 0 _ _ (vsafe_read_uvarint L) mono_read_uvarint Hs3 H3) as (ntx & s4 & Hntx & Hs4 & Hm4 & H4).
  clear H3.
  unfold bind at 1 in H4. unfold check_err, ret_err in H4. destruct (d_err s4) eqn:E4; [discriminate|].
  destruct (max_tx_per_block cfg <? ntx) eqn:Emax; [discriminate|]. apply N.ltb_ge in Emax.
  unfold bind at 1 in H4. cbn [alloc] in H4.
  destruct (Hm4 eq_refl) as [E3 Hl4]. destruct (Hm3 E3) as [E2 Hl3]. destruct (Hm2 E2) as [E1 Hl2].
  destruct (Hm1 E1) as [_ Hl1]. cbn [init d_data] in Hl1.
  set (L' := blen (d_data s4)) in *.
  assert (HL' : L' + 5 < two64) by (unfold L in *; lia).
  match type of H4 with result_of (bind _ _ ?s) = _ => set (s5 := s) in * end.
  assert (Hs5 : vinv L' s5) by (split; [apply Hs4|cbn [s5 d_data]; unfold L'; lia]).
  pose proof (vsafe_rep L' _ _ (N.to_nat ntx) (vsafe_full_tx cfg Hokc L' (hf_v2 cfg <=? hd_height h) HL')) as Hrep.
  destruct (step_v L' _ _ _ _ _ Hrep Hs5 H4) as (txs' & s6 & [Hall Hlen] & H6).
  clear H4. cbv beta in H6. destruct (d_err s6); [discriminate|]. cbn [result_of] in H6. inversion H6; subst b txs.
  split; [|reflexivity]. unfold wf_full_block. cbn [bl_header bl_diff bl_cumdiff].
  rewrite Hh. rewrite (proj2 (N.ltb_lt _ _) Hdiff), (proj2 (N.ltb_lt _ _) Hcum).
  replace (blen txs' <=? max_tx_per_block cfg) with true by (symmetry; apply N.leb_le; unfold blen; lia).
  cbn [andb]. apply Forall_forallb'. eapply Forall_impl; [|exact Hall].
  intros t [Hwf Hlen']. cbv beta. rewrite Hwf. unfold u64b. apply N.ltb_lt. exact Hlen'.
Qed.

(* SerializeFullBlock of what DeserializeFull returned decodes to that same (block, transactions) pair.  No admission
   clause: unlike Block.Serialize, SerializeFullBlock does not refuse a zero difficulty. *)
Theorem full_block_reencode bs b txs : bytes bs -> blen bs < two64 ->
  result_of (run (dec_full_block cfg) bs) = ROk (b, txs) ->
  result_of (run (dec_full_block cfg) (enc_full_block b txs)) = ROk (b, txs).
Proof.
  intros Hb Hl H. destruct (full_block_dec_wf bs b txs Hb Hl H) as [Hwf Hnil].
  rewrite (full_block_roundtrip cfg Hok b txs Hwf). destruct b as [h d c ids]. cbn [bl_txs] in Hnil. subst ids. reflexivity.
Qed.

(* the same for the block the receiver stores and relays: it fills the id list (BLAKE3 of each re-encoded transaction,
   outside the model, hence any list [ids]); the wire form does not carry it *)
Theorem full_block_reencode_ids bs b txs ids : bytes bs -> blen bs < two64 ->
  result_of (run (dec_full_block cfg) bs) = ROk (b, txs) ->
  result_of (run (dec_full_block cfg) (enc_full_block (mkblock (bl_header b) (bl_diff b) (bl_cumdiff b) ids) txs)) = ROk (b, txs).
Proof. intros Hb Hl H. exact (full_block_reencode bs b txs Hb Hl H). Qed.

(* ... and the transactions of an accepted wire block re-encode one by one (the version-byte regime is the block's) *)
Theorem full_block_txs_reencode bs b txs : bytes bs -> blen bs < two64 ->
  result_of (run (dec_full_block cfg) bs) = ROk (b, txs) ->
  Forall (fun t => result_of (run (dec_tx cfg (hf_v2 cfg <=? hd_height (bl_header b))) (enc_tx t)) = ROk t
                   /\ blen (enc_tx t) < two64) txs.
Proof.
  intros Hb Hl H. destruct (full_block_dec_wf bs b txs Hb Hl H) as [Hwf _]. destruct (okb_consts cfg Hok) as (Hokc & _).
  unfold wf_full_block in Hwf. apply andb_prop in Hwf. destruct Hwf as [_ Hall].
  apply Forall_forall. intros t Hin. rewrite forallb_forall in Hall. specialize (Hall t Hin).
  apply andb_prop in Hall. destruct Hall as [Hwf Hlen]. split; [apply tx_roundtrip; assumption|].
  unfold u64b in Hlen. apply N.ltb_lt. exact Hlen.
Qed.

End FullBlock.

(* ------------------------------------------------------------------ bare readers without a re-encoding theorem so far *)

Theorem byte_slice_reencode bs b : blen bs < two64 ->
  result_of (run (x <- read_byte_slice ;; ret_err x) bs) = ROk b ->
  result_of (run (x <- read_byte_slice ;; ret_err x) (add_byte_slice b)) = ROk b.
Proof.
  intros Hl H. apply byte_slice_roundtrip.
  assert (Hb : blen b <= blen bs); [|lia].
  apply (safe_result (blen bs) (x <- read_byte_slice ;; ret_err x) (fun b => blen b <= blen bs) 0 bs b); [|lia|exact H].
  unfold read_byte_slice. eapply (safe_bind _ _ _ _ _ 0 0); [lia | apply safe_read_byte_slice | intros a Ha].
  apply safe_ret_err. exact Ha.
Qed.

(* Difficulty / CumulativeDiff: any slice is accepted (up to 16 bytes are used); the trimmed form of the value read
   decodes to the same value *)
Theorem u128_reencode bs v : bytes bs ->
  result_of (run (x <- read_u128 ;; ret_err x) bs) = ROk v ->
  result_of (run (x <- read_u128 ;; ret_err x) (add_byte_slice (u128_trimmed v))) = ROk v.
Proof.
  intros Hb H.
  assert (Hv : v < two128).
  { apply (vsafe_result (blen bs) (x <- read_u128 ;; ret_err x) (fun v => v < two128) bs v); [|exact Hb|lia|exact H].
    eapply vsafe_bind; [apply vsafe_read_u128|]. intros a Ha. apply vsafe_ret_err. exact Ha. }
  unfold run, init. rewrite <- (app_nil_r (add_byte_slice (u128_trimmed v))). rewrite run_u128 by exact Hv. reflexivity.
Qed.

(* ------------------------------------------------------------------ witnesses (main-net constants) *)

(* a dangling continuation byte after the signature of a version-4 transaction is read as five zero fields: the
   98-byte slice decodes, and the transaction re-encodes to 102 bytes (which decode to the same transaction) *)
Definition trunc_tx_bytes : list N := [4] ++ zeros 32 ++ zeros 64 ++ [128].
Definition trunc_tx : tx := mktx 4 (zeros 32) (zeros 64) (Stake 0 0 0) 0 0.
Theorem tx_truncated_varint_witness :
  result_of (run (dec_tx cfg_mainnet true) trunc_tx_bytes) = ROk trunc_tx /\
  blen trunc_tx_bytes = 98 /\ blen (enc_tx trunc_tx) = 102 /\
  result_of (run (dec_tx cfg_mainnet true) (enc_tx trunc_tx)) = ROk trunc_tx /\
  result_of (run (x <- read_uvarint ;; ret_err x) [128]) = ROk 0.
Proof. repeat split; vm_compute; reflexivity. Qed.

(* the same inside a wire block (height = HARDFORK_V2_HEIGHT, one transaction): the accepted bytes are 4 bytes shorter
   than the re-encoding of what they decode to; re-encoding is a fixpoint on values, not on bytes *)
Definition trunc_header : header :=
  mkheader 0 (hf_v2 cfg_mainnet) 0 0 (zeros 16) [] (zeros 22) [zeros 32; zeros 32; zeros 32] [] 0 0 (zeros 64).
Definition trunc_block_bytes (diff : list N) : list N :=
  enc_header trunc_header ++ add_byte_slice diff ++ add_byte_slice [1] ++ put_uvarint 1 ++ add_byte_slice trunc_tx_bytes.
Theorem full_block_truncated_varint_witness :
  result_of (run (dec_full_block cfg_mainnet) (trunc_block_bytes [1])) = ROk (mkblock trunc_header 1 1 [], [trunc_tx]) /\
  blen (enc_full_block (mkblock trunc_header 1 1 []) [trunc_tx]) = blen (trunc_block_bytes [1]) + 4.
Proof. split; vm_compute; reflexivity. Qed.

(* DeserializeFull accepts a zero difficulty (an empty slice), SerializeFullBlock writes it, Block.Serialize (the stored
   form) answers nil for it: hence no "difficulty <> 0" premise in [full_block_reencode] *)
Theorem full_block_zero_diff_witness :
  result_of (run (dec_full_block cfg_mainnet) (trunc_block_bytes [])) = ROk (mkblock trunc_header 0 1 [], [trunc_tx]) /\
  result_of (run (dec_full_block cfg_mainnet) (enc_full_block (mkblock trunc_header 0 1 []) [trunc_tx]))
    = ROk (mkblock trunc_header 0 1 [], [trunc_tx]) /\
  enc_block (mkblock trunc_header 0 1 []) = [].
Proof. repeat split; vm_compute; reflexivity. Qed.
