(* Non-vacuity of the chain-structure theorems (Proofs/ChainRun.v): a concrete history of the verification
   configuration in which the node reorganises to a heavier but SHORTER chain.  G - A1 - A2 - A3 is the main chain
   (height 3, cumulative difficulty 11); B is a second child of G; D, a child of B with two side blocks, has height 2
   and cumulative difficulty 14.  After D the height index has exactly the entries 0, 1, 2 (G, B, D): the entry of
   height 3 is gone. *)
From Virel Require Import Lib.Config Lib.U64 Lib.AMap Model.Ledger Model.Node Spec.Chain Proofs.ForkChoice
  Proofs.ChainHeights Gen.Params.
Open Scope N_scope.

Definition sr_ops : list (block * N) :=
  [ (w_block 2 1 [1; 0; 0] [] 5, 0);                                                             (* A1 *)
    (w_block 3 2 [2; 1; 0] [] 9, 0);                                                             (* A2 *)
    (mkblock 8 1 3 0 [3; 2; 1] [] 7 0 0 true 0 0 5 11 [] [] 0 0 (w_commit 8 [3; 2; 1]) false, 0);  (* A3 *)
    (w_block 4 1 [1; 0; 0] [] 5, 0);                                                             (* B  *)
    (w_block 6 2 [4; 1; 0] [w_commit 2 [1; 0; 0]; w_commit 9 [1; 0; 0]] 14, 0) ].                (* D  *)

Theorem shorter_heavier_reorg_example :
  exists n0, node0 cfg_verifnet 7 w_genesis = Ok n0 /\ b_height w_genesis = 0 /\ b_cd w_genesis = b_diff w_genesis /\
    N.of_nat (length sr_ops) < two64 - 1 /\
    w_outcomes n0 sr_ops = [Accepted; Accepted; Accepted; Accepted; Accepted] /\
    (let n := run cfg_verifnet 7 0 n0 (firstn 4 sr_ops) in topo n = [(0, 1); (1, 2); (2, 3); (3, 8)] /\ top n = 8) /\
    (let n := run cfg_verifnet 7 0 n0 sr_ops in
     topo n = [(0, 1); (1, 4); (2, 6)] /\ top n = 6 /\ top_h n = 2 /\ walk (blocks n) 2 (top n) = [6; 4; 1]).
Proof.
  eexists. split; [vm_compute; reflexivity|]. split; [reflexivity|]. split; [reflexivity|].
  split; [vm_compute; reflexivity|]. split; [vm_compute; reflexivity|].
  split; cbn zeta; repeat split; vm_compute; reflexivity.
Qed.
