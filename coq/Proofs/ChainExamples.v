(* Non-vacuity of the chain-structure theorems (Proofs/ChainHeights.v): concrete histories of the verification
   configuration.  Hashes are small numbers; G = 1 is genesis.

   [shorter_heavier_reorg_example]: G - A1 - A2 - A3 is the main chain (height 3, cumulative difficulty 11); B is a second
   child of G; D, a child of B with two side blocks, has height 2 and cumulative difficulty 14.  After D the height index
   has exactly the entries 0, 1, 2 (G, B, D): the entry of height 3 is gone.

   [stale_key_history_example]: the history that refuted "top_h = height of top" for the code before /repo 82cbb1b.
   G - A1 - A2 main (weight 9); B (child of G) and C (child of B) alternative, same weight; D a second child of B with one
   side block (weight 11).  The old code kept C's entry under the key B and gave D that entry's height + 1 = 3; now the
   reorganisation to D ends with top_h = 2 = height of D, and C keeps its own entry. *)
From Virel Require Import Lib.Config Lib.U64 Lib.AMap Model.Ledger Model.Node Spec.Chain Proofs.ForkChoice Gen.Params.
Open Scope N_scope.

Definition w_commit (e : N) (anc : list N) : commit := mkcommit e e anc 0 0 false.
Definition w_genesis : block := genesis_block cfg_verifnet 7 1 123 (w_commit 1 [0; 0; 0]).
Definition w_block (h ht : N) (anc : list N) (sides : list commit) (cd : N) : block :=
  mkblock h 0 ht 0 anc sides 7 0 0 true 0 0 4 cd [] [] 0 0 (w_commit h anc) false.
Definition w_outcomes (n : node) (ops : list (block * N)) : list outcome :=
  fst (fold_left (fun acc op => let '(r, out, _) := deliver cfg_verifnet 7 0 (snd acc) (fst op) (snd op) in
                                (fst acc ++ [out], r)) ops ([], n)).

Definition sr_ops : list (block * N) :=
  [ (w_block 2 1 [1; 0; 0] [] 5, 0);                                                             (* A1 *)
    (w_block 3 2 [2; 1; 0] [] 9, 0);                                                             (* A2 *)
    (mkblock 8 1 3 0 [3; 2; 1] [] 7 0 0 true 0 0 5 11 [] [] 0 0 (w_commit 8 [3; 2; 1]) false, 0);  (* A3 *)
    (w_block 4 1 [1; 0; 0] [] 5, 0);                                                             (* B  *)
    (w_block 6 2 [4; 1; 0] [w_commit 2 [1; 0; 0]; w_commit 9 [1; 0; 0]] 14, 0) ].                (* D  *)

Theorem shorter_heavier_reorg_example :
  exists n0, node0 cfg_verifnet 7 w_genesis = Ok n0 /\ b_height w_genesis = 0 /\ b_cd w_genesis = b_diff w_genesis /\
    N.of_nat (length sr_ops) < two64 - 1 /\
    w_outcomes n0 sr_ops = [Accepted; Accepted; Accepted; Accepted; Accepted] /\
    (let n := run cfg_verifnet 7 0 n0 (firstn 4 sr_ops) in
     topo n = [(0, 1); (1, 2); (2, 3); (3, 8)] /\ top n = 8 /\ top_h n = 3) /\
    (let n := run cfg_verifnet 7 0 n0 sr_ops in
     topo n = [(0, 1); (1, 4); (2, 6)] /\ top n = 6 /\ top_h n = 2 /\ walk (blocks n) 2 (top n) = [6; 4; 1] /\
     tips n = [(8, mktip 8 3 11)]).
Proof.
  eexists. split; [vm_compute; reflexivity|]. split; [reflexivity|]. split; [reflexivity|].
  split; [vm_compute; reflexivity|]. split; [vm_compute; reflexivity|].
  split; cbn zeta; repeat split; vm_compute; reflexivity.
Qed.

Definition w_ops : list (block * N) :=
  [ (w_block 2 1 [1; 0; 0] [] 5, 0);                            (* A1 *)
    (w_block 3 2 [2; 1; 0] [] 9, 0);                            (* A2 *)
    (w_block 4 1 [1; 0; 0] [] 5, 0);                            (* B  *)
    (w_block 5 2 [4; 1; 0] [] 9, 0);                            (* C  *)
    (w_block 6 2 [4; 1; 0] [w_commit 2 [1; 0; 0]] 11, 0) ].     (* D  *)

Theorem stale_key_history_example :
  exists n0, node0 cfg_verifnet 7 w_genesis = Ok n0 /\
    w_outcomes n0 w_ops = [Accepted; Accepted; Accepted; Accepted; Accepted] /\
    let n := run cfg_verifnet 7 0 n0 w_ops in
    topo n = [(0, 1); (1, 4); (2, 6)] /\ top n = 6 /\ top_h n = 2 /\
    tips n = [(5, mktip 5 2 9); (3, mktip 3 2 9)].
Proof.
  eexists. split; [vm_compute; reflexivity|]. split; [vm_compute; reflexivity|].
  cbn zeta; repeat split; vm_compute; reflexivity.
Qed.
