(* Property C17, "the wallet-facing indexes match the main chain", third part: the node.
   The invariant QInv of Proofs/History2.v (replay invariant + the three indexes) holds for the genesis node and is kept
   by every delivery: an extension of the main chain applies one block, a reorganisation runs remove_chain over the
   disconnected blocks and apply_chain over the connected ones (Proofs/Replay3.v).  The induction over the deliveries is
   the one of Proofs/Replay4.v with the stronger ledger invariant.
   Result: for every node state reachable from genesis by deliveries, the incoming index below the incoming counters,
   the outgoing index below the nonces and the transaction heights are those of the main chain. *)
From Coq Require Import Sorting.Sorted.
From Virel Require Import Lib.Config Lib.U64 Lib.AMap Lib.CheckLib Model.Emission Model.Ledger Model.Node Spec.Chain Spec.Rules
  Proofs.AMapLemmas Proofs.Emission Proofs.Conservation Proofs.Pointwise Proofs.Refine Proofs.Staking Proofs.StakedSum
  Proofs.Refine2 Proofs.NodeBasics Proofs.ForkChoice Proofs.Restart Proofs.ChainInv Proofs.ChainRun Proofs.ChainHeights
  Proofs.Undo Proofs.Undo2 Proofs.Undo4 Proofs.Replay1 Proofs.Replay2 Proofs.Replay3 Proofs.Replay4 Proofs.Replay5
  Proofs.History1 Proofs.History2.
Open Scope N_scope.
Open Scope bool_scope.

(* the ledger's view of the genesis block (the lottery value plays no role for the events) *)
Definition glb (g : block) : lblock := to_lblock g 0.

Section Main.
Variable cfg : config.
Variable genesis_addr team_key : N.
Hypothesis Hok : cfg_ok_emission cfg = true.
Variable g : block.             (* the genesis block *)
Variable l0 : ledger.           (* the ledger after the genesis block *)
Notation gh := (b_hash g).

Definition gE : list (N * N) := block_credits cfg genesis_addr (glb g).
Definition gS : list (N * N) := block_signs (glb g).
Definition gH : list (N * N) := block_txhs (glb g).

Notation store_pre := (store_pre cfg g).
Notation base_ok := (base_ok cfg l0 (bkeys g) (c0 g)).
Notation base_t := (base_t l0 (bkeys g) gE gS gH).
Notation chain_ok := (chain_ok cfg (bkeys g) (c0 g)).
Notation QInv := (QInv cfg genesis_addr l0 gE gS gH).

(* ---- the genesis ledger ---- *)
Lemma genesis_base_t n0 :
  node0 cfg genesis_addr g = Ok n0 -> b_height g = 0 -> l0 = ldg n0 -> store_pre (blocks n0) -> base_t.
Proof.
  intros Hn0 Hg0 -> (Hp1 & Hp2). unfold node0, apply_block_node in Hn0. bind_inv Hn0. rename a into l. injection Hn0 as <-.
  cbn [ldg top_h set_ldg] in E |- *.
  match type of E with apply_block _ _ _ ?B _ = _ => set (gb := B) in * end.
  assert (Hgs : Forall (tx_c cfg) (b_txs g)).
  { apply (Hp1 gh g). unfold nget. cbn. rewrite N.eqb_refl. reflexivity. }
  destruct (Hp2 [] I) as (_ & Hc1 & Hc2). cbn [bnouts bntx fold_right] in Hc1, Hc2.
  assert (Htxok : Forall (tx_ok cfg) (lb_txs gb)).
  { change (lb_txs gb) with (b_txs g). eapply Forall_impl; [|exact Hgs]. intros t ((Hwf & Htot & _) & _). split; assumption. }
  assert (Hbi : forall a, cI ledger0 a + cnt a (block_credits cfg genesis_addr gb) < two64).
  { intros a. pose proof (cnt_block_credits cfg genesis_addr a gb) as X. change (lb_txs gb) with (b_txs g) in X.
    change (cI ledger0 a) with 0. unfold c0 in Hc1. lia. }
  assert (Hbn : forall a, cN ledger0 a + cnt a (block_signs gb) < two64).
  { intros a. pose proof (cnt_block_signs a gb) as X. change (lb_txs gb) with (b_txs g) in X.
    change (cN ledger0 a) with 0. unfold c0 in Hc2. lia. }
  destruct (apply_block_hist cfg genesis_addr ledger0 gb _ l Hbi Hbn E) as (T1 & T2 & _).
  pose proof (apply_block_counts cfg genesis_addr ledger0 gb _ l two64_pos Htxok Hbi Hbn E) as Hc.
  change (block_credits cfg genesis_addr gb) with gE in *. change (block_signs gb) with gS in *.
  split; [|split; [|split]].
  - apply (tinv_step _ _ [] _ _ gE (tinv_nil _ _ ltac:(intros a; reflexivity)) T1).
    intros a. destruct (Hc a) as [-> _]. reflexivity.
  - apply (tinv_step _ _ [] _ _ gS (tinv_nil _ _ ltac:(intros a; reflexivity)) T2).
    intros a. destruct (Hc a) as [_ ->]. reflexivity.
  - change gH with ([] ++ map (fun id => (id, lb_height gb)) (block_ids gb)).
    apply (hinv_apply [] [] (block_ids gb) (lb_height gb)).
    + split; [intros id h []|intros id _; left; reflexivity].
    + intros id [].
    + exact (apply_block_txh cfg genesis_addr _ _ _ _ E).
  - intros id Hin. unfold gH, block_txhs in Hin. rewrite map_map in Hin. cbn [fst] in Hin. rewrite map_id in Hin.
    unfold bkeys. right. exact Hin.
Qed.

(* ---- the invariant ---- *)
Definition NQ (n : node) : Prop := QInv (lbs n (mchain n)) (ldg n).

(* ---- extension of the main chain ---- *)
Lemma add_mainchain_NQ n b prev n' :
  CInv gh n -> HInv n -> N.of_nat (length (blocks n)) < two64 ->
  get_block n (b_hash b) = None -> get_block n (prev_hash b) = Some prev -> check_block cfg n b prev = Ok tt ->
  prev_hash b = top n ->
  add_mainchain_block cfg genesis_addr n b = Ok n' ->
  CInv gh n' -> HInv n' -> base_ok -> base_t -> store_pre (blocks n') -> NQ n -> NQ n'.
Proof.
  intros HC HH Hlen Hnew Hprev Hcb Emain H HC' HH' HB0 HT0 Hpre HJ. pose proof HC as (HB & HT). pose proof HH as (Hh & _).
  unfold get_block in Hnew, Hprev.
  pose proof (check_block_height cfg _ _ _ Hcb) as Hhw.
  assert (Hh' : b_height b = b_height prev + 1).
  { destruct HB as (_ & _ & _ & Hb). pose proof (Hb _ _ Hprev). rewrite wadd_small in Hhw; lia. }
  assert (Htoph : top_h n = b_height prev) by (symmetry; apply Hh; unfold get_block; rewrite <- Emain; exact Hprev).
  unfold add_mainchain_block in H. bind_inv H. injection H as <-. rename a into n1.
  unfold apply_block_node in E. bind_inv E. rename a into l1. injection E as <-.
  match goal with Hx : apply_block _ _ _ _ _ = Ok l1 |- _ => rename Hx into Eab end.
  set (n' := set_topo _ _) in *.
  assert (Hsle : store_le n n').
  { intros h v Hv. unfold n'. cbn [blocks set_topo set_blocks set_top set_ldg]. apply nget_nset_keep; assumption. }
  assert (Hm : mchain n' = mchain n ++ [b]).
  { unfold mchain, n'. cbn [blocks topo top_h set_topo set_blocks set_top set_ldg].
    replace (N.to_nat (b_height b)) with (S (N.to_nat (top_h n))) by lia. cbn [chain_upto].
    replace (N.of_nat (S (N.to_nat (top_h n)))) with (b_height b) by lia.
    rewrite !nget_nset_same. f_equal.
    rewrite (chain_upto_tp_ext _ (topo n) (nset (topo n) (b_height b) (b_hash b))).
    2:{ intros j Hj. rewrite nget_nset. destruct (N.eqb_spec (N.of_nat j) (b_height b)); [lia|reflexivity]. }
    apply chain_upto_bl_ext. intros j y Hj Hy.
    destruct (TInv_entry gh _ _ _ _ _ HT Hy) as (yb & Hyb & _).
    rewrite nget_nset. destruct (N.eqb_spec y (b_hash b)) as [->|_]; [congruence|reflexivity]. }
  assert (Hlb : lb_of n' b = lb_of n b).
  { unfold lb_of, lottery_of, get_block. rewrite Hprev, (Hsle _ _ Hprev). reflexivity. }
  assert (Hck : chain_ok (lbs n' (mchain n'))).
  { apply path_chain_ok; [destruct HC' as [X _]; exact X|exact Hpre|apply mchain_up; assumption]. }
  unfold NQ. rewrite Hm in Hck |- *. unfold lbs in Hck |- *. rewrite map_app in Hck |- *. cbn [map] in Hck |- *.
  fold (lbs n' (mchain n)) in Hck |- *.
  rewrite (lbs_store_ext gh n n' (mchain n) gh Hsle (genesis_stored g n HC) (mchain_up g n HC HH)) in Hck |- *.
  rewrite Hlb in Hck |- *. change (ldg n') with l1.
  apply (QInv_extend cfg genesis_addr Hok l0 (bkeys g) (c0 g) gE gS gH _ (ldg n) (lb_of n b) l1 HB0 HT0 Hck HJ).
  change (lb_height (lb_of n b)) with (b_height b). replace (b_height b - 1) with (top_h n) by lia. exact Eab.
Qed.

(* ---- a reorganisation ---- *)
Lemma check_reorgs_NQ n n' amb :
  BInv gh (blocks n) -> TInv gh (blocks n) (topo n) (top n) ->
  (forall t, get_block n (top n) = Some t -> b_height t = top_h n) ->
  (forall t, get_block n' (top n') = Some t -> b_height t = top_h n') ->
  (forall k tp, In (k, tp) (tips n) -> top_cd n < t_cd tp -> t_hash tp <> gh) ->
  base_ok -> base_t -> store_pre (blocks n) -> NQ n ->
  check_reorgs cfg genesis_addr n = Ok (n', amb) -> NQ n'.
Proof.
  intros HB HT Hh Hh' Hng HB0 HT0 Hpre HJ H. unfold check_reorgs in H.
  pose proof (best_tip_strict n) as Hbt. cbn zeta in Hbt.
  destruct (best_tip n) as [alt amb0] eqn:Ebt. cbn [fst] in Hbt.
  destruct (N.eqb_spec (t_hash alt) (top n)) as [Etop|Ntop]; [injection H as <- <-; exact HJ|].
  opt_inv H. rename x into cb. unfold get_block in E. bind_inv H. destruct a as [common hashes].
  bind_inv H. rename a into na. bind_inv H. rename a into nb. injection H as <- <-.
  destruct Hbt as [Ealt|(k & Hin & Hlt)]; [rewrite Ealt in Ntop; cbn in Ntop; congruence|].
  assert (Hcbh : b_hash cb = t_hash alt) by (destruct HB as (Hk & _); apply (Hk _ _ E)).
  (* step 1 *)
  apply (reorg_collect_spec gh) in E0; [|exact HB|].
  2:{ cbn [rev app up]. rewrite Hcbh. split; [exact E|]. split; [reflexivity|]. split; [|exact I]. apply (Hng k alt Hin Hlt). }
  destruct E0 as (Hup & (cm & Hcm & Hcmt) & (t & ->)).
  pose proof HT as (_ & tb & Htb & _).
  assert (Htbh : b_height tb = top_h n) by (apply Hh; exact Htb).
  set (K1 := N.to_nat (top_h n)). set (kc := N.to_nat (b_height cm)).
  pose proof (TInv_entry_le gh _ _ _ _ _ _ HT Htb Hcmt) as Hle.
  assert (Hkc : (kc <= K1)%nat) by (unfold kc, K1; lia).
  set (P := chain_upto (blocks n) (topo n) kc). set (O := skipn kc (mchain n)).
  assert (HPO : mchain n = P ++ O).
  { unfold P, O, mchain. fold K1.
    rewrite <- (firstn_chain_upto gh _ _ _ _ K1 HT Htb ltac:(unfold K1; lia) kc Hkc). symmetry. apply firstn_skipn. }
  (* step 2 *)
  assert (Hna : blocks na = blocks n /\ TInv gh (blocks na) (topo na) common /\
                remove_chain cfg genesis_addr (ldg n) (rev (lbs n O)) = Ok (ldg na) /\
                chain_upto (blocks na) (topo na) kc = P).
  { destruct (N.eqb_spec (top n) common) as [Ec|Nc].
    - injection E1 as <-. subst common. rewrite Htb in Hcm. injection Hcm as <-.
      split; [reflexivity|]. split; [exact HT|]. split; [|reflexivity].
      unfold O, mchain. fold K1. replace kc with K1 by (unfold kc, K1; lia).
      rewrite skipn_all2 by (rewrite (chain_upto_length gh _ _ _ _ K1 HT Htb ltac:(unfold K1; lia)); apply le_n). reflexivity.
    - opt_inv E1. unfold get_block in E0. rewrite Htb in E0. injection E0 as <-.
      pose proof (reorg_disconnect_spec cfg genesis_addr gh _ _ _ _ _ _ cm HT Hcm Hcmt E1) as (Fb & HTa).
      destruct (disconnect_ledger cfg genesis_addr gh _ _ _ _ _ _ cm tb HT Htb Hcm Hcmt E1) as (_ & _ & Hrm & Hfst).
      cbv zeta in Hrm, Hfst. rewrite Htbh in Hrm, Hfst. fold K1 kc in Hrm, Hfst.
      split; [exact Fb|]. split; [exact HTa|]. split; [exact Hrm|].
      rewrite Hfst. apply (firstn_chain_upto gh _ _ _ _ K1 HT Htb ltac:(unfold K1; lia) kc Hkc). }
  destruct Hna as (Fb & HTa & Hrm & HP).
  (* step 3 *)
  set (Nw := rev ([cb] ++ t)) in *.
  destruct (connect_ledger cfg genesis_addr gh Nw na common cm nb) as (Fb2 & Hap & Hch); try assumption.
  { rewrite Fb. exact HB. } { rewrite Fb. exact Hcm. } { rewrite Fb. exact Hup. }
  cbv zeta in Hch. fold kc in Hch. rewrite HP in Hch.
  (* the new main chain *)
  assert (Hcbn : nget (blocks n) (b_hash cb) = Some cb) by (rewrite Hcbh; exact E).
  assert (Hlast : last_hash common Nw = b_hash cb).
  { unfold Nw. rewrite rev_app_distr. cbn [rev app]. apply last_hash_snoc. }
  pose proof (up_last_height gh (blocks n) Nw common cm cb HB Hcm Hup ltac:(rewrite Hlast; exact Hcbn)) as Hcbheight.
  assert (Hm : mchain (set_top (set_tips nb (nset (ndel (tips nb) (t_hash alt)) (top n) (mktip (top n) (top_h n) (top_cd n))))
                              (t_hash alt) (t_height alt) (t_cd alt)) = P ++ Nw).
  { unfold mchain. cbn [blocks topo top_h set_top set_tips].
    assert (Eh : t_height alt = b_height cb).
    { symmetry. apply Hh'. unfold get_block. cbn [blocks top set_top set_tips]. rewrite Fb2, Fb. exact E. }
    rewrite Eh, Hcbheight. replace (N.to_nat (b_height cm + N.of_nat (length Nw))) with (kc + length Nw)%nat by (unfold kc; lia).
    exact Hch. }
  unfold NQ. rewrite Hm. cbn [ldg set_top set_tips].
  erewrite (lbs_ext n) by (cbn [blocks set_top set_tips]; rewrite Fb2, Fb; reflexivity).
  unfold lbs. rewrite map_app. fold (lbs n P). fold (lbs n Nw).
  assert (HupP : up gh (blocks n) gh P /\ nget (topo n) (N.of_nat kc) = Some (last_hash gh P)).
  { apply (chain_upto_up gh _ _ _ _ _ HB HT Htb). unfold kc. lia. }
  destruct HupP as [HupP HlastP].
  assert (HlP : last_hash gh P = common).
  { replace (N.of_nat kc) with (b_height cm) in HlastP by (unfold kc; lia). rewrite Hcmt in HlastP. injection HlastP as <-. reflexivity. }
  assert (HupM : up gh (blocks n) gh (mchain n)).
  { unfold mchain. fold K1. apply (chain_upto_up gh _ _ _ _ _ HB HT Htb). unfold K1. lia. }
  apply (QInv_reorg cfg genesis_addr Hok l0 (bkeys g) (c0 g) gE gS gH (lbs n P) (lbs n O) (lbs n Nw) (ldg n) (ldg na) (ldg nb) HB0 HT0).
  - unfold lbs. rewrite <- map_app, <- HPO. apply path_chain_ok; assumption.
  - unfold lbs. rewrite <- map_app. apply path_chain_ok; [exact HB|exact Hpre|].
    apply up_app. split; [exact HupP|]. rewrite HlP. exact Hup.
  - unfold lbs. rewrite <- map_app, <- HPO. exact HJ.
  - exact Hrm.
  - erewrite lbs_ext in Hap; [exact Hap|exact Fb].
Qed.

(* ---- one delivery ---- *)
Definition JQ (n : node) : Prop := CInv gh n /\ FInv n /\ HInv n /\ NQ n.

Lemma add_block_NQ n b n' amb :
  JQ n -> N.of_nat (length (blocks n)) < two64 -> base_ok -> base_t -> store_pre (blocks n') -> CInv gh n' ->
  add_block cfg genesis_addr n b = Ok (n', amb) -> NQ n'.
Proof.
  intros (HC & HF & HH & HJ) Hlen HB0 HT0 Hpre HC' H.
  pose proof (add_block_HInv cfg genesis_addr gh n b n' amb HC HF HH Hlen H) as HH'.
  pose proof HC as (HB & HT). pose proof HF as (Hts & Htips & Hmax). pose proof HH as (Hh & _).
  unfold add_block in H. guard_inv H. opt_inv H. rename x into prev. bind_inv H. destruct a.
  assert (Hnew : nget (blocks n) (b_hash b) = None).
  { unfold get_block in G. destruct (nget (blocks n) (b_hash b)); [discriminate|reflexivity]. }
  unfold get_block in E.
  destruct (N.eqb_spec (prev_hash b) (top n)) as [Emain|Ealt].
  - bind_inv H. injection H as <- <-.
    exact (add_mainchain_NQ n b prev a HC HH Hlen Hnew E E0 Emain E1 HC' HH' HB0 HT0 Hpre HJ).
  - unfold add_altchain_block in H.
    set (tips' := match nget (tips n) (prev_hash b) with Some t => _ | None => _ end) in H.
    set (n1 := set_blocks (set_tips n tips') (nset (blocks n) (b_hash b) b)) in H.
    pose proof (check_block_height cfg _ _ _ E0) as Hhw.
    assert (Hh' : b_height b = b_height prev + 1).
    { destruct HB as (_ & _ & _ & Hb). pose proof (Hb _ _ E). rewrite wadd_small in Hhw; lia. }
    assert (Hsle : store_le n n1).
    { intros h v Hv. unfold n1. cbn [blocks set_blocks set_tips]. apply nget_nset_keep; assumption. }
    assert (Hb1 : blocks n' = blocks n1) by (apply (check_reorgs_blocks cfg genesis_addr _ _ _ H)).
    apply (check_reorgs_NQ n1 n' amb); try exact H.
    + exact (BInv_insert gh _ _ _ HB Hnew E Hh').
    + unfold n1. cbn [blocks topo top set_blocks set_tips]. apply TInv_insert_block; assumption.
    + intros t0 Ht0. unfold n1, get_block in Ht0. cbn [blocks top top_h set_blocks set_tips] in Ht0 |- *.
      destruct Hts as (t1 & Ht1 & _). unfold get_block in Ht1. rewrite (nget_nset_keep _ _ _ _ _ Hnew Ht1) in Ht0.
      injection Ht0 as <-. apply Hh. exact Ht1.
    + destruct HH' as (X & _). exact X.
    + intros k tp Hin Hlt. unfold n1 in Hin, Hlt. cbn [tips top_cd set_blocks set_tips] in Hin, Hlt.
      apply alt_tips_cases in Hin. destruct Hin as [(_ & ->)|Hin].
      * cbn [t_hash]. intros Egh. destruct HB as (_ & (gb & Hg & _) & _). rewrite Egh in Hnew. congruence.
      * exfalso. destruct (Htips k tp Hin) as (tb & Htb & Hcd). pose proof (Hmax _ _ Htb). lia.
    + exact HB0.
    + exact HT0.
    + rewrite <- Hb1. exact Hpre.
    + assert (Hm1 : mchain n1 = mchain n).
      { unfold mchain, n1. cbn [blocks topo top_h set_blocks set_tips].
        apply chain_upto_bl_ext. intros j y Hj Hy. destruct (TInv_entry gh _ _ _ _ _ HT Hy) as (yb & Hyb & _).
        rewrite nget_nset. destruct (N.eqb_spec y (b_hash b)) as [->|_]; [congruence|reflexivity]. }
      unfold NQ. rewrite Hm1.
      rewrite (lbs_store_ext gh n n1 (mchain n) gh Hsle (genesis_stored g n HC) (mchain_up g n HC HH)). exact HJ.
Qed.

Lemma deliver_JQ n b now n' out amb :
  JQ n -> N.of_nat (length (blocks n)) < two64 -> base_ok -> base_t -> store_pre (blocks n') ->
  deliver cfg genesis_addr team_key n b now = (n', out, amb) -> JQ n'.
Proof.
  intros HJ Hlen HB0 HT0 Hpre H. pose proof HJ as (HC & HF & HH & HN).
  assert (HC' : CInv gh n') by (eapply deliver_CInv; eassumption).
  split; [exact HC'|]. split; [exact (deliver_inv cfg genesis_addr team_key n b now n' out amb HF H)|].
  split; [exact (deliver_HInv cfg genesis_addr team_key gh n b now n' out amb HC HF HH Hlen H)|].
  unfold deliver in H.
  destruct (prevalidate_block cfg team_key b now); try (injection H as <- _ _; exact HN).
  destruct (add_block cfg genesis_addr n b) as [[n1 amb1]|c|c] eqn:E; try (injection H as <- _ _; exact HN).
  injection H as <- _ _. exact (add_block_NQ n b n1 amb1 HJ Hlen HB0 HT0 Hpre HC' E).
Qed.

Lemma run_JQ ops : forall n,
  JQ n -> N.of_nat (length (blocks n) + length ops) <= two64 -> base_ok -> base_t ->
  store_pre (blocks (run cfg genesis_addr team_key n ops)) -> JQ (run cfg genesis_addr team_key n ops).
Proof.
  induction ops as [|[b now] ops IH]; intros n HJ Hlen HB0 HT0 Hpre; cbn [run fold_left fst snd] in *; [exact HJ|].
  destruct (deliver cfg genesis_addr team_key n b now) as [[n1 out] amb] eqn:E. cbn [fst snd] in *.
  cbn [length] in Hlen. apply IH; [|apply deliver_len in E; lia|exact HB0|exact HT0|exact Hpre].
  apply (deliver_JQ n b now n1 out amb HJ ltac:(lia) HB0 HT0); [|exact E].
  apply (store_pre_mono cfg g _ _ (run_store_le cfg genesis_addr team_key ops n1)). exact Hpre.
Qed.


End Main.

Section Final.
Variable cfg : config.
Variable genesis_addr team_key : N.

(* the events of the main chain of a node: those of the genesis block, then those of the blocks filed under the heights
   1 .. top_h, in chain order (the lists Check/C17.v computes from a dump) *)
Definition main_lbs (g : block) (n : node) : list lblock := glb g :: lbs n (mchain n).

Theorem indexes_are_main_chain g n0 ops :
  cfg_ok_emission cfg = true ->
  node0 cfg genesis_addr g = Ok n0 -> b_height g = 0 -> b_cd g = b_diff g ->
  N.of_nat (length ops) < two64 - 1 ->
  let n := run cfg genesis_addr team_key n0 ops in
  store_pre cfg g (blocks n) ->
  tinv (cI (ldg n)) (intx (ldg n)) (chain_credits cfg genesis_addr (main_lbs g n)) /\
  tinv (cN (ldg n)) (outtx (ldg n)) (chain_signs (main_lbs g n)) /\
  hinv (txh (ldg n)) (chain_txhs (main_lbs g n)).
Proof.
  intros Hok Hn0 Hg0 Hcd Hlen n Hpre.
  assert (Hpre0 : store_pre cfg g (blocks n0)).
  { apply (store_pre_mono cfg g _ _ (run_store_le cfg genesis_addr team_key ops n0)). exact Hpre. }
  pose proof (genesis_base cfg genesis_addr Hok g (ldg n0) n0 Hn0 Hg0 eq_refl Hpre0) as HB0.
  pose proof (genesis_base_t cfg genesis_addr g (ldg n0) n0 Hn0 Hg0 eq_refl Hpre0) as HT0.
  assert (HJ0 : JQ cfg genesis_addr g (ldg n0) n0).
  { split; [eapply node0_CInv; eassumption|]. split; [eapply node0_inv; eassumption|].
    split; [eapply node0_HInv; eassumption|].
    unfold NQ, mchain.
    assert (Hth : top_h n0 = 0).
    { unfold node0 in Hn0. apply apply_block_node_eq in Hn0. destruct Hn0 as (l & ->). reflexivity. }
    rewrite Hth. cbn [N.to_nat chain_upto lbs map]. exact (QInv_nil _ _ _ _ _ _ _ HT0). }
  assert (Hl : length (blocks n0) = 1%nat).
  { unfold node0 in Hn0. apply apply_block_node_eq in Hn0. destruct Hn0 as (l & ->). reflexivity. }
  pose proof (run_JQ cfg genesis_addr team_key Hok g (ldg n0) ops n0 HJ0
                ltac:(rewrite Hl; unfold two64 in *; lia) HB0 HT0 Hpre) as (_ & _ & _ & _ & HTI).
  fold n in HTI. exact HTI.
Qed.

(* the premises on the transactions reduced by stateless validation, as in ledger_is_replay_validated *)
Lemma validated_store_pre g n0 ops :
  cfg_ok_feepos cfg = true ->
  node0 cfg genesis_addr g = Ok n0 -> b_height g = 0 -> b_cd g = b_diff g ->
  N.of_nat (length ops) < two64 - 1 ->
  let n := run cfg genesis_addr team_key n0 ops in
  Forall (tx_c cfg) (b_txs g) ->
  (forall h b, get_block n h = Some b -> Forall (fun t => wf_tx cfg t /\ ver_ok t = true) (b_txs b)) ->
  (forall bs, up (b_hash g) (blocks n) (b_hash g) bs ->
     NoDup (bkeys g ++ flat_map bkeys bs) /\ c0 g + bnouts bs < two64 /\ c0 g + bntx bs < two64) ->
  store_pre cfg g (blocks n).
Proof.
  intros Hfp H0 Hg0 Hcd Hlen n Hgen Htyped Hpaths.
  split; [|exact Hpaths].
  assert (HP0 : PVinv cfg team_key (b_hash g) n0).
  { unfold node0 in H0. apply apply_block_node_eq in H0. destruct H0 as (l & ->).
    intros h b. cbn [blocks set_ldg]. unfold nget. cbn [aget].
    destruct (N.eqb_spec h (b_hash g)); [intros _; left; assumption|discriminate]. }
  pose proof (run_PVinv cfg genesis_addr team_key (b_hash g) ops n0 HP0) as HP. fold n in HP.
  assert (Hgg : nget (blocks n) (b_hash g) = Some g).
  { apply (run_store_le cfg genesis_addr team_key ops n0).
    unfold node0 in H0. apply apply_block_node_eq in H0. destruct H0 as (l & ->).
    cbn [blocks set_ldg]. unfold nget. cbn [aget]. rewrite N.eqb_refl. reflexivity. }
  intros h b Hb. destruct (HP h b Hb) as [->|Hpv].
  - rewrite Hgg in Hb. injection Hb as <-. exact Hgen.
  - pose proof (prevalidate_txs_all cfg team_key _ _ Hpv) as Hall. pose proof (Htyped h b Hb) as Hty.
    rewrite Forall_forall in *. intros t Hin. destruct (Hty t Hin) as [Hwf Hver].
    exact (validated_tx_c cfg team_key t (b_height b) Hfp Hwf Hver (Hall t Hin)).
Qed.

(* the same under the premises of ledger_is_replay_validated *)
Theorem indexes_are_main_chain_validated g n0 ops :
  cfg_ok_emission cfg = true -> cfg_ok_feepos cfg = true ->
  node0 cfg genesis_addr g = Ok n0 -> b_height g = 0 -> b_cd g = b_diff g ->
  N.of_nat (length ops) < two64 - 1 ->
  let n := run cfg genesis_addr team_key n0 ops in
  Forall (tx_c cfg) (b_txs g) ->
  (forall h b, get_block n h = Some b -> Forall (fun t => wf_tx cfg t /\ ver_ok t = true) (b_txs b)) ->
  (forall bs, up (b_hash g) (blocks n) (b_hash g) bs ->
     NoDup (bkeys g ++ flat_map bkeys bs) /\ c0 g + bnouts bs < two64 /\ c0 g + bntx bs < two64) ->
  tinv (cI (ldg n)) (intx (ldg n)) (chain_credits cfg genesis_addr (main_lbs g n)) /\
  tinv (cN (ldg n)) (outtx (ldg n)) (chain_signs (main_lbs g n)) /\
  hinv (txh (ldg n)) (chain_txhs (main_lbs g n)).
Proof.
  intros Hok Hfp Hn0 Hg0 Hcd Hlen n Hgen Htyped Hpaths.
  apply (indexes_are_main_chain g n0 ops Hok Hn0 Hg0 Hcd Hlen).
  exact (validated_store_pre g n0 ops Hfp Hn0 Hg0 Hcd Hlen Hgen Htyped Hpaths).
Qed.

(* ---- the three statements of the property, spelled out ---- *)
(* the crediting / signing events of the main chain: genesis first, then the blocks of the height index in order *)
Definition main_credits (g : block) (n : node) : list (N * N) := chain_credits cfg genesis_addr (main_lbs g n).
Definition main_signs (g : block) (n : node) : list (N * N) := chain_signs (main_lbs g n).
(* the blocks of the main chain *)
Definition on_main (g : block) (n : node) (B : block) : Prop := B = g \/ In B (mchain n).

Lemma in_chain_txhs C b t : In b C -> In t (lb_txs b) -> In (tx_id t, lb_height b) (chain_txhs C).
Proof.
  intros Hb Ht. unfold chain_txhs. apply in_flat_map. exists b. split; [exact Hb|].
  unfold block_txhs, block_ids. rewrite map_map. apply in_map_iff. exists t. split; [reflexivity|exact Ht].
Qed.

Lemma chain_txhs_ids C id : In id (map fst (chain_txhs C)) -> exists b t, In b C /\ In t (lb_txs b) /\ tx_id t = id.
Proof.
  intros Hin. apply in_map_iff in Hin. destruct Hin as ([i h] & <- & Hin). unfold chain_txhs in Hin.
  apply in_flat_map in Hin. destruct Hin as (b & Hb & Hin). unfold block_txhs, block_ids in Hin. rewrite map_map in Hin.
  apply in_map_iff in Hin. destruct Hin as (t & [= <- <-] & Ht). exists b, t. repeat split; assumption.
Qed.

Lemma on_main_lbs g n B : on_main g n B -> exists b, In b (main_lbs g n) /\ lb_txs b = b_txs B /\ lb_height b = b_height B.
Proof.
  intros [->|Hin].
  - exists (glb g). split; [left; reflexivity|split; reflexivity].
  - exists (lb_of n B). split; [right; unfold lbs; apply in_map; exact Hin|split; reflexivity].
Qed.

Lemma main_lbs_on g n b : In b (main_lbs g n) -> exists B, on_main g n B /\ lb_txs b = b_txs B /\ lb_height b = b_height B.
Proof.
  intros [<-|Hin].
  - exists g. split; [left; reflexivity|split; reflexivity].
  - unfold lbs in Hin. apply in_map_iff in Hin. destruct Hin as (B & <- & HB). exists B. split; [right; exact HB|split; reflexivity].
Qed.

Section Statements.
Variables (g : block) (n0 : node) (ops : list (block * N)).
Hypothesis Hok : cfg_ok_emission cfg = true.
Hypothesis Hfp : cfg_ok_feepos cfg = true.
Hypothesis Hn0 : node0 cfg genesis_addr g = Ok n0.
Hypothesis Hg0 : b_height g = 0.
Hypothesis Hcd : b_cd g = b_diff g.
Hypothesis Hlen : N.of_nat (length ops) < two64 - 1.
Notation n := (run cfg genesis_addr team_key n0 ops).
Hypothesis Hgen : Forall (tx_c cfg) (b_txs g).
Hypothesis Htyped : forall h b, get_block n h = Some b -> Forall (fun t => wf_tx cfg t /\ ver_ok t = true) (b_txs b).
Hypothesis Hpaths : forall bs, up (b_hash g) (blocks n) (b_hash g) bs ->
     NoDup (bkeys g ++ flat_map bkeys bs) /\ c0 g + bnouts bs < two64 /\ c0 g + bntx bs < two64.

Lemma incoming_history_is_main_chain : forall a,
  let evs := evs_for a (main_credits g n) in
  inc (acct_at (ldg n) a) = N.of_nat (length evs) /\
  forall k, 1 <= k <= inc (acct_at (ldg n) a) -> pget (intx (ldg n)) (a, k) = Some (nth (N.to_nat (k - 1)) evs 0).
Proof.
  destruct (indexes_are_main_chain_validated g n0 ops Hok Hfp Hn0 Hg0 Hcd Hlen Hgen Htyped Hpaths) as (T & _ & _).
  intros a. exact (T a).
Qed.

Lemma outgoing_history_is_main_chain : forall a,
  let evs := evs_for a (main_signs g n) in
  nonce (acct_at (ldg n) a) = N.of_nat (length evs) /\
  forall k, 1 <= k <= nonce (acct_at (ldg n) a) -> pget (outtx (ldg n)) (a, k) = Some (nth (N.to_nat (k - 1)) evs 0).
Proof.
  destruct (indexes_are_main_chain_validated g n0 ops Hok Hfp Hn0 Hg0 Hcd Hlen Hgen Htyped Hpaths) as (_ & T & _).
  intros a. exact (T a).
Qed.

Lemma tx_heights_are_main_chain :
  (forall B t, on_main g n B -> In t (b_txs B) -> nget (txh (ldg n)) (tx_id t) = Some (b_height B)) /\
  (forall id, (forall B t, on_main g n B -> In t (b_txs B) -> tx_id t <> id) ->
     nget (txh (ldg n)) id = None \/ nget (txh (ldg n)) id = Some 0).
Proof.
  destruct (indexes_are_main_chain_validated g n0 ops Hok Hfp Hn0 Hg0 Hcd Hlen Hgen Htyped Hpaths) as (_ & _ & (T1 & T2)).
  split.
  - intros B t HB Ht. destruct (on_main_lbs g n B HB) as (b & Hb & Etx & Eh). rewrite <- Eh. apply T1.
    apply in_chain_txhs; [exact Hb|rewrite Etx; exact Ht].
  - intros id Hno. apply T2. intros Hin. destruct (chain_txhs_ids _ _ Hin) as (b & t & Hb & Ht & Eid).
    destruct (main_lbs_on g n b Hb) as (B & HB & Etx & _). apply (Hno B t HB); [rewrite <- Etx; exact Ht|exact Eid].
Qed.

(* the histories in the form Check/C17.v compares them: the entries 1 .. counter in order = the events in chain order *)
Lemma histories_as_served : forall a,
  map (fun i => pget (intx (ldg n)) (a, N.of_nat i)) (seq 1 (N.to_nat (inc (acct_at (ldg n) a)))) =
    map Some (evs_for a (main_credits g n)) /\
  map (fun i => pget (outtx (ldg n)) (a, N.of_nat i)) (seq 1 (N.to_nat (nonce (acct_at (ldg n) a)))) =
    map Some (evs_for a (main_signs g n)).
Proof.
  destruct (indexes_are_main_chain_validated g n0 ops Hok Hfp Hn0 Hg0 Hcd Hlen Hgen Htyped Hpaths) as (T1 & T2 & _).
  intros a. split; [exact (tinv_served _ _ _ a T1)|exact (tinv_served _ _ _ a T2)].
Qed.

End Statements.

End Final.
