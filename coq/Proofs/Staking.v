(* Property C06: the staking lottery is a weighted interval lookup; rewards need stake and are split exactly;
   staked coins leave a pool only by their owner and only after the unlock height. *)
From Virel Require Import Lib.Config Lib.U64 Lib.AMap Model.Ledger Proofs.AMapLemmas Proofs.Conservation.
Open Scope N_scope.

(* exact (unbounded) total of a delegate's funds *)
Definition tot (d : dlg) : N := fold_right (fun f acc => f_amt f + acc) 0 (d_funds d).
Fixpoint sum_tot (ds : list (N * dlg)) : N :=
  match ds with [] => 0 | (_, d) :: r => tot d + sum_tot r end.

Lemma total_amount_from_exact fs : forall t,
  t + fold_right (fun f acc => f_amt f + acc) 0 fs < two64 ->
  total_amount_from fs t = Ok (t + fold_right (fun f acc => f_amt f + acc) 0 fs).
Proof.
  induction fs as [|f fs IH]; intros t H; cbn in *.
  - f_equal. lia.
  - rewrite wadd_small by lia.
    destruct (N.ltb_spec (t + f_amt f) t); [lia|]. rewrite IH by lia. f_equal. lia.
Qed.

Lemma total_amount_exact d : tot d < two64 -> total_amount d = Ok (tot d).
Proof. intros H. unfold total_amount. rewrite total_amount_from_exact by (cbn; exact H). reflexivity. Qed.

Lemma sum_tot_app a b : sum_tot (a ++ b) = sum_tot a + sum_tot b.
Proof. induction a as [|[k d] a IH]; cbn; [reflexivity|]. rewrite IH. lia. Qed.

(* ---- the walk over the delegates ---- *)

(* the index falls into the interval of the delegate at position |pre|:  (P_prev, P_prev + total]  — the first
   delegate's interval also contains every index not above its total (in particular 0) *)
Lemma walk_hits pre : forall k d post idx seen,
  seen + sum_tot (pre ++ (k, d) :: post) < two64 ->
  (pre <> [] -> seen + sum_tot pre < idx) ->
  (forall p1 kd p2, pre = p1 ++ kd :: p2 -> seen + sum_tot p1 + tot (snd kd) < idx) ->
  idx <= seen + sum_tot pre + tot d ->
  walk_delegates (pre ++ (k, d) :: post) idx seen = Ok (Some d).
Proof.
  induction pre as [|[k0 d0] pre IH]; intros k d post idx seen Hb Hlo Hall Hhi; cbn [app walk_delegates].
  - cbn in Hb, Hhi. rewrite total_amount_exact by lia. cbn [bind].
    rewrite wadd_small by lia. destruct (N.ltb_spec (seen + tot d) seen); [lia|].
    destruct (N.leb_spec idx (seen + tot d)); [reflexivity|lia].
  - cbn in Hb. rewrite total_amount_exact by lia. cbn [bind].
    rewrite wadd_small by lia. destruct (N.ltb_spec (seen + tot d0) seen); [lia|].
    pose proof (Hall [] (k0, d0) pre eq_refl) as H0. cbn in H0.
    destruct (N.leb_spec idx (seen + tot d0)); [lia|].
    apply IH.
    + cbn. lia.
    + intros _. cbn in Hhi. destruct pre as [|x pre']; [cbn; lia|].
      pose proof (Hlo ltac:(discriminate)). cbn in H2. cbn. lia.
    + intros p1 kd p2 E. pose proof (Hall ((k0, d0) :: p1) kd p2 ltac:(cbn; rewrite E; reflexivity)) as H3.
      cbn in H3. lia.
    + cbn in Hhi. lia.
Qed.

(* conversely (stated for the staking lottery, where the index is below the staked total) *)
Lemma walk_spec ds : forall idx seen,
  seen + sum_tot ds < two64 ->
  match walk_delegates ds idx seen with
  | Ok (Some d) => exists pre k post, ds = pre ++ (k, d) :: post /\
                     idx <= seen + sum_tot pre + tot d /\
                     (forall p1 kd p2, pre = p1 ++ kd :: p2 -> seen + sum_tot p1 + tot (snd kd) < idx)
  | Ok None => ds = [] \/ seen + sum_tot ds < idx
  | _ => False
  end.
Proof.
  induction ds as [|[k d] ds IH]; intros idx seen Hb; cbn [walk_delegates].
  - left. reflexivity.
  - cbn in Hb. rewrite total_amount_exact by lia. cbn [bind].
    rewrite wadd_small by lia. destruct (N.ltb_spec (seen + tot d) seen); [lia|].
    destruct (N.leb_spec idx (seen + tot d)) as [Hle|Hgt].
    + exists [], k, ds. split; [reflexivity|]. cbn. split; [lia|].
      intros p1 kd p2 E. destruct p1; discriminate.
    + specialize (IH idx (seen + tot d) ltac:(lia)).
      destruct (walk_delegates ds idx (seen + tot d)) as [[d'|]|c|c]; [| |exact IH|exact IH].
      * destruct IH as (pre & k' & post & -> & Hhi & Hall).
        exists ((k, d) :: pre), k', post. split; [reflexivity|]. cbn. split; [lia|].
        intros p1 kd p2 E. destruct p1 as [|x p1]; cbn in E.
        -- injection E as <- <-. cbn. lia.
        -- injection E as <- E. specialize (Hall p1 kd p2 E). cbn. lia.
      * right. cbn. destruct IH as [->|IH]; cbn; lia.
Qed.

(* ---- GetStaker ---- *)
Section Staker.

(* the lottery never fails and always selects a pool, when the staked total is the sum over the pools *)
Lemma get_staker_selects l hv :
  staked l = sum_tot (dlgs l) -> 0 < staked l -> staked l < two64 ->
  exists pre k d post,
    dlgs l = pre ++ (k, d) :: post /\ get_staker l hv = Ok (d_id d) /\
    let idx := hv mod staked l in
    idx <= sum_tot pre + tot d /\
    (forall p1 kd p2, pre = p1 ++ kd :: p2 -> sum_tot p1 + tot (snd kd) < idx).
Proof.
  intros Hs Hpos H64. unfold get_staker.
  destruct (N.eqb_spec (staked l) 0) as [E|_]; [lia|].
  assert (Hidx : hv mod staked l < staked l) by (apply N.mod_lt; lia).
  pose proof (walk_spec (dlgs l) (hv mod staked l) 0 ltac:(lia)) as W.
  destruct (walk_delegates (dlgs l) (hv mod staked l) 0) as [[d|]|c|c]; [| |contradiction|contradiction].
  - destruct W as (pre & k & post & Eds & Hhi & Hall). exists pre, k, d, post. cbn [bind].
    split; [exact Eds|]. split; [reflexivity|]. cbn zeta. split; [lia|]. intros p1 kd p2 E. specialize (Hall p1 kd p2 E). lia.
  - exfalso. destruct W as [W|W]; [rewrite W in Hs; cbn in Hs; lia|lia].
Qed.

End Staker.

(* ---- rewards ---- *)
(* a staker reward is only ever paid to a registered pool with funds and a non-zero stake *)
Lemma pos_reward_needs_stake l bh o l' :
  apply_pos_reward l bh o = Ok l' ->
  exists d t, get_dlg l (o_extra o) = Some d /\ d_funds d <> [] /\ total_amount d = Ok t /\ t <> 0.
Proof.
  unfold apply_pos_reward. intros H.
  guard_inv H. opt_inv H. guard_inv H. bind_inv H. guard_inv H.
  exists x, a. split; [reflexivity|]. split.
  - destruct (d_funds x); [discriminate|discriminate].
  - split; [first [reflexivity|assumption]|]. apply Bool.negb_true_iff in G1. apply N.eqb_neq in G1. exact G1.
Qed.

(* the share added to each fund, as the code computes it *)
Definition share (f : fund) (reward total : N) : N := (f_amt f * reward / 100 * 99 / total) mod two64.

Lemma pos_distribute_spec fs : forall reward total added r,
  pos_distribute fs reward total added = Ok r ->
  fst r = map (fun f => mkfund (f_owner f) (wadd (f_amt f) (share f reward total)) (f_unlock f)) fs /\
  snd r = fold_left (fun a f => wadd a (share f reward total)) fs added /\
  Forall (fun f => f_amt f <= wadd (f_amt f) (share f reward total)) fs.
Proof.
  induction fs as [|f fs IH]; intros reward total added r H; cbn in H.
  - injection H as <-. cbn. repeat split. constructor.
  - bind_inv H. bind_inv H. guard_inv H. bind_inv H. injection H as <-.
    unfold mul64 in E, E0.
    destruct (f_amt f * reward <? two128); [|discriminate]. injection E as <-.
    destruct (f_amt f * reward / 100 * 99 <? two128); [|discriminate]. injection E0 as <-.
    destruct (IH _ _ _ _ E1) as (I1 & I2 & I3). cbn [fst snd map fold_left].
    split; [rewrite I1; reflexivity|]. split; [rewrite I2; reflexivity|].
    constructor; [|exact I3]. apply Bool.negb_true_iff in G. apply N.ltb_ge in G. exact G.
Qed.

Lemma nget_dins_same m id d : nget (dins m id d) id = Some d.
Proof.
  unfold nget. induction m as [|[id' d'] m IH]; cbn [dins aget].
  - rewrite N.eqb_refl. reflexivity.
  - destruct (N.eqb_spec id id') as [E|E]; cbn [aget].
    + rewrite N.eqb_refl. reflexivity.
    + destruct (dbkey id <? dbkey id'); cbn [aget].
      * rewrite N.eqb_refl. reflexivity.
      * destruct (N.eqb_spec id id'); [contradiction|]. exact IH.
Qed.

(* the reward is distributed exactly: the pool's recorded total grows by the reward (checked by the code itself,
   so any rounding in the per-fund shares is absorbed by the owner's fund), and so does the network-wide staked total *)
Lemma pos_reward_exact l bh o l' :
  apply_pos_reward l bh o = Ok l' ->
  exists d d' t t',
    get_dlg l (o_extra o) = Some d /\ total_amount d = Ok t /\
    get_dlg l' (d_id d) = Some d' /\ total_amount d' = Ok t' /\
    t' = wadd t (o_amt o) /\ staked l' = wadd (staked l) (o_amt o) /\
    d_id d' = d_id d /\ d_owner d' = d_owner d.
Proof.
  unfold apply_pos_reward. intros H.
  guard_inv H. opt_inv H. guard_inv H. bind_inv H. guard_inv H. bind_inv H.
  destruct a0 as [funds1 added]. guard_inv H. bind_inv H. bind_inv H. guard_inv H. bind_inv H. injection H as <-.
  match goal with Hg : (_ =? wadd a (o_amt o)) = true |- _ => apply N.eqb_eq in Hg; rename Hg into Htot end.
  match goal with Hs : stats_staked _ _ = Ok _ |- _ =>
    unfold stats_staked in Hs; cbn [staked set_dhist] in Hs;
    destruct (wadd (staked l) (o_amt o) <? staked l); [discriminate Hs|]; injection Hs as <- end.
  match goal with Ht : total_amount (mkdlg _ _ _ _) = Ok ?t2 |- _ => eexists x, _, a, t2 end. split; [first [reflexivity|assumption]|]. split; [first [reflexivity|assumption]|].
  split; [unfold get_dlg, put_dlg; cbn [dlgs set_dlgs set_staked set_dhist d_id]; apply nget_dins_same|].
  split; [eassumption|]. split; [exact Htot|]. repeat split.
Qed.

(* ---- locks and ownership ---- *)
(* an unstake (not the undo of a stake) takes coins only from the signer's own fund, only once the tip height has
   reached the fund's unlock height, and never more than the fund holds *)
Lemma unstake_respects_lock l amt id signer top_h txid pu l' :
  apply_unstake l amt id signer top_h txid false pu = Ok l' ->
  exists d f, get_dlg l id = Some d /\ find_fund (d_funds d) signer = Some f /\
    f_owner f = signer /\ f_unlock f <= top_h /\ amt <= f_amt f.
Proof.
  unfold apply_unstake. intros H.
  opt_inv H. opt_inv H. guard_inv H. guard_inv H.
  exists x, x0. split; [first [reflexivity|assumption]|]. split; [first [reflexivity|assumption]|].
  cbn [orb] in G. apply Bool.negb_true_iff in G. apply N.ltb_ge in G.
  apply Bool.negb_true_iff in G0. apply N.ltb_ge in G0.
  split; [|split; assumption].
  clear - E0. induction (d_funds x) as [|f fs IH]; cbn in E0; [discriminate|].
  destruct (N.eqb_spec (f_owner f) signer) as [Ef|_]; [injection E0 as <-; exact Ef|apply IH; exact E0].
Qed.

Lemma find_fund_upd fs owner nf : f_owner nf = owner ->
  (exists f, find_fund fs owner = Some f) -> find_fund (upd_fund fs owner (Some nf)) owner = Some nf.
Proof.
  intros Hn [f Hf]. induction fs as [|g fs IH]; cbn in *; [discriminate|].
  destruct (N.eqb_spec (f_owner g) owner) as [E|E]; cbn.
  - rewrite Hn, N.eqb_refl. reflexivity.
  - destruct (N.eqb_spec (f_owner g) owner); [contradiction|]. apply IH. exact Hf.
Qed.

Lemma find_fund_app_new fs owner nf : f_owner nf = owner -> find_fund fs owner = None ->
  find_fund (fs ++ [nf]) owner = Some nf.
Proof.
  intros Hn Hf. induction fs as [|g fs IH]; cbn in *.
  - rewrite Hn, N.eqb_refl. reflexivity.
  - destruct (f_owner g =? owner); [discriminate|]. apply IH. exact Hf.
Qed.

(* a stake (not the undo of an unstake) locks the signer's fund until the tip height plus the lock time *)
Lemma stake_sets_lock cfg l amt id pu signer top_h txid l' :
  apply_stake cfg l amt id pu signer top_h txid false = Ok l' ->
  exists d d', get_dlg l id = Some d /\ get_dlg l' (d_id d) = Some d' /\
    exists f, find_fund (d_funds d') signer = Some f /\ f_unlock f = wadd top_h (unlock_time cfg).
Proof.
  unfold apply_stake. intros H.
  opt_inv H. bind_inv H. bind_inv H. injection H as <-.
  exists x. eexists. split; [first [reflexivity|assumption]|].
  split; [unfold get_dlg, put_dlg; cbn [dlgs set_dlgs d_id]; apply nget_dins_same|].
  cbn [d_funds].
  destruct (find_fund (d_funds x) signer) as [f|] eqn:Ef.
  - guard_inv E0. opt_inv E0. injection E0 as <-.
    eexists. split; [apply find_fund_upd; [reflexivity|exists f; exact Ef]|reflexivity].
  - injection E0 as <-. eexists. split; [apply find_fund_app_new; [reflexivity|exact Ef]|reflexivity].
Qed.

(* ---- staked blocks (checkBlock) ---- *)
From Virel Require Import Model.Node.

Lemma staked_block_signed cfg n b prev :
  check_block cfg n b prev = Ok tt ->
  (0 <? b_version b) = true -> (minidag_ancestors cfg <? b_height b) = true ->
  exists old, get_block n (staked_hash b) = Some old /\ b_next_delegate_id old = b_delegate_id b /\
    (b_sig_blank b = false ->
       staked (ldg n) <> 0 /\
       exists d, get_dlg (ldg n) (b_delegate_id b) = Some d /\ b_sig_key b = d_owner d /\ b_sig_key b <> 0 /\
                 b_sig_msg b = staked_hash b).
Proof.
  unfold check_block. intros H Hv Hh.
  bind_inv H. guard_inv H. guard_inv H. guard_inv H. bind_inv H. bind_inv H. bind_inv H. guard_inv H.
  rewrite Hv, Hh in H. cbn [andb] in H.
  opt_inv H. guard_inv H.
  match goal with Hg : (b_next_delegate_id _ =? b_delegate_id b) = true |- _ => apply N.eqb_eq in Hg; rename Hg into Hent end.
  eexists. split; [first [reflexivity|eassumption]|]. split; [exact Hent|].
  intros Hb. rewrite Hb in H. cbn [negb] in H.
  guard_inv H. opt_inv H.
  match goal with Hg : negb (staked (ldg n) =? 0) = true |- _ =>
    apply Bool.negb_true_iff in Hg; apply N.eqb_neq in Hg; rename Hg into Hst end.
  split; [exact Hst|].
  unfold guard in H.
  destruct ((b_sig_key b =? d_owner _) && negb (b_sig_key b =? 0) && (b_sig_msg b =? staked_hash b)) eqn:Es; [|discriminate].
  apply Bool.andb_true_iff in Es. destruct Es as [Es Em]. apply Bool.andb_true_iff in Es. destruct Es as [Ek Ez].
  eexists. split; [first [reflexivity|eassumption]|].
  apply N.eqb_eq in Ek, Em. apply Bool.negb_true_iff in Ez. apply N.eqb_neq in Ez. repeat split; assumption.
Qed.

(* weight in fork choice: full when staked, half otherwise (version-1 blocks) *)
Lemma contribution_weight b c :
  contribution b = Ok c ->
  let full := b_diff b + b_diff b * (wmul 2 (N.of_nat (length (b_sides b)))) / 3 in
  c = if (0 <? b_version b) && b_sig_blank b then full / 2 else full.
Proof.
  unfold contribution, mul64, add128. intros H.
  destruct (_ <? two128); [|discriminate]. cbn [bind] in H.
  destruct (_ <? two128); [|discriminate]. cbn [bind] in H.
  destruct ((0 <? b_version b) && b_sig_blank b); injection H as <-; reflexivity.
Qed.
