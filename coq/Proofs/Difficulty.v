(* Proofs about the difficulty retarget (property C08). *)
From Virel Require Import Lib.Config Lib.U64 Lib.U128 Model.Difficulty Proofs.U128.
Open Scope N_scope.

Definition two28 : N := 268435456.
Definition two100 : N := 1267650600228229401496703205376.

(* Boolean side condition on the configuration; discharged by vm_compute at every generated config.
   N*T <= 2^28 makes 2^100 * N*T fit 128 bits; it also implies that N*T, (N-1)*T and maxDeviation = 2*N*T are
   uint64 / int64 constants (otherwise the Go code would not compile). *)
Definition cfg_ok_difficulty (cfg : config) : bool :=
  (2 <=? difficulty_n cfg) && (1 <=? target_block_time cfg) &&
  (1 <=? min_difficulty cfg) && (min_difficulty cfg <? two64) &&
  (difficulty_n cfg * (target_block_time cfg * 1000) <=? two28) &&
  (genesis_timestamp cfg <? two64).

(* the clamp "if deltaTime < 100 { deltaTime = 100 }" on the wrapped subtraction *)
Definition delta0 (pts gts : N) : N := if wsub pts gts <? 100 then 100 else wsub pts gts.

Section Proofs.
Variable cfg : config.
Hypothesis Hok : cfg_ok_difficulty cfg = true.

Notation Nn := (difficulty_n cfg).
Notation T := (target_block_time cfg * 1000).
Notation MIN := (min_difficulty cfg).
Notation G := (genesis_timestamp cfg).
Notation C := ((difficulty_n cfg - 1) * (target_block_time cfg * 1000)).

Lemma ok_facts : 2 <= Nn /\ 1 <= target_block_time cfg /\ 1 <= MIN /\ MIN < two64 /\ Nn * T <= two28 /\ G < two64.
Proof.
  unfold cfg_ok_difficulty in Hok.
  rewrite !Bool.andb_true_iff, !N.ltb_lt, !N.leb_le in Hok. tauto.
Qed.

Lemma C_facts : 0 < T /\ 0 < C /\ C < two28 /\ C + T = Nn * T /\ Nn * T < two64.
Proof.
  destruct ok_facts as (HN & HT & _ & _ & HNT & _). unfold two28, two64 in *. nia.
Qed.

(* ---- difficultyEMA ---- *)

Lemma ema_spec st d : d < two128 ->
  difficulty_ema cfg st d =
    if d * (Nn * T) <? two128 then
      (if wadd C st =? 0 then Panic else Ok (d * (Nn * T) / wadd C st))
    else Panic.
Proof.
  destruct C_facts as (HT & HC & HC28 & HCT & HNT).
  intros Hd. unfold difficulty_ema, target_ms.
  rewrite mul64_spec by assumption.
  destruct (N.ltb_spec (d * (Nn * T)) two128) as [L|L]; cbn [bind]; [|reflexivity].
  replace (Nn * T - T) with C by lia.
  rewrite div64_spec by (try assumption; apply wrap_lt). reflexivity.
Qed.

(* exact value for solve times that do not wrap the denominator *)
Lemma ema_exact st d : d * (Nn * T) < two128 -> C + st < two64 -> 1 <= C + st ->
  difficulty_ema cfg st d = Ok (spec_ema cfg st d).
Proof.
  destruct C_facts as (HT & HC & HC28 & HCT & HNT).
  intros Hd Hst Hpos.
  assert (Hd128 : d < two128) by nia.
  rewrite ema_spec by exact Hd128.
  destruct (N.ltb_spec (d * (Nn * T)) two128) as [L|L]; [|lia].
  rewrite wadd_small by exact Hst.
  destruct (N.eqb_spec (C + st) 0) as [Z|Z]; [lia|].
  unfold spec_ema. rewrite N.mul_assoc. reflexivity.
Qed.

Lemma ema_panic_overflow st d : d < two128 -> two128 <= d * (Nn * T) -> difficulty_ema cfg st d = Panic.
Proof.
  intros Hd H. rewrite ema_spec by exact Hd.
  destruct (N.ltb_spec (d * (Nn * T)) two128); [lia|reflexivity].
Qed.

(* ---- GetNextDifficulty ---- *)

Lemma clamp_eq nd :
  match cmp64 nd MIN with CLt => from64 MIN | _ => nd end = N.max MIN nd.
Proof.
  destruct ok_facts as (_ & _ & _ & Hm & _).
  rewrite cmp64_spec by exact Hm. rewrite from64_eq.
  destruct (N.compare_spec nd MIN); lia.
Qed.

Lemma nd_unfold h pts d gts : 2 <= h ->
  next_difficulty cfg h pts d gts =
    bind (difficulty_ema cfg (lttc_adjust cfg h pts (delta0 pts gts)) d) (fun nd => Ok (N.max MIN nd)).
Proof.
  intros Hh. unfold next_difficulty.
  destruct (N.ltb_spec h 2); [lia|]. fold (delta0 pts gts).
  destruct (difficulty_ema cfg _ d); cbn [bind]; [|reflexivity].
  rewrite clamp_eq. reflexivity.
Qed.

Lemma nd_low h pts d gts : h < 2 -> next_difficulty cfg h pts d gts = Ok MIN.
Proof.
  intros Hh. unfold next_difficulty. destruct (N.ltb_spec h 2); [|lia]. rewrite from64_eq. reflexivity.
Qed.

(* never below the minimum, never zero: for ALL inputs *)
Lemma nd_ge_min h pts d gts r : next_difficulty cfg h pts d gts = Ok r -> MIN <= r /\ r <> 0.
Proof.
  destruct ok_facts as (_ & _ & Hm1 & _).
  intros H. destruct (N.lt_ge_cases h 2) as [Hh|Hh].
  - rewrite nd_low in H by exact Hh. injection H as <-. lia.
  - rewrite nd_unfold in H by exact Hh.
    destruct (difficulty_ema cfg _ d); cbn [bind] in H; [|discriminate].
    injection H as <-. lia.
Qed.

Lemma delta0_bounds pts gts : 100 <= delta0 pts gts /\ delta0 pts gts < two64.
Proof.
  unfold delta0. pose proof (wrap_lt (pts + two64 - gts mod two64)) as Hw. fold (wsub pts gts) in Hw.
  destruct (N.ltb_spec (wsub pts gts) 100); unfold two64 in *; lia.
Qed.

Lemma delta0_small pts gts : gts <= pts -> pts < two64 -> delta0 pts gts = N.max 100 (pts - gts).
Proof.
  intros H1 H2. unfold delta0. rewrite wsub_small by assumption.
  destruct (N.ltb_spec (pts - gts) 100); lia.
Qed.

(* the three possible values of the adjusted solve time *)
Lemma lttc_cases h pts dl :
  lttc_adjust cfg h pts dl = dl \/ lttc_adjust cfg h pts dl = wmul dl 3 / 2 \/ lttc_adjust cfg h pts dl = wmul dl 2 / 3.
Proof.
  unfold lttc_adjust. destruct (G =? 0); [tauto|].
  destruct (Z.ltb _ _); [tauto|]. destruct (Z.ltb _ _); tauto.
Qed.

(* when it is scaled, the adjusted solve time is below 2^63, so the denominator neither wraps nor vanishes *)
Lemma den_adjusted x : x < two64 -> wadd C (x / 2) = C + x / 2 /\ wadd C (x / 3) = C + x / 3.
Proof.
  destruct C_facts as (HT & HC & HC28 & _).
  intros Hx. split; apply wadd_small; unfold two28, two64 in *; lia.
Qed.

(* exact characterisation of the panics of the model: the 128-bit product overflows, or the (wrapped) denominator is 0 *)
Lemma nd_panic_iff h pts d gts : 2 <= h -> d < two128 ->
  (next_difficulty cfg h pts d gts = Panic <->
   two128 <= d * (Nn * T) \/ wadd C (lttc_adjust cfg h pts (delta0 pts gts)) = 0).
Proof.
  intros Hh Hd. rewrite nd_unfold by exact Hh. rewrite ema_spec by exact Hd.
  destruct (N.ltb_spec (d * (Nn * T)) two128) as [L|L].
  - destruct (N.eqb_spec (wadd C (lttc_adjust cfg h pts (delta0 pts gts))) 0) as [Z|Z]; cbn [bind].
    + split; [intros _; right; exact Z|reflexivity].
    + split; [discriminate|]. intros [H|H]; [lia|contradiction].
  - cbn [bind]. split; [intros _; left; exact L|reflexivity].
Qed.

Lemma den_nonzero h pts gts :
  delta0 pts gts + C <> two64 -> wadd C (lttc_adjust cfg h pts (delta0 pts gts)) <> 0.
Proof.
  destruct C_facts as (HT & HC & HC28 & _).
  intros Hne. destruct (delta0_bounds pts gts) as [Hlo Hhi].
  destruct (lttc_cases h pts (delta0 pts gts)) as [E|[E|E]]; rewrite E.
  - unfold wadd, wrap. revert HC HC28 Hne Hlo Hhi. generalize C (delta0 pts gts). intros c x HC HC28 Hne Hlo Hhi.
    unfold two28, two64 in *. lia.
  - destruct (den_adjusted (wmul (delta0 pts gts) 3) (wrap_lt _)) as [-> _]. lia.
  - destruct (den_adjusted (wmul (delta0 pts gts) 2) (wrap_lt _)) as [_ ->]. lia.
Qed.

(* no panic: the product fits 128 bits and the unscaled denominator is not exactly 2^64 *)
Lemma nd_no_panic h pts d gts :
  d * (Nn * T) < two128 -> delta0 pts gts + C <> two64 ->
  exists r, next_difficulty cfg h pts d gts = Ok r.
Proof.
  destruct C_facts as (HT & HC & HC28 & HCT & HNT).
  intros Hd Hne. destruct (N.lt_ge_cases h 2) as [Hh|Hh].
  - exists MIN. apply nd_low. exact Hh.
  - assert (Hd128 : d < two128) by nia.
    destruct (next_difficulty cfg h pts d gts) eqn:E; [eexists; reflexivity|].
    exfalso. apply (nd_panic_iff h pts d gts Hh Hd128) in E. destruct E as [E|E]; [lia|].
    revert E. apply den_nonzero. exact Hne.
Qed.

(* the stated domain: difficulties up to 2^100, non-decreasing timestamps below 2^63 ms *)
Lemma nd_no_panic_domain h pts d gts :
  d <= two100 -> gts <= pts -> pts < two63 ->
  exists r, next_difficulty cfg h pts d gts = Ok r.
Proof.
  destruct ok_facts as (_ & _ & _ & _ & HNT & _).
  destruct C_facts as (HT & HC & HC28 & _).
  intros Hd Hts Hp. apply nd_no_panic.
  - unfold two100, two28, two128 in *. nia.
  - rewrite delta0_small by (unfold two63, two64 in *; lia). unfold two28, two63, two64 in *. lia.
Qed.

(* outside: at and above the Mul64 overflow edge every call panics *)
Lemma nd_panic_overflow h pts d gts : 2 <= h -> d < two128 -> two128 <= d * (Nn * T) ->
  next_difficulty cfg h pts d gts = Panic.
Proof.
  intros Hh Hd H. apply nd_panic_iff; [assumption..|]. left. exact H.
Qed.

(* ---- exactness ---- *)

Lemma to_int64_small x : x < two63 -> to_int64 x = Z.of_N x.
Proof. intros H. unfold to_int64. destruct (N.ltb_spec x two63); [reflexivity|lia]. Qed.

Lemma wrap_int64_small z : (- Z.of_N two63 <= z < Z.of_N two63)%Z -> wrap_int64 z = z.
Proof.
  intros H. unfold wrap_int64. rewrite Z.mod_small; [lia|]. unfold two63, two64 in *. lia.
Qed.

Lemma lttc_exact h pts gts :
  gts <= pts -> pts < two63 -> (pts - gts) * 3 < two64 -> h * T + G < two63 ->
  lttc_adjust cfg h pts (delta0 pts gts) = spec_solve_time cfg h pts gts.
Proof.
  intros Hts Hp H3 Hh.
  assert (Hp64 : pts < two64) by (unfold two63, two64 in *; lia).
  rewrite delta0_small by assumption.
  unfold lttc_adjust, spec_solve_time, max_deviation.
  destruct (G =? 0); [reflexivity|].
  assert (Hexp : wadd (wmul (wmul h (target_block_time cfg)) 1000) G = h * T + G).
  { assert (Hm : h * target_block_time cfg * 1000 < two64) by (unfold two63, two64 in *; lia).
    rewrite (wmul_small h) by (unfold two64 in *; nia).
    rewrite wmul_small by exact Hm.
    rewrite wadd_small by (unfold two63, two64 in *; lia). lia. }
  rewrite Hexp. rewrite !to_int64_small by assumption.
  rewrite wrap_int64_small by (unfold two63 in *; lia).
  assert (H100 : N.max 100 (pts - gts) * 3 < two64) by (unfold two64 in *; lia).
  rewrite wmul_small by exact H100.
  rewrite wmul_small by lia.
  replace (target_block_time cfg * 1000 * 2 * Nn) with (T * 2 * Nn) by reflexivity.
  reflexivity.
Qed.

Lemma spec_solve_time_bounds h pts gts :
  66 <= spec_solve_time cfg h pts gts /\ spec_solve_time cfg h pts gts <= N.max 100 (pts - gts) * 3 / 2.
Proof.
  unfold spec_solve_time. set (st := N.max 100 (pts - gts)).
  assert (H100 : 100 <= st) by (unfold st; lia).
  destruct (G =? 0); [lia|].
  destruct (Z.ltb _ _); [lia|]. destruct (Z.ltb _ _); lia.
Qed.

(* agrees with exact rational arithmetic rounded down *)
Lemma nd_exact h pts d gts :
  d * (Nn * T) < two128 -> gts <= pts -> pts < two63 -> (pts - gts) * 3 < two64 -> h * T + G < two63 ->
  next_difficulty cfg h pts d gts = Ok (spec_next cfg h pts d gts).
Proof.
  destruct C_facts as (HT & HC & HC28 & HCT & HNT).
  intros Hd Hts Hp H3 Hh. unfold spec_next.
  destruct (N.ltb_spec h 2) as [Hlow|Hhi].
  - apply nd_low. exact Hlow.
  - rewrite nd_unfold by exact Hhi. rewrite lttc_exact by assumption.
    destruct (spec_solve_time_bounds h pts gts) as [B1 B2].
    assert (B3 : N.max 100 (pts - gts) * 3 / 2 < two63) by (unfold two63, two64 in *; lia).
    rewrite ema_exact; [reflexivity|exact Hd| |lia].
    unfold two28, two63, two64 in *. lia.
Qed.

(* ---- rise bound ---- *)

Lemma div_rise X den : 0 < C -> C <= den -> X / den * C <= X.
Proof.
  intros HC Hden.
  assert (Hd : den * (X / den) <= X) by (apply N.mul_div_le; lia).
  nia.
Qed.

(* the denominator is at least (N-1)*T as soon as the unscaled denominator does not wrap *)
Lemma den_ge_C h pts gts : delta0 pts gts + C < two64 ->
  C <= wadd C (lttc_adjust cfg h pts (delta0 pts gts)).
Proof.
  destruct C_facts as (HT & HC & HC28 & _).
  intros Hlt.
  destruct (lttc_cases h pts (delta0 pts gts)) as [E|[E|E]]; rewrite E.
  - rewrite wadd_small by lia. lia.
  - destruct (den_adjusted (wmul (delta0 pts gts) 3) (wrap_lt _)) as [-> _]. lia.
  - destruct (den_adjusted (wmul (delta0 pts gts) 2) (wrap_lt _)) as [_ ->]. lia.
Qed.

Lemma nd_rise_bound h pts d gts r :
  MIN <= d -> d < two128 -> delta0 pts gts + C < two64 ->
  next_difficulty cfg h pts d gts = Ok r -> r * (Nn - 1) <= d * Nn.
Proof.
  destruct ok_facts as (HN & _).
  destruct C_facts as (HT & HC & HC28 & HCT & HNT).
  intros Hmin Hd Hden H.
  destruct (N.lt_ge_cases h 2) as [Hh|Hh].
  - rewrite nd_low in H by exact Hh. injection H as <-. nia.
  - rewrite nd_unfold in H by exact Hh. rewrite ema_spec in H by exact Hd.
    destruct (N.ltb_spec (d * (Nn * T)) two128) as [L|L]; [|discriminate].
    pose proof (den_ge_C h pts gts Hden) as Hge.
    revert H Hge. generalize (wadd C (lttc_adjust cfg h pts (delta0 pts gts))). intros den H Hge.
    destruct (N.eqb_spec den 0) as [Z|Z]; [discriminate|]. cbn [bind] in H. injection H as <-.
    pose proof (div_rise (d * (Nn * T)) den HC Hge) as Hr.
    revert Hr. generalize (d * (Nn * T) / den). intros q Hr.
    assert (Hq : q * (Nn - 1) <= d * Nn) by nia.
    destruct (N.max_spec MIN q) as [[_ ->]|[_ ->]]; [exact Hq|nia].
Qed.

Lemma nd_rise_bound_domain h pts d gts r :
  MIN <= d -> d < two128 -> gts <= pts -> pts < two63 ->
  next_difficulty cfg h pts d gts = Ok r -> r * (Nn - 1) <= d * Nn.
Proof.
  destruct C_facts as (HT & HC & HC28 & _).
  intros Hmin Hd Hts Hp. apply nd_rise_bound; try assumption.
  rewrite delta0_small by (unfold two63, two64 in *; lia).
  unfold two28, two63, two64 in *. lia.
Qed.

(* ---- antitone in the parent timestamp ---- *)

Lemma spec_solve_time_mono h pts pts' gts : gts <= pts -> pts <= pts' ->
  spec_solve_time cfg h pts gts <= spec_solve_time cfg h pts' gts.
Proof.
  intros Hts Hpp. unfold spec_solve_time.
  assert (Hst : N.max 100 (pts - gts) <= N.max 100 (pts' - gts)) by lia.
  revert Hst. generalize (N.max 100 (pts - gts)) (N.max 100 (pts' - gts)). intros a b Hab.
  destruct (G =? 0); [exact Hab|].
  set (e := Z.of_N (h * T + G)). set (m := Z.of_N (T * 2 * Nn)).
  assert (Hz : (Z.of_N pts - e <= Z.of_N pts' - e)%Z) by lia.
  destruct (Z.ltb_spec m (Z.of_N pts - e)); destruct (Z.ltb_spec m (Z.of_N pts' - e));
  destruct (Z.ltb_spec (Z.of_N pts - e) (- m)); destruct (Z.ltb_spec (Z.of_N pts' - e) (- m)); lia.
Qed.

Lemma spec_ema_antitone st st' d : st <= st' -> 1 <= C + st -> spec_ema cfg st' d <= spec_ema cfg st d.
Proof.
  intros H Hpos. unfold spec_ema. apply N.div_le_compat_l. lia.
Qed.

Lemma spec_next_antitone h pts pts' d gts : gts <= pts -> pts <= pts' ->
  spec_next cfg h pts' d gts <= spec_next cfg h pts d gts.
Proof.
  intros Hts Hpp. unfold spec_next. destruct (h <? 2); [lia|].
  pose proof (spec_solve_time_mono h pts pts' gts Hts Hpp) as Hm.
  destruct (spec_solve_time_bounds h pts gts) as [B _].
  assert (Hpos : 1 <= C + spec_solve_time cfg h pts gts).
  { generalize C. intros c. lia. }
  pose proof (spec_ema_antitone _ _ d Hm Hpos). lia.
Qed.

Lemma nd_antitone h pts pts' d gts r r' :
  d * (Nn * T) < two128 -> gts <= pts -> pts <= pts' -> pts' < two63 -> (pts' - gts) * 3 < two64 -> h * T + G < two63 ->
  next_difficulty cfg h pts d gts = Ok r -> next_difficulty cfg h pts' d gts = Ok r' -> r' <= r.
Proof.
  intros Hd Hts Hpp Hp H3 Hh E E'.
  rewrite nd_exact in E by (try assumption; lia).
  rewrite nd_exact in E' by (try assumption; lia).
  injection E as <-. injection E' as <-. apply spec_next_antitone; assumption.
Qed.

(* ---- the hypotheses on the timestamps are needed: with a DECREASING timestamp (excluded by the protocol rule
        checked in checkBlock) the uint64 subtraction wraps, and the denominator can wrap to 0 or to 1 ---- *)

Lemma lttc_on_schedule dl : 2 * T + G < two63 -> lttc_adjust cfg 2 (2 * T + G) dl = dl.
Proof.
  destruct ok_facts as (HN & HT1 & _). destruct C_facts as (HT & _).
  intros Hb. unfold lttc_adjust, max_deviation. destruct (G =? 0); [reflexivity|].
  assert (Hexp : wadd (wmul (wmul 2 (target_block_time cfg)) 1000) G = 2 * T + G).
  { rewrite (wmul_small 2) by (unfold two63, two64 in *; lia).
    rewrite wmul_small by (unfold two63, two64 in *; lia).
    rewrite wadd_small by (unfold two63, two64 in *; lia). lia. }
  rewrite Hexp. rewrite to_int64_small by exact Hb. rewrite Z.sub_diag.
  rewrite wrap_int64_small by (unfold two63; lia).
  destruct (Z.ltb_spec (Z.of_N (target_block_time cfg * 1000 * 2 * Nn)) 0); [lia|].
  destruct (Z.ltb_spec 0 (- Z.of_N (target_block_time cfg * 1000 * 2 * Nn))); [nia|]. reflexivity.
Qed.

Lemma delta0_wrapped pts k : pts + k < two64 -> 0 < k -> k + 100 <= two64 -> delta0 pts (pts + k) = two64 - k.
Proof.
  intros H1 H2 H3. unfold delta0, wsub, wrap. rewrite (N.mod_small (pts + k)) by exact H1.
  replace (pts + two64 - (pts + k)) with (two64 - k) by lia.
  rewrite N.mod_small by lia. destruct (N.ltb_spec (two64 - k) 100); lia.
Qed.

Lemma nd_panic_decreasing_timestamps : 2 * T + G + C < two63 ->
  exists h pts d gts, MIN <= d /\ d <= two100 /\ gts < two64 /\ pts < gts /\ next_difficulty cfg h pts d gts = Panic.
Proof.
  destruct ok_facts as (HN & HT1 & Hm1 & Hm64 & _). destruct C_facts as (HT & HC & HC28 & _).
  intros Hb. exists 2, (2 * T + G), MIN, (2 * T + G + C).
  split; [lia|]. split; [unfold two100, two64 in *; lia|]. split; [unfold two63, two64 in *; lia|]. split; [lia|].
  apply nd_panic_iff; [lia|unfold two64, two128 in *; lia|]. right.
  rewrite delta0_wrapped by (unfold two28, two63, two64 in *; lia).
  rewrite lttc_on_schedule by lia.
  unfold wadd, wrap. replace (C + (two64 - C)) with two64 by (unfold two28, two64 in *; lia). reflexivity.
Qed.

Lemma nd_rise_unbounded_decreasing_timestamps : 2 * T + G + C < two63 ->
  exists h pts d gts r, MIN <= d /\ d <= two100 /\ gts < two64 /\ pts < gts /\
    next_difficulty cfg h pts d gts = Ok r /\ d * Nn < r * (Nn - 1).
Proof.
  destruct ok_facts as (HN & HT1 & Hm1 & Hm64 & HNT & _). destruct C_facts as (HT & HC & HC28 & HCT & HNT64).
  intros Hb. exists 2, (2 * T + G), MIN, (2 * T + G + (C - 1)), (MIN * (Nn * T)).
  assert (HC2 : 2 <= C) by nia.
  split; [lia|]. split; [unfold two100, two64 in *; lia|]. split; [unfold two63, two64 in *; lia|]. split; [lia|].
  split.
  - rewrite nd_unfold by lia.
    rewrite delta0_wrapped by (unfold two28, two63, two64 in *; lia).
    rewrite lttc_on_schedule by lia.
    assert (Hprod : MIN * (Nn * T) < two128) by (unfold two28, two64, two128 in *; nia).
    rewrite ema_spec by (unfold two64, two128 in *; lia).
    destruct (N.ltb_spec (MIN * (Nn * T)) two128); [|lia].
    assert (Hden : wadd C (two64 - (C - 1)) = 1).
    { unfold wadd, wrap. replace (C + (two64 - (C - 1))) with (1 + 1 * two64) by (unfold two28, two64 in *; lia).
      rewrite N.mod_add by discriminate. reflexivity. }
    rewrite Hden. cbn [N.eqb bind]. rewrite N.div_1_r. f_equal. nia.
  - nia.
Qed.

End Proofs.

(* ---- proof-of-work target, side blocks, stratum target (configuration independent) ---- *)

Lemma pow_target_spec d : 1 <= d -> d < two128 -> pow_target d = Ok ((two128 - 1) / d).
Proof.
  intros H1 H2. unfold pow_target. rewrite max128_eq.
  rewrite div_spec by (try exact H2; reflexivity).
  destruct (N.eqb_spec d 0); [lia|reflexivity].
Qed.

Lemma pow_target_zero : pow_target 0 = Panic.
Proof. reflexivity. Qed.

Lemma valid_pow_value_spec val d : 1 <= d -> d < two128 ->
  valid_pow_value val d = Ok (val <=? (two128 - 1) / d).
Proof.
  intros H1 H2. unfold valid_pow_value. rewrite pow_target_spec by assumption. cbn [bind].
  rewrite cmp_spec. f_equal.
  destruct (N.compare_spec val ((two128 - 1) / d)); destruct (N.leb_spec val ((two128 - 1) / d)); try reflexivity; lia.
Qed.


Lemma side_difficulty_spec d : d * 2 < two128 -> side_difficulty d = Ok (2 * d / 3).
Proof.
  intros H. unfold side_difficulty.
  rewrite mul64_ok by (try exact H; unfold two64, two128 in *; lia). cbn [bind].
  rewrite div64_ok by (try exact H; unfold two64; lia). rewrite (N.mul_comm d 2). reflexivity.
Qed.

Lemma side_difficulty_panic d : d < two128 -> two128 <= d * 2 -> side_difficulty d = Panic.
Proof.
  intros Hd H. unfold side_difficulty. rewrite mul64_panic by (try assumption; unfold two64; lia). reflexivity.
Qed.

Lemma get_target_partial d : 1 <= d -> d < two64 -> get_target d = Ok (max_u64 / d).
Proof.
  intros H1 H2. unfold get_target. rewrite lo_small by exact H2.
  destruct (N.eqb_spec d 0); [lia|reflexivity].
Qed.

(* util.GetTarget divides by the low word only: it panics for every difficulty that is a multiple of 2^64 *)
Lemma get_target_refuted : exists d, 1 <= d /\ d <= two100 /\ get_target d = Panic.
Proof. exists two64. vm_compute. repeat split; discriminate. Qed.

(* ... and silently ignores the high word otherwise: for 2^64+1 it returns the easiest target instead of 0 *)
Lemma get_target_ignores_high_word : exists d t, two64 < d /\ d <= two100 /\ get_target d = Ok t /\ t <> max_u64 / d.
Proof. exists (two64 + 1), max_u64. vm_compute. repeat split; discriminate. Qed.
