(* Property C02 at the level of the node: on the main chain of every reachable node - whatever deliveries and
   reorganisations led to it - no two transaction occurrences share (signer, nonce); the nonces of one signer's
   transactions are 1, 2, 3, ... in chain order and the signer's nonce in the node's ledger is their number.
   Route: the ledger of a reachable node is the replay of its main chain from the genesis ledger (Proofs/Replay4.v,
   NodeConservation.reachable_replay_facts), the genesis ledger is the genesis block applied to the empty ledger, and
   along a chain the nonces are consecutive (Proofs/NonceOnce.v).  The premise "counters cannot wrap along a chain of
   stored blocks" of the replay theorem is what excludes the wrap-around of a nonce. *)
From Virel Require Import Lib.Config Lib.U64 Lib.AMap Model.Emission Model.Ledger Model.Node Spec.Chain
  Proofs.AMapLemmas Proofs.Emission Proofs.Conservation Proofs.Pointwise Proofs.NodeBasics Proofs.ForkChoice
  Proofs.ChainInv Proofs.Undo Proofs.Undo2 Proofs.Undo4 Proofs.Refine2 Proofs.Replay1 Proofs.Replay2 Proofs.Replay3 Proofs.Replay4 Proofs.Replay5
  Proofs.NodeConservation Proofs.NonceOnce.
Open Scope N_scope.
Open Scope bool_scope.

Lemma chain_txs_lbs n bs : chain_txs (lbs n bs) = flat_map b_txs bs.
Proof. unfold chain_txs, lbs. induction bs as [|b bs IH]; [reflexivity|]. cbn [map flat_map]. rewrite IH. reflexivity. Qed.

Lemma bntx_length bs : N.of_nat (length (flat_map b_txs bs)) = bntx bs.
Proof.
  induction bs as [|b bs IH]; [reflexivity|]. cbn [flat_map bntx fold_right]. fold (bntx bs).
  rewrite app_length, Nat2N.inj_add, IH. reflexivity.
Qed.

Lemma filter_length_le' {A} (f : A -> bool) l : (length (filter f l) <= length l)%nat.
Proof. induction l as [|x l IH]; [apply le_n|]. cbn [filter]. destruct (f x); cbn [length]; lia. Qed.

Lemma nodup_app_r {A} (a b : list A) : NoDup (a ++ b) -> NoDup b.
Proof. induction a as [|x a IH]; [exact (fun H => H)|]. cbn [app]. intros H. inversion H; subst. apply IH. assumption. Qed.

Section ReachNonce.
Variable cfg : config.
Variable genesis_addr team_key : N.

Theorem reachable_at_most_once_general g n0 ops :
  cfg_ok_emission cfg = true ->
  node0 cfg genesis_addr g = Ok n0 -> b_height g = 0 -> b_cd g = b_diff g ->
  N.of_nat (length ops) < two64 - 1 ->
  let n := run cfg genesis_addr team_key n0 ops in
  store_pre cfg g (blocks n) ->
  let txs := flat_map b_txs (g :: mchain n) in
  NoDup (map tx_key txs) /\
  NoDup (map tx_key (chain_txs (lbs n (mchain n)))) /\
  (forall k, let mine := filter (signed_by k) txs in
     map tx_nonce mine = map N.of_nat (seq 1 (length mine)) /\
     nonce (acct_at (ldg n) (addr_of_key k)) = N.of_nat (length mine)) /\
  (forall a, nonce (acct_at (ldg n) a) = N.of_nat (length (filter (sig_at a) txs))).
Proof.
  intros Hok H0 Hg0 Hcd Hlen n Hpre txs.
  destruct (reachable_replay_facts cfg genesis_addr team_key g n0 ops Hok H0 Hg0 Hcd Hlen Hpre)
    as (lr & Hr & HL & _ & Hck & _ & _). fold n in Hr, HL, Hck.
  destruct Hck as (_ & _ & _ & _ & Hntx). rewrite chain_ntx_lbs in Hntx.
  (* genesis applied to the empty ledger, then the main chain *)
  assert (Hg : ntrace ledger0 (b_txs g) (ldg n0)).
  { unfold node0, apply_block_node in H0. bind_inv H0. injection H0 as <-. cbn [ldg set_ldg].
    exact (apply_block_ntrace cfg genesis_addr _ _ _ _ E). }
  pose proof (apply_chain_ntrace cfg genesis_addr _ _ _ Hr) as Hc. rewrite chain_txs_lbs in Hc.
  pose proof (ntrace_app _ _ _ _ _ Hg Hc) as Ht.
  assert (Etxs : txs = b_txs g ++ flat_map b_txs (mchain n)) by reflexivity. rewrite <- Etxs in Ht.
  assert (Hcnt : forall f, N.of_nat (length (filter f txs)) < two64).
  { intros f. pose proof (filter_length_le' f txs) as Hle. rewrite Etxs in Hle at 2. rewrite app_length in Hle.
    pose proof (bntx_length (mchain n)) as Hb. unfold c0 in Hntx. lia. }
  assert (Hz : forall a, nonce_at ledger0 a = 0) by reflexivity.
  assert (Hnd : NoDup (map tx_key txs)).
  { apply (ntrace_at_most_once _ _ _ Ht). intros k. rewrite Hz. specialize (Hcnt (signed_by k)). lia. }
  destruct HL as (Hs & _).
  split; [exact Hnd|]. split.
  { rewrite chain_txs_lbs. rewrite Etxs, map_app in Hnd. exact (nodup_app_r _ _ Hnd). }
  split.
  - intros k. cbn zeta.
    destruct (ntrace_exact _ _ _ Ht k ltac:(rewrite Hz; specialize (Hcnt (signed_by k)); lia)) as (A & B & _).
    rewrite Hz in A, B. split.
    + rewrite A. apply map_ext. intros i. lia.
    + rewrite (Hs (addr_of_key k)). fold (nonce_at lr (addr_of_key k)). rewrite B. lia.
  - intros a. rewrite (Hs a). fold (nonce_at lr a). rewrite (proj2 (Ht a)), Hz.
    rewrite nonce_after_small by (specialize (Hcnt (sig_at a)); lia). lia.
Qed.

(* with the premises of C03_ledger_is_replay *)
Theorem reachable_at_most_once g n0 ops :
  cfg_ok_emission cfg = true -> cfg_ok_feepos cfg = true ->
  node0 cfg genesis_addr g = Ok n0 -> b_height g = 0 -> b_cd g = b_diff g ->
  N.of_nat (length ops) < two64 - 1 ->
  let n := run cfg genesis_addr team_key n0 ops in
  Forall (tx_c cfg) (b_txs g) ->
  (forall h b, get_block n h = Some b -> Forall (fun t => wf_tx cfg t /\ ver_ok t = true) (b_txs b)) ->
  (forall bs, up (b_hash g) (blocks n) (b_hash g) bs ->
     NoDup (bkeys g ++ flat_map bkeys bs) /\ c0 g + bnouts bs < two64 /\ c0 g + bntx bs < two64) ->
  let txs := flat_map b_txs (g :: mchain n) in
  NoDup (map tx_key txs) /\
  NoDup (map tx_key (chain_txs (lbs n (mchain n)))) /\
  (forall k, let mine := filter (signed_by k) txs in
     map tx_nonce mine = map N.of_nat (seq 1 (length mine)) /\
     nonce (acct_at (ldg n) (addr_of_key k)) = N.of_nat (length mine)) /\
  (forall a, nonce (acct_at (ldg n) a) = N.of_nat (length (filter (sig_at a) txs))).
Proof.
  intros Hok Hfp H0 Hg0 Hcd Hlen n Hgen Htyped Hpaths.
  apply (reachable_at_most_once_general g n0 ops Hok H0 Hg0 Hcd Hlen).
  exact (proj1 (validated_store_pre cfg genesis_addr team_key g n0 ops Hfp H0 Hg0 Hcd Hlen Hgen Htyped Hpaths)).
Qed.

End ReachNonce.
