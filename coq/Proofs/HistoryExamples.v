(* Property C17, "the wallet-facing indexes match the main chain": concrete histories of the verification configuration.

   [index_reorg_example]: the history of Proofs/ChainExamples.v that reorganises from G-A1-A2-A3 to the heavier chain
   G-B-D satisfies every premise of the index theorems (Proofs/Replay6.v); its indexes after the reorganisation: the
   incoming history of address 7 (recipient of every coinbase) has 6 served entries, the coinbases of G, B, D; the
   entries 7 and 8 (written by A3, hash 8) and the entry (0, 1) are stale: they lie above the counters.

   [same_tx_two_branches_example]: a history with transactions.  A1 (height 1) holds T1 (id 100) and T2 (id 101), both
   signed by key 3 (address 7); the alternative block D (height 2, child of B) holds the SAME transaction T1.  After the
   reorganisation to G-B-D the one height kept for id 100 is 2 (the height of D), the height of id 101 is 0, the nonce of
   address 7 is 1 and its outgoing entry 2 (T2) is stale; the incoming entries (11, 1) and (9, 2) written by T2 are
   stale (counters 0 and 1).  Everything served equals the events of the chain G-B-D. *)
From Virel Require Import Lib.Config Lib.U64 Lib.AMap Model.Emission Model.Ledger Model.Node Spec.Chain Gen.Params
  Proofs.Emission Proofs.Conservation Proofs.Refine2 Proofs.ForkChoice Proofs.Pointwise Proofs.ChainInv Proofs.ChainHeights
  Proofs.ChainExamples Proofs.Undo2 Proofs.Replay2 Proofs.Replay3 Proofs.Replay4 Proofs.Replay5 Proofs.Replay6
  Proofs.History1 Proofs.History2 Proofs.History3.
Open Scope N_scope.
Open Scope bool_scope.

Theorem index_reorg_example :
  let n := run cfg_verifnet 7 0 ex_n0 sr_ops in
  map b_hash (mchain n) = [4; 6] /\
  main_credits cfg_verifnet 7 w_genesis n = [(7, 1); (7, 1); (7, 4); (7, 4); (7, 6); (7, 6)] /\
  intx (ldg n) = [(7, 1, 1); (7, 2, 1); (7, 3, 4); (7, 4, 4); (7, 5, 6); (7, 6, 6); (7, 7, 8); (7, 8, 8); (0, 1, 8)] /\
  inc (acct_at (ldg n) 7) = 6 /\ inc (acct_at (ldg n) 0) = 0 /\
  (let m := run cfg_verifnet 7 0 ex_n0 (firstn 3 sr_ops) in
   map b_hash (mchain m) = [2; 3; 8] /\ inc (acct_at (ldg m) 7) = 8 /\ inc (acct_at (ldg m) 0) = 1 /\
   intx (ldg m) = [(7, 1, 1); (7, 2, 1); (7, 3, 2); (7, 4, 2); (7, 5, 3); (7, 6, 3); (7, 7, 8); (7, 8, 8); (0, 1, 8)]).
Proof. cbn zeta. repeat split; vm_compute; reflexivity. Qed.

(* ---- the same transaction on two branches ---- *)
Definition ex_T1 : tx := mktx 100 1 3 3 true false (TTransfer [(9, 1000)]) 1 61500000.
Definition ex_T2 : tx := mktx 101 1 3 3 true false (TTransfer [(11, 500); (9, 5)]) 2 73500000.
Definition t_block (h ht : N) (anc : list N) (sides : list commit) (cd : N) (txs : list tx) : block :=
  mkblock h 0 ht 0 anc sides 7 0 0 true 0 0 4 cd txs [] 0 0 (w_commit h anc) false.
Definition tx_ops : list (block * N) :=
  [ (t_block 2 1 [1; 0; 0] [] 5 [ex_T1; ex_T2], 0);                                                   (* A1 *)
    (t_block 4 1 [1; 0; 0] [] 5 [], 0);                                                               (* B  *)
    (t_block 6 2 [4; 1; 0] [w_commit 2 [1; 0; 0]; w_commit 9 [1; 0; 0]] 14 [ex_T1], 0) ].            (* D  *)

Theorem same_tx_two_branches_example :
  w_outcomes ex_n0 tx_ops = [Accepted; Accepted; Accepted] /\
  (let m := run cfg_verifnet 7 0 ex_n0 (firstn 2 tx_ops) in
   map b_hash (mchain m) = [2] /\
   txh (ldg m) = [(100, 1); (101, 1)] /\ outtx (ldg m) = [(7, 1, 100); (7, 2, 101)] /\ nonce (acct_at (ldg m) 7) = 2 /\
   inc (acct_at (ldg m) 9) = 2 /\ inc (acct_at (ldg m) 11) = 1) /\
  (let n := run cfg_verifnet 7 0 ex_n0 tx_ops in
   map b_hash (mchain n) = [4; 6] /\
   txh (ldg n) = [(100, 2); (101, 0)] /\
   outtx (ldg n) = [(7, 1, 100); (7, 2, 101)] /\ nonce (acct_at (ldg n) 7) = 1 /\
   intx (ldg n) = [(7, 1, 1); (7, 2, 1); (9, 1, 100); (11, 1, 101); (9, 2, 101); (7, 3, 4); (7, 4, 4); (7, 5, 6); (7, 6, 6)] /\
   inc (acct_at (ldg n) 7) = 6 /\ inc (acct_at (ldg n) 9) = 1 /\ inc (acct_at (ldg n) 11) = 0 /\
   main_credits cfg_verifnet 7 w_genesis n = [(7, 1); (7, 1); (7, 4); (7, 4); (9, 100); (7, 6); (7, 6)] /\
   main_signs w_genesis n = [(7, 100)] /\
   chain_txhs (main_lbs w_genesis n) = [(100, 2)]).
Proof. cbn zeta. repeat split; vm_compute; reflexivity. Qed.

(* ---- this history satisfies every premise of the index theorems ---- *)
(* the chains of stored blocks from a block, by enumeration *)
Fixpoint paths_from (bl : list (N * block)) (fuel : nat) (x : N) : list (list block) :=
  [] :: match fuel with
        | O => []
        | S f => flat_map (fun kb : N * block =>
                             let c := snd kb in
                             if (prev_hash c =? x) && (fst kb =? b_hash c)
                             then map (cons c) (paths_from bl f (b_hash c)) else []) bl
        end.

Lemma up_in_paths gh bl fuel : forall x bs, up gh bl x bs -> (length bs <= fuel)%nat -> In bs (paths_from bl fuel x).
Proof.
  induction fuel as [|f IH]; intros x bs Hup Hlen.
  - destruct bs; [left; reflexivity|cbn [length] in Hlen; lia].
  - destruct bs as [|c r]; [left; reflexivity|]. right. cbn [up] in Hup. destruct Hup as (Hc & Hp & Hn & Hr).
    apply in_flat_map. exists (b_hash c, c). split; [apply nget_in; exact Hc|]. cbn [fst snd].
    rewrite Hp, !N.eqb_refl. cbn [andb]. apply in_map. apply IH; [exact Hr|cbn [length] in Hlen; lia].
Qed.

Fixpoint nodupb (l : list N) : bool :=
  match l with [] => true | x :: r => negb (existsb (N.eqb x) r) && nodupb r end.

Lemma nodupb_NoDup l : nodupb l = true -> NoDup l.
Proof.
  induction l as [|x r IH]; cbn [nodupb]; intros H; [constructor|].
  apply Bool.andb_true_iff in H. destruct H as [H1 H2]. constructor; [|apply IH; exact H2].
  intros Hin. apply Bool.negb_true_iff in H1. assert (existsb (N.eqb x) r = true); [|congruence].
  apply existsb_exists. exists x. split; [exact Hin|apply N.eqb_refl].
Qed.

Definition path_okb (g : block) (bs : list block) : bool :=
  nodupb (bkeys g ++ flat_map bkeys bs) && (c0 g + bnouts bs <? two64) && (c0 g + bntx bs <? two64).

Definition ex_tn : node := Eval vm_compute in run cfg_verifnet 7 0 ex_n0 tx_ops.
Lemma ex_tn_eq : run cfg_verifnet 7 0 ex_n0 tx_ops = ex_tn. Proof. vm_compute. reflexivity. Qed.

Theorem index_premises_with_transactions :
  node0 cfg_verifnet 7 w_genesis = Ok ex_n0 /\
  let n := run cfg_verifnet 7 0 ex_n0 tx_ops in
  cfg_ok_emission cfg_verifnet = true /\ cfg_ok_feepos cfg_verifnet = true /\
  b_height w_genesis = 0 /\ b_cd w_genesis = b_diff w_genesis /\ N.of_nat (length tx_ops) < two64 - 1 /\
  Forall (tx_c cfg_verifnet) (b_txs w_genesis) /\
  (forall h b, get_block n h = Some b -> Forall (fun t => wf_tx cfg_verifnet t /\ ver_ok t = true) (b_txs b)) /\
  (forall bs, up (b_hash w_genesis) (blocks n) (b_hash w_genesis) bs ->
     NoDup (bkeys w_genesis ++ flat_map bkeys bs) /\ c0 w_genesis + bnouts bs < two64 /\ c0 w_genesis + bntx bs < two64).
Proof.
  split; [exact ex_n0_eq|]. cbn zeta.
  pose proof ex_n0_eq as H0.
  assert (Hg0 : b_height w_genesis = 0) by reflexivity.
  assert (Hcd : b_cd w_genesis = b_diff w_genesis) by reflexivity.
  assert (Hlen : N.of_nat (length tx_ops) < two64 - 1) by (vm_compute; reflexivity).
  destruct (reachable_invariants cfg_verifnet 7 0 w_genesis ex_n0 tx_ops H0 Hg0 Hcd Hlen) as ((HB & _) & _).
  rewrite ex_tn_eq in *.
  split; [vm_compute; reflexivity|]. split; [vm_compute; reflexivity|]. split; [exact Hg0|]. split; [exact Hcd|].
  split; [exact Hlen|]. split; [constructor|]. split.
  - intros h b Hb. unfold get_block in Hb. apply nget_in in Hb.
    change (blocks ex_tn) with [(1, w_genesis); (2, t_block 2 1 [1; 0; 0] [] 5 [ex_T1; ex_T2]); (4, t_block 4 1 [1; 0; 0] [] 5 []);
                                (6, t_block 6 2 [4; 1; 0] [w_commit 2 [1; 0; 0]; w_commit 9 [1; 0; 0]] 14 [ex_T1])] in Hb.
    cbn [In] in Hb.
    destruct Hb as [Hb|[Hb|[Hb|[Hb|[]]]]]; injection Hb as <- <-; cbn [b_txs w_genesis genesis_block t_block];
      repeat first [apply Forall_nil | apply Forall_cons | split]; try reflexivity.
  - intros bs Hup.
    assert (Hgg : nget (blocks ex_tn) (b_hash w_genesis) = Some w_genesis) by (vm_compute; reflexivity).
    destruct (up_heights_grow _ _ bs _ w_genesis HB Hgg Hup) as (_ & _ & Hl).
    pose proof (up_in_paths _ _ (length (blocks ex_tn)) _ _ Hup ltac:(lia)) as Hin.
    assert (Hall : forallb (path_okb w_genesis) (paths_from (blocks ex_tn) (length (blocks ex_tn)) (b_hash w_genesis)) = true)
      by (vm_compute; reflexivity).
    rewrite forallb_forall in Hall. specialize (Hall bs Hin). unfold path_okb in Hall.
    apply Bool.andb_true_iff in Hall. destruct Hall as [Hall H3]. apply Bool.andb_true_iff in Hall. destruct Hall as [H1 H2].
    apply N.ltb_lt in H2, H3. split; [apply nodupb_NoDup; exact H1|]. split; assumption.
Qed.
