(* Conservation of coins by the ledger model (property C01, lemma A of DESIGN.md):
   applying a transaction moves its fee out of the accounts and nothing else; applying a block adds exactly the
   block reward; none of the uint64 additions wraps. *)
From Coq Require Import Arith.
From Virel Require Import Lib.Config Lib.U64 Lib.AMap Model.Emission Model.Ledger Proofs.AMapLemmas Proofs.Emission.
Open Scope N_scope.

Ltac bind_inv H :=
  match type of H with
  | bind ?r _ = Ok _ => let E := fresh "E" in destruct r eqn:E; cbn [bind] in H; [|discriminate H|discriminate H]
  end.
Ltac guard_inv H :=
  match type of H with
  | bind (guard ?b _) _ = Ok _ => let E := fresh "G" in destruct b eqn:E; cbn [guard bind] in H; [|discriminate H]
  end.

Lemma of_opt_ok {A} (o : option A) c a : of_opt o c = Ok a -> o = Some a.
Proof. destruct o; cbn; [intros [= ->]; reflexivity|discriminate]. Qed.

Ltac opt_inv H :=
  match type of H with
  | bind (of_opt ?o _) _ = Ok _ =>
      let E := fresh "E" in let x := fresh "x" in
      destruct o as [x|] eqn:E; cbn [of_opt bind] in H; [|discriminate H]
  end.

Definition total_bal (l : ledger) : N := sumf bal (accts l).
Definition bal_at (l : ledger) (a : N) : N := fopt bal (get_state l a).

Lemma total_put_state l a s : total_bal (put_state l a s) + bal_at l a = total_bal l + bal s.
Proof. unfold total_bal, put_state, bal_at, get_state, set_accts. cbn [accts]. apply sumf_nset. Qed.

Lemma bal_at_le_total l a : bal_at l a <= total_bal l.
Proof. apply sumf_ge_get. Qed.

Lemma get_state_bal l a s : get_state l a = Some s -> bal s = bal_at l a.
Proof. intros H. unfold bal_at. rewrite H. reflexivity. Qed.

(* ledger updates that do not touch the accounts *)
Lemma accts_stats_staked l amt l' : stats_staked l amt = Ok l' -> accts l' = accts l.
Proof. unfold stats_staked. destruct (_ <? _); [discriminate|]. intros [= <-]. reflexivity. Qed.
Lemma accts_stats_unstaked l amt l' : stats_unstaked l amt = Ok l' -> accts l' = accts l.
Proof. unfold stats_unstaked. destruct (_ <? _); [discriminate|]. intros [= <-]. reflexivity. Qed.

Section Conservation.
Variable cfg : config.
Variable genesis_addr team_key : N.

Lemma accts_apply_stake l amt id pu signer top_h txid rev l' :
  apply_stake cfg l amt id pu signer top_h txid rev = Ok l' -> accts l' = accts l.
Proof.
  unfold apply_stake. intros H.
  bind_inv H. bind_inv H. bind_inv H. injection H as <-.
  cbn [put_dlg set_dlgs accts]. eapply accts_stats_staked; eassumption.
Qed.

Lemma accts_apply_unstake l amt id signer top_h txid rev pu l' :
  apply_unstake l amt id signer top_h txid rev pu = Ok l' -> accts l' = accts l.
Proof.
  unfold apply_unstake. intros H.
  bind_inv H. bind_inv H. guard_inv H. guard_inv H. bind_inv H. injection H as <-.
  cbn [put_dlg set_dlgs accts].
  match goal with E : stats_unstaked _ _ = Ok _ |- _ => apply accts_stats_unstaked in E; rewrite E end.
  destruct (_ && _); reflexivity.
Qed.

Lemma accts_apply_pos_reward l bh o l' : apply_pos_reward l bh o = Ok l' -> accts l' = accts l.
Proof.
  unfold apply_pos_reward. intros H.
  guard_inv H. bind_inv H. guard_inv H. bind_inv H. guard_inv H. bind_inv H.
  match goal with p : (list fund * N)%type |- _ => destruct p as [funds1 added] end.
  guard_inv H. bind_inv H. bind_inv H. guard_inv H. bind_inv H. injection H as <-.
  cbn [put_dlg set_dlgs accts].
  match goal with E : stats_staked _ _ = Ok _ |- _ => apply accts_stats_staked in E; rewrite E end.
  reflexivity.
Qed.

(* ---- inputs ---- *)
Definition sum_ins (ins : list (N * N)) : N := fold_right (fun i acc => fst i + acc) 0 ins.

Lemma apply_inputs_total l ins l' :
  apply_inputs l ins = Ok l' -> total_bal l' + sum_ins ins = total_bal l.
Proof.
  revert l. induction ins as [|[amt sender] ins IH]; intros l H; cbn in H.
  - injection H as <-. cbn. lia.
  - opt_inv H. guard_inv H. apply IH in H.
    pose proof (total_put_state l sender (mkacct (bal x - amt) (nonce x) (inc x) (deleg x))) as Hp.
    rewrite <- (get_state_bal l sender x) in Hp by assumption. cbn [bal] in Hp.
    apply Bool.negb_true_iff in G. apply N.ltb_ge in G.
    cbn [sum_ins fold_right fst]. fold (sum_ins ins). lia.
Qed.

(* ---- outputs ---- *)
Definition sum_souts (outs : list sout) : N := fold_right (fun o acc => o_amt o + acc) 0 outs.

(* when no error is reported, the accounts grew by exactly the output amounts *)
Lemma apply_outputs_total outs : forall l bh txid l',
  total_bal l + sum_souts outs < two64 ->
  apply_outputs l bh outs txid = (l', None) ->
  total_bal l' = total_bal l + sum_souts outs.
Proof.
  induction outs as [|o outs IH]; intros l bh txid l' Hb H; cbn in H.
  - injection H as <-. cbn. lia.
  - cbn [sum_souts fold_right] in Hb. fold (sum_souts outs) in Hb.
    set (st := match get_state l (o_rcpt o) with Some s => s | None => acct0 end) in *.
    assert (Hst : bal st = bal_at l (o_rcpt o)).
    { unfold st, bal_at. destruct (get_state l (o_rcpt o)); reflexivity. }
    destruct (safe_add (bal st) (o_amt o)) as [b|] eqn:Esa; [|discriminate H].
    pose proof (bal_at_le_total l (o_rcpt o)) as Hle.
    apply safe_add_some in Esa; [|lia|lia]. destruct Esa as [-> Hlt].
    set (l1 := set_intx l _) in H.
    set (l2 := put_state l1 (o_rcpt o) _) in H.
    assert (Ht2 : total_bal l2 = total_bal l + o_amt o).
    { pose proof (total_put_state l1 (o_rcpt o) (mkacct (bal st + o_amt o) (nonce st) (wadd (inc st) 1) (deleg st))) as Hp.
      fold l2 in Hp. cbn [bal] in Hp.
      assert (Hb1 : bal_at l1 (o_rcpt o) = bal_at l (o_rcpt o)) by reflexivity.
      assert (Ht1 : total_bal l1 = total_bal l) by reflexivity.
      rewrite Hb1, Ht1 in Hp. lia. }
    cbn [sum_souts fold_right]. fold (sum_souts outs).
    destruct (o_type o =? OUT_COINBASE_POS).
    + destruct (apply_pos_reward l2 bh o) as [l3|c|c] eqn:Epos; [|discriminate H|discriminate H].
      assert (Ht3 : total_bal l3 = total_bal l2).
      { unfold total_bal. erewrite accts_apply_pos_reward by eassumption. reflexivity. }
      rewrite (IH l3 bh txid l' ltac:(lia) H). lia.
    + rewrite (IH l2 bh txid l' ltac:(lia) H). lia.
Qed.

(* outputs that are not proof-of-stake rewards cannot fail as long as the total stays below 2^64 *)
Lemma apply_outputs_noerr outs : forall l bh txid,
  total_bal l + sum_souts outs < two64 ->
  Forall (fun o => (o_type o =? OUT_COINBASE_POS) = false) outs ->
  snd (apply_outputs l bh outs txid) = None.
Proof.
  induction outs as [|o outs IH]; intros l bh txid Hb Hnp; cbn.
  - reflexivity.
  - inversion Hnp as [|? ? Ho Hnp']; subst.
    cbn [sum_souts fold_right] in Hb. fold (sum_souts outs) in Hb.
    set (st := match get_state l (o_rcpt o) with Some s => s | None => acct0 end) in *.
    assert (Hst : bal st = bal_at l (o_rcpt o)).
    { unfold st, bal_at. destruct (get_state l (o_rcpt o)); reflexivity. }
    pose proof (bal_at_le_total l (o_rcpt o)) as Hle.
    destruct (safe_add (bal st) (o_amt o)) as [b|] eqn:Esa.
    + apply safe_add_some in Esa; [|lia|lia]. destruct Esa as [-> Hlt].
      rewrite Ho.
      set (l1 := set_intx l _).
      set (l2 := put_state l1 (o_rcpt o) _).
      apply IH; [|exact Hnp'].
      pose proof (total_put_state l1 (o_rcpt o) (mkacct (bal st + o_amt o) (nonce st) (wadd (inc st) 1) (deleg st))) as Hp.
      fold l2 in Hp. cbn [bal] in Hp.
      assert (Hb1 : bal_at l1 (o_rcpt o) = bal_at l (o_rcpt o)) by reflexivity.
      assert (Ht1 : total_bal l1 = total_bal l) by reflexivity.
      rewrite Hb1, Ht1 in Hp. lia.
    + exfalso. apply safe_add_none in Esa; lia.
Qed.

(* ---- transactions ---- *)
Definition wf_data (d : txdata) : Prop :=
  match d with
  | TTransfer outs => Forall (fun o : N * N => snd o < two64) outs
  | TRegister _ _ _ => True
  | TSetDelegate _ _ => True
  | TStake a _ _ => a < two64
  | TUnstake a _ => a < two64
  end.
Definition wf_tx (t : tx) : Prop := tx_fee t < two64 /\ wf_data (tx_data t) /\ register_burn cfg < two64.

Lemma sum_outs_exact outs : forall s r,
  s < two64 -> Forall (fun o : N * N => snd o < two64) outs ->
  sum_outs outs s = Some r -> r = s + fold_right (fun o acc => snd o + acc) 0 outs /\ r < two64.
Proof.
  induction outs as [|[a amt] outs IH]; intros s r Hs Hwf H; cbn in H.
  - injection H as <-. cbn. lia.
  - inversion Hwf as [|? ? Ha Hwf']; subst. cbn [snd] in Ha.
    destruct (N.ltb_spec (wadd s amt) s) as [Hlt|Hge]; [discriminate|].
    assert (Hex : s + amt < two64).
    { destruct (N.lt_ge_cases (s + amt) two64) as [Hc|Hc]; [exact Hc|exfalso].
      unfold wadd, wrap in Hge.
      assert (E : (s + amt) mod two64 = s + amt - two64).
      { replace (s + amt) with ((s + amt - two64) + 1 * two64) at 1 by lia.
        rewrite N.mod_add by discriminate. apply N.mod_small. lia. }
      rewrite E in Hge. lia. }
    rewrite wadd_small in H by exact Hex.
    destruct (IH (s + amt) r Hex Hwf' H) as [-> Hr]. cbn [fold_right snd]. split; lia.
Qed.

Lemma sum_souts_transfer outs :
  sum_souts (map (fun o : N * N => mksout OUT_NORMAL (snd o) (fst o) 0) outs) = fold_right (fun o acc => snd o + acc) 0 outs.
Proof. induction outs as [|o outs IH]; cbn; [reflexivity|]. unfold sum_souts in IH. rewrite IH. reflexivity. Qed.

Lemma wadd_nowrap_of_check a b : a < two64 -> b < two64 -> (wadd a b <? a) = false -> wadd a b = a + b /\ a + b < two64.
Proof.
  intros Ha Hb H. apply N.ltb_ge in H.
  destruct (N.lt_ge_cases (a + b) two64) as [Hc|Hc].
  - rewrite wadd_small by exact Hc. split; [reflexivity|exact Hc].
  - exfalso. unfold wadd, wrap in H.
    assert (E : (a + b) mod two64 = a + b - two64).
    { replace (a + b) with ((a + b - two64) + 1 * two64) at 1 by lia.
      rewrite N.mod_add by discriminate. apply N.mod_small. lia. }
    rewrite E in H. lia.
Qed.

(* the inputs of a transaction equal its outputs plus its fee, exactly (no wrap-around) *)
Lemma ins_outs_balance t signer tot outs :
  wf_tx t -> tx_total cfg t = Some tot -> state_outputs cfg t signer = Ok outs ->
  sum_ins (state_inputs cfg t signer) = sum_souts outs + tx_fee t /\ sum_ins (state_inputs cfg t signer) < two64 /\
  Forall (fun o => (o_type o =? OUT_COINBASE_POS) = false) outs.
Proof.
  intros (Hfee & Hwd & Hburn) Htot Houts.
  unfold tx_total, data_total in Htot. unfold state_inputs, state_outputs in *.
  destruct (tx_data t) as [os|nl name id|nw pv|a id pu|a id]; cbn [wf_data] in Hwd.
  - destruct (sum_outs os 0) as [s|] eqn:Es; [|discriminate].
    destruct (wadd s (tx_fee t) <? s) eqn:Ec; [discriminate|].
    destruct (sum_outs_exact os 0 s ltac:(reflexivity) Hwd Es) as [Hs Hs64].
    destruct (wadd_nowrap_of_check s (tx_fee t) Hs64 Hfee Ec) as [Hw Hw64].
    injection Houts as <-. rewrite sum_souts_transfer. cbn [sum_ins fold_right fst]. rewrite Hw.
    split; [lia|]. split; [lia|].
    apply Forall_forall. intros o Ho. apply in_map_iff in Ho. destruct Ho as (x & <- & _). reflexivity.
  - destruct (wadd (register_burn cfg) (tx_fee t) <? register_burn cfg) eqn:Ec; [discriminate|].
    destruct (wadd_nowrap_of_check _ _ Hburn Hfee Ec) as [Hw Hw64].
    injection Houts as <-. cbn [sum_ins sum_souts fold_right fst o_amt].
    replace (wadd (tx_fee t) (register_burn cfg)) with (wadd (register_burn cfg) (tx_fee t))
      by (unfold wadd; f_equal; lia).
    rewrite Hw. split; [lia|]. split; [lia|]. repeat constructor.
  - injection Houts as <-. cbn. split; [lia|]. split; [lia|]. constructor.
  - destruct (wadd a (tx_fee t) <? a) eqn:Ec; [discriminate|].
    destruct (wadd_nowrap_of_check _ _ Hwd Hfee Ec) as [Hw Hw64].
    injection Houts as <-. cbn [sum_ins sum_souts fold_right fst o_amt]. rewrite Hw.
    split; [lia|]. split; [lia|]. repeat constructor.
  - destruct (a <? tx_fee t) eqn:Ea; [discriminate|]. apply N.ltb_ge in Ea.
    injection Houts as <-. cbn [sum_ins sum_souts fold_right fst o_amt].
    rewrite wsub_small by lia. split; [lia|]. split; [lia|]. repeat constructor.
Qed.

(* ApplyTxToState moves exactly the fee out of the accounts *)
Lemma apply_tx_total l t h bh top_h l' tot :
  total_bal l < two64 -> wf_tx t -> tx_total cfg t = Some tot ->
  apply_tx cfg l t h bh top_h = Ok l' -> total_bal l' + tx_fee t = total_bal l.
Proof.
  intros Hb Hwf Htot H. unfold apply_tx in H.
  opt_inv H. guard_inv H. bind_inv H.
  match goal with p : (ledger * acct)%type |- _ => destruct p as [l1 st1] end.
  bind_inv H. bind_inv H. injection H as <-.
  (* the kind-specific part leaves the accounts and the signer's balance alone *)
  assert (Hk : accts l1 = accts l /\ bal st1 = bal x).
  { clear - E0. destruct (tx_data t) as [os|nl name id|nw pv|a id pu|a id].
    - injection E0 as <- <-. split; reflexivity.
    - destruct (tx_version t =? 2); [|injection E0 as <- <-; split; reflexivity].
      guard_inv E0. injection E0 as <- <-. split; reflexivity.
    - destruct (tx_version t =? 3); [|injection E0 as <- <-; split; reflexivity].
      guard_inv E0. guard_inv E0. guard_inv E0. injection E0 as <- <-. split; reflexivity.
    - destruct (tx_version t =? 4); [|injection E0 as <- <-; split; reflexivity].
      guard_inv E0. guard_inv E0. bind_inv E0. injection E0 as <- <-.
      split; [eapply accts_apply_stake; eassumption|reflexivity].
    - destruct (tx_version t =? 5); [|injection E0 as <- <-; split; reflexivity].
      guard_inv E0. guard_inv E0. bind_inv E0. injection E0 as <- <-.
      split; [eapply accts_apply_unstake; eassumption|reflexivity]. }
  destruct Hk as [Ha1 Hb1].
  set (signer := addr_of_key (tx_signer t)) in *.
  set (st2 := mkacct (bal st1) (wadd (nonce st1) 1) (inc st1) (deleg st1)) in *.
  set (l2 := put_state l1 signer st2) in *.
  assert (Ht1 : total_bal l1 = total_bal l) by (unfold total_bal; rewrite Ha1; reflexivity).
  assert (Ht2 : total_bal l2 = total_bal l).
  { pose proof (total_put_state l1 signer st2) as Hp. fold l2 in Hp.
    assert (Hbs : bal_at l1 signer = bal x).
    { unfold bal_at, get_state. rewrite Ha1. fold (get_state l signer). rewrite E. reflexivity. }
    rewrite Hbs in Hp. cbn [bal st2] in Hp. lia. }
  match goal with Ei : apply_inputs _ _ = Ok ?l3 |- _ => pose proof (apply_inputs_total _ _ _ Ei) as Hin; rename l3 into l3' end.
  match goal with Eo : state_outputs _ _ _ = Ok ?o |- _ =>
    destruct (ins_outs_balance t signer tot o Hwf Htot Eo) as (Hbal & Hin64 & Hnp) end.
  match goal with |- context [apply_outputs l3' bh ?o (tx_id t)] =>
    pose proof (apply_outputs_noerr o l3' bh (tx_id t) ltac:(lia) Hnp) as Hne;
    destruct (apply_outputs l3' bh o (tx_id t)) as [l4 e] eqn:Eao; cbn [snd] in Hne; subst e;
    pose proof (apply_outputs_total o l3' bh (tx_id t) l4 ltac:(lia) Eao) as Hout
  end.
  cbn [fst]. unfold total_bal in *. cbn [set_txh set_outtx accts] in *. lia.
Qed.

(* ---- blocks ---- *)
Definition tx_ok (t : tx) : Prop := wf_tx t /\ tx_total cfg t <> None.

Lemma apply_txs_total txs : forall l h bh top_h fee l' fee',
  total_bal l < two64 -> fee < two64 -> Forall tx_ok txs ->
  apply_txs cfg l txs h bh top_h fee = Ok (l', fee') ->
  total_bal l' + fee' = total_bal l + fee /\ fee' < two64.
Proof.
  induction txs as [|t txs IH]; intros l h bh top_h fee l' fee' Hb Hf Hok H; cbn in H.
  - injection H as <- <-. split; [lia|exact Hf].
  - inversion Hok as [|? ? [Hwf Htot] Hok']; subst.
    bind_inv H. guard_inv H. apply Bool.negb_true_iff in G.
    destruct (tx_total cfg t) as [tot|] eqn:Et; [|congruence].
    pose proof (apply_tx_total _ _ _ _ _ _ _ Hb Hwf Et E) as H1.
    destruct Hwf as (Hfee & _).
    destruct (wadd_nowrap_of_check fee (tx_fee t) Hf Hfee G) as [Hw Hw64].
    rewrite Hw in H.
    destruct (IH a h bh top_h (fee + tx_fee t) l' fee' ltac:(lia) Hw64 Hok' H) as [H2 H3].
    split; [lia|exact H3].
Qed.

Lemma sum_souts_coinbase b total outs :
  coinbase_souts cfg genesis_addr b total = Ok outs ->
  exists cb, coinbase cfg (lb_version b) (lb_signed b) total = CbOuts cb /\ sum_souts outs = sum_amounts cb.
Proof.
  unfold coinbase_souts. destruct (coinbase cfg (lb_version b) (lb_signed b) total) as [cb|]; [|discriminate].
  intros [= <-]. exists cb. split; [reflexivity|].
  induction cb as [|[ty a] cb IH]; [reflexivity|].
  unfold sum_souts, sum_amounts in *. cbn [fold_right map snd]. rewrite IH. f_equal.
  destruct (ty =? OUT_COINBASE_DEV); [reflexivity|].
  destruct (ty =? OUT_COINBASE_POW); [reflexivity|].
  destruct (ty =? OUT_COINBASE_POS); reflexivity.
Qed.

Hypothesis Hok : cfg_ok_emission cfg = true.

Lemma reward_le_BR h : reward cfg h <= block_reward cfg.
Proof. rewrite (reward_phase cfg). apply (P_le_BR cfg Hok). Qed.

(* ApplyBlockToState adds exactly the block reward to the accounts; no addition wraps *)
Lemma apply_block_total l b top_h l' :
  total_bal l + reward cfg (lb_height b) <= max_supply cfg ->
  Forall tx_ok (lb_txs b) ->
  apply_block cfg genesis_addr l b top_h = Ok l' ->
  total_bal l' = total_bal l + reward cfg (lb_height b).
Proof.
  destruct (ok_facts cfg Hok) as ((HRI & HRI64) & H9 & Hms & Hms64 & _).
  intros Hb Htx H. unfold apply_block in H.
  bind_inv H. clear E. bind_inv H. destruct a0 as [l1 fee].
  assert (Hl64 : total_bal l < two64) by lia.
  destruct (apply_txs_total (lb_txs b) l (lb_height b) (lb_hash b) top_h 0 l1 fee Hl64 two64_pos Htx E) as [Ht1 Hfee64].
  guard_inv H. apply Bool.negb_true_iff in G.
  pose proof (reward_le_BR (lb_height b)) as HrBR.
  destruct (wadd_nowrap_of_check (reward cfg (lb_height b)) fee ltac:(lia) Hfee64 G) as [Hw Hw64].
  rewrite Hw in H. bind_inv H.
  destruct (sum_souts_coinbase _ _ _ E0) as (cb & Ecb & Hsum).
  assert (Hver : lb_version b <= 1).
  { unfold coinbase in Ecb. destruct (N.eqb_spec (lb_version b) 0) as [->|?]; [lia|].
    destruct (N.eqb_spec (lb_version b) 1) as [->|?]; [lia|discriminate]. }
  destruct (coinbase_sum cfg Hok (lb_version b) (lb_signed b) (reward cfg (lb_height b) + fee) Hver ltac:(lia))
    as (cb' & Ecb' & Hs' & _).
  rewrite Ecb in Ecb'. injection Ecb' as <-.
  destruct (apply_outputs l1 (lb_hash b) a0 (lb_hash b)) as [l2 e] eqn:Eao.
  destruct e as [[u|c|c]|]; try discriminate H. injection H as <-.
  assert (Hbound : total_bal l1 + sum_souts a0 < two64) by (rewrite Hsum, Hs'; lia).
  rewrite (apply_outputs_total a0 l1 (lb_hash b) (lb_hash b) l2 Hbound Eao). rewrite Hsum, Hs'. lia.
Qed.

(* ---- chains: the ledger after blocks 0..n holds exactly the scheduled supply ---- *)
Fixpoint apply_chain (l : ledger) (bs : list lblock) : res ledger :=
  match bs with
  | [] => Ok l
  | b :: r => l1 <- apply_block cfg genesis_addr l b (lb_height b - 1) ;; apply_chain l1 r
  end.

Fixpoint heights_from (h : nat) (bs : list lblock) : Prop :=
  match bs with
  | [] => True
  | b :: r => lb_height b = N.of_nat (S h) /\ heights_from (S h) r
  end.

Lemma apply_chain_supply bs : forall l (h : nat) l',
  total_bal l = sum_rewards cfg h -> heights_from h bs ->
  Forall (fun b => Forall tx_ok (lb_txs b)) bs ->
  apply_chain l bs = Ok l' ->
  total_bal l' = sum_rewards cfg (h + length bs) /\ total_bal l' <= max_supply cfg.
Proof.
  induction bs as [|b bs IH]; intros l h l' Ht Hh Hok' H; cbn in H.
  - injection H as <-. rewrite Nat.add_0_r. split; [exact Ht|]. rewrite Ht. apply (sum_rewards_le_max cfg Hok).
  - destruct Hh as [Hhb Hh]. inversion Hok' as [|? ? Hb Hbs]; subst.
    bind_inv H.
    assert (Hstep : total_bal a = sum_rewards cfg (S h)).
    { rewrite (apply_block_total _ _ _ _ ltac:(rewrite Ht, Hhb; change (sum_rewards cfg h + reward cfg (N.of_nat (S h))) with (sum_rewards cfg (S h)); apply (sum_rewards_le_max cfg Hok)) Hb E).
      rewrite Ht, Hhb. reflexivity. }
    replace (h + length (b :: bs))%nat with (S h + length bs)%nat by (cbn; lia).
    apply (IH a (S h) l' Hstep Hh Hbs H).
Qed.

End Conservation.
