(* The node-level theorems of C03 / C10 / C17 with the "codec facts" discharged: the premise

       every transaction of a stored block has uint64-typed amounts (wf_tx) and the version byte of its payload kind (ver_ok)

   of ledger_is_replay_validated (Proofs/Replay5.v) and of the history theorems (Proofs/History3.v, History4.v) is
   replaced by

       every transaction of a stored block other than genesis is the abstraction (Spec/TxAbs.v) of something
       Transaction.Deserialize returned on some byte string, in either of its modes                       [tx_decoded]

   which is what holds of a node fed by Block.DeserializeFull (Proofs/CodecBridgeAlloc.v: decoded_block_txs_decoded) under
   whatever numbering of ids, keys and addresses the abstraction uses.  The typing itself is Proofs/CodecBridge.v
   (tx_decoded_typed).  The genesis block is a constant of the program, not something read from the wire: its own
   transactions keep their premise [Forall tx_c] (it has none). *)
From Coq Require Import Sorting.Sorted.
From Virel Require Import Lib.Config Lib.U64 Lib.AMap Lib.CheckLib Model.Emission Model.Ledger Model.Node Spec.Chain Spec.Rules
  Proofs.AMapLemmas Proofs.Emission Proofs.Conservation Proofs.Pointwise Proofs.Refine Proofs.Staking Proofs.StakedSum
  Proofs.Refine2 Proofs.NodeBasics Proofs.ForkChoice Proofs.Restart Proofs.ChainInv Proofs.ChainRun Proofs.ChainHeights
  Proofs.Undo Proofs.Undo2 Proofs.Undo4 Proofs.Replay1 Proofs.Replay2 Proofs.Replay3 Proofs.Replay4 Proofs.Replay5
  Proofs.History1 Proofs.History2 Proofs.History3 Proofs.History4.
From Virel Require Import Check.Hist.
From Virel Require Model.Des Model.Codec Spec.TxAbs Proofs.CodecBridge Check.C17.
Open Scope N_scope.
Open Scope bool_scope.

Section Decoded.
Variable txid_of key_id addr_id name_id : list N -> N.
Variable sig_by : Model.Codec.tx -> N.
Variable sig_msg : Model.Codec.tx -> bool.
Variable signer_invalid : list N -> bool.
Variable cfg : config.
Variable genesis_addr team_key : N.

Notation decoded := (TxAbs.tx_decoded txid_of key_id addr_id name_id sig_by sig_msg signer_invalid cfg).

(* the premise on the store: the blocks other than genesis hold abstractions of decoder outputs *)
Definition store_decoded (g : block) (n : node) : Prop :=
  forall h b, get_block n h = Some b -> h <> b_hash g -> Forall decoded (b_txs b).

Lemma tx_c_typed t : tx_c cfg t -> wf_tx cfg t /\ ver_ok t = true.
Proof. intros ((Hwf & _ & _ & Hver) & _). split; assumption. Qed.

(* ... gives the premise of the theorems of Replay5.v / History3.v *)
Lemma store_decoded_typed g n0 ops :
  CodecBridge.cfg_ok_burn cfg = true ->
  node0 cfg genesis_addr g = Ok n0 ->
  let n := run cfg genesis_addr team_key n0 ops in
  Forall (tx_c cfg) (b_txs g) ->
  store_decoded g n ->
  forall h b, get_block n h = Some b -> Forall (fun t => wf_tx cfg t /\ ver_ok t = true) (b_txs b).
Proof.
  intros Hb H0 n Hgen Hdec h b Hget.
  assert (Hgg : nget (blocks n) (b_hash g) = Some g).
  { apply (run_store_le cfg genesis_addr team_key ops n0).
    unfold node0 in H0. apply apply_block_node_eq in H0. destruct H0 as (l & ->).
    cbn [blocks set_ldg]. unfold nget. cbn [aget]. rewrite N.eqb_refl. reflexivity. }
  destruct (N.eq_dec h (b_hash g)) as [->|Hne].
  - unfold get_block in Hget. rewrite Hgg in Hget. injection Hget as <-.
    eapply Forall_impl; [|exact Hgen]. intros t Ht. exact (tx_c_typed t Ht).
  - eapply Forall_impl; [|exact (Hdec h b Hget Hne)]. intros t Ht.
    exact (CodecBridge.tx_decoded_typed txid_of key_id addr_id name_id sig_by sig_msg signer_invalid cfg t Hb Ht).
Qed.

Section Statements.
Variables (g : block) (n0 : node) (ops : list (block * N)).
Hypothesis Hok : cfg_ok_emission cfg = true.
Hypothesis Hfp : cfg_ok_feepos cfg = true.
Hypothesis Hburn : CodecBridge.cfg_ok_burn cfg = true.
Hypothesis Hn0 : node0 cfg genesis_addr g = Ok n0.
Hypothesis Hg0 : b_height g = 0.
Hypothesis Hcd : b_cd g = b_diff g.
Hypothesis Hlen : N.of_nat (length ops) < two64 - 1.
Notation n := (run cfg genesis_addr team_key n0 ops).
Hypothesis Hgen : Forall (tx_c cfg) (b_txs g).
Hypothesis Hdec : store_decoded g n.
Hypothesis Hpaths : forall bs, up (b_hash g) (blocks n) (b_hash g) bs ->
     NoDup (bkeys g ++ flat_map bkeys bs) /\ c0 g + bnouts bs < two64 /\ c0 g + bntx bs < two64.

Notation Htyped := (store_decoded_typed g n0 ops Hburn Hn0 Hgen Hdec).

(* C03 / C10: the ledger is the replay of the main chain *)
Theorem ledger_is_replay_decoded :
  exists lr, apply_chain cfg genesis_addr (ldg n0) (lbs n (mchain n)) = Ok lr /\
    same_accounts (ldg n) lr /\ dlgs (ldg n) = dlgs lr /\ staked (ldg n) = staked lr.
Proof. exact (ledger_is_replay_validated cfg genesis_addr team_key g n0 ops Hok Hfp Hn0 Hg0 Hcd Hlen Hgen Htyped Hpaths). Qed.

(* C17: incoming histories *)
Theorem incoming_history_decoded : forall a,
  let evs := evs_for a (main_credits cfg genesis_addr g n) in
  inc (acct_at (ldg n) a) = N.of_nat (length evs) /\
  forall k, 1 <= k <= inc (acct_at (ldg n) a) -> pget (intx (ldg n)) (a, k) = Some (nth (N.to_nat (k - 1)) evs 0).
Proof. exact (incoming_history_is_main_chain cfg genesis_addr team_key g n0 ops Hok Hfp Hn0 Hg0 Hcd Hlen Hgen Htyped Hpaths). Qed.

(* C17: outgoing histories *)
Theorem outgoing_history_decoded : forall a,
  let evs := evs_for a (main_signs g n) in
  nonce (acct_at (ldg n) a) = N.of_nat (length evs) /\
  forall k, 1 <= k <= nonce (acct_at (ldg n) a) -> pget (outtx (ldg n)) (a, k) = Some (nth (N.to_nat (k - 1)) evs 0).
Proof. exact (outgoing_history_is_main_chain cfg genesis_addr team_key g n0 ops Hok Hfp Hn0 Hg0 Hcd Hlen Hgen Htyped Hpaths). Qed.

(* C17: transaction heights *)
Theorem tx_heights_decoded :
  (forall B t, on_main g n B -> In t (b_txs B) -> nget (txh (ldg n)) (tx_id t) = Some (b_height B)) /\
  (forall id, (forall B t, on_main g n B -> In t (b_txs B) -> tx_id t <> id) ->
     nget (txh (ldg n)) id = None \/ nget (txh (ldg n)) id = Some 0).
Proof. exact (tx_heights_are_main_chain cfg genesis_addr team_key g n0 ops Hok Hfp Hn0 Hg0 Hcd Hlen Hgen Htyped Hpaths). Qed.

(* C17: the histories as the node serves them *)
Theorem histories_as_served_decoded : forall a,
  map (fun i => pget (intx (ldg n)) (a, N.of_nat i)) (seq 1 (N.to_nat (inc (acct_at (ldg n) a)))) =
    map Some (evs_for a (main_credits cfg genesis_addr g n)) /\
  map (fun i => pget (outtx (ldg n)) (a, N.of_nat i)) (seq 1 (N.to_nat (nonce (acct_at (ldg n) a)))) =
    map Some (evs_for a (main_signs g n)).
Proof. exact (histories_as_served cfg genesis_addr team_key g n0 ops Hok Hfp Hn0 Hg0 Hcd Hlen Hgen Htyped Hpaths). Qed.

(* C17: the event lists are those Check/C17.v replays *)
Theorem main_events_as_checked_decoded : forall h,
  h_genesis_addr h = genesis_addr ->
  main_credits cfg genesis_addr g n = flat_map (Check.C17.block_credits cfg h) (g :: mchain n) /\
  main_signs g n = flat_map Check.C17.block_signs (g :: mchain n).
Proof.
  intros h. exact (main_events_as_checked cfg Hok genesis_addr team_key g n0 ops h Hfp Hn0 Hg0 Hcd Hlen Hgen Htyped Hpaths).
Qed.

End Statements.
End Decoded.
