(* The transactions of a block returned by Block.DeserializeFull are, one by one, outputs of Transaction.Deserialize on a
   byte string of their own (the length-prefixed slice of each), in the mode the block's height prescribes: they satisfy
   the predicate [tx_decoded_at] of Spec/TxAbs.v, which is the premise of the *_decoded theorems of
   Proofs/CodecBridgeNode.v.

   DeserializeFull runs Transaction.Deserialize through [sub_des], i.e. on a fresh Des whose allocation counter continues
   the outer one, whereas [run] starts the counter at 0.  The counter is only ever added to (it is the model's account of
   make/append, never read by a decoder), so the value a decoder returns does not depend on it: [aind] below, proved
   for the primitives of Model/Des.v and the transaction decoders. *)
From Virel Require Import Lib.Config Lib.U64 Model.Des Model.Codec Model.CodecBlock Proofs.Des Spec.TxAbs Proofs.CodecBridge.
From Virel Require Model.Ledger.
Open Scope N_scope.

(* same remaining data, same sticky error *)
Definition seq (s s' : des) : Prop := d_data s = d_data s' /\ d_err s = d_err s'.

Definition aind {A} (m : M A) : Prop :=
  forall s s', seq s s' ->
    match m s, m s' with
    | MOk a t, MOk a' t' => a = a' /\ seq t t'
    | MErr _, MErr _ => True
    | MPanic, MPanic => True
    | _, _ => False
    end.

Lemma seq_refl s : seq s s. Proof. split; reflexivity. Qed.

Lemma aind_ret {A} (a : A) : aind (ret a).
Proof. intros s s' H. cbn. split; [reflexivity|exact H]. Qed.

Lemma aind_fail {A} : aind (@fail A).
Proof. intros s s' H. exact I. Qed.

Lemma aind_ret_err {A} (a : A) : aind (ret_err a).
Proof. intros s s' H. pose proof H as [_ He]. unfold ret_err. rewrite He. destruct (d_err s'); [exact I|]. split; [reflexivity|exact H]. Qed.

Lemma aind_alloc n : aind (alloc n).
Proof. intros s s' [Hd He]. cbn. split; [reflexivity|split; assumption]. Qed.

Lemma aind_bind {A B} (m : M A) (f : A -> M B) : aind m -> (forall a, aind (f a)) -> aind (bind m f).
Proof.
  intros Hm Hf s s' H. unfold bind. specialize (Hm s s' H).
  destruct (m s) as [a t| |], (m s') as [a' t'| |]; try contradiction; try exact I.
  destruct Hm as [<- Ht]. exact (Hf a t t' Ht).
Qed.

Ltac aind_prim :=
  let s := fresh "s" in let s' := fresh "s'" in let Hd := fresh "Hd" in let He := fresh "He" in
  intros s s' [Hd He]; destruct s as [d e a], s' as [d' e' a']; cbn [d_data d_err] in Hd, He; subst d' e'.

Ltac aind_leaf := first [exact I | split; [reflexivity|split; reflexivity]].

Lemma aind_read_u8 : aind read_u8.
Proof.
  aind_prim. unfold read_u8. cbn [d_err d_data]. destruct e; [aind_leaf|]. destruct d as [|b r]; aind_leaf.
Qed.

Lemma aind_read_uvarint : aind read_uvarint.
Proof.
  aind_prim. unfold read_uvarint. cbn [d_err d_data]. destruct e; [aind_leaf|].
  destruct (lenltb d 1); [aind_leaf|]. destruct (uvarint d) as [v x]. destruct (x <? 0)%Z; [aind_leaf|].
  destruct (split_at d (Z.to_N x)) as [[b r]|]; aind_leaf.
Qed.

Lemma aind_read_fixed n : aind (read_fixed n).
Proof.
  aind_prim. unfold read_fixed. cbn [d_err d_data]. destruct e; [aind_leaf|].
  destruct (lenltb d n); [aind_leaf|]. destruct (split_at d n) as [[b r]|]; aind_leaf.
Qed.

Lemma aind_to_array n b : aind (to_array n b).
Proof.
  intros s s' H. unfold to_array. destruct (split_at b n) as [[x r]|]; [split; [reflexivity|exact H]|exact I].
Qed.

Lemma aind_read_byte_slice fixed : aind (read_byte_slice_gen fixed).
Proof.
  aind_prim. unfold read_byte_slice_gen. cbn [d_err d_data]. destruct e; [aind_leaf|].
  destruct (lenltb d 1); [aind_leaf|]. destruct (uvarint d) as [len x]. destruct (x <? 0)%Z; [aind_leaf|].
  destruct (split_at d (Z.to_N x)) as [[b r]|]; [|aind_leaf].
  destruct (if fixed then lenltb r len else len_lt_int r (int_of_u64 len)); [aind_leaf|].
  destruct (split_at r len) as [[b2 r2]|]; aind_leaf.
Qed.

Lemma aind_rep {A} (m : M A) n : aind m -> aind (rep n m).
Proof.
  intros Hm. induction n as [|k IH]; cbn [rep]; [apply aind_ret|].
  apply aind_bind; [exact Hm|]. intros a. apply aind_bind; [exact IH|]. intros l. apply aind_ret.
Qed.

Section Decoders.
Variable cfg : config.

Lemma aind_dec_output : aind (dec_output cfg).
Proof.
  unfold dec_output. apply aind_bind; [apply aind_read_fixed|]. intros r0. apply aind_bind; [apply aind_to_array|]. intros r.
  apply aind_bind; [apply aind_read_uvarint|]. intros p. apply aind_bind; [apply aind_read_uvarint|]. intros a.
  apply aind_ret_err.
Qed.

Lemma aind_dec_transfer : aind (dec_transfer cfg).
Proof.
  unfold dec_transfer. apply aind_bind; [apply aind_read_uvarint|]. intros n.
  destruct ((max_outputs cfg <? n) || (n =? 0)); [apply aind_fail|].
  apply aind_bind; [apply aind_alloc|]. intros _.
  apply aind_bind; [apply aind_rep, aind_dec_output|]. intros outs. apply aind_ret_err.
Qed.

Lemma aind_dec_register : aind dec_register.
Proof.
  unfold dec_register, read_byte_slice. apply aind_bind; [apply aind_read_byte_slice|]. intros name.
  apply aind_bind; [apply aind_read_uvarint|]. intros id. apply aind_ret_err.
Qed.

Lemma aind_dec_set_delegate : aind dec_set_delegate.
Proof.
  unfold dec_set_delegate. apply aind_bind; [apply aind_read_uvarint|]. intros d.
  apply aind_bind; [apply aind_read_uvarint|]. intros p. apply aind_ret_err.
Qed.

Lemma aind_dec_stake : aind dec_stake.
Proof.
  unfold dec_stake. apply aind_bind; [apply aind_read_uvarint|]. intros a.
  apply aind_bind; [apply aind_read_uvarint|]. intros d. apply aind_bind; [apply aind_read_uvarint|]. intros p.
  apply aind_ret_err.
Qed.

Lemma aind_dec_unstake : aind dec_unstake.
Proof.
  unfold dec_unstake. apply aind_bind; [apply aind_read_uvarint|]. intros a.
  apply aind_bind; [apply aind_read_uvarint|]. intros d. apply aind_ret_err.
Qed.

Lemma aind_dec_tx hv : aind (dec_tx cfg hv).
Proof.
  unfold dec_tx. apply aind_bind.
  { destruct hv; [|apply aind_ret]. apply aind_bind; [apply aind_read_u8|]. intros v.
    destruct ((max_tx_version cfg <? v) || (v =? 0)); [apply aind_fail|apply aind_ret]. }
  intros ver.
  apply aind_bind; [apply aind_read_fixed|]. intros sg0. apply aind_bind; [apply aind_to_array|]. intros sg.
  apply aind_bind; [apply aind_read_fixed|]. intros si0. apply aind_bind; [apply aind_to_array|]. intros si.
  apply aind_bind.
  { destruct ((ver =? 0) || (ver =? 1)); [apply aind_dec_transfer|].
    destruct (ver =? 2); [apply aind_dec_register|]. destruct (ver =? 3); [apply aind_dec_set_delegate|].
    destruct (ver =? 4); [apply aind_dec_stake|]. destruct (ver =? 5); [apply aind_dec_unstake|apply aind_fail]. }
  intros d. apply aind_bind; [apply aind_read_uvarint|]. intros nonce.
  apply aind_bind; [apply aind_read_uvarint|]. intros fee. apply aind_ret_err.
Qed.

(* what a sub-decoder returns is what it returns when run on the slice by itself *)
Lemma post_sub_des_run {A} (m : M A) sl : aind m -> post (sub_des sl m) (fun a => result_of (run m sl) = ROk a).
Proof.
  intros Hm s. unfold sub_des, run.
  specialize (Hm (mkdes sl false (d_alloc s)) (init sl) (conj eq_refl eq_refl)).
  destruct (m (mkdes sl false (d_alloc s))) as [a t| |]; [|exact I|exact I].
  destruct (m (init sl)) as [a' t'| |]; try contradiction. destruct Hm as [<- _]. reflexivity.
Qed.

Lemma post_dec_full_block_each :
  post (dec_full_block cfg)
       (fun r => Forall (fun t => exists sl, result_of (run (dec_tx cfg (hf_v2 cfg <=? hd_height (bl_header (fst r)))) sl) = ROk t)
                        (snd r)).
Proof.
  unfold dec_full_block.
  apply post_skip. intros h. apply post_skip. intros diff. apply post_skip. intros cum. apply post_skip. intros ntx.
  apply post_skip. intros _.
  destruct (max_tx_per_block cfg <? ntx); [apply post_fail|].
  apply post_skip. intros _.
  apply (post_bind _ _ (Forall (fun t => exists sl, result_of (run (dec_tx cfg (hf_v2 cfg <=? hd_height h)) sl) = ROk t))).
  { apply post_rep. apply post_skip. intros sl.
    apply (post_bind _ _ (fun t => result_of (run (dec_tx cfg (hf_v2 cfg <=? hd_height h)) sl) = ROk t));
      [apply post_sub_des_run, aind_dec_tx|].
    intros t Ht. apply post_skip. intros _. apply post_ret. exists sl. exact Ht. }
  intros txs Htxs. apply post_ret_err. cbn [fst snd bl_header]. exact Htxs.
Qed.

End Decoders.

Section Abstraction.
Variable txid_of key_id addr_id name_id : list N -> N.
Variable sig_by : tx -> N.
Variable sig_msg : tx -> bool.
Variable signer_invalid : list N -> bool.
Notation abs_tx := (abs_tx txid_of key_id addr_id name_id sig_by sig_msg signer_invalid).
Notation tx_decoded_at := (tx_decoded_at txid_of key_id addr_id name_id sig_by sig_msg signer_invalid).

(* the abstractions of the transactions of a decoded block are decoder outputs at the block's height *)
Theorem decoded_block_txs_decoded cfg bs b txs :
  result_of (run (dec_full_block cfg) bs) = ROk (b, txs) ->
  Forall (tx_decoded_at cfg (hd_height (bl_header b))) (map abs_tx txs).
Proof.
  intros H. pose proof (post_result _ _ bs (b, txs) (post_dec_full_block_each cfg) H) as Hp. cbn [fst snd] in Hp.
  apply Forall_map. eapply Forall_impl; [|exact Hp]. intros t (sl & Hsl). exists sl, t. split; [exact Hsl|reflexivity].
Qed.

End Abstraction.
