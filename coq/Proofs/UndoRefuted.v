(* Property C03: concrete evaluations in the model (unittest configuration).

   1. Regression witness of finding R21.  Before the repair d31bf91 of /repo the undo of an unstake that had emptied a
      fund (ApplyStake with reverse = true) re-created the fund by APPENDING it to the pool's fund list: when the fund
      was not the last of the list, the pool's record after apply + remove listed the same funds in another order
      (chaintype.Delegate.SortFunds was never called), so the literal statement "disconnecting a block restores every
      delegate record" was false: on the ledger below, pool 7 came back as [5:50; 3:100] instead of [3:100; 5:50]
      (this file then proved  ~ C03_undo_block_full  with this witness).  The fund is now re-inserted at the position it
      has in the record saved under the transaction id, and the same evaluation restores the record exactly.
   2. A fund with amount 0 (does not occur in reachable ledgers, see FPos in Proofs/Undo.v): staking into it and
      undoing the stake drops the fund.  Shows that the hypothesis FPos of the undo theorems cannot be omitted. *)
From Coq Require Import Sorting.Sorted.
From Virel Require Import Lib.Config Lib.U64 Lib.AMap Gen.Params Model.Emission Model.Ledger
  Proofs.AMapLemmas Proofs.Conservation Proofs.Pointwise Proofs.Staking Proofs.StakedSum Proofs.Undo.
Open Scope N_scope.

(* keys 1 and 2 (addresses 3 and 5) have staked 100 and 50 in pool 7 (owner key 9, pool address 14) *)
Definition wit_ledger : ledger :=
  mkledger [(3, mkacct 1000 0 0 7); (5, mkacct 1000 0 0 7); (14, mkacct 150 0 2 0)]
           [(7, mkdlg 7 9 0 [mkfund 3 100 0; mkfund 5 50 0])] 150 [] [] [] [].
(* key 1 unstakes its whole fund (version 5, fee 10, nonce 1) *)
Definition wit_tx : tx := mktx 77 5 1 1 true false (TUnstake 100 7) 1 10.
(* a version-0 block at height 5 containing that transaction *)
Definition wit_block : lblock := mklblock 99 0 5 21 0 0 false 0 [wit_tx].

Definition wit_l1 : ledger :=
  Eval vm_compute in match apply_tx cfg_unittest wit_ledger wit_tx 5 99 4 with Ok l => l | _ => ledger0 end.
Definition wit_l2 : ledger :=
  Eval vm_compute in match remove_tx cfg_unittest wit_l1 wit_tx 99 5 with Ok l => l | _ => ledger0 end.
Definition wit_lB : ledger :=
  Eval vm_compute in match apply_block cfg_unittest 201 wit_ledger wit_block 4 with Ok l => l | _ => ledger0 end.
Definition wit_lB2 : ledger :=
  Eval vm_compute in match remove_block cfg_unittest 201 wit_lB wit_block 5 with Ok l => l | _ => ledger0 end.

Theorem undo_unstake_order_witness_restored :
  apply_tx cfg_unittest wit_ledger wit_tx 5 99 4 = Ok wit_l1 /\
  get_dlg wit_l1 7 = Some (mkdlg 7 9 0 [mkfund 5 50 0]) /\
  remove_tx cfg_unittest wit_l1 wit_tx 99 5 = Ok wit_l2 /\
  dlgs wit_l2 = dlgs wit_ledger /\ accts wit_l2 = accts wit_ledger /\ staked wit_l2 = staked wit_ledger /\
  apply_block cfg_unittest 201 wit_ledger wit_block 4 = Ok wit_lB /\
  remove_block cfg_unittest 201 wit_lB wit_block 5 = Ok wit_lB2 /\
  dlgs wit_lB2 = dlgs wit_ledger /\ staked wit_lB2 = staked wit_ledger.
Proof. repeat split; vm_compute; reflexivity. Qed.

(* ---- a fund with amount 0 ---- *)
Definition zero_ledger : ledger :=
  mkledger [(3, mkacct 1000 0 0 7); (14, mkacct 50 0 2 0)]
           [(7, mkdlg 7 9 0 [mkfund 3 0 0; mkfund 5 50 0])] 50 [] [] [] [].
Definition zero_tx : tx := mktx 78 4 1 1 true false (TStake 100 7 0) 1 10.
Definition zero_l1 : ledger :=
  Eval vm_compute in match apply_tx cfg_unittest zero_ledger zero_tx 5 99 4 with Ok l => l | _ => ledger0 end.
Definition zero_l2 : ledger :=
  Eval vm_compute in match remove_tx cfg_unittest zero_l1 zero_tx 99 5 with Ok l => l | _ => ledger0 end.

Theorem undo_stake_zero_fund_refuted :
  SInv zero_ledger /\ total_bal zero_ledger < two64 /\ wf_tx cfg_unittest zero_tx /\
  apply_tx cfg_unittest zero_ledger zero_tx 5 99 4 = Ok zero_l1 /\
  remove_tx cfg_unittest zero_l1 zero_tx 99 5 = Ok zero_l2 /\
  get_dlg zero_l2 7 = Some (mkdlg 7 9 0 [mkfund 5 50 0]) /\
  get_dlg zero_l2 7 <> get_dlg zero_ledger 7.
Proof.
  split. { split; [repeat constructor|]. split; [repeat constructor|]. split; vm_compute; reflexivity. }
  split; [vm_compute; reflexivity|]. split; [repeat split; vm_compute; reflexivity|].
  split; [vm_compute; reflexivity|]. split; [vm_compute; reflexivity|]. split; [vm_compute; reflexivity|].
  vm_compute. discriminate.
Qed.
