(* Property C03: concrete counterexamples (evaluated in the model with the unittest configuration) to the literal
   statement "removing a transaction / a block right after applying it restores every delegate record".

   1. Order of the funds of a pool.  ApplyUnstake drops a fund that reaches 0; its undo (ApplyStake with reverse = true)
      re-creates the fund by APPENDING it to the pool's fund list.  When the fund was not the last of the list, the
      pool's record after apply + remove lists the same funds (owner, amount, unlock height) in a different order.
      The Go code keeps funds in insertion order (chaintype.Delegate.SortFunds exists but is never called, although
      a comment in ApplyStake says that SetDelegate sorts the funds), so the stored record of the pool after a
      reorganisation differs from the record of a node that followed the main chain only.  Nothing in the model reads
      the order (lottery, reward split and fund lookup are order independent when owners are distinct); the
      implementation-side check of C03 compares the funds of a pool by owner for the same reason.
      Proofs/Undo3.v proves the undo theorems up to this order; Proofs/Undo2.v proves them exactly when every fully
      unstaked fund is the last of its pool.
   2. A fund with amount 0 (does not occur in reachable ledgers, see FPos in Proofs/Undo.v): staking into it and
      undoing the stake drops the fund.  Shows that the hypothesis FPos of the undo theorems cannot be omitted. *)
From Coq Require Import Sorting.Sorted.
From Virel Require Import Lib.Config Lib.U64 Lib.AMap Gen.Params Model.Emission Model.Ledger
  Proofs.AMapLemmas Proofs.Conservation Proofs.Pointwise Proofs.Staking Proofs.StakedSum Proofs.Undo.
Open Scope N_scope.

(* keys 1 and 2 (addresses 3 and 5) have staked 100 and 50 in pool 7 (owner key 9, pool address 14) *)
Definition wit_ledger : ledger :=
  mkledger [(3, mkacct 1000 0 0 7); (5, mkacct 1000 0 0 7); (14, mkacct 150 0 2 0)]
           [(7, mkdlg 7 9 0 [mkfund 3 100 0; mkfund 5 50 0])] 150 [] [] [] [].
(* key 1 unstakes its whole fund (version 5, fee 10, nonce 1) *)
Definition wit_tx : tx := mktx 77 5 1 1 true false (TUnstake 100 7) 1 10.
(* a version-0 block at height 5 containing that transaction *)
Definition wit_block : lblock := mklblock 99 0 5 21 0 0 false 0 [wit_tx].

Lemma wit_SInv : SInv wit_ledger.
Proof.
  split; [repeat constructor|]. split; [repeat constructor|]. split; vm_compute; reflexivity.
Qed.

Lemma wit_FPos : FPos wit_ledger.
Proof.
  intros id d f Hg Hin. unfold get_dlg, wit_ledger in Hg. cbn [dlgs nget aget] in Hg.
  destruct (id =? 7); [|discriminate]. injection Hg as <-. cbn [d_funds In] in Hin.
  destruct Hin as [<-|[<-|[]]]; cbn [f_amt]; lia.
Qed.

Definition wit_l1 : ledger :=
  Eval vm_compute in match apply_tx cfg_unittest wit_ledger wit_tx 5 99 4 with Ok l => l | _ => ledger0 end.
Definition wit_l2 : ledger :=
  Eval vm_compute in match remove_tx cfg_unittest wit_l1 wit_tx 99 5 with Ok l => l | _ => ledger0 end.

(* a transaction: every hypothesis of the undo theorem holds except "the emptied fund is the last of its pool" *)
Theorem undo_unstake_order_refuted :
  SInv wit_ledger /\ FPos wit_ledger /\ total_bal wit_ledger < two64 /\
  wf_tx cfg_unittest wit_tx /\ tx_total cfg_unittest wit_tx = Some 100 /\
  apply_tx cfg_unittest wit_ledger wit_tx 5 99 4 = Ok wit_l1 /\
  remove_tx cfg_unittest wit_l1 wit_tx 99 5 = Ok wit_l2 /\
  get_dlg wit_ledger 7 = Some (mkdlg 7 9 0 [mkfund 3 100 0; mkfund 5 50 0]) /\
  get_dlg wit_l2 7 = Some (mkdlg 7 9 0 [mkfund 5 50 0; mkfund 3 100 0]) /\
  get_dlg wit_l2 7 <> get_dlg wit_ledger 7.
Proof.
  split; [exact wit_SInv|]. split; [exact wit_FPos|]. split; [vm_compute; reflexivity|].
  split; [repeat split; vm_compute; reflexivity|].
  split; [vm_compute; reflexivity|]. split; [vm_compute; reflexivity|]. split; [vm_compute; reflexivity|].
  split; [vm_compute; reflexivity|]. split; [vm_compute; reflexivity|]. vm_compute. discriminate.
Qed.

(* a block: the literal full statement of Props/C03.v (C03_undo_block_full) is false *)
Definition wit_lB : ledger :=
  Eval vm_compute in match apply_block cfg_unittest 201 wit_ledger wit_block 4 with Ok l => l | _ => ledger0 end.

Theorem undo_block_full_refuted :
  ~ (forall cfg genesis_addr l b top_h l1,
       apply_block cfg genesis_addr l b top_h = Ok l1 ->
       exists l2, remove_block cfg genesis_addr l1 b top_h = Ok l2 /\ same_accounts l2 l /\
                  (forall id, get_dlg l2 id = get_dlg l id) /\ staked l2 = staked l).
Proof.
  intros H.
  assert (E : apply_block cfg_unittest 201 wit_ledger wit_block 4 = Ok wit_lB) by (vm_compute; reflexivity).
  destruct (H cfg_unittest 201 wit_ledger wit_block 4 wit_lB E) as (l2 & Hr & _ & Hd & _).
  vm_compute in Hr. injection Hr as <-. specialize (Hd 7). vm_compute in Hd. discriminate Hd.
Qed.

(* ---- a fund with amount 0 ---- *)
Definition zero_ledger : ledger :=
  mkledger [(3, mkacct 1000 0 0 7); (14, mkacct 50 0 2 0)]
           [(7, mkdlg 7 9 0 [mkfund 3 0 0; mkfund 5 50 0])] 50 [] [] [] [].
Definition zero_tx : tx := mktx 78 4 1 1 true false (TStake 100 7 0) 1 10.
Definition zero_l1 : ledger :=
  Eval vm_compute in match apply_tx cfg_unittest zero_ledger zero_tx 5 99 4 with Ok l => l | _ => ledger0 end.
Definition zero_l2 : ledger :=
  Eval vm_compute in match remove_tx cfg_unittest zero_l1 zero_tx 99 5 with Ok l => l | _ => ledger0 end.

Theorem undo_stake_zero_fund_refuted :
  SInv zero_ledger /\ total_bal zero_ledger < two64 /\ wf_tx cfg_unittest zero_tx /\
  apply_tx cfg_unittest zero_ledger zero_tx 5 99 4 = Ok zero_l1 /\
  remove_tx cfg_unittest zero_l1 zero_tx 99 5 = Ok zero_l2 /\
  get_dlg zero_l2 7 = Some (mkdlg 7 9 0 [mkfund 5 50 0]) /\
  get_dlg zero_l2 7 <> get_dlg zero_ledger 7.
Proof.
  split. { split; [repeat constructor|]. split; [repeat constructor|]. split; vm_compute; reflexivity. }
  split; [vm_compute; reflexivity|]. split; [repeat split; vm_compute; reflexivity|].
  split; [vm_compute; reflexivity|]. split; [vm_compute; reflexivity|]. split; [vm_compute; reflexivity|].
  vm_compute. discriminate.
Qed.
