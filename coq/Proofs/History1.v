(* Property C17, "the wallet-facing indexes match the main chain", first part: numbered histories in general and the
   way the ledger operations write them.

   A numbered history is a counter per address (the incoming counter / the nonce of the account record) and a table
   (address, number) -> id.  [tinv c T E]: for every address the counter is the number of events of the list [E] that
   concern the address, and the table holds under the numbers 1 .. counter the ids of these events in the order of
   [E]; entries above the counter are unconstrained (stale entries of disconnected blocks stay there and are not
   served).  [tstep c T E c' T']: what an application does to a numbered history whether or not it stops early on an
   ignored error: counters only grow, by at most the events of [E], entries at or below the old counters are never
   touched, and WHEN the counters grew by exactly the events of [E] the new entries are these events in order.
   ApplyTxOutputsToState, ApplyTxToState, ApplyBlockToState on ANY ledger are steps in this sense (the incoming index
   with the counter [inc], the outgoing index with [nonce]); the removal functions never write the two indexes.  The
   exact counts come from the replay (Proofs/History2.v), so no statement about ignored errors is needed here. *)
From Virel Require Import Lib.Config Lib.U64 Lib.AMap Model.Emission Model.Ledger
  Proofs.AMapLemmas Proofs.Emission Proofs.Conservation Proofs.Pointwise Proofs.Staking Proofs.StakedSum
  Proofs.Undo Proofs.Undo2 Proofs.Undo4 Proofs.Replay1.
Open Scope N_scope.
Open Scope bool_scope.

(* ---- tables keyed by pairs ---- *)
Lemma pair_keqb_true a b : pair_keqb a b = true <-> a = b.
Proof.
  destruct a as [a1 a2], b as [b1 b2]. unfold pair_keqb. cbn [fst snd]. rewrite Bool.andb_true_iff, !N.eqb_eq.
  split; [intros [-> ->]; reflexivity|intros [= -> ->]; split; reflexivity].
Qed.

Lemma pget_pset {V} (m : list ((N * N) * V)) k v k' :
  pget (pset m k v) k' = if pair_keqb k' k then Some v else pget m k'.
Proof.
  unfold pget, pset. induction m as [|[k0 v0] m IH]; cbn [aset aget].
  - reflexivity.
  - destruct (pair_keqb k k0) eqn:E; cbn [aget].
    + apply pair_keqb_true in E. subst k0. destruct (pair_keqb k' k); reflexivity.
    + destruct (pair_keqb k' k0) eqn:E0.
      * apply pair_keqb_true in E0. subst k0.
        destruct (pair_keqb k' k) eqn:E1; [|reflexivity].
        apply pair_keqb_true in E1. subst k'. rewrite (proj2 (pair_keqb_true k k) eq_refl) in E. discriminate.
      * exact IH.
Qed.

(* ---- events ---- *)
(* an event = (address, id); the ids of the events of an address, in order *)
Definition evs_for (a : N) (E : list (N * N)) : list N := map snd (filter (fun e => fst e =? a) E).
Definition cnt (a : N) (E : list (N * N)) : N := N.of_nat (length (evs_for a E)).

Lemma evs_for_app a E1 E2 : evs_for a (E1 ++ E2) = evs_for a E1 ++ evs_for a E2.
Proof. unfold evs_for. rewrite filter_app, map_app. reflexivity. Qed.
Lemma cnt_app a E1 E2 : cnt a (E1 ++ E2) = cnt a E1 + cnt a E2.
Proof. unfold cnt. rewrite evs_for_app, app_length. lia. Qed.
Lemma cnt_nil a : cnt a [] = 0. Proof. reflexivity. Qed.
Lemma cnt_cons a x i E : cnt a ((x, i) :: E) = (if x =? a then 1 else 0) + cnt a E.
Proof.
  unfold cnt, evs_for. cbn [filter fst]. destruct (x =? a); cbn [map length]; lia.
Qed.
Lemma cnt_one a x i : cnt a [(x, i)] = if x =? a then 1 else 0.
Proof. rewrite cnt_cons, cnt_nil. destruct (x =? a); reflexivity. Qed.
Lemma evs_for_one a x i : evs_for a [(x, i)] = if x =? a then [i] else [].
Proof. unfold evs_for. cbn [filter fst]. destruct (x =? a); reflexivity. Qed.
Lemma cnt_le_length a E : cnt a E <= N.of_nat (length E).
Proof.
  unfold cnt, evs_for. rewrite map_length.
  induction E as [|e E IH]; cbn [filter length]; [lia|]. destruct (fst e =? a); cbn [length]; lia.
Qed.

Definition ptab := list ((N * N) * N).

(* ---- numbered histories ---- *)
Definition tinv (c : N -> N) (T : ptab) (E : list (N * N)) : Prop :=
  forall a, c a = cnt a E /\
            forall k, 1 <= k <= c a -> pget T (a, k) = Some (nth (N.to_nat (k - 1)) (evs_for a E) 0).

Definition tstep (c : N -> N) (T : ptab) (E : list (N * N)) (c' : N -> N) (T' : ptab) : Prop :=
  (forall a, c a <= c' a /\ c' a <= c a + cnt a E) /\
  ((forall a, c' a = c a + cnt a E) ->
   forall a k, pget T' (a, k) = if (c a <? k) && (k <=? c' a)
                                then Some (nth (N.to_nat (k - c a - 1)) (evs_for a E) 0)
                                else pget T (a, k)).

(* nothing happened (an application that stopped at once) *)
Lemma tstep_stuck c T E c' T' :
  (forall a, c' a = c a) -> (forall k, pget T' k = pget T k) -> tstep c T E c' T'.
Proof.
  intros Hc HT. split.
  - intros a. rewrite Hc. lia.
  - intros Hex a k. rewrite Hc, HT.
    destruct (N.ltb_spec (c a) k); destruct (N.leb_spec k (c a)); cbn [andb]; try reflexivity. lia.
Qed.

Lemma tstep_trans c T E1 c1 T1 E2 c2 T2 :
  tstep c T E1 c1 T1 -> tstep c1 T1 E2 c2 T2 -> tstep c T (E1 ++ E2) c2 T2.
Proof.
  intros [B1 X1] [B2 X2]. split.
  - intros a. rewrite cnt_app. destruct (B1 a), (B2 a). lia.
  - intros Hex.
    assert (H1 : forall a, c1 a = c a + cnt a E1).
    { intros a. specialize (Hex a). rewrite cnt_app in Hex. destruct (B1 a), (B2 a). lia. }
    assert (H2 : forall a, c2 a = c1 a + cnt a E2).
    { intros a. specialize (Hex a). rewrite cnt_app in Hex. rewrite H1. lia. }
    intros a k. rewrite (X2 H2 a k), (X1 H1 a k), evs_for_app.
    pose proof (H1 a) as H1a. pose proof (H2 a) as H2a. unfold cnt in H1a, H2a.
    destruct (N.ltb_spec (c1 a) k); destruct (N.leb_spec k (c2 a)); cbn [andb].
    + destruct (N.ltb_spec (c a) k); [|lia]. cbn [andb]. f_equal.
      rewrite app_nth2 by lia. f_equal. lia.
    + destruct (N.ltb_spec (c a) k); destruct (N.leb_spec k (c1 a)); cbn [andb]; try reflexivity; lia.
    + destruct (N.ltb_spec (c a) k); destruct (N.leb_spec k (c1 a)); cbn [andb]; try reflexivity; try lia.
      f_equal. rewrite app_nth1 by lia. reflexivity.
    + lia.
Qed.

(* one event written under the next number *)
Lemma tstep_one c T x i c' T' :
  (forall a, c' a = if a =? x then c x + 1 else c a) ->
  (forall k, pget T' k = if pair_keqb k (x, c x + 1) then Some i else pget T k) ->
  tstep c T [(x, i)] c' T'.
Proof.
  intros Hc HT. split.
  - intros a. rewrite Hc, cnt_one. destruct (N.eqb_spec a x) as [->|Hne].
    + rewrite N.eqb_refl. lia.
    + destruct (N.eqb_spec x a); [congruence|]. lia.
  - intros _ a k. rewrite HT, Hc, evs_for_one.
    destruct (pair_keqb (a, k) (x, c x + 1)) eqn:Ek.
    + apply pair_keqb_true in Ek. injection Ek as -> ->. rewrite N.eqb_refl.
      destruct (N.ltb_spec (c x) (c x + 1)); [|lia]. destruct (N.leb_spec (c x + 1) (c x + 1)); [|lia]. cbn [andb].
      replace (c x + 1 - c x - 1) with 0 by lia. reflexivity.
    + destruct (N.eqb_spec a x) as [->|Hne].
      * destruct (N.ltb_spec (c x) k); destruct (N.leb_spec k (c x + 1)); cbn [andb]; try reflexivity.
        assert (k = c x + 1) by lia. subst k. rewrite (proj2 (pair_keqb_true _ _) eq_refl) in Ek. discriminate.
      * destruct (N.ltb_spec (c a) k); destruct (N.leb_spec k (c a)); cbn [andb]; try reflexivity. lia.
Qed.

(* counters and table replaced by equal ones *)
Lemma tstep_ext c T E c' T' d D d' D' :
  (forall a, d a = c a) -> (forall k, pget D k = pget T k) ->
  (forall a, d' a = c' a) -> (forall k, pget D' k = pget T' k) ->
  tstep c T E c' T' -> tstep d D E d' D'.
Proof.
  intros Hd HD Hd' HD' [B X]. split.
  - intros a. rewrite Hd, Hd'. apply B.
  - intros Hex a k. rewrite HD', Hd, Hd', HD. apply X. intros a'. rewrite <- Hd, <- Hd'. apply Hex.
Qed.

Lemma tinv_nil c T : (forall a, c a = 0) -> tinv c T [].
Proof. intros H a. split; [rewrite H; reflexivity|intros k Hk; rewrite H in Hk; lia]. Qed.

(* a step whose counters end at the number of all events extends the history *)
Lemma tinv_step c T E c' T' E' :
  tinv c T E -> tstep c T E' c' T' -> (forall a, c' a = cnt a (E ++ E')) -> tinv c' T' (E ++ E').
Proof.
  intros HI [B X] Hc.
  assert (Hex : forall a, c' a = c a + cnt a E').
  { intros a. rewrite Hc, cnt_app. destruct (HI a) as [-> _]. reflexivity. }
  intros a. split; [apply Hc|]. intros k Hk. rewrite (X Hex a k), evs_for_app.
  destruct (HI a) as [Hca Hent]. pose proof Hca as Hca'. unfold cnt in Hca'.
  destruct (N.ltb_spec (c a) k); destruct (N.leb_spec k (c' a)); cbn [andb]; try lia.
  - f_equal. rewrite app_nth2 by lia. f_equal. lia.
  - rewrite Hent by lia. f_equal. rewrite app_nth1 by lia. reflexivity.
Qed.

(* the counters fall back to the events of a prefix; the table is not written *)
Lemma tinv_back c T E E' c' T' :
  tinv c T (E ++ E') -> (forall a, c' a = cnt a E) -> (forall k, pget T' k = pget T k) -> tinv c' T' E.
Proof.
  intros HI Hc HT a. split; [apply Hc|]. intros k Hk. rewrite HT.
  destruct (HI a) as [Hca Hent]. rewrite cnt_app in Hca. pose proof (Hc a) as Hc'.
  rewrite Hent by lia. unfold cnt in Hc'. f_equal. rewrite evs_for_app, app_nth1 by lia. reflexivity.
Qed.

Lemma tinv_ext c T E d D : (forall a, d a = c a) -> (forall k, pget D k = pget T k) -> tinv c T E -> tinv d D E.
Proof. intros Hd HD HI a. destruct (HI a) as [H1 H2]. rewrite Hd. split; [exact H1|]. intros k Hk. rewrite HD. apply H2. exact Hk. Qed.

(* the form in which Check/C17.v compares a dump: the entries 1 .. counter, in order *)
Lemma tinv_served c T E a : tinv c T E ->
  map (fun i => pget T (a, N.of_nat i)) (seq 1 (N.to_nat (c a))) = map Some (evs_for a E).
Proof.
  intros HI. destruct (HI a) as [Hc Hent]. unfold cnt in Hc.
  apply (nth_ext _ _ None None).
  - rewrite !map_length, seq_length. lia.
  - intros j Hj. rewrite map_length, seq_length in Hj.
    set (f := fun i => pget T (a, N.of_nat i)).
    assert (HL : nth j (map f (seq 1 (N.to_nat (c a)))) None = f (S j)).
    { rewrite (nth_indep _ None (f O)) by (rewrite map_length, seq_length; exact Hj).
      rewrite (map_nth f), seq_nth by exact Hj. reflexivity. }
    assert (HR : nth j (map Some (evs_for a E)) None = Some (nth j (evs_for a E) 0)).
    { rewrite (nth_indep _ None (Some 0)) by (rewrite map_length; lia). apply (map_nth Some). }
    rewrite HL, HR. unfold f. rewrite Hent by lia. f_equal. f_equal. lia.
Qed.

(* ---- transaction heights ---- *)
(* [H] = (transaction id, height) of the transactions of a chain: every one of them has its height in the table; every
   other id of the table has height 0 (a transaction of a disconnected block) *)
Definition hinv (T : list (N * N)) (H : list (N * N)) : Prop :=
  (forall id h, In (id, h) H -> nget T id = Some h) /\
  (forall id, ~ In id (map fst H) -> nget T id = None \/ nget T id = Some 0).

Lemma hinv_apply T H ids ht T' :
  hinv T H -> (forall id, In id (map fst H) -> ~ In id ids) ->
  (forall id, nget T' id = if in_dec N.eq_dec id ids then Some ht else nget T id) ->
  hinv T' (H ++ map (fun id => (id, ht)) ids).
Proof.
  intros [H1 H2] Hdis HT. split.
  - intros id h Hin. rewrite HT. apply in_app_or in Hin. destruct Hin as [Hin|Hin].
    + destruct (in_dec N.eq_dec id ids) as [Hi|_]; [|apply H1; exact Hin].
      exfalso. apply (Hdis id); [|exact Hi]. apply in_map_iff. exists (id, h). split; [reflexivity|exact Hin].
    + apply in_map_iff in Hin. destruct Hin as (x & [= <- <-] & Hx).
      destruct (in_dec N.eq_dec x ids); [reflexivity|contradiction].
  - intros id Hn. rewrite HT. rewrite map_app, map_map in Hn. cbn [fst] in Hn. rewrite map_id in Hn.
    destruct (in_dec N.eq_dec id ids) as [Hi|_]; [exfalso; apply Hn; apply in_or_app; right; exact Hi|].
    apply H2. intros Hin. apply Hn. apply in_or_app. left. exact Hin.
Qed.

Lemma hinv_remove T H ids ht T' :
  hinv T (H ++ map (fun id => (id, ht)) ids) -> (forall id, In id (map fst H) -> ~ In id ids) ->
  (forall id, nget T' id = if in_dec N.eq_dec id ids then Some 0 else nget T id) ->
  hinv T' H.
Proof.
  intros [H1 H2] Hdis HT. split.
  - intros id h Hin. rewrite HT.
    destruct (in_dec N.eq_dec id ids) as [Hi|_].
    + exfalso. apply (Hdis id); [|exact Hi]. apply in_map_iff. exists (id, h). split; [reflexivity|exact Hin].
    + apply H1. apply in_or_app. left. exact Hin.
  - intros id Hn. rewrite HT. destruct (in_dec N.eq_dec id ids) as [Hi|Hni]; [right; reflexivity|].
    apply H2. rewrite map_app, map_map. cbn [fst]. rewrite map_id. intros Hin. apply in_app_or in Hin. tauto.
Qed.

(* ------------------------------------------------------------------------------------------------------------ *)
(* the ledger: counters and indexes *)
Definition cI (l : ledger) : N -> N := fun a => inc (acct_at l a).
Definition cN (l : ledger) : N -> N := fun a => nonce (acct_at l a).
Definition tabs (l : ledger) : ptab * ptab * list (N * N) := (intx l, outtx l, txh l).

Lemma tabs_eq l l' : tabs l' = tabs l -> intx l' = intx l /\ outtx l' = outtx l /\ txh l' = txh l.
Proof. unfold tabs. intros [= -> -> ->]. repeat split. Qed.

(* ---- the staking operations do not touch the indexes ---- *)
Lemma tabs_stats_staked l amt l' : stats_staked l amt = Ok l' -> tabs l' = tabs l.
Proof. unfold stats_staked. destruct (_ <? _); [discriminate|]. intros [= <-]. reflexivity. Qed.
Lemma tabs_stats_unstaked l amt l' : stats_unstaked l amt = Ok l' -> tabs l' = tabs l.
Proof. unfold stats_unstaked. destruct (_ <? _); [discriminate|]. intros [= <-]. reflexivity. Qed.

Lemma tabs_apply_pos_reward l bh o l' : apply_pos_reward l bh o = Ok l' -> tabs l' = tabs l.
Proof.
  unfold apply_pos_reward. intros H.
  guard_inv H. bind_inv H. guard_inv H. bind_inv H. guard_inv H. bind_inv H.
  match goal with p : (list fund * N)%type |- _ => destruct p as [funds1 added] end.
  guard_inv H. bind_inv H. bind_inv H. guard_inv H. bind_inv H. injection H as <-.
  match goal with E : stats_staked _ _ = Ok ?x |- _ => change (tabs (put_dlg x _)) with (tabs x); rewrite (tabs_stats_staked _ _ _ E) end.
  reflexivity.
Qed.

Lemma tabs_remove_pos_reward l bh o l' : remove_pos_reward l bh o = Ok l' -> tabs l' = tabs l.
Proof.
  unfold remove_pos_reward. intros H.
  guard_inv H. bind_inv H. guard_inv H. bind_inv H. guard_inv H. bind_inv H. injection H as <-.
  match goal with E : stats_unstaked _ _ = Ok ?x |- _ => change (tabs (put_dlg x _)) with (tabs x); exact (tabs_stats_unstaked _ _ _ E) end.
Qed.

Section Hist.
Variable cfg : config.
Variable genesis_addr : N.

Lemma tabs_apply_stake l amt id pu signer top_h txid rev l' :
  apply_stake cfg l amt id pu signer top_h txid rev = Ok l' -> tabs l' = tabs l.
Proof.
  unfold apply_stake. intros H. bind_inv H. bind_inv H. bind_inv H. injection H as <-.
  match goal with E : stats_staked _ _ = Ok ?x |- _ => change (tabs (put_dlg x _)) with (tabs x); exact (tabs_stats_staked _ _ _ E) end.
Qed.

Lemma tabs_apply_unstake l amt id signer top_h txid rev pu l' :
  apply_unstake l amt id signer top_h txid rev pu = Ok l' -> tabs l' = tabs l.
Proof.
  unfold apply_unstake. intros H. bind_inv H. bind_inv H. guard_inv H. guard_inv H. bind_inv H. injection H as <-.
  match goal with E : stats_unstaked _ _ = Ok ?x |- _ => change (tabs (put_dlg x _)) with (tabs x); rewrite (tabs_stats_unstaked _ _ _ E) end.
  destruct (_ && _); reflexivity.
Qed.

(* the kind-specific parts of ApplyTxToState / RemoveTxFromState *)
Lemma kind_apply_frame l t st top l1k st1 :
  kind_apply cfg l t st top = Ok (l1k, st1) ->
  accts l1k = accts l /\ tabs l1k = tabs l /\ nonce st1 = nonce st /\ inc st1 = inc st.
Proof.
  unfold kind_apply. intros H.
  destruct (tx_data t) as [os|nl name id|nw pv|a id pu|a id].
  - injection H as <- <-. repeat split.
  - destruct (tx_version t =? 2); [|injection H as <- <-; repeat split]. guard_inv H. injection H as <- <-. repeat split.
  - destruct (tx_version t =? 3); [|injection H as <- <-; repeat split].
    guard_inv H. guard_inv H. guard_inv H. injection H as <- <-. repeat split.
  - destruct (tx_version t =? 4); [|injection H as <- <-; repeat split].
    guard_inv H. guard_inv H. bind_inv H. injection H as <- <-.
    split; [eapply accts_apply_stake; eassumption|]. split; [eapply tabs_apply_stake; eassumption|]. split; reflexivity.
  - destruct (tx_version t =? 5); [|injection H as <- <-; repeat split].
    guard_inv H. guard_inv H. bind_inv H. injection H as <- <-.
    split; [eapply accts_apply_unstake; eassumption|]. split; [eapply tabs_apply_unstake; eassumption|]. split; reflexivity.
Qed.

Lemma kind_remove_tabs l t st top l3 st2 : kind_remove cfg l t st top = Ok (l3, st2) -> tabs l3 = tabs l.
Proof.
  unfold kind_remove. intros H.
  destruct (tx_data t) as [os|nl name id|nw pv|a id pu|a id].
  - injection H as <- _. reflexivity.
  - destruct (tx_version t =? 2); [|injection H as <- _; reflexivity]. bind_inv H. guard_inv H. injection H as <- _. reflexivity.
  - destruct (tx_version t =? 3); [|injection H as <- _; reflexivity].
    guard_inv H. guard_inv H. injection H as <- _. reflexivity.
  - destruct (tx_version t =? 4); [|injection H as <- _; reflexivity].
    guard_inv H. guard_inv H. bind_inv H. injection H as <- _. eapply tabs_apply_unstake; eassumption.
  - destruct (tx_version t =? 5); [|injection H as <- _; reflexivity].
    guard_inv H. guard_inv H. bind_inv H. injection H as <- _. eapply tabs_apply_stake; eassumption.
Qed.

(* ---- inputs ---- *)
Lemma apply_inputs_frame ins : forall l l', apply_inputs l ins = Ok l' ->
  (forall a, cI l' a = cI l a /\ cN l' a = cN l a) /\ tabs l' = tabs l.
Proof.
  induction ins as [|[amt sender] ins IH]; intros l l' H; cbn [apply_inputs] in H.
  - injection H as <-. split; [intros a; split; reflexivity|reflexivity].
  - opt_inv H. guard_inv H. destruct (IH _ _ H) as [I1 I2]. split; [|rewrite I2; reflexivity].
    intros a. destruct (I1 a) as [-> ->]. unfold cI, cN. rewrite acct_at_put.
    destruct (N.eqb_spec a sender) as [->|_]; [|split; reflexivity].
    unfold acct_at. rewrite E. split; reflexivity.
Qed.

Lemma remove_inputs_tabs ins : forall l l', remove_inputs l ins = Ok l' -> tabs l' = tabs l.
Proof.
  induction ins as [|[amt sender] ins IH]; intros l l' H; cbn [remove_inputs] in H.
  - injection H as <-. reflexivity.
  - opt_inv H. opt_inv H. rewrite (IH _ _ H). reflexivity.
Qed.

Lemma remove_outputs_tabs outs : forall l bh, tabs (fst (remove_outputs l bh outs)) = tabs l.
Proof.
  induction outs as [|o outs IH]; intros l bh; cbn [remove_outputs]; [reflexivity|].
  destruct (get_state l (o_rcpt o)) as [st|]; [|reflexivity].
  destruct (bal st <? o_amt o); [reflexivity|]. destruct (inc st =? 0); [reflexivity|].
  destruct (o_type o =? OUT_COINBASE_POS); [|rewrite IH; reflexivity].
  destruct (remove_pos_reward _ bh o) as [l2|c|c] eqn:E; [|reflexivity|reflexivity].
  rewrite IH. rewrite (tabs_remove_pos_reward _ _ _ _ E). reflexivity.
Qed.

(* ---- outputs: the incoming index ---- *)
Definition out_evs (outs : list sout) (id : N) : list (N * N) := map (fun o => (o_rcpt o, id)) outs.

Lemma apply_outputs_hist outs : forall l bh txid l' e,
  (forall a, cI l a + cnt a (out_evs outs txid) < two64) ->
  apply_outputs l bh outs txid = (l', e) ->
  tstep (cI l) (intx l) (out_evs outs txid) (cI l') (intx l') /\
  (e = None -> forall a, cI l' a = cI l a + cnt a (out_evs outs txid)) /\
  (forall a, cN l' a = cN l a) /\ outtx l' = outtx l /\ txh l' = txh l.
Proof.
  induction outs as [|o outs IH]; intros l bh txid l' e Hb H; cbn [apply_outputs] in H.
  - injection H as <- <-. split; [apply tstep_stuck; reflexivity|].
    split; [intros _ a; cbn [out_evs map]; rewrite cnt_nil; lia|]. repeat split.
  - cbn [out_evs map] in Hb |- *. fold (out_evs outs txid) in Hb |- *.
    change (match get_state l (o_rcpt o) with Some s => s | None => acct0 end) with (acct_at l (o_rcpt o)) in H.
    set (st := acct_at l (o_rcpt o)) in *.
    destruct (safe_add (bal st) (o_amt o)) as [b|].
    2:{ injection H as <- <-. split; [apply tstep_stuck; reflexivity|]. split; [discriminate|]. repeat split. }
    assert (Hinc1 : inc st + 1 < two64).
    { specialize (Hb (o_rcpt o)). rewrite cnt_cons, N.eqb_refl in Hb. unfold cI in Hb. fold st in Hb. lia. }
    rewrite (wadd_small _ _ Hinc1) in H.
    set (l2 := put_state (set_intx l (pset (intx l) (o_rcpt o, inc st + 1) txid)) (o_rcpt o)
                         (mkacct b (nonce st) (inc st + 1) (deleg st))) in H.
    assert (Hc2 : forall a, cI l2 a = if a =? o_rcpt o then cI l (o_rcpt o) + 1 else cI l a).
    { intros a. unfold cI, l2. rewrite acct_at_put. destruct (a =? o_rcpt o); reflexivity. }
    assert (Hn2 : forall a, cN l2 a = cN l a).
    { intros a. unfold cN, l2. rewrite acct_at_put. destruct (N.eqb_spec a (o_rcpt o)) as [->|_]; reflexivity. }
    assert (S1 : tstep (cI l) (intx l) [(o_rcpt o, txid)] (cI l2) (intx l2)).
    { apply tstep_one; [exact Hc2|]. intros k. unfold l2. cbn [intx put_state set_accts set_intx]. apply pget_pset. }
    assert (Hb2 : forall a, cI l2 a + cnt a (out_evs outs txid) < two64).
    { intros a. rewrite Hc2. specialize (Hb a). rewrite cnt_cons in Hb.
      destruct (N.eqb_spec a (o_rcpt o)) as [->|Hne].
      - rewrite N.eqb_refl in Hb. lia.
      - destruct (N.eqb_spec (o_rcpt o) a); [congruence|]. lia. }
    (* the rest, from any ledger with the accounts and indexes of l2 *)
    assert (Hcont : forall lx, accts lx = accts l2 -> tabs lx = tabs l2 -> apply_outputs lx bh outs txid = (l', e) ->
      tstep (cI l) (intx l) ((o_rcpt o, txid) :: out_evs outs txid) (cI l') (intx l') /\
      (e = None -> forall a, cI l' a = cI l a + cnt a ((o_rcpt o, txid) :: out_evs outs txid)) /\
      (forall a, cN l' a = cN l a) /\ outtx l' = outtx l /\ txh l' = txh l).
    { intros lx Hax Htx Hx. destruct (tabs_eq _ _ Htx) as (Tx1 & Tx2 & Tx3).
      assert (Hcx : forall a, cI lx a = cI l2 a) by (intros a; unfold cI; rewrite (acct_at_ext l2 lx a Hax); reflexivity).
      assert (Hnx : forall a, cN lx a = cN l2 a) by (intros a; unfold cN; rewrite (acct_at_ext l2 lx a Hax); reflexivity).
      destruct (IH lx bh txid l' e ltac:(intros a; rewrite Hcx; apply Hb2) Hx) as (J1 & J2 & J3 & J4 & J5).
      split; [|split; [|split; [|split]]].
      - change ((o_rcpt o, txid) :: out_evs outs txid) with ([(o_rcpt o, txid)] ++ out_evs outs txid).
        apply (tstep_trans _ _ _ _ _ _ _ _ S1).
        apply (tstep_ext (cI lx) (intx lx) _ (cI l') (intx l')); try reflexivity; [|rewrite Tx1; reflexivity|exact J1].
        intros a. symmetry. apply Hcx.
      - intros He a. rewrite (J2 He a), Hcx, Hc2, cnt_cons.
        destruct (N.eqb_spec a (o_rcpt o)) as [->|Hne]; [rewrite N.eqb_refl; lia|].
        destruct (N.eqb_spec (o_rcpt o) a); [congruence|]. lia.
      - intros a. rewrite J3, Hnx. apply Hn2.
      - rewrite J4, Tx2. reflexivity.
      - rewrite J5, Tx3. reflexivity. }
    assert (Hstop : forall e' : option (res unit), e' <> None ->
      tstep (cI l) (intx l) ((o_rcpt o, txid) :: out_evs outs txid) (cI l2) (intx l2) /\
      (e' = None -> forall a, cI l2 a = cI l a + cnt a ((o_rcpt o, txid) :: out_evs outs txid)) /\
      (forall a, cN l2 a = cN l a) /\ outtx l2 = outtx l /\ txh l2 = txh l).
    { intros e' He'. split; [|split; [intros; contradiction|split; [exact Hn2|split; reflexivity]]].
      change ((o_rcpt o, txid) :: out_evs outs txid) with ([(o_rcpt o, txid)] ++ out_evs outs txid).
      apply (tstep_trans _ _ _ _ _ _ _ _ S1). apply tstep_stuck; reflexivity. }
    destruct (o_type o =? OUT_COINBASE_POS).
    + destruct (apply_pos_reward l2 bh o) as [l3|c|c] eqn:Epos.
      * apply (Hcont l3); [eapply accts_apply_pos_reward; eassumption|eapply tabs_apply_pos_reward; eassumption|exact H].
      * injection H as <- <-. apply Hstop. discriminate.
      * injection H as <- <-. apply Hstop. discriminate.
    + apply (Hcont l2); [reflexivity|reflexivity|exact H].
Qed.

(* ---- the events of transactions and blocks (what Check/C17.v replays from the chain content) ---- *)
(* crediting events (recipient, id) and the signing event (signer address, id) of a transaction *)
Definition tx_credits (t : tx) : list (N * N) :=
  match tx_data t with
  | TTransfer outs => map (fun o : N * N => (fst o, tx_id t)) outs
  | TRegister _ _ _ => [(burn_addr, tx_id t)]
  | TSetDelegate _ _ => []
  | TStake _ id _ => [(delegate_addr id, tx_id t)]
  | TUnstake _ _ => [(addr_of_key (tx_signer t), tx_id t)]
  end.
Definition tx_sign (t : tx) : N * N := (addr_of_key (tx_signer t), tx_id t).

(* the coinbase of a block credits its outputs under the block hash; the total fee as RemoveBlockFromState sums it *)
Definition lb_fee (b : lblock) : N := fold_left (fun s t => wadd s (tx_fee t)) (lb_txs b) 0.
Definition cb_credits_of (b : lblock) (total : N) : list (N * N) :=
  match coinbase cfg (lb_version b) (lb_signed b) total with
  | CbOuts outs => map (fun o : N * N =>
                          let ty := fst o in
                          ((if ty =? OUT_COINBASE_DEV then genesis_addr
                            else if ty =? OUT_COINBASE_POW then lb_recipient b
                            else if ty =? OUT_COINBASE_POS then delegate_addr (lb_delegate_id b)
                            else burn_addr), lb_hash b)) outs
  | CbPanic => []
  end.
Definition cb_credits (b : lblock) : list (N * N) := cb_credits_of b (wadd (reward cfg (lb_height b)) (lb_fee b)).
Definition block_credits (b : lblock) : list (N * N) := flat_map tx_credits (lb_txs b) ++ cb_credits b.
Definition block_signs (b : lblock) : list (N * N) := map tx_sign (lb_txs b).
Definition block_ids (b : lblock) : list N := map tx_id (lb_txs b).
Definition block_txhs (b : lblock) : list (N * N) := map (fun id => (id, lb_height b)) (block_ids b).

Definition chain_credits (C : list lblock) : list (N * N) := flat_map block_credits C.
Definition chain_signs (C : list lblock) : list (N * N) := flat_map block_signs C.
Definition chain_txhs (C : list lblock) : list (N * N) := flat_map block_txhs C.

Lemma state_outputs_evs t outs :
  state_outputs cfg t (addr_of_key (tx_signer t)) = Ok outs -> out_evs outs (tx_id t) = tx_credits t.
Proof.
  unfold state_outputs, tx_credits, out_evs. destruct (tx_data t) as [os|nl name id|nw pv|a id pu|a id].
  - intros [= <-]. rewrite map_map. reflexivity.
  - intros [= <-]. reflexivity.
  - intros [= <-]. reflexivity.
  - intros [= <-]. reflexivity.
  - destruct (a <? tx_fee t); [discriminate|]. intros [= <-]. reflexivity.
Qed.

Lemma coinbase_souts_evs b total outs :
  coinbase_souts cfg genesis_addr b total = Ok outs -> out_evs outs (lb_hash b) = cb_credits_of b total.
Proof.
  unfold coinbase_souts, cb_credits_of, out_evs. destruct (coinbase cfg (lb_version b) (lb_signed b) total) as [cb|]; [|discriminate].
  intros [= <-]. rewrite map_map. apply map_ext. intros [ty a]. cbn [fst].
  destruct (ty =? OUT_COINBASE_DEV); [reflexivity|]. destruct (ty =? OUT_COINBASE_POW); [reflexivity|].
  destruct (ty =? OUT_COINBASE_POS); reflexivity.
Qed.

(* ---- one transaction ---- *)
Lemma apply_tx_hist l t h bh top l' :
  (forall a, cI l a + cnt a (tx_credits t) < two64) ->
  cN l (addr_of_key (tx_signer t)) + 1 < two64 ->
  apply_tx cfg l t h bh top = Ok l' ->
  tstep (cI l) (intx l) (tx_credits t) (cI l') (intx l') /\
  tstep (cN l) (outtx l) [tx_sign t] (cN l') (outtx l') /\
  (forall a, cN l' a = cN l a + cnt a [tx_sign t]) /\
  txh l' = nset (txh l) (tx_id t) h /\
  (total_bal l < two64 -> wf_tx cfg t -> tx_total cfg t <> None ->
   forall a, cI l' a = cI l a + cnt a (tx_credits t)).
Proof.
  intros Hb Hnon H. rewrite apply_tx_unfold in H. cbn zeta in H. set (signer := addr_of_key (tx_signer t)) in *.
  opt_inv H. rename x into st. guard_inv H. bind_inv H. destruct a as [l1k st1].
  bind_inv H. rename a into l3. bind_inv H. rename a into outs. injection H as <-.
  destruct (kind_apply_frame _ _ _ _ _ _ E0) as (Ha & Ht & Hn1 & Hi1). destruct (tabs_eq _ _ Ht) as (T1 & T2 & T3).
  assert (Hst : acct_at l signer = st) by (unfold acct_at; rewrite E; reflexivity).
  assert (Hnst : nonce st + 1 < two64) by (unfold cN in Hnon; rewrite Hst in Hnon; exact Hnon).
  set (st2 := mkacct (bal st1) (wadd (nonce st1) 1) (inc st1) (deleg st1)) in *.
  set (l2 := put_state l1k signer st2) in *.
  assert (Hc2 : forall a, cI l2 a = cI l a).
  { intros a. unfold cI, l2. rewrite acct_at_put. destruct (N.eqb_spec a signer) as [->|_].
    - cbn [inc st2]. rewrite Hi1, Hst. reflexivity.
    - rewrite (acct_at_ext l l1k a Ha). reflexivity. }
  assert (Hn2 : forall a, cN l2 a = if a =? signer then cN l signer + 1 else cN l a).
  { intros a. unfold cN, l2. rewrite acct_at_put. destruct (N.eqb_spec a signer) as [->|_].
    - cbn [nonce st2]. rewrite Hn1, Hst, wadd_small by exact Hnst. reflexivity.
    - rewrite (acct_at_ext l l1k a Ha). reflexivity. }
  destruct (apply_inputs_frame _ _ _ E1) as (Hc3 & Ht3). destruct (tabs_eq _ _ Ht3) as (U1 & U2 & U3).
  cbn [intx outtx txh l2 put_state set_accts] in U1, U2, U3.
  destruct (apply_outputs l3 bh outs (tx_id t)) as [l4 e] eqn:Eao. cbn [fst].
  pose proof (state_outputs_evs t outs E2) as Hev.
  destruct (apply_outputs_hist outs l3 bh (tx_id t) l4 e) as (K1 & K2 & K3 & K4 & K5).
  { intros a. rewrite Hev. destruct (Hc3 a) as [-> _]. rewrite Hc2. apply Hb. }
  { exact Eao. }
  rewrite Hev in K1, K2.
  split; [|split; [|split; [|split]]].
  - apply (tstep_ext (cI l3) (intx l3) _ (cI l4) (intx l4)); try reflexivity; [| |exact K1].
    + intros a. destruct (Hc3 a) as [-> _]. symmetry. apply Hc2.
    + intros k. rewrite U1, T1. reflexivity.
  - apply tstep_one.
    + intros a. change (cN (set_txh _ _) a) with (cN l4 a). rewrite K3. destruct (Hc3 a) as [_ ->]. apply Hn2.
    + intros k. cbn [outtx set_txh set_outtx]. rewrite pget_pset, K4, U2, T2.
      cbn [nonce st2]. rewrite Hn1, wadd_small by exact Hnst. unfold cN. fold signer. rewrite Hst. reflexivity.
  - intros a. change (cN (set_txh _ _) a) with (cN l4 a). rewrite K3. destruct (Hc3 a) as [_ ->]. rewrite Hn2.
    unfold tx_sign. fold signer. rewrite cnt_one. destruct (N.eqb_spec a signer) as [->|Hne].
    + rewrite N.eqb_refl. reflexivity.
    + destruct (N.eqb_spec signer a); [congruence|]. lia.
  - cbn [txh set_txh set_outtx]. rewrite K5, U3, T3. reflexivity.
  - (* with a total below 2^64 the outputs cannot stop early *)
    intros Htb Hwf Htot. destruct (tx_total cfg t) as [tot|] eqn:Et; [clear Htot|congruence].
    destruct (ins_outs_balance cfg t signer tot outs Hwf Et E2) as (Hbal & _ & Hnp).
    pose proof (apply_inputs_total _ _ _ E1) as Hin.
    assert (Ht2 : total_bal l2 = total_bal l).
    { pose proof (total_put_state l1k signer st2) as Hp. fold l2 in Hp.
      assert (Hbs : bal_at l1k signer = bal st).
      { unfold bal_at. rewrite (get_state_ext l l1k signer Ha), E. reflexivity. }
      assert (Ht1 : total_bal l1k = total_bal l) by (unfold total_bal; rewrite Ha; reflexivity).
      rewrite Hbs, Ht1 in Hp. cbn [bal st2] in Hp. rewrite (kind_apply_bal cfg l t st top l1k st1 E0) in Hp. lia. }
    pose proof (apply_outputs_noerr outs l3 bh (tx_id t) ltac:(lia) Hnp) as Hne.
    rewrite Eao in Hne. cbn [snd] in Hne.
    intros a. change (cI (set_txh _ _) a) with (cI l4 a). rewrite (K2 Hne a). destruct (Hc3 a) as [-> _]. rewrite Hc2. reflexivity.
Qed.

(* ---- the transactions of a block ---- *)
Lemma apply_txs_hist txs : forall l h bh top fee ln fee',
  (forall a, cI l a + cnt a (flat_map tx_credits txs) < two64) ->
  (forall a, cN l a + cnt a (map tx_sign txs) < two64) ->
  apply_txs cfg l txs h bh top fee = Ok (ln, fee') ->
  tstep (cI l) (intx l) (flat_map tx_credits txs) (cI ln) (intx ln) /\
  tstep (cN l) (outtx l) (map tx_sign txs) (cN ln) (outtx ln) /\
  (forall a, cN ln a = cN l a + cnt a (map tx_sign txs)) /\
  (forall id, nget (txh ln) id = if in_dec N.eq_dec id (map tx_id txs) then Some h else nget (txh l) id).
Proof.
  induction txs as [|t txs IH]; intros l h bh top fee ln fee' Hb Hn H; cbn [apply_txs] in H.
  - injection H as <- _. split; [apply tstep_stuck; reflexivity|]. split; [apply tstep_stuck; reflexivity|].
    split; [intros a; cbn [map]; rewrite cnt_nil; lia|]. intros id. cbn [map]. destruct (in_dec N.eq_dec id []) as [[]|_]. reflexivity.
  - bind_inv H. rename a into l1. guard_inv H.
    cbn [flat_map map] in Hb, Hn |- *.
    destruct (apply_tx_hist l t h bh top l1) as (A1 & A2 & A3 & A4 & _).
    { intros a. specialize (Hb a). rewrite cnt_app in Hb. lia. }
    { specialize (Hn (addr_of_key (tx_signer t))). change (tx_sign t :: map tx_sign txs) with ([tx_sign t] ++ map tx_sign txs) in Hn.
      rewrite cnt_app in Hn. unfold tx_sign at 1 in Hn. rewrite cnt_one, N.eqb_refl in Hn. lia. }
    { exact E. }
    destruct (IH l1 h bh top (wadd fee (tx_fee t)) ln fee') as (B1 & B2 & B3 & B4).
    { intros a. specialize (Hb a). rewrite cnt_app in Hb. destruct A1 as [Bd _]. destruct (Bd a). lia. }
    { intros a. specialize (Hn a). change (tx_sign t :: map tx_sign txs) with ([tx_sign t] ++ map tx_sign txs) in Hn.
      rewrite cnt_app in Hn. rewrite A3. lia. }
    { exact H. }
    split; [exact (tstep_trans _ _ _ _ _ _ _ _ A1 B1)|].
    split; [exact (tstep_trans _ _ _ _ _ _ _ _ A2 B2)|].
    split.
    + intros a. rewrite B3, A3. change (tx_sign t :: map tx_sign txs) with ([tx_sign t] ++ map tx_sign txs). rewrite cnt_app. lia.
    + intros id. rewrite B4, A4, nget_nset.
      destruct (in_dec N.eq_dec id (map tx_id txs)) as [Hi|Hni]; destruct (in_dec N.eq_dec id (tx_id t :: map tx_id txs)) as [Hj|Hnj];
        try reflexivity.
      * exfalso. apply Hnj. right. exact Hi.
      * destruct Hj as [<-|Hj]; [rewrite N.eqb_refl; reflexivity|contradiction].
      * destruct (N.eqb_spec id (tx_id t)) as [->|_]; [exfalso; apply Hnj; left; reflexivity|reflexivity].
Qed.

(* ---- a block ---- *)
Lemma apply_block_hist l b top l' :
  (forall a, cI l a + cnt a (block_credits b) < two64) ->
  (forall a, cN l a + cnt a (block_signs b) < two64) ->
  apply_block cfg genesis_addr l b top = Ok l' ->
  tstep (cI l) (intx l) (block_credits b) (cI l') (intx l') /\
  tstep (cN l) (outtx l) (block_signs b) (cN l') (outtx l') /\
  (forall a, cN l' a = cN l a + cnt a (block_signs b)) /\
  (forall id, nget (txh l') id = if in_dec N.eq_dec id (block_ids b) then Some (lb_height b) else nget (txh l) id) /\
  exists ln fee, apply_txs cfg l (lb_txs b) (lb_height b) (lb_hash b) top 0 = Ok (ln, fee) /\
                 forall a, cI l' a = cI ln a + cnt a (cb_credits b).
Proof.
  intros Hb Hn H. unfold apply_block in H. bind_inv H. clear E. bind_inv H. destruct a0 as [ln fee].
  guard_inv H. bind_inv H. rename a0 into outs.
  destruct (apply_outputs ln (lb_hash b) outs (lb_hash b)) as [l2 e] eqn:Eao.
  destruct e as [[u|c|c]|]; try discriminate H. injection H as <-.
  unfold block_credits in Hb |- *. unfold block_signs in Hn |- *.
  destruct (apply_txs_hist (lb_txs b) l (lb_height b) (lb_hash b) top 0 ln fee) as (A1 & A2 & A3 & A4).
  { intros a0. specialize (Hb a0). rewrite cnt_app in Hb. lia. } { exact Hn. } { exact E. }
  assert (Hev : out_evs outs (lb_hash b) = cb_credits b).
  { unfold cb_credits, lb_fee. rewrite <- (apply_txs_fee cfg _ _ _ _ _ _ _ _ E). apply coinbase_souts_evs. exact E0. }
  destruct (apply_outputs_hist outs ln (lb_hash b) (lb_hash b) l2 None) as (K1 & K2 & K3 & K4 & K5).
  { intros a0. rewrite Hev. specialize (Hb a0). rewrite cnt_app in Hb. destruct A1 as [Bd _]. destruct (Bd a0). lia. }
  { exact Eao. }
  rewrite Hev in K1, K2.
  split; [exact (tstep_trans _ _ _ _ _ _ _ _ A1 K1)|].
  split.
  { apply (tstep_ext (cN l) (outtx l) _ (cN ln) (outtx ln)); try reflexivity; [| |exact A2].
    - intros a0. apply K3. - intros k. rewrite K4. reflexivity. }
  split; [intros a0; rewrite K3; apply A3|].
  split; [intros id; rewrite K5; apply A4|].
  exists ln, fee. split; [reflexivity|]. intros a0. apply (K2 eq_refl).
Qed.

(* ---- a chain of blocks (each with top height = its height - 1, as the replay applies them) ---- *)
Lemma apply_chain_hist C : forall l l',
  (forall a, cI l a + cnt a (chain_credits C) < two64) ->
  (forall a, cN l a + cnt a (chain_signs C) < two64) ->
  apply_chain cfg genesis_addr l C = Ok l' ->
  tstep (cI l) (intx l) (chain_credits C) (cI l') (intx l') /\
  tstep (cN l) (outtx l) (chain_signs C) (cN l') (outtx l').
Proof.
  induction C as [|b C IH]; intros l l' Hb Hn H; cbn [apply_chain] in H.
  - injection H as <-. split; apply tstep_stuck; reflexivity.
  - bind_inv H. rename a into l1. cbn [chain_credits chain_signs flat_map] in Hb, Hn |- *.
    fold (chain_credits C) in Hb |- *. fold (chain_signs C) in Hn |- *.
    destruct (apply_block_hist l b (lb_height b - 1) l1) as (A1 & A2 & A3 & _).
    { intros a. specialize (Hb a). rewrite cnt_app in Hb. lia. }
    { intros a. specialize (Hn a). rewrite cnt_app in Hn. lia. }
    { exact E. }
    destruct (IH l1 l') as (B1 & B2).
    { intros a. specialize (Hb a). rewrite cnt_app in Hb. destruct A1 as [Bd _]. destruct (Bd a). lia. }
    { intros a. specialize (Hn a). rewrite cnt_app in Hn. rewrite A3. lia. }
    { exact H. }
    split; [exact (tstep_trans _ _ _ _ _ _ _ _ A1 B1)|exact (tstep_trans _ _ _ _ _ _ _ _ A2 B2)].
Qed.

(* ---- the removal functions never write the two indexes and reset the height of each transaction ---- *)
Lemma remove_tx_tabs l t bh top l' :
  remove_tx cfg l t bh top = Ok l' -> intx l' = intx l /\ outtx l' = outtx l /\ txh l' = nset (txh l) (tx_id t) 0.
Proof.
  intros H. rewrite remove_tx_unfold in H. cbn zeta in H.
  bind_inv H. rename a into outs. bind_inv H. rename a into l2. opt_inv H. guard_inv H. guard_inv H.
  bind_inv H. destruct a as [l3 st2]. injection H as <-.
  pose proof (kind_remove_tabs _ _ _ _ _ _ E2) as K. pose proof (remove_inputs_tabs _ _ _ E0) as R.
  match type of R with context [remove_outputs ?L bh outs] => pose proof (remove_outputs_tabs outs L bh) as O end.
  rewrite O in R. rewrite R in K. apply tabs_eq in K. destruct K as (K1 & K2 & K3).
  cbn [intx outtx txh put_state set_accts set_txh] in *. repeat split; assumption.
Qed.

Lemma remove_txs_tabs txs : forall l bh top l', remove_txs cfg l txs bh top = Ok l' ->
  intx l' = intx l /\ outtx l' = outtx l /\
  forall id, nget (txh l') id = if in_dec N.eq_dec id (map tx_id txs) then Some 0 else nget (txh l) id.
Proof.
  induction txs as [|t txs IH]; intros l bh top l' H; cbn [remove_txs] in H.
  - injection H as <-. split; [reflexivity|]. split; [reflexivity|]. intros id. cbn [map]. destruct (in_dec N.eq_dec id []) as [[]|_]. reflexivity.
  - bind_inv H. rename a into l1. destruct (remove_tx_tabs _ _ _ _ _ E) as (A1 & A2 & A3).
    destruct (IH _ _ _ _ H) as (B1 & B2 & B3). split; [congruence|]. split; [congruence|].
    intros id. rewrite B3, A3, nget_nset. cbn [map].
    destruct (in_dec N.eq_dec id (map tx_id txs)) as [Hi|Hni]; destruct (in_dec N.eq_dec id (tx_id t :: map tx_id txs)) as [Hj|Hnj];
      try reflexivity.
    + exfalso. apply Hnj. right. exact Hi.
    + destruct Hj as [<-|Hj]; [rewrite N.eqb_refl; reflexivity|contradiction].
    + destruct (N.eqb_spec id (tx_id t)) as [->|_]; [exfalso; apply Hnj; left; reflexivity|reflexivity].
Qed.

Lemma remove_block_tabs l b top l' : remove_block cfg genesis_addr l b top = Ok l' ->
  intx l' = intx l /\ outtx l' = outtx l /\
  forall id, nget (txh l') id = if in_dec N.eq_dec id (block_ids b) then Some 0 else nget (txh l) id.
Proof.
  unfold remove_block. intros H. guard_inv H. bind_inv H. rename a into outs. bind_inv H. rename a into l1.
  pose proof (remove_outputs_tabs outs l (lb_hash b)) as O.
  destruct (remove_outputs l (lb_hash b) outs) as [lx e] eqn:Ero. cbn [fst] in O.
  assert (lx = l1) by (destruct e as [[u|c|c]|]; try discriminate E0; injection E0 as <-; reflexivity). subst lx.
  apply tabs_eq in O. destruct O as (O1 & O2 & O3).
  destruct (remove_txs_tabs _ _ _ _ _ H) as (B1 & B2 & B3). split; [congruence|]. split; [congruence|].
  intros id. rewrite B3, O3. unfold block_ids.
  destruct (in_dec N.eq_dec id (map tx_id (rev (lb_txs b)))) as [Hi|Hni]; destruct (in_dec N.eq_dec id (map tx_id (lb_txs b))) as [Hj|Hnj];
    try reflexivity; exfalso.
  - apply Hnj. rewrite map_rev in Hi. apply in_rev in Hi. exact Hi.
  - apply Hni. rewrite map_rev. apply -> in_rev. exact Hj.
Qed.

Lemma remove_chain_tabs R : forall l l', remove_chain cfg genesis_addr l R = Ok l' -> intx l' = intx l /\ outtx l' = outtx l.
Proof.
  induction R as [|b R IH]; intros l l' H; cbn [remove_chain] in H.
  - injection H as <-. split; reflexivity.
  - bind_inv H. destruct (remove_block_tabs _ _ _ _ E) as (A1 & A2 & _). destruct (IH _ _ H) as (B1 & B2). split; congruence.
Qed.

(* ---- the transaction heights written by an application (no condition on the counters) ---- *)
Lemma apply_outputs_txh outs : forall l bh txid, txh (fst (apply_outputs l bh outs txid)) = txh l.
Proof.
  induction outs as [|o outs IH]; intros l bh txid; cbn [apply_outputs]; [reflexivity|].
  destruct (safe_add _ (o_amt o)) as [b|]; [|reflexivity].
  destruct (o_type o =? OUT_COINBASE_POS); [|rewrite IH; reflexivity].
  destruct (apply_pos_reward _ bh o) as [l3|c|c] eqn:E; [|reflexivity|reflexivity].
  rewrite IH. apply tabs_apply_pos_reward in E. apply tabs_eq in E. destruct E as (_ & _ & ->). reflexivity.
Qed.

Lemma apply_tx_txh l t h bh top l' : apply_tx cfg l t h bh top = Ok l' -> txh l' = nset (txh l) (tx_id t) h.
Proof.
  intros H. rewrite apply_tx_unfold in H. cbn zeta in H.
  opt_inv H. guard_inv H. bind_inv H. destruct a as [l1k st1]. bind_inv H. bind_inv H. injection H as <-.
  destruct (kind_apply_frame _ _ _ _ _ _ E0) as (_ & Ht & _). apply tabs_eq in Ht. destruct Ht as (_ & _ & T3).
  destruct (apply_inputs_frame _ _ _ E1) as (_ & Ht3). apply tabs_eq in Ht3. destruct Ht3 as (_ & _ & U3).
  cbn [txh set_txh set_outtx]. rewrite apply_outputs_txh, U3. cbn [txh put_state set_accts]. rewrite T3. reflexivity.
Qed.

Lemma apply_txs_txh txs : forall l h bh top fee ln fee',
  apply_txs cfg l txs h bh top fee = Ok (ln, fee') ->
  forall id, nget (txh ln) id = if in_dec N.eq_dec id (map tx_id txs) then Some h else nget (txh l) id.
Proof.
  induction txs as [|t txs IH]; intros l h bh top fee ln fee' H; cbn [apply_txs] in H.
  - injection H as <- _. intros id. cbn [map]. destruct (in_dec N.eq_dec id []) as [[]|_]. reflexivity.
  - bind_inv H. rename a into l1. guard_inv H. intros id.
    rewrite (IH _ _ _ _ _ _ _ H id), (apply_tx_txh _ _ _ _ _ _ E), nget_nset. cbn [map].
    destruct (in_dec N.eq_dec id (map tx_id txs)) as [Hi|Hni]; destruct (in_dec N.eq_dec id (tx_id t :: map tx_id txs)) as [Hj|Hnj];
      try reflexivity.
    + exfalso. apply Hnj. right. exact Hi.
    + destruct Hj as [<-|Hj]; [rewrite N.eqb_refl; reflexivity|contradiction].
    + destruct (N.eqb_spec id (tx_id t)) as [->|_]; [exfalso; apply Hnj; left; reflexivity|reflexivity].
Qed.

Lemma apply_block_txh l b top l' : apply_block cfg genesis_addr l b top = Ok l' ->
  forall id, nget (txh l') id = if in_dec N.eq_dec id (block_ids b) then Some (lb_height b) else nget (txh l) id.
Proof.
  intros H. unfold apply_block in H. bind_inv H. clear E. bind_inv H. destruct a0 as [ln fee].
  guard_inv H. bind_inv H. rename a0 into outs.
  pose proof (apply_outputs_txh outs ln (lb_hash b) (lb_hash b)) as Ho.
  destruct (apply_outputs ln (lb_hash b) outs (lb_hash b)) as [l2 e]. cbn [fst] in Ho.
  destruct e as [[u|c|c]|]; try discriminate H. injection H as <-.
  intros id. rewrite Ho. apply (apply_txs_txh _ _ _ _ _ _ _ _ E).
Qed.

(* ---- exact counters when the totals stay below 2^64 (the ledgers of the replay) ---- *)
Lemma apply_txs_counts txs : forall l h bh top fee ln fee',
  total_bal l < two64 -> Forall (tx_ok cfg) txs ->
  (forall a, cI l a + cnt a (flat_map tx_credits txs) < two64) ->
  (forall a, cN l a + cnt a (map tx_sign txs) < two64) ->
  apply_txs cfg l txs h bh top fee = Ok (ln, fee') ->
  total_bal ln <= total_bal l /\ forall a, cI ln a = cI l a + cnt a (flat_map tx_credits txs).
Proof.
  induction txs as [|t txs IH]; intros l h bh top fee ln fee' Htb Hok Hb Hn H; cbn [apply_txs] in H.
  - injection H as <- _. split; [lia|]. intros a. cbn [flat_map]. rewrite cnt_nil. lia.
  - bind_inv H. rename a into l1. guard_inv H. inversion Hok as [|? ? [Hwf Htot] Hok']; subst.
    cbn [flat_map map] in Hb, Hn |- *.
    destruct (apply_tx_hist l t h bh top l1) as (_ & _ & A3 & _ & A5).
    { intros a. specialize (Hb a). rewrite cnt_app in Hb. lia. }
    { specialize (Hn (addr_of_key (tx_signer t))). change (tx_sign t :: map tx_sign txs) with ([tx_sign t] ++ map tx_sign txs) in Hn.
      rewrite cnt_app in Hn. unfold tx_sign at 1 in Hn. rewrite cnt_one, N.eqb_refl in Hn. lia. }
    { exact E. }
    specialize (A5 Htb Hwf Htot).
    destruct (tx_total cfg t) as [tot|] eqn:Et; [|congruence].
    pose proof (apply_tx_total cfg l t h bh top l1 tot Htb Hwf Et E) as Ht1.
    destruct (IH l1 h bh top (wadd fee (tx_fee t)) ln fee') as (B1 & B2).
    { lia. } { exact Hok'. }
    { intros a. specialize (Hb a). rewrite cnt_app in Hb. rewrite A5. lia. }
    { intros a. specialize (Hn a). change (tx_sign t :: map tx_sign txs) with ([tx_sign t] ++ map tx_sign txs) in Hn.
      rewrite cnt_app in Hn. rewrite A3. lia. }
    { exact H. }
    split; [lia|]. intros a. rewrite B2, A5, cnt_app. lia.
Qed.

Lemma apply_block_counts l b top l' :
  total_bal l < two64 -> Forall (tx_ok cfg) (lb_txs b) ->
  (forall a, cI l a + cnt a (block_credits b) < two64) ->
  (forall a, cN l a + cnt a (block_signs b) < two64) ->
  apply_block cfg genesis_addr l b top = Ok l' ->
  forall a, cI l' a = cI l a + cnt a (block_credits b) /\ cN l' a = cN l a + cnt a (block_signs b).
Proof.
  intros Htb Hok Hb Hn H.
  destruct (apply_block_hist l b top l' Hb Hn H) as (_ & _ & A3 & _ & ln & fee & Etx & A5).
  assert (Hb1 : forall a, cI l a + cnt a (flat_map tx_credits (lb_txs b)) < two64).
  { intros a. specialize (Hb a). unfold block_credits in Hb. rewrite cnt_app in Hb. lia. }
  destruct (apply_txs_counts (lb_txs b) l _ _ _ _ _ _ Htb Hok Hb1 Hn Etx) as (_ & B2).
  intros a. split; [|apply A3]. rewrite A5, B2. unfold block_credits. rewrite cnt_app. lia.
Qed.

(* the events of a block are at most as many as the counters the undo theorems reserve for it *)
Lemma cnt_tx_credits a t : cnt a (tx_credits t) <= tx_nouts t.
Proof.
  eapply N.le_trans; [apply cnt_le_length|]. unfold tx_credits, tx_nouts.
  destruct (tx_data t); cbn [length]; rewrite ?map_length; lia.
Qed.

Lemma cnt_txs_credits a txs : cnt a (flat_map tx_credits txs) <= nouts_sum txs.
Proof.
  induction txs as [|t txs IH]; cbn [flat_map nouts_sum fold_right]; [rewrite cnt_nil; lia|].
  fold (nouts_sum txs). rewrite cnt_app. pose proof (cnt_tx_credits a t). lia.
Qed.

Lemma cnt_cb_credits a b total : cnt a (cb_credits_of b total) <= 4.
Proof.
  eapply N.le_trans; [apply cnt_le_length|]. unfold cb_credits_of.
  destruct (coinbase cfg (lb_version b) (lb_signed b) total) as [cb|] eqn:Ec; [|cbn; lia].
  rewrite map_length.
  destruct (coinbase_shape cfg genesis_addr b total
              (map (fun o : N * N => let '(ty, a) := o in
                      if ty =? OUT_COINBASE_DEV then mksout ty a genesis_addr 0
                      else if ty =? OUT_COINBASE_POW then mksout ty a (lb_recipient b) 0
                      else if ty =? OUT_COINBASE_POS then mksout ty a (delegate_addr (lb_delegate_id b)) (lb_delegate_id b)
                      else mksout ty a burn_addr 0) cb)) as [_ Hlen].
  { unfold coinbase_souts. rewrite Ec. reflexivity. }
  rewrite map_length in Hlen. exact Hlen.
Qed.

Lemma cnt_block_credits a b : cnt a (block_credits b) <= nouts_sum (lb_txs b) + 4.
Proof.
  unfold block_credits, cb_credits. rewrite cnt_app.
  pose proof (cnt_txs_credits a (lb_txs b)). pose proof (cnt_cb_credits a b (wadd (reward cfg (lb_height b)) (lb_fee b))). lia.
Qed.

Lemma cnt_block_signs a b : cnt a (block_signs b) <= N.of_nat (length (lb_txs b)).
Proof. eapply N.le_trans; [apply cnt_le_length|]. unfold block_signs. rewrite map_length. lia. Qed.

Lemma chain_credits_app C1 C2 : chain_credits (C1 ++ C2) = chain_credits C1 ++ chain_credits C2.
Proof. apply flat_map_app. Qed.
Lemma chain_signs_app C1 C2 : chain_signs (C1 ++ C2) = chain_signs C1 ++ chain_signs C2.
Proof. apply flat_map_app. Qed.
Lemma chain_txhs_app C1 C2 : chain_txhs (C1 ++ C2) = chain_txhs C1 ++ chain_txhs C2.
Proof. apply flat_map_app. Qed.

Lemma cnt_chain_credits a C : cnt a (chain_credits C) <= chain_nouts C.
Proof.
  induction C as [|b C IH]; cbn [chain_credits flat_map chain_nouts fold_right]; [rewrite cnt_nil; lia|].
  fold (chain_credits C). fold (chain_nouts C). rewrite cnt_app. pose proof (cnt_block_credits a b). lia.
Qed.
Lemma cnt_chain_signs a C : cnt a (chain_signs C) <= chain_ntx C.
Proof.
  induction C as [|b C IH]; cbn [chain_signs flat_map chain_ntx fold_right]; [rewrite cnt_nil; lia|].
  fold (chain_signs C). fold (chain_ntx C). rewrite cnt_app. pose proof (cnt_block_signs a b). lia.
Qed.

End Hist.
