(* Property C03, third part: the invariants assumed by the undo theorems (FPos: no empty fund, FUniq: distinct fund
   owners inside a pool; SInv is in Proofs/StakedSum.v) hold in every ledger reached from the empty ledger by applying
   blocks - through the staker reward too - and the undo of a block iterated over several blocks
   (a reorganisation disconnects the blocks above the common ancestor, highest first). *)
From Coq Require Import Sorting.Sorted.
From Virel Require Import Lib.Config Lib.U64 Lib.AMap Model.Emission Model.Ledger
  Proofs.AMapLemmas Proofs.Emission Proofs.Conservation Proofs.Pointwise Proofs.Staking Proofs.StakedSum
  Proofs.Undo Proofs.Undo2.
Open Scope N_scope.
Open Scope bool_scope.

(* ------------------------------------------------------------------------------------------------------------ *)
(* the staker reward keeps FUniq and FPos *)

Lemma apply_pos_reward_FUniq l bh o l1 : FUniq l -> apply_pos_reward l bh o = Ok l1 -> FUniq l1.
Proof.
  intros HU H. unfold apply_pos_reward in H.
  guard_inv H. opt_inv H. rename x into d. guard_inv H. bind_inv H. guard_inv H. bind_inv H.
  match goal with p : (list fund * N)%type |- _ => destruct p as [funds1 added] end.
  guard_inv H. bind_inv H. rename a0 into funds2. bind_inv H. guard_inv H. bind_inv H. injection H as <-.
  apply (FUniq_put _ l); [exact HU| |].
  - match goal with Hs : stats_staked _ _ = Ok _ |- _ => rewrite (dlgs_stats_staked _ _ _ Hs) end. reflexivity.
  - cbn [d_funds]. pose proof (HU _ d E) as Hnd.
    match goal with Hpd : pos_distribute _ _ _ _ = Ok _ |- _ =>
      destruct (pos_distribute_spec _ _ _ _ _ Hpd) as (Hf1 & _ & _); cbn [fst] in Hf1 end.
    assert (Ho1 : fowners funds1 = fowners (d_funds d)).
    { rewrite Hf1. unfold fowners. rewrite map_map. reflexivity. }
    match goal with Hm : match find_fund funds1 ?ow with _ => _ end = Ok funds2 |- _ =>
      destruct (find_fund funds1 ow) as [f|] eqn:Ef; [opt_inv Hm; injection Hm as <-|injection Hm as <-] end.
    + rewrite fowners_upd_some by reflexivity. rewrite Ho1. exact Hnd.
    + unfold fowners in *. rewrite map_app. cbn [map f_owner]. apply NoDup_app_last; [rewrite Ho1; exact Hnd|].
      apply find_fund_none_iff. exact Ef.
Qed.

(* the shares handed out sum to at most 99% of the reward *)
Lemma shares_bound fs r total : 0 < total -> forall a0,
  100 * (total * fold_left (fun a f => wadd a (share f r total)) fs a0)
  <= 100 * (total * a0) + 99 * (r * ftot fs).
Proof.
  intros Ht. induction fs as [|f fs IH]; intros a0; cbn [fold_left].
  - unfold ftot. cbn [fold_right]. lia.
  - specialize (IH (wadd a0 (share f r total))).
    assert (Hw : wadd a0 (share f r total) <= a0 + share f r total).
    { unfold wadd, wrap. apply N.mod_le. discriminate. }
    unfold share in *.
    set (q1 := f_amt f * r / 100) in *. set (q2 := q1 * 99 / total) in *.
    assert (H1 : 100 * q1 <= f_amt f * r) by (unfold q1; apply N.mul_div_le; discriminate).
    assert (H2 : total * q2 <= q1 * 99) by (unfold q2; apply N.mul_div_le; lia).
    assert (H3 : q2 mod two64 <= q2) by (apply N.mod_le; discriminate).
    set (s := q2 mod two64) in *.
    assert (H4 : total * s <= total * q2) by (apply N.mul_le_mono_l; exact H3).
    assert (H5 : total * wadd a0 s <= total * (a0 + s)) by (apply N.mul_le_mono_l; exact Hw).
    replace (ftot (f :: fs)) with (f_amt f + ftot fs) by reflexivity.
    rewrite N.mul_add_distr_l in H5. rewrite !N.mul_add_distr_l.
    replace (r * f_amt f) with (f_amt f * r) by lia. lia.
Qed.

Lemma In_map_iff_fund (g : fund -> fund) fs x : In x (map g fs) -> exists f, In f fs /\ x = g f.
Proof. intros H. apply in_map_iff in H. destruct H as (f & <- & Hin). exists f. split; [exact Hin|reflexivity]. Qed.

Lemma apply_pos_reward_FPos l bh o l1 :
  SInv l -> FPos l -> 0 < o_amt o -> apply_pos_reward l bh o = Ok l1 -> FPos l1.
Proof.
  intros HI HP Hpos H. pose proof HI as (Hsort & Hkey & Hsum & Hs64). unfold apply_pos_reward in H.
  guard_inv H. opt_inv H. rename x into d. guard_inv H. bind_inv H. guard_inv H. bind_inv H.
  match goal with p : (list fund * N)%type |- _ => destruct p as [funds1 added] end.
  guard_inv H. bind_inv H. rename a0 into funds2. bind_inv H. guard_inv H. bind_inv H. injection H as <-.
  rename a into total.
  apply (FPos_put _ l); [exact HP| |].
  - match goal with Hs : stats_staked _ _ = Ok _ |- _ => rewrite (dlgs_stats_staked _ _ _ Hs) end. reflexivity.
  - cbn [d_funds].
    pose proof (nget_le_sum _ _ _ E) as Hle. change (tot d) with (ftot (d_funds d)) in Hle.
    assert (Hb0 : Forall (fun f => f_amt f < two64) (d_funds d)).
    { apply (Forall_lt_of_le _ (ftot (d_funds d))); [apply funds_bounded; lia|lia]. }
    match goal with Ht : total_amount d = Ok total |- _ =>
      destruct (total_amount_from_ok _ 0 total two64_pos Hb0 Ht) as [Ht0 _] end.
    rewrite N.add_0_l in Ht0.
    match goal with Hg : negb (total =? 0) = true |- _ => apply Bool.negb_true_iff in Hg; apply N.eqb_neq in Hg; rename Hg into Htz end.
    match goal with Hpd : pos_distribute _ _ _ _ = Ok _ |- _ =>
      destruct (pos_distribute_spec _ _ _ _ _ Hpd) as (Hf1 & Hadd & Hmono); cbn [fst snd] in Hf1, Hadd end.
    assert (Hp1 : forall x, In x funds1 -> 0 < f_amt x).
    { intros x Hin. rewrite Hf1 in Hin. apply In_map_iff_fund in Hin. destruct Hin as (f & Hin & ->). cbn [f_amt].
      rewrite Forall_forall in Hmono. specialize (Hmono f Hin). pose proof (HP _ d f E Hin). lia. }
    intros x Hin.
    match goal with Hm : match find_fund funds1 ?ow with _ => _ end = Ok funds2 |- _ =>
      destruct (find_fund funds1 ow) as [f|] eqn:Ef; [opt_inv Hm; injection Hm as <-|injection Hm as <-] end.
    + destruct (In_upd_fund _ _ _ _ Hin) as [Hi|Hi]; [exact (Hp1 x Hi)|].
      injection Hi as <-. cbn [f_amt].
      match goal with Hsa : safe_add (f_amt f) _ = Some _ |- _ => pose proof (safe_add_ge _ _ _ Hsa) end.
      pose proof (Hp1 f (find_fund_in _ _ _ Ef)). lia.
    + apply in_app_or in Hin. destruct Hin as [Hi|[<-|[]]]; [exact (Hp1 x Hi)|]. cbn [f_amt].
      pose proof (shares_bound (d_funds d) (o_amt o) total ltac:(lia) 0) as Hsb.
      rewrite <- Hadd, <- Ht0 in Hsb. rewrite N.mul_0_r, N.mul_0_r, N.add_0_l in Hsb.
      assert (H100 : 100 * added <= 99 * o_amt o) by nia.
      lia.
Qed.

(* ------------------------------------------------------------------------------------------------------------ *)
(* the invariant PInv = SInv /\ FPos /\ FUniq through outputs, blocks and chains *)

Lemma apply_outputs_PInv outs : forall l bh txid,
  PInv l -> Forall (fun o => o_amt o < two64) outs -> Forall (fun o => is_pos o = true -> 0 < o_amt o) outs ->
  PInv (fst (apply_outputs l bh outs txid)).
Proof.
  induction outs as [|o outs IH]; intros l bh txid HI Hb Hp; cbn [apply_outputs]; [exact HI|].
  inversion Hb as [|? ? Ho Hb']; subst. inversion Hp as [|? ? Hpo Hp']; subst.
  destruct (safe_add _ (o_amt o)) as [b|]; [|exact HI].
  match goal with |- context [put_state ?L1 ?A ?S] => set (l2 := put_state L1 A S) end.
  assert (HI2 : PInv l2) by (apply (PInv_ext l); [reflexivity|reflexivity|exact HI]).
  unfold is_pos in Hpo.
  destruct (o_type o =? OUT_COINBASE_POS); [|apply IH; assumption].
  destruct (apply_pos_reward l2 bh o) as [l3|c|c] eqn:Er; [|exact HI2|exact HI2].
  apply IH; [|exact Hb'|exact Hp']. destruct HI2 as (HS & HP & HU).
  split; [exact (proj1 (apply_pos_reward_SInv l2 bh o l3 HS Ho Er))|].
  split; [exact (apply_pos_reward_FPos l2 bh o l3 HS HP (Hpo eq_refl) Er)|exact (apply_pos_reward_FUniq l2 bh o l3 HU Er)].
Qed.

Lemma PInv0 : PInv ledger0.
Proof. split; [exact SInv0|]. split; intros id d; unfold get_dlg, ledger0; cbn; discriminate. Qed.

Section Chain.
Variable cfg : config.
Variable genesis_addr team_key : N.

(* stateless validation guarantees positive stakes when MIN_STAKE_AMOUNT > 0 *)
Lemma prevalidate_stake_pos t h : 0 < min_stake cfg -> prevalidate_tx cfg team_key t h = Ok tt -> stake_pos t.
Proof.
  intros Hm H. unfold prevalidate_tx in H. unfold stake_pos.
  guard_inv H. guard_inv H. guard_inv H. guard_inv H. guard_inv H.
  destruct (tx_data t) as [os|nl name id|nw pv|a id pu|a id]; try exact I.
  guard_inv H. apply N.leb_le in G4. lia.
Qed.

Lemma apply_txs_PInv txs : forall l h bh top fee ln fee',
  PInv l -> Forall (wf_tx cfg) txs -> Forall stake_pos txs ->
  apply_txs cfg l txs h bh top fee = Ok (ln, fee') -> PInv ln.
Proof.
  induction txs as [|t txs IH]; intros l h bh top fee ln fee' HI Hwf Hsp H; cbn [apply_txs] in H.
  - injection H as <- _. exact HI.
  - inversion Hwf; subst. inversion Hsp; subst. bind_inv H. guard_inv H.
    eapply IH; [|eassumption|eassumption|exact H]. eapply (PInv_tx cfg); eassumption.
Qed.

Lemma coinbase_pos_amount b total outs :
  coinbase_souts cfg genesis_addr b total = Ok outs -> Forall (fun o => is_pos o = true -> 0 < o_amt o) outs.
Proof.
  unfold coinbase_souts, coinbase. intros H.
  destruct (lb_version b =? 0).
  - injection H as <-. repeat constructor; unfold is_pos; cbn [map o_type N.eqb Pos.eqb OUT_COINBASE_DEV OUT_COINBASE_POW OUT_COINBASE_POS]; discriminate.
  - destruct (lb_version b =? 1); [|discriminate H].
    destruct (lb_signed b).
    + destruct (N.eqb_spec (wsub (wsub total (total / 2)) (wmul total (fee_percent cfg) / 100)) 0) as [Ez|Ez];
        cbn [N.eqb app] in H; injection H as <-;
        repeat constructor; unfold is_pos;
        cbn [map o_type o_amt N.eqb Pos.eqb OUT_COINBASE_DEV OUT_COINBASE_POW OUT_COINBASE_POS OUT_COINBASE_BURN];
        try discriminate. intros _. lia.
    + cbn [N.eqb app] in H. destruct (_ =? 0); cbn [app] in H; injection H as <-;
        repeat constructor; unfold is_pos;
        cbn [map o_type N.eqb Pos.eqb OUT_COINBASE_DEV OUT_COINBASE_POW OUT_COINBASE_POS OUT_COINBASE_BURN]; discriminate.
Qed.

Hypothesis Hok : cfg_ok_emission cfg = true.

Lemma apply_block_PInv l b top_h l' :
  total_bal l + reward cfg (lb_height b) <= max_supply cfg ->
  Forall (tx_ok cfg) (lb_txs b) -> Forall stake_pos (lb_txs b) -> PInv l ->
  apply_block cfg genesis_addr l b top_h = Ok l' -> PInv l'.
Proof.
  destruct (ok_facts cfg Hok) as ((HRI & HRI64) & H9 & Hms & Hms64 & _).
  intros Hb Htx Hsp HI H. unfold apply_block in H.
  bind_inv H. clear E a. bind_inv H. destruct a as [l1 fee].
  assert (Hl64 : total_bal l < two64) by lia.
  destruct (apply_txs_total cfg (lb_txs b) l (lb_height b) (lb_hash b) top_h 0 l1 fee Hl64 two64_pos Htx E) as [Ht1 Hfee64].
  assert (Hwf : Forall (wf_tx cfg) (lb_txs b)) by (eapply Forall_impl; [|exact Htx]; intros t [Hw _]; exact Hw).
  pose proof (apply_txs_PInv (lb_txs b) l _ _ _ _ _ _ HI Hwf Hsp E) as HI1.
  guard_inv H. apply Bool.negb_true_iff in G.
  pose proof (reward_le_BR cfg Hok (lb_height b)) as HrBR.
  destruct (wadd_nowrap_of_check (reward cfg (lb_height b)) fee ltac:(lia) Hfee64 G) as [Hw Hw64].
  bind_inv H. rename a into outs. pose proof E0 as Ecb. rewrite Hw in Ecb.
  destruct (sum_souts_coinbase _ _ _ _ _ Ecb) as (cb & Ecb1 & Hsum).
  assert (Hver : lb_version b <= 1).
  { unfold coinbase in Ecb1. destruct (N.eqb_spec (lb_version b) 0) as [->|?]; [lia|].
    destruct (N.eqb_spec (lb_version b) 1) as [->|?]; [lia|discriminate]. }
  destruct (coinbase_sum cfg Hok (lb_version b) (lb_signed b) (reward cfg (lb_height b) + fee) Hver ltac:(lia))
    as (cb' & Ecb' & Hs' & _).
  rewrite Ecb1 in Ecb'. injection Ecb' as <-.
  assert (Hob : Forall (fun o => o_amt o < two64) outs).
  { eapply Forall_impl; [|apply (souts_bounded cfg outs (reward cfg (lb_height b) + fee)); lia]. cbn. intros; lia. }
  pose proof (apply_outputs_PInv outs l1 (lb_hash b) (lb_hash b) HI1 Hob (coinbase_pos_amount b _ outs E0)) as HI2.
  destruct (apply_outputs l1 (lb_hash b) outs (lb_hash b)) as [l2 e].
  destruct e as [[u|c|c]|]; try discriminate H. injection H as <-. exact HI2.
Qed.

(* every ledger reached by applying a chain of blocks to the empty ledger (or to any ledger satisfying it)
   satisfies the invariant assumed by the undo theorems *)
Lemma apply_chain_PInv bs : forall l (h : nat) l',
  total_bal l = sum_rewards cfg h -> heights_from h bs ->
  Forall (fun b => Forall (tx_ok cfg) (lb_txs b) /\ Forall stake_pos (lb_txs b)) bs -> PInv l ->
  apply_chain cfg genesis_addr l bs = Ok l' -> PInv l'.
Proof.
  induction bs as [|b bs IH]; intros l h l' Ht Hh Hok' HI H; cbn [apply_chain] in H.
  - injection H as <-. exact HI.
  - destruct Hh as [Hhb Hh]. inversion Hok' as [|? ? [Hb Hsp] Hbs]; subst.
    bind_inv H.
    assert (Hroom : total_bal l + reward cfg (lb_height b) <= max_supply cfg).
    { rewrite Ht, Hhb. change (sum_rewards cfg h + reward cfg (N.of_nat (S h))) with (sum_rewards cfg (S h)).
      apply (sum_rewards_le_max cfg Hok). }
    assert (Hstep : total_bal a = sum_rewards cfg (S h)).
    { rewrite (apply_block_total cfg genesis_addr Hok _ _ _ _ Hroom Hb E). rewrite Ht, Hhb. reflexivity. }
    apply (IH a (S h) l' Hstep Hh Hbs); [|exact H].
    exact (apply_block_PInv _ _ _ _ Hroom Hb Hsp HI E).
Qed.

(* ---- several blocks: connected lowest first (top height = the parent's), disconnected highest first (top height =
   the block's own, as reorg_disconnect of Model/Node.v does) ---- *)
Fixpoint remove_chain (l : ledger) (bs_high_first : list lblock) : res ledger :=
  match bs_high_first with
  | [] => Ok l
  | b :: r => l1 <- remove_block cfg genesis_addr l b (lb_height b) ;; remove_chain l1 r
  end.

Lemma remove_chain_app a : forall l b,
  remove_chain l (a ++ b) = (l1 <- remove_chain l a ;; remove_chain l1 b).
Proof.
  induction a as [|x a IH]; intros l b; cbn [app remove_chain bind]; [reflexivity|].
  destruct (remove_block cfg genesis_addr l x (lb_height x)) as [l1|c|c]; cbn [bind]; [apply IH|reflexivity|reflexivity].
Qed.

(* the delegate-history keys a block writes *)
Definition block_keys (b : lblock) : list N := lb_hash b :: map tx_id (lb_txs b).
Definition chain_keys (bs : list lblock) : list N := flat_map block_keys bs.
Definition chain_nouts (bs : list lblock) : N := fold_right (fun b acc => nouts_sum (lb_txs b) + 4 + acc) 0 bs.
Definition chain_ntx (bs : list lblock) : N := fold_right (fun b acc => N.of_nat (length (lb_txs b)) + acc) 0 bs.

Lemma apply_block_dhist l b top lB k :
  apply_block cfg genesis_addr l b top = Ok lB -> ~ In k (block_keys b) -> nget (dhist lB) k = nget (dhist l) k.
Proof.
  intros H Hk. cbn [block_keys In] in Hk. unfold apply_block in H.
  bind_inv H. clear E a. bind_inv H. destruct a as [ln fee]. guard_inv H. bind_inv H. rename a into outs.
  destruct (coinbase_shape cfg genesis_addr b _ outs E0) as [Hp1 _].
  destruct (apply_outputs ln (lb_hash b) outs (lb_hash b)) as [lB' e] eqn:Eao.
  destruct e as [[u|c|c]|]; try discriminate H. injection H as ->.
  rewrite <- (apply_txs_dhist cfg (lb_txs b) l _ _ _ _ ln fee k E ltac:(tauto)).
  destruct (apply_outputs_staking outs ln (lb_hash b) (lb_hash b) lB Hp1 Eao)
    as [(_ & _ & _ & HhB)|(o0 & la & lb & _ & _ & _ & _ & _ & Hha & Epos & _ & _ & HhB)].
  - rewrite HhB. reflexivity.
  - rewrite HhB, (pos_reward_dhist la (lb_hash b) o0 lb k Epos ltac:(intros ->; tauto)), Hha. reflexivity.
Qed.

Lemma apply_chain_dhist bs : forall l ln k,
  apply_chain cfg genesis_addr l bs = Ok ln -> ~ In k (chain_keys bs) -> nget (dhist ln) k = nget (dhist l) k.
Proof.
  induction bs as [|b bs IH]; intros l ln k H Hk; cbn [apply_chain] in H.
  - injection H as <-. reflexivity.
  - bind_inv H. cbn [chain_keys flat_map] in Hk. fold (chain_keys bs) in Hk.
    rewrite (IH a ln k H ltac:(intros Hin; apply Hk; apply in_or_app; right; exact Hin)).
    eapply apply_block_dhist; [eassumption|]. intros Hin. apply Hk. apply in_or_app. left. exact Hin.
Qed.

Lemma NoDup_app_parts {A} (a b : list A) : NoDup (a ++ b) -> NoDup a /\ NoDup b /\ forall x, In x a -> ~ In x b.
Proof.
  induction a as [|x a IH]; cbn [app]; intros H.
  - split; [constructor|]. split; [exact H|]. intros x [].
  - inversion H as [|? ? Hn Hd]; subst. destruct (IH Hd) as (Ha & Hb & Hdis).
    split; [constructor; [intros Hin; apply Hn; apply in_or_app; left; exact Hin|exact Ha]|]. split; [exact Hb|].
    intros y [<-|Hy]; [intros Hin; apply Hn; apply in_or_app; right; exact Hin|apply Hdis; exact Hy].
Qed.

(* Disconnecting the blocks of a chain segment, highest first, after connecting them: accounts, staked total and
   delegate table are those before the segment.  The hashes of the blocks and transactions of the
   segment are pairwise distinct (they key the delegate history); the stale delegate-history entries left behind by
   the undo are harmless because every entry is written by the application before the matching removal reads it. *)
Theorem undo_chain bs : forall l (h : nat) ln,
  total_bal l = sum_rewards cfg h -> heights_from h bs -> PInv l ->
  Forall (fun b => Forall (tx_ok cfg) (lb_txs b) /\ Forall stake_pos (lb_txs b)) bs ->
  NoDup (chain_keys bs) ->
  (forall a, inc (acct_at l a) + chain_nouts bs < two64) ->
  (forall a, nonce (acct_at l a) + chain_ntx bs < two64) ->
  apply_chain cfg genesis_addr l bs = Ok ln ->
  forall l', leqv ln l' -> (forall k, In k (chain_keys bs) -> nget (dhist l') k = nget (dhist ln) k) ->
  exists l2, remove_chain l' (rev bs) = Ok l2 /\ leqv l l2 /\ dhist l2 = dhist l'.
Proof.
  induction bs as [|b bs IH]; intros l h ln Ht Hh HI Hok' Hnd Hinc Hnon H l' Heq Hk; cbn [apply_chain] in H.
  - injection H as <-. exists l'. cbn [rev remove_chain]. split; [reflexivity|]. split; [exact Heq|reflexivity].
  - destruct Hh as [Hhb Hh]. inversion Hok' as [|? ? [Hb Hsp] Hbs]; subst. bind_inv H. rename a into l1.
    cbn [chain_keys flat_map] in Hnd, Hk. fold (chain_keys bs) in Hnd, Hk.
    destruct (NoDup_app_parts _ _ Hnd) as (Hndb & Hndr & Hdis).
    cbn [block_keys] in Hndb. inversion Hndb as [|? ? Hbh Hndt]; subst.
    cbn [chain_nouts chain_ntx fold_right] in Hinc, Hnon. fold (chain_nouts bs) in Hinc. fold (chain_ntx bs) in Hnon.
    assert (Hroom : total_bal l + reward cfg (lb_height b) <= max_supply cfg).
    { rewrite Ht, Hhb. change (sum_rewards cfg h + reward cfg (N.of_nat (S h))) with (sum_rewards cfg (S h)).
      apply (sum_rewards_le_max cfg Hok). }
    assert (Hstep : total_bal l1 = sum_rewards cfg (S h)).
    { rewrite (apply_block_total cfg genesis_addr Hok _ _ _ _ Hroom Hb E). rewrite Ht, Hhb. reflexivity. }
    pose proof (apply_block_PInv _ _ _ _ Hroom Hb Hsp HI E) as HI1.
    destruct HI as (HS & HP & HU).
    assert (Hinc0 : forall a, inc (acct_at l a) + nouts_sum (lb_txs b) + 4 < two64) by (intros a; specialize (Hinc a); lia).
    assert (Hnon0 : forall a, nonce (acct_at l a) + N.of_nat (length (lb_txs b)) < two64) by (intros a; specialize (Hnon a); lia).
    assert (Hhyps : block_hyps cfg l b).
    { split; [exact Hok|]. split; [exact HS|]. split; [exact HP|]. split; [exact HU|]. split; [exact Hroom|].
      split; [exact Hb|]. split; [exact Hsp|]. split; [exact Hndt|]. split; [exact Hbh|]. split; assumption. }
    pose proof (apply_block_frame cfg genesis_addr l b _ l1 Hhyps E) as Hfr.
    destruct (IH l1 (S h) ln Hstep Hh HI1 Hbs Hndr
                ltac:(intros a; destruct (Hfr a); specialize (Hinc a); lia)
                ltac:(intros a; destruct (Hfr a); specialize (Hnon a); lia) H l' Heq
                ltac:(intros k Hin; apply Hk; apply in_or_app; right; exact Hin)) as (l1' & Hrm & Heq1 & Hh1).
    destruct (undo_block cfg genesis_addr l b _ l1 Hhyps E l1' (lb_height b) Heq1) as (l2 & Hr & Heq2 & Hh2).
    { intros k Hkb. assert (Hin : In k (block_keys b)) by (cbn [block_keys In]; destruct Hkb as [->|Hkb]; [left; reflexivity|right; exact Hkb]).
      rewrite Hh1, (Hk k ltac:(apply in_or_app; left; exact Hin)).
      apply (apply_chain_dhist bs l1 ln k H). apply Hdis. exact Hin. }
    exists l2. cbn [rev]. rewrite remove_chain_app, Hrm. cbn [bind remove_chain]. rewrite Hr. cbn [bind].
    split; [reflexivity|]. split; [exact Heq2|congruence].
Qed.

(* the literal conclusion of C03_undo_block_full for a whole segment *)
Corollary remove_apply_chain bs l (h : nat) ln :
  total_bal l = sum_rewards cfg h -> heights_from h bs -> PInv l ->
  Forall (fun b => Forall (tx_ok cfg) (lb_txs b) /\ Forall stake_pos (lb_txs b)) bs ->
  NoDup (chain_keys bs) ->
  (forall a, inc (acct_at l a) + chain_nouts bs < two64) ->
  (forall a, nonce (acct_at l a) + chain_ntx bs < two64) ->
  apply_chain cfg genesis_addr l bs = Ok ln ->
  exists l2, remove_chain ln (rev bs) = Ok l2 /\ same_accounts l2 l /\
    dlgs l2 = dlgs l /\ (forall id, get_dlg l2 id = get_dlg l id) /\ staked l2 = staked l.
Proof.
  intros Ht Hh HI Hok' Hnd Hinc Hnon H.
  destruct (undo_chain bs l h ln Ht Hh HI Hok' Hnd Hinc Hnon H ln (leqv_refl ln) ltac:(reflexivity))
    as (l2 & Hr & (Hs & _ & Hd & Hst) & _).
  exists l2. split; [exact Hr|]. split; [exact Hs|]. split; [symmetry; exact Hd|].
  split; [intros id; unfold get_dlg; rewrite <- Hd; reflexivity|exact Hst].
Qed.

End Chain.
