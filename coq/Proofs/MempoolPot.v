(* Property C09, auxiliary bound: the staked total plus the balances held at key addresses (odd numbers in the model;
   delegate addresses and the burn address are even) never grows when a transaction is applied: a stake moves coins from
   a key address into the staked total, an unstake moves them back, and every transaction pays its fee.  Hence a stake
   that its signer can pay cannot push the staked total over 2^64 when "staked + all balances" started below 2^64. *)
From Virel Require Import Lib.Config Lib.U64 Lib.AMap Lib.CheckLib Model.Emission Model.Ledger Model.Node Model.Mempool
  Proofs.AMapLemmas Proofs.Conservation Proofs.Staking Proofs.StakedSum Proofs.Mempool Proofs.Mempool2.
Open Scope N_scope.
Open Scope bool_scope.

Fixpoint osum (m : list (N * acct)) : N :=
  match m with [] => 0 | (k, v) :: r => (if N.odd k then bal v else 0) + osum r end.
Definition odd_bal (l : ledger) : N := osum (accts l).
Definition osum_ins (ins : list (N * N)) : N := fold_right (fun i acc => (if N.odd (snd i) then fst i else 0) + acc) 0 ins.
Definition osum_outs (outs : list sout) : N := fold_right (fun o acc => (if N.odd (o_rcpt o) then o_amt o else 0) + acc) 0 outs.

Lemma odd_addr_of_key k : N.odd (addr_of_key k) = true.
Proof. unfold addr_of_key. rewrite N.add_comm, N.odd_add_mul_2. reflexivity. Qed.
Lemma odd_delegate_addr d : N.odd (delegate_addr d) = false.
Proof. unfold delegate_addr. rewrite N.odd_mul. reflexivity. Qed.

Lemma osum_nset m k v :
  osum (nset m k v) + (if N.odd k then fopt bal (nget m k) else 0) = osum m + (if N.odd k then bal v else 0).
Proof.
  unfold nset, nget. induction m as [|[k0 v0] m IH]; cbn [aset aget osum fopt].
  - destruct (N.odd k); lia.
  - destruct (N.eqb_spec k k0) as [E|E]; cbn [osum fopt].
    + subst k0. destruct (N.odd k); lia.
    + destruct (N.odd k0), (N.odd k); lia.
Qed.

Lemma odd_put l a s :
  odd_bal (put_state l a s) + (if N.odd a then bal_at l a else 0) = odd_bal l + (if N.odd a then bal s else 0).
Proof. unfold odd_bal, put_state, bal_at, get_state, set_accts. cbn [accts]. apply osum_nset. Qed.

Lemma osum_le_sumf m : osum m <= sumf bal m.
Proof. unfold sumf. induction m as [|[k v] m IH]; cbn [osum fold_right snd]; [lia|]. destruct (N.odd k); lia. Qed.
Lemma odd_le_total l : odd_bal l <= total_bal l.
Proof. apply osum_le_sumf. Qed.

Lemma osum_ge_get m k : N.odd k = true -> fopt bal (nget m k) <= osum m.
Proof.
  intros Hk. unfold nget. induction m as [|[k0 v0] m IH]; cbn [aget osum fopt]; [lia|].
  destruct (N.eqb_spec k k0) as [E|E]; cbn [fopt]; [subst k0; rewrite Hk; lia|]. destruct (N.odd k0); lia.
Qed.
Lemma odd_ge_at l a : N.odd a = true -> bal_at l a <= odd_bal l.
Proof. apply osum_ge_get. Qed.

Lemma odd_inputs ins : forall l l', apply_inputs l ins = Ok l' -> odd_bal l' + osum_ins ins = odd_bal l.
Proof.
  induction ins as [|[amt sender] ins IH]; intros l l' H; cbn [apply_inputs] in H.
  - injection H as <-. cbn. lia.
  - opt_inv H. guard_inv H. apply IH in H.
    pose proof (odd_put l sender (mkacct (bal x - amt) (nonce x) (inc x) (deleg x))) as Hp.
    rewrite <- (get_state_bal l sender x) in Hp by assumption. cbn [bal] in Hp.
    apply Bool.negb_true_iff in G. apply N.ltb_ge in G.
    cbn [osum_ins fold_right fst snd]. fold (osum_ins ins). destruct (N.odd sender); lia.
Qed.

Lemma odd_outputs outs : forall l bh txid,
  nonpos outs -> total_bal l + Conservation.sum_souts outs < two64 ->
  odd_bal (fst (apply_outputs l bh outs txid)) = odd_bal l + osum_outs outs.
Proof.
  induction outs as [|o outs IH]; intros l bh txid Hnp Hb; cbn [apply_outputs].
  - cbn. lia.
  - inversion Hnp as [|? ? Ho Hnp']; subst.
    cbn [Conservation.sum_souts fold_right] in Hb. fold (Conservation.sum_souts outs) in Hb.
    fold (load_state l (o_rcpt o)).
    set (st := load_state l (o_rcpt o)) in *.
    assert (Hst : bal st = bal_at l (o_rcpt o)).
    { unfold st, load_state, bal_at. destruct (get_state l (o_rcpt o)); reflexivity. }
    pose proof (bal_at_le_total l (o_rcpt o)) as Hle.
    destruct (safe_add (bal st) (o_amt o)) as [b|] eqn:Esa.
    2:{ exfalso. apply safe_add_none in Esa; lia. }
    apply safe_add_some in Esa; [|lia|lia]. destruct Esa as [-> Hlt].
    rewrite Ho.
    set (l1 := set_intx l _).
    set (ns := mkacct (bal st + o_amt o) (nonce st) (wadd (inc st) 1) (deleg st)).
    set (l2 := put_state l1 (o_rcpt o) ns).
    assert (Ht2 : total_bal l2 = total_bal l + o_amt o).
    { pose proof (total_put_state l1 (o_rcpt o) ns) as Hp. fold l2 in Hp. cbn [bal ns] in Hp.
      assert (Hb1 : bal_at l1 (o_rcpt o) = bal_at l (o_rcpt o)) by reflexivity.
      assert (Ht1 : total_bal l1 = total_bal l) by reflexivity.
      rewrite Hb1, Ht1 in Hp. lia. }
    assert (Ho2 : odd_bal l2 = odd_bal l + (if N.odd (o_rcpt o) then o_amt o else 0)).
    { pose proof (odd_put l1 (o_rcpt o) ns) as Hp. fold l2 in Hp. cbn [bal ns] in Hp.
      assert (Hb1 : bal_at l1 (o_rcpt o) = bal_at l (o_rcpt o)) by reflexivity.
      assert (Ht1 : odd_bal l1 = odd_bal l) by reflexivity.
      rewrite Hb1, Ht1 in Hp. destruct (N.odd (o_rcpt o)); lia. }
    rewrite (IH l2 bh txid Hnp' ltac:(lia)). rewrite Ho2.
    cbn [osum_outs fold_right]. fold (osum_outs outs). lia.
Qed.

Lemma osum_outs_le outs : osum_outs outs <= Conservation.sum_souts outs.
Proof.
  induction outs as [|o outs IH]; cbn [osum_outs Conservation.sum_souts fold_right]; [lia|].
  fold (osum_outs outs). fold (Conservation.sum_souts outs). destruct (N.odd (o_rcpt o)); lia.
Qed.

Section Pot.
Variable cfg : config.

Definition pot (l : ledger) : N := staked l + odd_bal l.

(* the second part of ApplyTxToState on the key-address balances *)
Lemma tail_odd lk st t h bh l' tot outs :
  tx_tail cfg lk st t h bh = Ok l' -> bal_at lk (addr_of_key (tx_signer t)) = bal st -> total_bal lk < two64 ->
  wf_tx cfg t -> tx_total cfg t = Some tot -> state_outputs cfg t (addr_of_key (tx_signer t)) = Ok outs ->
  odd_bal l' + osum_ins (state_inputs cfg t (addr_of_key (tx_signer t))) = odd_bal lk + osum_outs outs /\
  staked l' = staked lk.
Proof.
  intros Ht Hg Hb Hwf Etot Eo.
  set (sg := addr_of_key (tx_signer t)) in *.
  unfold tx_tail in Ht. fold sg in Ht.
  set (st2 := mkacct (bal st) (wadd (nonce st) 1) (inc st) (deleg st)) in *.
  set (l2 := put_state lk sg st2) in *.
  bind_inv Ht. rename a into l3. rewrite Eo in Ht. cbn [bind] in Ht. injection Ht as <-.
  destruct (ins_outs_balance cfg t sg tot outs Hwf Etot Eo) as (Hbal & Hin64 & Hnp).
  assert (Ht2 : total_bal l2 = total_bal lk).
  { pose proof (total_put_state lk sg st2) as Hp. fold l2 in Hp. rewrite Hg in Hp. cbn [bal st2] in Hp. lia. }
  assert (Ho2 : odd_bal l2 = odd_bal lk).
  { pose proof (odd_put lk sg st2) as Hp. fold l2 in Hp. rewrite Hg in Hp. cbn [bal st2] in Hp.
    destruct (N.odd sg); lia. }
  pose proof (apply_inputs_total _ _ _ E) as Ht3. pose proof (odd_inputs _ _ _ E) as Ho3.
  pose proof (odd_outputs outs l3 bh (tx_id t) Hnp ltac:(lia)) as Ho4.
  destruct (ds_apply_inputs _ _ _ E) as [_ D2].
  destruct (outputs_agree cfg outs l3 [] bh (tx_id t) ltac:(intros k s Hk; discriminate Hk) Hnp ltac:(lia)) as (_ & _ & C).
  split.
  - change (odd_bal (set_txh (set_outtx (fst (apply_outputs l3 bh outs (tx_id t))) _) _))
      with (odd_bal (fst (apply_outputs l3 bh outs (tx_id t)))). lia.
  - cbn [set_txh set_outtx staked]. rewrite C, D2. reflexivity.
Qed.

Lemma apply_tx_pot l t h bh th l' :
  SInv l -> total_bal l < two64 -> tx_typed t -> wf_tx cfg t -> tx_total cfg t <> None ->
  apply_tx cfg l t h bh th = Ok l' -> pot l' + tx_fee t <= pot l.
Proof.
  intros HI Hb Hty Hwf Htot Ha. unfold pot.
  destruct (tx_total cfg t) as [tot|] eqn:Etot; [|congruence]. clear Htot.
  rewrite apply_tx_eq in Ha. opt_inv Ha. rename x into s0. guard_inv Ha. bind_inv Ha. destruct a as [lk st1].
  set (signer := addr_of_key (tx_signer t)) in *.
  destruct (state_outputs cfg t signer) as [outs|c|c] eqn:Eo.
  2,3: (unfold tx_tail in Ha; fold signer in Ha; bind_inv Ha; rewrite Eo in Ha; discriminate Ha).
  destruct (ins_outs_balance cfg t signer tot outs Hwf Etot Eo) as (Hbal & Hin64 & Hnp).
  pose proof (osum_outs_le outs) as Hole.
  pose proof (odd_addr_of_key (tx_signer t)) as Hodd. fold signer in Hodd.
  unfold kind_step in E0. fold signer in E0. unfold tx_typed in Hty. rewrite Hty in E0.
  assert (Hbs : bal_at l signer = bal s0) by (unfold bal_at; rewrite E; reflexivity).
  destruct Hwf as (Hf64 & Hwd & Hb64). pose proof (conj Hf64 (conj Hwd Hb64) : wf_tx cfg t) as Hwf.
  destruct (tx_data t) as [os|nl name id|nw pv|a id pu|a id] eqn:Ed; cbn [data_version N.eqb Pos.eqb] in E0;
    cbn [wf_data] in Hwd.
  - injection E0 as <- <-.
    destruct (tail_odd l s0 t h bh l' tot outs Ha Hbs Hb Hwf Etot Eo) as [A B]. fold signer in A.
    unfold state_inputs in A, Hbal. rewrite Ed in A, Hbal. cbn [osum_ins sum_ins fold_right fst snd] in A, Hbal.
    rewrite Hodd in A. lia.
  - guard_inv E0. injection E0 as <- <-.
    destruct (tail_odd _ s0 t h bh l' tot outs Ha Hbs Hb Hwf Etot Eo) as [A B]. fold signer in A.
    unfold state_inputs in A, Hbal. rewrite Ed in A, Hbal. cbn [osum_ins sum_ins fold_right fst snd] in A, Hbal.
    rewrite Hodd in A. cbn [staked put_dlg set_dlgs] in B.
    change (odd_bal (put_dlg l _)) with (odd_bal l) in A. lia.
  - guard_inv E0. guard_inv E0. guard_inv E0. injection E0 as <- <-.
    destruct (tail_odd l _ t h bh l' tot outs Ha Hbs Hb Hwf Etot Eo) as [A B]. fold signer in A.
    unfold state_inputs in A, Hbal. rewrite Ed in A, Hbal. cbn [osum_ins sum_ins fold_right fst snd] in A, Hbal.
    rewrite Hodd in A. lia.
  - guard_inv E0. guard_inv E0. bind_inv E0. injection E0 as -> <-.
    match goal with Hx : apply_stake _ _ _ _ _ _ _ _ _ = Ok lk |- _ => rename Hx into Eas end.
    destruct (apply_stake_SInv cfg _ _ _ _ _ _ _ _ _ HI Hwd Eas) as [_ Hst].
    pose proof (accts_apply_stake cfg _ _ _ _ _ _ _ _ _ Eas) as Hacc.
    assert (Hbs' : bal_at lk signer = bal s0) by (unfold bal_at, get_state; rewrite Hacc; exact Hbs).
    assert (Hbk : total_bal lk < two64) by (unfold total_bal; rewrite Hacc; exact Hb).
    destruct (tail_odd lk s0 t h bh l' tot outs Ha Hbs' Hbk Hwf Etot Eo) as [A B]. fold signer in A.
    unfold state_outputs in Eo. rewrite Ed in Eo. injection Eo as <-.
    unfold state_inputs in A, Hbal. rewrite Ed in A, Hbal.
    cbn [osum_ins osum_outs sum_ins Conservation.sum_souts fold_right fst snd o_rcpt o_amt] in A, Hbal.
    rewrite odd_addr_of_key, odd_delegate_addr in A.
    assert (Hoe : odd_bal lk = odd_bal l) by (unfold odd_bal; rewrite Hacc; reflexivity). lia.
  - guard_inv E0. guard_inv E0. bind_inv E0. injection E0 as -> <-.
    match goal with Hx : apply_unstake _ _ _ _ _ _ _ _ = Ok lk |- _ => rename Hx into Eas end.
    destruct (apply_unstake_SInv _ _ _ _ _ _ _ _ _ HI Hwd Eas) as [_ Hst].
    pose proof (accts_apply_unstake _ _ _ _ _ _ _ _ _ Eas) as Hacc.
    assert (Hbs' : bal_at lk signer = bal s0) by (unfold bal_at, get_state; rewrite Hacc; exact Hbs).
    assert (Hbk : total_bal lk < two64) by (unfold total_bal; rewrite Hacc; exact Hb).
    destruct (tail_odd lk s0 t h bh l' tot outs Ha Hbs' Hbk Hwf Etot Eo) as [A B]. fold signer in A.
    unfold state_inputs in A, Hbal. rewrite Ed in A, Hbal.
    cbn [osum_ins sum_ins fold_right fst snd] in A, Hbal.
    rewrite odd_delegate_addr in A.
    assert (Hoe : odd_bal lk = odd_bal l) by (unfold odd_bal; rewrite Hacc; reflexivity). lia.
Qed.

End Pot.
