(* Fork choice invariant of the node model (property C04, "tip_maximal"):
   after any sequence of deliveries, the node's tip is a stored block whose cumulative difficulty is maximal among
   all stored blocks. *)
From Virel Require Import Lib.Config Lib.U64 Lib.AMap Model.Ledger Model.Node Proofs.AMapLemmas Proofs.Conservation.
Open Scope N_scope.

Section ForkChoice.
Variable cfg : config.
Variable genesis_addr team_key : N.

(* the invariant *)
Definition tip_stored (n : node) : Prop :=
  exists t, get_block n (top n) = Some t /\ b_cd t = top_cd n.
Definition tips_stored (n : node) : Prop :=
  forall k tp, In (k, tp) (tips n) -> exists tb, get_block n (t_hash tp) = Some tb /\ b_cd tb = t_cd tp.
Definition tip_maximal (n : node) : Prop :=
  forall h b, get_block n h = Some b -> b_cd b <= top_cd n.
Definition FInv (n : node) : Prop := tip_stored n /\ tips_stored n /\ tip_maximal n.

(* ---- best_tip ---- *)
Definition bt_step (topn : N) (acc : tip * bool) (kv : N * tip) : tip * bool :=
  let '(best, amb) := acc in
  let v := snd kv in
  if t_cd best <? t_cd v then (v, false)
  else if (t_cd v =? t_cd best) && negb (t_hash v =? t_hash best) && negb (t_hash best =? topn)
       then (best, true) else (best, amb).

Lemma best_tip_unfold n : best_tip n = fold_left (bt_step (top n)) (tips n) (mktip (top n) (top_h n) (top_cd n), false).
Proof. reflexivity. Qed.

Lemma bt_fold topn l : forall acc,
  let r := fold_left (bt_step topn) l acc in
  t_cd (fst acc) <= t_cd (fst r) /\
  (forall kv, In kv l -> t_cd (snd kv) <= t_cd (fst r)) /\
  (fst r = fst acc \/ exists kv, In kv l /\ fst r = snd kv).
Proof.
  induction l as [|kv l IH]; intros [best amb]; cbn [fold_left].
  - cbn. split; [lia|]. split; [intros ? []|left; reflexivity].
  - set (acc' := bt_step topn (best, amb) kv).
    specialize (IH acc'). cbn zeta in IH. destruct IH as (H1 & H2 & H3).
    assert (Hacc : t_cd best <= t_cd (fst acc') /\ t_cd (snd kv) <= t_cd (fst acc') /\
                   (fst acc' = best \/ fst acc' = snd kv)).
    { unfold acc', bt_step. destruct (N.ltb_spec (t_cd best) (t_cd (snd kv))) as [Hlt|Hge]; cbn [fst].
      - split; [lia|]. split; [lia|right; reflexivity].
      - destruct (_ && _ && _); cbn [fst]; (split; [lia|]; split; [lia|left; reflexivity]). }
    destruct Hacc as (A1 & A2 & A3). cbn [fst] in *.
    split; [lia|]. split.
    + intros kv' [<-|Hin]; [lia|apply H2; exact Hin].
    + destruct H3 as [H3|(kv' & Hin & H3)].
      * destruct A3 as [A3|A3].
        -- left. rewrite H3. exact A3.
        -- right. exists kv. split; [left; reflexivity|]. rewrite H3. exact A3.
      * right. exists kv'. split; [right; exact Hin|exact H3].
Qed.

Lemma best_tip_spec n :
  let alt := fst (best_tip n) in
  top_cd n <= t_cd alt /\
  (forall k tp, In (k, tp) (tips n) -> t_cd tp <= t_cd alt) /\
  (alt = mktip (top n) (top_h n) (top_cd n) \/ exists k, In (k, alt) (tips n)).
Proof.
  cbn zeta. rewrite best_tip_unfold.
  destruct (bt_fold (top n) (tips n) (mktip (top n) (top_h n) (top_cd n), false)) as (H1 & H2 & H3).
  cbn [fst t_cd] in *. split; [exact H1|]. split.
  - intros k tp Hin. apply (H2 (k, tp) Hin).
  - destruct H3 as [H3|((k, tp) & Hin & H3)]; [left; exact H3|right]. exists k. cbn [snd] in H3. rewrite H3. exact Hin.
Qed.

(* ---- the reorganisation steps do not touch blocks, tips, top, top_cd ---- *)
Definition same_frame (n n' : node) : Prop :=
  blocks n' = blocks n /\ tips n' = tips n /\ top n' = top n /\ top_cd n' = top_cd n.

Lemma same_frame_refl n : same_frame n n.
Proof. repeat split. Qed.
Lemma same_frame_trans a b c : same_frame a b -> same_frame b c -> same_frame a c.
Proof. intros (A1&A2&A3&A4) (B1&B2&B3&B4). repeat split; congruence. Qed.

Lemma apply_block_node_frame n b n' : apply_block_node cfg genesis_addr n b = Ok n' -> same_frame n n'.
Proof. unfold apply_block_node. intros H. bind_inv H. injection H as <-. repeat split. Qed.
Lemma remove_block_node_frame n b n' : remove_block_node cfg genesis_addr n b = Ok n' -> same_frame n n'.
Proof. unfold remove_block_node. intros H. bind_inv H. injection H as <-. repeat split. Qed.

Lemma reorg_disconnect_frame fuel : forall n nh common lh n',
  reorg_disconnect cfg genesis_addr fuel n nh common lh = Ok n' -> same_frame n n'.
Proof.
  induction fuel as [|f IH]; intros n nh common lh n' H; cbn in H; [discriminate|].
  destruct (nh =? common); [injection H as <-; apply same_frame_refl|].
  guard_inv H. opt_inv H. bind_inv H.
  apply remove_block_node_frame in E0. apply IH in H.
  eapply same_frame_trans; [|eapply same_frame_trans; [exact E0|]].
  - repeat split.
  - destruct H as (A1&A2&A3&A4). repeat split; assumption.
Qed.

Lemma reorg_connect_frame bs : forall n n',
  reorg_connect cfg genesis_addr n bs = Ok n' -> same_frame n n'.
Proof.
  induction bs as [|b bs IH]; intros n n' H; cbn in H; [injection H as <-; apply same_frame_refl|].
  opt_inv H. bind_inv H. bind_inv H.
  apply apply_block_node_frame in E1. apply IH in H.
  eapply same_frame_trans; [|exact H]. eapply same_frame_trans; [|exact E1]. repeat split.
Qed.

(* ---- check_reorgs ---- *)
Lemma get_block_frame n n' h : blocks n' = blocks n -> get_block n' h = get_block n h.
Proof. unfold get_block. intros ->. reflexivity. Qed.

Lemma in_ndel {V} (m : list (N * V)) k x : In x (ndel m k) -> In x m.
Proof.
  unfold ndel. induction m as [|[k0 v0] m IH]; cbn; [intros []|].
  destruct (k =? k0); [intros H; right; exact H|]. intros [<-|H]; [left; reflexivity|right; apply IH; exact H].
Qed.
Lemma in_nset {V} (m : list (N * V)) k v x : In x (nset m k v) -> x = (k, v) \/ In x m.
Proof.
  unfold nset. induction m as [|[k0 v0] m IH]; cbn.
  - intros [<-|[]]. left. reflexivity.
  - destruct (k =? k0); cbn.
    + intros [<-|H]; [left; reflexivity|right; right; exact H].
    + intros [<-|H]; [right; left; reflexivity|]. destruct (IH H) as [->|H']; [left; reflexivity|right; right; exact H'].
Qed.

Lemma check_reorgs_inv n n' amb :
  tip_stored n -> tips_stored n ->
  (forall h b, get_block n h = Some b -> b_cd b <= top_cd n \/ exists k tp, In (k, tp) (tips n) /\ b_cd b <= t_cd tp) ->
  check_reorgs cfg genesis_addr n = Ok (n', amb) -> FInv n'.
Proof.
  intros Hts Htips Hmax H. unfold check_reorgs in H.
  pose proof (best_tip_spec n) as (B1 & B2 & B3). cbn zeta in *.
  destruct (best_tip n) as [alt amb0] eqn:Ebt. cbn [fst] in *.
  assert (Hmax' : forall h b, get_block n h = Some b -> b_cd b <= t_cd alt).
  { intros h b Hb. destruct (Hmax h b Hb) as [Hle|(k & tp & Hin & Hle)]; [lia|]. pose proof (B2 k tp Hin). lia. }
  destruct (N.eqb_spec (t_hash alt) (top n)) as [Etop|Ntop].
  - (* no reorganisation *)
    injection H as <- <-.
    assert (Hcd : t_cd alt = top_cd n).
    { destruct Hts as (t & Ht & Hcdt).
      destruct B3 as [Ealt|(k & Hin)]; [rewrite Ealt; reflexivity|].
      destruct (Htips k alt Hin) as (tb & Htb & Hcdb). rewrite Etop, Ht in Htb. injection Htb as <-. lia. }
    split; [exact Hts|]. split; [exact Htips|]. intros h b Hb. rewrite <- Hcd. apply (Hmax' h b Hb).
  - opt_inv H. bind_inv H. destruct a as [common hashes]. bind_inv H. bind_inv H. injection H as <- <-.
    assert (Hfr : same_frame n a0).
    { assert (F1 : same_frame n a).
      { destruct (top n =? common); [injection E1 as <-; apply same_frame_refl|].
        opt_inv E1. eapply reorg_disconnect_frame; eassumption. }
      eapply same_frame_trans; [exact F1|eapply reorg_connect_frame; eassumption]. }
    destruct Hfr as (Fb & Ft & Ftop & Fcd).
    (* the alternative tip is a stored block with that cumulative difficulty *)
    assert (Halt : exists tb, get_block n (t_hash alt) = Some tb /\ b_cd tb = t_cd alt).
    { destruct B3 as [Ealt|(k & Hin)]; [rewrite Ealt in Ntop; cbn in Ntop; congruence|]. apply (Htips k alt Hin). }
    unfold FInv, tip_stored, tips_stored, tip_maximal.
    cbn [set_top set_tips top top_cd tips blocks get_block]. unfold get_block in *. cbn [blocks set_top set_tips].
    rewrite Fb. split; [exact Halt|]. split.
    + intros k tp Hin. apply in_nset in Hin. destruct Hin as [[= -> ->]|Hin].
      * cbn [t_hash t_cd]. exact Hts.
      * apply in_ndel in Hin. rewrite Ft in Hin. apply (Htips k tp Hin).
    + exact Hmax'.
Qed.

(* ---- add_block ---- *)
Lemma check_block_cd n b prev :
  check_block cfg n b prev = Ok tt -> b_cd prev <= b_cd b.
Proof.
  unfold check_block. intros H.
  bind_inv H. guard_inv H. guard_inv H. guard_inv H. bind_inv H. bind_inv H. bind_inv H. guard_inv H.
  match goal with Hg : (b_cd b =? _) = true |- _ => apply N.eqb_eq in Hg; rewrite Hg end.
  match goal with Ha : add128 (b_cd prev) _ = Ok _ |- _ =>
    unfold add128 in Ha; destruct (_ <? two128) in Ha; [|discriminate Ha]; injection Ha as <- end.
  lia.
Qed.

Lemma get_block_insert n h b h' :
  get_block (set_blocks n (nset (blocks n) h b)) h' = if h' =? h then Some b else get_block n h'.
Proof. unfold get_block, set_blocks. cbn [blocks]. apply nget_nset. Qed.

Lemma add_block_inv n b n' amb :
  FInv n -> add_block cfg genesis_addr n b = Ok (n', amb) -> FInv n'.
Proof.
  intros (Hts & Htips & Hmax) H. unfold add_block in H.
  guard_inv H. opt_inv H. bind_inv H. destruct a.
  pose proof (check_block_cd _ _ _ E0) as Hcd.
  assert (Hnew : get_block n (b_hash b) = None) by (destruct (get_block n (b_hash b)); [discriminate|reflexivity]).
  destruct (N.eqb_spec (prev_hash b) (top n)) as [Emain|Ealt].
  - (* extension of the main chain *)
    bind_inv H. injection H as <- <-. unfold add_mainchain_block in E1. bind_inv E1. injection E1 as <-.
    apply apply_block_node_frame in E2. destruct E2 as (Fb & Ft & Ftop & Fcd).
    destruct Hts as (t & Ht & Hcdt). rewrite <- Emain, E in Ht. injection Ht as <-.
    unfold FInv, tip_stored, tips_stored, tip_maximal, get_block.
    cbn [set_topo set_blocks set_top blocks top top_cd tips]. rewrite Fb, Ft.
    split; [exists b; split; [apply nget_nset_same|reflexivity]|]. split.
    + intros k tp Hin. destruct (Htips k tp Hin) as (tb & Htb & Hcdb).
      exists tb. split; [|exact Hcdb]. rewrite nget_nset.
      destruct (N.eqb_spec (t_hash tp) (b_hash b)) as [Eh|_]; [|exact Htb].
      unfold get_block in Htb, Hnew. rewrite Eh, Hnew in Htb. discriminate.
    + intros h b0. rewrite nget_nset. destruct (h =? b_hash b).
      * intros [= <-]. lia.
      * intros Hb0. pose proof (Hmax h b0 Hb0). lia.
  - (* alternative chain *)
    unfold add_altchain_block in H.
    set (tips' := match nget (tips n) (prev_hash b) with Some t => _ | None => _ end) in H.
    set (n1 := set_blocks (set_tips n tips') (nset (blocks n) (b_hash b) b)) in H.
    apply (check_reorgs_inv n1 n' amb); [| | |exact H].
    + (* tip_stored n1 *)
      destruct Hts as (t & Ht & Hcdt). exists t. split; [|exact Hcdt].
      unfold n1, get_block. cbn [blocks set_blocks set_tips top]. rewrite nget_nset.
      destruct (N.eqb_spec (top n) (b_hash b)) as [Eh|_]; [|exact Ht].
      unfold get_block in Ht, Hnew. rewrite Eh, Hnew in Ht. discriminate.
    + (* tips_stored n1 *)
      intros k tp Hin. unfold n1 in Hin. cbn [tips set_blocks set_tips] in Hin.
      assert (Hcase : tp = mktip (b_hash b) (t_height tp) (b_cd b) \/ In (k, tp) (tips n)).
      { unfold tips' in Hin. destruct (nget (tips n) (prev_hash b)) as [t0|]; [destruct (t_hash t0 =? prev_hash b)|];
          apply in_nset in Hin; (destruct Hin as [[= -> ->]|Hin]; [left; reflexivity|right; try apply in_ndel in Hin; exact Hin]). }
      unfold n1, get_block. cbn [blocks set_blocks set_tips]. rewrite nget_nset.
      destruct Hcase as [->|Hin0].
      * cbn [t_hash t_cd]. rewrite N.eqb_refl. exists b. split; reflexivity.
      * destruct (Htips k tp Hin0) as (tb & Htb & Hcdb).
        destruct (N.eqb_spec (t_hash tp) (b_hash b)) as [Eh|_].
        -- unfold get_block in Htb, Hnew. rewrite Eh, Hnew in Htb. discriminate.
        -- exists tb. split; assumption.
    + (* every stored block is below the tip or below some alternative tip *)
      intros h b0. unfold n1, get_block. cbn [blocks set_blocks set_tips top_cd tips]. rewrite nget_nset.
      destruct (N.eqb_spec h (b_hash b)) as [Eh|Nh].
      * intros [= <-]. right.
        exists (b_hash b), (mktip (b_hash b) (b_height b) (b_cd b)). split; [|cbn; lia].
        assert (Hset : forall m : list (N * tip), In (b_hash b, mktip (b_hash b) (b_height b) (b_cd b))
                                  (nset m (b_hash b) (mktip (b_hash b) (b_height b) (b_cd b)))).
        { clear. intros m. unfold nset. induction m as [|[k0 v0] m IH]; cbn; [left; reflexivity|].
          destruct (b_hash b =? k0); cbn; [left; reflexivity|right; exact IH]. }
        unfold tips'. destruct (nget (tips n) (prev_hash b)) as [t0|]; [destruct (t_hash t0 =? prev_hash b)|]; apply Hset.
      * intros Hb0. left. apply (Hmax h b0 Hb0).
Qed.

(* ---- deliveries ---- *)
Lemma deliver_inv n b now n' out amb :
  FInv n -> deliver cfg genesis_addr team_key n b now = (n', out, amb) -> FInv n'.
Proof.
  intros Hinv H. unfold deliver in H.
  destruct (prevalidate_block cfg team_key b now); try (injection H as <- _ _; exact Hinv).
  destruct (add_block cfg genesis_addr n b) as [[n1 amb1]|c|c] eqn:E; try (injection H as <- _ _; exact Hinv).
  injection H as <- _ _. eapply add_block_inv; eassumption.
Qed.

(* a node's life: genesis, then any sequence of deliveries (any blocks, any order, any clock readings) *)
Definition run (n : node) (ops : list (block * N)) : node :=
  fold_left (fun n op => fst (fst (deliver cfg genesis_addr team_key n (fst op) (snd op)))) ops n.

Lemma run_inv ops : forall n, FInv n -> FInv (run n ops).
Proof.
  induction ops as [|[b now] ops IH]; intros n Hinv; cbn; [exact Hinv|].
  apply IH. destruct (deliver cfg genesis_addr team_key n b now) as [[n1 out] amb] eqn:E. cbn [fst].
  eapply deliver_inv; eassumption.
Qed.

Lemma node0_inv g n0 : node0 cfg genesis_addr g = Ok n0 -> b_cd g = b_diff g -> FInv n0.
Proof.
  unfold node0. intros H Hg. apply apply_block_node_frame in H. destruct H as (Fb & Ft & Ftop & Fcd).
  cbn [blocks tips top top_cd] in *.
  unfold FInv, tip_stored, tips_stored, tip_maximal, get_block. rewrite Fb, Ft, Ftop, Fcd.
  split; [exists g; split; [unfold nget; cbn; rewrite N.eqb_refl; reflexivity|exact Hg]|]. split.
  - intros k tp [].
  - intros h b. unfold nget. cbn. destruct (h =? b_hash g); [intros [= <-]; lia|discriminate].
Qed.

Theorem tip_always_maximal g n0 ops :
  node0 cfg genesis_addr g = Ok n0 -> b_cd g = b_diff g ->
  let n := run n0 ops in
  (exists t, get_block n (top n) = Some t /\ b_cd t = top_cd n) /\
  (forall h b, get_block n h = Some b -> b_cd b <= top_cd n).
Proof.
  intros H0 Hg n. destruct (run_inv ops n0 (node0_inv g n0 H0 Hg)) as (A & _ & C). split; assumption.
Qed.

End ForkChoice.
