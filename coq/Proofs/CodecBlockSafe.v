(* No decoder of Model/CodecBlock.v panics; allocation bounds with explicit constants. *)
From Virel Require Import Lib.Config Lib.U64 Model.Des Model.Codec Model.CodecBlock
  Proofs.Des Proofs.DesSafe Proofs.Codec Proofs.CodecSafe Proofs.CodecBlock.
Open Scope N_scope.

Lemma safe_read_array L n c : n <= c -> safe L (read_array n) (fun a => blen a = n) c.
Proof.
  intros Hc. unfold read_array.
  eapply (safe_bind' _ _ _ _ _ n); [lia | apply safe_read_fixed; lia | intros b Hb; cbv beta in *].
  apply safe_to_array. lia.
Qed.

Lemma safe_read_u128 L c : 16 <= c -> safe L read_u128 (fun _ => True) c.
Proof.
  intros Hc. unfold read_u128, read_byte_slice. sstep. eapply (safe_bind' _ _ _ _ _ 16); [lia | apply safe_alloc; lia | intros _ _].
  apply safe_ret. exact I.
Qed.

Ltac sstepb :=
  lazymatch goal with
  | |- safe _ (bind (read_array ?n) _) _ _ =>
      eapply (safe_bind' _ _ _ _ _ n); [try lia | apply safe_read_array; lia | intros ? ?]; cbv beta in *
  | |- safe _ (bind read_u128 _) _ _ =>
      eapply (safe_bind' _ _ _ _ _ 16); [try lia | apply safe_read_u128; lia | intros ? _]; cbv beta in *
  | |- _ => sstep
  end.

Lemma int_count_ok_bound x limit : x < two64 -> int_count_ok x limit = true -> x <= limit.
Proof.
  unfold int_count_ok, int_of_u64, two64. intros Hx H. apply andb_prop in H. destruct H as [H1 H2].
  apply negb_true_iff in H1. apply negb_true_iff in H2. apply Z.ltb_ge in H1. apply Z.ltb_ge in H2.
  destruct (N.ltb_spec x 9223372036854775808); lia.
Qed.

Section BlockSafe.
Variable cfg : config.
Hypothesis Hok : cfg_ok_block cfg = true.
Variable L : N.
Notation T := (fun _ => True).

Lemma safe_dec_hid : safe L dec_hid T 32.
Proof. unfold dec_hid. repeat sstepb. exact I. Qed.

Definition C_CHAINS : N := (SZ_HID + 32) * (max_mm_chains cfg - 1).

Lemma safe_dec_chains n : n <= max_mm_chains cfg - 1 -> safe L (dec_chains n) T C_CHAINS.
Proof.
  intros Hn. unfold dec_chains, C_CHAINS.
  eapply (safe_bind' _ _ _ _ _ (SZ_HID * n)); [nia | apply safe_alloc; lia | intros _ _].
  eapply safe_weaken; [apply (safe_rep L (check_err ;;; dec_hid) T 32)| auto | ].
  - sstepb. apply safe_dec_hid.
  - unfold SZ_HID. nia.
Qed.

Definition C_ANC : N := 32 * minidag_ancestors cfg.

Lemma safe_ancestors : safe L (rep (N.to_nat (minidag_ancestors cfg)) (read_array 32)) T C_ANC.
Proof.
  eapply safe_weaken; [apply (safe_rep L (read_array 32) (fun a => blen a = 32) 32); apply safe_read_array; lia | auto | unfold C_ANC; lia].
Qed.

Definition C_COMMIT : N := 32 + C_ANC + 16 + C_CHAINS.

Lemma safe_dec_commitment : safe L (dec_commitment cfg) T C_COMMIT.
Proof.
  unfold dec_commitment, C_COMMIT. sstepb.
  eapply (safe_bind' _ _ _ T _ C_ANC); [lia | apply safe_ancestors | intros anc _].
  do 5 sstepb. sstepb; [sstepb|].
  apply negb_false_iff in Heqb. apply int_count_ok_bound in Heqb; [|assumption].
  eapply (safe_bind' _ _ _ T _ C_CHAINS); [lia | apply safe_dec_chains; assumption | intros ? _].
  sstepb. exact I.
Qed.

Definition C_HEADER : N :=
  16 + 22 + C_ANC + C_CHAINS + (SZ_COMMITMENT + C_COMMIT) * max_side_blocks cfg + 64.

Lemma safe_dec_header : safe L (dec_header cfg) T C_HEADER.
Proof.
  destruct (okb_consts cfg Hok) as (Hokc & _). destruct (ok_consts cfg Hokc) as (_ & Has & _ & Hss & _).
  unfold dec_header, C_HEADER. rewrite Has, Hss.
  do 7 sstepb.
  eapply (safe_bind' _ _ _ T _ C_ANC); [lia | apply safe_ancestors | intros anc _].
  do 2 sstepb. sstepb; [sstepb|].
  apply negb_false_iff in Heqb. apply int_count_ok_bound in Heqb; [|assumption].
  eapply (safe_bind' _ _ _ T _ C_CHAINS); [lia | apply safe_dec_chains; assumption | intros ? _].
  sstepb. sstepb; [sstepb|].
  apply negb_false_iff in Heqb0. apply int_count_ok_bound in Heqb0; [|assumption].
  eapply (safe_bind' _ _ _ _ _ (SZ_COMMITMENT * a7)); [nia | apply safe_alloc; lia | intros _ _].
  eapply (safe_bind' _ _ _ T _ (N.of_nat (N.to_nat a7) * C_COMMIT)); [nia | | intros ? _].
  { eapply safe_weaken; [apply (safe_rep L (check_err ;;; dec_commitment cfg) T C_COMMIT) | auto | lia].
    sstepb. eapply safe_weaken; [apply safe_dec_commitment|auto|lia]. }
  eapply (safe_bind' _ _ _ T _ 64); [rewrite ?N2Nat.id; unfold SZ_COMMITMENT; generalize C_COMMIT C_ANC C_CHAINS; intros; nia | | intros [[d nd] sg] _].
  { destruct (0 <? a); [|apply safe_ret; exact I]. repeat sstepb. exact I. }
  sstepb. exact I.
Qed.

Definition C_BLOCK : N := C_HEADER + 32 + (SZ_TXID + 32) * max_tx_per_block cfg.

Lemma safe_dec_block : safe L (dec_block cfg) T C_BLOCK.
Proof.
  unfold dec_block, C_BLOCK.
  eapply (safe_bind' _ _ _ T _ C_HEADER); [lia | apply safe_dec_header | intros h _].
  do 5 sstepb. sstepb; [sstepb|]. apply N.ltb_ge in Heqb.
  eapply (safe_bind' _ _ _ _ _ (SZ_TXID * a1)); [nia | apply safe_alloc; lia | intros _ _].
  eapply (safe_bind' _ _ _ T _ (N.of_nat (N.to_nat a1) * 32)); [unfold SZ_TXID; nia | | intros ? _].
  { eapply safe_weaken; [apply (safe_rep L _ T 32) | auto | lia]. repeat sstepb. exact I. }
  sstepb. exact I.
Qed.

Definition C_BLOB : N := 16 + 7 + (2 * SZ_HID + 32) * max_mm_chains cfg.

Lemma safe_dec_blob : safe L (dec_blob cfg) T C_BLOB.
Proof.
  unfold dec_blob, C_BLOB. do 6 sstepb. sstepb; [sstepb|]. sstepb; [sstepb|].
  apply orb_false_elim in Heqb. destruct Heqb as [_ Hmax]. apply N.ltb_ge in Hmax.
  do 2 sstepb.
  eapply (safe_bind' _ _ _ _ _ (2 * SZ_HID * a1)); [nia | apply safe_alloc; lia | intros _ _].
  eapply (safe_bind' _ _ _ T _ (N.of_nat (N.to_nat a1) * 32)); [nia | | intros ? _].
  { eapply safe_weaken; [apply (safe_rep L dec_hid T 32); apply safe_dec_hid | auto | lia]. }
  repeat sstepb. exact I.
Qed.

(* wire block: allocation is paid by the consumed input, 2 bytes per byte (payload of each transaction and its
   re-serialisation for the id), plus constants per transaction *)
Definition C_FULLTX : N := SZ_TX + 256 + C_TX cfg.

Lemma safeP_full_tx hv : safeP 2 L
  (sl <- read_byte_slice ;; t <- sub_des sl (dec_tx cfg hv) ;; alloc (SZ_TX + 2 * blen sl + 256) ;;; ret t) T C_FULLTX.
Proof.
  destruct (okb_consts cfg Hok) as (Hokc & _).
  intros s Hs. unfold bind at 1. unfold read_byte_slice, read_byte_slice_gen.
  (* after the slice is read: its length is at most the consumed input *)
  assert (Hsub : forall sl s1, blen sl <= L -> d_alloc s1 = d_alloc s ->
            blen (d_data s1) + blen sl <= blen (d_data s) ->
            match (t <- sub_des sl (dec_tx cfg hv) ;; alloc (SZ_TX + 2 * blen sl + 256) ;;; ret t) s1 with
            | MOk a s' => True /\ d_alloc s' + 2 * blen (d_data s') <= d_alloc s + 2 * blen (d_data s) + C_FULLTX
                          /\ blen (d_data s') <= blen (d_data s)
            | MErr n => n <= d_alloc s + 2 * blen (d_data s) + C_FULLTX
            | MPanic => False
            end).
  { intros sl s1 Hsl Hal Hlen. unfold bind at 1.
    pose proof (safe_sub_des L (dec_tx cfg hv) T (C_TX cfg) sl Hsl (safe_dec_tx cfg Hokc L hv) s1 ltac:(lia)) as Ht.
    destruct (sub_des sl (dec_tx cfg hv) s1) as [t s2| |]; [|unfold C_FULLTX; lia|assumption].
    destruct Ht as (_ & Hal2 & Hd2). cbn [bind alloc ret d_data d_err d_alloc].
    split; [exact I|]. unfold C_FULLTX. split; lia. }
  assert (Hnil : blen (@nil N) <= L) by (rewrite blen_nil; lia).
  destruct (d_err s) eqn:Ee.
  { apply (Hsub [] s); [assumption|reflexivity|rewrite blen_nil; lia]. }
  destruct (lenltb (d_data s) 1).
  { apply (Hsub [] (set_err s)); [assumption|reflexivity|cbn [set_err d_data]; rewrite blen_nil; lia]. }
  pose proof (uvarint_read_le (d_data s)) as Hr.
  destruct (uvarint (d_data s)) as [len x]. cbn [fst snd] in *.
  destruct (Z.ltb_spec x 0) as [Hneg|Hpos].
  { apply (Hsub [] (set_err s)); [assumption|reflexivity|cbn [set_err d_data]; rewrite blen_nil; lia]. }
  assert (Hx : Z.to_N x <= blen (d_data s)) by lia.
  destruct (split_at_enough _ _ Hx) as (a & r & E). rewrite E.
  destruct (split_at_len _ _ _ _ E) as (Hrl & _).
  rewrite lenltb_spec. destruct (N.ltb_spec (blen r) len) as [Hlt|Hge].
  { apply (Hsub [] (mkdes r true (d_alloc s))); [assumption|reflexivity|cbn [d_data]; rewrite blen_nil; lia]. }
  destruct (split_at_enough r len Hge) as (b & r' & E2). rewrite E2.
  destruct (split_at_some _ _ _ _ E2) as [-> Hb]. rewrite blen_app in *.
  apply (Hsub b (mkdes r' false (d_alloc s))); [lia|reflexivity|cbn [d_data]; lia].
Qed.

Definition C_FULL : N := C_HEADER + 32 + (SZ_PTR + SZ_TXID + C_FULLTX) * max_tx_per_block cfg.

Lemma safeP_dec_full_block : safeP 2 L (dec_full_block cfg) T C_FULL.
Proof.
  unfold dec_full_block, C_FULL.
  eapply (safeP_bind 2 L _ _ T _ C_HEADER); [lia | apply safeP_of_safe, safe_dec_header | intros h _].
  eapply (safeP_bind 2 L _ _ T _ 16); [lia | apply safeP_of_safe, safe_read_u128; lia | intros diff _].
  eapply (safeP_bind 2 L _ _ T _ 16); [lia | apply safeP_of_safe, safe_read_u128; lia | intros cum _].
  eapply (safeP_bind 2 L _ _ T _ 0); [lia | apply safeP_of_safe; eapply safe_weaken; [apply (safe_read_uvarint L 0)|intros; exact I|lia] | intros ntx _].
  eapply (safeP_bind 2 L _ _ T _ 0); [lia | apply safeP_of_safe, safe_check_err | intros _ _].
  destruct (max_tx_per_block cfg <? ntx) eqn:E; [apply safeP_of_safe, safe_fail|]. apply N.ltb_ge in E.
  eapply (safeP_bind 2 L _ _ T _ ((SZ_PTR + SZ_TXID) * ntx)); [nia | apply safeP_of_safe, safe_alloc; lia | intros _ _].
  eapply (safeP_bind 2 L _ _ T _ (N.of_nat (N.to_nat ntx) * C_FULLTX)); [nia | | intros txs _].
  { eapply safeP_weaken; [apply safeP_rep, safeP_full_tx | auto | lia]. }
  apply safeP_of_safe, safe_ret_err. exact I.
Qed.

End BlockSafe.

(* packets *)
Lemma safe_dec_pstats L : safe L dec_pstats (fun _ => True) 48.
Proof. unfold dec_pstats. repeat sstepb. exact I. Qed.
Lemma safe_dec_pblockreq L : safe L dec_pblockreq (fun _ => True) 32.
Proof. unfold dec_pblockreq. repeat sstepb; exact I. Qed.
Lemma safe_dec_pstakesig cfg L : cfg_ok_codec cfg = true -> safe L (dec_pstakesig cfg) (fun _ => True) 96.
Proof.
  intros Hokc. destruct (ok_consts cfg Hokc) as (_ & _ & _ & Hss & _). unfold dec_pstakesig. rewrite Hss.
  repeat sstepb. exact I.
Qed.
Lemma safe_dec_handshake L : safe L dec_handshake (fun _ => True) 32.
Proof. unfold dec_handshake. repeat sstepb; exact I. Qed.
Lemma safe_dec_frame_type L : safe L dec_frame_type (fun _ => True) 0.
Proof. unfold dec_frame_type. repeat sstepb. exact I. Qed.

(* OnAddPeerPacket, for every behaviour of net.ParseIP: the copies of the address strings are paid by the input *)
Lemma safeP_add_peer_loop parse_ip L fuel : forall counter,
  safeP 1 L (add_peer_loop parse_ip fuel counter) (fun _ => True) 0.
Proof.
  induction fuel as [|k IH]; intros counter; cbn [add_peer_loop].
  - apply safeP_of_safe, safe_ret. exact I.
  - destruct (negb (3 <? counter)); [apply safeP_of_safe, safe_ret; exact I|].
    eapply (safeP_bind 1 L _ _ (fun _ => True) _ 0); [lia | apply safeP_of_safe, safe_read_le | intros port _].
    destruct (port =? 0); [apply safeP_of_safe, safe_fail|].
    eapply (safeP_bind 1 L _ _ (fun _ => True) _ 0); [lia | apply safeP_read_string | intros ip _].
    destruct (negb (parse_ip ip)); [apply safeP_of_safe, safe_fail|].
    eapply (safeP_bind 1 L _ _ (fun _ => True) _ 0); [lia | apply safeP_of_safe, safe_check_err | intros _ _].
    eapply (safeP_bind 1 L _ _ (fun _ => True) _ 0); [lia | apply IH | intros l _].
    apply safeP_of_safe, safe_ret. exact I.
Qed.

Lemma safeP_dec_add_peer parse_ip L : safeP 1 L (dec_add_peer parse_ip) (fun _ => True) 0.
Proof.
  unfold dec_add_peer.
  eapply (safeP_bind 1 L _ _ (fun r => blen r <= L) _ 0); [lia | apply safeP_of_safe, safe_remaining | intros data _].
  destruct (lenltb data 3); [apply safeP_of_safe, safe_fail|]. apply safeP_add_peer_loop.
Qed.

(* ---- statements over whole byte strings *)
Section Top.
Variable cfg : config.
Hypothesis Hok : cfg_ok_block cfg = true.
Notation T := (fun _ => True).

Theorem commitment_no_panic bs :
  result_of (run (dec_commitment cfg) bs) <> RPanic /\ alloc_of (run (dec_commitment cfg) bs) <= C_COMMIT cfg.
Proof. apply (safe_run (blen bs) _ T); [lia|]. apply safe_dec_commitment. Qed.

Theorem header_no_panic bs :
  result_of (run (dec_header cfg) bs) <> RPanic /\ alloc_of (run (dec_header cfg) bs) <= C_HEADER cfg.
Proof. apply (safe_run (blen bs) _ T); [lia|]. apply safe_dec_header. exact Hok. Qed.

Theorem block_no_panic bs :
  result_of (run (dec_block cfg) bs) <> RPanic /\ alloc_of (run (dec_block cfg) bs) <= C_BLOCK cfg.
Proof. apply (safe_run (blen bs) _ T); [lia|]. apply safe_dec_block. exact Hok. Qed.

Theorem full_block_no_panic bs :
  result_of (run (dec_full_block cfg) bs) <> RPanic /\ alloc_of (run (dec_full_block cfg) bs) <= 2 * blen bs + C_FULL cfg.
Proof. apply (safeP_run 2 (blen bs) _ T); [lia|]. apply safeP_dec_full_block. exact Hok. Qed.

Theorem blob_no_panic bs :
  result_of (run (dec_blob cfg) bs) <> RPanic /\ alloc_of (run (dec_blob cfg) bs) <= C_BLOB cfg.
Proof. apply (safe_run (blen bs) _ T); [lia|]. apply safe_dec_blob. Qed.

Theorem pstakesig_no_panic bs :
  result_of (run (dec_pstakesig cfg) bs) <> RPanic /\ alloc_of (run (dec_pstakesig cfg) bs) <= 96.
Proof.
  apply (safe_run (blen bs) _ T); [lia|]. apply safe_dec_pstakesig. destruct (okb_consts cfg Hok) as (H & _). exact H.
Qed.
End Top.

Theorem pstats_no_panic bs : result_of (run dec_pstats bs) <> RPanic /\ alloc_of (run dec_pstats bs) <= 48.
Proof. apply (safe_run (blen bs) _ (fun _ => True)); [lia|]. apply safe_dec_pstats. Qed.
Theorem pblockreq_no_panic bs : result_of (run dec_pblockreq bs) <> RPanic /\ alloc_of (run dec_pblockreq bs) <= 32.
Proof. apply (safe_run (blen bs) _ (fun _ => True)); [lia|]. apply safe_dec_pblockreq. Qed.
Theorem handshake_no_panic bs : result_of (run dec_handshake bs) <> RPanic /\ alloc_of (run dec_handshake bs) <= 32.
Proof. apply (safe_run (blen bs) _ (fun _ => True)); [lia|]. apply safe_dec_handshake. Qed.
Theorem frame_type_no_panic bs : result_of (run dec_frame_type bs) <> RPanic /\ alloc_of (run dec_frame_type bs) <= 0.
Proof. apply (safe_run (blen bs) _ (fun _ => True)); [lia|]. apply safe_dec_frame_type. Qed.
Theorem add_peer_no_panic parse_ip bs :
  result_of (run (dec_add_peer parse_ip) bs) <> RPanic /\ alloc_of (run (dec_add_peer parse_ip) bs) <= 1 * blen bs + 0.
Proof. apply (safeP_run 1 (blen bs) _ (fun _ => True)); [lia|]. apply safeP_dec_add_peer. Qed.

(* stratum submit nonce (R5) *)
Lemma stratum_nonce_as_found_panics : result_of (run (stratum_nonce_gen false) [168]) = RPanic.
Proof. vm_compute. reflexivity. Qed.

Theorem stratum_nonce_no_panic bs : result_of (run stratum_nonce bs) <> RPanic /\ alloc_of (run stratum_nonce bs) <= 0.
Proof.
  apply (safe_run (blen bs) _ (fun _ => True)); [lia|]. unfold stratum_nonce, stratum_nonce_gen.
  sstep. destruct (lenltb a 4); [apply safe_fail|apply safe_ret; exact I].
Qed.
