(* Property C05, the side-block clauses (10-13) and the size clause (9) of Spec/WellFormed.v.

   PROVED of every accepted new block (any configuration, node state, clock):
     12 wf_unref   [accepted_unref]    from checkBlock's "previous ancestors" loop;
     13 wf_shared  [accepted_shared]   from checkBlock's ancestor scan (the code's rule is stronger: after the first
                                       common ancestor the following slots must agree too);
     11 wf_distinct [accepted_distinct] wherever the code runs its duplicate tests ([dup_checked]: height <> 440, or
                                       height 440 not pinned by a checkpoint; since /repo 7c12eb4, finding R22), hence at
                                       EVERY height of a configuration without checkpoints ([accepted_distinct_no_cp]), for
                                       commitments whose identity classes are coherent (equal under Commitment.Equals =>
                                       equal (BaseHash, Nonce, NonceExtra): true of real commitments, not expressible
                                       for the symbolic ones).  The code's rule compares (BaseHash, Nonce, NonceExtra)
                                       only, which is stronger than the clause.
   REFUTED by concrete accepted blocks of the verification network:
     10 wf_nsides  [accepted_nsides_refuted]  neither PrevalidateBlock nor checkBlock counts the side blocks
                                              (only the wire decoder does: [decoded_nsides]);
      9 wf_size    [accepted_size_refuted]    open finding R13b;
     11 at height 440 of mainnet [accepted_distinct_440_mainnet_refuted]  by design: the exemption of mainnet's
                                              historical block 440, which the checkpoints pin.  On the verification network
                                              the former witness is now refused: [twice_440_verifnet_rejected].
   Combined: [accepted_wellformed], [accepted_wellformed_code]. *)
From Virel Require Import Lib.Config Lib.U64 Lib.AMap Lib.CheckLib Model.Ledger Model.Node Spec.WellFormed
  Proofs.AMapLemmas Proofs.Conservation Proofs.WellFormedProof Proofs.ForkChoice Gen.Params.
Open Scope N_scope.
Open Scope bool_scope.

(* ---------------- clause 13: the ancestor scan ---------------- *)
Definition flc_go (ancid : nat) (anc : N) : list N -> nat -> option nat -> option nat :=
  fix go (l : list N) (vid : nat) (acc : option nat) : option nat :=
    match l with
    | [] => acc
    | v :: r => go r (S vid) (if (Nat.leb ancid vid) && (v =? anc) then Some (vid - ancid)%nat else acc)
    end.

Lemma find_last_common_go banc ancid anc : find_last_common banc ancid anc = flc_go ancid anc banc O None.
Proof. reflexivity. Qed.

Lemma flc_go_in ancid anc : forall l vid acc d,
  flc_go ancid anc l vid acc = Some d -> acc = None -> existsb (fun x => x =? anc) l = true.
Proof.
  induction l as [|v r IH]; intros vid acc d H Hacc; cbn [flc_go existsb] in *.
  - rewrite Hacc in H. discriminate.
  - destruct (v =? anc) eqn:Ev; [reflexivity|]. rewrite Bool.andb_false_r in H. cbn [orb]. exact (IH _ _ _ H Hacc).
Qed.

Lemma find_last_common_in banc ancid anc d :
  find_last_common banc ancid anc = Some d -> existsb (fun x => x =? anc) banc = true.
Proof. rewrite find_last_common_go. intros H. exact (flc_go_in _ _ _ _ _ _ H eq_refl). Qed.

Lemma side_scan_shared banc : forall sanc ancid d,
  side_scan sanc banc ancid None = Ok (Some d) ->
  existsb (fun a => existsb (fun x => x =? a) banc) sanc = true.
Proof.
  induction sanc as [|anc r IH]; intros ancid d H; cbn [side_scan] in H; [discriminate|].
  cbn [existsb]. destruct (find_last_common banc ancid anc) as [d0|] eqn:E.
  - rewrite (find_last_common_in _ _ _ _ E). reflexivity.
  - rewrite (IH _ _ H). apply Bool.orb_true_r.
Qed.

(* ---------------- clause 12: the predecessors' commitments ---------------- *)
Definition pred_go (n : node) : list N -> list block :=
  fix go (hs : list N) : list block :=
    match hs with
    | [] => []
    | h :: r => match get_block n h with
                | Some x => if b_height x =? 0 then [x] else x :: go r
                | None => [] end
    end.

Lemma pred_blocks_go n b : pred_blocks n b = pred_go n (b_anc b).
Proof. reflexivity. Qed.

Lemma side_referenced_eq n b s : side_referenced n b s = existsb (commit_in_block s) (pred_blocks n b).
Proof. reflexivity. Qed.

Lemma side_in_ancestors_ok n s : forall ancs,
  side_in_ancestors n s ancs = Ok tt -> existsb (commit_in_block s) (pred_go n ancs) = false.
Proof.
  induction ancs as [|a r IH]; intros H; cbn [side_in_ancestors pred_go] in *; [reflexivity|].
  opt_inv H. guard_inv H. apply Bool.negb_true_iff in G.
  destruct (b_height x =? 0); cbn [existsb]; rewrite G; [reflexivity|]. cbn [orb]. exact (IH H).
Qed.

(* what the side-block loop of checkBlock establishes for each side block *)
Lemma check_sides_each n b prev : forall ss,
  check_sides n b prev ss = Ok tt ->
  forall s, In s ss ->
    (exists d, side_scan (cm_anc s) (b_anc b) O None = Ok (Some d)) /\ commit_in_block s prev = false /\
    (0 <? b_height prev = true -> side_in_ancestors n s (tl (b_anc b)) = Ok tt).
Proof.
  induction ss as [|s0 r IH]; intros H s Hin; [destruct Hin|].
  cbn [check_sides] in H. bind_inv H. guard_inv H. guard_inv H. bind_inv H.
  destruct Hin as [<-|Hin]; [|exact (IH H s Hin)].
  destruct a as [d|]; [|discriminate]. split; [exists d; exact E|].
  split; [apply Bool.negb_true_iff; exact G0|].
  intros Hpos. rewrite Hpos in E0. destruct (side_in_ancestors n s0 (tl (b_anc b))) as [[]| |]; [reflexivity|discriminate|discriminate].
Qed.

Lemma check_sides_shared n b prev ss : check_sides n b prev ss = Ok tt -> forallb (shares_ancestor b) ss = true.
Proof.
  intros H. apply forallb_forall. intros s Hin.
  destruct (check_sides_each _ _ _ _ H s Hin) as ((d & Hd) & _). exact (side_scan_shared _ _ _ _ Hd).
Qed.

Lemma check_sides_unref n b prev ss :
  get_block n (prev_hash b) = Some prev -> check_sides n b prev ss = Ok tt ->
  forallb (fun s => negb (side_referenced n b s)) ss = true.
Proof.
  intros Hp H. apply forallb_forall. intros s Hin.
  destruct (check_sides_each _ _ _ _ H s Hin) as (_ & Hprev & Hanc).
  apply Bool.negb_true_iff. rewrite side_referenced_eq, pred_blocks_go.
  unfold prev_hash, anc_nth in Hp. destruct (b_anc b) as [|h r]; [reflexivity|].
  cbn [nth] in Hp. cbn [pred_go tl] in *. rewrite Hp.
  destruct (b_height prev =? 0) eqn:Eh; cbn [existsb]; rewrite Hprev; [reflexivity|]. cbn [orb].
  apply side_in_ancestors_ok. apply Hanc. apply N.eqb_neq in Eh. apply N.ltb_lt. lia.
Qed.

(* ---------------- clause 11: duplicates ---------------- *)
(* coherence of the two symbolic identity classes of a commitment: Commitment.Equals compares (BaseHash, Timestamp,
   Nonce, NonceExtra), the duplicate test of PrevalidateBlock (BaseHash, Nonce, NonceExtra) *)
Definition commits_coherent (ss : list commit) : Prop :=
  forall s1 s2, In s1 ss -> In s2 ss -> cm_eq s1 = cm_eq s2 -> cm_dup s1 = cm_dup s2.

Lemma dup_free_distinct : forall ss, commits_coherent ss -> sides_dup_free ss = true -> distinct_commits ss = true.
Proof.
  induction ss as [|s r IH]; intros Hc H; [reflexivity|].
  cbn [sides_dup_free distinct_commits] in *. apply Bool.andb_true_iff in H. destruct H as [H1 H2].
  apply Bool.andb_true_iff. split.
  - apply forallb_forall. intros s2 Hin. rewrite forallb_forall in H1. specialize (H1 s2 Hin).
    apply Bool.negb_true_iff. apply Bool.negb_true_iff in H1. apply N.eqb_neq. apply N.eqb_neq in H1.
    intros Heq. apply H1. apply Hc; [right; exact Hin|left; reflexivity|exact Heq].
  - apply IH; [|exact H2]. intros s1 s2 H1' H2'. apply Hc; right; assumption.
Qed.

(* where PrevalidateBlock runs its two duplicate tests (606, 607): everywhere but at height 440 under a checkpoint *)
Definition dup_checked (cfg : config) (b : block) : Prop :=
  b_height b <> 440 \/ is_secured cfg (b_height b) = false.

Lemma is_secured_no_cp cfg h : cp_max cfg = 0 -> is_secured cfg h = false.
Proof. intros H. unfold is_secured. rewrite H. reflexivity. Qed.

Lemma dup_checked_no_cp cfg b : cp_max cfg = 0 -> dup_checked cfg b.
Proof. intros H. right. apply is_secured_no_cp. exact H. Qed.

Section WF2.
Variable cfg : config.
Variable genesis_addr team_key : N.

Lemma prevalidate_dup_free b now :
  prevalidate_block cfg team_key b now = Ok tt -> dup_checked cfg b -> sides_dup_free (b_sides b) = true.
Proof.
  unfold prevalidate_block. intros H Hh.
  guard_inv H. guard_inv H. guard_inv H. guard_inv H. guard_inv H. bind_inv H. bind_inv H.
  assert (Hx : (b_height b =? 440) && is_secured cfg (b_height b) = false).
  { destruct Hh as [Hh|Hh]; [apply N.eqb_neq in Hh; rewrite Hh; reflexivity|rewrite Hh; apply Bool.andb_false_r]. }
  rewrite Hx in E0. guard_inv E0.
  destruct (sides_dup_free (b_sides b)); [reflexivity|discriminate].
Qed.

Lemma deliver_accepted_inv n b now n' amb :
  deliver cfg genesis_addr team_key n b now = (n', Accepted, amb) ->
  prevalidate_block cfg team_key b now = Ok tt /\
  exists p, get_block n (prev_hash b) = Some p /\ check_sides n b p (b_sides b) = Ok tt.
Proof.
  intros H. unfold deliver in H.
  destruct (prevalidate_block cfg team_key b now) as [[]|c|c] eqn:Epre; try discriminate.
  destruct (add_block cfg genesis_addr n b) as [[n1 a]|c|c] eqn:Eadd; try discriminate.
  split; [reflexivity|].
  unfold add_block in Eadd. guard_inv Eadd. opt_inv Eadd. bind_inv Eadd.
  exists x. split; [reflexivity|].
  unfold check_block in E0. bind_inv E0. guard_inv E0. guard_inv E0. guard_inv E0. bind_inv E0.
  match goal with |- Ok ?u = Ok tt => destruct u; reflexivity end.
Qed.

(* clause 12 *)
Theorem accepted_unref n b now n' amb :
  deliver cfg genesis_addr team_key n b now = (n', Accepted, amb) -> wf_unref n b = true.
Proof.
  intros H. destruct (deliver_accepted_inv _ _ _ _ _ H) as (_ & p & Hp & Hs).
  exact (check_sides_unref _ _ _ _ Hp Hs).
Qed.

(* clause 13 *)
Theorem accepted_shared n b now n' amb :
  deliver cfg genesis_addr team_key n b now = (n', Accepted, amb) -> wf_shared b = true.
Proof.
  intros H. destruct (deliver_accepted_inv _ _ _ _ _ H) as (_ & p & _ & Hs).
  exact (check_sides_shared _ _ _ _ Hs).
Qed.

(* clause 11, wherever the duplicate tests run *)
Theorem accepted_distinct n b now n' amb :
  deliver cfg genesis_addr team_key n b now = (n', Accepted, amb) ->
  dup_checked cfg b -> commits_coherent (b_sides b) -> wf_distinct b = true.
Proof.
  intros H Hh Hc. destruct (deliver_accepted_inv _ _ _ _ _ H) as (Hpre & _).
  exact (dup_free_distinct _ Hc (prevalidate_dup_free _ _ Hpre Hh)).
Qed.

(* the code's own duplicate rule, which needs no coherence: pairwise different (BaseHash, Nonce, NonceExtra) *)
Theorem accepted_dup_free n b now n' amb :
  deliver cfg genesis_addr team_key n b now = (n', Accepted, amb) ->
  dup_checked cfg b -> sides_dup_free (b_sides b) = true.
Proof.
  intros H Hh. destruct (deliver_accepted_inv _ _ _ _ _ H) as (Hpre & _). exact (prevalidate_dup_free _ _ Hpre Hh).
Qed.

(* ---------------- the combined statement ---------------- *)
(* an accepted new block satisfies clauses 1-6, 8, 11 (where the duplicate tests run, coherent classes), 12, 13, 14 *)
Theorem accepted_wellformed n b now n' amb :
  deliver cfg genesis_addr team_key n b now = (n', Accepted, amb) ->
  now + future_time_limit cfg * 1000 < two64 -> b_diff b * 2 < two128 ->
  (forall p, get_block n (prev_hash b) = Some p -> b_height p + 1 < two64) ->
  exists p, get_block n (prev_hash b) = Some p /\ get_block n (b_hash b) = None /\
    wf_pow cfg b = true /\ wf_diff cfg n p b = true /\ wf_height p b = true /\ wf_time cfg p b now = true /\
    wf_cd p b = true /\ wf_version cfg b = true /\ wf_chains cfg b = true /\
    (dup_checked cfg b -> commits_coherent (b_sides b) -> wf_distinct b = true) /\
    wf_unref n b = true /\ wf_shared b = true /\ wf_sidework cfg b = true /\
    min_difficulty cfg <= b_diff b.
Proof.
  intros H Hnow Hd Hh.
  destruct (accepted_wellformed_core cfg genesis_addr team_key n b now n' amb H Hnow Hd Hh)
    as (p & Hp & Hnew & C1 & C2 & C3 & C4 & C5 & C6 & C8 & C14 & Hmin).
  exists p. repeat (split; [assumption|]).
  split; [intros Hne Hc; exact (accepted_distinct _ _ _ _ _ H Hne Hc)|].
  split; [exact (accepted_unref _ _ _ _ _ H)|]. split; [exact (accepted_shared _ _ _ _ _ H)|].
  split; assumption.
Qed.

(* the same through the clause list of the specification: the only clauses an accepted new block can fail are
   7 (ancestor list), 9 (size) and 10 (number of side blocks) *)
Theorem accepted_wellformed_code n b now n' amb :
  deliver cfg genesis_addr team_key n b now = (n', Accepted, amb) ->
  now + future_time_limit cfg * 1000 < two64 -> b_diff b * 2 < two128 ->
  (forall p, get_block n (prev_hash b) = Some p -> b_height p + 1 < two64) ->
  dup_checked cfg b -> commits_coherent (b_sides b) ->
  let c := wellformed cfg n b now in c = 0 \/ c = 7 \/ c = 9 \/ c = 10.
Proof.
  intros H Hnow Hd Hh Hne Hc.
  destruct (accepted_wellformed n b now n' amb H Hnow Hd Hh)
    as (p & Hp & Hnew & C1 & C2 & C3 & C4 & C5 & C6 & C8 & C11 & C12 & C13 & C14 & Hmin).
  specialize (C11 Hne Hc). cbv zeta. unfold wellformed. rewrite Hp. cbn [first_fail].
  rewrite C1, C2, C3, C4, C5, C6, C8, C11, C12, C13, C14.
  destruct (wf_anc p b); [|auto]. destruct (wf_size cfg b); [|auto]. destruct (wf_nsides cfg b); auto.
Qed.

(* so the three unenforced clauses are all that separates an accepted block from a well-formed one *)
Corollary accepted_wellformed_modulo n b now n' amb p :
  deliver cfg genesis_addr team_key n b now = (n', Accepted, amb) ->
  now + future_time_limit cfg * 1000 < two64 -> b_diff b * 2 < two128 ->
  (forall p, get_block n (prev_hash b) = Some p -> b_height p + 1 < two64) ->
  dup_checked cfg b -> commits_coherent (b_sides b) ->
  get_block n (prev_hash b) = Some p -> wf_anc p b = true -> wf_size cfg b = true -> wf_nsides cfg b = true ->
  wellformed cfg n b now = 0.
Proof.
  intros H Hnow Hd Hh Hne Hc Hp A7 A9 A10.
  destruct (accepted_wellformed n b now n' amb H Hnow Hd Hh)
    as (p' & Hp' & Hnew & C1 & C2 & C3 & C4 & C5 & C6 & C8 & C11 & C12 & C13 & C14 & Hmin).
  rewrite Hp in Hp'. injection Hp' as <-.
  specialize (C11 Hne Hc). unfold wellformed. rewrite Hp. cbn [first_fail].
  rewrite C1, C2, C3, C4, C5, C6, A7, C8, A9, A10, C11, C12, C13, C14. reflexivity.
Qed.

(* ---------------- configurations without checkpoints: no height is exempt ---------------- *)
Section NoCheckpoints.
Hypothesis Hcp : cp_max cfg = 0.

Theorem accepted_dup_free_no_cp n b now n' amb :
  deliver cfg genesis_addr team_key n b now = (n', Accepted, amb) -> sides_dup_free (b_sides b) = true.
Proof. intros H. exact (accepted_dup_free _ _ _ _ _ H (dup_checked_no_cp _ _ Hcp)). Qed.

Theorem accepted_distinct_no_cp n b now n' amb :
  deliver cfg genesis_addr team_key n b now = (n', Accepted, amb) ->
  commits_coherent (b_sides b) -> wf_distinct b = true.
Proof. intros H. exact (accepted_distinct _ _ _ _ _ H (dup_checked_no_cp _ _ Hcp)). Qed.

Theorem accepted_wellformed_code_no_cp n b now n' amb :
  deliver cfg genesis_addr team_key n b now = (n', Accepted, amb) ->
  now + future_time_limit cfg * 1000 < two64 -> b_diff b * 2 < two128 ->
  (forall p, get_block n (prev_hash b) = Some p -> b_height p + 1 < two64) ->
  commits_coherent (b_sides b) ->
  let c := wellformed cfg n b now in c = 0 \/ c = 7 \/ c = 9 \/ c = 10.
Proof.
  intros H Hnow Hd Hh Hc. exact (accepted_wellformed_code _ _ _ _ _ H Hnow Hd Hh (dup_checked_no_cp _ _ Hcp) Hc).
Qed.
End NoCheckpoints.

End WF2.

(* ================================================================== witnesses (verification network constants) *)
(* All witness nodes are reachable: genesis [wit_g] (hash 1), then blocks delivered through [deliver].
   Symbolic commitments: identity classes = the number [e], proof-of-work value 0 (meets every difficulty). *)
Ltac conj_split := repeat match goal with |- _ /\ _ => split end.
Definition w2_cm (e : N) (anc : list N) (ts : N) : commit := mkcommit e e anc ts 0 false.
Definition w2_dummy : node := mknode [] [] 0 0 0 [] ledger0.
Definition w2_n0 : node := match node0 cfg_verifnet 7 wit_g with Ok n => n | _ => w2_dummy end.
Definition w2_n1 : node := run cfg_verifnet 7 0 w2_n0 [(wit_b1, 5000)].

(* ---- clause 10: three side blocks.  Chain 1 (genesis) - 2 ([wit_b1], height 1); the block 3 of height 2 commits to
   three other children 10, 11, 12 of the genesis block.  Everything else about it is well formed. *)
Definition w2_three_sides : block :=
  mkblock 3 0 2 2000 [2; 1; 0] [w2_cm 10 [1; 0; 0] 1500; w2_cm 11 [1; 0; 0] 1600; w2_cm 12 [1; 0; 0] 1700]
          9 0 0 true 0 0 4 17 [] [] 0 56 (w2_cm 3 [2; 1; 0] 2000) false.

Theorem accepted_nsides_refuted :
  exists n b now n' amb,
    node0 cfg_verifnet 7 wit_g = Ok w2_n0 /\ n = run cfg_verifnet 7 0 w2_n0 [(wit_b1, 5000)] /\
    deliver cfg_verifnet 7 0 n b now = (n', Accepted, amb) /\ get_block n (b_hash b) = None /\
    length (b_sides b) = 3%nat /\ max_side_blocks cfg_verifnet = 2 /\
    wf_nsides cfg_verifnet b = false /\ wellformed cfg_verifnet n b now = 10 /\
    wf_distinct b = true /\ wf_unref n b = true /\ wf_shared b = true /\ wf_sidework cfg_verifnet b = true.
Proof.
  exists w2_n1, w2_three_sides, 5000,
         (fst (fst (deliver cfg_verifnet 7 0 w2_n1 w2_three_sides 5000))),
         (snd (deliver cfg_verifnet 7 0 w2_n1 w2_three_sides 5000)).
  conj_split; vm_compute; reflexivity.
Qed.

(* ---- clause 9 (open finding R13b): a block of height 1 on the genesis block with 76 transfers of 32 outputs each
   (virtual size 99 + 32*24 = 867 each, 65892 in total > max_block_size = 65536), signed by key 3 whose address 7 holds
   the genesis reward; every other clause holds. *)
Definition w2_tx (i : nat) : tx :=
  mktx (1000 + N.of_nat i) 1 3 3 true false (TTransfer (repeat (9, 1) 32)) (N.of_nat i) 433500000.
Definition w2_big : block :=
  mkblock 2 0 1 1000 [1; 0; 0] [] 9 0 0 true 0 0 4 5 (map w2_tx (seq 1 76)) [] 0 55 (w2_cm 2 [1; 0; 0] 1000) false.

Theorem accepted_size_refuted :
  exists n b now n' amb,
    node0 cfg_verifnet 7 wit_g = Ok n /\
    deliver cfg_verifnet 7 0 n b now = (n', Accepted, amb) /\ get_block n (b_hash b) = None /\
    tx_sizes cfg_verifnet b = 65892 /\ max_block_size cfg_verifnet = 65536 /\
    wf_size cfg_verifnet b = false /\ wellformed cfg_verifnet n b now = 9 /\
    wf_nsides cfg_verifnet b = true /\ wf_distinct b = true /\ wf_unref n b = true /\ wf_shared b = true /\
    wf_sidework cfg_verifnet b = true.
Proof.
  exists w2_n0, w2_big, 5000,
         (fst (fst (deliver cfg_verifnet 7 0 w2_n0 w2_big 5000))),
         (snd (deliver cfg_verifnet 7 0 w2_n0 w2_big 5000)).
  conj_split; vm_compute; reflexivity.
Qed.

(* ---- clause 11 at height 440.  Until /repo 7c12eb4 the code skipped both duplicate tests at that height in EVERY network
   configuration (finding R22: the block [w2_twice 440] below was accepted on the verification network, replayed on the
   implementation by the ledger scenario h440).  Now the tests are skipped only where height 440 lies under a checkpoint.
   A chain of 439 blocks on the genesis block (hash of the block of height j = j + 1, timestamps 15 s apart so that the
   difficulty stays 4, version 1 from height 3), then a block of height 440 that lists the same side block twice. *)
Definition w2_hash (j : N) : N := j + 1.
Definition w2_anc (i : N) : list N := [i; (if 2 <=? i then i - 1 else 0); (if 3 <=? i then i - 2 else 0)].
Definition w2_cd (i : N) : N := if i <=? 2 then 1 + 4 * i else 9 + 2 * (i - 2).
Definition w2_chain_block (i : N) : block :=
  mkblock (w2_hash i) (if 3 <=? i then 1 else 0) i (15000 * i) (w2_anc i) [] 9 0 0 true 0 0 4 (w2_cd i) [] [] 0 (1000 + i)
          (w2_cm (w2_hash i) (w2_anc i) (15000 * i)) false.
Definition w2_chain (k : nat) : list (block * N) := map (fun i => (w2_chain_block (N.of_nat i), 6600000)) (seq 1 k).
Definition w2_twice (ht : N) : block :=
  let s := w2_cm 900 (w2_anc (ht - 1)) (15000 * ht - 1) in
  mkblock (w2_hash ht) 1 ht (15000 * ht) (w2_anc ht) [s; s] 9 0 0 true 0 0 4 (w2_cd (ht - 1) + 4) [] [] 0 77
          (w2_cm (w2_hash ht) (w2_anc ht) (15000 * ht)) false.

(* regression of R22: the former witness is refused by the duplicate test, and nothing else is wrong with it (the same
   block with one of the two copies replaced by another sibling is accepted) *)
Definition w2_two_sides (ht : N) : block :=
  let s := w2_cm 900 (w2_anc (ht - 1)) (15000 * ht - 1) in
  let s' := w2_cm 901 (w2_anc (ht - 1)) (15000 * ht - 2) in
  mkblock (w2_hash ht) 1 ht (15000 * ht) (w2_anc ht) [s; s'] 9 0 0 true 0 0 4 (w2_cd (ht - 1) + 4) [] [] 0 77
          (w2_cm (w2_hash ht) (w2_anc ht) (15000 * ht)) false.

Example twice_440_verifnet_rejected :
  node0 cfg_verifnet 7 wit_g = Ok w2_n0 /\
  let n := run cfg_verifnet 7 0 w2_n0 (w2_chain 439) in
  top_h n = 439 /\ b_height (w2_twice 440) = 440 /\ wf_distinct (w2_twice 440) = false /\
  deliver cfg_verifnet 7 0 n (w2_twice 440) 6600000 = (n, Rejected 607, false) /\
  snd (fst (deliver cfg_verifnet 7 0 n (w2_two_sides 440) 6600000)) = Accepted /\
  wellformed cfg_verifnet n (w2_two_sides 440) 6600000 = 0.
Proof. cbv zeta. conj_split; vm_compute; reflexivity. Qed.

(* BY DESIGN: on mainnet height 440 lies under the embedded checkpoints (is_secured), the duplicate tests are skipped
   there for the sake of the historical block 440, and the model shows what that admits: after 439 blocks that match
   the checkpoints of their heights ([b_cp_match]; proof of work is not examined below the last checkpoint), a block of
   height 440 with the same side block twice is accepted.  Only a chain that reproduces mainnet's checkpointed hashes
   gets there, i.e. the real chain. *)
Definition w2m_ts (i : N) : N := genesis_timestamp cfg_mainnet + 15000 * i.
Definition w2m_g : block := genesis_block cfg_mainnet 7 1 123 (w2_cm 1 [0; 0; 0] (w2m_ts 0)).
Definition w2m_n0 : node := match node0 cfg_mainnet 7 w2m_g with Ok n => n | _ => w2_dummy end.
Definition w2m_block (i : N) : block :=
  mkblock (w2_hash i) 0 i (w2m_ts i) (w2_anc i) [] 9 0 0 true 0 0 100000 (1 + 100000 * i) [] [] 0 (1000 + i)
          (w2_cm (w2_hash i) (w2_anc i) (w2m_ts i)) true.
Definition w2m_now : N := w2m_ts 440.
Definition w2m_chain (k : nat) : list (block * N) := map (fun i => (w2m_block (N.of_nat i), w2m_now)) (seq 1 k).
Definition w2m_twice (ht : N) : block :=
  let s := w2_cm 900 (w2_anc (ht - 1)) (w2m_ts ht - 1) in
  mkblock (w2_hash ht) 0 ht (w2m_ts ht) (w2_anc ht) [s; s] 9 0 0 true 0 0 100000 (1 + 100000 * (ht - 1) + 233333) [] [] 0 77
          (w2_cm (w2_hash ht) (w2_anc ht) (w2m_ts ht)) false.

Theorem accepted_distinct_440_mainnet_refuted :
  exists n b now n' amb,
    node0 cfg_mainnet 7 w2m_g = Ok w2m_n0 /\ n = run cfg_mainnet 7 0 w2m_n0 (w2m_chain 439) /\
    deliver cfg_mainnet 7 0 n b now = (n', Accepted, amb) /\ get_block n (b_hash b) = None /\
    b_height b = 440 /\ is_secured cfg_mainnet 440 = true /\ commits_coherent (b_sides b) /\
    wf_distinct b = false /\ sides_dup_free (b_sides b) = false /\ wellformed cfg_mainnet n b now = 11 /\
    (* one height lower the same block is refused by the duplicate test *)
    snd (fst (deliver cfg_mainnet 7 0 (run cfg_mainnet 7 0 w2m_n0 (w2m_chain 438)) (w2m_twice 439) now)) = Rejected 607.
Proof.
  exists (run cfg_mainnet 7 0 w2m_n0 (w2m_chain 439)), (w2m_twice 440), w2m_now,
         (fst (fst (deliver cfg_mainnet 7 0 (run cfg_mainnet 7 0 w2m_n0 (w2m_chain 439)) (w2m_twice 440) w2m_now))),
         (snd (deliver cfg_mainnet 7 0 (run cfg_mainnet 7 0 w2m_n0 (w2m_chain 439)) (w2m_twice 440) w2m_now)).
  split; [vm_compute; reflexivity|]. split; [reflexivity|].
  split; [vm_compute; reflexivity|]. split; [vm_compute; reflexivity|]. split; [reflexivity|].
  split; [vm_compute; reflexivity|].
  split; [intros s1 s2 [<-|[<-|[]]] [<-|[<-|[]]] _; reflexivity|].
  conj_split; vm_compute; reflexivity.
Qed.

(* ---- the coherence hypothesis of [accepted_distinct] is needed in the symbolic model (a model artefact, not a statement
   about the code): two commitments of one Equals class filed under different duplicate classes pass the code's test.
   No real pair of commitments is like that: Equals compares a superset of the fields of the duplicate test. *)
Definition w2_incoherent : block :=
  mkblock 3 0 2 2000 [2; 1; 0] [mkcommit 10 10 [1; 0; 0] 1500 0 false; mkcommit 10 11 [1; 0; 0] 1500 0 false]
          9 0 0 true 0 0 4 14 [] [] 0 56 (w2_cm 3 [2; 1; 0] 2000) false.

Theorem accepted_distinct_needs_coherence :
  exists n b now n' amb,
    deliver cfg_verifnet 7 0 n b now = (n', Accepted, amb) /\ b_height b <> 440 /\
    ~ commits_coherent (b_sides b) /\ wf_distinct b = false.
Proof.
  exists w2_n1, w2_incoherent, 5000,
         (fst (fst (deliver cfg_verifnet 7 0 w2_n1 w2_incoherent 5000))),
         (snd (deliver cfg_verifnet 7 0 w2_n1 w2_incoherent 5000)).
  split; [vm_compute; reflexivity|]. split; [vm_compute; discriminate|].
  split; [|vm_compute; reflexivity].
  intros Hc. specialize (Hc (mkcommit 10 10 [1; 0; 0] 1500 0 false) (mkcommit 10 11 [1; 0; 0] 1500 0 false)
                            (or_introl eq_refl) (or_intror (or_introl eq_refl)) eq_refl).
  discriminate Hc.
Qed.
