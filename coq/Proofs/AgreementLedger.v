(* Property C04, the ledger half of agreement: two nodes started from the same genesis that store the same blocks and
   whose heaviest stored block is unique have the same tip (Proofs/Agreement.v), hence the same main chain - the main
   chain is the one path of stored blocks from genesis to the tip - hence, their ledgers being the replay of their main
   chains (Proofs/Replay4.v, Replay5.v), the same accounts, delegate table and staked total. *)
From Virel Require Import Lib.Config Lib.U64 Lib.AMap Model.Emission Model.Ledger Model.Node Spec.Chain
  Proofs.AMapLemmas Proofs.Emission Proofs.Conservation Proofs.Pointwise Proofs.NodeBasics Proofs.ForkChoice Proofs.Restart
  Proofs.ChainInv Proofs.ChainRun Proofs.ChainHeights Proofs.Agreement Proofs.Undo Proofs.Undo2 Proofs.Refine2
  Proofs.Replay1 Proofs.Replay2
  Proofs.Replay3 Proofs.Replay4 Proofs.Replay5 Proofs.NodeConservation.
Open Scope N_scope.
Open Scope bool_scope.

(* ---------------------------------------------------------------- paths of stored blocks are determined by their end *)
Section PathUnique.
Variable gh : N.
Variable bl : list (N * block).

Lemma up_last_not_genesis r c x : up gh bl x (r ++ [c]) -> b_hash c <> gh.
Proof. intros H. apply up_app in H. destruct H as (_ & H). cbn [up] in H. destruct H as (_ & _ & H & _). exact H. Qed.

Lemma up_snoc_inv r c x : up gh bl x (r ++ [c]) ->
  up gh bl x r /\ nget bl (b_hash c) = Some c /\ prev_hash c = last_hash x r.
Proof.
  intros H. apply up_app in H. destruct H as (H1 & H2). cbn [up] in H2. destruct H2 as (Hc & Hp & _).
  split; [exact H1|]. split; assumption.
Qed.

(* two paths from genesis that end at the same block are the same list *)
Lemma up_unique : forall r1 r2,
  up gh bl gh r1 -> up gh bl gh r2 -> last_hash gh r1 = last_hash gh r2 -> r1 = r2.
Proof.
  induction r1 as [|c1 r1 IH] using rev_ind; intros r2; destruct r2 as [|c2 r2 _] using rev_ind; intros H1 H2 Hl.
  - reflexivity.
  - exfalso. rewrite last_hash_snoc in Hl. apply (up_last_not_genesis _ _ _ H2). symmetry. exact Hl.
  - exfalso. rewrite last_hash_snoc in Hl. apply (up_last_not_genesis _ _ _ H1). exact Hl.
  - rewrite !last_hash_snoc in Hl.
    destruct (up_snoc_inv _ _ _ H1) as (U1 & S1 & P1). destruct (up_snoc_inv _ _ _ H2) as (U2 & S2 & P2).
    rewrite Hl, S2 in S1. injection S1 as <-.
    rewrite (IH r2 U1 U2); [reflexivity|]. rewrite <- P1, <- P2. reflexivity.
Qed.
End PathUnique.

(* association lists that agree on their keys agree everywhere *)
Lemma nget_ext_keys {V} (m1 m2 : list (N * V)) :
  (forall k, In k (keys m1 ++ keys m2) -> nget m1 k = nget m2 k) -> forall h, nget m1 h = nget m2 h.
Proof.
  intros H h. destruct (in_dec N.eq_dec h (keys m1 ++ keys m2)) as [Hin|Hn]; [apply H; exact Hin|].
  rewrite (not_in_keys_nget_none m1 h), (not_in_keys_nget_none m2 h); [reflexivity| |];
    intros Hin; apply Hn; apply in_or_app; [right|left]; exact Hin.
Qed.

Section AgreementLedger.
Variable cfg : config.
Variable genesis_addr team_key : N.

(* the main chain of a consistent node ends at its tip *)
Lemma mchain_last gh n : CInv gh n -> HInv n -> last_hash gh (mchain n) = top n.
Proof.
  intros (HB & HT) (Hh & _). pose proof HT as (_ & t & Ht & Htop & _). unfold mchain. rewrite <- (Hh t Ht).
  destruct (chain_upto_up gh _ _ _ _ (N.to_nat (b_height t)) HB HT Ht (le_n _)) as (_ & Hl).
  rewrite N2Nat.id, Htop in Hl. injection Hl as ->. reflexivity.
Qed.

Lemma mchain_path gh n : CInv gh n -> HInv n -> up gh (blocks n) gh (mchain n).
Proof.
  intros (HB & HT) (Hh & _). pose proof HT as (_ & t & Ht & _). unfold mchain. rewrite <- (Hh t Ht).
  apply (chain_upto_up gh _ _ _ _ _ HB HT Ht (le_n _)).
Qed.

(* same store and same tip: same main chain, same ledger view of it *)
Lemma same_store_same_mchain gh n1 n2 :
  CInv gh n1 -> HInv n1 -> CInv gh n2 -> HInv n2 ->
  (forall h, get_block n1 h = get_block n2 h) -> top n1 = top n2 ->
  mchain n1 = mchain n2 /\ top_h n1 = top_h n2 /\ lbs n1 (mchain n1) = lbs n2 (mchain n2).
Proof.
  intros C1 H1 C2 H2 Hsame Htop.
  assert (Hm : mchain n1 = mchain n2).
  { apply (up_unique gh (blocks n1)).
    - apply mchain_path; assumption.
    - apply (up_mono gh (blocks n2) (blocks n1)); [|apply mchain_path; assumption].
      intros h v Hv. change (get_block n1 h = Some v). rewrite Hsame. exact Hv.
    - rewrite (mchain_last gh n1 C1 H1), (mchain_last gh n2 C2 H2). exact Htop. }
  split; [exact Hm|]. split.
  - destruct C1 as (_ & (_ & t1 & Ht1 & _)). destruct H1 as (Hh1 & _). destruct H2 as (Hh2 & _).
    rewrite <- (Hh1 t1 Ht1). apply Hh2. rewrite <- Htop, <- Hsame. exact Ht1.
  - rewrite <- Hm. unfold lbs. apply map_ext. intros b. unfold lb_of, lottery_of. rewrite Hsame. reflexivity.
Qed.

Theorem agreement_ledger_general g n0 ops1 ops2 :
  cfg_ok_emission cfg = true ->
  node0 cfg genesis_addr g = Ok n0 -> b_height g = 0 -> b_cd g = b_diff g ->
  N.of_nat (length ops1) < two64 - 1 -> N.of_nat (length ops2) < two64 - 1 ->
  let n1 := run cfg genesis_addr team_key n0 ops1 in
  let n2 := run cfg genesis_addr team_key n0 ops2 in
  store_pre cfg g (blocks n1) ->
  (forall h, get_block n1 h = get_block n2 h) ->
  (forall h h' b b', get_block n1 h = Some b -> get_block n1 h' = Some b' ->
                     b_cd b = top_cd n1 -> b_cd b' = top_cd n1 -> h = h') ->
  top n1 = top n2 /\ top_h n1 = top_h n2 /\ top_cd n1 = top_cd n2 /\ mchain n1 = mchain n2 /\
  same_accounts (ldg n1) (ldg n2) /\ dlgs (ldg n1) = dlgs (ldg n2) /\ staked (ldg n1) = staked (ldg n2).
Proof.
  intros Hok H0 Hg0 Hcd Hl1 Hl2 n1 n2 Hpre Hsame Huniq.
  destruct (agreement cfg genesis_addr team_key g n0 ops1 ops2 H0 Hcd Hsame) as (Hw & Ht). specialize (Ht Huniq).
  fold n1 n2 in Hw, Ht.
  destruct (reachable_invariants cfg genesis_addr team_key g n0 ops1 H0 Hg0 Hcd Hl1) as (C1 & _ & HH1).
  destruct (reachable_invariants cfg genesis_addr team_key g n0 ops2 H0 Hg0 Hcd Hl2) as (C2 & _ & HH2).
  fold n1 in C1, HH1. fold n2 in C2, HH2.
  destruct (same_store_same_mchain (b_hash g) n1 n2 C1 HH1 C2 HH2 Hsame Ht) as (Hm & Hth & Hlbs).
  assert (Hpre2 : store_pre cfg g (blocks n2)).
  { apply (store_pre_mono cfg g (blocks n2) (blocks n1)); [|exact Hpre].
    intros h v Hv. change (get_block n1 h = Some v). rewrite Hsame. exact Hv. }
  destruct (ledger_is_replay cfg genesis_addr team_key g n0 ops1 Hok H0 Hg0 Hcd Hl1 Hpre) as (lr1 & R1 & A1 & D1 & S1).
  destruct (ledger_is_replay cfg genesis_addr team_key g n0 ops2 Hok H0 Hg0 Hcd Hl2 Hpre2) as (lr2 & R2 & A2 & D2 & S2).
  fold n1 in R1, A1, D1, S1. fold n2 in R2, A2, D2, S2.
  rewrite Hlbs, R2 in R1. injection R1 as <-.
  split; [exact Ht|]. split; [exact Hth|]. split; [exact Hw|]. split; [exact Hm|].
  split; [intros a; rewrite (A1 a), (A2 a); reflexivity|]. split; congruence.
Qed.

(* with the premises of C03_ledger_is_replay (on the store of the first node: the second holds the same blocks) *)
Theorem agreement_ledger g n0 ops1 ops2 :
  cfg_ok_emission cfg = true -> cfg_ok_feepos cfg = true ->
  node0 cfg genesis_addr g = Ok n0 -> b_height g = 0 -> b_cd g = b_diff g ->
  N.of_nat (length ops1) < two64 - 1 -> N.of_nat (length ops2) < two64 - 1 ->
  let n1 := run cfg genesis_addr team_key n0 ops1 in
  let n2 := run cfg genesis_addr team_key n0 ops2 in
  Forall (tx_c cfg) (b_txs g) ->
  (forall h b, get_block n1 h = Some b -> Forall (fun t => wf_tx cfg t /\ ver_ok t = true) (b_txs b)) ->
  (forall bs, up (b_hash g) (blocks n1) (b_hash g) bs ->
     NoDup (bkeys g ++ flat_map bkeys bs) /\ c0 g + bnouts bs < two64 /\ c0 g + bntx bs < two64) ->
  (forall h, get_block n1 h = get_block n2 h) ->
  (forall h h' b b', get_block n1 h = Some b -> get_block n1 h' = Some b' ->
                     b_cd b = top_cd n1 -> b_cd b' = top_cd n1 -> h = h') ->
  top n1 = top n2 /\ top_h n1 = top_h n2 /\ top_cd n1 = top_cd n2 /\ mchain n1 = mchain n2 /\
  same_accounts (ldg n1) (ldg n2) /\ dlgs (ldg n1) = dlgs (ldg n2) /\ staked (ldg n1) = staked (ldg n2).
Proof.
  intros Hok Hfp H0 Hg0 Hcd Hl1 Hl2 n1 n2 Hgen Htyped Hpaths Hsame Huniq.
  apply (agreement_ledger_general g n0 ops1 ops2 Hok H0 Hg0 Hcd Hl1 Hl2); [|exact Hsame|exact Huniq].
  exact (proj1 (validated_store_pre cfg genesis_addr team_key g n0 ops1 Hfp H0 Hg0 Hcd Hl1 Hgen Htyped Hpaths)).
Qed.

End AgreementLedger.
