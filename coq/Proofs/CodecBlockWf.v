(* Accepted byte strings decode to well-formed values (commitment, header, block, mining blob, packets, handshake),
   hence re-encoding the decoded value decodes to that same value. *)
From Virel Require Import Lib.Config Lib.U64 Model.Des Model.Codec Model.CodecBlock
  Proofs.Des Proofs.DesSafe Proofs.DesVal Proofs.Codec Proofs.CodecSafe Proofs.CodecWf Proofs.CodecBlock Proofs.CodecBlockSafe.
Open Scope N_scope.

Lemma vsafe_read_array L n : vsafe L (read_array n) (fun a => bytes a /\ blen a = n).
Proof.
  unfold read_array. apply (vsafe_bind L _ _ (fun b => bytes b /\ blen b = n)); [apply vsafe_read_fixed|].
  intros b [Hb _]. apply vsafe_to_array. exact Hb.
Qed.

Lemma Forall_firstn {A} (P : A -> Prop) n : forall l, Forall P l -> Forall P (firstn n l).
Proof.
  induction n as [|k IH]; intros l Hl; [constructor|]. destruct l as [|x l]; [constructor|].
  inversion Hl; subst. cbn [firstn]. constructor; [assumption|apply IH; assumption].
Qed.

Lemma pad16_bytes sl : bytes sl -> bytes (pad16 sl) /\ blen (pad16 sl) = 16.
Proof.
  intros Hb. unfold pad16. split.
  - apply Forall_firstn. apply Forall_app. split; [assumption|apply bytes_zeros].
  - unfold blen. rewrite firstn_length, app_length. unfold zeros. rewrite repeat_length.
    change (N.to_nat 16) with 16%nat. lia.
Qed.

Lemma vsafe_read_u128 L : vsafe L read_u128 (fun x => x < two128).
Proof.
  unfold read_u128, read_byte_slice.
  apply (vsafe_bind L _ _ (fun b => bytes b /\ blen b <= L)); [apply vsafe_read_byte_slice|]. intros sl [Hb _].
  apply (vsafe_bind L _ _ (fun _ => True)); [apply vsafe_alloc|]. intros _ _.
  apply vsafe_ret. unfold u128_of_slice. destruct (pad16_bytes sl Hb) as [Hpb Hpl].
  pose proof (le_value_lt _ Hpb) as H. rewrite Hpl in H. exact H.
Qed.

Ltac vstep0 :=
  lazymatch goal with
  | |- vsafe _ (bind (read_array _) _) _ => eapply vsafe_bind; [apply vsafe_read_array | intros ? [? ?]]
  | |- vsafe _ (bind read_u128 _) _ => eapply vsafe_bind; [apply vsafe_read_u128 | intros ? ?]
  | |- vsafe _ (bind read_uvarint _) _ => eapply vsafe_bind; [apply vsafe_read_uvarint | intros ? ?]
  | |- vsafe _ (bind read_u8 _) _ => eapply vsafe_bind; [apply vsafe_read_u8 | intros ? ?]
  | |- vsafe _ (bind (read_le _) _) _ => eapply vsafe_bind; [apply vsafe_read_le | intros ? ?]
  | |- vsafe _ (bind read_u16 _) _ => unfold read_u16
  | |- vsafe _ (bind read_u32 _) _ => unfold read_u32
  | |- vsafe _ (bind read_u64 _) _ => unfold read_u64
  | |- vsafe _ (bind remaining _) _ => eapply vsafe_bind; [apply vsafe_remaining | intros ? [? ?]]
  | |- vsafe _ (bind check_err _) _ => eapply vsafe_bind; [apply vsafe_check_err | intros _ _]
  | |- vsafe _ (bind (alloc _) _) _ => eapply vsafe_bind; [apply vsafe_alloc | intros _ _]
  | |- vsafe _ (ret _) _ => apply vsafe_ret
  | |- vsafe _ fail _ => apply vsafe_fail
  | |- vsafe _ (ret_err _) _ => apply vsafe_ret_err
  | |- vsafe _ (if ?b then _ else _) _ => destruct b eqn:?
  end.
Ltac vstep := vstep0; cbv beta in *.

Lemma Forall_forallb' {A} (f : A -> bool) l : Forall (fun x => f x = true) l -> forallb f l = true.
Proof. intros H. apply forallb_forall. apply Forall_forall. exact H. Qed.

Lemma hashes_ok_of l : Forall (fun a => bytes a /\ blen a = 32) l -> hashes_ok l = true.
Proof.
  intros H. unfold hashes_ok. apply Forall_forallb'. eapply Forall_impl; [|exact H].
  intros a [_ Ha]. unfold lenb. apply N.eqb_eq. exact Ha.
Qed.

Lemma bytes_eq_refl a : bytes_eq a a = true.
Proof. induction a as [|x a IH]; [reflexivity|]. cbn [bytes_eq]. rewrite N.eqb_refl, IH. reflexivity. Qed.

Section BlockWf.
Variable cfg : config.
Hypothesis Hok : cfg_ok_block cfg = true.
Variable L : N.
Hypothesis HL : L < two64.

Lemma vsafe_dec_hid : vsafe L dec_hid (fun h => wf_hid h = true).
Proof.
  unfold dec_hid. repeat vstep. unfold wf_hid, lenb, u64b. cbn [hid_network hid_hash].
  change (256 ^ 8) with two64 in *. wf_close.
Qed.

Lemma vsafe_dec_chains n : n <= max_mm_chains cfg - 1 ->
  vsafe L (dec_chains n) (fun l => forallb wf_hid l = true /\ blen l = n).
Proof.
  intros Hn. unfold dec_chains. vstep.
  eapply vsafe_weaken; [apply (vsafe_rep L (check_err ;;; dec_hid) (fun h => wf_hid h = true))|].
  - vstep. apply vsafe_dec_hid.
  - intros l [Hall Hlen]. split; [apply Forall_forallb'; exact Hall|]. unfold blen. lia.
Qed.

Lemma vsafe_ancestors :
  vsafe L (rep (N.to_nat (minidag_ancestors cfg)) (read_array 32))
        (fun l => hashes_ok l = true /\ blen l = minidag_ancestors cfg).
Proof.
  eapply vsafe_weaken; [apply (vsafe_rep L (read_array 32) (fun a => bytes a /\ blen a = 32)); apply vsafe_read_array|].
  intros l [Hall Hlen]. split; [apply hashes_ok_of; exact Hall|]. unfold blen. lia.
Qed.

Lemma vsafe_dec_commitment : vsafe L (dec_commitment cfg) (fun c => wf_commitment cfg c = true).
Proof.
  unfold dec_commitment. vstep.
  eapply vsafe_bind; [apply vsafe_ancestors | intros anc [Hanc Hancl]].
  do 5 vstep. vstep; [vstep|].
  apply negb_false_iff in Heqb. apply int_count_ok_bound in Heqb; [|assumption].
  eapply vsafe_bind; [apply vsafe_dec_chains; assumption | intros chains [Hch Hchl]].
  vstep. unfold wf_commitment, lenb, u64b.
  cbn [cm_base cm_ancestors cm_timestamp cm_nonce cm_nonce_extra cm_chains].
  change (256 ^ 4) with two32 in *. rewrite Hanc, Hch, Hchl. wf_close.
Qed.

Lemma vsafe_dec_header : vsafe L (dec_header cfg) (fun h => wf_header cfg h = true).
Proof.
  destruct (okb_consts cfg Hok) as (Hokc & _). destruct (ok_consts cfg Hokc) as (_ & Has & _ & Hss & _).
  unfold dec_header. rewrite Has, Hss.
  do 7 vstep.
  eapply vsafe_bind; [apply vsafe_ancestors | intros anc [Hanc Hancl]].
  do 2 vstep. vstep; [vstep|].
  apply negb_false_iff in Heqb. apply int_count_ok_bound in Heqb; [|assumption].
  eapply vsafe_bind; [apply vsafe_dec_chains; assumption | intros chains [Hch Hchl]].
  vstep. vstep; [vstep|].
  apply negb_false_iff in Heqb0. apply int_count_ok_bound in Heqb0; [|assumption].
  vstep.
  eapply vsafe_bind; [apply (vsafe_rep L (check_err ;;; dec_commitment cfg) (fun c => wf_commitment cfg c = true)) | intros side [Hside Hsidel]].
  { vstep. apply vsafe_dec_commitment. }
  eapply (vsafe_bind L _ _ (fun p => let '(d, nd, sg) := p in
            if 0 <? a then d < two64 /\ nd < two64 /\ blen sg = 64 else d = 0 /\ nd = 0 /\ sg = zeros 64)).
  { destruct (0 <? a); [|apply vsafe_ret; auto]. repeat vstep. auto. }
  intros [[d nd] sg] Hpos. vstep.
  unfold wf_header, lenb, u64b.
  cbn [hd_version hd_height hd_timestamp hd_nonce hd_nonce_extra hd_chains hd_recipient hd_ancestors hd_side
       hd_delegate hd_next_delegate hd_stake_sig].
  change (256 ^ 4) with two32 in *. rewrite Has, Hss, Hanc, Hch, Hchl, (Forall_forallb' _ _ Hside).
  match type of Hsidel with _ = N.to_nat ?x => assert (Hsl : blen side = x) by (unfold blen; lia); rewrite Hsl end.
  destruct (0 <? a).
  - destruct Hpos as (Hd & Hnd & Hsg). wf_close.
  - destruct Hpos as (-> & -> & ->). rewrite bytes_eq_refl. wf_close.
Qed.

Lemma vsafe_dec_block : vsafe L (dec_block cfg)
  (fun b => wf_header cfg (bl_header b) = true /\ bl_diff b < two128 /\ bl_cumdiff b < two128
            /\ blen (bl_txs b) <= max_tx_per_block cfg /\ hashes_ok (bl_txs b) = true).
Proof.
  unfold dec_block.
  eapply vsafe_bind; [apply vsafe_dec_header | intros h Hh].
  do 5 vstep. vstep; [vstep|]. apply N.ltb_ge in Heqb. vstep.
  eapply vsafe_bind; [apply (vsafe_rep L _ (fun a => bytes a /\ blen a = 32)) | intros txs [Htxs Htxl]].
  { vstep. vstep. vstep. auto. }
  vstep. cbn [bl_header bl_diff bl_cumdiff bl_txs].
  split; [assumption|]. split; [assumption|]. split; [assumption|]. split; [unfold blen; lia|apply hashes_ok_of; assumption].
Qed.

Lemma vsafe_dec_blob : vsafe L (dec_blob cfg) (fun m => wf_blob cfg m = true).
Proof.
  unfold dec_blob. do 6 vstep. vstep; [vstep|]. vstep; [vstep|].
  apply orb_false_elim in Heqb. destruct Heqb as [Hz Hmax]. apply N.ltb_ge in Hmax. apply N.eqb_neq in Hz.
  do 3 vstep.
  eapply vsafe_bind; [apply (vsafe_rep L dec_hid (fun h => wf_hid h = true)); apply vsafe_dec_hid | intros chains [Hch Hchl]].
  vstep. vstep. vstep; [vstep|]. vstep.
  unfold wf_blob, lenb, u64b. cbn [mb_timestamp mb_nonce mb_nonce_extra mb_chains].
  change (256 ^ 8) with two64 in *. change (256 ^ 4) with two32 in *.
  match type of Hchl with _ = N.to_nat ?x => assert (Hb : blen chains = x) by (unfold blen; lia); rewrite Hb end.
  rewrite (Forall_forallb' _ _ Hch). wf_close.
Qed.

End BlockWf.

Lemma vsafe_dec_pstats L : vsafe L dec_pstats (fun p => wf_pstats p = true).
Proof.
  unfold dec_pstats. repeat vstep. unfold wf_pstats, lenb, u64b. cbn [ps_height ps_cumdiff ps_hash]. wf_close.
Qed.

Lemma vsafe_dec_pblockreq L : vsafe L dec_pblockreq (fun p => wf_pblockreq p = true).
Proof.
  unfold dec_pblockreq. vstep. vstep.
  - vstep. vstep. unfold wf_pblockreq, lenb, u64b. cbn [br_height br_hash br_count]. rewrite Heqb. wf_close.
  - vstep. vstep. unfold wf_pblockreq, lenb, u64b. cbn [br_height br_hash br_count]. rewrite Heqb, bytes_eq_refl. wf_close.
Qed.

Lemma vsafe_dec_pstakesig cfg L : cfg_ok_codec cfg = true -> vsafe L (dec_pstakesig cfg) (fun p => wf_pstakesig cfg p = true).
Proof.
  intros Hokc. destruct (ok_consts cfg Hokc) as (_ & _ & _ & Hss & _). unfold dec_pstakesig. rewrite Hss.
  repeat vstep. unfold wf_pstakesig, lenb, u64b. cbn [ss_delegate ss_hash ss_signature]. rewrite Hss. wf_close.
Qed.

Lemma vsafe_dec_handshake L : vsafe L dec_handshake (fun h => wf_handshake h = true).
Proof.
  unfold dec_handshake. do 8 vstep. vstep; [vstep|]. vstep.
  unfold wf_handshake, lenb, u64b. cbn [hs_version hs_p2p_version hs_peer_id hs_port].
  change (256 ^ 8) with two64 in *. change (256 ^ 2) with 65536 in *. wf_close.
Qed.

(* ---- re-encoding theorems *)
Section BlockReencode.
Variable cfg : config.
Hypothesis Hok : cfg_ok_block cfg = true.

Theorem commitment_reencode bs c : bytes bs -> blen bs < two64 ->
  result_of (run (dec_commitment cfg) bs) = ROk c -> result_of (run (dec_commitment cfg) (enc_commitment c)) = ROk c.
Proof.
  intros Hb Hl H. apply commitment_roundtrip; [exact Hok|].
  apply (vsafe_result (blen bs) (dec_commitment cfg) (fun c => wf_commitment cfg c = true) bs c); [|assumption|lia|exact H].
  apply vsafe_dec_commitment; assumption.
Qed.

Theorem header_reencode bs h : bytes bs -> blen bs < two64 ->
  result_of (run (dec_header cfg) bs) = ROk h -> result_of (run (dec_header cfg) (enc_header h)) = ROk h.
Proof.
  intros Hb Hl H. apply header_roundtrip; [exact Hok|].
  apply (vsafe_result (blen bs) (dec_header cfg) (fun h => wf_header cfg h = true) bs h); [|assumption|lia|exact H].
  apply vsafe_dec_header; assumption.
Qed.

(* blocks: for every accepted byte string whose block passes the stateless admission (non-zero difficulty) *)
Theorem block_reencode bs b : bytes bs -> blen bs < two64 ->
  result_of (run (dec_block cfg) bs) = ROk b -> bl_diff b <> 0 ->
  result_of (run (dec_block cfg) (enc_block b)) = ROk b.
Proof.
  intros Hb Hl H Hd. apply block_roundtrip; [exact Hok|].
  pose proof (vsafe_result (blen bs) (dec_block cfg) _ bs b (vsafe_dec_block cfg Hok (blen bs) Hl) Hb ltac:(lia) H)
    as (Hh & Hdf & Hc & Hn & Hhs).
  unfold wf_block. rewrite Hh, Hhs. apply N.eqb_neq in Hd. rewrite Hd. cbn [negb andb]. wf_close.
Qed.

Theorem blob_reencode bs m : bytes bs -> blen bs < two64 ->
  result_of (run (dec_blob cfg) bs) = ROk m -> result_of (run (dec_blob cfg) (enc_blob m)) = ROk m.
Proof.
  intros Hb Hl H. apply blob_roundtrip; [exact Hok|].
  apply (vsafe_result (blen bs) (dec_blob cfg) (fun m => wf_blob cfg m = true) bs m); [|assumption|lia|exact H].
  apply vsafe_dec_blob; assumption.
Qed.

Theorem pstakesig_reencode bs p : bytes bs ->
  result_of (run (dec_pstakesig cfg) bs) = ROk p -> result_of (run (dec_pstakesig cfg) (enc_pstakesig p)) = ROk p.
Proof.
  intros Hb H. apply pstakesig_roundtrip.
  apply (vsafe_result (blen bs) (dec_pstakesig cfg) (fun p => wf_pstakesig cfg p = true) bs p); [|assumption|lia|exact H].
  apply vsafe_dec_pstakesig. destruct (okb_consts cfg Hok) as (Hc & _). exact Hc.
Qed.
End BlockReencode.

Theorem pstats_reencode bs p : bytes bs ->
  result_of (run dec_pstats bs) = ROk p -> result_of (run dec_pstats (enc_pstats p)) = ROk p.
Proof.
  intros Hb H. apply pstats_roundtrip.
  apply (vsafe_result (blen bs) dec_pstats (fun p => wf_pstats p = true) bs p); [apply vsafe_dec_pstats|assumption|lia|exact H].
Qed.

Theorem pblockreq_reencode bs p : bytes bs ->
  result_of (run dec_pblockreq bs) = ROk p -> result_of (run dec_pblockreq (enc_pblockreq p)) = ROk p.
Proof.
  intros Hb H. apply pblockreq_roundtrip.
  apply (vsafe_result (blen bs) dec_pblockreq (fun p => wf_pblockreq p = true) bs p); [apply vsafe_dec_pblockreq|assumption|lia|exact H].
Qed.

Theorem handshake_reencode bs h : bytes bs ->
  result_of (run dec_handshake bs) = ROk h -> result_of (run dec_handshake (enc_handshake h)) = ROk h.
Proof.
  intros Hb H. apply handshake_roundtrip.
  apply (vsafe_result (blen bs) dec_handshake (fun h => wf_handshake h = true) bs h); [apply vsafe_dec_handshake|assumption|lia|exact H].
Qed.
