(* Property C17, the RPC handlers (Model/Rpc.v) on every reachable node state: the answers of get_block_by_height,
   get_block_by_hash and get_transaction (its coinbase fallback and its height for a stored transaction) are those of
   the MAIN CHAIN.  Everything follows from the chain invariants of Proofs/ChainInv.v / ChainRun.v / ChainHeights.v
   (reachable_invariants), the description of [mchain] in Proofs/Replay3.v (TInv_step, chain_upto_length) and, for the
   transaction heights, tx_heights_are_main_chain of Proofs/History3.v; nothing about the deliveries is re-proved here.

   [main chain]: g :: mchain n = the genesis block followed by the stored blocks filed in the height index under
   1 .. top_h n, lowest first; on_main g n b = b is one of them (Proofs/History3.v); the same blocks are met by the walk
   along prev_hash from the tip (Spec/Chain.v walk).

   The defective variant of the coinbase fallback that loses the error of GetTopo (rpc_coinbase_lost_error) is refuted on
   the reorganising history of Proofs/ChainExamples.v: after the reorganisation to the shorter, heavier chain the old
   tip A3 (height 3) is a stored block ABOVE the new tip (height 2), with no index entry at its height. *)
From Virel Require Import Lib.Config Lib.U64 Lib.AMap Model.Emission Model.Ledger Model.Node Model.Rpc Spec.Chain
  Proofs.AMapLemmas Proofs.Emission Proofs.Conservation Proofs.Pointwise Proofs.Refine2
  Proofs.NodeBasics Proofs.ForkChoice Proofs.Restart Proofs.ChainInv Proofs.ChainRun Proofs.ChainHeights
  Proofs.ChainExamples Proofs.Undo2 Proofs.Undo4 Proofs.Replay2 Proofs.Replay3 Proofs.Replay4 Proofs.Replay5 Proofs.Replay6
  Proofs.History1 Proofs.History2 Proofs.History3 Proofs.HistoryExamples Gen.Params.
Open Scope N_scope.
Open Scope bool_scope.

(* ------------------------------------------------------------------ lists *)
Lemma rpc_heights_down_nth k : forall j, (j <= k)%nat -> nth_error (heights_down k) j = Some (N.of_nat (k - j)).
Proof.
  induction k as [|k IH]; intros j Hj.
  - assert (Ej : j = O) by lia. subst j. reflexivity.
  - destruct j as [|j]; cbn [heights_down nth_error].
    + replace (S k - 0)%nat with (S k) by lia. reflexivity.
    + rewrite IH by lia. replace (S k - S j)%nat with (k - j)%nat by lia. reflexivity.
Qed.

(* the j-th block of chain_upto is the stored block filed under the height j + 1 *)
Lemma rpc_chain_upto_nth gh bl tp x bx :
  TInv gh bl tp x -> nget bl x = Some bx ->
  forall k, (k <= N.to_nat (b_height bx))%nat -> forall j, (j < k)%nat ->
  nth_error (chain_upto bl tp k) j = match nget tp (N.of_nat (S j)) with Some y => nget bl y | None => None end.
Proof.
  intros HT Hbx. induction k as [|k IH]; intros Hk j Hj; [lia|].
  destruct (TInv_step gh bl tp x bx k HT Hbx Hk) as (y & yb & Hy & Hyb & _ & _ & Eup).
  pose proof (chain_upto_length gh bl tp x bx k HT Hbx ltac:(lia)) as Hlen.
  rewrite Eup. destruct (Nat.eq_dec j k) as [Ejk|Njk].
  - subst j. rewrite nth_error_app2 by lia. rewrite Hlen, Nat.sub_diag. cbn [nth_error]. rewrite Hy, Hyb. reflexivity.
  - rewrite nth_error_app1 by lia. apply IH; lia.
Qed.

(* ------------------------------------------------------------------ every reachable node *)
Section Reachable.
Variable cfg : config.
Variable genesis_addr team_key : N.
Variable g : block.
Variable n0 : node.
Variable ops : list (block * N).
Hypothesis Hn0 : node0 cfg genesis_addr g = Ok n0.
Hypothesis Hg0 : b_height g = 0.
Hypothesis Hcd : b_cd g = b_diff g.
Hypothesis Hlen : N.of_nat (length ops) < two64 - 1.
Notation n := (run cfg genesis_addr team_key n0 ops).
Notation gh := (b_hash g).

(* the facts used below, from the invariants *)
Lemma rpc_facts :
  BInv gh (blocks n) /\ TInv gh (blocks n) (topo n) (top n) /\
  (exists t, nget (blocks n) (top n) = Some t /\ b_height t = top_h n) /\
  nget (blocks n) gh = Some g.
Proof.
  destruct (reachable_invariants cfg genesis_addr team_key g n0 ops Hn0 Hg0 Hcd Hlen) as ((HB & HT) & _ & (Hh & _)).
  split; [exact HB|]. split; [exact HT|]. split.
  - destruct HT as (_ & t & Ht & _). exists t. split; [exact Ht|]. apply Hh. exact Ht.
  - apply (run_store_le cfg genesis_addr team_key ops n0).
    pose proof Hn0 as H0. unfold node0 in H0. apply apply_block_node_eq in H0. destruct H0 as (l & ->).
    cbn [blocks set_ldg]. unfold nget. cbn [aget]. rewrite N.eqb_refl. reflexivity.
Qed.

(* an index entry: at most at the tip's height, a stored block of that height filed under its own hash *)
Lemma rpc_entry ht y :
  get_topo n ht = Some y -> ht <= top_h n /\ exists yb, get_block n y = Some yb /\ b_height yb = ht /\ b_hash yb = y.
Proof.
  destruct rpc_facts as (HB & HT & (t & Ht & Hth) & _). unfold get_topo, get_block. intros Hy.
  split.
  - rewrite <- Hth. exact (TInv_entry_le gh _ _ _ t ht y HT Ht Hy).
  - destruct (TInv_entry gh _ _ _ ht y HT Hy) as (yb & Hyb & Hyh). exists yb.
    split; [exact Hyb|]. split; [exact Hyh|]. destruct HB as (Hk & _). exact (Hk y yb Hyb).
Qed.

Lemma rpc_entry_exists ht : ht <= top_h n -> exists y, get_topo n ht = Some y.
Proof.
  destruct rpc_facts as (_ & HT & (t & Ht & Hth) & _). intros Hle.
  destruct HT as (_ & t' & Ht' & _ & _ & _ & Hch). rewrite Ht in Ht'. injection Ht' as <-.
  rewrite <- Hth in Hle. destruct (Hch ht Hle) as (y & _ & Hy & _). exists y. exact Hy.
Qed.

Lemma rpc_entry_above ht : top_h n < ht -> get_topo n ht = None.
Proof.
  intros Hlt. destruct (get_topo n ht) as [y|] eqn:Ey; [|reflexivity].
  destruct (rpc_entry ht y Ey) as (Hle & _). lia.
Qed.

(* ---- the height handler reads genesis :: mchain ---- *)
Lemma rpc_main_length : length (g :: mchain n) = S (N.to_nat (top_h n)).
Proof.
  destruct rpc_facts as (_ & HT & (t & Ht & Hth) & _). cbn [length]. f_equal. unfold mchain.
  apply (chain_upto_length gh _ _ (top n) t _ HT Ht). rewrite Hth. lia.
Qed.

Lemma rpc_main_nth h : h <= top_h n -> nth_error (g :: mchain n) (N.to_nat h) = rpc_block_by_height n h.
Proof.
  destruct rpc_facts as (_ & HT & (t & Ht & Hth) & Hgg). intros Hle. unfold rpc_block_by_height.
  destruct (N.eq_dec h 0) as [E0|N0].
  - subst h. cbn [N.to_nat nth_error].
    pose proof HT as (_ & _ & _ & _ & _ & Hz & _). unfold get_topo, get_block. rewrite Hz, Hgg. reflexivity.
  - destruct (N.to_nat h) as [|j] eqn:Ej; [lia|]. cbn [nth_error]. unfold mchain.
    rewrite (rpc_chain_upto_nth gh _ _ (top n) t HT Ht (N.to_nat (top_h n))) by lia.
    replace (N.of_nat (S j)) with h by lia. reflexivity.
Qed.

(* what a success of the height handler says about the block *)
Lemma rpc_by_height_some h b :
  rpc_block_by_height n h = Some b ->
  h <= top_h n /\ b_height b = h /\ get_block n (b_hash b) = Some b /\ get_topo n h = Some (b_hash b).
Proof.
  unfold rpc_block_by_height. destruct (get_topo n h) as [y|] eqn:Ey; [|discriminate]. intros Hb.
  destruct (rpc_entry h y Ey) as (Hle & yb & Hyb & Hyh & Hyk). rewrite Hb in Hyb. injection Hyb as <-.
  split; [exact Hle|]. split; [exact Hyh|]. rewrite Hyk. split; [exact Hb|reflexivity].
Qed.

(* on the main chain = served by the height handler at some height up to the tip *)
Lemma rpc_on_main_height b : on_main g n b <-> exists h, h <= top_h n /\ rpc_block_by_height n h = Some b.
Proof.
  split.
  - intros Hon. assert (Hin : In b (g :: mchain n)) by (destruct Hon as [->|Hin]; [left; reflexivity|right; exact Hin]).
    apply In_nth_error in Hin. destruct Hin as (j & Hj).
    assert (Hjl : (j < length (g :: mchain n))%nat) by (apply nth_error_Some; rewrite Hj; discriminate).
    rewrite rpc_main_length in Hjl. exists (N.of_nat j).
    assert (Hle : N.of_nat j <= top_h n) by lia. split; [exact Hle|].
    rewrite <- (rpc_main_nth _ Hle), Nat2N.id. exact Hj.
  - intros (h & Hle & Hb). rewrite <- (rpc_main_nth _ Hle) in Hb. apply nth_error_In in Hb.
    destruct Hb as [<-|Hin]; [left; reflexivity|right; exact Hin].
Qed.

(* on the main chain = stored, and filed in the height index under its own height *)
Lemma rpc_on_main_iff b :
  on_main g n b <-> get_block n (b_hash b) = Some b /\ get_topo n (b_height b) = Some (b_hash b).
Proof.
  rewrite rpc_on_main_height. split.
  - intros (h & _ & Hb). destruct (rpc_by_height_some h b Hb) as (_ & Eh & Hst & Hy). rewrite Eh. split; assumption.
  - intros (Hst & Hy). exists (b_height b). destruct (rpc_entry _ _ Hy) as (Hle & _). split; [exact Hle|].
    unfold rpc_block_by_height. rewrite Hy. exact Hst.
Qed.

(* the walk from the tip meets the index entries *)
Lemma rpc_walk_nth h :
  h <= top_h n ->
  nth_error (walk (blocks n) (N.to_nat (top_h n)) (top n)) (N.to_nat (top_h n - h)) = get_topo n h.
Proof.
  intros Hle. pose proof (walk_from_top_is_index cfg genesis_addr team_key g n0 ops Hn0 Hg0 Hcd Hlen) as Hw.
  cbn zeta in Hw.
  assert (E : nth_error (map (get_topo n) (heights_down (N.to_nat (top_h n)))) (N.to_nat (top_h n - h)) =
              Some (get_topo n h)).
  { rewrite nth_error_map, rpc_heights_down_nth by lia. cbn [option_map]. do 2 f_equal. lia. }
  rewrite Hw, nth_error_map in E.
  destruct (nth_error (walk (blocks n) (N.to_nat (top_h n)) (top n)) (N.to_nat (top_h n - h))) as [w|];
    cbn [option_map] in E; [injection E as <-; reflexivity|discriminate].
Qed.

(* ================================================================== get_block_by_height *)
Theorem rpc_block_by_height_main :
  (forall h b, rpc_block_by_height n h = Some b <->
               h <= top_h n /\ nth_error (g :: mchain n) (N.to_nat h) = Some b) /\
  (forall h b, rpc_block_by_height n h = Some b ->
               on_main g n b /\ b_height b = h /\ get_block n (b_hash b) = Some b /\
               nth_error (walk (blocks n) (N.to_nat (top_h n)) (top n)) (N.to_nat (top_h n - h)) = Some (b_hash b)) /\
  (forall h, h <= top_h n -> exists b, rpc_block_by_height n h = Some b) /\
  (forall h, top_h n < h -> rpc_block_by_height n h = None).
Proof.
  split; [|split; [|split]].
  - intros h b. split.
    + intros Hb. destruct (rpc_by_height_some h b Hb) as (Hle & _). split; [exact Hle|].
      rewrite (rpc_main_nth _ Hle). exact Hb.
    + intros (Hle & Hb). rewrite <- (rpc_main_nth _ Hle). exact Hb.
  - intros h b Hb. destruct (rpc_by_height_some h b Hb) as (Hle & Eh & Hst & Hy).
    split; [apply rpc_on_main_height; exists h; split; assumption|]. split; [exact Eh|]. split; [exact Hst|].
    rewrite (rpc_walk_nth _ Hle). exact Hy.
  - intros h Hle. destruct (rpc_entry_exists h Hle) as (y & Hy).
    destruct (rpc_entry h y Hy) as (_ & yb & Hyb & _). exists yb. unfold rpc_block_by_height. rewrite Hy. exact Hyb.
  - intros h Hlt. unfold rpc_block_by_height. rewrite (rpc_entry_above h Hlt). reflexivity.
Qed.

(* ================================================================== get_block_by_hash *)
Theorem rpc_block_by_hash_main :
  (forall x b, rpc_block_by_hash n x = RpcBlockFound b <-> get_block n x = Some b /\ on_main g n b) /\
  (forall x b, rpc_block_by_hash n x = RpcBlockFound b ->
               b_hash b = x /\ b_height b <= top_h n /\ rpc_block_by_height n (b_height b) = Some b) /\
  (forall x b, get_block n x = Some b -> ~ on_main g n b ->
               rpc_block_by_hash n x = if b_height b <=? top_h n then RpcBlockOrphan else RpcBlockNotFound) /\
  (forall x, get_block n x = None -> rpc_block_by_hash n x = RpcBlockNotFound).
Proof.
  destruct rpc_facts as ((Hk & _) & _).
  assert (Hfound : forall x b, rpc_block_by_hash n x = RpcBlockFound b <-> get_block n x = Some b /\ on_main g n b).
  { intros x b. unfold rpc_block_by_hash. split.
    - destruct (get_block n x) as [bl|] eqn:Ebl; [|discriminate].
      destruct (get_topo n (b_height bl)) as [t|] eqn:Et; [|discriminate].
      destruct (N.eqb_spec t (b_hash bl)) as [Eh|Nh]; [|discriminate]. intros [= <-].
      split; [reflexivity|]. apply rpc_on_main_iff. rewrite (Hk x bl Ebl). split; [exact Ebl|].
      rewrite Et, Eh. rewrite (Hk x bl Ebl). reflexivity.
    - intros (Hb & Hon). apply rpc_on_main_iff in Hon. destruct Hon as (_ & Hy).
      rewrite Hb, Hy, N.eqb_refl. reflexivity. }
  split; [exact Hfound|]. split; [|split].
  - intros x b Hf. apply Hfound in Hf. destruct Hf as (Hb & Hon).
    split; [exact (Hk x b Hb)|]. apply rpc_on_main_iff in Hon. destruct Hon as (Hst & Hy).
    destruct (rpc_entry _ _ Hy) as (Hle & _). split; [exact Hle|]. unfold rpc_block_by_height. rewrite Hy. exact Hst.
  - intros x b Hb Hoff. unfold rpc_block_by_hash. rewrite Hb.
    destruct (N.leb_spec (b_height b) (top_h n)) as [Hle|Hgt].
    + destruct (rpc_entry_exists _ Hle) as (y & Hy). rewrite Hy.
      destruct (N.eqb_spec y (b_hash b)) as [Ey|Ny]; [|reflexivity].
      exfalso. apply Hoff. apply rpc_on_main_iff. rewrite (Hk x b Hb). split; [exact Hb|].
      rewrite Hy, Ey, (Hk x b Hb). reflexivity.
    + rewrite (rpc_entry_above _ Hgt). reflexivity.
  - intros x Hx. unfold rpc_block_by_hash. rewrite Hx. reflexivity.
Qed.

(* ================================================================== get_transaction: the coinbase fallback *)
Theorem rpc_coinbase_main :
  (forall x, nget (txh (ldg n)) x = None -> rpc_get_transaction n x = rpc_coinbase n x) /\
  (forall x h cb, rpc_coinbase n x = RpcTxFound h cb <->
                  exists b, get_block n x = Some b /\ on_main g n b /\ h = b_height b /\ cb = true) /\
  (forall x b, get_block n x = Some b -> ~ on_main g n b ->
               rpc_coinbase n x = if b_height b <=? top_h n then RpcTxOrphan else RpcTxNotFound) /\
  (forall x b, get_block n x = Some b -> top_h n < b_height b -> ~ on_main g n b /\ rpc_coinbase n x = RpcTxNotFound) /\
  (forall x, get_block n x = None -> rpc_coinbase n x = RpcTxNotFound).
Proof.
  destruct rpc_facts as ((Hk & _) & _).
  split; [intros x Hx; unfold rpc_get_transaction; rewrite Hx; reflexivity|].
  assert (Hoff : forall x b, get_block n x = Some b -> ~ on_main g n b ->
                   rpc_coinbase n x = if b_height b <=? top_h n then RpcTxOrphan else RpcTxNotFound).
  { intros x b Hb Hoff. unfold rpc_coinbase. rewrite Hb.
    destruct (N.leb_spec (b_height b) (top_h n)) as [Hle|Hgt].
    - destruct (rpc_entry_exists _ Hle) as (y & Hy). rewrite Hy.
      destruct (N.eqb_spec y x) as [Ey|Ny]; [|reflexivity].
      exfalso. apply Hoff. apply rpc_on_main_iff. rewrite (Hk x b Hb). split; [exact Hb|]. rewrite Hy, Ey. reflexivity.
    - rewrite (rpc_entry_above _ Hgt). reflexivity. }
  split; [|split; [exact Hoff|split]].
  - intros x h cb. unfold rpc_coinbase. split.
    + destruct (get_block n x) as [bl|] eqn:Ebl; [|discriminate].
      destruct (get_topo n (b_height bl)) as [t|] eqn:Et; [|discriminate].
      destruct (N.eqb_spec t x) as [Eh|Nh]; [|discriminate]. intros [= <- <-].
      exists bl. split; [reflexivity|]. split; [|split; reflexivity].
      apply rpc_on_main_iff. rewrite (Hk x bl Ebl). split; [exact Ebl|]. rewrite Et, Eh. reflexivity.
    + intros (b & Hb & Hon & -> & ->). apply rpc_on_main_iff in Hon. destruct Hon as (_ & Hy).
      rewrite Hb, Hy, (Hk x b Hb), N.eqb_refl. reflexivity.
  - intros x b Hb Hgt.
    assert (Hno : ~ on_main g n b).
    { intros Hon. apply rpc_on_main_iff in Hon. destruct Hon as (_ & Hy). destruct (rpc_entry _ _ Hy) as (Hle & _). lia. }
    split; [exact Hno|]. rewrite (Hoff x b Hb Hno). destruct (N.leb_spec (b_height b) (top_h n)); [lia|reflexivity].
  - intros x Hx. unfold rpc_coinbase. rewrite Hx. reflexivity.
Qed.

End Reachable.

(* ================================================================== get_transaction: the height of a transaction *)
Section TxHeights.
Variable cfg : config.
Variable genesis_addr team_key : N.
Hypothesis Hok : cfg_ok_emission cfg = true.
Hypothesis Hfp : cfg_ok_feepos cfg = true.
Variable g : block.
Variable n0 : node.
Variable ops : list (block * N).
Hypothesis Hn0 : node0 cfg genesis_addr g = Ok n0.
Hypothesis Hg0 : b_height g = 0.
Hypothesis Hcd : b_cd g = b_diff g.
Hypothesis Hlen : N.of_nat (length ops) < two64 - 1.
Notation n := (run cfg genesis_addr team_key n0 ops).
Hypothesis Hgen : Forall (tx_c cfg) (b_txs g).
Hypothesis Htyped : forall h b, get_block n h = Some b -> Forall (fun t => wf_tx cfg t /\ ver_ok t = true) (b_txs b).
Hypothesis Hpaths : forall bs, up (b_hash g) (blocks n) (b_hash g) bs ->
     NoDup (bkeys g ++ flat_map bkeys bs) /\ c0 g + bnouts bs < two64 /\ c0 g + bntx bs < two64.

Theorem rpc_get_transaction_height :
  (forall B t, on_main g n B -> In t (b_txs B) -> rpc_get_transaction n (tx_id t) = RpcTxFound (b_height B) false) /\
  (forall id, nget (txh (ldg n)) id <> None ->
     (forall B t, on_main g n B -> In t (b_txs B) -> tx_id t <> id) ->
     rpc_get_transaction n id = RpcTxFound 0 false) /\
  (forall id h, nget (txh (ldg n)) id = Some h -> rpc_get_transaction n id = RpcTxFound h false).
Proof.
  destruct (tx_heights_are_main_chain cfg genesis_addr team_key g n0 ops Hok Hfp Hn0 Hg0 Hcd Hlen Hgen Htyped Hpaths)
    as (T1 & T2).
  split; [|split].
  - intros B t HB Ht. unfold rpc_get_transaction. rewrite (T1 B t HB Ht). reflexivity.
  - intros id Hin Hno. unfold rpc_get_transaction. destruct (T2 id Hno) as [E|E]; [contradiction|].
    rewrite E. reflexivity.
  - intros id h E. unfold rpc_get_transaction. rewrite E. reflexivity.
Qed.

End TxHeights.

(* ================================================================== the variant that loses GetTopo's error: refuted *)
(* "an answer (height, coinbase) only for a block of the main chain" is false of rpc_coinbase_lost_error: on the history
   G-A1-A2-A3 then B, D (reorganisation to the shorter heavier chain G-B-D, tip height 2) the stored block A3 (hash 8,
   height 3, no index entry at height 3) is answered as a coinbase at height 3; the handler as it is answers
   "transaction not found". *)
Theorem rpc_coinbase_lost_error_refuted :
  node0 cfg_verifnet 7 w_genesis = Ok ex_n0 /\ b_height w_genesis = 0 /\ b_cd w_genesis = b_diff w_genesis /\
  N.of_nat (length sr_ops) < two64 - 1 /\
  let n := run cfg_verifnet 7 0 ex_n0 sr_ops in
  exists b, get_block n 8 = Some b /\ b_height b = 3 /\ top_h n = 2 /\ get_topo n 3 = None /\
            ~ on_main w_genesis n b /\
            nget (txh (ldg n)) 8 = None /\
            rpc_coinbase_lost_error n 8 = RpcTxFound 3 true /\
            rpc_coinbase n 8 = RpcTxNotFound /\ rpc_get_transaction n 8 = RpcTxNotFound.
Proof.
  split; [exact ex_n0_eq|]. split; [reflexivity|]. split; [reflexivity|]. split; [vm_compute; reflexivity|].
  cbn zeta. rewrite ex_n_eq.
  destruct (get_block ex_n 8) as [b|] eqn:Eb; [|vm_compute in Eb; discriminate].
  exists b. split; [reflexivity|].
  assert (Hh : b_hash b = 8) by (vm_compute in Eb; injection Eb as <-; reflexivity).
  split; [vm_compute in Eb; injection Eb as <-; reflexivity|]. split; [vm_compute; reflexivity|].
  split; [vm_compute; reflexivity|]. split.
  - intros [Eg|Hin].
    + rewrite Eg in Hh. vm_compute in Hh. discriminate.
    + apply (in_map b_hash) in Hin. rewrite Hh in Hin.
      assert (Em : map b_hash (mchain ex_n) = [4; 6]) by (vm_compute; reflexivity).
      rewrite Em in Hin. cbn [In] in Hin. destruct Hin as [E|[E|[]]]; discriminate.
  - repeat split; vm_compute; reflexivity.
Qed.

(* ================================================================== non-vacuity: the handlers on concrete histories *)
(* the reorganising history (main chain G-B-D = hashes 1, 4, 6; A1 = 2, A2 = 3 stored below / at the tip's height,
   A3 = 8 stored above the tip) *)
Theorem rpc_handlers_reorg_example :
  let n := run cfg_verifnet 7 0 ex_n0 sr_ops in
  map b_hash (w_genesis :: mchain n) = [1; 4; 6] /\ top_h n = 2 /\
  map (fun h => option_map b_hash (rpc_block_by_height n h)) [0; 1; 2; 3; 4] = [Some 1; Some 4; Some 6; None; None] /\
  (exists b4 b6, rpc_block_by_hash n 4 = RpcBlockFound b4 /\ b_hash b4 = 4 /\ b_height b4 = 1 /\
                 rpc_block_by_hash n 6 = RpcBlockFound b6 /\ b_hash b6 = 6 /\ b_height b6 = 2) /\
  rpc_block_by_hash n 2 = RpcBlockOrphan /\ rpc_block_by_hash n 3 = RpcBlockOrphan /\
  rpc_block_by_hash n 8 = RpcBlockNotFound /\ rpc_block_by_hash n 77 = RpcBlockNotFound /\
  map (rpc_get_transaction n) [1; 4; 6; 2; 3; 8; 77] =
    [RpcTxFound 0 true; RpcTxFound 1 true; RpcTxFound 2 true; RpcTxOrphan; RpcTxOrphan; RpcTxNotFound; RpcTxNotFound].
Proof.
  cbn zeta. rewrite ex_n_eq. split; [vm_compute; reflexivity|]. split; [vm_compute; reflexivity|].
  split; [vm_compute; reflexivity|]. split.
  - destruct (rpc_block_by_hash ex_n 4) as [b4| |] eqn:E4; try (vm_compute in E4; discriminate).
    destruct (rpc_block_by_hash ex_n 6) as [b6| |] eqn:E6; try (vm_compute in E6; discriminate).
    exists b4, b6. vm_compute in E4. vm_compute in E6. injection E4 as <-. injection E6 as <-.
    repeat split; reflexivity.
  - repeat split; vm_compute; reflexivity.
Qed.

(* the history with transactions (Proofs/HistoryExamples.v: T1 = 100 in A1 and in D, T2 = 101 in A1 only; main chain
   G-B-D): T1 is answered with the height of D, T2 with 0, both not as coinbase; D's hash as a coinbase at height 2; A1's
   hash "orphan" *)
Theorem rpc_handlers_tx_example :
  let n := run cfg_verifnet 7 0 ex_n0 tx_ops in
  map b_hash (w_genesis :: mchain n) = [1; 4; 6] /\
  map (rpc_get_transaction n) [100; 101; 6; 2; 55] =
    [RpcTxFound 2 false; RpcTxFound 0 false; RpcTxFound 2 true; RpcTxOrphan; RpcTxNotFound].
Proof. cbn zeta. rewrite ex_tn_eq. split; vm_compute; reflexivity. Qed.
