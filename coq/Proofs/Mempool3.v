(* Property C09, simulation part, general case (continued): one earlier entry of any kind keeps the relation between the
   simulation and the really-applied ledger; the checks on the transaction itself are sound under the relation; the
   theorem for earlier entries of all kinds. *)
From Virel Require Import Lib.Config Lib.U64 Lib.AMap Lib.CheckLib Model.Emission Model.Ledger Model.Node Model.Mempool
  Proofs.AMapLemmas Proofs.Conservation Proofs.Staking Proofs.StakedSum Proofs.Mempool Proofs.Mempool2.
Open Scope N_scope.
Open Scope bool_scope.

Section General.
Variable cfg : config.
Hypothesis Hok : cfg_ok_c09 cfg = true.

(* what is assumed of an earlier transaction: the version byte names the payload, the numbers are uint64 values, the
   total exists (no wrap-around; checked by Prevalidate and by validateMempoolTx), a registration does not ask for id 0
   (Prevalidate) *)
Definition tx_good (t : tx) : Prop :=
  tx_typed t /\ wf_tx cfg t /\ tx_total cfg t <> None /\ (forall nl nm, tx_data t <> TRegister nl nm 0).

(* the relation between the simulation (started from [l0]) and the ledger [l] *)
Definition sinv (l0 : ledger) (st : sim) (l : ledger) : Prop :=
  agree l (s_states st) /\ drel l0 (s_dlgs st) l /\ linv l /\ total_bal l < two64.

Lemma get_put_same l a s : get_state (put_state l a s) a = Some s.
Proof. unfold get_state, put_state, set_accts. cbn [accts]. apply nget_nset_same. Qed.

Lemma sim_step l0 store txid sg h st e1 st' l t1 l' :
  0 < h < two64 -> tx_good t1 ->
  entry_of_tx cfg t1 0 = Ok e1 -> nget store (tx_id t1) = Some t1 ->
  apply_tx cfg l t1 h 0 (h - 1) = Ok l' ->
  sim_entry cfg false l0 store txid sg h st e1 = Ok st' ->
  sinv l0 st l -> sinv l0 st' l'.
Proof.
  intros Hh (Hty & Hwf & Htot & Hr0) He Hst Ha Hs (Hag & Hdr & Hli & Hb).
  destruct st as [m sd]. cbn [s_states s_dlgs] in *.
  destruct (tx_total cfg t1) as [tot|] eqn:Etot; [|congruence]. clear Htot.
  pose proof (apply_tx_total cfg l t1 h 0 (h - 1) l' tot Hb Hwf Etot Ha) as Htotal.
  assert (Hb' : total_bal l' < two64) by lia.
  pose proof He as He0.
  unfold entry_of_tx in He. bind_inv He. rename a into outs. injection He as <-.
  set (e1 := mkmentry (tx_id t1) (tx_version t1) (tx_vsize cfg t1) (tx_fee t1) 0 (addr_of_key (tx_signer t1))
                      (state_inputs cfg t1 (addr_of_key (tx_signer t1))) (map (fun o => (o_rcpt o, o_amt o)) outs)) in *.
  rewrite apply_tx_eq in Ha. opt_inv Ha. rename x into s0. guard_inv Ha. bind_inv Ha. destruct a as [lk st1].
  unfold sim_entry in Hs. cbn [s_states s_dlgs] in Hs. guard_inv Hs. bind_inv Hs. rename a into m2.
  change (me_id e1) with (tx_id t1) in Hs. rewrite Hst in Hs. cbn [of_opt bind] in Hs.
  change (me_version e1) with (tx_version t1) in Hs.
  unfold tx_typed in Hty. rewrite Hty in Hs.
  unfold kind_step in E1. rewrite Hty in E1.
  set (signer := addr_of_key (tx_signer t1)) in *.
  destruct Hwf as (Hf64 & Hwd & Hb64). pose proof (conj Hf64 (conj Hwd Hb64) : wf_tx cfg t1) as Hwf.
  destruct (tx_data t1) as [os|nl name id|nw pv|a id pu|a id] eqn:Ed; cbn [data_version N.eqb Pos.eqb] in Hs, E1;
    cbn [wf_data] in Hwd.
  - (* transfer *)
    injection E1 as <- <-. injection Hs as <-. cbn [s_states s_dlgs].
    destruct (tail_agree cfg l s0 t1 h 0 l' m e1 m2 tot Ha E0 Hag Hb Hwf Etot He0 E2) as (A & B & C).
    split; [exact A|]. split; [eapply drel_ext; eassumption|]. split; [eapply linv_ext; eassumption|exact Hb'].
  - (* register *)
    guard_inv E1. injection E1 as <- <-. injection Hs as <-. cbn [s_states s_dlgs].
    destruct (get_dlg l id) eqn:Egd; [discriminate G1|].
    set (lk := put_dlg l (mkdlg id (tx_signer t1) name [])) in *.
    assert (Hid : id <> 0) by (intros ->; exact (Hr0 nl name eq_refl)).
    destruct (register_rel l0 sd l id (tx_signer t1) name name Egd Hdr Hli Hid) as [Hdr' Hli']. fold lk in Hdr', Hli'.
    destruct (tail_agree cfg lk s0 t1 h 0 l' m e1 m2 tot Ha E0 (agree_accts l lk m eq_refl Hag) Hb Hwf Etot He0 E2) as (A & B & C).
    split; [exact A|]. split; [eapply drel_ext; eassumption|]. split; [eapply linv_ext; eassumption|exact Hb'].
  - (* set delegate *)
    guard_inv E1. guard_inv E1. guard_inv E1. injection E1 as <- <-.
    unfold state_outputs in E. rewrite Ed in E. injection E as <-.
    subst e1. cbn [me_id me_signer me_inputs me_outputs map sim_outputs] in *.
    unfold state_inputs in E2. rewrite Ed in E2.
    unfold tx_tail, state_inputs, state_outputs in Ha. rewrite Ed in Ha. fold signer in Ha.
    cbn [bal nonce inc deleg apply_inputs] in Ha. rewrite get_put_same in Ha. cbn [of_opt bind bal nonce inc deleg] in Ha.
    bind_inv Ha. rename a into l3.
    match goal with Hx : bind (guard _ _) _ = Ok l3 |- _ => rename Hx into Ein end. guard_inv Ein. injection Ein as <-. cbn [apply_outputs fst] in Ha. injection Ha as <-.
    assert (Hdl : forall lx, dlgs lx = dlgs l -> staked lx = staked l -> drel l0 sd lx /\ linv lx).
    { intros lx H1 H2. split; [eapply drel_ext; eassumption|eapply linv_ext; eassumption]. }
    destruct (nget m signer) as [s|] eqn:Es.
    + pose proof (Hag _ _ Es) as Hs0. rewrite (load_state_some _ _ _ E0) in Hs0. subst s.
      cbn [sim_inputs] in E2. rewrite nget_nset_same in E2. cbn [bal nonce inc deleg] in E2.
      destruct (bal s0 <? tx_fee t1); [discriminate E2|]. injection E2 as <-.
      rewrite nget_nset_same in Hs. guard_inv Hs. injection Hs as <-. cbn [s_states s_dlgs bal nonce inc deleg].
      split; [|split; [|split; [|exact Hb']]]; try (apply Hdl; reflexivity).
      pose proof (agree_put l m signer (mkacct (bal s0) (wadd (nonce s0) 1) (inc s0) (deleg s0)) Hag) as P1. rewrite Es in P1.
      pose proof (agree_put _ _ signer (mkacct (bal s0 - tx_fee t1) (wadd (nonce s0) 1) (inc s0) (deleg s0)) P1) as P2.
      rewrite nget_nset_same in P2.
      pose proof (agree_put _ _ signer (mkacct (bal s0 - tx_fee t1) (wadd (nonce s0) 1) (inc s0) nw) P2) as P3.
      rewrite nget_nset_same in P3.
      eapply agree_ext; [|exact P3]. intros k. unfold load_state, get_state.
      cbn [accts set_txh set_outtx put_state set_accts]. rewrite !nget_nset. destruct (k =? signer); reflexivity.
    + cbn [sim_inputs] in E2. rewrite Es in E2. injection E2 as <-. rewrite Es in Hs. injection Hs as <-.
      cbn [s_states s_dlgs].
      split; [|split; [|split; [|exact Hb']]]; try (apply Hdl; reflexivity).
      intros k s Hk. cbn [s_states] in Hk. assert (Hne : k <> signer) by (intros Heq; rewrite Heq, Es in Hk; discriminate Hk).
      rewrite (Hag _ _ Hk). unfold load_state, get_state.
      cbn [accts set_txh set_outtx put_state set_accts]. rewrite !nget_nset_other by exact Hne. reflexivity.
  - (* stake *)
    guard_inv E1. guard_inv E1. bind_inv E1. injection E1 as -> <-.
    match goal with Hx : apply_stake _ _ _ _ _ _ _ _ _ = Ok lk |- _ => rename Hx into Eas end.
    assert (Hid : id <> 0) by (intros ->; discriminate G1).
    subst e1. cbn [me_signer] in Hs. fold signer in Hs.
    opt_inv Hs. rename x into d. bind_inv Hs. rename a0 into funds'. injection Hs as <-.
    match goal with Hx : _ = Ok funds' |- _ => rename Hx into Efs end.
    unfold sim_unlock in Efs. rewrite (wsub_small h 1) in Efs by lia.
    assert (Hsf : sim_stake_funds (d_funds d) signer a pu (wadd (h - 1) (unlock_time cfg)) = Ok funds') by exact Efs.
    match goal with Hx : get_or_load _ _ _ = Some d |- _ => rename Hx into Egol end.
    destruct (stake_rel cfg l0 sd l a id pu signer (h - 1) (tx_id t1) lk d funds' Eas Hdr Hli Hwd Hid Egol Hsf)
      as (Hdr' & Hli' & Hacc).
    assert (Hg : get_state lk signer = Some s0) by (unfold get_state; rewrite Hacc; exact E0).
    assert (Hbk : total_bal lk < two64) by (unfold total_bal; rewrite Hacc; exact Hb).
    destruct (tail_agree cfg lk s0 t1 h 0 l' m _ m2 tot Ha Hg (agree_accts l lk m Hacc Hag) Hbk Hwf Etot He0 E2) as (A & B & C).
    split; [exact A|]. split; [eapply drel_ext; eassumption|]. split; [eapply linv_ext; eassumption|exact Hb'].
  - (* unstake *)
    guard_inv E1. guard_inv E1. bind_inv E1. injection E1 as -> <-.
    match goal with Hx : apply_unstake _ _ _ _ _ _ _ _ = Ok lk |- _ => rename Hx into Eas end.
    assert (Hid : id <> 0) by (intros ->; discriminate G1).
    subst e1. cbn [me_signer] in Hs. fold signer in Hs.
    opt_inv Hs. rename x into d. opt_inv Hs. rename x into f. guard_inv Hs. injection Hs as <-.
    match goal with Hx : get_or_load _ _ _ = Some d |- _ => rename Hx into Egol end.
    match goal with Hx : find_fund _ _ = Some f |- _ => rename Hx into Eff end.
    destruct (unstake_rel l0 sd l a id signer (h - 1) (tx_id t1) lk d f Eas Hdr Hli Hwd Hid Egol Eff)
      as (Hdr' & Hli' & Hacc).
    assert (Hg : get_state lk signer = Some s0) by (unfold get_state; rewrite Hacc; exact E0).
    assert (Hbk : total_bal lk < two64) by (unfold total_bal; rewrite Hacc; exact Hb).
    destruct (tail_agree cfg lk s0 t1 h 0 l' m _ m2 tot Ha Hg (agree_accts l lk m Hacc Hag) Hbk Hwf Etot He0 E2) as (A & B & C).
    split; [exact A|]. split; [eapply drel_ext; eassumption|]. split; [eapply linv_ext; eassumption|exact Hb'].
Qed.
End General.
