(* Property C09, simulation part, general case (continued): one earlier entry of any kind keeps the relation between the
   simulation and the really-applied ledger; the checks on the transaction itself are sound under the relation; the
   theorem for earlier entries of all kinds. *)
From Virel Require Import Lib.Config Lib.U64 Lib.AMap Lib.CheckLib Model.Emission Model.Ledger Model.Node Model.Mempool
  Proofs.AMapLemmas Proofs.Conservation Proofs.Staking Proofs.StakedSum Proofs.Mempool Proofs.Mempool2 Proofs.MempoolPot.
Open Scope N_scope.
Open Scope bool_scope.

Section General.
Variable cfg : config.
Hypothesis Hok : cfg_ok_c09 cfg = true.

(* what is assumed of an earlier transaction: the version byte names the payload, the numbers are uint64 values, the
   total exists (no wrap-around; checked by Prevalidate and by validateMempoolTx), a registration does not ask for id 0
   (Prevalidate) *)
Definition tx_good (t : tx) : Prop :=
  tx_typed t /\ wf_tx cfg t /\ tx_total cfg t <> None /\ (forall nl nm, tx_data t <> TRegister nl nm 0).

(* the relation between the simulation (started from [l0]) and the ledger [l] *)
Definition sinv (l0 : ledger) (st : sim) (l : ledger) : Prop :=
  agree l (s_states st) /\ drel l0 (s_dlgs st) l /\ linv l /\ total_bal l < two64.

Lemma get_put_same l a s : get_state (put_state l a s) a = Some s.
Proof. unfold get_state, put_state, set_accts. cbn [accts]. apply nget_nset_same. Qed.

(* the mempool entry made from a transaction (whatever its expiry time) *)
Definition entry_rel (t : tx) (e : mentry) : Prop := exists exp, entry_of_tx cfg t exp = Ok e.

Lemma sim_step l0 store txid sg h st e1 st' l t1 l' :
  0 < h < two64 -> tx_good t1 ->
  entry_rel t1 e1 -> nget store (tx_id t1) = Some t1 ->
  apply_tx cfg l t1 h 0 (h - 1) = Ok l' ->
  sim_entry cfg false l0 store txid sg h st e1 = Ok st' ->
  sinv l0 st l -> sinv l0 st' l'.
Proof.
  intros Hh (Hty & Hwf & Htot & Hr0) (exp & He) Hst Ha Hs (Hag & Hdr & Hli & Hb).
  destruct st as [m sd]. cbn [s_states s_dlgs] in *.
  destruct (tx_total cfg t1) as [tot|] eqn:Etot; [|congruence]. clear Htot.
  pose proof (apply_tx_total cfg l t1 h 0 (h - 1) l' tot Hb Hwf Etot Ha) as Htotal.
  assert (Hb' : total_bal l' < two64) by lia.
  pose proof He as He0.
  unfold entry_of_tx in He. bind_inv He. rename a into outs. injection He as <-.
  set (e1 := mkmentry (tx_id t1) (tx_version t1) (tx_vsize cfg t1) (tx_fee t1) exp (addr_of_key (tx_signer t1))
                      (state_inputs cfg t1 (addr_of_key (tx_signer t1))) (map (fun o => (o_rcpt o, o_amt o)) outs)) in *.
  rewrite apply_tx_eq in Ha. opt_inv Ha. rename x into s0. guard_inv Ha. bind_inv Ha. destruct a as [lk st1].
  unfold sim_entry in Hs. cbn [s_states s_dlgs] in Hs. guard_inv Hs. bind_inv Hs. rename a into m2.
  change (me_id e1) with (tx_id t1) in Hs. rewrite Hst in Hs. cbn [of_opt bind] in Hs.
  change (me_version e1) with (tx_version t1) in Hs.
  unfold tx_typed in Hty. rewrite Hty in Hs.
  unfold kind_step in E1. rewrite Hty in E1.
  set (signer := addr_of_key (tx_signer t1)) in *.
  destruct Hwf as (Hf64 & Hwd & Hb64). pose proof (conj Hf64 (conj Hwd Hb64) : wf_tx cfg t1) as Hwf.
  destruct (tx_data t1) as [os|nl name id|nw pv|a id pu|a id] eqn:Ed; cbn [data_version N.eqb Pos.eqb] in Hs, E1;
    cbn [wf_data] in Hwd.
  - (* transfer *)
    injection E1 as <- <-. injection Hs as <-. cbn [s_states s_dlgs].
    destruct (tail_agree cfg l s0 t1 h 0 l' m e1 m2 tot exp Ha E0 Hag Hb Hwf Etot He0 E2) as (A & B & C).
    split; [exact A|]. split; [eapply drel_ext; eassumption|]. split; [eapply linv_ext; eassumption|exact Hb'].
  - (* register *)
    guard_inv E1. injection E1 as <- <-. injection Hs as <-. cbn [s_states s_dlgs].
    destruct (get_dlg l id) eqn:Egd; [discriminate G1|].
    set (lk := put_dlg l (mkdlg id (tx_signer t1) name [])) in *.
    assert (Hid : id <> 0) by (intros ->; exact (Hr0 nl name eq_refl)).
    destruct (register_rel l0 sd l id (tx_signer t1) name name Egd Hdr Hli Hid) as [Hdr' Hli']. fold lk in Hdr', Hli'.
    destruct (tail_agree cfg lk s0 t1 h 0 l' m e1 m2 tot exp Ha E0 (agree_accts l lk m eq_refl Hag) Hb Hwf Etot He0 E2) as (A & B & C).
    split; [exact A|]. split; [eapply drel_ext; eassumption|]. split; [eapply linv_ext; eassumption|exact Hb'].
  - (* set delegate *)
    guard_inv E1. guard_inv E1. guard_inv E1. injection E1 as <- <-.
    unfold state_outputs in E. rewrite Ed in E. injection E as <-.
    subst e1. cbn [me_id me_signer me_inputs me_outputs map sim_outputs] in *.
    unfold state_inputs in E2. rewrite Ed in E2.
    unfold tx_tail, state_inputs, state_outputs in Ha. rewrite Ed in Ha. fold signer in Ha.
    cbn [bal nonce inc deleg apply_inputs] in Ha. rewrite get_put_same in Ha. cbn [of_opt bind bal nonce inc deleg] in Ha.
    bind_inv Ha. rename a into l3.
    match goal with Hx : bind (guard _ _) _ = Ok l3 |- _ => rename Hx into Ein end. guard_inv Ein. injection Ein as <-. cbn [apply_outputs fst] in Ha. injection Ha as <-.
    assert (Hdl : forall lx, dlgs lx = dlgs l -> staked lx = staked l -> drel l0 sd lx /\ linv lx).
    { intros lx H1 H2. split; [eapply drel_ext; eassumption|eapply linv_ext; eassumption]. }
    destruct (nget m signer) as [s|] eqn:Es.
    + pose proof (Hag _ _ Es) as Hs0. rewrite (load_state_some _ _ _ E0) in Hs0. subst s.
      cbn [sim_inputs] in E2. rewrite nget_nset_same in E2. cbn [bal nonce inc deleg] in E2.
      destruct (bal s0 <? tx_fee t1); [discriminate E2|]. injection E2 as <-.
      rewrite nget_nset_same in Hs. guard_inv Hs. injection Hs as <-. cbn [s_states s_dlgs bal nonce inc deleg].
      split; [|split; [|split; [|exact Hb']]]; try (apply Hdl; reflexivity).
      pose proof (agree_put l m signer (mkacct (bal s0) (wadd (nonce s0) 1) (inc s0) (deleg s0)) Hag) as P1. rewrite Es in P1.
      pose proof (agree_put _ _ signer (mkacct (bal s0 - tx_fee t1) (wadd (nonce s0) 1) (inc s0) (deleg s0)) P1) as P2.
      rewrite nget_nset_same in P2.
      pose proof (agree_put _ _ signer (mkacct (bal s0 - tx_fee t1) (wadd (nonce s0) 1) (inc s0) nw) P2) as P3.
      rewrite nget_nset_same in P3.
      eapply agree_ext; [|exact P3]. intros k. unfold load_state, get_state.
      cbn [accts set_txh set_outtx put_state set_accts]. rewrite !nget_nset. destruct (k =? signer); reflexivity.
    + cbn [sim_inputs] in E2. rewrite Es in E2. injection E2 as <-. rewrite Es in Hs. injection Hs as <-.
      cbn [s_states s_dlgs].
      split; [|split; [|split; [|exact Hb']]]; try (apply Hdl; reflexivity).
      intros k s Hk. cbn [s_states] in Hk. assert (Hne : k <> signer) by (intros Heq; rewrite Heq, Es in Hk; discriminate Hk).
      rewrite (Hag _ _ Hk). unfold load_state, get_state.
      cbn [accts set_txh set_outtx put_state set_accts]. rewrite !nget_nset_other by exact Hne. reflexivity.
  - (* stake *)
    guard_inv E1. guard_inv E1. bind_inv E1. injection E1 as -> <-.
    match goal with Hx : apply_stake _ _ _ _ _ _ _ _ _ = Ok lk |- _ => rename Hx into Eas end.
    assert (Hid : id <> 0) by (intros ->; discriminate G1).
    subst e1. cbn [me_signer] in Hs. fold signer in Hs.
    opt_inv Hs. rename x into d. bind_inv Hs. rename a0 into funds'. injection Hs as <-.
    match goal with Hx : _ = Ok funds' |- _ => rename Hx into Efs end.
    unfold sim_unlock in Efs. rewrite (wsub_small h 1) in Efs by lia.
    assert (Hsf : sim_stake_funds (d_funds d) signer a pu (wadd (h - 1) (unlock_time cfg)) = Ok funds') by exact Efs.
    match goal with Hx : get_or_load _ _ _ = Some d |- _ => rename Hx into Egol end.
    destruct (stake_rel cfg l0 sd l a id pu signer (h - 1) (tx_id t1) lk d funds' Eas Hdr Hli Hwd Hid Egol Hsf)
      as (Hdr' & Hli' & Hacc).
    assert (Hg : get_state lk signer = Some s0) by (unfold get_state; rewrite Hacc; exact E0).
    assert (Hbk : total_bal lk < two64) by (unfold total_bal; rewrite Hacc; exact Hb).
    destruct (tail_agree cfg lk s0 t1 h 0 l' m _ m2 tot exp Ha Hg (agree_accts l lk m Hacc Hag) Hbk Hwf Etot He0 E2) as (A & B & C).
    split; [exact A|]. split; [eapply drel_ext; eassumption|]. split; [eapply linv_ext; eassumption|exact Hb'].
  - (* unstake *)
    guard_inv E1. guard_inv E1. bind_inv E1. injection E1 as -> <-.
    match goal with Hx : apply_unstake _ _ _ _ _ _ _ _ = Ok lk |- _ => rename Hx into Eas end.
    assert (Hid : id <> 0) by (intros ->; discriminate G1).
    subst e1. cbn [me_signer] in Hs. fold signer in Hs.
    opt_inv Hs. rename x into d. opt_inv Hs. rename x into f. guard_inv Hs. injection Hs as <-.
    match goal with Hx : get_or_load _ _ _ = Some d |- _ => rename Hx into Egol end.
    match goal with Hx : find_fund _ _ = Some f |- _ => rename Hx into Eff end.
    destruct (unstake_rel l0 sd l a id signer (h - 1) (tx_id t1) lk d f Eas Hdr Hli Hwd Hid Egol Eff)
      as (Hdr' & Hli' & Hacc).
    assert (Hg : get_state lk signer = Some s0) by (unfold get_state; rewrite Hacc; exact E0).
    assert (Hbk : total_bal lk < two64) by (unfold total_bal; rewrite Hacc; exact Hb).
    destruct (tail_agree cfg lk s0 t1 h 0 l' m _ m2 tot exp Ha Hg (agree_accts l lk m Hacc Hag) Hbk Hwf Etot He0 E2) as (A & B & C).
    split; [exact A|]. split; [eapply drel_ext; eassumption|]. split; [eapply linv_ext; eassumption|exact Hb'].
Qed.
Lemma entries_of_rel ts : forall es, entries_of cfg ts = Ok es -> Forall2 entry_rel ts es.
Proof.
  induction ts as [|t1 ts IH]; intros es He; cbn [entries_of] in He.
  - injection He as <-. constructor.
  - apply bind_ok in He. destruct He as (e1 & E & He). apply bind_ok in He. destruct He as (es' & E0 & He).
    injection He as <-. constructor; [exists 0; exact E|apply IH; exact E0].
Qed.

Lemma sim_steps l0 store txid sg h ts es : Forall2 entry_rel ts es -> forall l l1 st st',
  0 < h < two64 -> Forall tx_good ts -> (forall t, In t ts -> nget store (tx_id t) = Some t) ->
  apply_all cfg l ts h = Ok l1 ->
  sim_entries cfg false l0 store txid sg h st es = Ok st' ->
  sinv l0 st l -> sinv l0 st' l1.
Proof.
  induction 1 as [|t1 e1 ts es He _ IH]; intros l l1 st st' Hh Hall Hstore Ha Hs Hinv.
  - cbn in Ha. injection Ha as <-. cbn in Hs. injection Hs as <-. exact Hinv.
  - inversion Hall as [|? ? Ht1 Hall']; subst.
    cbn [apply_all] in Ha. apply bind_ok in Ha. destruct Ha as (l' & E1 & Ha).
    cbn [sim_entries] in Hs. apply bind_ok in Hs. destruct Hs as (st1 & E2 & Hs).
    pose proof (sim_step l0 store txid sg h st e1 st1 l t1 l' Hh Ht1 He (Hstore t1 (or_introl eq_refl)) E1 E2 Hinv) as Hinv'.
    apply (IH l' l1 st1 st' Hh Hall' (fun t Ht => Hstore t (or_intror Ht)) Ha Hs Hinv').
Qed.

(* staked total + key-address balances along the earlier transactions *)
Lemma apply_all_pot ts : forall l l1 h,
  Forall tx_good ts -> SInv l -> total_bal l < two64 -> apply_all cfg l ts h = Ok l1 -> pot l1 <= pot l.
Proof.
  induction ts as [|t1 ts IH]; intros l l1 h Hall HI Hb Ha.
  - cbn in Ha. injection Ha as <-. lia.
  - inversion Hall as [|? ? (Hty & Hwf & Htot & _) Hall']; subst.
    cbn [apply_all] in Ha. apply bind_ok in Ha. destruct Ha as (l' & E1 & Ha).
    pose proof (apply_tx_pot cfg l t1 h 0 (h - 1) l' HI Hb Hty Hwf Htot E1) as Hp.
    pose proof (apply_tx_SInv cfg l t1 h 0 (h - 1) l' HI Hwf E1) as HI'.
    destruct (tx_total cfg t1) as [tot|] eqn:Etot; [|congruence].
    pose proof (apply_tx_total cfg l t1 h 0 (h - 1) l' tot Hb Hwf Etot E1) as Htt.
    pose proof (IH l' l1 h Hall' HI' ltac:(lia) Ha). lia.
Qed.

(* ---- the checks on the transaction itself are sound against a ledger related to the simulation ---- *)
Section Current2.
Variable l0 l : ledger.
Variable t : tx.
Variable h bh : N.
Variable st : sim.
Notation signer := (addr_of_key (tx_signer t)).

Hypothesis Htyped : tx_typed t.
Hypothesis Hwf : wf_tx cfg t.
Hypothesis Hfee : 0 < tx_fee t.
Hypothesis Htot : tx_total cfg t <> None.
Hypothesis Hag : agree l (s_states st).
Hypothesis Hdr : drel l0 (s_dlgs st) l.
Hypothesis Hli : linv l.
Hypothesis Hpot : pot l < two64.

Lemma gol_some id d : get_or_load l0 (s_dlgs st) id = Some d -> exists d1, get_dlg l id = Some d1 /\ frel (d_funds d) (d_funds d1).
Proof.
  intros Hg. pose proof (Hdr id) as H. rewrite Hg in H. destruct (get_dlg l id) as [d1|]; [|destruct H].
  exists d1. split; [reflexivity|exact H].
Qed.

Lemma gol_none id : get_or_load l0 (s_dlgs st) id = None -> get_dlg l id = None.
Proof. intros Hg. pose proof (Hdr id) as H. rewrite Hg in H. destruct (get_dlg l id); [destruct H|reflexivity]. Qed.

Lemma check_current_sound2 :
  check_current cfg false l0 t signer h st = Ok tt -> exists l', apply_tx cfg l t h bh (h - 1) = Ok l'.
Proof.
  intros H. destruct Hli as (HI & Hnd & Hd0). pose proof HI as (_ & _ & _ & Hst64).
  unfold check_current in H.
  opt_inv H. rename x into s. guard_inv H. bind_inv H.
  pose proof (Hag _ _ E) as Hs.
  destruct (state_inputs_single cfg t signer) as (amt & sender & Hin & Hsender).
  pose proof (input_amount_pos cfg t signer amt sender Hwf Hfee Htot Hin) as Hamt.
  rewrite Hin in E0. cbn [check_inputs] in E0. opt_inv E0. rename x into ss. guard_inv E0. clear E0. clear a.
  pose proof (Hag _ _ E1) as Hss. apply Bool.negb_true_iff in G0. apply N.ltb_ge in G0.
  assert (Hsend : get_state l sender = Some ss).
  { subst ss. unfold load_state in *. destruct (get_state l sender); [reflexivity|]. cbn in G0. lia. }
  assert (Hsig : get_state l signer = Some s).
  { destruct Hsender as [->|[->|(ua & uid & Hd & -> & ->)]].
    - rewrite Hsend. f_equal. congruence.
    - rewrite Hsend. f_equal. congruence.
    - destruct (get_state l signer) as [s'|] eqn:Eg; [f_equal; subst s; unfold load_state; rewrite Eg; reflexivity|].
      exfalso. assert (Hz : deleg s = 0) by (subst s; unfold load_state; rewrite Eg; reflexivity).
      unfold tx_typed in Htyped. rewrite Hd in Htyped. cbn in Htyped. rewrite Htyped, Hd in H. cbn in H.
      opt_inv H. guard_inv H. apply N.eqb_eq in G1. rewrite Hz in G1. subst uid.
      destruct (gol_some _ _ E0) as (d1 & Hg1 & _). congruence. }
  unfold apply_tx. rewrite Hsig. cbn [of_opt bind]. rewrite G. cbn [guard bind].
  assert (Hk : exists l1 st1, kind_step cfg l t s (h - 1) = Ok (l1, st1) /\ accts l1 = accts l /\ bal st1 = bal s).
  { unfold kind_step. unfold tx_typed in Htyped. rewrite Htyped in H |- *.
    destruct (tx_data t) as [os|nl name id|nw pv|a id pu|a id] eqn:Ed; cbn [data_version N.eqb Pos.eqb] in H |- *.
    - exists l, s. repeat split.
    - destruct (get_or_load l0 (s_dlgs st) id) eqn:Eg; [discriminate H|]. rewrite (gol_none _ Eg). cbn [guard bind].
      eexists. eexists. repeat split.
    - guard_inv H. guard_inv H. cbn [guard bind].
      assert (Hp : match get_dlg l pv with
                   | Some d => match find_fund (d_funds d) signer with Some _ => false | None => true end
                   | None => true end = true).
      { destruct (get_dlg l pv) as [d1|] eqn:Eg1; [|reflexivity].
        pose proof (Hdr pv) as Hr. rewrite Eg1 in Hr. destruct (get_or_load l0 (s_dlgs st) pv) as [d|]; [|destruct Hr].
        pose proof (Hr signer) as Hrs. destruct (find_fund (d_funds d1) signer) as [g1|]; [|reflexivity].
        destruct Hrs as (g & Ef & _). rewrite Ef in G2. discriminate G2. }
      rewrite Hp. cbn [guard bind].
      destruct (get_or_load l0 (s_dlgs st) nw) as [d|] eqn:Eg; [|discriminate H].
      destruct (gol_some _ _ Eg) as (d1 & Hg1 & _). rewrite Hg1. cbn [guard bind]. eexists. eexists. repeat split.
    - (* stake *)
      destruct (get_or_load l0 (s_dlgs st) id) as [d|] eqn:Egd; [|discriminate H]. cbn [of_opt bind] in H.
      destruct (gol_some _ _ Egd) as (d1 & Hg1 & Hfr).
      destruct (match find_fund (d_funds d) signer with Some f => guard (f_unlock f =? pu) 916 | None => Ok tt end) eqn:Epu;
        [|discriminate H|discriminate H]. cbn [bind] in H.
      assert (Hid : (id =? 0) = false).
      { destruct (N.eqb_spec id 0); [subst; congruence|reflexivity]. }
      rewrite Hid. cbn [negb guard bind]. unfold guard in H. destruct (deleg s =? id); [|discriminate H]. cbn [guard bind].
      unfold apply_stake. rewrite Hg1. cbn [of_opt bind].
      assert (Hov : staked l + a < two64).
      { unfold state_inputs in Hin. rewrite Ed in Hin. injection Hin as <- <-.
        destruct Hwf as (Hf64 & Hwd & _). rewrite Ed in Hwd. cbn [wf_data] in Hwd.
        unfold tx_total, data_total in Htot. rewrite Ed in Htot.
        destruct (wadd a (tx_fee t) <? a) eqn:Ec; [congruence|].
        destruct (wadd_nowrap_of_check _ _ Hwd Hf64 Ec) as [Hw _]. rewrite Hw in G0.
        pose proof (odd_ge_at l signer (odd_addr_of_key (tx_signer t))) as Hge.
        unfold bal_at in Hge. rewrite Hsend in Hge. cbn [fopt] in Hge. unfold pot in Hpot. lia. }
      assert (Hss' : stats_staked l a = Ok (set_staked l (wadd (staked l) a))).
      { unfold stats_staked. rewrite wadd_small by exact Hov. destruct (N.ltb_spec (staked l + a) (staked l)); [lia|reflexivity]. }
      pose proof (Hfr signer) as Hrs.
      destruct (find_fund (d_funds d1) signer) as [f1|] eqn:Ef1.
      + destruct Hrs as (f & Ef & Hamt' & Hul). rewrite Ef in Epu.
        cbn [orb]. unfold guard in Epu. rewrite <- Hul. destruct (f_unlock f =? pu); [|discriminate Epu]. cbn [guard bind].
        pose proof (SInv_fund_le l id d1 signer f1 HI Hg1 Ef1) as Hle.
        assert (Hsa : safe_add (f_amt f1) a = Some (f_amt f1 + a)).
        { unfold safe_add. rewrite wadd_small by lia. destruct (N.ltb_spec (f_amt f1 + a) (f_amt f1)); [lia|reflexivity]. }
        rewrite Hsa. cbn [of_opt bind]. rewrite Hss'. cbn [bind].
        eexists. eexists. repeat split.
      + cbn [bind]. rewrite Hss'. cbn [bind]. eexists. eexists. repeat split.
    - (* unstake *)
      destruct (get_or_load l0 (s_dlgs st) id) as [d|] eqn:Egd; [|discriminate H]. cbn [of_opt bind] in H. guard_inv H.
      destruct (gol_some _ _ Egd) as (d1 & Hg1 & Hfr).
      assert (Hid : (id =? 0) = false).
      { destruct (N.eqb_spec id 0); [subst; congruence|reflexivity]. }
      rewrite Hid. cbn [negb guard bind].
      assert (Ha : 0 < a).
      { unfold tx_total, data_total in Htot. rewrite Ed in Htot. destruct (a <? tx_fee t) eqn:Ea; [congruence|].
        apply N.ltb_ge in Ea. lia. }
      unfold apply_unstake. rewrite Hg1. cbn [of_opt bind].
      pose proof (Hfr signer) as Hrs.
      destruct (find_fund (d_funds d1) signer) as [f1|] eqn:Ef1.
      2:{ exfalso. destruct (find_fund (d_funds d) signer) as [f|] eqn:Ef.
          - guard_inv H. guard_inv H. unfold guard in H. rewrite Hrs in H. destruct (N.ltb_spec 0 a); [discriminate H|lia].
          - cbn in H. discriminate H. }
      destruct Hrs as (f & Ef & Hamt' & Hul). rewrite Ef in H.
      cbn [of_opt bind]. guard_inv H. guard_inv H.
      apply N.ltb_lt in G3.
      assert (Hlock : (h - 1 <? f_unlock f1) = false) by (apply N.ltb_ge; lia).
      rewrite Hlock. cbn [orb negb guard bind].
      pose proof (SInv_fund_le l id d1 signer f1 HI Hg1 Ef1) as Hle.
      unfold guard in H. rewrite Hamt' in H. destruct (f_amt f1 <? a) eqn:Hlt; [discriminate H|]. cbn [negb guard bind].
      apply N.ltb_ge in Hlt.
      assert (Hus : forall l', staked l' = staked l -> stats_unstaked l' a = Ok (set_staked l' (wsub (staked l') a))).
      { intros l' Hl'. unfold stats_unstaked. rewrite Hl'. rewrite wsub_small by lia.
        destruct (N.ltb_spec (staked l) (staked l - a)); [lia|reflexivity]. }
      destruct (f_amt f1 =? a); cbn [negb andb].
      + rewrite Hus by reflexivity. cbn [bind]. eexists. eexists. repeat split.
      + rewrite Hus by reflexivity. cbn [bind]. eexists. eexists. repeat split. }
  destruct Hk as (l1 & st1 & Hk & Ha1 & Hb1).
  change (exists l', (r1 <- kind_step cfg l t s (h - 1) ;; let '(l1, st1) := r1 in tx_tail cfg l1 st1 t h bh) = Ok l').
  rewrite Hk. cbn [bind]. unfold tx_tail.
  set (st2 := mkacct (bal st1) (wadd (nonce st1) 1) (inc st1) (deleg st1)).
  set (l2 := put_state l1 signer st2).
  assert (Hinp : exists l3, apply_inputs l2 (state_inputs cfg t signer) = Ok l3).
  { rewrite Hin. cbn [apply_inputs].
    destruct (N.eqb_spec sender signer) as [Heq|Hne].
    - subst sender. unfold l2, get_state, put_state, set_accts. cbn [accts].
      rewrite nget_nset_same. cbn [of_opt bind]. cbn [bal st2]. rewrite Hb1.
      assert (Hx : ss = s) by congruence. rewrite Hx in G0.
      destruct (N.ltb_spec (bal s) amt); [lia|]. cbn [negb guard bind]. eexists. reflexivity.
    - assert (Hg : get_state l2 sender = Some ss).
      { unfold l2, get_state, put_state, set_accts. cbn [accts]. rewrite nget_nset_other by exact Hne.
        rewrite Ha1. exact Hsend. }
      rewrite Hg. cbn [of_opt bind]. destruct (N.ltb_spec (bal ss) amt); [lia|]. cbn [negb guard bind].
      eexists. reflexivity. }
  destruct Hinp as (l3 & Hl3). rewrite Hl3. cbn [bind].
  destruct (state_outputs cfg t signer) as [outs|c|c] eqn:Eo.
  - cbn [bind]. eexists. reflexivity.
  - exfalso. unfold state_outputs in Eo. destruct (tx_data t); try discriminate.
    destruct (_ <? _); discriminate.
  - exfalso. unfold state_outputs in Eo. unfold tx_total, data_total in Htot. destruct (tx_data t) as [?|? ? ?|? ?|? ? ?|ua uid]; try discriminate.
    destruct (ua <? tx_fee t); [congruence|discriminate].
Qed.

End Current2.

(* C09, simulation part, general case: earlier entries of ALL kinds (transfers, registrations, delegate changes, stakes,
   unstakes), by any signers, interleaved in any order.  What validateMempoolTx accepts for [t] after the entries of the
   transactions [ts], simulated from the ledger [l], ApplyTxToState applies on the ledger [l1] reached by really applying
   [ts] to [l] (all at height [h], tip height [h - 1]).
   Hypotheses on the ledger: staked-sum invariant, no owner with two funds in one pool, no delegate 0, balances sum below
   2^64 even together with the staked total.  On the earlier transactions: [tx_good]; the store returns each of them under
   its id.  On [t]: version byte names the payload, uint64 amounts, size within the limit. *)
Theorem simulation_sound_general l store ts es t h l1 :
  0 < h < two64 ->
  Forall tx_good ts -> (forall t', In t' ts -> nget store (tx_id t') = Some t') ->
  Forall2 entry_rel ts es -> apply_all cfg l ts h = Ok l1 ->
  linv l -> staked l + total_bal l < two64 ->
  tx_typed t -> wf_tx cfg t -> tx_vsize cfg t <= max_tx_size cfg ->
  validate_mempool_tx cfg false l store t es h = Ok tt ->
  exists l2, apply_tx cfg l1 t h 0 (h - 1) = Ok l2.
Proof.
  intros Hh Hall Hstore He Ha Hli Hbs Hty Hwf Hvs H. unfold validate_mempool_tx in H.
  assert (Hb : total_bal l < two64) by lia.
  assert (Hp1 : pot l1 < two64).
  { destruct Hli as (HI & _). pose proof (apply_all_pot ts l l1 h Hall HI Hb Ha) as Hp.
    pose proof (odd_le_total l) as Ho. unfold pot in *. lia. }
  guard_inv H. pose proof (relay_fee_pos cfg Hok t Hvs G) as Hfee.
  destruct (tx_total cfg t) as [tot|] eqn:Etot; [|discriminate H]. cbn [of_opt bind] in H.
  bind_inv H. guard_inv H. bind_inv H. rename a0 into st.
  assert (Hinv0 : sinv l (mksim (init_states l (affected cfg t (addr_of_key (tx_signer t)) a) []) []) l).
  { split; [|split; [|split]]; cbn [s_states s_dlgs].
    - apply init_states_agree. intros k s Hk. discriminate Hk.
    - apply drel_start.
    - exact Hli.
    - exact Hb. }
  destruct (sim_steps l store (tx_id t) (addr_of_key (tx_signer t)) h ts es He l l1 _ st Hh Hall Hstore Ha E0 Hinv0)
    as (A & B & C & D).
  eapply (check_current_sound2 l l1 t h 0 st); try eassumption. congruence.
Qed.

(* the transactions of [ts] have distinct ids: the store built from them returns each under its id *)
Lemma store_of_lookup ts : NoDup (map tx_id ts) -> forall t, In t ts -> nget (store_of ts) (tx_id t) = Some t.
Proof.
  unfold store_of, nget. induction ts as [|x ts IH]; intros Hnd t Hin; [destruct Hin|].
  cbn [map aget]. inversion Hnd as [|? ? Hn Hd]; subst. destruct Hin as [->|Hin].
  - rewrite N.eqb_refl. reflexivity.
  - destruct (N.eqb_spec (tx_id t) (tx_id x)) as [E|E]; [|apply IH; assumption].
    exfalso. apply Hn. rewrite <- E. apply in_map. exact Hin.
Qed.

Theorem simulation_sound_all_kinds l ts es t h l1 :
  0 < h < two64 -> Forall tx_good ts -> NoDup (map tx_id ts) ->
  entries_of cfg ts = Ok es -> apply_all cfg l ts h = Ok l1 ->
  linv l -> staked l + total_bal l < two64 ->
  tx_typed t -> wf_tx cfg t -> tx_vsize cfg t <= max_tx_size cfg ->
  validate_mempool_tx cfg false l (store_of ts) t es h = Ok tt ->
  exists l2, apply_tx cfg l1 t h 0 (h - 1) = Ok l2.
Proof.
  intros Hh Hall Hnd He. apply simulation_sound_general;
    [exact Hh|exact Hall|apply store_of_lookup; exact Hnd|apply entries_of_rel; exact He].
Qed.

End General.
