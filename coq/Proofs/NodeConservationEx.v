(* Non-vacuity of the node-level conservation theorem (Proofs/NodeConservation.v): its premises hold together for the
   history of Proofs/ChainExamples.v that reorganises from the chain G-A1-A2-A3 to the heavier chain G-B-D (three blocks
   disconnected, two connected; Proofs/Replay6.v), so the final ledger of that history - reached through a
   reorganisation - holds exactly the emission scheduled for the blocks 0, 1, 2. *)
From Virel Require Import Lib.Config Lib.U64 Lib.AMap Model.Emission Model.Ledger Model.Node Spec.Chain
  Proofs.Emission Proofs.Conservation Proofs.StakedSum Proofs.ForkChoice Proofs.ChainExamples
  Proofs.Replay3 Proofs.Replay4 Proofs.Replay5 Proofs.Replay6 Proofs.Mempool2 Proofs.KeyInv Proofs.NodeConservation Gen.Params.
Open Scope N_scope.

Theorem reachable_conserved_example :
  let n := run cfg_verifnet 7 0 ex_n0 sr_ops in
  top_h n = 2 /\ map b_hash (mchain n) = [4; 6] /\ conserved cfg_verifnet n /\ linv (ldg n).
Proof.
  destruct replay_premises_satisfiable as (H0 & H). cbn zeta in H.
  destruct H as (Hok & Hfp & Hg0 & Hcd & Hlen & Hgen & Htyped & Hpaths & Hm & _).
  cbn zeta. split; [vm_compute; reflexivity|]. split; [exact Hm|]. split.
  - exact (reachable_conserved cfg_verifnet 7 0 w_genesis ex_n0 sr_ops Hok Hfp H0 Hg0 Hcd Hlen Hgen Htyped Hpaths).
  - apply (reachable_linv cfg_verifnet 7 0 w_genesis ex_n0 sr_ops Hok Hfp H0 Hg0 Hcd Hlen Hgen); [|exact Htyped|exact Hpaths].
    constructor.
Qed.

Theorem reachable_example_supply :
  let n := run cfg_verifnet 7 0 ex_n0 sr_ops in
  top_h n = 2 /\ map b_hash (mchain n) = [4; 6] /\
  total_bal (ldg n) = sum_rewards cfg_verifnet 2 /\ total_bal (ldg n) <= max_supply cfg_verifnet /\ SInv (ldg n).
Proof.
  destruct reachable_conserved_example as (Hh & Hm & (Hs & Hmax & HS & _) & _). cbn zeta.
  split; [exact Hh|]. split; [exact Hm|]. split; [|split; assumption].
  rewrite Hs, Hh. reflexivity.
Qed.
