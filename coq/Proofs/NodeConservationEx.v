(* Non-vacuity of the node-level conservation theorem (Proofs/NodeConservation.v): its premises hold together for the
   history of Proofs/ChainExamples.v that reorganises from the chain G-A1-A2-A3 to the heavier chain G-B-D (three blocks
   disconnected, two connected; Proofs/Replay6.v), so the final ledger of that history - reached through a
   reorganisation - holds exactly the emission scheduled for the blocks 0, 1, 2. *)
From Virel Require Import Lib.Config Lib.U64 Lib.AMap Model.Emission Model.Ledger Model.Node Spec.Chain
  Proofs.Emission Proofs.Conservation Proofs.StakedSum Proofs.ForkChoice Proofs.ChainExamples
  Proofs.Replay3 Proofs.Replay4 Proofs.Replay5 Proofs.Replay6 Proofs.Mempool2 Proofs.KeyInv Proofs.NodeConservation Gen.Params.
Open Scope N_scope.

Theorem reachable_conserved_example :
  let n := run cfg_verifnet 7 0 ex_n0 sr_ops in
  top_h n = 2 /\ map b_hash (mchain n) = [4; 6] /\ conserved cfg_verifnet n /\ linv (ldg n).
Proof.
  destruct replay_premises_satisfiable as (H0 & H). cbn zeta in H.
  destruct H as (Hok & Hfp & Hg0 & Hcd & Hlen & Hgen & Htyped & Hpaths & Hm & _).
  cbn zeta. split; [vm_compute; reflexivity|]. split; [exact Hm|]. split.
  - exact (reachable_conserved cfg_verifnet 7 0 w_genesis ex_n0 sr_ops Hok Hfp H0 Hg0 Hcd Hlen Hgen Htyped Hpaths).
  - apply (reachable_linv cfg_verifnet 7 0 w_genesis ex_n0 sr_ops Hok Hfp H0 Hg0 Hcd Hlen Hgen); [|exact Htyped|exact Hpaths].
    constructor.
Qed.

Theorem reachable_example_supply :
  let n := run cfg_verifnet 7 0 ex_n0 sr_ops in
  top_h n = 2 /\ map b_hash (mchain n) = [4; 6] /\
  total_bal (ldg n) = sum_rewards cfg_verifnet 2 /\ total_bal (ldg n) <= max_supply cfg_verifnet /\ SInv (ldg n).
Proof.
  destruct reachable_conserved_example as (Hh & Hm & (Hs & Hmax & HS & _) & _). cbn zeta.
  split; [exact Hh|]. split; [exact Hm|]. split; [|split; assumption].
  rewrite Hs, Hh. reflexivity.
Qed.

(* Why [linv] across removal is stated for reachable ledgers and not operation by operation: RemovePosReward puts back
   whatever record the delegate history holds under the block hash.  On a ledger that satisfies [linv] but whose history
   entry is not the one ApplyPosReward wrote (here: a record listing owner 3 twice), the result violates [linv] - the
   staked total still matches.  No reachable ledger has such an entry (Proofs/Replay2.v: RInv). *)
Definition hist_wit : ledger :=
  mkledger [] [(7, mkdlg 7 9 0 [mkfund 3 100 0])] 100 [(99, mkdlg 7 9 0 [mkfund 3 10 0; mkfund 3 20 0])] [] [] [].
Definition hist_wit_out : sout := mksout OUT_COINBASE_POS 70 14 7.
Definition hist_wit' : ledger :=
  mkledger [] [(7, mkdlg 7 9 0 [mkfund 3 10 0; mkfund 3 20 0])] 30 [(99, mkdlg 7 9 0 [mkfund 3 10 0; mkfund 3 20 0])] [] [] [].

Theorem remove_reward_needs_history :
  linv hist_wit /\ remove_pos_reward hist_wit 99 hist_wit_out = Ok hist_wit' /\
  SInv hist_wit' /\ ~ fnodup hist_wit'.
Proof.
  split; [|split; [vm_compute; reflexivity|split]].
  - split; [|split].
    + split; [repeat constructor|]. split; [repeat constructor|]. split; [reflexivity|vm_compute; reflexivity].
    + intros id d Hg. unfold get_dlg, nget in Hg. cbn [dlgs hist_wit aget] in Hg.
      destruct (id =? 7); [injection Hg as <-|discriminate]. cbn. repeat constructor. intros [].
    + reflexivity.
  - split; [repeat constructor|]. split; [repeat constructor|]. split; [reflexivity|vm_compute; reflexivity].
  - intros H. specialize (H 7 _ eq_refl). cbn in H. inversion H as [|? ? Hn _]. apply Hn. left. reflexivity.
Qed.

Theorem reachable_example_linv :
  let n := run cfg_verifnet 7 0 ex_n0 sr_ops in
  top_h n = 2 /\ map b_hash (mchain n) = [4; 6] /\ linv (ldg n).
Proof. destruct reachable_conserved_example as (Hh & Hm & _ & Hl). cbn zeta. split; [exact Hh|]. split; [exact Hm|exact Hl]. Qed.
