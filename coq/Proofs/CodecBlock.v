(* Round-trip lemmas for commitment / header / block / wire block / mining blob / packets / handshake. *)
From Virel Require Import Lib.Config Lib.U64 Model.Des Model.Codec Model.CodecBlock Proofs.Des Proofs.Codec.
Open Scope N_scope.

(* ------------------------------------------------------------------ Uint128 in trimmed little-endian form *)

Lemma trim_zeros_rev_spec l : exists k, l = repeat 0 k ++ trim_zeros_rev l.
Proof.
  induction l as [|x l [k IH]]; [exists O; reflexivity|].
  cbn [trim_zeros_rev]. destruct x; [|exists O; reflexivity].
  exists (S k). cbn [repeat app]. f_equal. exact IH.
Qed.

Lemma repeat_rev {A} (x : A) k : rev (repeat x k) = repeat x k.
Proof.
  induction k as [|k IH]; [reflexivity|]. cbn [repeat rev]. rewrite IH.
  clear IH. induction k as [|k IH]; [reflexivity|]. cbn [repeat app]. f_equal. exact IH.
Qed.

Lemma trim_trailing_spec l : exists k, l = trim_trailing_zeros l ++ repeat 0 k.
Proof.
  unfold trim_trailing_zeros. destruct (trim_zeros_rev_spec (rev l)) as [k E]. exists k.
  set (t := trim_zeros_rev (rev l)) in *.
  rewrite <- (rev_involutive l) at 1. rewrite E, rev_app_distr, repeat_rev. reflexivity.
Qed.

Lemma pad16_trim l : length l = 16%nat -> pad16 (trim_trailing_zeros l) = l.
Proof.
  intros Hl. unfold pad16. destruct (trim_trailing_spec l) as [k E].
  set (t := trim_trailing_zeros l) in *.
  assert (Hk : (length t + k = 16)%nat). { rewrite E, app_length, repeat_length in Hl. exact Hl. }
  assert (Hz : zeros 16 = repeat 0 k ++ repeat 0 (16 - k)).
  { unfold zeros. rewrite <- repeat_app. f_equal. change (N.to_nat 16) with 16%nat. lia. }
  rewrite Hz, app_assoc, <- E.
  rewrite <- Hl. rewrite firstn_app, Nat.sub_diag, firstn_all. cbn [firstn]. apply app_nil_r.
Qed.

Lemma le_bytes_length n x : length (le_bytes n x) = n.
Proof. revert x. induction n as [|k IH]; intros x; cbn [le_bytes length]; [reflexivity|]. rewrite IH. reflexivity. Qed.

Lemma u128_roundtrip x : x < two128 -> u128_of_slice (u128_trimmed x) = x.
Proof.
  intros Hx. unfold u128_of_slice, u128_trimmed. rewrite pad16_trim by apply le_bytes_length.
  apply le_value_bytes. exact Hx.
Qed.

Lemma u128_trimmed_len x : blen (u128_trimmed x) <= 16.
Proof.
  unfold u128_trimmed. destruct (trim_trailing_spec (le_bytes 16 x)) as [k E].
  pose proof (le_bytes_len 16 x) as Hl. rewrite E, blen_app in Hl. lia.
Qed.

Lemma bytes_eq_eq a : forall b, bytes_eq a b = true -> a = b.
Proof.
  induction a as [|x a IH]; intros [|y b]; cbn [bytes_eq]; try discriminate; [reflexivity|].
  intros Hb. apply andb_prop in Hb. destruct Hb as [Hxy Hr]. apply N.eqb_eq in Hxy. subst y. f_equal. apply IH. exact Hr.
Qed.

(* ------------------------------------------------------------------ running composite decoders *)

Lemma run_decodes {A R} (m : M A) bs v (f : A -> M R) rest a :
  decodes m bs v -> exists a', bind m f (mkdes (bs ++ rest) false a) = f v (mkdes rest false a').
Proof. intros H. destruct (H rest a) as [a' E]. exists a'. unfold bind. rewrite E. reflexivity. Qed.

Ltac use_decodes H :=
  match type of H with
  | decodes ?m ?bs ?v =>
      match goal with
      | |- context [bind m ?f (mkdes (bs ++ ?rest) false ?a)] =>
          let a' := fresh "a" in
          let E := fresh "E" in
          destruct (run_decodes m bs v f rest a H) as [a' E]; rewrite E; clear E
      end
  end.

Lemma run_array {R} n (f : list N -> M R) b rest a : blen b = n ->
  bind (read_array n) f (mkdes (b ++ rest) false a) = f b (mkdes rest false a).
Proof.
  intros Hb. unfold read_array. rewrite run_bind_assoc. rewrite run_fixed by assumption.
  rewrite run_to_array by assumption. reflexivity.
Qed.

Lemma array_decodes n b : blen b = n -> decodes (read_array n) b b.
Proof.
  intros Hb rest a. exists a. unfold read_array. rewrite run_fixed by assumption. subst n.
  unfold to_array. rewrite <- (app_nil_r b) at 1. rewrite split_at_app. reflexivity.
Qed.

Lemma run_u128 {R} (f : N -> M R) x rest a : x < two128 ->
  bind read_u128 f (mkdes (add_byte_slice (u128_trimmed x) ++ rest) false a) = f x (mkdes rest false (a + 16)).
Proof.
  intros Hx. unfold read_u128. rewrite run_bind_assoc. unfold read_byte_slice.
  rewrite (run_byte_slice_gen true).
  2:{ pose proof (u128_trimmed_len x). unfold two64. lia. }
  rewrite run_bind_assoc, run_alloc, run_ret. rewrite u128_roundtrip by assumption. reflexivity.
Qed.

Ltac rt_step :=
  first [ rewrite run_uvarint by assumption
        | rewrite run_array by assumption
        | rewrite run_fixed by assumption
        | rewrite run_to_array by assumption
        | rewrite run_u8
        | rewrite run_u16 by assumption
        | rewrite run_u32 by assumption
        | rewrite run_u64 by assumption
        | rewrite run_u128 by assumption
        | rewrite run_alloc
        | rewrite run_ret
        | rewrite run_remaining ].

Lemma hashes_decodes n l : blen l = n -> hashes_ok l = true ->
  decodes (rep (N.to_nat n) (read_array 32)) (concat l) l.
Proof.
  intros Hn Hh. subst n. rewrite nat_blen.
  rewrite <- (map_id l) at 2.
  apply (decodes_rep (read_array 32) (fun h => h) (fun h => blen h = 32)).
  - intros v Hv. apply array_decodes. exact Hv.
  - apply Forall_forall. intros h Hin. unfold hashes_ok in Hh. rewrite forallb_forall in Hh.
    specialize (Hh h Hin). unfold lenb in Hh. apply N.eqb_eq. exact Hh.
Qed.

Section BlockProofs.
Variable cfg : config.
Hypothesis Hok : cfg_ok_block cfg = true.

Lemma okb_consts : cfg_ok_codec cfg = true /\ minidag_ancestors cfg < 256 /\ 1 <= max_mm_chains cfg
  /\ max_mm_chains cfg < 9223372036854775808 /\ max_side_blocks cfg < 9223372036854775808 /\ max_tx_per_block cfg < two64.
Proof. unfold cfg_ok_block in Hok. bool_props. auto 10. Qed.

Lemma hid_decodes h : wf_hid h = true -> decodes dec_hid (enc_hid h) h.
Proof.
  intros Hwf rest a. destruct h as [n hs]. unfold wf_hid in Hwf. cbn [hid_network hid_hash] in Hwf. bool_props.
  unfold dec_hid, enc_hid. cbn [hid_network hid_hash]. rewrite <- app_assoc.
  repeat rt_step. eexists. reflexivity.
Qed.

Lemma int_count_ok_le x limit : x <= limit -> limit < 9223372036854775808 -> int_count_ok x limit = true.
Proof.
  intros Hx Hl. unfold int_count_ok, int_of_u64.
  replace (x <? 9223372036854775808) with true by ltb_true.
  apply andb_true_intro. split; apply negb_true_iff; apply Z.ltb_ge; lia.
Qed.

Lemma chains_decodes l : Forall (fun h => wf_hid h = true) l ->
  decodes (dec_chains (blen l)) (concat (map enc_hid l)) l.
Proof.
  intros Hall rest a. unfold dec_chains. rewrite run_alloc. rewrite nat_blen.
  apply (decodes_rep (check_err ;;; dec_hid) enc_hid (fun h => wf_hid h = true)); [|assumption].
  intros h Hh rest' a'. destruct (hid_decodes h Hh rest' a') as [a'' E]. exists a''.
  unfold bind at 1. cbn [check_err ret_err d_err]. exact E.
Qed.

Lemma forallb_Forall {A} (f : A -> bool) l : forallb f l = true -> Forall (fun x => f x = true) l.
Proof. intros H. apply Forall_forall. apply forallb_forall. exact H. Qed.

Lemma commitment_decodes c : wf_commitment cfg c = true -> decodes (dec_commitment cfg) (enc_commitment c) c.
Proof.
  intros Hwf rest a. destruct okb_consts as (_ & _ & Hmm1 & Hmm & _).
  destruct c as [base anc ts nonce ne chains]. unfold wf_commitment in Hwf.
  cbn [cm_base cm_ancestors cm_timestamp cm_nonce cm_nonce_extra cm_chains] in Hwf.
  repeat (apply andb_prop in Hwf; destruct Hwf as [Hwf ?]).
  unfold dec_commitment, enc_commitment. cbn [cm_base cm_ancestors cm_timestamp cm_nonce cm_nonce_extra cm_chains].
  bool_props. rewrite <- !app_assoc.
  rt_step.
  match goal with Hn : blen anc = _, Hh : hashes_ok anc = true |- _ => pose proof (hashes_decodes _ anc Hn Hh) as Hanc end.
  use_decodes Hanc.
  repeat rt_step.
  rewrite run_uvarint by (unfold two64; lia).
  rewrite int_count_ok_le by lia. cbn [negb].
  match goal with Hc : forallb wf_hid chains = true |- _ => pose proof (chains_decodes chains (forallb_Forall _ _ Hc)) as Hch end.
  use_decodes Hch.
  eexists. apply run_ret_err.
Qed.

Lemma header_decodes h : wf_header cfg h = true -> decodes (dec_header cfg) (enc_header h) h.
Proof.
  intros Hwf rest a. destruct okb_consts as (Hokc & _ & Hmm1 & Hmm & Hms & _).
  destruct (ok_consts cfg Hokc) as (_ & Has & _ & Hss & _).
  destruct h as [ver height ts nonce ne chains rcp anc side d nd sg]. unfold wf_header in Hwf.
  cbn [hd_version hd_height hd_timestamp hd_nonce hd_nonce_extra hd_chains hd_recipient hd_ancestors hd_side
       hd_delegate hd_next_delegate hd_stake_sig] in Hwf.
  repeat (apply andb_prop in Hwf; destruct Hwf as [Hwf ?]).
  unfold dec_header, enc_header.
  cbn [hd_version hd_height hd_timestamp hd_nonce hd_nonce_extra hd_chains hd_recipient hd_ancestors hd_side
       hd_delegate hd_next_delegate hd_stake_sig].
  rewrite <- !app_assoc.
  rt_step. apply N.ltb_lt in Hwf. bool_props.
  repeat rt_step.
  match goal with Hn : blen anc = _, Hh : hashes_ok anc = true |- _ => pose proof (hashes_decodes _ anc Hn Hh) as Hanc end.
  use_decodes Hanc.
  unfold bind at 1. cbn [check_err ret_err d_err].
  rewrite run_uvarint by (unfold two64; lia).
  rewrite int_count_ok_le by lia. cbn [negb].
  match goal with Hc : forallb wf_hid chains = true |- _ => pose proof (chains_decodes chains (forallb_Forall _ _ Hc)) as Hch end.
  use_decodes Hch.
  rewrite run_uvarint by (unfold two64; lia).
  rewrite int_count_ok_le by lia. cbn [negb].
  rt_step. rewrite nat_blen.
  assert (Hside : decodes (rep (length side) (check_err ;;; dec_commitment cfg)) (concat (map enc_commitment side)) side).
  { apply (decodes_rep _ enc_commitment (fun c => wf_commitment cfg c = true)); [|apply forallb_Forall; assumption].
    intros c Hc rest' a'. destruct (commitment_decodes c Hc rest' a') as [a'' E]. exists a''.
    unfold bind at 1. cbn [check_err ret_err d_err]. exact E. }
  use_decodes Hside.
  destruct (0 <? ver) eqn:Hv.
  - bool_props. rewrite <- !app_assoc. rewrite run_bind_assoc. rt_step.
    rewrite run_bind_assoc. rt_step. rewrite run_bind_assoc. rt_step. rt_step.
    eexists. apply run_ret_err.
  - bool_props. subst d nd. rt_step.
    match goal with Hb : bytes_eq sg _ = true |- _ => apply bytes_eq_eq in Hb; rename Hb into Hsg end.
    subst sg. cbn [app]. eexists. apply run_ret_err.
Qed.

Lemma block_decodes b : wf_block cfg b = true -> decodes (dec_block cfg) (enc_block b) b.
Proof.
  intros Hwf rest a. destruct okb_consts as (_ & _ & _ & _ & _ & Hmt).
  destruct b as [h diff cum txs]. unfold wf_block in Hwf. cbn [bl_header bl_diff bl_cumdiff bl_txs] in Hwf.
  do 5 (apply andb_prop in Hwf; destruct Hwf as [Hwf ?]).
  unfold dec_block, enc_block. cbn [bl_header bl_diff bl_cumdiff bl_txs].
  match goal with Hn : negb (diff =? 0) = true |- _ => apply negb_true_iff in Hn; rewrite Hn end. bool_props.
  rewrite <- !app_assoc.
  pose proof (header_decodes h Hwf) as Hh. use_decodes Hh.
  repeat rt_step.
  unfold bind at 1. cbn [check_err ret_err d_err].
  rewrite run_uvarint by lia.
  unfold bind at 1. cbn [check_err ret_err d_err].
  replace (max_tx_per_block cfg <? blen txs) with false by ltb_false.
  rt_step. rewrite nat_blen.
  assert (Htx : decodes (rep (length txs) (x <- read_array 32 ;; check_err ;;; ret x)) (concat txs) txs).
  { rewrite <- (map_id txs) at 2.
    apply (decodes_rep _ (fun x => x) (fun x => blen x = 32)).
    - intros v Hv rest' a'. rewrite run_array by assumption. exists a'. reflexivity.
    - match goal with Hh : hashes_ok txs = true |- _ => rename Hh into Hhs end.
      apply Forall_forall. intros x Hin. unfold hashes_ok in Hhs. rewrite forallb_forall in Hhs.
      specialize (Hhs x Hin). unfold lenb in Hhs. apply N.eqb_eq. exact Hhs. }
  use_decodes Htx. eexists. apply run_ret_err.
Qed.

Lemma blob_roundtrip m : wf_blob cfg m = true -> result_of (run (dec_blob cfg) (enc_blob m)) = ROk m.
Proof.
  intros Hwf. destruct okb_consts as (_ & _ & _ & Hmm & _).
  destruct m as [ts nonce ne chains]. unfold wf_blob in Hwf. cbn [mb_timestamp mb_nonce mb_nonce_extra mb_chains] in Hwf.
  repeat (apply andb_prop in Hwf; destruct Hwf as [Hwf ?]). bool_props.
  unfold run, init, dec_blob, enc_blob. cbn [mb_timestamp mb_nonce mb_nonce_extra mb_chains].
  rewrite <- ?app_assoc.
  rt_step. rt_step. rewrite run_u64 by (unfold two64; lia).
  rewrite (run_array 7) by reflexivity.
  unfold bind at 1. cbn [check_err ret_err d_err].
  replace (blen chains =? 0) with false by eqb_false.
  replace (max_mm_chains cfg <? blen chains) with false by ltb_false.
  cbn [orb]. change (bytes_eq ID_ENTROPY ID_ENTROPY) with true. cbn [negb].
  rt_step. rt_step. rewrite nat_blen.
  pose proof (decodes_rep dec_hid enc_hid _ hid_decodes chains (forallb_Forall _ _ H)) as Hch.
  rewrite <- (app_nil_r (concat (map enc_hid chains))). use_decodes Hch.
  reflexivity.
Qed.

Lemma full_tx_decodes hv t : wf_tx cfg hv t = true -> blen (enc_tx t) < two64 ->
  decodes (sl <- read_byte_slice ;; t' <- sub_des sl (dec_tx cfg hv) ;; alloc (SZ_TX + 2 * blen sl + 256) ;;; ret t')
          (add_byte_slice (enc_tx t)) t.
Proof.
  intros Hwf Hlen rest a. destruct okb_consts as (Hokc & _).
  unfold read_byte_slice. rewrite (run_byte_slice_gen true) by assumption.
  destruct (tx_decodes cfg Hokc hv t Hwf [] a) as [a' E]. rewrite app_nil_r in E.
  unfold bind at 1. unfold sub_des. cbn [d_alloc]. rewrite E. cbn [d_data d_err d_alloc].
  rewrite run_alloc. eexists. reflexivity.
Qed.

Lemma full_block_decodes b txs : wf_full_block cfg b txs = true ->
  decodes (dec_full_block cfg) (enc_full_block b txs)
          (mkblock (bl_header b) (bl_diff b) (bl_cumdiff b) [], txs).
Proof.
  intros Hwf rest a. destruct okb_consts as (_ & _ & _ & _ & _ & Hmt).
  destruct b as [h diff cum ids]. unfold wf_full_block in Hwf. cbn [bl_header bl_diff bl_cumdiff bl_txs] in Hwf.
  do 4 (apply andb_prop in Hwf; destruct Hwf as [Hwf ?]).
  unfold dec_full_block, enc_full_block. cbn [bl_header bl_diff bl_cumdiff bl_txs]. bool_props.
  rewrite <- !app_assoc.
  pose proof (header_decodes h Hwf) as Hh. use_decodes Hh.
  repeat rt_step. rewrite run_uvarint by lia.
  unfold bind at 1. cbn [check_err ret_err d_err].
  replace (max_tx_per_block cfg <? blen txs) with false by ltb_false.
  rt_step. rewrite nat_blen.
  match goal with Hf : forallb _ txs = true |- _ => rename Hf into Htxs end.
  pose proof (decodes_rep _ (fun t => add_byte_slice (enc_tx t))
                (fun t => wf_tx cfg (hf_v2 cfg <=? hd_height h) t = true /\ blen (enc_tx t) < two64)
                (fun t Ht => full_tx_decodes (hf_v2 cfg <=? hd_height h) t (proj1 Ht) (proj2 Ht)) txs) as Hrep.
  assert (Hall : Forall (fun t => wf_tx cfg (hf_v2 cfg <=? hd_height h) t = true /\ blen (enc_tx t) < two64) txs).
  { apply Forall_forall. intros t Hin. rewrite forallb_forall in Htxs. specialize (Htxs t Hin).
    apply andb_prop in Htxs. destruct Htxs as [H1' H2']. split; [exact H1'|]. unfold u64b in H2'. apply N.ltb_lt. exact H2'. }
  specialize (Hrep Hall). use_decodes Hrep. eexists. apply run_ret_err.
Qed.

(* ---- top-level statements *)
Theorem commitment_roundtrip c : wf_commitment cfg c = true -> result_of (run (dec_commitment cfg) (enc_commitment c)) = ROk c.
Proof. intros H. apply decodes_run, commitment_decodes, H. Qed.
Theorem header_roundtrip h : wf_header cfg h = true -> result_of (run (dec_header cfg) (enc_header h)) = ROk h.
Proof. intros H. apply decodes_run, header_decodes, H. Qed.
Theorem block_roundtrip b : wf_block cfg b = true -> result_of (run (dec_block cfg) (enc_block b)) = ROk b.
Proof. intros H. apply decodes_run, block_decodes, H. Qed.
Theorem full_block_roundtrip b txs : wf_full_block cfg b txs = true ->
  result_of (run (dec_full_block cfg) (enc_full_block b txs)) = ROk (mkblock (bl_header b) (bl_diff b) (bl_cumdiff b) [], txs).
Proof. intros H. apply decodes_run, full_block_decodes, H. Qed.
Theorem block_zero_diff_encodes_nil b : bl_diff b = 0 -> enc_block b = [].
Proof. intros H. unfold enc_block. rewrite H. reflexivity. Qed.
Theorem block_enc_injective b1 b2 : wf_block cfg b1 = true -> wf_block cfg b2 = true -> enc_block b1 = enc_block b2 -> b1 = b2.
Proof. apply (enc_injective (dec_block cfg) enc_block (fun b => wf_block cfg b = true)). apply block_roundtrip. Qed.
Theorem header_enc_injective h1 h2 : wf_header cfg h1 = true -> wf_header cfg h2 = true -> enc_header h1 = enc_header h2 -> h1 = h2.
Proof. apply (enc_injective (dec_header cfg) enc_header (fun h => wf_header cfg h = true)). apply header_roundtrip. Qed.
Theorem commitment_enc_injective c1 c2 : wf_commitment cfg c1 = true -> wf_commitment cfg c2 = true -> enc_commitment c1 = enc_commitment c2 -> c1 = c2.
Proof. apply (enc_injective (dec_commitment cfg) enc_commitment (fun c => wf_commitment cfg c = true)). apply commitment_roundtrip. Qed.

(* The receiver of the wire form rebuilds the sender's stored block: with txid = hash of the re-encoding of the decoded
   transaction (Go: tx.Hash() = BLAKE3(tx.Serialize())), for any hash function *)
Theorem full_block_wire (txid : list N -> list N) b txs :
  wf_full_block cfg b txs = true -> bl_txs b = map (fun t => txid (enc_tx t)) txs ->
  exists b' txs', result_of (run (dec_full_block cfg) (enc_full_block b txs)) = ROk (b', txs')
    /\ mkblock (bl_header b') (bl_diff b') (bl_cumdiff b') (map (fun t => txid (enc_tx t)) txs') = b.
Proof.
  intros Hwf Hids. eexists. eexists. split; [apply full_block_roundtrip; exact Hwf|].
  cbn [bl_header bl_diff bl_cumdiff]. rewrite <- Hids. destruct b; reflexivity.
Qed.

End BlockProofs.

(* packets: no configuration involved except the signature size *)
Lemma pstats_decodes p : wf_pstats p = true -> decodes dec_pstats (enc_pstats p) p.
Proof.
  intros Hwf rest a. destruct p as [h d hash]. unfold wf_pstats in Hwf. cbn [ps_height ps_cumdiff ps_hash] in Hwf. bool_props.
  unfold dec_pstats, enc_pstats. cbn [ps_height ps_cumdiff ps_hash].
  rewrite <- !app_assoc. repeat rt_step. eexists. apply run_ret_err.
Qed.
Lemma pstats_roundtrip p : wf_pstats p = true -> result_of (run dec_pstats (enc_pstats p)) = ROk p.
Proof. intros H. apply decodes_run, pstats_decodes, H. Qed.

Lemma pblockreq_decodes p : wf_pblockreq p = true -> decodes dec_pblockreq (enc_pblockreq p) p.
Proof.
  intros Hwf rest a. destruct p as [h hash c]. unfold wf_pblockreq in Hwf. cbn [br_height br_hash br_count] in Hwf.
  apply andb_prop in Hwf. destruct Hwf as [Hh Hwf]. bool_props.
  unfold dec_pblockreq, enc_pblockreq. cbn [br_height br_hash br_count].
  rewrite <- app_assoc. rt_step. destruct (h =? 0) eqn:E.
  - bool_props. subst c. rt_step. eexists. apply run_ret_err.
  - apply andb_prop in Hwf. destruct Hwf as [Hz Hc]. apply bytes_eq_eq in Hz. subst hash.
    rt_step. eexists. apply run_ret_err.
Qed.
Lemma pblockreq_roundtrip p : wf_pblockreq p = true -> result_of (run dec_pblockreq (enc_pblockreq p)) = ROk p.
Proof. intros H. apply decodes_run, pblockreq_decodes, H. Qed.

Lemma pstakesig_decodes cfg p : wf_pstakesig cfg p = true -> decodes (dec_pstakesig cfg) (enc_pstakesig p) p.
Proof.
  intros Hwf rest a. destruct p as [d h s]. unfold wf_pstakesig in Hwf. cbn [ss_delegate ss_hash ss_signature] in Hwf. bool_props.
  unfold dec_pstakesig, enc_pstakesig. cbn [ss_delegate ss_hash ss_signature].
  rewrite <- !app_assoc. repeat rt_step. eexists. apply run_ret_err.
Qed.
Lemma pstakesig_roundtrip cfg p : wf_pstakesig cfg p = true ->
  result_of (run (dec_pstakesig cfg) (enc_pstakesig p)) = ROk p.
Proof. intros H. apply decodes_run, pstakesig_decodes, H. Qed.

Lemma handshake_roundtrip h : wf_handshake h = true -> result_of (run dec_handshake (enc_handshake h)) = ROk h.
Proof.
  intros Hwf. destruct h as [v pv id port]. unfold wf_handshake in Hwf.
  cbn [hs_version hs_p2p_version hs_peer_id hs_port] in Hwf. bool_props.
  unfold run, init, dec_handshake, enc_handshake. cbn [hs_version hs_p2p_version hs_peer_id hs_port].
  rewrite <- ?app_assoc. rt_step. rt_step. rt_step. rewrite <- (app_nil_r (add_u16 port)). rt_step. reflexivity.
Qed.
