(* The node's own height field [top_h] (stats.TopHeight) against the height of the block [top].

   REFUTED: "top_h n = height of the block top n" does not hold on every reachable state.  stats.Tips is keyed by the
   hash of the block that opened the alternative tip; addAltchainBlock looks the new block's PARENT up as a key and
   then does Height++ on the entry, although the entry may already point at a descendant of that key block.  A second
   child of the key block therefore gets the entry's height + 1 instead of its own height, and a reorganisation to it
   copies that height into stats.TopHeight ([top_h_not_height_of_top] below: five accepted deliveries).

   PROVED: the field never under-reports: on every reachable state height(top) <= top_h, and the same for every
   alternative tip entry (its recorded height is at least the height of the block it names and of its key block). *)
From Virel Require Import Lib.Config Lib.U64 Lib.AMap Model.Ledger Model.Node Proofs.AMapLemmas Proofs.Conservation
  Proofs.NodeBasics Proofs.ForkChoice Proofs.Restart Proofs.ChainInv Proofs.ChainRun Gen.Params.
Open Scope N_scope.

Section ChainHeights.
Variable cfg : config.
Variable genesis_addr team_key : N.
Variable gh : N.

Definition HInv (n : node) : Prop :=
  top_h n < N.of_nat (length (blocks n)) /\
  (forall t, get_block n (top n) = Some t -> b_height t <= top_h n) /\
  (forall k tp, In (k, tp) (tips n) ->
     (exists kb, get_block n k = Some kb /\ b_height kb <= t_height tp) /\
     (exists tb, get_block n (t_hash tp) = Some tb /\ b_height tb <= t_height tp) /\
     t_height tp < N.of_nat (length (blocks n))).

Lemma add_block_HInv n b n' amb :
  CInv gh n -> FInv n -> HInv n -> N.of_nat (length (blocks n)) < two64 ->
  add_block cfg genesis_addr n b = Ok (n', amb) -> HInv n'.
Proof.
  intros (HB & HT) (Hts & Htips & Hmax) (Hh1 & Hh2 & Hh3) Hlen H. unfold add_block in H.
  guard_inv H. opt_inv H. rename x into prev. bind_inv H. destruct a.
  assert (Hnew : nget (blocks n) (b_hash b) = None).
  { unfold get_block in G. destruct (nget (blocks n) (b_hash b)); [discriminate|reflexivity]. }
  unfold get_block in *.
  pose proof (check_block_height _ _ _ _ E0) as Hh.
  assert (Hprevlt : b_height prev < N.of_nat (length (blocks n))) by (destruct HB as (_ & _ & _ & Hb); apply (Hb _ _ E)).
  assert (Hh' : b_height b = b_height prev + 1) by (rewrite wadd_small in Hh; lia).
  pose proof (BInv_insert gh _ _ _ HB Hnew E Hh') as HB1.
  assert (Hlen1 : length (nset (blocks n) (b_hash b) b) = S (length (blocks n))) by (apply length_nset_fresh; exact Hnew).
  assert (Hkeep : forall h x, nget (blocks n) h = Some x -> nget (nset (blocks n) (b_hash b) b) h = Some x)
    by (intros h x; apply nget_nset_keep; exact Hnew).
  destruct (N.eqb_spec (prev_hash b) (top n)) as [Emain|Ealt].
  - (* extension of the main chain *)
    bind_inv H. injection H as <- <-. unfold add_mainchain_block in E1. bind_inv E1. injection E1 as <-.
    apply apply_block_node_eq in E2. destruct E2 as (l & ->).
    unfold HInv, get_block. cbn [blocks topo top top_h tips set_topo set_blocks set_top set_ldg].
    rewrite Hlen1. split; [lia|]. split.
    + intros t. rewrite nget_nset_same. intros [= <-]. lia.
    + intros k tp Hin. destruct (Hh3 k tp Hin) as ((kb & Hkb & Hkh) & (tb & Htb & Htbh) & Hlt).
      split; [exists kb; split; [apply Hkeep; exact Hkb|exact Hkh]|].
      split; [exists tb; split; [apply Hkeep; exact Htb|exact Htbh]|lia].
  - (* alternative chain *)
    unfold add_altchain_block in H.
    set (tips' := match nget (tips n) (prev_hash b) with Some t => _ | None => _ end) in H.
    assert (Htips' : forall k tp, In (k, tp) tips' ->
              (exists kb, nget (nset (blocks n) (b_hash b) b) k = Some kb /\ b_height kb <= t_height tp) /\
              (exists tb, nget (nset (blocks n) (b_hash b) b) (t_hash tp) = Some tb /\ b_height tb <= t_height tp) /\
              t_height tp < N.of_nat (S (length (blocks n)))).
    { intros k tp Hin. apply alt_tips_cases in Hin.
      destruct Hin as [(Eh & _ & [(t & Et & -> & Eht)|(Et & -> & Eht)])|Hin].
      - apply nget_in in Et. destruct (Hh3 _ _ Et) as ((kb & Hkb & Hkh) & _ & Hlt).
        rewrite E in Hkb. injection Hkb as <-. rewrite wadd_small in Eht by lia.
        split; [exists prev; split; [apply Hkeep; exact E|lia]|].
        split; [exists b; split; [rewrite Eh; apply nget_nset_same|lia]|lia].
      - split; [exists b; split; [apply nget_nset_same|lia]|].
        split; [exists b; split; [rewrite Eh; apply nget_nset_same|lia]|lia].
      - destruct (Hh3 k tp Hin) as ((kb & Hkb & Hkh) & (tb & Htb & Htbh) & Hlt).
        split; [exists kb; split; [apply Hkeep; exact Hkb|exact Hkh]|].
        split; [exists tb; split; [apply Hkeep; exact Htb|exact Htbh]|lia]. }
    apply (check_reorgs_struct cfg genesis_addr gh) in H; cbn [blocks topo top top_h top_cd tips set_blocks set_tips] in *.
    + destruct H as (Fb & HT' & Hcase). unfold HInv, get_block. rewrite Fb, Hlen1.
      destruct Hcase as [->|(k & alt & Hin & Hlt & Etop & Eh & _ & Etips)];
        cbn [blocks topo top top_h top_cd tips set_blocks set_tips].
      * split; [lia|]. split; [|exact Htips'].
        intros t Ht. destruct Hts as (t0 & Ht0 & _). unfold get_block in Ht0.
        rewrite (Hkeep _ _ Ht0) in Ht. injection Ht as <-. apply Hh2. exact Ht0.
      * rewrite Etop, Eh, Etips. destruct (Htips' k alt Hin) as (_ & (tb & Htb & Htbh) & Hlt').
        split; [exact Hlt'|]. split; [intros t Ht; rewrite Htb in Ht; injection Ht as <-; exact Htbh|].
        intros k0 tp Hin0. apply in_nset in Hin0. destruct Hin0 as [[= -> ->]|Hin0].
        -- cbn [t_hash t_height]. destruct Hts as (t0 & Ht0 & _). unfold get_block in Ht0.
           pose proof (Hh2 _ Ht0) as Hle.
           split; [exists t0; split; [apply Hkeep; exact Ht0|exact Hle]|].
           split; [exists t0; split; [apply Hkeep; exact Ht0|exact Hle]|lia].
        -- apply in_ndel in Hin0. apply Htips'. exact Hin0.
    + exact HB1.
    + apply TInv_insert_block; assumption.
    + intros k tp Hin Hlt. apply alt_tips_cases in Hin. destruct Hin as [(Eh & _)|Hin].
      * rewrite Eh. intros Egh. destruct HB as (_ & (g & Hg & _) & _). rewrite Egh in Hnew. congruence.
      * exfalso. destruct (Htips k tp Hin) as (tb & Htb & Hcd). pose proof (Hmax _ _ Htb). lia.
Qed.

Lemma deliver_HInv n b now n' out amb :
  CInv gh n -> FInv n -> HInv n -> N.of_nat (length (blocks n)) < two64 ->
  deliver cfg genesis_addr team_key n b now = (n', out, amb) -> HInv n'.
Proof.
  intros HC HF HH Hlen H. unfold deliver in H.
  destruct (prevalidate_block cfg team_key b now); try (injection H as <- _ _; exact HH).
  destruct (add_block cfg genesis_addr n b) as [[n1 amb1]|c|c] eqn:E; try (injection H as <- _ _; exact HH).
  injection H as <- _ _. eapply add_block_HInv; eassumption.
Qed.

Lemma run_HInv ops : forall n,
  CInv gh n -> FInv n -> HInv n -> N.of_nat (length (blocks n) + length ops) <= two64 ->
  HInv (run cfg genesis_addr team_key n ops).
Proof.
  induction ops as [|[b now] ops IH]; intros n HC HF HH Hlen; cbn [run fold_left fst snd]; [exact HH|].
  destruct (deliver cfg genesis_addr team_key n b now) as [[n1 out] amb] eqn:E. cbn [fst snd].
  cbn [length] in Hlen. apply IH.
  - eapply deliver_CInv; [exact HC|exact HF| |exact E]. lia.
  - eapply deliver_inv; eassumption.
  - eapply deliver_HInv; [exact HC|exact HF|exact HH| |exact E]. lia.
  - apply deliver_len in E. lia.
Qed.

End ChainHeights.

Section Heights.
Variable cfg : config.
Variable genesis_addr team_key : N.

Lemma node0_HInv g n0 : node0 cfg genesis_addr g = Ok n0 -> b_height g = 0 -> HInv n0.
Proof.
  unfold node0. intros H Hg0. apply apply_block_node_eq in H. destruct H as (l & ->).
  unfold HInv, get_block. cbn [blocks top top_h tips set_ldg length]. split; [lia|]. split.
  - intros t. unfold nget. cbn. rewrite N.eqb_refl. intros [= <-]. lia.
  - intros k tp [].
Qed.

(* the height field never under-reports the height of the tip *)
Theorem top_height_field_lower_bound g n0 ops :
  node0 cfg genesis_addr g = Ok n0 -> b_height g = 0 -> b_cd g = b_diff g ->
  N.of_nat (length ops) < two64 - 1 ->
  let n := run cfg genesis_addr team_key n0 ops in
  exists t, get_block n (top n) = Some t /\ b_height t <= top_h n.
Proof.
  intros H0 Hg0 Hcd Hlen n.
  assert (Hl : N.of_nat (length (blocks n0) + length ops) <= two64).
  { assert (Hl : length (blocks n0) = 1%nat).
    { unfold node0 in H0. apply apply_block_node_eq in H0. destruct H0 as (l & ->). reflexivity. }
    rewrite Hl. unfold two64 in *. lia. }
  pose proof (node0_CInv _ _ team_key _ _ H0 Hg0) as HC0. pose proof (node0_inv _ _ _ _ H0 Hcd) as HF0.
  pose proof (run_HInv cfg genesis_addr team_key (b_hash g) ops n0 HC0 HF0 (node0_HInv _ _ H0 Hg0) Hl) as (_ & HH & _).
  destruct (run_inv cfg genesis_addr team_key ops n0 HF0) as ((t & Ht & _) & _).
  exists t. split; [exact Ht|]. apply HH. exact Ht.
Qed.

End Heights.

(* ------------------------------------------------------------------ the refutation of equality *)
(* verification configuration; G - A1 - A2 is the main chain (cumulative difficulty 9); B (child of G) and C (child of B)
   form an alternative chain of the same weight: Tips[B] = (C, height 2).  D is a second child of B carrying one side
   block (weight 11): the entry Tips[B] becomes (D, height 3) and the reorganisation to D sets top_h = 3, although D
   has height 2.  All five deliveries are accepted. *)
Definition w_commit (e : N) (anc : list N) : commit := mkcommit e e anc 0 0 false.
Definition w_genesis : block := genesis_block cfg_verifnet 7 1 123 (w_commit 1 [0; 0; 0]).
Definition w_block (h ht : N) (anc : list N) (sides : list commit) (cd : N) : block :=
  mkblock h 0 ht 0 anc sides 7 0 0 true 0 0 4 cd [] [] 0 0 (w_commit h anc) false.
Definition w_ops : list (block * N) :=
  [ (w_block 2 1 [1; 0; 0] [] 5, 0);                            (* A1 *)
    (w_block 3 2 [2; 1; 0] [] 9, 0);                            (* A2 *)
    (w_block 4 1 [1; 0; 0] [] 5, 0);                            (* B  *)
    (w_block 5 2 [4; 1; 0] [] 9, 0);                            (* C  *)
    (w_block 6 2 [4; 1; 0] [w_commit 2 [1; 0; 0]] 11, 0) ].     (* D  *)

Definition w_outcomes (n : node) (ops : list (block * N)) : list outcome :=
  fst (fold_left (fun acc op => let '(r, out, _) := deliver cfg_verifnet 7 0 (snd acc) (fst op) (snd op) in
                                (fst acc ++ [out], r)) ops ([], n)).

Theorem top_h_not_height_of_top :
  exists n0, node0 cfg_verifnet 7 w_genesis = Ok n0 /\ b_height w_genesis = 0 /\ b_cd w_genesis = b_diff w_genesis /\
    w_outcomes n0 w_ops = [Accepted; Accepted; Accepted; Accepted; Accepted] /\
    let n := run cfg_verifnet 7 0 n0 w_ops in
    exists t, get_block n (top n) = Some t /\ b_height t = 2 /\ top_h n = 3 /\ topo n = [(0, 1); (1, 4); (2, 6)].
Proof.
  eexists. split; [vm_compute; reflexivity|]. split; [reflexivity|]. split; [reflexivity|].
  split; [vm_compute; reflexivity|]. cbn zeta. eexists. split; [vm_compute; reflexivity|].
  split; [reflexivity|]. split; vm_compute; reflexivity.
Qed.
