(* The node's own height field [top_h] (stats.TopHeight) is the height of the block [top] on every reachable state,
   and every alternative tip entry is filed under the hash of the block it names with that block's height.

   History: for the code before /repo 82cbb1b this was REFUTED.  stats.Tips was keyed by the hash of the block that
   opened the alternative tip; addAltchainBlock looked the new block's parent up as a key and did Height++ on the
   entry although the entry could already name a descendant of that key block; a second child of the key block got the
   entry's height + 1 and a reorganisation to it copied that into stats.TopHeight (found while proving this file's
   invariant: the induction step for add_altchain_block needed height(key block) = recorded height, which the stale key
   breaks; witness history in Proofs/ChainExamples.v, [stale_key_history_example], now with the correct height). *)
From Virel Require Import Lib.Config Lib.U64 Lib.AMap Model.Ledger Model.Node Spec.Chain Proofs.AMapLemmas
  Proofs.Conservation Proofs.NodeBasics Proofs.ForkChoice Proofs.Restart Proofs.ChainInv Proofs.ChainRun.
Open Scope N_scope.

Section ChainHeights.
Variable cfg : config.
Variable genesis_addr team_key : N.
Variable gh : N.

Definition tips_heights (n : node) : Prop :=
  forall k tp, In (k, tp) (tips n) ->
    k = t_hash tp /\ exists tb, get_block n (t_hash tp) = Some tb /\ b_height tb = t_height tp.

Definition HInv (n : node) : Prop :=
  (forall t, get_block n (top n) = Some t -> b_height t = top_h n) /\ tips_heights n.

Lemma add_block_HInv n b n' amb :
  CInv gh n -> FInv n -> HInv n -> N.of_nat (length (blocks n)) < two64 ->
  add_block cfg genesis_addr n b = Ok (n', amb) -> HInv n'.
Proof.
  intros (HB & HT) (Hts & Htips & Hmax) (Hh2 & Hh3) Hlen H. unfold add_block in H.
  guard_inv H. opt_inv H. rename x into prev. bind_inv H. destruct a.
  assert (Hnew : nget (blocks n) (b_hash b) = None).
  { unfold get_block in G. destruct (nget (blocks n) (b_hash b)); [discriminate|reflexivity]. }
  unfold tips_heights, get_block in *.
  pose proof (check_block_height _ _ _ _ E0) as Hh.
  assert (Hprevlt : b_height prev < N.of_nat (length (blocks n))) by (destruct HB as (_ & _ & _ & Hb); apply (Hb _ _ E)).
  assert (Hh' : b_height b = b_height prev + 1) by (rewrite wadd_small in Hh; lia).
  pose proof (BInv_insert gh _ _ _ HB Hnew E Hh') as HB1.
  assert (Hkeep : forall h x, nget (blocks n) h = Some x -> nget (nset (blocks n) (b_hash b) b) h = Some x)
    by (intros h x; apply nget_nset_keep; exact Hnew).
  destruct (N.eqb_spec (prev_hash b) (top n)) as [Emain|Ealt].
  - (* extension of the main chain *)
    bind_inv H. injection H as <- <-. unfold add_mainchain_block in E1. bind_inv E1. injection E1 as <-.
    apply apply_block_node_eq in E2. destruct E2 as (l & ->).
    unfold HInv, tips_heights, get_block. cbn [blocks topo top top_h tips set_topo set_blocks set_top set_ldg].
    split.
    + intros t. rewrite nget_nset_same. intros [= <-]. reflexivity.
    + intros k tp Hin. destruct (Hh3 k tp Hin) as (Ek & tb & Htb & Htbh).
      split; [exact Ek|]. exists tb. split; [apply Hkeep; exact Htb|exact Htbh].
  - (* alternative chain *)
    unfold add_altchain_block in H.
    set (tips' := match nget (tips n) (prev_hash b) with Some t => _ | None => _ end) in H.
    assert (Htips' : forall k tp, In (k, tp) tips' ->
              k = t_hash tp /\ exists tb, nget (nset (blocks n) (b_hash b) b) (t_hash tp) = Some tb /\ b_height tb = t_height tp).
    { intros k tp Hin. apply alt_tips_cases in Hin. destruct Hin as [(-> & ->)|Hin]; cbn [t_hash t_height].
      - split; [reflexivity|]. exists b. split; [apply nget_nset_same|reflexivity].
      - destruct (Hh3 k tp Hin) as (Ek & tb & Htb & Htbh).
        split; [exact Ek|]. exists tb. split; [apply Hkeep; exact Htb|exact Htbh]. }
    apply (check_reorgs_struct cfg genesis_addr gh) in H; cbn [blocks topo top top_h top_cd tips set_blocks set_tips] in *.
    + destruct H as (Fb & HT' & Hcase). unfold HInv, tips_heights, get_block. rewrite Fb.
      destruct Hts as (t0 & Ht0 & _). unfold get_block in Ht0. pose proof (Hh2 _ Ht0) as Ht0h.
      destruct Hcase as [->|(k & alt & Hin & Hlt & Etop & Eh & _ & Etips)];
        cbn [blocks topo top top_h top_cd tips set_blocks set_tips].
      * split; [|exact Htips'].
        intros t Ht. rewrite (Hkeep _ _ Ht0) in Ht. injection Ht as <-. exact Ht0h.
      * rewrite Etop, Eh, Etips. destruct (Htips' k alt Hin) as (_ & tb & Htb & Htbh).
        split; [intros t Ht; rewrite Htb in Ht; injection Ht as <-; exact Htbh|].
        intros k0 tp Hin0. apply in_nset in Hin0. destruct Hin0 as [[= -> ->]|Hin0].
        -- cbn [t_hash t_height]. split; [reflexivity|]. exists t0. split; [apply Hkeep; exact Ht0|exact Ht0h].
        -- apply in_ndel in Hin0. apply Htips'. exact Hin0.
    + exact HB1.
    + apply TInv_insert_block; assumption.
    + intros k tp Hin Hlt. apply alt_tips_cases in Hin. destruct Hin as [(_ & ->)|Hin].
      * cbn [t_hash]. intros Egh. destruct HB as (_ & (g & Hg & _) & _). rewrite Egh in Hnew. congruence.
      * exfalso. destruct (Htips k tp Hin) as (tb & Htb & Hcd). pose proof (Hmax _ _ Htb). lia.
Qed.

Lemma deliver_HInv n b now n' out amb :
  CInv gh n -> FInv n -> HInv n -> N.of_nat (length (blocks n)) < two64 ->
  deliver cfg genesis_addr team_key n b now = (n', out, amb) -> HInv n'.
Proof.
  intros HC HF HH Hlen H. unfold deliver in H.
  destruct (prevalidate_block cfg team_key b now); try (injection H as <- _ _; exact HH).
  destruct (add_block cfg genesis_addr n b) as [[n1 amb1]|c|c] eqn:E; try (injection H as <- _ _; exact HH).
  injection H as <- _ _. eapply add_block_HInv; eassumption.
Qed.

Lemma run_all ops : forall n,
  CInv gh n -> FInv n -> HInv n -> N.of_nat (length (blocks n) + length ops) <= two64 ->
  CInv gh (run cfg genesis_addr team_key n ops) /\ FInv (run cfg genesis_addr team_key n ops) /\
  HInv (run cfg genesis_addr team_key n ops).
Proof.
  induction ops as [|[b now] ops IH]; intros n HC HF HH Hlen; cbn [run fold_left fst snd]; [split; [|split]; assumption|].
  destruct (deliver cfg genesis_addr team_key n b now) as [[n1 out] amb] eqn:E. cbn [fst snd].
  cbn [length] in Hlen. apply IH.
  - eapply deliver_CInv; [exact HC|exact HF| |exact E]. lia.
  - eapply deliver_inv; eassumption.
  - eapply deliver_HInv; [exact HC|exact HF|exact HH| |exact E]. lia.
  - apply deliver_len in E. lia.
Qed.

(* the three invariants together give the specification-level statement *)
Lemma invariants_chain_structure n : CInv gh n -> FInv n -> HInv n -> chain_structure gh n /\ tips_exact n.
Proof.
  intros ((Hk & Hg & Hp & _) & (_ & t & Ht & Htop & Habove & H0 & Hch)) ((t' & Ht' & Hcd) & Htips & _) (Hh & Hth).
  unfold get_block in *. rewrite Ht in Ht'. injection Ht' as <-. pose proof (Hh _ Ht) as Eh.
  split.
  - unfold chain_structure, get_block, get_topo. rewrite <- Eh.
    split; [exact Hk|]. split; [exact Hg|]. split; [exact Hp|].
    split; [exists t; repeat split; assumption|]. repeat split; assumption.
  - intros k tp Hin. destruct (Hth k tp Hin) as (Ek & tb & Htb & Htbh). split; [exact Ek|].
    destruct (Htips k tp Hin) as (tb' & Htb' & Hcd'). unfold get_block in *. rewrite Htb in Htb'. injection Htb' as <-.
    exists tb. repeat split; assumption.
Qed.

End ChainHeights.

Section Reachable.
Variable cfg : config.
Variable genesis_addr team_key : N.

Lemma node0_HInv g n0 : node0 cfg genesis_addr g = Ok n0 -> b_height g = 0 -> HInv n0.
Proof.
  unfold node0. intros H Hg0. apply apply_block_node_eq in H. destruct H as (l & ->).
  unfold HInv, tips_heights, get_block. cbn [blocks top top_h tips set_ldg]. split.
  - intros t. unfold nget. cbn. rewrite N.eqb_refl. intros [= <-]. exact Hg0.
  - intros k tp [].
Qed.

Lemma reachable_invariants g n0 ops :
  node0 cfg genesis_addr g = Ok n0 -> b_height g = 0 -> b_cd g = b_diff g ->
  N.of_nat (length ops) < two64 - 1 ->
  let n := run cfg genesis_addr team_key n0 ops in CInv (b_hash g) n /\ FInv n /\ HInv n.
Proof.
  intros H0 Hg0 Hcd Hlen n.
  apply (run_all cfg genesis_addr team_key (b_hash g) ops n0).
  - eapply node0_CInv; eassumption.
  - eapply node0_inv; eassumption.
  - eapply node0_HInv; eassumption.
  - assert (Hl : length (blocks n0) = 1%nat).
    { unfold node0 in H0. apply apply_block_node_eq in H0. destruct H0 as (l & ->). reflexivity. }
    rewrite Hl. unfold two64 in *. lia.
Qed.

Theorem chain_structure_always g n0 ops :
  node0 cfg genesis_addr g = Ok n0 -> b_height g = 0 -> b_cd g = b_diff g ->
  N.of_nat (length ops) < two64 - 1 ->
  chain_structure (b_hash g) (run cfg genesis_addr team_key n0 ops).
Proof.
  intros H0 Hg0 Hcd Hlen. destruct (reachable_invariants g n0 ops H0 Hg0 Hcd Hlen) as (HC & HF & HH).
  apply (invariants_chain_structure _ _ HC HF HH).
Qed.

(* clause (c) alone: the tip fields are the height and the cumulative difficulty of the stored block [top] *)
Theorem top_height_is_tip_height g n0 ops :
  node0 cfg genesis_addr g = Ok n0 -> b_height g = 0 -> b_cd g = b_diff g ->
  N.of_nat (length ops) < two64 - 1 ->
  let n := run cfg genesis_addr team_key n0 ops in
  exists t, get_block n (top n) = Some t /\ b_height t = top_h n /\ b_cd t = top_cd n.
Proof.
  intros H0 Hg0 Hcd Hlen n. destruct (chain_structure_always g n0 ops H0 Hg0 Hcd Hlen) as (_ & _ & _ & H & _). exact H.
Qed.

Theorem tips_always_exact g n0 ops :
  node0 cfg genesis_addr g = Ok n0 -> b_height g = 0 -> b_cd g = b_diff g ->
  N.of_nat (length ops) < two64 - 1 ->
  tips_exact (run cfg genesis_addr team_key n0 ops).
Proof.
  intros H0 Hg0 Hcd Hlen. destruct (reachable_invariants g n0 ops H0 Hg0 Hcd Hlen) as (HC & HF & HH).
  apply (invariants_chain_structure _ _ HC HF HH).
Qed.

(* the height-index clauses alone (property C17): entries exactly for the heights 0..top_h *)
Theorem height_index_is_main_chain g n0 ops :
  node0 cfg genesis_addr g = Ok n0 -> b_height g = 0 -> b_cd g = b_diff g ->
  N.of_nat (length ops) < two64 - 1 ->
  let n := run cfg genesis_addr team_key n0 ops in
  get_topo n (top_h n) = Some (top n) /\
  get_topo n 0 = Some (b_hash g) /\
  (forall ht, top_h n < ht -> get_topo n ht = None) /\
  (forall ht, ht <= top_h n ->
     exists y yb, get_topo n ht = Some y /\ get_block n y = Some yb /\ b_height yb = ht /\
                  (0 < ht -> get_topo n (ht - 1) = Some (prev_hash yb))).
Proof.
  intros H0 Hg0 Hcd Hlen n. destruct (chain_structure_always g n0 ops H0 Hg0 Hcd Hlen) as (_ & _ & _ & _ & H). exact H.
Qed.

(* (d) following prev_hash from the tip for top_h steps meets index[top_h], ..., index[1], index[0] *)
Theorem walk_from_top_is_index g n0 ops :
  node0 cfg genesis_addr g = Ok n0 -> b_height g = 0 -> b_cd g = b_diff g ->
  N.of_nat (length ops) < two64 - 1 ->
  let n := run cfg genesis_addr team_key n0 ops in
  map (get_topo n) (heights_down (N.to_nat (top_h n))) = map Some (walk (blocks n) (N.to_nat (top_h n)) (top n)).
Proof.
  intros H0 Hg0 Hcd Hlen n. destruct (reachable_invariants g n0 ops H0 Hg0 Hcd Hlen) as ((HB & HT) & HF & (Hh & _)).
  fold n in HB, HT, HF, Hh. pose proof HT as (_ & t & Ht & Htop & _).
  rewrite <- (Hh t Ht). unfold get_topo.
  apply (walk_index (b_hash g) _ _ (top n) t HT Ht).
  - lia.
  - rewrite N2Nat.id. exact Htop.
Qed.

End Reachable.
