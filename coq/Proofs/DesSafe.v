(* No-panic and allocation reasoning over the decoder monad.

   [safe L m P c]: started in any Des state whose remaining data has at most L bytes (any error flag, any allocation
   so far), the decoder m does not panic, allocates at most c more bytes, never grows the remaining data, and a
   returned value satisfies P. *)
From Virel Require Import Lib.U64 Model.Des Proofs.Des.
Open Scope N_scope.

Definition safe (L : N) {A} (m : M A) (P : A -> Prop) (c : N) : Prop :=
  forall s, blen (d_data s) <= L ->
    match m s with
    | MOk a s' => P a /\ d_alloc s' <= d_alloc s + c /\ blen (d_data s') <= blen (d_data s)
    | MErr n => n <= d_alloc s + c
    | MPanic => False
    end.

Lemma safe_weaken L {A} (m : M A) (P P' : A -> Prop) c c' :
  safe L m P c -> (forall a, P a -> P' a) -> c <= c' -> safe L m P' c'.
Proof.
  intros H HP Hc s Hs. specialize (H s Hs). destruct (m s) as [a s'| |]; [|lia|assumption].
  destruct H as (H1 & H2 & H3). split; [auto|]. split; [lia|assumption].
Qed.

Lemma safe_ret L {A} (a : A) (P : A -> Prop) c : P a -> safe L (ret a) P c.
Proof. intros H s Hs. cbn. split; [assumption|]. split; lia. Qed.

Lemma safe_fail L {A} (P : A -> Prop) c : safe L (@fail A) P c.
Proof. intros s Hs. cbn. lia. Qed.

Lemma safe_bind L {A Bt} (m : M A) (f : A -> M Bt) (P : A -> Prop) (Q : Bt -> Prop) c1 c2 c :
  c1 + c2 <= c -> safe L m P c1 -> (forall a, P a -> safe L (f a) Q c2) -> safe L (bind m f) Q c.
Proof.
  intros Hc Hm Hf s Hs. unfold bind. specialize (Hm s Hs). destruct (m s) as [a s'| |]; [|lia|assumption].
  destruct Hm as (Ha & Hal & Hl). specialize (Hf a Ha s' ltac:(lia)). destruct (f a s') as [b s''| |]; [|lia|assumption].
  destruct Hf as (Hb & Hal2 & Hl2). split; [assumption|]. split; lia.
Qed.

Lemma safe_ret_err L {A} (a : A) (P : A -> Prop) c : P a -> safe L (ret_err a) P c.
Proof. intros H s Hs. unfold ret_err. destruct (d_err s); cbn; [lia|]. split; [assumption|]. split; lia. Qed.

Lemma safe_check_err L c : safe L check_err (fun _ => True) c.
Proof. apply safe_ret_err. exact I. Qed.

Lemma safe_has_err L c : safe L has_err (fun _ => True) c.
Proof. intros s Hs. cbn. split; [exact I|]. split; lia. Qed.

Lemma safe_remaining L c : safe L remaining (fun r => blen r <= L) c.
Proof. intros s Hs. cbn. split; [assumption|]. split; lia. Qed.

Lemma safe_alloc L n c : n <= c -> safe L (alloc n) (fun _ => True) c.
Proof. intros H s Hs. cbn. split; [exact I|]. split; lia. Qed.

Lemma split_at_len l n a b : split_at l n = Some (a, b) -> blen b <= blen l /\ blen a = n /\ blen a <= blen l.
Proof. intros H. destruct (split_at_some _ _ _ _ H) as [-> Hn]. rewrite blen_app. lia. Qed.

Lemma safe_to_array L n b (c : N) : n <= blen b -> safe L (to_array n b) (fun a => blen a = n) c.
Proof.
  intros Hn s Hs. unfold to_array. destruct (split_at_enough b n Hn) as (a & r & E). rewrite E.
  destruct (split_at_len _ _ _ _ E) as (_ & Ha & _). split; [assumption|]. split; lia.
Qed.

Lemma safe_read_u8 L c : safe L read_u8 (fun _ => True) c.
Proof.
  intros s Hs. unfold read_u8. destruct (d_err s); [cbn; split; [exact I|split; lia]|].
  destruct (d_data s) as [|b r] eqn:E; cbn [d_alloc d_data set_err with_data d_err]; (split; [exact I|]); (split; [lia|]).
  - rewrite ?E. lia.
  - rewrite ?E, blen_cons. lia.
Qed.

Lemma safe_read_le L n c : safe L (read_le n) (fun _ => True) c.
Proof.
  intros s Hs. unfold read_le. destruct (d_err s); [cbn; split; [exact I|split; lia]|].
  rewrite lenltb_spec. destruct (N.ltb_spec (blen (d_data s)) n) as [Hlt|Hge].
  - cbn. split; [exact I|]. split; lia.
  - destruct (split_at_enough (d_data s) n Hge) as (a & r & E). rewrite E. cbn.
    destruct (split_at_len _ _ _ _ E) as (Hr & _). split; [exact I|]. split; lia.
Qed.

Lemma uvarint_read_le buf : (snd (uvarint buf) <= Z.of_N (blen buf))%Z.
Proof. unfold uvarint. pose proof (uvarint_go_read buf 0 0 0). lia. Qed.

Lemma uvarint_lt buf : fst (uvarint buf) < two64.
Proof. unfold uvarint. apply uvarint_go_lt. reflexivity. Qed.

Lemma safe_read_uvarint L c : safe L read_uvarint (fun v => v < two64) c.
Proof.
  intros s Hs. unfold read_uvarint.
  destruct (d_err s); [cbn; split; [reflexivity|split; lia]|].
  destruct (lenltb (d_data s) 1); [cbn; split; [reflexivity|split; lia]|].
  pose proof (uvarint_read_le (d_data s)) as Hr. pose proof (uvarint_lt (d_data s)) as Hv.
  destruct (uvarint (d_data s)) as [d x]. cbn [fst snd] in *.
  destruct (Z.ltb_spec x 0) as [Hneg|Hpos]; [cbn; split; [reflexivity|split; lia]|].
  assert (Hx : Z.to_N x <= blen (d_data s)) by lia.
  destruct (split_at_enough _ _ Hx) as (a & r & E). rewrite E. cbn.
  destruct (split_at_len _ _ _ _ E) as (Hrl & _). split; [assumption|]. split; lia.
Qed.

Lemma safe_read_fixed L n c : n <= c -> safe L (read_fixed n) (fun b => blen b = n) c.
Proof.
  intros Hc s Hs. unfold read_fixed.
  destruct (d_err s); [cbn; split; [apply zeros_len|split; lia]|].
  rewrite lenltb_spec. destruct (N.ltb_spec (blen (d_data s)) n) as [Hlt|Hge].
  - cbn. split; [apply zeros_len|]. split; lia.
  - destruct (split_at_enough (d_data s) n Hge) as (a & r & E). rewrite E. cbn.
    destruct (split_at_len _ _ _ _ E) as (Hr & Ha & _). split; [assumption|]. split; lia.
Qed.

(* the repaired ReadByteSlice never panics and returns a sub-slice of the input *)
Lemma safe_read_byte_slice L c : safe L (read_byte_slice_gen true) (fun b => blen b <= L) c.
Proof.
  intros s Hs. unfold read_byte_slice_gen.
  assert (H0 : blen (@nil N) <= L) by (unfold blen; cbn; lia).
  destruct (d_err s); [cbn; split; [assumption|split; lia]|].
  destruct (lenltb (d_data s) 1); [cbn; split; [assumption|split; lia]|].
  pose proof (uvarint_read_le (d_data s)) as Hr.
  destruct (uvarint (d_data s)) as [len x]. cbn [fst snd] in *.
  destruct (Z.ltb_spec x 0) as [Hneg|Hpos]; [cbn; split; [assumption|split; lia]|].
  assert (Hx : Z.to_N x <= blen (d_data s)) by lia.
  destruct (split_at_enough _ _ Hx) as (a & r & E). rewrite E.
  destruct (split_at_len _ _ _ _ E) as (Hrl & _).
  rewrite lenltb_spec. destruct (N.ltb_spec (blen r) len) as [Hlt|Hge].
  - cbn. split; [assumption|]. split; lia.
  - destruct (split_at_enough r len Hge) as (b & r' & E2). rewrite E2. cbn.
    destruct (split_at_len _ _ _ _ E2) as (Hr2 & Hb & Hb2). split; [lia|]. split; lia.
Qed.

(* the code as found panics: R4 *)
Lemma read_byte_slice_as_found_panics :
  result_of (run (read_byte_slice_gen false) (put_uvarint 9223372036854775808 ++ [1; 2; 3])) = RPanic.
Proof. vm_compute. reflexivity. Qed.

Lemma safe_rep L {A} (m : M A) (P : A -> Prop) c n :
  safe L m P c -> safe L (rep n m) (fun l => Forall P l /\ length l = n) (N.of_nat n * c).
Proof.
  intros Hm. induction n as [|k IH]; cbn [rep].
  - apply safe_ret. split; [constructor|reflexivity].
  - apply (safe_bind L m _ P _ c (N.of_nat k * c)); [lia|exact Hm|]. intros a Ha.
    apply (safe_bind L _ _ (fun l => Forall P l /\ length l = k) _ (N.of_nat k * c) 0); [lia|exact IH|].
    intros l [Hl Hn]. apply safe_ret. split; [constructor; assumption|cbn; lia].
Qed.

Lemma safe_sub_des L {A} (m : M A) (P : A -> Prop) c sl : blen sl <= L -> safe L m P c -> safe L (sub_des sl m) P c.
Proof.
  intros Hsl Hm s Hs. unfold sub_des. specialize (Hm (mkdes sl false (d_alloc s)) Hsl).
  destruct (m (mkdes sl false (d_alloc s))) as [a s'| |]; cbn in *; [|assumption|assumption].
  destruct Hm as (Ha & Hal & _). split; [assumption|]. split; [assumption|lia].
Qed.

(* conclusion for a whole byte string *)
Lemma safe_run L {A} (m : M A) (P : A -> Prop) c bs : blen bs <= L -> safe L m P c ->
  result_of (run m bs) <> RPanic /\ alloc_of (run m bs) <= c.
Proof.
  intros Hl H. specialize (H (init bs) Hl). unfold run. destruct (m (init bs)) as [a s'| |]; cbn in *.
  - split; [discriminate|lia].
  - split; [discriminate|lia].
  - contradiction.
Qed.

(* ------------------------------------------------------------------ allocation paid by consumed input
   [safeP k L m P c]: like [safe], but every byte the decoder consumes pays for k bytes of allocation:
   alloc' + k * remaining' <= alloc + k * remaining + c. *)
Definition safeP (k L : N) {A} (m : M A) (P : A -> Prop) (c : N) : Prop :=
  forall s, blen (d_data s) <= L ->
    match m s with
    | MOk a s' => P a /\ d_alloc s' + k * blen (d_data s') <= d_alloc s + k * blen (d_data s) + c
                  /\ blen (d_data s') <= blen (d_data s)
    | MErr n => n <= d_alloc s + k * blen (d_data s) + c
    | MPanic => False
    end.

Lemma safeP_of_safe k L {A} (m : M A) (P : A -> Prop) c : safe L m P c -> safeP k L m P c.
Proof.
  intros H s Hs. specialize (H s Hs). destruct (m s) as [a s'| |]; [|nia|assumption].
  destruct H as (H1 & H2 & H3). split; [assumption|]. split; [nia|assumption].
Qed.

Lemma safeP_bind k L {A Bt} (m : M A) (f : A -> M Bt) (P : A -> Prop) (Q : Bt -> Prop) c1 c :
  c1 <= c -> safeP k L m P c1 -> (forall a, P a -> safeP k L (f a) Q (c - c1)) -> safeP k L (bind m f) Q c.
Proof.
  intros Hc Hm Hf s Hs. unfold bind. specialize (Hm s Hs). destruct (m s) as [a s'| |]; [|lia|assumption].
  destruct Hm as (Ha & Hal & Hl). specialize (Hf a Ha s' ltac:(lia)). destruct (f a s') as [b s''| |]; [|lia|assumption].
  destruct Hf as (Hb & Hal2 & Hl2). split; [assumption|]. split; lia.
Qed.

Lemma safeP_weaken k L {A} (m : M A) (P P' : A -> Prop) c c' :
  safeP k L m P c -> (forall a, P a -> P' a) -> c <= c' -> safeP k L m P' c'.
Proof.
  intros H HP Hc s Hs. specialize (H s Hs). destruct (m s) as [a s'| |]; [|lia|assumption].
  destruct H as (H1 & H2 & H3). split; [auto|]. split; [lia|assumption].
Qed.

Lemma safeP_rep k L {A} (m : M A) (P : A -> Prop) c n :
  safeP k L m P c -> safeP k L (rep n m) (fun l => Forall P l /\ length l = n) (N.of_nat n * c).
Proof.
  intros Hm. induction n as [|j IH]; cbn [rep].
  - apply safeP_of_safe. apply safe_ret. split; [constructor|reflexivity].
  - apply (safeP_bind k L m _ P _ c); [lia|exact Hm|]. intros a Ha.
    apply (safeP_bind k L _ _ (fun l => Forall P l /\ length l = j) _ (N.of_nat j * c)); [lia|exact IH|].
    intros l [Hl Hn]. apply safeP_of_safe. apply safe_ret. split; [constructor; assumption|cbn; lia].
Qed.

Lemma safeP_run k L {A} (m : M A) (P : A -> Prop) c bs : blen bs <= L -> safeP k L m P c ->
  result_of (run m bs) <> RPanic /\ alloc_of (run m bs) <= k * blen bs + c.
Proof.
  intros Hl H. specialize (H (init bs) Hl). unfold run. destruct (m (init bs)) as [a s'| |]; cbn in *.
  - split; [discriminate|lia].
  - split; [discriminate|lia].
  - contradiction.
Qed.

(* ReadString: the copy of the string is paid by the bytes it was read from *)
Lemma safeP_read_string L : safeP 1 L read_string (fun _ => True) 0.
Proof.
  intros s Hs. unfold read_string, bind, read_byte_slice, read_byte_slice_gen.
  destruct (d_err s) eqn:Ee; [cbn -[N.mul blen]; rewrite ?(@blen_nil N); split; [exact I|]; split; lia|].
  destruct (lenltb (d_data s) 1); [cbn -[N.mul blen]; rewrite ?(@blen_nil N); split; [exact I|]; split; lia|].
  pose proof (uvarint_read_le (d_data s)) as Hr.
  destruct (uvarint (d_data s)) as [len x]. cbn [fst snd] in *.
  destruct (Z.ltb_spec x 0) as [Hneg|Hpos]; [cbn -[N.mul blen]; rewrite ?(@blen_nil N); split; [exact I|]; split; lia|].
  assert (Hx : Z.to_N x <= blen (d_data s)) by lia.
  destruct (split_at_enough _ _ Hx) as (a & r & E). rewrite E.
  destruct (split_at_len _ _ _ _ E) as (Hrl & _).
  rewrite lenltb_spec. destruct (N.ltb_spec (blen r) len) as [Hlt|Hge].
  - cbn -[N.mul blen]. rewrite ?(@blen_nil N). split; [exact I|]. split; lia.
  - destruct (split_at_enough r len Hge) as (b & r' & E2). rewrite E2. cbn [alloc ret d_data d_err d_alloc].
    destruct (split_at_some _ _ _ _ E2) as [-> Hb]. rewrite blen_app in *. split; [exact I|]. split; lia.
Qed.
