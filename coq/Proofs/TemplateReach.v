(* Property C09: C09_template_txs_ok for reachable states with ALL its hypotheses about the state derived: the ledger
   hypothesis [linv], the bound staked + balances < 2^64 and the height bound (Proofs/StakedBoundNode.v) and the mempool
   invariant [mp_inv] (Proofs/MempoolInv.v).  What is left are the side conditions on the events (typed transactions,
   ids name one transaction, genesis without transactions) and the premises of C03_ledger_is_replay on the block store. *)
From Virel Require Import Lib.Config Lib.U64 Lib.AMap Lib.CheckLib Model.Emission Model.Ledger Model.Node Model.Mempool Spec.Chain
  Proofs.AMapLemmas Proofs.Emission Proofs.Conservation Proofs.Pointwise Proofs.Refine2 Proofs.NodeBasics Proofs.ForkChoice
  Proofs.ChainInv Proofs.Replay1 Proofs.Replay2 Proofs.Replay3 Proofs.Replay4 Proofs.Replay5
  Proofs.Mempool Proofs.Mempool2 Proofs.Mempool3 Proofs.Mempool4 Proofs.KeyInv Proofs.NodeConservation
  Proofs.StakedBound Proofs.StakedBoundNode Proofs.MempoolInv.
Open Scope N_scope.
Open Scope bool_scope.

Section TemplateReach.
Variable cfg : config.
Variable genesis_addr team_key : N.

Theorem template_txs_ok_reachable g n0 ops :
  cfg_ok_c09 cfg = true -> cfg_ok_emission cfg = true -> cfg_ok_feepos cfg = true ->
  node0 cfg genesis_addr g = Ok n0 -> b_height g = 0 -> b_cd g = b_diff g -> b_txs g = [] ->
  N.of_nat (length ops) < two64 - 1 ->
  let n := run cfg genesis_addr team_key n0 ops in
  (forall h b, get_block n h = Some b -> Forall (fun t => wf_tx cfg t /\ ver_ok t = true) (b_txs b)) ->
  (forall bs, up (b_hash g) (blocks n) (b_hash g) bs ->
     NoDup (bkeys g ++ flat_map bkeys bs) /\ c0 g + bnouts bs < two64 /\ c0 g + bntx bs < two64) ->
  forall w rcpt now now_s t w' bh,
  reachable_t cfg genesis_addr team_key g w -> wn w = n ->
  get_block_template cfg false w rcpt now now_s = Ok (t, w') ->
  exists l1 fee, apply_txs cfg (ldg (wn w)) (b_txs t) (b_height t) bh (top_h (wn w)) 0 = Ok (l1, fee).
Proof.
  intros Hc9 Hok Hfp H0 Hg0 Hcd Hgt Hlen n Htyped Hpaths w rcpt now now_s t w' bh Hr Hw Ht.
  apply (template_txs_applicable_reachable cfg genesis_addr team_key g n0 ops Hc9 Hok Hfp H0 Hg0 Hcd Hlen
           ltac:(rewrite Hgt; constructor) ltac:(rewrite Hgt; constructor) Htyped Hpaths w rcpt now now_s t w' bh Hw); [|exact Ht].
  exact (reachable_mp_inv cfg genesis_addr team_key g w Hgt Hr).
Qed.

(* ---- the node of a reachable wrapped state is the result of a delivery sequence ---- *)
(* [reachable_k g k w]: [reachable_t] with the number k of BLOCK packets counted *)
Inductive reachable_k (g : block) : nat -> wnode -> Prop :=
| RK_genesis w0 : wnode0 cfg genesis_addr g = Ok w0 -> reachable_k g 0 w0
| RK_deliver k w b now now_s exp w' o amb :
    reachable_k g k w -> block_side cfg w b ->
    wdeliver cfg genesis_addr team_key w b now now_s exp = (w', o, amb) -> reachable_k g (S k) w'
| RK_tx k w t now_s expires w' adm :
    reachable_k g k w -> tx_typed t -> wf_tx cfg t ->
    packet_tx cfg team_key false w t now_s expires = Ok (w', adm) -> reachable_k g k w'
| RK_sig k w h did key msg w' :
    reachable_k g k w -> handle_stake_sig w h did key msg = Ok w' -> reachable_k g k w'
| RK_template k w rcpt now now_s t w' :
    reachable_k g k w -> get_block_template cfg false w rcpt now now_s = Ok (t, w') -> reachable_k g k w'.

Lemma reachable_k_t g k w : reachable_k g k w -> reachable_t cfg genesis_addr team_key g w.
Proof.
  induction 1.
  - apply RT_genesis; assumption.
  - eapply RT_deliver; eassumption.
  - eapply RT_tx; eassumption.
  - eapply RT_sig; eassumption.
  - eapply RT_template; eassumption.
Qed.

Lemma reachable_t_k g w : reachable_t cfg genesis_addr team_key g w -> exists k, reachable_k g k w.
Proof.
  induction 1 as [w0 H|w b now now_s exp w' o amb _ (k & IH) Hs H|w t now_s expires w' adm _ (k & IH) Hty Hwf H
                 |w h did key msg w' _ (k & IH) H|w rcpt now now_s t w' _ (k & IH) H].
  - exists 0%nat. apply RK_genesis; assumption.
  - exists (S k). eapply RK_deliver; eassumption.
  - exists k. eapply RK_tx; eassumption.
  - exists k. eapply RK_sig; eassumption.
  - exists k. eapply RK_template; eassumption.
Qed.

Lemma run_snoc n ops b now :
  run cfg genesis_addr team_key n (ops ++ [(b, now)]) =
  fst (fst (deliver cfg genesis_addr team_key (run cfg genesis_addr team_key n ops) b now)).
Proof. unfold run. rewrite fold_left_app. reflexivity. Qed.

Lemma reachable_k_run g n0 : node0 cfg genesis_addr g = Ok n0 ->
  forall k w, reachable_k g k w -> exists ops, (length ops <= k)%nat /\ wn w = run cfg genesis_addr team_key n0 ops.
Proof.
  intros H0 k w Hr. induction Hr as [w0 H|k w b now now_s exp w' o amb _ (ops & Hl & IH) Hs H
                                    |k w t now_s expires w' adm _ (ops & Hl & IH) Hty Hwf H
                                    |k w h did key msg w' _ (ops & Hl & IH) H|k w rcpt now now_s t w' _ (ops & Hl & IH) H].
  - exists []. split; [apply le_n|]. unfold wnode0 in H. rewrite H0 in H. cbn [bind] in H. injection H as <-. reflexivity.
  - unfold wdeliver in H.
    destruct (deliver cfg genesis_addr team_key (wn w) b now) as [[n1 out] amb0] eqn:E.
    assert (Hsame : w' = w -> exists ops', (length ops' <= S k)%nat /\ wn w' = run cfg genesis_addr team_key n0 ops').
    { intros ->. exists ops. split; [lia|exact IH]. }
    destruct out as [|c|c]; [|apply Hsame; injection H as <- _ _; reflexivity|apply Hsame; injection H as <- _ _; reflexivity].
    match type of H with context [mp_disconnect_all cfg (mpool w) ?D now_s exp] =>
      destruct (mp_disconnect_all cfg (mpool w) D now_s exp) as [mp1|c|c] end;
      [|apply Hsame; injection H as <- _ _; reflexivity|apply Hsame; injection H as <- _ _; reflexivity].
    injection H as <- _ _. exists (ops ++ [(b, now)]). split; [rewrite app_length; cbn [length]; lia|].
    rewrite run_snoc, <- IH, E. reflexivity.
  - exists ops. split; [exact Hl|]. rewrite <- IH. unfold packet_tx in H.
    destruct (top_h (wn w) <? hf_v2 cfg); [discriminate H|]. bind_inv H. unfold add_transaction in H.
    destruct (nget (txstore w) (tx_id t)); [injection H as <- _; reflexivity|].
    bind_inv H. guard_inv H. bind_inv H. injection H as <- _. reflexivity.
  - exists ops. split; [exact Hl|]. rewrite <- IH. unfold handle_stake_sig in H.
    guard_inv H. opt_inv H. guard_inv H. opt_inv H. guard_inv H. injection H as <-. reflexivity.
  - exists ops. split; [exact Hl|]. rewrite <- IH.
    unfold get_block_template in H. opt_inv H. bind_inv H. bind_inv H. bind_inv H.
    match goal with p : (list mentry * list tx)%type |- _ => destruct p as [valid txs] end.
    bind_inv H. bind_inv H. bind_inv H.
    match goal with p : (N * N * option stakesig * N)%type |- _ => destruct p as [[[did nd] sg] cd] end.
    injection H as _ <-. reflexivity.
Qed.

(* C09_template_txs_ok for the reachable states of the wrapped node, every hypothesis about the state derived; k = number of
   BLOCK packets so far *)
Theorem template_txs_ok_reachable_k g n0 k w :
  cfg_ok_c09 cfg = true -> cfg_ok_emission cfg = true -> cfg_ok_feepos cfg = true ->
  node0 cfg genesis_addr g = Ok n0 -> b_height g = 0 -> b_cd g = b_diff g -> b_txs g = [] ->
  reachable_k g k w -> N.of_nat k < two64 - 1 ->
  (forall h b, get_block (wn w) h = Some b -> Forall (fun t => wf_tx cfg t /\ ver_ok t = true) (b_txs b)) ->
  (forall bs, up (b_hash g) (blocks (wn w)) (b_hash g) bs ->
     NoDup (bkeys g ++ flat_map bkeys bs) /\ c0 g + bnouts bs < two64 /\ c0 g + bntx bs < two64) ->
  forall rcpt now now_s t w' bh,
  get_block_template cfg false w rcpt now now_s = Ok (t, w') ->
  exists l1 fee, apply_txs cfg (ldg (wn w)) (b_txs t) (b_height t) bh (top_h (wn w)) 0 = Ok (l1, fee).
Proof.
  intros Hc9 Hok Hfp H0 Hg0 Hcd Hgt Hr Hk Htyped Hpaths rcpt now now_s t w' bh Ht.
  destruct (reachable_k_run g n0 H0 k w Hr) as (ops & Hl & Hw).
  apply (template_txs_ok_reachable g n0 ops Hc9 Hok Hfp H0 Hg0 Hcd Hgt ltac:(lia)) with (w := w) (rcpt := rcpt) (now := now)
    (now_s := now_s) (w' := w').
  - rewrite <- Hw. exact Htyped.
  - rewrite <- Hw. exact Hpaths.
  - exact (reachable_k_t g k w Hr).
  - exact Hw.
  - exact Ht.
Qed.

End TemplateReach.
