(* Catching up across a fork (property C11), part 6: the premise "the by-height window reaches the frontier" of
   [sync_fork_catches_up] in terms of the two chains.

   For a node that satisfies the chain invariants (every reachable state), while it accepts the blocks of the peer's
   branch one after another its tip is either still its own old tip or the last block accepted ([nd_top]); hence the
   premise holds as soon as

     REACH'   if the peer's chain has a block at height (our height + PARALLEL_BLOCKS_DOWNLOAD + 1), that block is
              heavier than our tip

   (the node then has reorganised to the peer's branch before the frontier leaves the window).  When the peer's chain
   is at most PARALLEL_BLOCKS_DOWNLOAD + 1 blocks higher than ours - in particular when it is not higher - there is
   nothing to check.  Livelock 1 of Proofs/Sync2Stuck.v is exactly a pair of chains on which REACH' fails:
   our height 14, the peer's block of height 65 has cumulative difficulty 135 <= 145. *)
From Coq Require Import Arith Bool Lia.
From Virel Require Import Lib.Config Lib.U64 Lib.AMap Model.Ledger Model.Node Model.Sync Spec.Chain
  Proofs.AMapLemmas Proofs.Conservation Proofs.NodeBasics Proofs.ForkChoice Proofs.Restart Proofs.ChainInv Proofs.ChainRun
  Proofs.ChainHeights Proofs.Sync Proofs.Sync2 Proofs.Sync2Refine Proofs.Sync2Main.
Open Scope N_scope.

Section Reach.
Variable cfg : config.
Variable genesis_addr team_key gh : N.
Notation add_block' := (add_block cfg genesis_addr).
Notation apply_ext' := (apply_ext cfg genesis_addr).
Notation acc_chain' := (acc_chain cfg genesis_addr).
Notation pbd := (parallel_blocks cfg).

Definition NInv (n : node) : Prop := CInv gh n /\ FInv n /\ HInv n.

(* where the tip is after one accepted block *)
Lemma add_block_top n b n' amb : NInv n -> N.of_nat (length (blocks n)) < two64 -> add_block' n b = Ok (n', amb) ->
  ((top n' = top n /\ top_h n' = top_h n) \/ (top n' = b_hash b /\ top_h n' = b_height b)) /\
  (prev_hash b = top n -> top n' = b_hash b /\ top_h n' = b_height b).
Proof.
  intros ((HB & HT) & (Hts & Htips & Hmax) & HH) Hlen H.
  split; [|intros Hp; destruct (add_block_main cfg genesis_addr _ _ _ _ H Hp) as (A1 & A2 & _); split; assumption].
  unfold add_block in H. guard_inv H. opt_inv H. rename x into prev. bind_inv H. destruct a.
  assert (Hnew : nget (blocks n) (b_hash b) = None).
  { unfold get_block in G. destruct (nget (blocks n) (b_hash b)); [discriminate|reflexivity]. }
  unfold get_block in E.
  pose proof (check_block_height _ _ _ _ E0) as Hh.
  assert (Hh' : b_height b = b_height prev + 1).
  { destruct HB as (_ & _ & _ & Hb). pose proof (Hb _ _ E). rewrite wadd_small in Hh; lia. }
  pose proof (BInv_insert gh _ _ _ HB Hnew E Hh') as HB1.
  destruct (N.eqb_spec (prev_hash b) (top n)) as [Emain|Ealt].
  - bind_inv H. injection H as <- _. unfold add_mainchain_block in E1. bind_inv E1. injection E1 as <-.
    apply apply_block_node_eq in E2. destruct E2 as (l & ->). right. split; reflexivity.
  - unfold add_altchain_block in H.
    apply (check_reorgs_struct cfg genesis_addr gh) in H; cbn [blocks topo top top_h top_cd tips set_blocks set_tips] in *.
    + destruct H as (_ & _ & [->|(k & alt & Hin & Hlt & Etop & Eh & _)]).
      * left. split; reflexivity.
      * apply alt_tips_cases in Hin. destruct Hin as [(_ & ->)|Hin].
        -- right. split; assumption.
        -- exfalso. destruct (Htips k alt Hin) as (tb & Htb & Hcd). pose proof (Hmax _ _ Htb). lia.
    + exact HB1.
    + apply TInv_insert_block; assumption.
    + intros k tp Hin Hlt. apply alt_tips_cases in Hin. destruct Hin as [(_ & ->)|Hin].
      * cbn [t_hash]. intros Egh. destruct HB as (_ & (g & Hg & _) & _). rewrite Egh in Hnew. congruence.
      * exfalso. destruct (Htips k tp Hin) as (tb & Htb & Hcd). pose proof (Hmax _ _ Htb). lia.
Qed.

Lemma add_block_NInv n b n' amb : NInv n -> N.of_nat (length (blocks n)) < two64 -> add_block' n b = Ok (n', amb) ->
  NInv n' /\ (length (blocks n') <= S (length (blocks n)))%nat.
Proof.
  intros (HC & HF & HH) Hlen H. split; [split; [|split]|].
  - eapply add_block_CInv; eassumption.
  - eapply add_block_inv; eassumption.
  - eapply add_block_HInv; eassumption.
  - eapply add_block_len; eassumption.
Qed.

Lemma apply_ext_NInv : forall l n, NInv n -> N.of_nat (length (blocks n) + length l) <= two64 -> acc_chain' n l ->
  NInv (apply_ext' n l) /\ (length (blocks (apply_ext' n l)) <= length (blocks n) + length l)%nat.
Proof.
  induction l as [|b r IH]; intros n HN Hlen Hacc; [split; [exact HN|cbn; lia]|].
  destruct Hacc as (n1 & amb & Ha & Hr). cbn [apply_ext]. rewrite Ha. cbn [length] in Hlen.
  destruct (add_block_NInv n b n1 amb HN ltac:(lia) Ha) as (HN1 & Hl1).
  destruct (IH n1 HN1 ltac:(lia) Hr) as (HN2 & Hl2). split; [exact HN2|cbn [length]; lia].
Qed.

Variable n0 : node.
Variable theirs : list block.
Hypothesis HN0 : NInv n0.
Hypothesis Hlen0 : N.of_nat (length (blocks n0) + length theirs) <= two64.
Hypothesis Hacc : acc_chain' n0 theirs.
(* the blocks of the branch are linked *)
Hypothesis Hlinked : forall i b c, nth_error theirs i = Some b -> nth_error theirs (S i) = Some c -> prev_hash c = b_hash b.

Notation ndj := (fun j => apply_ext' n0 (firstn j theirs)).

Lemma ndj_acc j : acc_chain' n0 (firstn j theirs).
Proof. pose proof Hacc as H. rewrite <- (firstn_skipn j theirs) in H. apply acc_chain_app in H. apply H. Qed.

Lemma ndj_NInv j : NInv (ndj j) /\ (length (blocks (ndj j)) <= length (blocks n0) + j)%nat /\
  N.of_nat (length (blocks n0) + j) <= N.of_nat (length (blocks n0) + length theirs) \/ (length theirs < j)%nat.
Proof.
  destruct (Nat.le_gt_cases j (length theirs)) as [Hj|Hj]; [left|right; exact Hj].
  pose proof (firstn_length_le theirs Hj) as Hfl.
  destruct (apply_ext_NInv (firstn j theirs) n0 HN0) as (H1 & H2).
  - rewrite Hfl. lia.
  - apply ndj_acc.
  - split; [exact H1|]. rewrite Hfl in H2. split; [exact H2|lia].
Qed.

(* the tip of our node while it accepts the branch: its old tip, or the last block accepted *)
Lemma nd_top : forall j, (j <= length theirs)%nat ->
  (top (ndj j) = top n0 /\ top_h (ndj j) = top_h n0) \/
  (exists i b, j = S i /\ nth_error theirs i = Some b /\ top (ndj j) = b_hash b /\ top_h (ndj j) = b_height b).
Proof.
  induction j as [|j IH]; intros Hj; [left; split; reflexivity|].
  destruct (nth_error theirs j) as [b|] eqn:Eb; [|apply nth_error_None in Eb; lia].
  assert (Hf : firstn (S j) theirs = firstn j theirs ++ [b]).
  { rewrite (firstn_succ_nth theirs dflt_block) by lia. f_equal. f_equal. apply nth_error_nth. exact Eb. }
  pose proof (ndj_acc (S j)) as Ha. rewrite Hf in Ha. apply acc_chain_snoc in Ha. destruct Ha as (amb & Ha). rewrite <- Hf in Ha.
  destruct (ndj_NInv j) as [(HNj & Hlj & _)|Hbad]; [|lia].
  destruct (add_block_top (ndj j) b (ndj (S j)) amb HNj ltac:(lia) Ha) as (Hcases & Hmain).
  destruct Hcases as [(T1 & T2)|(T1 & T2)].
  - destruct (IH ltac:(lia)) as [(I1 & I2)|(i & c & -> & Hc & I1 & I2)].
    + left. split; congruence.
    + (* the previous block of the branch was the tip: this one extends the main chain *)
      right. exists (S i), b. split; [reflexivity|]. split; [exact Eb|]. apply Hmain. rewrite I1. apply (Hlinked i c b Hc Eb).
  - right. exists j, b. repeat split; assumption.
Qed.

End Reach.

Section MainReach.
Variable cfg : config.
Variable genesis_addr team_key gh : N.
Variable peer n0 : node.
Variable shared theirs : list block.
Notation apply_ext' := (apply_ext cfg genesis_addr).
Notation acc_chain' := (acc_chain cfg genesis_addr).
Notation pbd := (parallel_blocks cfg).

Hypothesis HCpeer : chain_structure gh peer.
Hypothesis HN0 : NInv gh n0.
Hypothesis Hlen0 : N.of_nat (length (blocks n0) + length theirs) <= two64.
Hypothesis Hsplit : main_chain peer = shared ++ theirs.
Hypothesis Hshared_ne : shared <> [].
Hypothesis Htheirs_ne : theirs <> [].
Hypothesis Hnz : forall b, In b (shared ++ theirs) -> b_hash b <> 0.
Hypothesis Hshared : forall b, In b shared -> get_block n0 (b_hash b) = Some b.
Hypothesis Hnew : forall b, In b theirs -> get_block n0 (b_hash b) = None.
Hypothesis Hacc : acc_chain' n0 theirs.
Hypothesis Hheavy : forall j, (j < length theirs)%nat -> top_cd (apply_ext' n0 (firstn j theirs)) < top_cd peer.
Hypothesis Hbound : top_h peer + pbd + 2 < two64.
Hypothesis Hpbd : 1 <= pbd.
(* REACH' *)
Hypothesis Hreach' : forall o, nth_error (shared ++ theirs) (N.to_nat (top_h n0 + pbd + 1)) = Some o -> top_cd n0 < b_cd o.

Lemma reach_from_chains : forall j, (j < length theirs)%nat ->
  let n := apply_ext' n0 (firstn j theirs) in
  top_h n < top_h peer -> N.of_nat (length shared + j) <= top_h n + pbd + 1.
Proof.
  intros j Hj. cbn zeta. intros Hlt.
  pose proof (main_chain_length gh peer HCpeer) as Hl. rewrite Hsplit, app_length in Hl.
  assert (Hlinked : forall i b c, nth_error theirs i = Some b -> nth_error theirs (S i) = Some c -> prev_hash c = b_hash b).
  { intros i b c Hb Hc. apply (main_chain_link gh peer HCpeer (length shared + i) b c); rewrite Hsplit.
    - rewrite nth_error_app2 by lia. replace (length shared + i - length shared)%nat with i by lia. exact Hb.
    - replace (S (length shared + i)) with (length shared + S i)%nat by lia.
      rewrite nth_error_app2 by lia. replace (length shared + S i - length shared)%nat with (S i) by lia. exact Hc. }
  assert (Hheights : forall i b, nth_error theirs i = Some b -> b_height b = N.of_nat (length shared + i)).
  { intros i b Hb. apply (main_chain_height gh peer HCpeer). rewrite Hsplit. rewrite nth_error_app2 by lia.
    replace (length shared + i - length shared)%nat with i by lia. exact Hb. }
  destruct (nd_top cfg genesis_addr gh n0 theirs HN0 Hlen0 Hacc Hlinked j ltac:(lia)) as [(T1 & T2)|(i & b & -> & Hb & T1 & T2)].
  2:{ rewrite T2, (Hheights i b Hb). lia. }
  (* the tip is still our own: the block at our height + pbd + 1, if the frontier were above it, would be stored and heavier *)
  rewrite T2 in *. destruct (N.le_gt_cases (N.of_nat (length shared + j)) (top_h n0 + pbd + 1)) as [Hok|Hbad]; [exact Hok|exfalso].
  set (m := N.to_nat (top_h n0 + pbd + 1)).
  destruct (nth_error (shared ++ theirs) m) as [o|] eqn:Eo; [|apply nth_error_None in Eo; rewrite app_length in Eo; lia].
  pose proof (Hreach' o Eo) as Hcd.
  destruct HN0 as (_ & HF0 & _). pose proof HF0 as ((t0 & Ht0 & Hcd0) & _ & Hmax0).
  assert (Hst : get_block (apply_ext' n0 (firstn j theirs)) (b_hash o) = Some o).
  { destruct (apply_ext_store cfg genesis_addr _ n0 (ndj_acc cfg genesis_addr n0 theirs Hacc j)) as (K1 & K2 & _).
    destruct (Nat.lt_ge_cases m (length shared)) as [Hs|Ht].
    - rewrite nth_error_app1 in Eo by exact Hs. apply K1. apply Hshared. eapply nth_error_In. exact Eo.
    - rewrite nth_error_app2 in Eo by exact Ht. apply K2. rewrite <- (nth_error_nth _ _ dflt_block Eo).
      apply nth_in_firstn; unfold m in *; lia. }
  pose proof (apply_ext_FInv cfg genesis_addr (firstn j theirs) n0 HF0) as ((t & Ht & Htcd) & _ & Hmax).
  pose proof (Hmax _ _ Hst) as Hle.
  destruct (apply_ext_store cfg genesis_addr _ n0 (ndj_acc cfg genesis_addr n0 theirs Hacc j)) as (K1 & _ & _).
  rewrite T1 in Ht. rewrite (K1 _ _ Ht0) in Ht. injection Ht as <-. lia.
Qed.

Theorem sync_fork_catches_up_chains s :
  sy_node s = n0 -> sy_queue s = [] -> sy_buf s = [] ->
  (sy_diff s < top_cd peer \/ (sy_diff s = top_cd peer /\ sy_height s = top_h peer)) ->
  exists bound, forall now, (forall b, In b (tl (shared ++ theirs)) -> prevalidate_block cfg team_key b now = Ok tt) ->
    (forall k, (bound <= k)%nat ->
       let s' := srounds cfg genesis_addr team_key peer now k s in
       sy_node s' = apply_ext' n0 theirs /\
       (forall b, In b (main_chain peer) -> get_block (sy_node s') (b_hash b) = Some b) /\
       top (sy_node s') = top peer /\ sy_buf s' = [] /\
       srounds cfg genesis_addr team_key peer now (S k) s = s') /\
    (forall m s', (bound <= m)%nat -> prounds cfg genesis_addr team_key peer now m s s' ->
       sy_node s' = apply_ext' n0 theirs /\
       (forall b, In b (main_chain peer) -> get_block (sy_node s') (b_hash b) = Some b) /\
       top (sy_node s') = top peer /\ sy_buf s' = []) /\
    (forall fuel, (bound <= fuel)%nat ->
       top (sy_node (fst (sim cfg genesis_addr team_key fuel peer s [] now))) = top peer).
Proof.
  apply (sync_fork_catches_up cfg genesis_addr team_key gh peer n0 shared theirs HCpeer (proj1 (proj2 HN0)) Hsplit Hshared_ne
           Htheirs_ne Hnz Hshared Hnew Hacc Hheavy Hbound Hpbd reach_from_chains).
Qed.

End MainReach.
