(* Catching up across a fork (property C11), part 6: every reachable node holds a block at every height up to the highest
   height recorded for its tip or an alternative tip.

   [held_height n] (Model/Sync.v) = max (own height, heights of the alternative tips): what Synchronize compares the last
   requested height with when the requested blocks have not extended the main chain.  [MInv]: every stored block's
   height is at most [held_height].  It holds at genesis and is preserved by every accepted block ([add_block_cover]:
   the new block's height is covered, and [held_height] never decreases - a tip entry that disappears is replaced by a
   higher one or moves into / out of the tip fields at a reorganisation).  Hence while our node accepts the peer's
   branch it holds a block at the height just below the frontier, which is the premise [Hheld] of Proofs/Sync2Refine.v:
   [sync_fork_catches_up_chains] has no premise about the request window any more.

   History: before the repair of Synchronize (KNOWN_FINDINGS C11-long-light-fork) the by-height request restarted at
   the node's OWN height whenever the requested blocks had not moved it, and this file derived the then necessary
   premise "the peer's block at height (our height + PARALLEL_BLOCKS_DOWNLOAD + 1) is heavier than our tip". *)
From Coq Require Import Arith Bool Lia.
From Virel Require Import Lib.Config Lib.U64 Lib.AMap Model.Ledger Model.Node Model.Sync Spec.Chain
  Proofs.AMapLemmas Proofs.Conservation Proofs.NodeBasics Proofs.ForkChoice Proofs.Restart Proofs.ChainInv Proofs.ChainRun
  Proofs.ChainHeights Proofs.Sync Proofs.Sync2 Proofs.Sync2Refine Proofs.Sync2Main.
Open Scope N_scope.

(* ------------------------------------------------------------------ association lists *)
Lemma in_ndel_other {V} (m : list (N * V)) k0 k v : In (k, v) m -> k <> k0 -> In (k, v) (ndel m k0).
Proof.
  unfold ndel. induction m as [|[k1 v1] m IH]; cbn; [intros []|]. intros [E|Hin] Hne.
  - injection E as -> ->. destruct (N.eqb_spec k0 k); [congruence|left; reflexivity].
  - destruct (k0 =? k1); [exact Hin|right; apply IH; assumption].
Qed.

Lemma in_nset_other {V} (m : list (N * V)) k0 v0 k v : In (k, v) m -> k <> k0 -> In (k, v) (nset m k0 v0).
Proof.
  unfold nset. induction m as [|[k1 v1] m IH]; cbn; [intros []|]. intros [E|Hin] Hne.
  - injection E as -> ->. destruct (N.eqb_spec k0 k); [congruence|left; reflexivity].
  - destruct (k0 =? k1); [right; exact Hin|right; apply IH; assumption].
Qed.

Lemma in_nset_same {V} (m : list (N * V)) k v : In (k, v) (nset m k v).
Proof.
  unfold nset. induction m as [|[k1 v1] m IH]; cbn; [left; reflexivity|].
  destruct (k =? k1); [left; reflexivity|right; exact IH].
Qed.

(* ------------------------------------------------------------------ the highest height held *)
Lemma hmax_spec (l : list (N * tip)) : forall a x,
  x <= fold_left (fun acc (kv : N * tip) => N.max acc (t_height (snd kv))) l a <->
  x <= a \/ exists k tp, In (k, tp) l /\ x <= t_height tp.
Proof.
  induction l as [|[k0 tp0] l IH]; intros a x; cbn [fold_left snd].
  - split; [intros H; left; exact H|intros [H|(k & tp & [] & _)]; exact H].
  - rewrite IH. split.
    + intros [H|(k & tp & Hin & Hle)].
      * destruct (N.le_gt_cases x a); [left; assumption|right; exists k0, tp0; split; [left; reflexivity|lia]].
      * right. exists k, tp. split; [right; exact Hin|exact Hle].
    + intros [H|(k & tp & [E|Hin] & Hle)].
      * left. lia.
      * injection E as -> ->. left. lia.
      * right. exists k, tp. split; assumption.
Qed.

(* [x] is at most the node's own height or the height of one of its alternative tips *)
Definition Cover (n : node) (x : N) : Prop := x <= top_h n \/ exists k tp, In (k, tp) (tips n) /\ x <= t_height tp.

Lemma held_cover n x : x <= held_height n <-> Cover n x.
Proof. unfold held_height, Cover. apply hmax_spec. Qed.

Definition MInv (n : node) : Prop := forall h b, get_block n h = Some b -> b_height b <= held_height n.

Section Reach.
Variable cfg : config.
Variable genesis_addr team_key gh : N.
Notation add_block' := (add_block cfg genesis_addr).
Notation apply_ext' := (apply_ext cfg genesis_addr).
Notation acc_chain' := (acc_chain cfg genesis_addr).

Definition NInv (n : node) : Prop := CInv gh n /\ FInv n /\ HInv n.

(* an accepted block: its height is covered afterwards, and whatever was covered stays covered *)
Lemma add_block_cover n b n' amb : NInv n -> N.of_nat (length (blocks n)) < two64 -> add_block' n b = Ok (n', amb) ->
  Cover n' (b_height b) /\ (forall x, Cover n x -> Cover n' x).
Proof.
  intros ((HB & HT) & (Hts & Htips & Hmax) & (Hh2 & Hh3)) Hlen H.
  unfold add_block in H. guard_inv H. opt_inv H. rename x into prev. bind_inv H. destruct a.
  assert (Hnew : nget (blocks n) (b_hash b) = None).
  { unfold get_block in G. destruct (nget (blocks n) (b_hash b)); [discriminate|reflexivity]. }
  unfold get_block in E. unfold tips_heights, get_block in *.
  pose proof (check_block_height _ _ _ _ E0) as Hh.
  assert (Hh' : b_height b = b_height prev + 1).
  { destruct HB as (_ & _ & _ & Hb). pose proof (Hb _ _ E). rewrite wadd_small in Hh; lia. }
  pose proof (BInv_insert gh _ _ _ HB Hnew E Hh') as HB1.
  assert (Hkeep : forall h x, nget (blocks n) h = Some x -> nget (nset (blocks n) (b_hash b) b) h = Some x)
    by (intros h x; apply nget_nset_keep; exact Hnew).
  destruct (N.eqb_spec (prev_hash b) (top n)) as [Emain|Ealt].
  - (* extension of the main chain: the own height grows by one, the tips stay *)
    bind_inv H. injection H as <- _. unfold add_mainchain_block in E1. bind_inv E1. injection E1 as <-.
    apply apply_block_node_eq in E2. destruct E2 as (l & ->).
    rewrite Emain in E. pose proof (Hh2 _ E) as Hth.
    unfold Cover. cbn [top_h tips set_topo set_blocks set_top set_ldg]. split; [left; lia|].
    intros x [Hx|Hx]; [left; lia|right; exact Hx].
  - (* alternative chain *)
    unfold add_altchain_block in H.
    set (newtip := mktip (b_hash b) (b_height b) (b_cd b)) in *.
    set (tips' := match nget (tips n) (prev_hash b) with Some t => _ | None => _ end) in H.
    set (n1 := set_blocks (set_tips n tips') (nset (blocks n) (b_hash b) b)) in H.
    (* the new block's own entry *)
    assert (Ha : In (b_hash b, newtip) tips').
    { unfold tips'. destruct (nget (tips n) (prev_hash b)) as [t0|]; [destruct (t_hash t0 =? prev_hash b)|]; apply in_nset_same. }
    (* an old entry stays, or it was the parent's and is lower than the new one *)
    assert (Hb : forall k tp, In (k, tp) (tips n) -> In (k, tp) tips' \/ t_height tp < b_height b).
    { intros k tp Hin. destruct (Hh3 k tp Hin) as (Ek & tb & Htb & Htbh).
      assert (Hkb : k <> b_hash b) by (intros ->; rewrite <- Ek in Htb; congruence).
      unfold tips'. destruct (nget (tips n) (prev_hash b)) as [t0|]; [destruct (t_hash t0 =? prev_hash b)|].
      - destruct (N.eq_dec k (prev_hash b)) as [Ekp|Nkp].
        + right. rewrite <- Ek, Ekp, E in Htb. injection Htb as <-. lia.
        + left. apply in_nset_other; [apply in_ndel_other; assumption|exact Hkb].
      - left. apply in_nset_other; assumption.
      - left. apply in_nset_other; assumption. }
    assert (Htips' : forall k tp, In (k, tp) tips' ->
              k = t_hash tp /\ exists tb, nget (nset (blocks n) (b_hash b) b) (t_hash tp) = Some tb /\ b_height tb = t_height tp).
    { intros k tp Hin. apply alt_tips_cases in Hin. destruct Hin as [(-> & ->)|Hin]; cbn [t_hash t_height].
      - split; [reflexivity|]. exists b. split; [apply nget_nset_same|reflexivity].
      - destruct (Hh3 k tp Hin) as (Ek & tb & Htb & Htbh).
        split; [exact Ek|]. exists tb. split; [apply Hkeep; exact Htb|exact Htbh]. }
    assert (Hc1 : Cover n1 (b_height b) /\ (forall x, Cover n x -> Cover n1 x)).
    { unfold Cover, n1. cbn [top_h tips set_blocks set_tips]. split.
      - right. exists (b_hash b), newtip. split; [exact Ha|cbn; lia].
      - intros x [Hx|(k & tp & Hin & Hx)]; [left; exact Hx|]. right.
        destruct (Hb k tp Hin) as [Hin'|Hlt]; [exists k, tp; split; assumption|].
        exists (b_hash b), newtip. split; [exact Ha|cbn; lia]. }
    apply (check_reorgs_struct cfg genesis_addr gh) in H; cbn [blocks topo top top_h top_cd tips set_blocks set_tips n1] in *.
    + destruct H as (_ & _ & [->|(k & alt & Hin & Hlt & Etop & Eh & _ & Etips)]); [exact Hc1|].
      (* reorganisation: the chosen tip entry becomes the tip fields, the old tip fields become a tip entry *)
      destruct Hts as (t0 & Ht0 & _). unfold get_block in Ht0. pose proof (Hh2 _ Ht0) as Ht0h.
      assert (Hmove : forall x, Cover n1 x -> Cover n' x).
      { unfold Cover. rewrite Eh, Etips. cbn [top_h tips n1 set_blocks set_tips].
        intros x [Hx|(k1 & tp & Hin1 & Hx)].
        - right. exists (top n), (mktip (top n) (top_h n) (top_cd n)). split; [apply in_nset_same|cbn; exact Hx].
        - destruct (Htips' k1 tp Hin1) as (Ek1 & tb1 & Htb1 & Hh1). destruct (Htips' k alt Hin) as (Ek & tb & Htb & Hhb).
          destruct (N.eq_dec k1 (t_hash alt)) as [E1|N1].
          + left. rewrite <- Ek1, E1, Htb in Htb1. injection Htb1 as <-. lia.
          + right. destruct (N.eq_dec k1 (top n)) as [E2|N2].
            * exists (top n), (mktip (top n) (top_h n) (top_cd n)). split; [apply in_nset_same|].
              rewrite <- Ek1, E2, (Hkeep _ _ Ht0) in Htb1. injection Htb1 as <-. cbn. lia.
            * exists k1, tp. split; [apply in_nset_other; [apply in_ndel_other; assumption|exact N2]|exact Hx]. }
      destruct Hc1 as (C1 & C2). split; [apply Hmove; exact C1|intros x Hx; apply Hmove, C2; exact Hx].
    + exact HB1.
    + apply TInv_insert_block; assumption.
    + intros k tp Hin Hlt. apply alt_tips_cases in Hin. destruct Hin as [(_ & ->)|Hin].
      * cbn [t_hash]. intros Egh. destruct HB as (_ & (g & Hg & _) & _). rewrite Egh in Hnew. congruence.
      * exfalso. destruct (Htips k tp Hin) as (tb & Htb & Hcd). pose proof (Hmax _ _ Htb). lia.
Qed.

Lemma add_block_MInv n b n' amb : NInv n -> MInv n -> N.of_nat (length (blocks n)) < two64 -> add_block' n b = Ok (n', amb) ->
  MInv n' /\ b_height b <= held_height n'.
Proof.
  intros HN HM Hlen H. destruct (add_block_cover n b n' amb HN Hlen H) as (C1 & C2).
  destruct (add_block_store _ _ _ _ _ _ H) as (_ & Hb).
  split; [|apply held_cover; exact C1].
  intros h x Hx. apply held_cover. unfold get_block in Hx. rewrite Hb, nget_nset in Hx.
  destruct (h =? b_hash b); [injection Hx as <-; exact C1|]. apply C2. apply held_cover. apply (HM h x Hx).
Qed.

Lemma add_block_NInv n b n' amb : NInv n -> N.of_nat (length (blocks n)) < two64 -> add_block' n b = Ok (n', amb) ->
  NInv n' /\ (length (blocks n') <= S (length (blocks n)))%nat.
Proof.
  intros (HC & HF & HH) Hlen H. split; [split; [|split]|].
  - eapply add_block_CInv; eassumption.
  - eapply add_block_inv; eassumption.
  - eapply add_block_HInv; eassumption.
  - eapply add_block_len; eassumption.
Qed.

Lemma apply_ext_MInv : forall l n, NInv n -> MInv n -> N.of_nat (length (blocks n) + length l) <= two64 -> acc_chain' n l ->
  NInv (apply_ext' n l) /\ MInv (apply_ext' n l).
Proof.
  induction l as [|b r IH]; intros n HN HM Hlen Hacc; [split; assumption|].
  destruct Hacc as (n1 & amb & Ha & Hr). cbn [apply_ext]. rewrite Ha. cbn [length] in Hlen.
  destruct (add_block_NInv n b n1 amb HN ltac:(lia) Ha) as (HN1 & Hl1).
  destruct (add_block_MInv n b n1 amb HN HM ltac:(lia) Ha) as (HM1 & _).
  apply (IH n1 HN1 HM1); [lia|exact Hr].
Qed.

(* one delivery, any delivery sequence, every reachable node *)
Lemma deliver_MInv n b now n' out amb : NInv n -> MInv n -> N.of_nat (length (blocks n)) < two64 ->
  deliver cfg genesis_addr team_key n b now = (n', out, amb) -> MInv n'.
Proof.
  intros HN HM Hlen H. unfold deliver in H.
  destruct (prevalidate_block cfg team_key b now); try (injection H as <- _ _; exact HM).
  destruct (add_block' n b) as [[n1 amb1]|c|c] eqn:E; try (injection H as <- _ _; exact HM).
  injection H as <- _ _. eapply add_block_MInv; eassumption.
Qed.

Lemma run_MInv ops : forall n, NInv n -> MInv n -> N.of_nat (length (blocks n) + length ops) <= two64 ->
  MInv (run cfg genesis_addr team_key n ops).
Proof.
  induction ops as [|[b now] ops IH]; intros n HN HM Hlen; cbn [run fold_left fst snd]; [exact HM|].
  destruct (deliver cfg genesis_addr team_key n b now) as [[n1 out] amb] eqn:E. cbn [fst snd]. cbn [length] in Hlen.
  destruct HN as (HC & HF & HH). apply IH.
  - split; [|split].
    + eapply deliver_CInv; [exact HC|exact HF| |exact E]. lia.
    + eapply deliver_inv; eassumption.
    + eapply deliver_HInv; [exact HC|exact HF|exact HH| |exact E]. lia.
  - eapply deliver_MInv; [split; [exact HC|split; [exact HF|exact HH]]|exact HM| |exact E]. lia.
  - apply deliver_len in E. lia.
Qed.

End Reach.

Lemma reachable_MInv cfg genesis_addr team_key g n0 ops :
  node0 cfg genesis_addr g = Ok n0 -> b_height g = 0 -> b_cd g = b_diff g -> N.of_nat (length ops) < two64 - 1 ->
  let n := run cfg genesis_addr team_key n0 ops in NInv (b_hash g) n /\ MInv n.
Proof.
  intros H0 Hg0 Hcd Hlen n.
  pose proof (reachable_invariants cfg genesis_addr team_key g n0 [] H0 Hg0 Hcd ltac:(cbn; unfold two64; lia)) as HN0. cbn in HN0.
  split; [apply (reachable_invariants cfg genesis_addr team_key g n0 ops H0 Hg0 Hcd Hlen)|].
  assert (Hl : length (blocks n0) = 1%nat /\ blocks n0 = [(b_hash g, g)]).
  { unfold node0 in H0. apply apply_block_node_eq in H0. destruct H0 as (l & ->). split; reflexivity. }
  destruct Hl as (Hl & Hbl).
  apply (run_MInv cfg genesis_addr team_key (b_hash g) ops n0 HN0).
  - intros h b Hb. unfold get_block in Hb. rewrite Hbl in Hb. unfold nget in Hb. cbn [aget] in Hb.
    destruct (h =? b_hash g); [|discriminate]. injection Hb as <-. rewrite Hg0. lia.
  - rewrite Hl. unfold two64 in *. lia.
Qed.

Section MainReach.
Variable cfg : config.
Variable genesis_addr team_key gh : N.
Variable peer n0 : node.
Variable shared theirs : list block.
Notation apply_ext' := (apply_ext cfg genesis_addr).
Notation acc_chain' := (acc_chain cfg genesis_addr).
Notation pbd := (parallel_blocks cfg).

Hypothesis HCpeer : chain_structure gh peer.
Hypothesis HN0 : NInv gh n0.
Hypothesis HM0 : MInv n0.
Hypothesis Hlen0 : N.of_nat (length (blocks n0) + length theirs) <= two64.
Hypothesis Hsplit : main_chain peer = shared ++ theirs.
Hypothesis Hshared_ne : shared <> [].
Hypothesis Htheirs_ne : theirs <> [].
Hypothesis Hnz : forall b, In b (shared ++ theirs) -> b_hash b <> 0.
Hypothesis Hshared : forall b, In b shared -> get_block n0 (b_hash b) = Some b.
Hypothesis Hnew : forall b, In b theirs -> get_block n0 (b_hash b) = None.
Hypothesis Hacc : acc_chain' n0 theirs.
Hypothesis Hheavy : forall j, (j < length theirs)%nat -> top_cd (apply_ext' n0 (firstn j theirs)) < top_cd peer.
Hypothesis Hbound : top_h peer + pbd + 2 < two64.
Hypothesis Hpbd : 1 <= pbd.

(* while it accepts the peer's branch our node holds a block at the height just below the frontier *)
Lemma held_from_chains : forall j, (j <= length theirs)%nat ->
  N.of_nat (length shared + j) <= held_height (apply_ext' n0 (firstn j theirs)) + 1.
Proof.
  intros j Hj.
  assert (Haccj : acc_chain' n0 (firstn j theirs)).
  { pose proof Hacc as H. rewrite <- (firstn_skipn j theirs) in H. apply acc_chain_app in H. apply H. }
  destruct (apply_ext_MInv cfg genesis_addr gh (firstn j theirs) n0 HN0 HM0) as (_ & HMj); [|exact Haccj|].
  { pose proof (firstn_le_length j theirs). lia. }
  (* the block of the peer's chain at height (length shared + j - 1) is stored *)
  assert (Hpos : (0 < length shared)%nat) by (destruct shared; [congruence|cbn; lia]).
  set (i := (length shared + j - 1)%nat).
  destruct (nth_error (shared ++ theirs) i) as [o|] eqn:Eo; [|apply nth_error_None in Eo; rewrite app_length in Eo; lia].
  assert (Hho : b_height o = N.of_nat i) by (apply (main_chain_height gh peer HCpeer); rewrite Hsplit; exact Eo).
  assert (Hst : get_block (apply_ext' n0 (firstn j theirs)) (b_hash o) = Some o).
  { destruct (apply_ext_store cfg genesis_addr _ n0 Haccj) as (K1 & K2 & _).
    destruct (Nat.lt_ge_cases i (length shared)) as [Hs|Ht].
    - rewrite nth_error_app1 in Eo by exact Hs. apply K1. apply Hshared. eapply nth_error_In. exact Eo.
    - rewrite nth_error_app2 in Eo by exact Ht. apply K2. rewrite <- (nth_error_nth _ _ dflt_block Eo).
      apply nth_in_firstn; unfold i in *; lia. }
  pose proof (HMj _ _ Hst) as Hle. unfold i in *. lia.
Qed.

Theorem sync_fork_catches_up_chains s :
  sy_node s = n0 -> sy_queue s = [] -> sy_buf s = [] ->
  (sy_diff s < top_cd peer \/ (sy_diff s = top_cd peer /\ sy_height s = top_h peer)) ->
  exists bound, forall now, (forall b, In b (tl (shared ++ theirs)) -> prevalidate_block cfg team_key b now = Ok tt) ->
    (forall k, (bound <= k)%nat ->
       let s' := srounds cfg genesis_addr team_key peer now k s in
       sy_node s' = apply_ext' n0 theirs /\
       (forall b, In b (main_chain peer) -> get_block (sy_node s') (b_hash b) = Some b) /\
       top (sy_node s') = top peer /\ sy_buf s' = [] /\
       srounds cfg genesis_addr team_key peer now (S k) s = s') /\
    (forall m s', (bound <= m)%nat -> prounds cfg genesis_addr team_key peer now m s s' ->
       sy_node s' = apply_ext' n0 theirs /\
       (forall b, In b (main_chain peer) -> get_block (sy_node s') (b_hash b) = Some b) /\
       top (sy_node s') = top peer /\ sy_buf s' = []) /\
    (forall fuel, (bound <= fuel)%nat ->
       top (sy_node (fst (sim cfg genesis_addr team_key fuel peer s [] now))) = top peer).
Proof.
  apply (sync_fork_catches_up cfg genesis_addr team_key gh peer n0 shared theirs HCpeer (proj1 (proj2 HN0)) Hsplit Hshared_ne
           Htheirs_ne Hnz Hshared Hnew Hacc Hheavy Hbound Hpbd held_from_chains).
Qed.

End MainReach.
