(* Proofs about the text form of addresses (property C18). *)
From Virel Require Import Lib.Config Lib.U64 Lib.Digits Model.Address Spec.AddressText.
Open Scope bool_scope.
Open Scope N_scope.

(* Boolean side condition on the configuration; discharged by vm_compute at every generated config:
   addresses have room for the 8-byte delegate id; the wallet prefix is one byte, different from the first
   byte of "burnaddress" and of the delegate prefix; the delegate prefix is not empty and does not start like "burnaddress". *)
Definition cfg_ok_addr (cfg : config) : bool :=
  (8 <=? addr_size cfg) &&
  match wallet_prefix cfg, delegate_prefix cfg with
  | [w], d :: _ => negb (w =? 98) && negb (d =? w) && negb (d =? 98)
  | _, _ => false
  end.

(* ---------------- characters ---------------- *)

Lemma char_digit_digit_char d : d < 36 -> char_digit (digit_char d) = Some d.
Proof.
  intros H. unfold digit_char, char_digit.
  destruct (N.ltb_spec d 10) as [Hd|Hd].
  - replace ((48 <=? 48 + d) && (48 + d <=? 57)) with true by lia. f_equal. lia.
  - replace ((48 <=? 87 + d) && (87 + d <=? 57)) with false by lia.
    replace ((97 <=? 87 + d) && (87 + d <=? 122)) with true by lia. f_equal. lia.
Qed.

Lemma digit_char_not_sign d : (digit_char d =? 43) || (digit_char d =? 45) = false.
Proof. unfold digit_char. destruct (N.ltb_spec d 10); lia. Qed.

Lemma digit_char_48 d : d <> 0 -> digit_char d <> 48.
Proof. unfold digit_char. destruct (N.ltb_spec d 10); lia. Qed.

Lemma chars_digits_map b ds : b <= 36 -> digits_lt b ds -> chars_digits b (map digit_char ds) = Some ds.
Proof.
  intros Hb H. induction H as [|d r Hd _ IH]; [reflexivity|].
  cbn [map chars_digits]. rewrite char_digit_digit_char by lia.
  replace (d <? b) with true by lia. rewrite IH. reflexivity.
Qed.

Lemma chars_digits_zeros b k s : 0 < b ->
  chars_digits b (repeat 48 k ++ s) = option_map (app (repeat 0 k)) (chars_digits b s).
Proof.
  intros Hb. induction k as [|k IH].
  - cbn. destruct (chars_digits b s); reflexivity.
  - cbn [repeat app chars_digits]. change (char_digit 48) with (Some 0). cbv iota beta.
    assert (E : (0 <? b) = true) by lia. rewrite E, IH. destruct (chars_digits b s); reflexivity.
Qed.

(* ---------------- lists ---------------- *)

Lemma list_N_eqb_refl l : list_N_eqb l l = true.
Proof. induction l as [|x l IH]; [reflexivity|]. cbn. rewrite N.eqb_refl. exact IH. Qed.

Lemma list_N_eqb_eq a b : list_N_eqb a b = true <-> a = b.
Proof.
  revert b. induction a as [|x a IH]; intros [|y b]; cbn; split; try congruence; try reflexivity.
  - intros H. apply andb_prop in H. destruct H as [H1 H2]. apply N.eqb_eq in H1. apply IH in H2. congruence.
  - intros [= -> ->]. rewrite N.eqb_refl. apply IH. reflexivity.
Qed.

Lemma has_prefix_app pre s : has_prefix pre (pre ++ s) = true.
Proof. induction pre as [|x pre IH]; [reflexivity|]. cbn. rewrite N.eqb_refl. exact IH. Qed.

Lemma has_prefix_spec pre s : has_prefix pre s = true <-> exists r, s = pre ++ r.
Proof.
  revert s. induction pre as [|x pre IH]; intros s.
  - cbn. split; [intros _; exists s; reflexivity|reflexivity].
  - destruct s as [|y s]; cbn [has_prefix].
    + split; [discriminate|]. intros [r Hr]. discriminate.
    + split.
      * intros H. apply andb_prop in H. destruct H as [H1 H2]. apply N.eqb_eq in H1. apply IH in H2.
        destruct H2 as [r ->]. exists r. subst. reflexivity.
      * intros [r Hr]. cbn in Hr. injection Hr as -> ->. rewrite N.eqb_refl. apply IH. exists r. reflexivity.
Qed.

Lemma skipn_app_exact {A} (l1 l2 : list A) : skipn (length l1) (l1 ++ l2) = l2.
Proof. induction l1; [reflexivity|]. cbn. assumption. Qed.

Lemma firstn_app_exact {A} (l1 l2 : list A) : firstn (length l1) (l1 ++ l2) = l1.
Proof. induction l1; [reflexivity|]. cbn. f_equal. assumption. Qed.

Lemma all_zero_repeat k : all_zero (repeat 0 k) = true.
Proof. induction k; [reflexivity|]. cbn. assumption. Qed.

Lemma all_zero_spec l : all_zero l = true <-> l = repeat 0 (length l).
Proof.
  unfold all_zero. induction l as [|x l IH]; cbn [forallb length repeat]; [split; reflexivity|].
  split.
  - intros H. apply andb_prop in H. destruct H as [H1 H2]. apply N.eqb_eq in H1. apply IH in H2. congruence.
  - intros [= -> H]. apply IH in H. rewrite H. reflexivity.
Qed.

Lemma all_zero_firstn k l : all_zero l = true -> all_zero (firstn k l) = true.
Proof.
  revert k. induction l as [|x l IH]; intros k H; destruct k; try reflexivity.
  cbn in *. apply andb_prop in H. destruct H as [H1 H2]. rewrite H1. apply IH. exact H2.
Qed.

(* a non-zero byte among the first m: fewer than m leading zeros *)
Lemma lead_zeros_lt m l : all_zero (firstn m l) = false -> (lead_zeros l < m)%nat.
Proof.
  revert l. induction m as [|m IH]; intros l H; [discriminate|].
  destruct l as [|x l]; [discriminate|].
  cbn [firstn all_zero forallb] in H. cbn [lead_count].
  destruct (N.eqb_spec x 0) as [->|Hx]; [|lia].
  cbn in H. specialize (IH l H). lia.
Qed.

Lemma lead_zeros_le_length l : (lead_zeros l <= length l)%nat.
Proof. induction l as [|x l IH]; cbn; [lia|]. destruct (x =? 0); cbn; lia. Qed.

Lemma pow256_8 : 256 ^ N.of_nat 8 = two64.
Proof. reflexivity. Qed.

Lemma checksum_lt bs : fst (checksum bs) < 256 /\ snd (checksum bs) < 256.
Proof. unfold checksum. cbn [fst snd]. split; apply N.mod_lt; discriminate. Qed.

Lemma addr_bytes_eq a pid :
  addr_bytes a pid = fst (checksum (a ++ compact_le pid)) :: snd (checksum (a ++ compact_le pid)) :: a ++ compact_le pid.
Proof. unfold addr_bytes. destruct (checksum (a ++ compact_le pid)). reflexivity. Qed.

(* ---------------- payment id: compact little endian ---------------- *)

Lemma compact_le_length pid : pid < two64 -> (length (compact_le pid) <= 8)%nat.
Proof.
  intros H. unfold compact_le. rewrite to_bytes_eq, rev_length.
  apply to_digits_length_le; [lia|]. rewrite pow256_8. exact H.
Qed.

Lemma compact_le_lt pid : digits_lt 256 (compact_le pid).
Proof. unfold compact_le. rewrite to_bytes_eq. apply Forall_rev. apply to_digits_lt. lia. Qed.

Lemma le_u64_compact pid : pid < two64 -> le_u64 (compact_le pid) = pid.
Proof.
  intros H. unfold le_u64. rewrite firstn_all2 by (apply compact_le_length; exact H).
  unfold compact_le. rewrite to_bytes_eq, of_le_rev, rev_involutive. apply of_to_digits. lia.
Qed.

Lemma compact_le_nil pid : compact_le pid = [] -> pid = 0.
Proof.
  unfold compact_le. rewrite to_bytes_eq. intros H.
  apply (to_digits_nil_iff 256); [lia|]. destruct (to_digits 256 pid); [reflexivity|].
  cbn in H. destruct (rev l); discriminate.
Qed.

Section Proofs.
Variable cfg : config.
Hypothesis Hok : cfg_ok_addr cfg = true.

Notation sz := (SZ cfg).

Lemma ok_facts :
  (8 <= sz)%nat /\ addr_size cfg = N.of_nat sz /\
  exists w d dp', wallet_prefix cfg = [w] /\ delegate_prefix cfg = d :: dp' /\ w <> 98 /\ d <> w /\ d <> 98.
Proof.
  unfold cfg_ok_addr in Hok. apply andb_prop in Hok. destruct Hok as [H8 H].
  split; [unfold SZ; lia|]. split; [unfold SZ; rewrite N2Nat.id; reflexivity|].
  destruct (wallet_prefix cfg) as [|w [|? ?]]; try discriminate.
  destruct (delegate_prefix cfg) as [|d dp']; try discriminate.
  exists w, d, dp'. rewrite !andb_true_iff, !negb_true_iff, !N.eqb_neq in H. tauto.
Qed.

(* ---------------- the payload ---------------- *)

Lemma decode_payload_bytes a pid :
  length a = sz -> pid < two64 -> decode_payload cfg (addr_bytes a pid) = POk a pid.
Proof.
  intros Ha Hp. destruct ok_facts as (H8 & Hsz & _).
  rewrite addr_bytes_eq. set (body := a ++ compact_le pid).
  assert (Hlen : length body = (sz + length (compact_le pid))%nat) by (unfold body; rewrite app_length; lia).
  unfold decode_payload, len. cbn [length].
  replace (N.of_nat (S (S (length body))) <? addr_size cfg + 2) with false by lia.
  destruct (checksum body) as [s0 s1]. cbn [fst snd]. rewrite !N.eqb_refl. cbn [negb orb].
  replace (Nat.ltb (length body) sz) with false by (symmetry; apply Nat.ltb_ge; lia).
  assert (Hf : firstn sz body = a) by (unfold body; rewrite <- Ha; apply firstn_app_exact).
  assert (Hs : skipn sz body = compact_le pid) by (unfold body; rewrite <- Ha; apply skipn_app_exact).
  rewrite Hf, Hs. f_equal.
  destruct (N.ltb_spec (addr_size cfg + 2) (N.of_nat (S (S (length body))))) as [Hc|Hc].
  - apply le_u64_compact. exact Hp.
  - symmetry. apply compact_le_nil. destruct (compact_le pid); [reflexivity|cbn [length] in Hlen; lia].
Qed.

(* ---------------- the account form ---------------- *)

(* what SetString(., 36) and the count of leading '0' digits see in a text written by String *)
Lemma set_string_text z ds : canonical 36 ds -> ds <> [] ->
  set_string 36 (repeat 48 z ++ map digit_char ds) = Some (of_digits 36 ds) /\
  lead_count 48 (repeat 48 z ++ map digit_char ds) = z.
Proof.
  intros [Hlt Hhd] Hne. destruct ds as [|d r]; [contradiction|]. cbn [hd] in Hhd.
  split.
  - unfold set_string.
    assert (Hs : strip_sign (repeat 48 z ++ map digit_char (d :: r)) = repeat 48 z ++ map digit_char (d :: r)).
    { destruct z; cbn [repeat app map strip_sign]; [rewrite digit_char_not_sign|]; reflexivity. }
    rewrite Hs.
    assert (Hc : exists c t, repeat 48 z ++ map digit_char (d :: r) = c :: t).
    { destruct z; cbn [repeat app map]; eauto. }
    destruct Hc as (c & t & Hc). rewrite Hc. cbv iota. rewrite <- Hc.
    rewrite chars_digits_zeros by lia. rewrite chars_digits_map by (try lia; exact Hlt).
    cbn [option_map]. f_equal. apply of_digits_zeros.
  - rewrite lead_count_repeat. rewrite lead_count_hd; [lia|].
    cbn [map hd]. apply digit_char_48. exact Hhd.
Qed.

Lemma addr_roundtrip a pid :
  length a = sz -> Forall (fun x => x < 256) a -> is_delegate cfg a = false -> pid < two64 ->
  parse_addr cfg (format_addr cfg a pid) = POk a pid.
Proof.
  intros Ha Hb Hd Hp. destruct ok_facts as (H8 & Hsz & w & d & dp' & Hw & Hdp & Hw98 & Hdw & Hd98).
  unfold format_addr.
  assert (Hz : all_zero a = false).
  { destruct (all_zero a) eqn:E; [|reflexivity]. unfold is_delegate in Hd.
    rewrite all_zero_firstn in Hd by exact E. discriminate. }
  rewrite Hz, Hd.
  assert (HBlt : digits_lt 256 (addr_bytes a pid)).
  { rewrite addr_bytes_eq. destruct (checksum_lt (a ++ compact_le pid)).
    repeat constructor; try assumption. apply Forall_app. split; [exact Hb|apply compact_le_lt]. }
  destruct (lead_zeros_split 256 ltac:(lia) _ HBlt) as [HBsplit HBcan].
  assert (HlenB : length (addr_bytes a pid) = (2 + sz + length (compact_le pid))%nat).
  { rewrite addr_bytes_eq. cbn [length]. rewrite app_length. lia. }
  assert (Hzlt : (lead_zeros (addr_bytes a pid) < sz - 6)%nat).
  { rewrite addr_bytes_eq. cbn [lead_count].
    assert (Hl : (lead_zeros (a ++ compact_le pid) < sz - 8)%nat).
    { apply lead_zeros_lt. rewrite firstn_app. replace (sz - 8 - length a)%nat with O by lia.
      cbn [firstn]. rewrite app_nil_r. exact Hd. }
    destruct (_ =? 0); [|lia]. destruct (_ =? 0); lia. }
  set (B := addr_bytes a pid) in *. set (z := lead_zeros B) in *.
  assert (HI : of_digits 256 B = of_digits 256 (skipn z B)) by (rewrite HBsplit at 1; apply of_digits_zeros).
  assert (HlenB' : length (skipn z B) = (length B - z)%nat) by apply skipn_length.
  assert (HIge : two64 <= of_digits 256 (skipn z B)).
  { destruct HBcan as [_ Hhd]. destruct (skipn z B) as [|d0 r]; [cbn [length] in HlenB'; lia|].
    cbn [hd] in Hhd. pose proof (of_digits_ge 256 d0 r Hhd) as Hge.
    assert (Hpow : 256 ^ N.of_nat 8 <= 256 ^ N.of_nat (length r)) by (apply N.pow_le_mono_r; cbn [length] in HlenB'; lia).
    rewrite pow256_8 in Hpow. lia. }
  unfold num_text. rewrite HI.
  replace (of_digits 256 (skipn z B) =? 0) with false by (unfold two64 in HIge; lia).
  set (I := of_digits 256 (skipn z B)) in *.
  assert (Hcan : canonical 36 (to_digits 36 I)) by (apply to_digits_canonical; lia).
  assert (Hval : of_digits 36 (to_digits 36 I) = I) by (apply of_to_digits; lia).
  assert (Hlen : (3 < length (to_digits 36 I))%nat).
  { apply to_digits_length_ge; [lia|]. change (36 ^ N.of_nat 3) with 46656. unfold two64 in HIge. lia. }
  assert (Hne : to_digits 36 I <> []) by (intros E; rewrite E in Hlen; cbn in Hlen; lia).
  destruct (set_string_text z _ Hcan Hne) as [Hss Hlc].
  rewrite Hw. cbn [app]. unfold parse_addr.
  replace (list_N_eqb (w :: repeat 48 z ++ map digit_char (to_digits 36 I)) burn_text) with false
    by (unfold burn_text; cbn [list_N_eqb]; replace (w =? 98) with false by lia; reflexivity).
  rewrite Hdp. cbn [has_prefix]. replace (d =? w) with false by lia. cbn [andb].
  unfold parse_account.
  replace (len (w :: repeat 48 z ++ map digit_char (to_digits 36 I)) <? 4) with false
    by (unfold len; cbn [length]; rewrite app_length, repeat_length, map_length; lia).
  rewrite Hw. cbn [hd]. rewrite N.eqb_refl. cbn [negb].
  rewrite Hss, Hlc, Hval. rewrite to_bytes_eq. unfold I.
  rewrite to_of_digits by (try lia; exact HBcan). rewrite <- HBsplit.
  apply decode_payload_bytes; assumption.
Qed.

(* ---------------- the delegate and burn forms ---------------- *)

Lemma firstn_repeat_app {A} k (x : A) l : firstn k (repeat x k ++ l) = repeat x k.
Proof. induction k; [reflexivity|]. cbn. f_equal. assumption. Qed.

Lemma skipn_repeat_app {A} k (x : A) l : skipn k (repeat x k ++ l) = l.
Proof. induction k; [reflexivity|]. cbn. assumption. Qed.

Lemma be_u64_length n : length (be_u64 n) = 8%nat.
Proof.
  unfold be_u64. rewrite to_bytes_eq, app_length, repeat_length.
  assert (H : (length (to_digits 256 (n mod two64)) <= 8)%nat).
  { apply to_digits_length_le; [lia|]. rewrite pow256_8. apply N.mod_lt. discriminate. }
  lia.
Qed.

Lemma be_u64_val n : of_digits 256 (be_u64 n) = n mod two64.
Proof. unfold be_u64. rewrite to_bytes_eq, of_digits_zeros. apply of_to_digits. lia. Qed.

Lemma all_zero_val l : all_zero l = true -> of_digits 256 l = 0.
Proof. intros H. apply all_zero_spec in H. rewrite H. apply of_digits_all_zeros. Qed.

Lemma delegate_addr_length id : length (delegate_addr cfg id) = sz.
Proof.
  destruct ok_facts as (H8 & _). unfold delegate_addr. rewrite app_length, repeat_length, be_u64_length. lia.
Qed.

Lemma delegate_addr_is_delegate id : is_delegate cfg (delegate_addr cfg id) = true.
Proof. unfold is_delegate, delegate_addr. rewrite firstn_repeat_app. apply all_zero_repeat. Qed.

Lemma delegate_addr_id id : id < two64 -> delegate_id cfg (delegate_addr cfg id) = id.
Proof.
  intros H. unfold delegate_id, delegate_addr. rewrite skipn_repeat_app, be_u64_val. apply N.mod_small. exact H.
Qed.

Lemma delegate_addr_0 : delegate_addr cfg 0 = zero_addr cfg.
Proof.
  destruct ok_facts as (H8 & _). unfold delegate_addr, zero_addr.
  change (be_u64 0) with (repeat 0 8). rewrite <- repeat_app. f_equal. lia.
Qed.

Lemma burn_roundtrip pid : parse_addr cfg (format_addr cfg (zero_addr cfg) pid) = POk (zero_addr cfg) 0.
Proof.
  unfold format_addr, zero_addr. rewrite all_zero_repeat. unfold parse_addr. rewrite list_N_eqb_refl. reflexivity.
Qed.

Lemma parse_delegate_text ds : canonical 10 ds -> ds <> [] -> of_digits 10 ds < two64 ->
  parse_addr cfg (delegate_prefix cfg ++ map digit_char ds) = POk (delegate_addr cfg (of_digits 10 ds)) 0.
Proof.
  intros [Hlt _] Hne Hv. destruct ok_facts as (H8 & Hsz & w & d & dp' & Hw & Hdp & Hw98 & Hdw & Hd98).
  unfold parse_addr.
  replace (list_N_eqb (delegate_prefix cfg ++ map digit_char ds) burn_text) with false
    by (rewrite Hdp; unfold burn_text; cbn [app list_N_eqb]; replace (d =? 98) with false by lia; reflexivity).
  rewrite has_prefix_app. unfold parse_delegate.
  destruct ds as [|d0 r]; [contradiction|].
  replace (len (delegate_prefix cfg ++ map digit_char (d0 :: r)) <? len (delegate_prefix cfg) + 1) with false
    by (unfold len; rewrite app_length; cbn [map length]; lia).
  rewrite skipn_app_exact. unfold parse_uint10. cbn [map]. cbv iota.
  change (digit_char d0 :: map digit_char r) with (map digit_char (d0 :: r)).
  rewrite chars_digits_map by (try lia; exact Hlt).
  replace (of_digits 10 (d0 :: r) <? two64) with true by lia. reflexivity.
Qed.

Lemma delegate_roundtrip id : id < two64 ->
  parse_addr cfg (format_addr cfg (delegate_addr cfg id) 0) = POk (delegate_addr cfg id) 0.
Proof.
  intros Hid. destruct (N.eq_dec id 0) as [->|Hnz].
  - rewrite delegate_addr_0. apply burn_roundtrip.
  - unfold format_addr.
    assert (Hz : all_zero (delegate_addr cfg id) = false).
    { destruct (all_zero (delegate_addr cfg id)) eqn:E; [|reflexivity].
      apply all_zero_val in E. unfold delegate_addr in E. rewrite of_digits_zeros, be_u64_val in E.
      rewrite N.mod_small in E by exact Hid. contradiction. }
    rewrite Hz, delegate_addr_is_delegate, delegate_addr_id by exact Hid.
    unfold num_text. replace (id =? 0) with false by lia.
    pose proof (of_to_digits 10 ltac:(lia) id) as Hv.
    rewrite <- Hv at 2. apply parse_delegate_text.
    + apply to_digits_canonical. lia.
    + intros E. apply (to_digits_nil_iff 10) in E; [contradiction|lia].
    + rewrite Hv. exact Hid.
Qed.

(* every delegate-form address is the delegate address of its id *)
Lemma delegate_form_addr a :
  length a = sz -> Forall (fun x => x < 256) a -> is_delegate cfg a = true ->
  delegate_id cfg a < two64 /\ delegate_addr cfg (delegate_id cfg a) = a.
Proof.
  intros Ha Hb Hd. destruct ok_facts as (H8 & _).
  unfold is_delegate in Hd. apply all_zero_spec in Hd. rewrite firstn_length, Ha in Hd.
  replace (Nat.min (sz - 8) sz) with (sz - 8)%nat in Hd by lia.
  unfold delegate_id, delegate_addr.
  set (t := skipn (sz - 8) a) in *.
  assert (Hlt : digits_lt 256 t).
  { unfold t. rewrite <- (firstn_skipn (sz - 8) a) in Hb. apply Forall_app in Hb. apply Hb. }
  assert (Hlen : length t = 8%nat) by (unfold t; rewrite skipn_length; lia).
  pose proof (of_digits_lt 256 t Hlt) as Hv. rewrite Hlen, pow256_8 in Hv.
  split; [exact Hv|].
  rewrite <- (firstn_skipn (sz - 8) a) at 1. rewrite Hd. fold t. f_equal.
  unfold be_u64. rewrite N.mod_small by exact Hv. rewrite to_bytes_eq.
  rewrite to_of_digits_strip by (try lia; exact Hlt).
  destruct (lead_zeros_split 256 ltac:(lia) t Hlt) as [Hsplit _].
  pose proof (lead_zeros_le_length t) as Hz.
  rewrite skipn_length, Hlen. replace (8 - (8 - lead_zeros t))%nat with (lead_zeros t) by lia.
  symmetry. exact Hsplit.
Qed.

(* every address: the text reads back as the same address (the payment id is part of the text of account addresses only) *)
Lemma text_roundtrip a pid :
  length a = sz -> Forall (fun x => x < 256) a -> pid < two64 ->
  is_delegate cfg a = false \/ pid = 0 ->
  parse_addr cfg (format_addr cfg a pid) = POk a pid.
Proof.
  intros Ha Hb Hp Hdom. destruct (is_delegate cfg a) eqn:Hd.
  - destruct Hdom as [Hdom| ->]; [discriminate|].
    destruct (delegate_form_addr a Ha Hb Hd) as [Hid Haddr].
    rewrite <- Haddr. apply delegate_roundtrip. exact Hid.
  - apply addr_roundtrip; assumption.
Qed.

(* so two different (address, payment id) never share a text *)
Lemma format_injective a pid a' pid' :
  length a = sz -> Forall (fun x => x < 256) a -> pid < two64 -> is_delegate cfg a = false \/ pid = 0 ->
  length a' = sz -> Forall (fun x => x < 256) a' -> pid' < two64 -> is_delegate cfg a' = false \/ pid' = 0 ->
  format_addr cfg a pid = format_addr cfg a' pid' -> a = a' /\ pid = pid'.
Proof.
  intros Ha Hb Hp Hd Ha' Hb' Hp' Hd' E.
  pose proof (text_roundtrip a pid Ha Hb Hp Hd) as R. rewrite E in R.
  rewrite (text_roundtrip a' pid' Ha' Hb' Hp' Hd') in R. injection R as -> ->. split; reflexivity.
Qed.

(* the repair leaves the text of an account address unchanged unless its checksum starts with a zero byte:
   then (and only then) leading '0' digits appear *)
Lemma format_without_zero_checksum a pid :
  is_delegate cfg a = false -> fst (checksum (a ++ compact_le pid)) <> 0 ->
  format_addr cfg a pid = wallet_prefix cfg ++ num_text 36 (of_digits 256 (addr_bytes a pid)).
Proof.
  intros Hd Hc. unfold format_addr.
  assert (Hz : all_zero a = false).
  { destruct (all_zero a) eqn:E; [|reflexivity]. unfold is_delegate in Hd.
    rewrite all_zero_firstn in Hd by exact E. discriminate. }
  rewrite Hz, Hd. rewrite addr_bytes_eq at 1. cbn [lead_count].
  destruct (N.eqb_spec (fst (checksum (a ++ compact_le pid))) 0); [contradiction|]. reflexivity.
Qed.

End Proofs.

(* ---------------- parsing never panics (no side condition on the configuration) ---------------- *)

Lemma decode_payload_total cfg data : decode_payload cfg data <> PPanic.
Proof.
  unfold decode_payload. destruct (len data <? addr_size cfg + 2) eqn:E; [discriminate|].
  destruct data as [|d0 [|d1 body]]; try (exfalso; unfold len in E; cbn [length] in E; lia).
  destruct (checksum body). destruct (_ || _); [discriminate|].
  destruct (Nat.ltb (length body) (SZ cfg)) eqn:E2; [exfalso|discriminate].
  apply Nat.ltb_lt in E2. unfold len in E. cbn [length] in E. unfold SZ in E2. lia.
Qed.

Lemma parse_total cfg p : parse_addr cfg p <> PPanic.
Proof.
  unfold parse_addr. destruct (list_N_eqb p burn_text); [discriminate|].
  destruct (has_prefix (delegate_prefix cfg) p).
  - unfold parse_delegate. destruct (_ <? _); [discriminate|]. destruct (parse_uint10 _); discriminate.
  - unfold parse_account. destruct (len p <? 4) eqn:E; [discriminate|].
    destruct p as [|c s]; [discriminate E|]. destruct (negb _); [discriminate|].
    destruct (set_string 36 s); [|discriminate]. apply decode_payload_total.
Qed.

(* ---------------- FromString decides the specification Spec/AddressText.v ---------------- *)

Lemma char_digit_spec c d : char_digit c = Some d <-> b36_char c /\ d = char_val c.
Proof.
  unfold char_digit, b36_char, char_val.
  destruct (N.leb_spec 48 c), (N.leb_spec c 57), (N.leb_spec 97 c), (N.leb_spec c 122),
           (N.leb_spec 65 c), (N.leb_spec c 90); cbn [andb]; try (exfalso; lia);
  (split; [intros E; first [discriminate E | injection E as <-; split; [lia|reflexivity]]
          | intros [Hc ->]; first [reflexivity | exfalso; lia]]).
Qed.

Lemma dec_char_iff c : b36_char c /\ char_val c < 10 <-> dec_char c.
Proof. unfold b36_char, char_val, dec_char. destruct (N.leb_spec c 57), (N.leb_spec c 90); lia. Qed.

Lemma b36_char_val c : b36_char c -> char_val c < 36.
Proof. unfold b36_char, char_val. destruct (N.leb_spec c 57), (N.leb_spec c 90); lia. Qed.

Lemma chars_digits_spec b s : forall v,
  chars_digits b s = Some v <-> Forall (fun c => b36_char c /\ char_val c < b) s /\ v = map char_val s.
Proof.
  induction s as [|c s IH]; intros v.
  - cbn. split; [intros [= <-]; split; [constructor|reflexivity]|intros [_ ->]; reflexivity].
  - cbn [chars_digits map]. destruct (char_digit c) as [d|] eqn:E.
    + apply char_digit_spec in E. destruct E as [Hc ->].
      destruct (N.ltb_spec (char_val c) b) as [Hlt|Hge].
      * destruct (chars_digits b s) as [v'|].
        -- split.
           ++ intros [= <-]. destruct (proj1 (IH v') eq_refl) as [HF ->].
              split; [constructor; [split; assumption|assumption]|reflexivity].
           ++ intros [HF ->]. inversion HF as [|? ? _ HF']; subst.
              pose proof (proj2 (IH _) (conj HF' eq_refl)) as E. injection E as ->. reflexivity.
        -- split; [discriminate|]. intros [HF _]. inversion HF as [|? ? _ HF']; subst.
           pose proof (proj2 (IH _) (conj HF' eq_refl)) as E. discriminate E.
      * split; [discriminate|]. intros [HF _]. inversion HF as [|? ? [_ Hlt] _]; subst. lia.
    + split; [discriminate|]. intros [HF _]. inversion HF as [|? ? [Hc _] _]; subst.
      pose proof (proj2 (char_digit_spec c _) (conj Hc eq_refl)) as E'. congruence.
Qed.

Lemma chars_digits_10 s v : chars_digits 10 s = Some v <-> Forall dec_char s /\ v = map char_val s.
Proof.
  rewrite chars_digits_spec. split; intros [HF ->]; (split; [|reflexivity]);
    revert HF; apply Forall_impl; intros c; apply dec_char_iff.
Qed.

Lemma chars_digits_36 s v : chars_digits 36 s = Some v <-> Forall b36_char s /\ v = map char_val s.
Proof.
  rewrite chars_digits_spec. split; intros [HF ->]; (split; [|reflexivity]);
    revert HF; apply Forall_impl; intros c.
  - intros [H _]. exact H.
  - intros H. split; [exact H|apply b36_char_val; exact H].
Qed.

Lemma set_string_spec s v :
  set_string 36 s = Some v <->
  exists sg ds, s = sg ++ ds /\ (sg = [] \/ sg = [43] \/ sg = [45]) /\ ds <> [] /\ Forall b36_char ds /\ v = numeral 36 ds.
Proof.
  unfold set_string, numeral. split.
  - destruct s as [|c r]; [discriminate|]. cbn [strip_sign].
    destruct ((c =? 43) || (c =? 45)) eqn:Es.
    + destruct r as [|c' r']; [discriminate|].
      destruct (chars_digits 36 (c' :: r')) as [v0|] eqn:Ec; [|discriminate].
      intros [= <-]. apply chars_digits_36 in Ec. destruct Ec as [HF ->].
      exists [c], (c' :: r'). split; [reflexivity|]. split; [|split; [discriminate|split; [exact HF|reflexivity]]].
      assert (Hc : c = 43 \/ c = 45) by lia. destruct Hc as [-> | ->]; auto.
    + destruct (chars_digits 36 (c :: r)) as [v0|] eqn:Ec; [|discriminate].
      intros [= <-]. apply chars_digits_36 in Ec. destruct Ec as [HF ->].
      exists [], (c :: r). split; [reflexivity|]. split; [auto|]. split; [discriminate|]. split; [exact HF|reflexivity].
  - intros (sg & ds & -> & Hsg & Hne & HF & ->).
    destruct ds as [|c0 r0]; [contradiction|].
    assert (Hs : strip_sign (sg ++ c0 :: r0) = c0 :: r0).
    { destruct Hsg as [-> | [-> | ->]]; cbn [app strip_sign]; try reflexivity.
      inversion HF as [|? ? Hc _]; subst. unfold b36_char in Hc.
      replace ((c0 =? 43) || (c0 =? 45)) with false by lia. reflexivity. }
    rewrite Hs. rewrite (proj2 (chars_digits_36 (c0 :: r0) _) (conj HF eq_refl)). reflexivity.
Qed.

Lemma decode_payload_spec cfg data a pid : decode_payload cfg data = POk a pid <-> payload_of cfg data a pid.
Proof.
  assert (Hsz : addr_size cfg = N.of_nat (SZ cfg)) by (unfold SZ; rewrite N2Nat.id; reflexivity).
  unfold decode_payload, payload_of. split.
  - destruct (len data <? addr_size cfg + 2) eqn:E; [discriminate|].
    destruct data as [|d0 [|d1 body]]; try discriminate.
    destruct (checksum body) as [s0 s1] eqn:Ec.
    destruct (negb (d0 =? s0) || negb (d1 =? s1)) eqn:En; [discriminate|].
    destruct (Nat.ltb (length body) (SZ cfg)) eqn:El; [discriminate|].
    apply orb_false_iff in En. destruct En as [E1 E2]. apply negb_false_iff in E1, E2.
    apply N.eqb_eq in E1, E2. subst s0 s1.
    intros [= <- <-]. exists d0, d1, body. apply Nat.ltb_ge in El.
    split; [reflexivity|]. split; [exact Ec|]. split; [exact El|]. split; [reflexivity|].
    destruct (addr_size cfg + 2 <? len (d0 :: d1 :: body)) eqn:Ep; [reflexivity|].
    unfold len in Ep. cbn [length] in Ep. rewrite skipn_all2 by lia. reflexivity.
  - intros (c0 & c1 & body & -> & Hc & Hl & -> & ->).
    unfold len. cbn [length]. replace (N.of_nat (S (S (length body))) <? addr_size cfg + 2) with false by lia.
    rewrite Hc, !N.eqb_refl. cbn [negb orb].
    replace (Nat.ltb (length body) (SZ cfg)) with false by (symmetry; apply Nat.ltb_ge; exact Hl).
    f_equal. destruct (addr_size cfg + 2 <? N.of_nat (S (S (length body)))) eqn:Ep; [reflexivity|].
    rewrite skipn_all2 by lia. reflexivity.
Qed.

Section Accepts.
Variable cfg : config.
Hypothesis Hok : cfg_ok_addr cfg = true.

Theorem parse_accepts_iff t a pid : parse_addr cfg t = POk a pid <-> denotes cfg t a pid.
Proof.
  destruct (ok_facts cfg Hok) as (H8 & Hsz & w & d & dp' & Hw & Hdp & Hw98 & Hdw & Hd98).
  split.
  - unfold parse_addr. destruct (list_N_eqb t burn_text) eqn:Eb.
    { apply list_N_eqb_eq in Eb. intros [= <- <-]. apply DBurn; auto. }
    destruct (has_prefix (delegate_prefix cfg) t) eqn:Ep.
    + apply has_prefix_spec in Ep. destruct Ep as [r ->]. unfold parse_delegate.
      destruct (_ <? _); [discriminate|]. rewrite skipn_app_exact. unfold parse_uint10.
      destruct r as [|c r']; [discriminate|].
      destruct (chars_digits 10 (c :: r')) as [v|] eqn:Ec; [|discriminate].
      destruct (of_digits 10 v <? two64) eqn:Ev; [|discriminate].
      intros [= <- <-]. apply chars_digits_10 in Ec. destruct Ec as [HF ->].
      apply (DDelegate cfg _ _ _ (c :: r')); auto; [discriminate|unfold numeral; lia].
    + unfold parse_account. destruct (len t <? 4) eqn:E4; [discriminate|].
      destruct t as [|c s]; [discriminate|].
      destruct (negb (c =? hd 0 (wallet_prefix cfg))) eqn:Ew; [discriminate|].
      destruct (set_string 36 s) as [v|] eqn:Es; [|discriminate].
      intros Hd. apply set_string_spec in Es. destruct Es as (sg & ds & -> & Hsg & Hne & HF & ->).
      apply decode_payload_spec in Hd. rewrite to_bytes_eq in Hd.
      rewrite Hw in Ew. cbn [hd] in Ew. assert (c = w) by lia. subst c.
      apply (DAccount cfg _ _ _ sg ds); auto.
      * rewrite Hw. reflexivity.
      * unfold len in E4. lia.
  - intros [-> -> -> | ds -> Hne HF Hv -> -> | sg ds -> Hsg Hne HF H4 Hp].
    + unfold parse_addr. rewrite list_N_eqb_refl. reflexivity.
    + unfold parse_addr.
      replace (list_N_eqb (delegate_prefix cfg ++ ds) burn_text) with false
        by (rewrite Hdp; unfold burn_text; cbn [app list_N_eqb]; replace (d =? 98) with false by lia; reflexivity).
      rewrite has_prefix_app. unfold parse_delegate.
      destruct ds as [|c r]; [contradiction|].
      replace (len (delegate_prefix cfg ++ c :: r) <? len (delegate_prefix cfg) + 1) with false
        by (unfold len; rewrite app_length; cbn [length]; lia).
      rewrite skipn_app_exact. unfold parse_uint10.
      rewrite (proj2 (chars_digits_10 (c :: r) _) (conj HF eq_refl)).
      unfold numeral in Hv. replace (of_digits 10 (map char_val (c :: r)) <? two64) with true by lia.
      reflexivity.
    + rewrite Hw in *. cbn [app] in *. unfold parse_addr.
      replace (list_N_eqb (w :: sg ++ ds) burn_text) with false
        by (unfold burn_text; cbn [list_N_eqb]; replace (w =? 98) with false by lia; reflexivity).
      rewrite Hdp. cbn [has_prefix]. replace (d =? w) with false by lia. cbn [andb].
      unfold parse_account.
      replace (len (w :: sg ++ ds) <? 4) with false by (unfold len; lia).
      rewrite Hw. cbn [hd]. rewrite N.eqb_refl. cbn [negb].
      rewrite (proj2 (set_string_spec (sg ++ ds) _)) by (exists sg, ds; auto).
      rewrite to_bytes_eq. apply decode_payload_spec. exact Hp.
Qed.

(* what is proved of the error detection: whatever follows the wallet prefix (so: every substitution, deletion
   or insertion behind the first character of an account text), the text is accepted only if the bytes it
   decodes to carry a matching 16-bit checksum *)
Lemma edit_detection_partial t a pid :
  hd_error t = hd_error (wallet_prefix cfg) -> parse_addr cfg t = POk a pid ->
  exists sg ds, t = wallet_prefix cfg ++ sg ++ ds /\ (sg = [] \/ sg = [43] \/ sg = [45]) /\ Forall b36_char ds /\
    payload_of cfg (repeat 0 (lead_count 48 (sg ++ ds)) ++ to_digits 256 (numeral 36 ds)) a pid.
Proof.
  destruct (ok_facts cfg Hok) as (H8 & Hsz & w & d & dp' & Hw & Hdp & Hw98 & Hdw & Hd98).
  intros Hhd Hp. apply parse_accepts_iff in Hp.
  rewrite Hw in Hhd. destruct Hp as [-> _ _ | ds -> _ _ _ _ _ | sg ds -> Hsg Hne HF H4 Hp].
  - cbn in Hhd. congruence.
  - rewrite Hdp in Hhd. cbn in Hhd. congruence.
  - exists sg, ds. auto.
Qed.

End Accepts.
