(* Property C03 / C10, "the ledger is the replay of the main chain", fourth part: the invariant along every delivery
   sequence.  For every node state reachable from node0 by deliveries, the blocks of the main chain (mchain of
   Proofs/Replay3.v) apply one after the other to the genesis ledger, each with top height = its height - 1, and the
   result agrees with the node's ledger on accounts (as functions), delegate table (as a list) and staked total -
   whatever route (extensions, reorganisations, refused blocks) the node took.

   Premises on the stored blocks (all of them facts about the final block store; the store only grows):
   every transaction of a stored block is well formed (uint64-typed amounts, overflow-free total, fee > 0, version
   byte of its payload kind, staked amount > 0), and along every chain of stored blocks from genesis the block hashes
   and transaction ids are pairwise distinct and the counters cannot wrap. *)
From Coq Require Import Sorting.Sorted.
From Virel Require Import Lib.Config Lib.U64 Lib.AMap Lib.CheckLib Model.Emission Model.Ledger Model.Node Spec.Chain
  Proofs.AMapLemmas Proofs.Emission Proofs.Conservation Proofs.Pointwise Proofs.Staking Proofs.StakedSum
  Proofs.NodeBasics Proofs.ForkChoice Proofs.Restart Proofs.ChainInv Proofs.ChainRun Proofs.ChainHeights
  Proofs.Undo Proofs.Undo2 Proofs.Undo4 Proofs.Replay1 Proofs.Replay2 Proofs.Replay3.
Open Scope N_scope.
Open Scope bool_scope.

(* the delegate-history keys of a block, and the counters it can advance *)
Definition bkeys (b : block) : list N := b_hash b :: map tx_id (b_txs b).
Definition bnouts (bs : list block) : N := fold_right (fun b acc => nouts_sum (b_txs b) + 4 + acc) 0 bs.
Definition bntx (bs : list block) : N := fold_right (fun b acc => N.of_nat (length (b_txs b)) + acc) 0 bs.

Lemma chain_keys_lbs n bs : chain_keys (lbs n bs) = flat_map bkeys bs.
Proof. induction bs as [|b bs IH]; [reflexivity|]. cbn [lbs map chain_keys flat_map]. fold (lbs n bs). fold (chain_keys (lbs n bs)). rewrite IH. reflexivity. Qed.
Lemma chain_nouts_lbs n bs : chain_nouts (lbs n bs) = bnouts bs.
Proof. induction bs as [|b bs IH]; [reflexivity|]. cbn [lbs map chain_nouts bnouts fold_right]. fold (lbs n bs). fold (chain_nouts (lbs n bs)). rewrite IH. reflexivity. Qed.
Lemma chain_ntx_lbs n bs : chain_ntx (lbs n bs) = bntx bs.
Proof. induction bs as [|b bs IH]; [reflexivity|]. cbn [lbs map chain_ntx bntx fold_right]. fold (lbs n bs). fold (chain_ntx (lbs n bs)). rewrite IH. reflexivity. Qed.

Section Paths.
Variable gh : N.

Lemma up_app bl a : forall x b, up gh bl x (a ++ b) <-> up gh bl x a /\ up gh bl (last_hash x a) b.
Proof.
  induction a as [|c a IH]; intros x b; cbn [app up].
  - unfold last_hash. cbn. tauto.
  - rewrite IH. unfold last_hash. cbn [fold_left]. tauto.
Qed.

Lemma up_mono bl bl' : (forall h v, nget bl h = Some v -> nget bl' h = Some v) ->
  forall r x, up gh bl x r -> up gh bl' x r.
Proof.
  intros Hm. induction r as [|c r IH]; intros x; cbn [up]; [exact (fun H => H)|].
  intros (Hc & Hp & Hn & Hr). split; [apply Hm; exact Hc|]. split; [exact Hp|]. split; [exact Hn|apply IH; exact Hr].
Qed.

Lemma up_stored bl r : forall x c, up gh bl x r -> In c r -> nget bl (b_hash c) = Some c.
Proof.
  induction r as [|d r IH]; intros x c; cbn [up In]; [intros _ []|].
  intros (Hd & _ & _ & Hr) [<-|Hin]; [exact Hd|apply (IH _ _ Hr Hin)].
Qed.

Lemma up_parent_stored bl r : forall x c, nget bl x <> None -> up gh bl x r -> In c r -> nget bl (prev_hash c) <> None.
Proof.
  induction r as [|d r IH]; intros x c Hx; cbn [up In]; [intros _ []|].
  intros (Hd & Hp & _ & Hr) [<-|Hin]; [rewrite Hp; exact Hx|].
  apply (IH (b_hash d) c); [rewrite Hd; discriminate|exact Hr|exact Hin].
Qed.

(* heights along a path *)
Lemma up_last_height bl r : forall x xb lb',
  BInv gh bl -> nget bl x = Some xb -> up gh bl x r -> nget bl (last_hash x r) = Some lb' ->
  b_height lb' = b_height xb + N.of_nat (length r).
Proof.
  induction r as [|c r IH]; intros x xb lb' HB Hx; cbn [up length].
  - unfold last_hash. cbn. intros _ Hl. rewrite Hx in Hl. injection Hl as <-. lia.
  - intros (Hc & Hp & Hn & Hr) Hl. unfold last_hash in Hl. cbn [fold_left] in Hl. fold (last_hash (b_hash c) r) in Hl.
    rewrite (IH (b_hash c) c lb' HB Hc Hr Hl).
    destruct HB as (_ & _ & Hpar & _). destruct (Hpar _ _ Hc Hn) as (p & Hpp & Hph).
    rewrite Hp, Hx in Hpp. injection Hpp as <-. lia.
Qed.

Lemma up_heights n bl r : forall x xb,
  BInv gh bl -> nget bl x = Some xb -> up gh bl x r -> heights_from (N.to_nat (b_height xb)) (lbs n r).
Proof.
  induction r as [|c r IH]; intros x xb HB Hx; cbn [up lbs map heights_from]; [exact (fun _ => I)|].
  intros (Hc & Hp & Hn & Hr).
  assert (Hh : b_height c = b_height xb + 1).
  { destruct HB as (_ & _ & Hpar & _). destruct (Hpar _ _ Hc Hn) as (p & Hpp & Hph).
    rewrite Hp, Hx in Hpp. injection Hpp as <-. exact Hph. }
  split; [change (lb_height (lb_of n c)) with (b_height c); lia|].
  specialize (IH (b_hash c) c HB Hc Hr). replace (N.to_nat (b_height c)) with (S (N.to_nat (b_height xb))) in IH by lia.
  exact IH.
Qed.

(* the lottery values of a path do not change when the store grows *)
Lemma lbs_store_ext n n' r : forall x,
  (forall h v, nget (blocks n) h = Some v -> nget (blocks n') h = Some v) ->
  nget (blocks n) x <> None -> up gh (blocks n) x r -> lbs n' r = lbs n r.
Proof.
  intros x Hm Hx Hup. unfold lbs. apply map_ext_in. intros c Hin.
  pose proof (up_parent_stored _ _ _ _ Hx Hup Hin) as Hp.
  unfold lb_of, lottery_of, get_block. destruct (nget (blocks n) (prev_hash c)) as [p|] eqn:Ep; [|congruence].
  rewrite (Hm _ _ Ep). reflexivity.
Qed.

(* the main chain is a path from genesis *)
Lemma chain_upto_up bl tp x bx k :
  BInv gh bl -> TInv gh bl tp x -> nget bl x = Some bx -> (k <= N.to_nat (b_height bx))%nat ->
  up gh bl gh (chain_upto bl tp k) /\ nget tp (N.of_nat k) = Some (last_hash gh (chain_upto bl tp k)).
Proof.
  intros HB HT Hbx. induction k as [|k IH]; intros Hle.
  - cbn [chain_upto up]. split; [exact I|]. destruct HT as (_ & _ & _ & _ & _ & H0 & _). exact H0.
  - destruct (IH ltac:(lia)) as [Hup Hlast].
    destruct (TInv_step gh bl tp x bx k HT Hbx Hle) as (y & yb & Hy & Hyb & Hyh & Hyp & ->).
    assert (Hk : b_hash yb = y) by (destruct HB as (Hk & _); apply (Hk _ _ Hyb)).
    split.
    + apply up_app. split; [exact Hup|]. cbn [up]. rewrite Hk. split; [exact Hyb|]. split; [|split; [|exact I]].
      * rewrite Hlast in Hyp. injection Hyp as <-. reflexivity.
      * intros Eg. destruct HB as (_ & (g & Hg & Hg0) & _). rewrite Eg in Hyb. rewrite Hg in Hyb. injection Hyb as <-. lia.
    + rewrite last_hash_snoc, Hk. exact Hy.
Qed.

Lemma firstn_chain_upto bl tp x bx K : TInv gh bl tp x -> nget bl x = Some bx -> (K <= N.to_nat (b_height bx))%nat ->
  forall kc, (kc <= K)%nat -> firstn kc (chain_upto bl tp K) = chain_upto bl tp kc.
Proof.
  intros HT Hbx. induction K as [|K IH]; intros HK kc Hkc.
  - replace kc with 0%nat by lia. reflexivity.
  - destruct (Nat.eq_dec kc (S K)) as [->|Hne].
    + apply firstn_all2. rewrite (chain_upto_length gh bl tp x bx (S K) HT Hbx HK). apply le_n.
    + destruct (TInv_step gh bl tp x bx K HT Hbx HK) as (y & yb & _ & _ & _ & _ & ->).
      rewrite firstn_app, (chain_upto_length gh bl tp x bx K HT Hbx ltac:(lia)).
      replace (kc - K)%nat with 0%nat by lia. cbn [firstn]. rewrite app_nil_r. apply IH; lia.
Qed.

End Paths.

Section Main.
Variable cfg : config.
Variable genesis_addr team_key : N.
Hypothesis Hok : cfg_ok_emission cfg = true.
Variable g : block.             (* the genesis block *)
Variable l0 : ledger.           (* the ledger after the genesis block *)
Notation gh := (b_hash g).

(* bound on the counters of the genesis ledger *)
Definition c0 : N := nouts_sum (b_txs g) + 4 + N.of_nat (length (b_txs g)).

(* ---- the premises on a block store ---- *)
Definition store_pre (bl : list (N * block)) : Prop :=
  (forall h b, nget bl h = Some b -> Forall (tx_c cfg) (b_txs b)) /\
  (forall bs, up gh bl gh bs ->
     NoDup (bkeys g ++ flat_map bkeys bs) /\ c0 + bnouts bs < two64 /\ c0 + bntx bs < two64).

Lemma store_pre_mono bl bl' :
  (forall h v, nget bl h = Some v -> nget bl' h = Some v) -> store_pre bl' -> store_pre bl.
Proof.
  intros Hm (H1 & H2). split.
  - intros h b Hb. apply (H1 h b). apply Hm. exact Hb.
  - intros bs Hup. apply H2. apply (up_mono gh bl bl' Hm). exact Hup.
Qed.

Notation RInv := (RInv cfg genesis_addr l0).
Notation chain_ok := (chain_ok cfg (bkeys g) c0).

Lemma path_chain_ok n r :
  BInv gh (blocks n) -> store_pre (blocks n) -> up gh (blocks n) gh r -> chain_ok (lbs n r).
Proof.
  intros HB (Hp1 & Hp2) Hup. destruct (Hp2 r Hup) as (Hnd & Hc1 & Hc2).
  pose proof HB as (_ & (gb & Hg & Hg0) & _).
  split; [|split; [|split; [|split]]].
  - pose proof (up_heights gh n (blocks n) r gh gb HB Hg Hup) as Hh. rewrite Hg0 in Hh. exact Hh.
  - unfold blocks_c, lbs. rewrite Forall_map. rewrite Forall_forall. intros c Hin.
    change (lb_txs (lb_of n c)) with (b_txs c). apply (Hp1 (b_hash c) c). apply (up_stored gh _ _ _ _ Hup Hin).
  - rewrite chain_keys_lbs. exact Hnd.
  - rewrite chain_nouts_lbs. exact Hc1.
  - rewrite chain_ntx_lbs. exact Hc2.
Qed.

(* ---- the genesis ledger ---- *)
Lemma genesis_base n0 :
  node0 cfg genesis_addr g = Ok n0 -> b_height g = 0 -> l0 = ldg n0 -> store_pre (blocks n0) ->
  base_ok cfg l0 (bkeys g) c0.
Proof.
  intros H0 Hg0 -> (Hp1 & Hp2). unfold node0, apply_block_node in H0. bind_inv H0. rename a into l. injection H0 as <-.
  cbn [ldg top_h set_ldg] in E |- *.
  match type of E with apply_block _ _ _ ?B _ = _ => set (glb := B) in * end.
  assert (Hgs : Forall (tx_c cfg) (b_txs g)).
  { apply (Hp1 gh g). unfold nget. cbn. rewrite N.eqb_refl. reflexivity. }
  destruct (Hp2 [] I) as (Hnd & Hc1 & _). cbn [flat_map bnouts fold_right] in Hnd, Hc1. rewrite app_nil_r in Hnd.
  assert (Htxok : Forall (tx_ok cfg) (lb_txs glb)).
  { change (lb_txs glb) with (b_txs g). eapply Forall_impl; [|exact Hgs]. intros t ((Hwf & Htot & _) & _). split; assumption. }
  assert (Hsp : Forall stake_pos (lb_txs glb)).
  { change (lb_txs glb) with (b_txs g). eapply Forall_impl; [|exact Hgs]. intros t (_ & X). exact X. }
  assert (Hroom : total_bal ledger0 + reward cfg (lb_height glb) <= max_supply cfg).
  { change (lb_height glb) with (b_height g). rewrite Hg0. change (total_bal ledger0) with 0. rewrite N.add_0_l.
    change (reward cfg 0) with (sum_rewards cfg 0). apply (sum_rewards_le_max cfg Hok). }
  destruct PInv0 as (HS0 & HP0 & HU0).
  unfold bkeys in Hnd. inversion Hnd as [|? ? Hbh Hndt]; subst.
  assert (Hhyps : block_hyps cfg ledger0 glb).
  { split; [exact Hok|]. split; [exact HS0|]. split; [exact HP0|]. split; [exact HU0|]. split; [exact Hroom|].
    split; [exact Htxok|]. split; [exact Hsp|]. split; [exact Hndt|]. split; [exact Hbh|].
    unfold c0 in Hc1. change (lb_txs glb) with (b_txs g).
    split; intros a; change (acct_at ledger0 a) with acct0; cbn [inc nonce acct0]; lia. }
  split; [|split; [|split]].
  - exact (apply_block_PInv cfg genesis_addr Hok _ _ _ _ Hroom Htxok Hsp PInv0 E).
  - rewrite (apply_block_total cfg genesis_addr Hok _ _ _ _ Hroom Htxok E).
    change (lb_height glb) with (b_height g). rewrite Hg0. reflexivity.
  - intros k v Hkv. destruct (in_dec N.eq_dec k (bkeys g)) as [Hin|Hnin]; [exact Hin|exfalso].
    rewrite (apply_block_dhist cfg genesis_addr _ _ _ _ k E Hnin) in Hkv. discriminate Hkv.
  - intros a. destruct (apply_block_frame cfg genesis_addr _ _ _ _ Hhyps E a) as [Hi Hn].
    change (acct_at ledger0 a) with acct0 in Hi, Hn. cbn [inc nonce acct0] in Hi, Hn.
    change (lb_txs glb) with (b_txs g) in Hi, Hn. unfold c0. split; lia.
Qed.

(* ---- the invariant ---- *)
Definition NJ (n : node) : Prop := RInv (lbs n (mchain n)) (ldg n).

Definition store_le (n n' : node) : Prop := forall h v, nget (blocks n) h = Some v -> nget (blocks n') h = Some v.

(* the main chain of a consistent node is a path; its blocks and lottery values survive a growth of the store *)
Lemma mchain_up n : CInv gh n -> HInv n -> up gh (blocks n) gh (mchain n).
Proof.
  intros (HB & HT) (Hh & _). pose proof HT as (_ & t & Ht & _). unfold mchain. rewrite <- (Hh t Ht).
  apply (chain_upto_up gh _ _ _ _ _ HB HT Ht (le_n _)).
Qed.

Lemma genesis_stored n : CInv gh n -> nget (blocks n) gh <> None.
Proof. intros ((_ & (gb & Hg & _) & _) & _). rewrite Hg. discriminate. Qed.

(* ---- extension of the main chain ---- *)
Lemma add_mainchain_NJ n b prev n' :
  CInv gh n -> HInv n -> N.of_nat (length (blocks n)) < two64 ->
  get_block n (b_hash b) = None -> get_block n (prev_hash b) = Some prev -> check_block cfg n b prev = Ok tt ->
  prev_hash b = top n ->
  add_mainchain_block cfg genesis_addr n b = Ok n' ->
  Forall (tx_c cfg) (b_txs b) -> NJ n -> NJ n'.
Proof.
  intros HC HH Hlen Hnew Hprev Hcb Emain H Htx HJ. pose proof HC as (HB & HT). pose proof HH as (Hh & _).
  unfold get_block in Hnew, Hprev.
  pose proof (check_block_height cfg _ _ _ Hcb) as Hhw.
  assert (Hh' : b_height b = b_height prev + 1).
  { destruct HB as (_ & _ & _ & Hb). pose proof (Hb _ _ Hprev). rewrite wadd_small in Hhw; lia. }
  assert (Htoph : top_h n = b_height prev) by (symmetry; apply Hh; unfold get_block; rewrite <- Emain; exact Hprev).
  unfold add_mainchain_block in H. bind_inv H. injection H as <-. rename a into n1.
  unfold apply_block_node in E. bind_inv E. rename a into l1. injection E as <-.
  match goal with Hx : apply_block _ _ _ _ _ = Ok l1 |- _ => rename Hx into Eab end.
  set (n' := set_topo _ _).
  assert (Hsle : store_le n n').
  { intros h v Hv. unfold n'. cbn [blocks set_topo set_blocks set_top set_ldg]. apply nget_nset_keep; assumption. }
  assert (Hm : mchain n' = mchain n ++ [b]).
  { unfold mchain, n'. cbn [blocks topo top_h set_topo set_blocks set_top set_ldg].
    replace (N.to_nat (b_height b)) with (S (N.to_nat (top_h n))) by lia. cbn [chain_upto].
    replace (N.of_nat (S (N.to_nat (top_h n)))) with (b_height b) by lia.
    rewrite !nget_nset_same. f_equal.
    rewrite (chain_upto_tp_ext _ (topo n) (nset (topo n) (b_height b) (b_hash b))).
    2:{ intros j Hj. rewrite nget_nset. destruct (N.eqb_spec (N.of_nat j) (b_height b)); [lia|reflexivity]. }
    apply chain_upto_bl_ext. intros j y Hj Hy.
    destruct (TInv_entry gh _ _ _ _ _ HT Hy) as (yb & Hyb & _).
    rewrite nget_nset. destruct (N.eqb_spec y (b_hash b)) as [->|_]; [congruence|reflexivity]. }
  unfold NJ. rewrite Hm. unfold lbs. rewrite map_app. cbn [map]. fold (lbs n' (mchain n)).
  rewrite (lbs_store_ext gh n n' (mchain n) gh Hsle (genesis_stored n HC) (mchain_up n HC HH)).
  assert (Hlb : lb_of n' b = lb_of n b).
  { unfold lb_of, lottery_of, get_block. rewrite Hprev, (Hsle _ _ Hprev). reflexivity. }
  rewrite Hlb. change (ldg n') with l1.
  apply (RInv_extend cfg genesis_addr l0 _ (ldg n) (lb_of n b) l1 HJ).
  - exact Htx.
  - change (lb_height (lb_of n b)) with (b_height b). replace (b_height b - 1) with (top_h n) by lia. exact Eab.
Qed.

(* ---- a reorganisation ---- *)
Lemma check_reorgs_NJ n n' amb :
  BInv gh (blocks n) -> TInv gh (blocks n) (topo n) (top n) ->
  (forall t, get_block n (top n) = Some t -> b_height t = top_h n) ->
  (forall t, get_block n' (top n') = Some t -> b_height t = top_h n') ->
  (forall k tp, In (k, tp) (tips n) -> top_cd n < t_cd tp -> t_hash tp <> gh) ->
  base_ok cfg l0 (bkeys g) c0 -> store_pre (blocks n) -> NJ n ->
  check_reorgs cfg genesis_addr n = Ok (n', amb) -> NJ n'.
Proof.
  intros HB HT Hh Hh' Hng HB0 Hpre HJ H. unfold check_reorgs in H.
  pose proof (best_tip_strict n) as Hbt. cbn zeta in Hbt.
  destruct (best_tip n) as [alt amb0] eqn:Ebt. cbn [fst] in Hbt.
  destruct (N.eqb_spec (t_hash alt) (top n)) as [Etop|Ntop]; [injection H as <- <-; exact HJ|].
  opt_inv H. rename x into cb. unfold get_block in E. bind_inv H. destruct a as [common hashes].
  bind_inv H. rename a into na. bind_inv H. rename a into nb. injection H as <- <-.
  destruct Hbt as [Ealt|(k & Hin & Hlt)]; [rewrite Ealt in Ntop; cbn in Ntop; congruence|].
  assert (Hcbh : b_hash cb = t_hash alt) by (destruct HB as (Hk & _); apply (Hk _ _ E)).
  (* step 1 *)
  apply (reorg_collect_spec gh) in E0; [|exact HB|].
  2:{ cbn [rev app up]. rewrite Hcbh. split; [exact E|]. split; [reflexivity|]. split; [|exact I]. apply (Hng k alt Hin Hlt). }
  destruct E0 as (Hup & (cm & Hcm & Hcmt) & (t & ->)).
  pose proof HT as (_ & tb & Htb & _).
  assert (Htbh : b_height tb = top_h n) by (apply Hh; exact Htb).
  set (K1 := N.to_nat (top_h n)). set (kc := N.to_nat (b_height cm)).
  pose proof (TInv_entry_le gh _ _ _ _ _ _ HT Htb Hcmt) as Hle.
  assert (Hkc : (kc <= K1)%nat) by (unfold kc, K1; lia).
  set (P := chain_upto (blocks n) (topo n) kc). set (O := skipn kc (mchain n)).
  assert (HPO : mchain n = P ++ O).
  { unfold P, O, mchain. fold K1.
    rewrite <- (firstn_chain_upto gh _ _ _ _ K1 HT Htb ltac:(unfold K1; lia) kc Hkc). symmetry. apply firstn_skipn. }
  (* step 2 *)
  assert (Hna : blocks na = blocks n /\ TInv gh (blocks na) (topo na) common /\
                remove_chain cfg genesis_addr (ldg n) (rev (lbs n O)) = Ok (ldg na) /\
                chain_upto (blocks na) (topo na) kc = P).
  { destruct (N.eqb_spec (top n) common) as [Ec|Nc].
    - injection E1 as <-. subst common. rewrite Htb in Hcm. injection Hcm as <-.
      split; [reflexivity|]. split; [exact HT|]. split; [|reflexivity].
      unfold O, mchain. fold K1. replace kc with K1 by (unfold kc, K1; lia).
      rewrite skipn_all2 by (rewrite (chain_upto_length gh _ _ _ _ K1 HT Htb ltac:(unfold K1; lia)); apply le_n). reflexivity.
    - opt_inv E1. unfold get_block in E0. rewrite Htb in E0. injection E0 as <-.
      pose proof (reorg_disconnect_spec cfg genesis_addr gh _ _ _ _ _ _ cm HT Hcm Hcmt E1) as (Fb & HTa).
      destruct (disconnect_ledger cfg genesis_addr gh _ _ _ _ _ _ cm tb HT Htb Hcm Hcmt E1) as (_ & _ & Hrm & Hfst).
      cbv zeta in Hrm, Hfst. rewrite Htbh in Hrm, Hfst. fold K1 kc in Hrm, Hfst.
      split; [exact Fb|]. split; [exact HTa|]. split; [exact Hrm|].
      rewrite Hfst. apply (firstn_chain_upto gh _ _ _ _ K1 HT Htb ltac:(unfold K1; lia) kc Hkc). }
  destruct Hna as (Fb & HTa & Hrm & HP).
  (* step 3 *)
  set (Nw := rev ([cb] ++ t)) in *.
  destruct (connect_ledger cfg genesis_addr gh Nw na common cm nb) as (Fb2 & Hap & Hch); try assumption.
  { rewrite Fb. exact HB. } { rewrite Fb. exact Hcm. } { rewrite Fb. exact Hup. }
  cbv zeta in Hch. fold kc in Hch. rewrite HP in Hch.
  (* the new main chain *)
  assert (Hcbn : nget (blocks n) (b_hash cb) = Some cb) by (rewrite Hcbh; exact E).
  assert (Hlast : last_hash common Nw = b_hash cb).
  { unfold Nw. rewrite rev_app_distr. cbn [rev app]. apply last_hash_snoc. }
  pose proof (up_last_height gh (blocks n) Nw common cm cb HB Hcm Hup ltac:(rewrite Hlast; exact Hcbn)) as Hcbheight.
  assert (Hm : mchain (set_top (set_tips nb (nset (ndel (tips nb) (t_hash alt)) (top n) (mktip (top n) (top_h n) (top_cd n))))
                              (t_hash alt) (t_height alt) (t_cd alt)) = P ++ Nw).
  { unfold mchain. cbn [blocks topo top_h set_top set_tips].
    assert (Eh : t_height alt = b_height cb).
    { symmetry. apply Hh'. unfold get_block. cbn [blocks top set_top set_tips]. rewrite Fb2, Fb. exact E. }
    rewrite Eh, Hcbheight. replace (N.to_nat (b_height cm + N.of_nat (length Nw))) with (kc + length Nw)%nat by (unfold kc; lia).
    exact Hch. }
  unfold NJ. rewrite Hm. cbn [ldg set_top set_tips].
  erewrite (lbs_ext n) by (cbn [blocks set_top set_tips]; rewrite Fb2, Fb; reflexivity).
  unfold lbs. rewrite map_app. fold (lbs n P). fold (lbs n Nw).
  assert (HupP : up gh (blocks n) gh P /\ nget (topo n) (N.of_nat kc) = Some (last_hash gh P)).
  { apply (chain_upto_up gh _ _ _ _ _ HB HT Htb). unfold kc. lia. }
  destruct HupP as [HupP HlastP].
  assert (HlP : last_hash gh P = common).
  { replace (N.of_nat kc) with (b_height cm) in HlastP by (unfold kc; lia). rewrite Hcmt in HlastP. injection HlastP as <-. reflexivity. }
  assert (HupM : up gh (blocks n) gh (mchain n)).
  { unfold mchain. fold K1. apply (chain_upto_up gh _ _ _ _ _ HB HT Htb). unfold K1. lia. }
  apply (RInv_reorg cfg genesis_addr Hok l0 (bkeys g) c0 (lbs n P) (lbs n O) (lbs n Nw) (ldg n) (ldg na) (ldg nb) HB0).
  - unfold lbs. rewrite <- map_app, <- HPO. apply path_chain_ok; assumption.
  - unfold lbs. rewrite <- map_app. apply path_chain_ok; [exact HB|exact Hpre|].
    apply up_app. split; [exact HupP|]. rewrite HlP. exact Hup.
  - unfold lbs. rewrite <- map_app, <- HPO. exact HJ.
  - exact Hrm.
  - erewrite lbs_ext in Hap; [exact Hap|exact Fb].
Qed.

(* ---- one delivery ---- *)
Definition J (n : node) : Prop := CInv gh n /\ FInv n /\ HInv n /\ NJ n.

Lemma add_block_NJ n b n' amb :
  J n -> N.of_nat (length (blocks n)) < two64 -> base_ok cfg l0 (bkeys g) c0 -> store_pre (blocks n') ->
  add_block cfg genesis_addr n b = Ok (n', amb) -> NJ n'.
Proof.
  intros (HC & HF & HH & HJ) Hlen HB0 Hpre H.
  pose proof (add_block_HInv cfg genesis_addr gh n b n' amb HC HF HH Hlen H) as HH'.
  pose proof HC as (HB & HT). pose proof HF as (Hts & Htips & Hmax). pose proof HH as (Hh & _).
  unfold add_block in H. guard_inv H. opt_inv H. rename x into prev. bind_inv H. destruct a.
  assert (Hnew : nget (blocks n) (b_hash b) = None).
  { unfold get_block in G. destruct (nget (blocks n) (b_hash b)); [discriminate|reflexivity]. }
  unfold get_block in E.
  destruct (N.eqb_spec (prev_hash b) (top n)) as [Emain|Ealt].
  - bind_inv H. injection H as <- <-.
    apply (add_mainchain_NJ n b prev a HC HH Hlen Hnew E E0 Emain E1); [|exact HJ].
    destruct Hpre as (Hp1 & _). apply (Hp1 (b_hash b) b).
    unfold add_mainchain_block in E1. bind_inv E1. injection E1 as <-.
    cbn [blocks set_topo set_blocks set_top]. apply nget_nset_same.
  - unfold add_altchain_block in H.
    set (tips' := match nget (tips n) (prev_hash b) with Some t => _ | None => _ end) in H.
    set (n1 := set_blocks (set_tips n tips') (nset (blocks n) (b_hash b) b)) in H.
    pose proof (check_block_height cfg _ _ _ E0) as Hhw.
    assert (Hh' : b_height b = b_height prev + 1).
    { destruct HB as (_ & _ & _ & Hb). pose proof (Hb _ _ E). rewrite wadd_small in Hhw; lia. }
    assert (Hsle : store_le n n1).
    { intros h v Hv. unfold n1. cbn [blocks set_blocks set_tips]. apply nget_nset_keep; assumption. }
    assert (Hb1 : blocks n' = blocks n1) by (apply (check_reorgs_blocks cfg genesis_addr _ _ _ H)).
    apply (check_reorgs_NJ n1 n' amb); try exact H.
    + exact (BInv_insert gh _ _ _ HB Hnew E Hh').
    + unfold n1. cbn [blocks topo top set_blocks set_tips]. apply TInv_insert_block; assumption.
    + intros t0 Ht0. unfold n1, get_block in Ht0. cbn [blocks top top_h set_blocks set_tips] in Ht0 |- *.
      destruct Hts as (t1 & Ht1 & _). unfold get_block in Ht1. rewrite (nget_nset_keep _ _ _ _ _ Hnew Ht1) in Ht0.
      injection Ht0 as <-. apply Hh. exact Ht1.
    + destruct HH' as (X & _). exact X.
    + intros k tp Hin Hlt. unfold n1 in Hin, Hlt. cbn [tips top_cd set_blocks set_tips] in Hin, Hlt.
      apply alt_tips_cases in Hin. destruct Hin as [(_ & ->)|Hin].
      * cbn [t_hash]. intros Egh. destruct HB as (_ & (gb & Hg & _) & _). rewrite Egh in Hnew. congruence.
      * exfalso. destruct (Htips k tp Hin) as (tb & Htb & Hcd). pose proof (Hmax _ _ Htb). lia.
    + exact HB0.
    + rewrite <- Hb1. exact Hpre.
    + assert (Hm1 : mchain n1 = mchain n).
      { unfold mchain, n1. cbn [blocks topo top_h set_blocks set_tips].
        apply chain_upto_bl_ext. intros j y Hj Hy. destruct (TInv_entry gh _ _ _ _ _ HT Hy) as (yb & Hyb & _).
        rewrite nget_nset. destruct (N.eqb_spec y (b_hash b)) as [->|_]; [congruence|reflexivity]. }
      unfold NJ. rewrite Hm1.
      rewrite (lbs_store_ext gh n n1 (mchain n) gh Hsle (genesis_stored n HC) (mchain_up n HC HH)). exact HJ.
Qed.

Lemma deliver_store_le n b now n' out amb : deliver cfg genesis_addr team_key n b now = (n', out, amb) -> store_le n n'.
Proof.
  intros H h v Hv. unfold deliver in H.
  destruct (prevalidate_block cfg team_key b now); try (injection H as <- _ _; exact Hv).
  destruct (add_block cfg genesis_addr n b) as [[n1 amb1]|c|c] eqn:E; try (injection H as <- _ _; exact Hv).
  injection H as <- _ _. unfold add_block in E. guard_inv E. opt_inv E. bind_inv E.
  assert (Hnew : nget (blocks n) (b_hash b) = None).
  { unfold get_block in G. destruct (nget (blocks n) (b_hash b)); [discriminate|reflexivity]. }
  destruct (prev_hash b =? top n).
  - bind_inv E. injection E as <- _. unfold add_mainchain_block in E2. bind_inv E2. injection E2 as <-.
    apply apply_block_node_eq in E. destruct E as (l & ->).
    cbn [blocks set_topo set_blocks set_top set_ldg]. apply nget_nset_keep; assumption.
  - unfold add_altchain_block in E. apply check_reorgs_blocks in E. rewrite E.
    cbn [blocks set_blocks set_tips]. apply nget_nset_keep; assumption.
Qed.

Lemma deliver_J n b now n' out amb :
  J n -> N.of_nat (length (blocks n)) < two64 -> base_ok cfg l0 (bkeys g) c0 -> store_pre (blocks n') ->
  deliver cfg genesis_addr team_key n b now = (n', out, amb) -> J n'.
Proof.
  intros HJ Hlen HB0 Hpre H. pose proof HJ as (HC & HF & HH & HN).
  split; [eapply deliver_CInv; eassumption|]. split; [eapply deliver_inv; eassumption|].
  split; [eapply deliver_HInv; eassumption|].
  unfold deliver in H.
  destruct (prevalidate_block cfg team_key b now); try (injection H as <- _ _; exact HN).
  destruct (add_block cfg genesis_addr n b) as [[n1 amb1]|c|c] eqn:E; try (injection H as <- _ _; exact HN).
  injection H as <- _ _. eapply add_block_NJ; eassumption.
Qed.

Lemma run_store_le ops : forall n, store_le n (run cfg genesis_addr team_key n ops).
Proof.
  induction ops as [|[b now] ops IH]; intros n; cbn [run fold_left fst snd]; [intros h v Hv; exact Hv|].
  destruct (deliver cfg genesis_addr team_key n b now) as [[n1 out] amb] eqn:E. cbn [fst snd].
  intros h v Hv. apply IH. apply (deliver_store_le _ _ _ _ _ _ E). exact Hv.
Qed.

Lemma run_J ops : forall n,
  J n -> N.of_nat (length (blocks n) + length ops) <= two64 -> base_ok cfg l0 (bkeys g) c0 ->
  store_pre (blocks (run cfg genesis_addr team_key n ops)) -> J (run cfg genesis_addr team_key n ops).
Proof.
  induction ops as [|[b now] ops IH]; intros n HJ Hlen HB0 Hpre; cbn [run fold_left fst snd] in *; [exact HJ|].
  destruct (deliver cfg genesis_addr team_key n b now) as [[n1 out] amb] eqn:E. cbn [fst snd] in *.
  cbn [length] in Hlen. apply IH; [|apply deliver_len in E; lia|exact HB0|exact Hpre].
  apply (deliver_J n b now n1 out amb HJ ltac:(lia) HB0); [|exact E].
  apply (store_pre_mono _ _ (run_store_le ops n1)). exact Hpre.
Qed.

End Main.

(* ---- what the list [mchain] is: the stored blocks filed under the heights 1 .. top_h, lowest first ---- *)
Lemma chain_upto_index gh bl tp x bx k :
  BInv gh bl -> TInv gh bl tp x -> nget bl x = Some bx -> (k <= N.to_nat (b_height bx))%nat ->
  map (fun b => Some (b_hash b)) (chain_upto bl tp k) = map (fun j => nget tp (N.of_nat j)) (seq 1 k) /\
  Forall (fun b => nget bl (b_hash b) = Some b) (chain_upto bl tp k).
Proof.
  intros HB HT Hbx. induction k as [|k IH]; intros Hle; [split; [reflexivity|constructor]|].
  destruct (IH ltac:(lia)) as [I1 I2].
  destruct (TInv_step gh bl tp x bx k HT Hbx Hle) as (y & yb & Hy & Hyb & _ & _ & ->).
  assert (Hk : b_hash yb = y) by (destruct HB as (Hk & _); apply (Hk _ _ Hyb)).
  rewrite seq_S, !map_app, I1. cbn [map Nat.add]. rewrite Hy, Hk. split; [reflexivity|].
  apply Forall_app. split; [exact I2|]. constructor; [rewrite Hk; exact Hyb|constructor].
Qed.

Section Final.
Variable cfg : config.
Variable genesis_addr team_key : N.

(* For every node state reachable from genesis by deliveries: the blocks of its main chain apply one after the other to
   the genesis ledger (each with top height = its height - 1, lottery value of its stored parent), and the result
   agrees with the node's ledger. *)
Theorem ledger_is_replay g n0 ops :
  cfg_ok_emission cfg = true ->
  node0 cfg genesis_addr g = Ok n0 -> b_height g = 0 -> b_cd g = b_diff g ->
  N.of_nat (length ops) < two64 - 1 ->
  let n := run cfg genesis_addr team_key n0 ops in
  store_pre cfg g (blocks n) ->
  exists lr, apply_chain cfg genesis_addr (ldg n0) (lbs n (mchain n)) = Ok lr /\
    same_accounts (ldg n) lr /\ dlgs (ldg n) = dlgs lr /\ staked (ldg n) = staked lr.
Proof.
  intros Hok H0 Hg0 Hcd Hlen n Hpre.
  assert (Hpre0 : store_pre cfg g (blocks n0)).
  { apply (store_pre_mono cfg g _ _ (run_store_le cfg genesis_addr team_key ops n0)). exact Hpre. }
  pose proof (genesis_base cfg genesis_addr Hok g (ldg n0) n0 H0 Hg0 eq_refl Hpre0) as HB0.
  assert (HJ0 : J cfg genesis_addr g (ldg n0) n0).
  { split; [eapply node0_CInv; eassumption|]. split; [eapply node0_inv; eassumption|].
    split; [eapply node0_HInv; eassumption|].
    unfold NJ, mchain.
    assert (Hth : top_h n0 = 0).
    { unfold node0 in H0. apply apply_block_node_eq in H0. destruct H0 as (l & ->). reflexivity. }
    rewrite Hth. cbn [N.to_nat chain_upto lbs map]. apply RInv_nil. }
  assert (Hl : length (blocks n0) = 1%nat).
  { unfold node0 in H0. apply apply_block_node_eq in H0. destruct H0 as (l & ->). reflexivity. }
  pose proof (run_J cfg genesis_addr team_key Hok g (ldg n0) ops n0 HJ0
                ltac:(rewrite Hl; unfold two64 in *; lia) HB0 Hpre) as (_ & _ & _ & lr & Hr & HL & _).
  fold n in Hr, HL. exists lr. split; [exact Hr|].
  destruct HL as (Hs & _ & Hd & Hst). split; [exact Hs|]. split; [symmetry; exact Hd|exact Hst].
Qed.

(* the list [mchain n] is the main chain: the stored blocks filed in the height index under 1 .. top_h *)
Theorem mchain_is_height_index g n0 ops :
  node0 cfg genesis_addr g = Ok n0 -> b_height g = 0 -> b_cd g = b_diff g ->
  N.of_nat (length ops) < two64 - 1 ->
  let n := run cfg genesis_addr team_key n0 ops in
  map (fun b => Some (b_hash b)) (mchain n) = map (fun j => get_topo n (N.of_nat j)) (seq 1 (N.to_nat (top_h n))) /\
  Forall (fun b => get_block n (b_hash b) = Some b) (mchain n).
Proof.
  intros H0 Hg0 Hcd Hlen n.
  destruct (reachable_invariants cfg genesis_addr team_key g n0 ops H0 Hg0 Hcd Hlen) as ((HB & HT) & _ & (Hh & _)).
  fold n in HB, HT, Hh. pose proof HT as (_ & t & Ht & _). unfold mchain. rewrite <- (Hh t Ht).
  apply (chain_upto_index (b_hash g) _ _ _ _ _ HB HT Ht (le_n _)).
Qed.

End Final.
