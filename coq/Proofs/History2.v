(* Property C17, "the wallet-facing indexes match the main chain", second part: ledgers.
   [TI C L]: the incoming index of the ledger [L] is the numbered history of the crediting events of the genesis block
   followed by those of the chain [C], its outgoing index the numbered history of the signing events, and the height
   stored with a transaction id is the height of its block of [C] (0 or absent for every other id).
   It is kept, next to the replay invariant RInv of Proofs/Replay2.v, when [L] applies one more block and when [L]
   disconnects the blocks [O] above a prefix [P] and connects other blocks [N]:
   - the counters of [L] are those of the replay (RInv), and the counters of the replay count the events exactly
     (replay_counts: its totals stay below the supply, so no output is skipped);
   - an application is a step of the numbered histories (Proofs/History1.v) whose counters end at the exact counts,
     hence it appended exactly the events of the connected blocks, overwriting stale entries above the old counters;
   - a removal writes neither index and the counters fall back to those of the replay of the prefix;
   - heights: an application sets the height of each of its transactions, a removal resets it to 0; the ids along a
     chain are pairwise distinct (premise), so the entries of the prefix are not touched. *)
From Coq Require Import Sorting.Sorted.
From Virel Require Import Lib.Config Lib.U64 Lib.AMap Lib.CheckLib Model.Emission Model.Ledger Spec.Rules
  Proofs.AMapLemmas Proofs.Emission Proofs.Conservation Proofs.Pointwise Proofs.Refine Proofs.Staking Proofs.StakedSum
  Proofs.Refine2 Proofs.Undo Proofs.Undo2 Proofs.Undo4 Proofs.Replay1 Proofs.Replay2 Proofs.History1.
Open Scope N_scope.
Open Scope bool_scope.

Section Ledgers.
Variable cfg : config.
Variable genesis_addr : N.
Hypothesis Hok : cfg_ok_emission cfg = true.

Notation apply_chain := (apply_chain cfg genesis_addr).
Notation remove_chain := (remove_chain cfg genesis_addr).
Notation chain_credits := (chain_credits cfg genesis_addr).
Notation block_credits := (block_credits cfg genesis_addr).

(* ---- exact counters along a chain of the replay ---- *)
Lemma apply_chain_counts bs : forall l (h : nat) ln,
  total_bal l = sum_rewards cfg h -> heights_from h bs ->
  Forall (fun b => Forall (tx_ok cfg) (lb_txs b)) bs ->
  (forall a, cI l a + cnt a (chain_credits bs) < two64) ->
  (forall a, cN l a + cnt a (chain_signs bs) < two64) ->
  apply_chain l bs = Ok ln ->
  forall a, cI ln a = cI l a + cnt a (chain_credits bs) /\ cN ln a = cN l a + cnt a (chain_signs bs).
Proof.
  destruct (ok_facts cfg Hok) as ((HRI & HRI64) & H9 & Hms & Hms64 & _).
  induction bs as [|b bs IH]; intros l h ln Ht Hh Hok' Hb Hn H; cbn [Conservation.apply_chain] in H.
  - injection H as <-. intros a. cbn [History1.chain_credits chain_signs flat_map]. rewrite !cnt_nil. lia.
  - destruct Hh as [Hhb Hh]. inversion Hok' as [|? ? Hbt Hbs]; subst. bind_inv H. rename a into l1.
    cbn [History1.chain_credits chain_signs flat_map] in Hb, Hn |- *.
    fold (chain_credits bs) in Hb |- *. fold (chain_signs bs) in Hn |- *.
    assert (Hroom : total_bal l + reward cfg (lb_height b) <= max_supply cfg).
    { rewrite Ht, Hhb. change (sum_rewards cfg h + reward cfg (N.of_nat (S h))) with (sum_rewards cfg (S h)).
      apply (sum_rewards_le_max cfg Hok). }
    assert (Hstep : total_bal l1 = sum_rewards cfg (S h)).
    { rewrite (apply_block_total cfg genesis_addr Hok _ _ _ _ Hroom Hbt E). rewrite Ht, Hhb. reflexivity. }
    pose proof (apply_block_counts cfg genesis_addr l b _ l1 ltac:(lia) Hbt
                  ltac:(intros a; specialize (Hb a); rewrite cnt_app in Hb; lia)
                  ltac:(intros a; specialize (Hn a); rewrite cnt_app in Hn; lia) E) as Hc1.
    pose proof (IH l1 (S h) ln Hstep Hh Hbs
                  ltac:(intros a; specialize (Hb a); rewrite cnt_app in Hb; destruct (Hc1 a) as [-> _]; lia)
                  ltac:(intros a; specialize (Hn a); rewrite cnt_app in Hn; destruct (Hc1 a) as [_ ->]; lia) H) as Hc2.
    intros a. destruct (Hc1 a) as [X1 X2]. destruct (Hc2 a) as [Y1 Y2]. rewrite !cnt_app. split; lia.
Qed.

(* ---- the genesis ledger and its events ---- *)
Variable l0 : ledger.
Variable gk : list N.
Variable c0 : N.
Variable E0 S0 H0 : list (N * N).   (* crediting events, signing events, (id, height) of the genesis block *)

Notation base_ok := (base_ok cfg l0 gk c0).
Notation chain_ok := (chain_ok cfg gk c0).
Notation RInv := (RInv cfg genesis_addr l0).

Definition base_t : Prop :=
  tinv (cI l0) (intx l0) E0 /\ tinv (cN l0) (outtx l0) S0 /\ hinv (txh l0) H0 /\
  (forall id, In id (map fst H0) -> In id gk).

Definition TI (C : list lblock) (L : ledger) : Prop :=
  tinv (cI L) (intx L) (E0 ++ chain_credits C) /\
  tinv (cN L) (outtx L) (S0 ++ chain_signs C) /\
  hinv (txh L) (H0 ++ chain_txhs C).

Lemma TI_nil : base_t -> TI [] l0.
Proof.
  intros (B1 & B2 & B3 & _). unfold TI. cbn [History1.chain_credits chain_signs chain_txhs flat_map].
  rewrite !app_nil_r. split; [exact B1|]. split; [exact B2|exact B3].
Qed.

Lemma chain_ok_prefix P Q : chain_ok (P ++ Q) -> chain_ok P.
Proof.
  intros (Hh & Hbc & Hnd & Hn1 & Hn2).
  apply heights_from_app in Hh. destruct Hh as [HhP _].
  unfold blocks_c in Hbc. apply Forall_app in Hbc. destruct Hbc as [HbP _].
  rewrite chain_keys_app, app_assoc in Hnd. destruct (NoDup_app_parts _ _ Hnd) as (HndP & _ & _).
  rewrite chain_nouts_app in Hn1. rewrite chain_ntx_app in Hn2.
  split; [exact HhP|]. split; [exact HbP|]. split; [exact HndP|]. split; lia.
Qed.

(* the counters of the replay count the events *)
Lemma replay_counts C lr :
  base_ok -> base_t -> chain_ok C -> apply_chain l0 C = Ok lr ->
  forall a, cI lr a = cnt a (E0 ++ chain_credits C) /\ cN lr a = cnt a (S0 ++ chain_signs C) /\
            cI lr a < two64 /\ cN lr a < two64.
Proof.
  intros (HI0 & Ht0 & Hk0 & Hc0) (B1 & B2 & _) (Hh & Hbc & Hnd & Hn1 & Hn2) Hr.
  assert (Hbi : forall a, cI l0 a + cnt a (chain_credits C) < two64).
  { intros a. destruct (Hc0 a) as [X _]. pose proof (cnt_chain_credits cfg genesis_addr a C). unfold cI. lia. }
  assert (Hbn : forall a, cN l0 a + cnt a (chain_signs C) < two64).
  { intros a. destruct (Hc0 a) as [_ X]. pose proof (cnt_chain_signs a C). unfold cN. lia. }
  pose proof (apply_chain_counts C l0 0 lr Ht0 Hh (blocks_c_txok cfg C Hbc) Hbi Hbn Hr) as Hc.
  intros a. destruct (Hc a) as [X1 X2]. destruct (B1 a) as [Y1 _]. destruct (B2 a) as [Y2 _].
  rewrite !cnt_app. specialize (Hbi a). specialize (Hbn a). repeat split; lia.
Qed.

(* the counters of a ledger that agrees with the replay *)
Lemma RInv_counts C L :
  base_ok -> base_t -> chain_ok C -> RInv C L ->
  forall a, cI L a = cnt a (E0 ++ chain_credits C) /\ cN L a = cnt a (S0 ++ chain_signs C) /\
            cI L a < two64 /\ cN L a < two64.
Proof.
  intros HB HT Hc (lr & Hr & (Hsame & _) & _) a.
  destruct (replay_counts C lr HB HT Hc Hr a) as (X1 & X2 & X3 & X4).
  unfold cI, cN in *. rewrite (Hsame a). repeat split; assumption.
Qed.

(* ---- transaction heights along chains ---- *)
Lemma keys_sep P b r id :
  NoDup (gk ++ chain_keys (P ++ b :: r)) -> (forall x, In x (map fst H0) -> In x gk) ->
  In id (map fst (H0 ++ chain_txhs P)) -> ~ In id (block_ids b).
Proof.
  intros Hnd Hg Hin Hb.
  rewrite chain_keys_app, app_assoc in Hnd. destruct (NoDup_app_parts _ _ Hnd) as (_ & _ & Hdis).
  apply (Hdis id).
  - rewrite map_app in Hin. apply in_app_or in Hin. apply in_or_app. destruct Hin as [Hin|Hin]; [left; apply Hg; exact Hin|right].
    clear - Hin. induction P as [|p P IH]; cbn [chain_txhs flat_map map] in Hin; [destruct Hin|].
    cbn [chain_keys flat_map]. rewrite map_app in Hin. apply in_or_app. apply in_app_or in Hin.
    destruct Hin as [Hin|Hin]; [left|right; apply IH; exact Hin].
    unfold block_txhs in Hin. rewrite map_map in Hin. cbn [fst] in Hin. rewrite map_id in Hin.
    cbn [block_keys]. right. exact Hin.
  - cbn [chain_keys flat_map block_keys]. right. apply in_or_app. left. exact Hb.
Qed.

Lemma apply_chain_hinv N : forall P l l',
  NoDup (gk ++ chain_keys (P ++ N)) -> (forall x, In x (map fst H0) -> In x gk) ->
  hinv (txh l) (H0 ++ chain_txhs P) -> apply_chain l N = Ok l' -> hinv (txh l') (H0 ++ chain_txhs (P ++ N)).
Proof.
  induction N as [|b N IH]; intros P l l' Hnd Hg HI H; cbn [Conservation.apply_chain] in H.
  - injection H as <-. rewrite app_nil_r. exact HI.
  - bind_inv H. rename a into l1.
    replace (P ++ b :: N) with ((P ++ [b]) ++ N) in * by (rewrite <- app_assoc; reflexivity).
    apply (IH (P ++ [b]) l1 l' Hnd Hg); [|exact H].
    rewrite chain_txhs_app, app_assoc. cbn [chain_txhs flat_map]. rewrite app_nil_r.
    apply (hinv_apply (txh l) _ (block_ids b) (lb_height b)); [exact HI| |exact (apply_block_txh cfg genesis_addr _ _ _ _ E)].
    intros id Hin. rewrite <- app_assoc in Hnd. cbn [app] in Hnd. exact (keys_sep P b N id Hnd Hg Hin).
Qed.

Lemma remove_chain_hinv R : forall P l l',
  NoDup (gk ++ chain_keys (P ++ rev R)) -> (forall x, In x (map fst H0) -> In x gk) ->
  hinv (txh l) (H0 ++ chain_txhs (P ++ rev R)) -> remove_chain l R = Ok l' -> hinv (txh l') (H0 ++ chain_txhs P).
Proof.
  induction R as [|b R IH]; intros P l l' Hnd Hg HI H; cbn [Undo4.remove_chain] in H.
  - injection H as <-. cbn [rev] in HI. rewrite app_nil_r in HI. exact HI.
  - bind_inv H. rename a into l1. cbn [rev] in Hnd, HI. rewrite app_assoc in Hnd, HI.
    apply (IH P l1 l'); [|exact Hg| |exact H].
    + rewrite chain_keys_app, app_assoc in Hnd. destruct (NoDup_app_parts _ _ Hnd) as (X & _ & _). exact X.
    + rewrite chain_txhs_app, app_assoc in HI. cbn [chain_txhs flat_map] in HI. rewrite app_nil_r in HI.
      apply (hinv_remove (txh l) _ (block_ids b) (lb_height b)); [exact HI| |].
      * intros id Hin. exact (keys_sep (P ++ rev R) b [] id Hnd Hg Hin).
      * destruct (remove_block_tabs cfg genesis_addr _ _ _ _ E) as (_ & _ & X). exact X.
Qed.

(* ---- connecting blocks ---- *)
Lemma TI_apply P N L2 L3 :
  base_ok -> base_t -> chain_ok (P ++ N) ->
  RInv P L2 -> TI P L2 -> apply_chain L2 N = Ok L3 -> RInv (P ++ N) L3 -> TI (P ++ N) L3.
Proof.
  intros HB HT HcN HR2 (I1 & I2 & I3) Hap HR3.
  pose proof (chain_ok_prefix P N HcN) as HcP.
  pose proof (RInv_counts P L2 HB HT HcP HR2) as C2.
  pose proof (RInv_counts (P ++ N) L3 HB HT HcN HR3) as C3.
  assert (Hbi : forall a, cI L2 a + cnt a (chain_credits N) < two64).
  { intros a. destruct (C2 a) as (-> & _). destruct (C3 a) as (X & _ & Y & _).
    rewrite chain_credits_app, app_assoc, cnt_app in X. lia. }
  assert (Hbn : forall a, cN L2 a + cnt a (chain_signs N) < two64).
  { intros a. destruct (C2 a) as (_ & -> & _). destruct (C3 a) as (_ & X & _ & Y).
    rewrite chain_signs_app, app_assoc, cnt_app in X. lia. }
  destruct (apply_chain_hist cfg genesis_addr N L2 L3 Hbi Hbn Hap) as (T1 & T2).
  split; [|split].
  - rewrite chain_credits_app, app_assoc. apply (tinv_step _ _ _ _ _ _ I1 T1).
    intros a. destruct (C3 a) as (-> & _). rewrite chain_credits_app, app_assoc. reflexivity.
  - rewrite chain_signs_app, app_assoc. apply (tinv_step _ _ _ _ _ _ I2 T2).
    intros a. destruct (C3 a) as (_ & -> & _). rewrite chain_signs_app, app_assoc. reflexivity.
  - destruct HcN as (_ & _ & Hnd & _). destruct HT as (_ & _ & _ & Hg).
    exact (apply_chain_hinv N P L2 L3 Hnd Hg I3 Hap).
Qed.

(* ---- disconnecting blocks ---- *)
Lemma TI_remove P O L L2 :
  base_ok -> base_t -> chain_ok (P ++ O) ->
  TI (P ++ O) L -> remove_chain L (rev O) = Ok L2 -> RInv P L2 -> TI P L2.
Proof.
  intros HB HT HcO (I1 & I2 & I3) Hrm HR2.
  pose proof (chain_ok_prefix P O HcO) as HcP.
  pose proof (RInv_counts P L2 HB HT HcP HR2) as C2.
  destruct (remove_chain_tabs cfg genesis_addr _ _ _ Hrm) as (X1 & X2).
  split; [|split].
  - rewrite chain_credits_app, app_assoc in I1. apply (tinv_back _ _ _ _ _ _ I1).
    + intros a. destruct (C2 a) as (-> & _). reflexivity.
    + intros k. rewrite X1. reflexivity.
  - rewrite chain_signs_app, app_assoc in I2. apply (tinv_back _ _ _ _ _ _ I2).
    + intros a. destruct (C2 a) as (_ & -> & _). reflexivity.
    + intros k. rewrite X2. reflexivity.
  - destruct HcO as (_ & _ & Hnd & _). destruct HT as (_ & _ & _ & Hg).
    apply (remove_chain_hinv (rev O) P L L2); [rewrite rev_involutive; exact Hnd|exact Hg|rewrite rev_involutive; exact I3|exact Hrm].
Qed.

(* ---- the two invariants together ---- *)
Definition QInv (C : list lblock) (L : ledger) : Prop := RInv C L /\ TI C L.

Lemma QInv_nil : base_t -> QInv [] l0.
Proof. intros HT. split; [apply RInv_nil|apply TI_nil; exact HT]. Qed.

Lemma QInv_extend C L b L' :
  base_ok -> base_t -> chain_ok (C ++ [b]) -> QInv C L ->
  apply_block cfg genesis_addr L b (lb_height b - 1) = Ok L' -> QInv (C ++ [b]) L'.
Proof.
  intros HB HT Hc (HR & HI) H.
  assert (Htx : Forall (tx_c cfg) (lb_txs b)).
  { destruct Hc as (_ & Hbc & _). unfold blocks_c in Hbc. apply Forall_app in Hbc. destruct Hbc as [_ Hb].
    inversion Hb; subst. assumption. }
  pose proof (RInv_extend cfg genesis_addr l0 C L b L' HR Htx H) as HR'.
  split; [exact HR'|]. apply (TI_apply C [b] L L' HB HT Hc HR HI); [|exact HR'].
  cbn [Conservation.apply_chain]. rewrite H. reflexivity.
Qed.

Theorem QInv_reorg P O N L L2 L3 :
  base_ok -> base_t -> chain_ok (P ++ O) -> chain_ok (P ++ N) ->
  QInv (P ++ O) L ->
  remove_chain L (rev O) = Ok L2 ->
  apply_chain L2 N = Ok L3 ->
  QInv (P ++ N) L3.
Proof.
  intros HB HT HcO HcN (HR & HI) Hrm Hap.
  pose proof (RInv_reorg cfg genesis_addr Hok l0 gk c0 P O N L L2 L3 HB HcO HcN HR Hrm Hap) as HR3.
  assert (HR2 : RInv P L2).
  { pose proof (RInv_reorg cfg genesis_addr Hok l0 gk c0 P O [] L L2 L2 HB HcO) as X.
    rewrite app_nil_r in X. apply X; [exact (chain_ok_prefix P O HcO)|exact HR|exact Hrm|reflexivity]. }
  split; [exact HR3|].
  apply (TI_apply P N L2 L3 HB HT HcN HR2); [|exact Hap|exact HR3].
  exact (TI_remove P O L L2 HB HT HcO HI Hrm HR2).
Qed.

End Ledgers.
