(* Catching up across a fork (property C11), part 2: Model/Sync.v's request round against one serving peer IS the
   machine over heights of Proofs/Sync2.v, hence the node catches up.

   Setting.  The peer's main chain is [shared ++ theirs], by height (genesis first): [shared] (at least genesis) is stored
   by our node [n0], no block of [theirs] is.  The peer serves exactly this chain ([Hat]), heights and parent links are
   those of a chain ([Hheight], [Hlink]), hashes are pairwise distinct and not zero.
   What is assumed of OUR node about the peer's branch - the meaning of "valid" in "a heavier valid chain":
     [Hacc]    fed the blocks of [theirs] one after another, lowest first, the node ACCEPTS each of them (AddBlock
               succeeds, including the reorganisation one of them triggers).  This cannot be derived from the branch
               being valid on the peer: checkBlock reads the stake state of OUR ledger, and the reorganisation has to
               undo OUR blocks.  It is an executable premise (like [linear_chain_b]);
     [Hheavy]  before the last block of [theirs] is in, our tip is lighter than what the peer announced (otherwise
               Synchronize stops asking);
     [Hheld]   while it accepts the branch our node holds a block at the height just below the lowest block of [theirs]
               it does not store yet ([held_height]: its own height or the height of an alternative tip is at least
               that).  True of every reachable node (Proofs/Sync2Reach.v); this is what lets the by-height request
               continue above the blocks that were stored as an alternative chain.
   Schedule (the fairness assumption, the one of [sim] with the faithful network): rounds keep being scheduled; in every
   round the peer's latest STATS have arrived, Synchronize runs one iteration, the peer answers EVERY request of it,
   the answers arrive in the order sent and the post-processor drains its buffer before the next iteration. *)
From Coq Require Import Arith Bool Lia Permutation Sorted.
From Virel Require Import Lib.Config Lib.U64 Lib.AMap Model.Ledger Model.Node Model.Sync
  Proofs.AMapLemmas Proofs.Conservation Proofs.NodeBasics Proofs.ForkChoice Proofs.Restart Proofs.Sync Proofs.Sync2.
Open Scope N_scope.

(* ------------------------------------------------------------------ generic list facts *)
(* two ascending arrangements of the same elements are the same list when equal keys mean equal elements *)
Lemma sorted_perm_unique_det {A} (key : A -> N) (l1 : list A) : forall l2,
  StronglySorted (fun a b => key a <= key b) l1 -> StronglySorted (fun a b => key a <= key b) l2 ->
  (forall x y, In x l1 -> In y l1 -> key x = key y -> x = y) -> Permutation l1 l2 -> l1 = l2.
Proof.
  induction l1 as [|x r1 IH]; intros l2 S1 S2 Hdet Hp.
  - apply Permutation_nil in Hp. subst. reflexivity.
  - destruct l2 as [|y r2]; [apply Permutation_sym, Permutation_nil in Hp; discriminate|].
    inversion S1 as [|? ? S1' F1]; subst. inversion S2 as [|? ? S2' F2]; subst.
    rewrite Forall_forall in F1, F2.
    assert (Hyin : In y (x :: r1)) by (eapply Permutation_in; [apply Permutation_sym; exact Hp|left; reflexivity]).
    assert (Hxin : In x (y :: r2)) by (eapply Permutation_in; [exact Hp|left; reflexivity]).
    assert (Hxy : x = y).
    { apply Hdet; [left; reflexivity|exact Hyin|].
      assert (key x <= key y) by (destruct Hyin as [->|Hy]; [lia|apply F1; exact Hy]).
      assert (key y <= key x) by (destruct Hxin as [->|Hx]; [lia|apply F2; exact Hx]).
      lia. }
    subst y. f_equal. apply IH; try assumption.
    + intros a b Ha Hb. apply Hdet; right; assumption.
    + eapply Permutation_cons_inv. exact Hp.
Qed.

Lemma firstn_succ_nth {A} (l : list A) d : forall n, (n < length l)%nat -> firstn (S n) l = firstn n l ++ [nth n l d].
Proof.
  induction l as [|x r IH]; intros n Hn; [cbn in Hn; lia|].
  destruct n as [|n]; [reflexivity|]. cbn [firstn nth app]. f_equal. apply IH. cbn in Hn. lia.
Qed.

Lemma in_firstn_nth {A} (l : list A) d x : forall n, In x (firstn n l) -> exists i, (i < n)%nat /\ (i < length l)%nat /\ nth i l d = x.
Proof.
  induction l as [|y r IH]; intros n Hin; [rewrite firstn_nil in Hin; destruct Hin|].
  destruct n as [|n]; [destruct Hin|]. cbn [firstn] in Hin. destruct Hin as [<-|Hin].
  - exists O. cbn. repeat split; lia.
  - destruct (IH n Hin) as (i & H1 & H2 & H3). exists (S i). cbn. repeat split; try lia. exact H3.
Qed.

Lemma nth_in_firstn {A} (l : list A) d : forall n i, (i < n)%nat -> (i < length l)%nat -> In (nth i l d) (firstn n l).
Proof.
  induction l as [|y r IH]; intros n i Hi Hl; [cbn in Hl; lia|].
  destruct n as [|n]; [lia|]. destruct i as [|i]; [left; reflexivity|]. right. apply IH; cbn in Hl; lia.
Qed.

(* ------------------------------------------------------------------ a branch our node accepts block by block *)
Section Accept.
Variable cfg : config.
Variable genesis_addr : N.
Notation add_block' := (add_block cfg genesis_addr).
Notation apply_ext' := (apply_ext cfg genesis_addr).

Fixpoint acc_chain (n : node) (bs : list block) : Prop :=
  match bs with
  | [] => True
  | b :: r => exists n1 amb, add_block' n b = Ok (n1, amb) /\ acc_chain n1 r
  end.

(* the executable form *)
Fixpoint acc_chain_b (n : node) (bs : list block) : bool :=
  match bs with
  | [] => true
  | b :: r => match add_block' n b with Ok (n1, _) => acc_chain_b n1 r | _ => false end
  end.

Lemma acc_chain_b_sound : forall bs n, acc_chain_b n bs = true -> acc_chain n bs.
Proof.
  induction bs as [|b r IH]; intros n H; [exact I|]. cbn [acc_chain_b] in H.
  destruct (add_block' n b) as [[n1 amb]| |] eqn:E; try discriminate.
  exists n1, amb. split; [exact E|apply IH; exact H].
Qed.

Lemma acc_chain_app : forall l1 n l2, acc_chain n (l1 ++ l2) -> acc_chain n l1 /\ acc_chain (apply_ext' n l1) l2.
Proof.
  induction l1 as [|b r IH]; intros n l2 H; [split; [exact I|exact H]|].
  cbn [app acc_chain] in H. destruct H as (n1 & amb & Ha & Hr). destruct (IH n1 l2 Hr) as (H1 & H2). split.
  - exists n1, amb. split; assumption.
  - cbn [apply_ext]. rewrite Ha. exact H2.
Qed.

Lemma apply_ext_app_acc : forall l1 n l2, acc_chain n l1 -> apply_ext' n (l1 ++ l2) = apply_ext' (apply_ext' n l1) l2.
Proof.
  induction l1 as [|b r IH]; intros n l2 H; [reflexivity|].
  destruct H as (n1 & amb & Ha & Hr). cbn [app apply_ext]. rewrite Ha. apply IH. exact Hr.
Qed.

Lemma acc_chain_snoc l b n : acc_chain n (l ++ [b]) ->
  exists amb, add_block' (apply_ext' n l) b = Ok (apply_ext' n (l ++ [b]), amb).
Proof.
  intros H. destruct (acc_chain_app l n [b] H) as (H1 & H2). rewrite (apply_ext_app_acc l n [b] H1).
  destruct H2 as (n1 & amb & Ha & _). exists amb. cbn [apply_ext]. rewrite Ha. reflexivity.
Qed.

(* an accepted block was not stored before and is the one change of the block store *)
Lemma add_block_store n b n1 amb : add_block' n b = Ok (n1, amb) ->
  get_block n (b_hash b) = None /\ blocks n1 = nset (blocks n) (b_hash b) b.
Proof.
  unfold add_block. intros H. guard_inv H. opt_inv H. bind_inv H. destruct a.
  split; [destruct (get_block n (b_hash b)); [discriminate|reflexivity]|].
  destruct (prev_hash b =? top n).
  - bind_inv H. injection H as <- _. unfold add_mainchain_block in E1. bind_inv E1. injection E1 as <-.
    unfold apply_block_node in E2. bind_inv E2. injection E2 as <-. reflexivity.
  - unfold add_altchain_block in H. apply check_reorgs_blocks in H. rewrite H. reflexivity.
Qed.

Lemma apply_ext_store : forall l n, acc_chain n l ->
  (forall h x, get_block n h = Some x -> get_block (apply_ext' n l) h = Some x) /\
  (forall b, In b l -> get_block (apply_ext' n l) (b_hash b) = Some b) /\
  (forall h, get_block n h = None -> (forall b, In b l -> b_hash b <> h) -> get_block (apply_ext' n l) h = None).
Proof.
  induction l as [|b r IH]; intros n H.
  - split; [intros; assumption|]. split; [intros ? []|intros; assumption].
  - destruct H as (n1 & amb & Ha & Hr). cbn [apply_ext]. rewrite Ha.
    destruct (add_block_store _ _ _ _ Ha) as (Hnew & Hb). destruct (IH n1 Hr) as (K1 & K2 & K3).
    assert (Hg1 : forall h, get_block n1 h = if h =? b_hash b then Some b else get_block n h).
    { intros h. unfold get_block. rewrite Hb. apply nget_nset. }
    split; [|split].
    + intros h x Hx. apply K1. rewrite Hg1. destruct (N.eqb_spec h (b_hash b)) as [->|_]; [congruence|exact Hx].
    + intros c [<-|Hc]; [|apply K2; exact Hc]. apply K1. rewrite Hg1, N.eqb_refl. reflexivity.
    + intros h Hn Hne. apply K3.
      * rewrite Hg1. destruct (N.eqb_spec h (b_hash b)) as [->|_]; [|exact Hn]. exfalso. apply (Hne b); [left; reflexivity|reflexivity].
      * intros c Hc. apply Hne. right. exact Hc.
Qed.

End Accept.

Definition dflt_block : block :=
  mkblock 0 0 0 0 [] [] 0 0 0 true 0 0 0 0 [] [] 0 0 (mkcommit 0 0 [] 0 0 false) false.

Lemma sorted_map_key {A} (f : N -> A) (key : A -> N) xs :
  (forall x, In x xs -> key (f x) = x) -> StronglySorted N.le xs ->
  StronglySorted (fun a b => key a <= key b) (map f xs).
Proof.
  intros Hk HS. induction HS as [|x l HS IH HF]; cbn [map]; [constructor|].
  constructor; [apply IH; intros y Hy; apply Hk; right; exact Hy|].
  rewrite Forall_forall in *. intros y Hy. apply in_map_iff in Hy. destruct Hy as (z & <- & Hz).
  rewrite (Hk x (or_introl eq_refl)), (Hk z (or_intror Hz)). apply HF. exact Hz.
Qed.

Lemma ins_asc_sorted p ws : StronglySorted N.le ws -> StronglySorted N.le (ins_asc p ws).
Proof.
  induction 1 as [|x l HS IH HF]; cbn [ins_asc]; [constructor; constructor|].
  destruct (N.leb_spec p x) as [Hle|Hgt].
  - constructor; [constructor; assumption|]. constructor; [exact Hle|].
    rewrite Forall_forall in *. intros y Hy. specialize (HF y Hy). lia.
  - constructor; [exact IH|]. rewrite Forall_forall in *. intros y Hy. apply in_ins_asc in Hy.
    destruct Hy as [->|Hy]; [lia|apply HF; exact Hy].
Qed.

Lemma ins_asc_perm p ws : Permutation (p :: ws) (ins_asc p ws).
Proof.
  induction ws as [|x r IH]; cbn [ins_asc]; [reflexivity|].
  destruct (p <=? x); [reflexivity|]. eapply Permutation_trans; [apply perm_swap|]. apply perm_skip. exact IH.
Qed.

Lemma nth_in_tl {A} (l : list A) d n : (1 <= n)%nat -> (n < length l)%nat -> In (nth n l d) (tl l).
Proof. destruct l as [|x r]; cbn [length]; [lia|]. destruct n as [|n]; [lia|]. intros _ H. cbn [nth tl]. apply nth_In. lia. Qed.

Lemma hts_sorted hp k : forall h, StronglySorted N.le (hts hp h k).
Proof.
  induction k as [|k IH]; intros h; cbn [hts]; [constructor|].
  destruct (h <=? hp); [|constructor]. constructor; [apply IH|].
  rewrite Forall_forall. intros y Hy. apply in_hts in Hy. lia.
Qed.

(* ------------------------------------------------------------------ the schedule: rounds of [sim] with the faithful network *)
(* one round: the peer's STATS have arrived, one iteration of Synchronize, every request answered by the peer, the answers
   arrive in the order sent, the post-processor drains its buffer *)
Definition sround cfg genesis_addr team_key (peer : node) (now : N) (s : sync) : sync :=
  sim_round cfg genesis_addr team_key peer (recv_stats s (top_h peer) (top_cd peer)) ArrId [] now.
Fixpoint srounds cfg genesis_addr team_key (peer : node) (now : N) (k : nat) (s : sync) : sync :=
  match k with O => s | S k' => srounds cfg genesis_addr team_key peer now k' (sround cfg genesis_addr team_key peer now s) end.

(* [sim] runs these rounds until the tips are equal *)
Lemma sim_srounds cfg genesis_addr team_key peer now : forall fuel s,
  top (sy_node (srounds cfg genesis_addr team_key peer now fuel s)) = top peer ->
  top (sy_node (fst (sim cfg genesis_addr team_key fuel peer s [] now))) = top peer.
Proof.
  induction fuel as [|f IH]; intros s H; [exact H|]. cbn [sim].
  destruct (N.eqb_spec (top (sy_node s)) (top peer)) as [E|_]; [exact E|].
  apply IH. exact H.
Qed.

(* a round is this sequence of events of the synchronisation machine: the peer's STATS packet, one Synchronize
   iteration, one BLOCK packet per block of the peer's answers, the post-processor until its buffer is empty *)
Lemma sround_events cfg genesis_addr team_key peer now s :
  let s0 := recv_stats s (top_h peer) (top_cd peer) in
  let arr := map (fun b => (b, now)) (flat_map (serve cfg peer) (snd (tick cfg s0))) in
  sround cfg genesis_addr team_key peer now s =
  steps cfg genesis_addr team_key s
    (EvStats (top_h peer) (top_cd peer) :: EvTick :: map (fun bn => EvBlock (fst bn) (snd bn)) arr ++
     repeat EvPost (length (sy_buf (recv_all cfg team_key (fst (tick cfg s0)) arr)))).
Proof.
  cbn zeta. unfold sround. set (s0 := recv_stats s (top_h peer) (top_cd peer)).
  change (steps cfg genesis_addr team_key s (EvStats (top_h peer) (top_cd peer) :: ?es)) with (steps cfg genesis_addr team_key s0 es).
  rewrite <- round_with_steps. unfold sim_round, round_with. destruct (tick cfg s0) as [s1 reqs]. reflexivity.
Qed.

Section Refine.
Variable cfg : config.
Variable genesis_addr team_key : N.
Variable peer n0 : node.
Variable shared theirs : list block.

Notation pc := (shared ++ theirs).
Notation k0 := (length shared).
Notation L0 := (N.of_nat (length shared)).
Notation hp := (top_h peer).
Notation cdp := (top_cd peer).
Notation pbd := (parallel_blocks cfg).
Notation add_block' := (add_block cfg genesis_addr).
Notation apply_ext' := (apply_ext cfg genesis_addr).
Notation deliver' := (deliver cfg genesis_addr team_key).
Notation post_block' := (post_block cfg genesis_addr team_key).
Notation acc_chain' := (acc_chain cfg genesis_addr).

Definition P (i : N) : block := nth (N.to_nat i) pc dflt_block.
Definition hsh (i : N) : N := b_hash (P i).
Definition ent (i : N) : N * N := (hsh i, i).
(* our node when the frontier is L *)
Definition nd (L : N) : node := apply_ext' n0 (firstn (N.to_nat L - k0) theirs).
Definition th (L : N) : N := top_h (nd L).
(* the highest height at which it holds a block *)
Definition hd (L : N) : N := held_height (nd L).
(* the synchronisation state between two rounds *)
Definition conc (a : astate) : sync :=
  mksync (nd (aL a)) hp cdp (alast a) (await a) (afw a) (map ent (aq a)) [].

Hypothesis Hlen : N.of_nat (length pc) = hp + 1.
Hypothesis Hshared_ne : shared <> [].
Hypothesis Hat : forall h, block_at peer h = nth_error pc (N.to_nat h).
Hypothesis Hheight : forall i b, nth_error pc i = Some b -> b_height b = N.of_nat i.
Hypothesis Hlink : forall i b c, nth_error pc i = Some b -> nth_error pc (S i) = Some c -> prev_hash c = b_hash b.
Hypothesis Hinj : NoDup (map b_hash pc).
Hypothesis Hnz : forall b, In b pc -> b_hash b <> 0.
Hypothesis Hshared : forall b, In b shared -> get_block n0 (b_hash b) = Some b.
Hypothesis Hnew : forall b, In b theirs -> get_block n0 (b_hash b) = None.
Hypothesis Hacc : acc_chain' n0 theirs.
Hypothesis Hheavy : forall j, (j < length theirs)%nat -> top_cd (apply_ext' n0 (firstn j theirs)) < cdp.
Hypothesis Hdone : cdp <= top_cd (apply_ext' n0 theirs).
Hypothesis Hbound : hp + pbd + 2 < two64.
Hypothesis Hpbd : 1 <= pbd.
(* our node holds a block at the height just below the frontier: the highest height at which it holds a block - its own
   height or the height of an alternative tip - is at least that (true of every reachable node: Proofs/Sync2Reach.v) *)
Hypothesis Hheld : forall j, (j <= length theirs)%nat ->
  N.of_nat (k0 + j) <= held_height (apply_ext' n0 (firstn j theirs)) + 1.

(* ---- the peer's chain ---- *)
Lemma k0_pos : 1 <= L0.
Proof. destruct shared; [congruence|cbn [length]; lia]. Qed.

Lemma len_theirs : N.of_nat (length theirs) + L0 = hp + 1.
Proof. rewrite app_length in Hlen. lia. Qed.

Lemma P_nth x : x <= hp -> nth_error pc (N.to_nat x) = Some (P x).
Proof. intros H. apply nth_error_nth'. lia. Qed.

Lemma P_in_tl x : 1 <= x -> x <= hp -> In (P x) (tl pc).
Proof. intros H1 H2. unfold P. apply nth_in_tl; lia. Qed.

Lemma P_in x : x <= hp -> In (P x) pc.
Proof. intros H. eapply nth_error_In. apply P_nth. exact H. Qed.

Lemma P_height x : x <= hp -> b_height (P x) = x.
Proof. intros H. rewrite (Hheight _ _ (P_nth x H)). lia. Qed.

Lemma P_prev x : 1 <= x -> x <= hp -> prev_hash (P x) = hsh (x - 1).
Proof.
  intros H1 H2. apply (Hlink (N.to_nat (x - 1))); [apply P_nth; lia|].
  replace (S (N.to_nat (x - 1))) with (N.to_nat x) by lia. apply P_nth. exact H2.
Qed.

Lemma hsh_inj x y : x <= hp -> y <= hp -> hsh x = hsh y -> x = y.
Proof.
  intros Hx Hy E. unfold hsh, P in E.
  pose proof (proj1 (NoDup_nth (map b_hash pc) (b_hash dflt_block)) Hinj (N.to_nat x) (N.to_nat y)) as H.
  rewrite map_length in H. rewrite !map_nth in H.
  specialize (H ltac:(lia) ltac:(lia) E). lia.
Qed.

Lemma hsh_nz x : x <= hp -> hsh x <> 0.
Proof. intros H. apply Hnz. apply P_in. exact H. Qed.

Lemma P_theirs x : L0 <= x -> P x = nth (N.to_nat x - k0) theirs dflt_block.
Proof. intros H. unfold P. apply app_nth2. lia. Qed.

Lemma P_shared x : x < L0 -> In (P x) shared.
Proof. intros H. unfold P. rewrite app_nth1 by lia. apply nth_In. lia. Qed.

Lemma theirs_nth_P i : (i < length theirs)%nat -> nth i theirs dflt_block = P (N.of_nat (k0 + i)).
Proof. intros H. rewrite P_theirs by lia. f_equal. lia. Qed.

(* ---- our node at frontier L ---- *)
Lemma nd_L0 : nd L0 = n0.
Proof. unfold nd. rewrite Nat2N.id, Nat.sub_diag. reflexivity. Qed.

Lemma nd_acc L : acc_chain' n0 (firstn (N.to_nat L - k0) theirs).
Proof.
  pose proof Hacc as H. rewrite <- (firstn_skipn (N.to_nat L - k0) theirs) in H.
  apply acc_chain_app in H. apply H.
Qed.

Lemma nd_final L : hp < L -> nd L = apply_ext' n0 theirs.
Proof. intros H. unfold nd. rewrite firstn_all2; [reflexivity|]. pose proof len_theirs. lia. Qed.

Lemma nd_succ L : L0 <= L -> L <= hp -> exists amb, add_block' (nd L) (P L) = Ok (nd (L + 1), amb).
Proof.
  intros H1 H2. pose proof len_theirs as Hl. unfold nd.
  replace (N.to_nat (L + 1) - k0)%nat with (S (N.to_nat L - k0)) by lia.
  rewrite (firstn_succ_nth theirs dflt_block) by lia.
  rewrite (P_theirs L H1). apply acc_chain_snoc.
  rewrite <- (firstn_succ_nth theirs dflt_block) by lia.
  pose proof Hacc as H. rewrite <- (firstn_skipn (S (N.to_nat L - k0)) theirs) in H. apply acc_chain_app in H. apply H.
Qed.

Lemma nd_store_lt L x : L0 <= L -> L <= hp + 1 -> x < L -> get_block (nd L) (hsh x) = Some (P x).
Proof.
  intros H1 H2 Hx. pose proof len_theirs as Hl. destruct (apply_ext_store cfg genesis_addr _ _ (nd_acc L)) as (K1 & K2 & _).
  destruct (N.lt_ge_cases x L0) as [Hs|Ht].
  - apply K1. apply Hshared. apply P_shared. exact Hs.
  - unfold hsh. apply K2. rewrite (P_theirs x Ht). apply nth_in_firstn; lia.
Qed.

Lemma nd_store_ge L x : L0 <= L -> L <= x -> x <= hp -> get_block (nd L) (hsh x) = None.
Proof.
  intros H1 H2 Hx. pose proof len_theirs as Hl. destruct (apply_ext_store cfg genesis_addr _ _ (nd_acc L)) as (_ & _ & K3).
  apply K3.
  - apply Hnew. rewrite (P_theirs x) by lia. apply nth_In. lia.
  - intros b Hb. apply (in_firstn_nth theirs dflt_block) in Hb. destruct Hb as (i & Hi1 & Hi2 & <-).
    rewrite (theirs_nth_P i Hi2). intros E. apply hsh_inj in E; lia.
Qed.

Lemma nd_heavy L : L0 <= L -> L <= hp -> top_cd (nd L) < cdp.
Proof. intros H1 H2. pose proof len_theirs. unfold nd. apply Hheavy. lia. Qed.

(* ---- the queue: entries (hash, height) of the peer's chain <-> heights ---- *)
Lemma queue_remove_ent q x : QB hp q -> x <= hp -> queue_remove (map ent q) (hsh x) = map ent (a_rm q x).
Proof.
  intros HQ Hx. unfold queue_remove, a_rm. induction q as [|y r IH]; [reflexivity|]. cbn [map filter fst ent].
  assert (Hy : y <= hp) by (apply HQ; left; reflexivity).
  rewrite IH by (intros z Hz; apply HQ; right; exact Hz).
  destruct (N.eqb_spec (hsh y) (hsh x)) as [E|E], (N.eqb_spec y x) as [E'|E']; cbn [negb map]; try reflexivity.
  - exfalso. apply E'. apply hsh_inj; assumption.
  - exfalso. apply E. rewrite E'. reflexivity.
Qed.

Lemma queue_set_ent q v : QB hp q -> v <= hp -> queue_set (map ent q) (ent v) = map ent (a_set q v).
Proof.
  intros HQ Hv. unfold queue_set, a_set. change (fst (ent v)) with (hsh v).
  assert (Hex : existsb (fun x : N * N => fst x =? hsh v) (map ent q) = existsb (fun y => y =? v) q).
  { induction q as [|y r IH]; [reflexivity|]. cbn [map existsb]. change (fst (ent y)) with (hsh y).
    assert (Hy : y <= hp) by (apply HQ; left; reflexivity).
    rewrite IH by (intros z Hz; apply HQ; right; exact Hz). f_equal.
    destruct (N.eqb_spec (hsh y) (hsh v)) as [E|E], (N.eqb_spec y v) as [E'|E']; try reflexivity.
    - exfalso. apply E'. apply hsh_inj; assumption.
    - exfalso. apply E. rewrite E'. reflexivity. }
  rewrite Hex. destruct (existsb (fun y => y =? v) q).
  - clear Hex. induction q as [|y r IH]; [reflexivity|]. cbn [map]. change (fst (ent y)) with (hsh y).
    assert (Hy : y <= hp) by (apply HQ; left; reflexivity).
    rewrite IH by (intros z Hz; apply HQ; right; exact Hz). f_equal.
    destruct (N.eqb_spec (hsh y) (hsh v)) as [E|E]; [|reflexivity].
    apply hsh_inj in E; [|assumption|assumption]. subst y. reflexivity.
  - clear Hex HQ. induction q as [|y r IH]; [reflexivity|]. cbn [map queue_insert_sorted ins_sorted].
    change (snd (ent v)) with v. change (snd (ent y)) with y.
    destruct (v <? y); [reflexivity|]. cbn [map]. rewrite IH. reflexivity.
Qed.

Lemma proc_QB L q x : 1 <= L -> L <= hp + 1 -> QB hp q -> 1 <= x -> x <= hp ->
  fst (proc (L, q) x) <= hp + 1 /\ QB hp (snd (proc (L, q) x)).
Proof.
  intros H1 H2 HQ Hx1 Hx2. unfold proc. cbn [fst snd].
  destruct (N.ltb_spec x L); cbn [fst snd].
  - split; [exact H2|]. intros y Hy. apply in_a_rm in Hy. apply HQ. apply Hy.
  - destruct (N.eqb_spec x L); cbn [fst snd].
    + split; [lia|exact HQ].
    + split; [exact H2|]. intros y Hy. apply in_a_rm in Hy. destruct Hy as (Hy & _). apply in_a_set in Hy.
      destruct Hy as [->|Hy]; [lia|apply HQ; exact Hy].
Qed.

(* ---- Synchronize ---- *)
Lemma tick_height_ref s rq L : top_h (sy_node s) = th L -> held_height (sy_node s) = hd L -> sy_height s = hp ->
  let r := a_tick_height hp pbd th hd L (sy_last s) (sy_wait s) (sy_fwait s) in
  tick_height cfg s rq =
  (set_fwait (set_last s (fst (fst (fst r))) (snd (fst (fst r)))) (snd (fst r)),
   rq ++ match snd r with Some (h, c) => [ReqHeight h c] | None => [] end).
Proof.
  destruct s as [n h d l w f q b]. cbn [sy_node sy_height sy_last sy_wait sy_fwait]. intros Ht Hh ->. cbn zeta.
  unfold tick_height, a_tick_height. cbn [sy_node sy_height sy_last sy_wait sy_fwait]. rewrite Ht, Hh.
  destruct ((th L <? l) && negb (20 <? w)); cbn [fst snd].
  { rewrite app_nil_r. reflexivity. }
  set (base := N.max (if th L <? l then if (hd L <? l) || (hp <=? l) then th L else l else l) (th L)).
  destruct (base <? hp); cbn [fst snd set_last set_fwait sy_node sy_height sy_diff sy_last sy_wait sy_fwait sy_queue sy_buf].
  - reflexivity.
  - destruct (hp <=? th L); cbn [fst snd].
    + destruct ((f =? 0) && ((if pbd <? hp then hp - pbd + 1 else 1) <=? hp)); cbn [fst snd]; rewrite ?app_nil_r; reflexivity.
    + rewrite app_nil_r. reflexivity.
Qed.

(* ---- the serving side ---- *)
Lemma serve_heights_ref k : forall h, serve_heights peer h k = map P (hts hp h k).
Proof.
  induction k as [|k IH]; intros h; cbn [serve_heights hts]; [reflexivity|]. unfold block_at at 1.
  change (match get_topo peer h with Some hh => get_block peer hh | None => None end) with (block_at peer h).
  rewrite Hat. destruct (N.leb_spec h hp) as [Hle|Hgt].
  - rewrite (P_nth h Hle). cbn [map]. rewrite IH. reflexivity.
  - assert (E : nth_error pc (N.to_nat h) = None) by (apply nth_error_None; lia). rewrite E. reflexivity.
Qed.

Lemma serve_ref h c : c <= pbd -> h + c < two64 -> serve cfg peer (ReqHeight h c) = map P (hts hp h (S (N.to_nat c))).
Proof.
  intros Hc Hb. unfold serve. destruct (N.ltb_spec pbd c); [lia|]. destruct (N.leb_spec two64 (h + c)); [lia|].
  apply serve_heights_ref.
Qed.

Lemma ath_req L last wait fw h c : snd (a_tick_height hp pbd th hd L last wait fw) = Some (h, c) -> c <= pbd /\ h <= hp + 1.
Proof.
  unfold a_tick_height. destruct ((th L <? last) && negb (20 <? wait)); cbn [snd]; [discriminate|].
  set (base := N.max _ (th L)).
  destruct (N.ltb_spec base hp); cbn [snd].
  - intros [= <- <-]. lia.
  - destruct (hp <=? th L); cbn [snd]; [|discriminate].
    destruct ((fw =? 0) && _); cbn [snd]; [|discriminate]. intros [= <- <-]. destruct (N.ltb_spec pbd hp); lia.
Qed.

Lemma Hhd_th L : L0 <= L -> L <= hp + 1 -> L <= hd L + 1.
Proof.
  intros H1 H2. pose proof len_theirs as Hl. unfold hd, nd.
  pose proof (Hheld (N.to_nat L - k0) ltac:(lia)) as H. lia.
Qed.

Notation AInv := (AInv hp L0).
Notation a_round' := (a_round hp pbd th hd).
Notation a_iter' := (a_iter hp pbd th hd).

(* one iteration of Synchronize *)
Lemma a_round_AInv a : AInv a -> AInv (a_round' a).
Proof.
  intros HA. destruct (N.lt_ge_cases hp (aL a)) as [Hd|Hle].
  - rewrite a_round_done by exact Hd. exact HA.
  - apply (round_spec hp pbd th hd Hpbd L0 k0_pos Hhd_th a HA Hle).
Qed.

Definition a_init (s : sync) : astate := mka L0 [] (sy_last s) (sy_wait s) (sy_fwait s).

Lemma a_init_AInv s : AInv (a_init s).
Proof.
  pose proof k0_pos. pose proof len_theirs. unfold Sync2.AInv, SInv, a_init. cbn [aL aq fst snd].
  split; [lia|]. split; [lia|]. split; [lia|]. split; [constructor|intros x []].
Qed.

Section Now.
Variable now : N.
(* every block of the peer's chain other than genesis (which is never requested) passes prevalidation at this clock reading *)
Hypothesis Hpre : forall b, In b (tl pc) -> prevalidate_block cfg team_key b now = Ok tt.

(* ---- one block of the peer's chain handed to the post-processor ---- *)
Lemma deliver_lt L x : L0 <= L -> L <= hp + 1 -> 1 <= x -> x < L -> deliver' (nd L) (P x) now = (nd L, Rejected 761, false).
Proof.
  intros H1 H2 Hx1 Hx. apply (deliver_dup cfg genesis_addr team_key _ _ _ (P x)); [apply Hpre, P_in_tl; lia|].
  apply nd_store_lt; assumption.
Qed.

Lemma deliver_eq L : L0 <= L -> L <= hp -> exists amb, deliver' (nd L) (P L) now = (nd (L + 1), Accepted, amb).
Proof.
  intros H1 H2. destruct (nd_succ L H1 H2) as (amb & Ha). exists amb.
  pose proof k0_pos. apply deliver_accept; [apply Hpre, P_in_tl; lia|exact Ha].
Qed.

Lemma deliver_gt L x : L0 <= L -> L < x -> x <= hp -> deliver' (nd L) (P x) now = (nd L, Rejected 762, false).
Proof.
  intros H1 H2 Hx. pose proof k0_pos. unfold deliver. rewrite (Hpre _ (P_in_tl x ltac:(lia) Hx)). unfold add_block.
  change (b_hash (P x)) with (hsh x). rewrite (nd_store_ge L x) by lia. cbn [guard bind].
  rewrite (P_prev x) by lia. rewrite (nd_store_ge L (x - 1)) by lia. reflexivity.
Qed.

Lemma post_block_ref s L q x :
  sy_node s = nd L -> sy_queue s = map ent q -> L0 <= L -> L <= hp + 1 -> QB hp q -> 1 <= x -> x <= hp ->
  post_block' s (P x) now = set_queue (set_node s (nd (fst (proc (L, q) x)))) (map ent (snd (proc (L, q) x))).
Proof.
  intros Hn Hq H1 H2 HQ Hx1 Hx2. unfold post_block, proc. cbn [fst snd]. rewrite Hn, Hq.
  destruct (N.ltb_spec x L) as [Hlt|Hge].
  - rewrite (deliver_lt L x H1 H2 Hx1 Hlt). replace (761 =? 762) with false by reflexivity.
    change (b_hash (P x)) with (hsh x). rewrite (queue_remove_ent q x HQ Hx2). reflexivity.
  - destruct (N.eqb_spec x L) as [->|Hne].
    + destruct (deliver_eq L H1 Hx2) as (amb & ->). reflexivity.
    + rewrite (deliver_gt L x H1 ltac:(lia) Hx2). rewrite N.eqb_refl.
      rewrite (P_prev x Hx1 Hx2), (P_height x Hx2). rewrite wsub_small by lia.
      change (hsh (x - 1), x - 1) with (ent (x - 1)). rewrite (queue_set_ent q (x - 1) HQ) by lia.
      change (b_hash (P x)) with (hsh x). rewrite queue_remove_ent; [reflexivity| |exact Hx2].
      intros y Hy. apply in_a_set in Hy. pose proof k0_pos. destruct Hy as [->|Hy]; [lia|apply HQ; exact Hy].
Qed.

Lemma post_all_ref xs : forall s L q,
  sy_node s = nd L -> sy_queue s = map ent q -> L0 <= L -> L <= hp + 1 -> QB hp q -> (forall x, In x xs -> 1 <= x /\ x <= hp) ->
  post_all cfg genesis_addr team_key s (map (fun i => (P i, now)) xs) =
  set_queue (set_node s (nd (fst (fold_left proc xs (L, q))))) (map ent (snd (fold_left proc xs (L, q)))).
Proof.
  induction xs as [|x xs IH]; intros s L q Hn Hq H1 H2 HQ Hb.
  - cbn [map post_all fold_left fst snd]. destruct s as [n a c d e f qq buf]. cbn in Hn, Hq. subst. reflexivity.
  - cbn [map post_all fold_left fst snd]. destruct (Hb x (or_introl eq_refl)) as (Hx1 & Hx2).
    rewrite (post_block_ref s L q x Hn Hq H1 H2 HQ Hx1 Hx2).
    pose proof k0_pos as Hk.
    pose proof (proc_QB L q x ltac:(lia) H2 HQ Hx1 Hx2) as (H2' & HQ'). pose proof (proc_mono (L, q) x) as Hm. cbn [fst] in Hm.
    destruct (proc (L, q) x) as [L1 q1]. cbn [fst snd] in *.
    change (fold_left (fun s0 x0 => post_block' s0 (fst x0) (snd x0)) (map (fun i => (P i, now)) xs) ?s0)
      with (post_all cfg genesis_addr team_key s0 (map (fun i => (P i, now)) xs)).
    rewrite (IH _ L1 q1); [destruct s; reflexivity|destruct s; reflexivity|destruct s; reflexivity|lia|exact H2'|exact HQ'|].
    intros y Hy. apply Hb. right. exact Hy.
Qed.

Lemma tick_ref a : AInv a -> aL a <= hp ->
  let r := a_tick_height hp pbd th hd (aL a) (alast a) (await a) (afw a) in
  tick cfg (conc a) =
  (mksync (nd (aL a)) hp cdp (fst (fst (fst r))) (snd (fst (fst r))) (snd (fst r)) (map ent (a_rot (aq a))) [],
   match aq a with [] => [] | p :: _ => [ReqHeight p 0] end ++
   match snd r with Some (h, c) => [ReqHeight h c] | None => [] end).
Proof.
  destruct a as [L q last wait fw]. cbn [aL aq alast await afw]. intros (HL1 & HS) HL2. cbn [aL aq] in HL1, HS. cbn zeta.
  unfold tick, conc. cbn [aL aq alast await afw sy_diff sy_node sy_queue].
  pose proof (nd_heavy L HL1 HL2). destruct (N.leb_spec cdp (top_cd (nd L))); [lia|].
  destruct q as [|p q]; cbn [map a_rot].
  - rewrite (tick_height_ref _ [] L); reflexivity.
  - assert (Hp : 1 <= p /\ p <= hp) by (destruct HS as (_ & _ & _ & HQ); apply HQ; left; reflexivity).
    change (fst (ent p)) with (hsh p). destruct (N.eqb_spec (hsh p) 0) as [E|_]; [exfalso; apply (hsh_nz p); [lia|exact E]|].
    unfold queue_request. change (snd (ent p)) with p. destruct (N.eqb_spec p 0); [lia|].
    rewrite (tick_height_ref _ _ L); [|reflexivity|reflexivity|reflexivity].
    cbn [set_queue set_last set_fwait sy_node sy_height sy_diff sy_last sy_wait sy_fwait sy_queue sy_buf].
    rewrite map_app. reflexivity.
Qed.

(* the peer's answers *)
Lemma answers_ref a : AInv a -> aL a <= hp ->
  let r := a_tick_height hp pbd th hd (aL a) (alast a) (await a) (afw a) in
  flat_map (serve cfg peer) (snd (tick cfg (conc a))) =
  map P (match aq a with [] => [] | p :: _ => [p] end ++ a_window hp (snd r)).
Proof.
  intros HA HL2. cbn zeta. rewrite (tick_ref a HA HL2). cbn [snd]. rewrite flat_map_app, map_app. f_equal.
  - destruct HA as (_ & _ & _ & _ & HQ). cbn [snd] in HQ. destruct (aq a) as [|p q]; [reflexivity|].
    assert (Hp : 1 <= p /\ p <= hp) by (apply HQ; left; reflexivity).
    cbn [flat_map]. rewrite app_nil_r. rewrite (serve_ref p 0) by lia. cbn [N.to_nat hts].
    destruct (N.leb_spec p hp); [reflexivity|lia].
  - destruct (snd (a_tick_height hp pbd th hd (aL a) (alast a) (await a) (afw a))) as [[h c]|] eqn:E; [|reflexivity].
    apply ath_req in E. cbn [flat_map a_window]. rewrite app_nil_r. apply serve_ref; lia.
Qed.

Lemma flush_nil s : sy_buf s = [] -> flush cfg genesis_addr team_key s = s.
Proof. intros H. unfold flush. rewrite H. reflexivity. Qed.

(* ---- one round = one round of the machine, in whatever order the answers arrive ---- *)
Lemma round_with_ref a arr : AInv a ->
  Permutation (map (fun b => (b, now)) (flat_map (serve cfg peer) (snd (tick cfg (conc a))))) arr ->
  round_with cfg genesis_addr team_key (conc a) arr = conc (a_round' a).
Proof.
  intros HA Hparr. unfold round_with.
  destruct (N.lt_ge_cases hp (aL a)) as [Hdn|HL2].
  - (* nothing left to do *)
    rewrite (a_round_done hp pbd th hd a Hdn).
    assert (Ht : tick cfg (conc a) = (conc a, [])).
    { unfold tick. cbn [conc sy_diff sy_node]. rewrite (nd_final (aL a) Hdn).
      destruct (N.leb_spec cdp (top_cd (apply_ext' n0 theirs))); [reflexivity|lia]. }
    rewrite Ht in *. cbn [snd flat_map map] in Hparr. apply Permutation_nil in Hparr. subst arr.
    cbn [fst recv_all fold_left]. apply flush_nil. reflexivity.
  - pose proof (answers_ref a HA HL2) as Hans. pose proof (tick_ref a HA HL2) as Ht. cbn zeta in *.
    set (r := a_tick_height hp pbd th hd (aL a) (alast a) (await a) (afw a)) in *.
    set (ws := a_window hp (snd r)) in *.
    destruct (tick cfg (conc a)) as [s1 reqs]. injection Ht as -> ->. cbn [snd] in Hans, Hparr. cbn [fst].
    rewrite Hans in Hparr. rewrite map_map in Hparr.
    set (ul := match aq a with [] => [] | p :: _ => [p] end ++ ws) in *.
    set (f := fun i : N => (P i, now)) in *.
    set (s1 := mksync (nd (aL a)) hp cdp (fst (fst (fst r))) (snd (fst (fst r))) (snd (fst r)) (map ent (a_rot (aq a))) []).
    destruct HA as (HL1 & HS).
    pose proof (ath_window_bounds hp pbd th hd Hpbd L0 k0_pos Hhd_th (aL a) (alast a) (await a) (afw a) HL1 HL2) as Hwb.
    fold r in Hwb. fold ws in Hwb.
    assert (Hulb : forall x, In x ul -> 1 <= x /\ x <= hp).
    { intros x Hx. unfold ul in Hx. apply in_app_or in Hx. destruct Hx as [Hx|Hx]; [|apply Hwb; exact Hx].
      destruct HS as (_ & _ & _ & HQ). cbn [snd] in HQ. destruct (aq a) as [|p q]; [destruct Hx|].
      destruct Hx as [<-|[]]. apply HQ. left. reflexivity. }
    assert (Hel : forall z, In z arr -> exists i, 1 <= i /\ i <= hp /\ z = f i).
    { intros z Hz. apply (Permutation_in z (Permutation_sym Hparr)) in Hz.
      apply in_map_iff in Hz. destruct Hz as (i & <- & Hi). exists i. destruct (Hulb i Hi). repeat split; assumption. }
    assert (Hpv : forall x, In x arr -> prevalidate_block cfg team_key (fst x) (snd x) = Ok tt).
    { intros x Hx. destruct (Hel x Hx) as (i & Hi1 & Hi2 & ->). cbn [f fst snd]. apply Hpre, P_in_tl; assumption. }
    rewrite (recv_all_ok cfg team_key arr s1 Hpv). cbn [s1 sy_buf app].
    rewrite flush_drain. cbn [sy_buf set_buf].
    (* the post-processor takes the blocks lowest height first *)
    assert (Hdr : drain (length arr) arr = map f (a_batch (aq a) ws)).
    { assert (Hbb : forall x, In x (a_batch (aq a) ws) -> 1 <= x /\ x <= hp).
      { apply batch_bounds; [apply HS|exact Hwb]. }
      assert (Hperm : Permutation ul (a_batch (aq a) ws)).
      { unfold ul. destruct (aq a) as [|p q]; cbn [a_batch app]; [reflexivity|apply ins_asc_perm]. }
      apply (sorted_perm_unique_det hgt).
      - apply drain_sorted. reflexivity.
      - apply sorted_map_key.
        + intros x Hx. unfold hgt, f. cbn [fst]. apply P_height. apply Hbb. exact Hx.
        + unfold ws. destruct (snd r) as [[h c]|]; cbn [a_window].
          * destruct (aq a); cbn [a_batch]; [apply hts_sorted|apply ins_asc_sorted, hts_sorted].
          * destruct (aq a); cbn [a_batch ins_asc]; repeat constructor.
      - intros x y Hx Hy Hk.
        apply (Permutation_in x (Permutation_sym (drain_perm _ arr eq_refl))) in Hx.
        apply (Permutation_in y (Permutation_sym (drain_perm _ arr eq_refl))) in Hy.
        destruct (Hel x Hx) as (i & _ & Hi & ->). destruct (Hel y Hy) as (j & _ & Hj & ->).
        unfold hgt, f in Hk. cbn [fst] in Hk. rewrite !P_height in Hk by assumption. subst j. reflexivity.
      - eapply Permutation_trans; [apply Permutation_sym, drain_perm; reflexivity|].
        eapply Permutation_trans; [apply Permutation_sym; exact Hparr|].
        apply Permutation_map. exact Hperm. }
    rewrite Hdr.
    assert (HQr : QB hp (a_rot (aq a))).
    { destruct HS as (_ & _ & _ & H4). cbn [snd] in H4. destruct (aq a) as [|p q]; cbn [a_rot]; [exact H4|].
      intros x Hx. apply in_app_or in Hx. apply H4. destruct Hx as [Hx|[<-|[]]]; [right; exact Hx|left; reflexivity]. }
    rewrite (post_all_ref (a_batch (aq a) ws) _ (aL a) (a_rot (aq a))); [|reflexivity|reflexivity|exact HL1|lia|exact HQr|].
    2:{ apply batch_bounds; [apply HS|exact Hwb]. }
    unfold conc, a_round. destruct (N.ltb_spec hp (aL a)); [lia|]. fold r. fold ws. reflexivity.
Qed.

Lemma recv_stats_conc a : recv_stats (conc a) hp cdp = conc a.
Proof. unfold recv_stats. cbn [conc sy_diff]. rewrite N.ltb_irrefl. reflexivity. Qed.

Lemma sim_round_round_with s : sim_round cfg genesis_addr team_key peer s ArrId [] now =
  round_with cfg genesis_addr team_key s (map (fun b => (b, now)) (flat_map (serve cfg peer) (snd (tick cfg s)))).
Proof. unfold sim_round, round_with. destruct (tick cfg s) as [s1 reqs]. reflexivity. Qed.

(* ---- one round of [sim] (faithful network) ---- *)
Lemma sim_round_ref a : AInv a ->
  sim_round cfg genesis_addr team_key peer (recv_stats (conc a) hp cdp) ArrId [] now = conc (a_round' a).
Proof.
  intros HA. rewrite recv_stats_conc, sim_round_round_with. apply round_with_ref; [exact HA|reflexivity].
Qed.

Notation sround' := (sround cfg genesis_addr team_key peer now).
Notation srounds' := (srounds cfg genesis_addr team_key peer now).

Lemma srounds_conc k : forall a, AInv a -> srounds' k (conc a) = conc (a_iter' k a).
Proof.
  induction k as [|k IH]; intros a HA; [reflexivity|]. cbn [srounds a_iter]. unfold sround at 1.
  rewrite (sim_round_ref a HA). apply IH. apply a_round_AInv. exact HA.
Qed.

(* the state the first STATS packet of the peer leaves *)
Lemma recv_stats_init s : sy_node s = n0 -> sy_queue s = [] -> sy_buf s = [] ->
  (sy_diff s < cdp \/ (sy_diff s = cdp /\ sy_height s = hp)) ->
  recv_stats s hp cdp = conc (a_init s).
Proof.
  destruct s as [n h d l w f q b]. cbn [sy_node sy_queue sy_buf sy_diff sy_height]. intros -> -> -> Ht.
  unfold recv_stats, conc, a_init. cbn [sy_diff aL aq alast await afw map sy_last sy_wait sy_fwait]. rewrite nd_L0.
  destruct Ht as [Hlt|(-> & ->)].
  - destruct (N.ltb_spec d cdp); [reflexivity|lia].
  - rewrite N.ltb_irrefl. reflexivity.
Qed.

Lemma srounds_init s k : sy_node s = n0 -> sy_queue s = [] -> sy_buf s = [] ->
  (sy_diff s < cdp \/ (sy_diff s = cdp /\ sy_height s = hp)) ->
  srounds' (S k) s = conc (a_iter' (S k) (a_init s)).
Proof.
  intros H1 H2 H3 H4. cbn [srounds a_iter].
  assert (E : sround' s = conc (a_round' (a_init s))).
  { unfold sround. rewrite (recv_stats_init s H1 H2 H3 H4).
    pose proof (sim_round_ref (a_init s) (a_init_AInv s)) as H.
    assert (Hrs : recv_stats (conc (a_init s)) hp cdp = conc (a_init s)).
    { unfold recv_stats. cbn [conc sy_diff]. rewrite N.ltb_irrefl. reflexivity. }
    rewrite Hrs in H. exact H. }
  rewrite E. apply srounds_conc. apply a_round_AInv. apply a_init_AInv.
Qed.

(* rounds in which the answers arrive in ANY order (the post-processor sorts them) *)
Inductive prounds : nat -> sync -> sync -> Prop :=
| PR0 s : prounds O s s
| PRS m s arr s' :
    Permutation (map (fun b => (b, now)) (flat_map (serve cfg peer) (snd (tick cfg (recv_stats s hp cdp))))) arr ->
    prounds m (round_with cfg genesis_addr team_key (recv_stats s hp cdp) arr) s' -> prounds (S m) s s'.

Lemma prounds_conc m : forall a s', AInv a -> prounds m (conc a) s' -> s' = conc (a_iter' m a).
Proof.
  induction m as [|m IH]; intros a s' HA H; inversion H as [|? ? arr ? Hp Hr]; subst; [reflexivity|].
  rewrite recv_stats_conc in Hp, Hr. rewrite (round_with_ref a arr HA Hp) in Hr.
  cbn [a_iter]. apply IH; [apply a_round_AInv; exact HA|exact Hr].
Qed.

Lemma prounds_init s m s' : sy_node s = n0 -> sy_queue s = [] -> sy_buf s = [] ->
  (sy_diff s < cdp \/ (sy_diff s = cdp /\ sy_height s = hp)) ->
  prounds (S m) s s' -> s' = conc (a_iter' (S m) (a_init s)).
Proof.
  intros H1 H2 H3 H4 H. inversion H as [|? ? arr ? Hp Hr]; subst.
  rewrite (recv_stats_init s H1 H2 H3 H4) in Hp, Hr. rewrite (round_with_ref _ arr (a_init_AInv s) Hp) in Hr.
  cbn [a_iter]. apply prounds_conc; [apply a_round_AInv, a_init_AInv|exact Hr].
Qed.

End Now.

(* ---- the node catches up ---- *)
(* the store of the node that has accepted the whole branch holds every block of the peer's chain *)
Lemma final_store : forall b, In b pc -> get_block (apply_ext' n0 theirs) (b_hash b) = Some b.
Proof.
  intros b Hb. apply (In_nth _ _ dflt_block) in Hb. destruct Hb as (i & Hi & <-).
  pose proof k0_pos as Hk. pose proof len_theirs as Hl. pose proof Hlen as Hl2.
  assert (A1 : L0 <= hp + 1) by lia. assert (A2 : hp + 1 <= hp + 1) by lia. assert (A3 : N.of_nat i < hp + 1) by lia.
  pose proof (nd_store_lt (hp + 1) (N.of_nat i) A1 A2 A3) as H0.
  rewrite (nd_final (hp + 1)) in H0 by lia. unfold hsh, P in H0. rewrite Nat2N.id in H0. exact H0.
Qed.

Theorem sync_fork_rounds s :
  sy_node s = n0 -> sy_queue s = [] -> sy_buf s = [] ->
  (sy_diff s < cdp \/ (sy_diff s = cdp /\ sy_height s = hp)) ->
  exists bound, forall now, (forall b, In b (tl pc) -> prevalidate_block cfg team_key b now = Ok tt) ->
    forall k, (bound <= k)%nat ->
      let s' := srounds cfg genesis_addr team_key peer now k s in
      sy_node s' = apply_ext' n0 theirs /\ sy_buf s' = [] /\
      srounds cfg genesis_addr team_key peer now (S k) s = s'.
Proof.
  intros H1 H2 H3 H4.
  destruct (a_catches_up_stable hp pbd th hd Hpbd L0 k0_pos Hhd_th (a_init s) (a_init_AInv s)) as (k0' & Hk0).
  exists (S k0'). intros now Hpre k Hk. cbn zeta.
  destruct k as [|k]; [lia|].
  rewrite (srounds_init now Hpre s k H1 H2 H3 H4), (srounds_init now Hpre s (S k) H1 H2 H3 H4).
  destruct (Hk0 (S k) ltac:(lia)) as (Hd1 & E1). destruct (Hk0 (S (S k)) ltac:(lia)) as (Hd2 & E2).
  split; [|split].
  - cbn [conc sy_node]. apply nd_final. exact Hd1.
  - reflexivity.
  - rewrite E1, E2. reflexivity.
Qed.

Theorem sync_fork_prounds s :
  sy_node s = n0 -> sy_queue s = [] -> sy_buf s = [] ->
  (sy_diff s < cdp \/ (sy_diff s = cdp /\ sy_height s = hp)) ->
  exists bound, forall now, (forall b, In b (tl pc) -> prevalidate_block cfg team_key b now = Ok tt) ->
    forall m s', (bound <= m)%nat -> prounds now m s s' ->
      sy_node s' = apply_ext' n0 theirs /\ sy_buf s' = [].
Proof.
  intros H1 H2 H3 H4.
  destruct (a_catches_up_stable hp pbd th hd Hpbd L0 k0_pos Hhd_th (a_init s) (a_init_AInv s)) as (k0' & Hk0).
  exists (S k0'). intros now Hpre m s' Hm Hr.
  destruct m as [|m]; [lia|].
  rewrite (prounds_init now Hpre s m s' H1 H2 H3 H4 Hr).
  destruct (Hk0 (S m) ltac:(lia)) as (Hd1 & _). split; [|reflexivity].
  cbn [conc sy_node]. apply nd_final. exact Hd1.
Qed.

End Refine.
