(* Property C03 (reorganisations are exact), lemma B of DESIGN.md, staking part:
   RemoveTxFromState right after ApplyTxToState restores the accounts, the delegate table and the staked total for
   EVERY kind of transaction (register, set-delegate, stake, unstake, and the kinds whose version byte does not match
   the payload), and undoing a staker reward restores the pool.  All statements are for arbitrary ledgers and values.

   The undo lemmas are stated in a generalised form: the ledger [l'] from which the transaction is removed need not be
   the ledger [l1] produced by the application, only agree with it on what the removal reads (accounts pointwise,
   delegate table, staked total, the delegate-history entry of this transaction).  That is what the lifting to
   lists of transactions and to blocks (Proofs/Undo2.v) needs: the bookkeeping indexes differ after an undo. *)
From Coq Require Import Sorting.Sorted.
From Virel Require Import Lib.Config Lib.U64 Lib.AMap Model.Emission Model.Ledger
  Proofs.AMapLemmas Proofs.Conservation Proofs.Pointwise Proofs.Staking Proofs.StakedSum.
Open Scope N_scope.
Open Scope bool_scope.
(* History: before the repair d31bf91 of /repo (finding R21) the undo of an unstake that had emptied a fund re-created
   the fund at the END of the pool's fund list, and the exact statements below were false (the funds of a pool came
   back in another order).  ApplyStake with reverse now re-inserts the fund at the position it has in the pool record
   saved under the transaction id; [insert_at_fund_index] is the reason the list is restored exactly. *)

(* ------------------------------------------------------------------------------------------------------------ *)
(* the delegate table *)

Lemma aget_in {V} (m : list (N * V)) k v : aget N.eqb m k = Some v -> In (k, v) m.
Proof.
  induction m as [|[k0 v0] m IH]; cbn [aget]; [discriminate|].
  destruct (N.eqb_spec k k0) as [->|_]; [intros [= ->]; left; reflexivity|intros H; right; apply IH; exact H].
Qed.

Lemma dins_dins m id d1 d2 : dins (dins m id d1) id d2 = dins m id d2.
Proof.
  induction m as [|[k v] m IH]; cbn [dins].
  - rewrite N.eqb_refl. reflexivity.
  - destruct (N.eqb_spec id k) as [->|Hne]; cbn [dins].
    + rewrite N.eqb_refl. reflexivity.
    + destruct (N.ltb_spec (dbkey id) (dbkey k)) as [Hlt|Hge]; cbn [dins].
      * rewrite N.eqb_refl. reflexivity.
      * destruct (N.eqb_spec id k); [contradiction|].
        destruct (N.ltb_spec (dbkey id) (dbkey k)); [lia|]. rewrite IH. reflexivity.
Qed.

(* writing back the record that is already there changes nothing: needs the database-key order *)
Lemma dins_same m id d : dsorted m -> nget m id = Some d -> dins m id d = m.
Proof.
  unfold dsorted, nget. induction m as [|[k v] m IH]; cbn [dins aget]; intros Hs Hg; [discriminate|].
  inversion Hs as [|? ? Hs' Hall]; subst.
  destruct (N.eqb_spec id k) as [->|Hne].
  - injection Hg as ->. reflexivity.
  - rewrite Forall_forall in Hall. pose proof (Hall _ (aget_in _ _ _ Hg)) as Hle. unfold kle in Hle. cbn [fst] in Hle.
    destruct (N.ltb_spec (dbkey id) (dbkey k)); [lia|]. rewrite (IH Hs' Hg). reflexivity.
Qed.

Lemma ndel_dins m id d : nget m id = None -> ndel (dins m id d) id = m.
Proof.
  unfold nget, ndel. induction m as [|[k v] m IH]; cbn [dins aget adel]; intros Hg.
  - rewrite N.eqb_refl. reflexivity.
  - destruct (id =? k) eqn:Ek; [discriminate|].
    destruct (dbkey id <? dbkey k); cbn [adel].
    + rewrite N.eqb_refl. reflexivity.
    + rewrite Ek, (IH Hg). reflexivity.
Qed.

Lemma nget_dins_other m id d id' : id' <> id -> nget (dins m id d) id' = nget m id'.
Proof.
  intros Hne. unfold nget. induction m as [|[k v] m IH]; cbn [dins aget].
  - destruct (N.eqb_spec id' id); [contradiction|reflexivity].
  - destruct (N.eqb_spec id k) as [->|Hk]; cbn [aget].
    + destruct (N.eqb_spec id' k); [contradiction|reflexivity].
    + destruct (dbkey id <? dbkey k); cbn [aget].
      * destruct (N.eqb_spec id' id); [contradiction|reflexivity].
      * rewrite IH. reflexivity.
Qed.

Lemma get_dlg_put l d id : get_dlg (put_dlg l d) id = if id =? d_id d then Some d else get_dlg l id.
Proof.
  unfold get_dlg, put_dlg. cbn [dlgs set_dlgs].
  destruct (N.eqb_spec id (d_id d)) as [->|Hne]; [apply nget_dins_same|apply nget_dins_other; exact Hne].
Qed.

(* ------------------------------------------------------------------------------------------------------------ *)
(* funds *)

Lemma find_fund_owner fs o f : find_fund fs o = Some f -> f_owner f = o.
Proof.
  induction fs as [|g fs IH]; cbn [find_fund]; [discriminate|].
  destruct (N.eqb_spec (f_owner g) o) as [E|_]; [intros [= <-]; exact E|exact IH].
Qed.

Lemma find_fund_in fs o f : find_fund fs o = Some f -> In f fs.
Proof.
  induction fs as [|g fs IH]; cbn [find_fund]; [discriminate|].
  destruct (f_owner g =? o); [intros [= <-]; left; reflexivity|intros H; right; apply IH; exact H].
Qed.

Lemma upd_fund_same fs o f : find_fund fs o = Some f -> upd_fund fs o (Some f) = fs.
Proof.
  induction fs as [|g fs IH]; cbn [find_fund upd_fund]; [discriminate|].
  destruct (f_owner g =? o); [intros [= <-]; reflexivity|intros H; rewrite (IH H); reflexivity].
Qed.

Lemma upd_fund_upd fs o g nf : f_owner g = o -> upd_fund (upd_fund fs o (Some g)) o nf = upd_fund fs o nf.
Proof.
  intros Hg. induction fs as [|x fs IH]; cbn [upd_fund]; [reflexivity|].
  destruct (f_owner x =? o) eqn:Ex; cbn [upd_fund].
  - rewrite Hg, N.eqb_refl. reflexivity.
  - rewrite Ex, IH. reflexivity.
Qed.

Lemma upd_fund_app_last fs o f : find_fund fs o = None -> f_owner f = o -> upd_fund (fs ++ [f]) o None = fs.
Proof.
  intros Hn Hf. induction fs as [|x fs IH]; cbn [app upd_fund find_fund] in *.
  - rewrite Hf, N.eqb_refl. reflexivity.
  - destruct (f_owner x =? o); [discriminate|]. rewrite (IH Hn). reflexivity.
Qed.

Lemma fund_eta f : mkfund (f_owner f) (f_amt f) (f_unlock f) = f.
Proof. destruct f; reflexivity. Qed.
Lemma dlg_eta d : mkdlg (d_id d) (d_owner d) (d_name d) (d_funds d) = d.
Proof. destruct d; reflexivity. Qed.
Lemma acct_eta s : mkacct (bal s) (nonce s) (inc s) (deleg s) = s.
Proof. destruct s; reflexivity. Qed.

(* ---- funds with distinct owners ---- *)
Definition fowners (fs : list fund) : list N := map f_owner fs.

Lemma find_fund_none_iff fs o : find_fund fs o = None <-> ~ In o (fowners fs).
Proof.
  induction fs as [|g fs IH]; cbn [find_fund fowners map In]; [tauto|].
  destruct (N.eqb_spec (f_owner g) o) as [E|E].
  - split; [discriminate|intros H; exfalso; apply H; left; exact E].
  - rewrite IH. unfold fowners. tauto.
Qed.

Lemma fowners_upd_some fs o x : f_owner x = o -> fowners (upd_fund fs o (Some x)) = fowners fs.
Proof.
  intros Hx. induction fs as [|g fs IH]; cbn [upd_fund fowners map]; [reflexivity|].
  destruct (N.eqb_spec (f_owner g) o) as [E|E]; cbn [map]; [congruence|]. unfold fowners in IH. rewrite IH. reflexivity.
Qed.

Lemma In_fowners_upd_none a fs o : In a (fowners (upd_fund fs o None)) -> In a (fowners fs).
Proof.
  induction fs as [|g fs IH]; cbn [upd_fund fowners map In]; [tauto|].
  destruct (f_owner g =? o); [intros H; right; exact H|].
  cbn [map In]. intros [H|H]; [left; exact H|right; apply IH; exact H].
Qed.

Lemma NoDup_upd_none fs o : NoDup (fowners fs) -> NoDup (fowners (upd_fund fs o None)).
Proof.
  induction fs as [|g fs IH]; cbn [upd_fund fowners map]; intros H; [constructor|].
  inversion H as [|? ? Hn Hd]; subst. destruct (f_owner g =? o); [exact Hd|].
  cbn [map]. constructor; [intros Hin; apply Hn; apply (In_fowners_upd_none _ _ o); exact Hin|apply IH; exact Hd].
Qed.

Lemma find_upd_none fs o : NoDup (fowners fs) -> find_fund (upd_fund fs o None) o = None.
Proof.
  induction fs as [|g fs IH]; cbn [upd_fund fowners map]; intros H; [reflexivity|].
  inversion H as [|? ? Hn Hd]; subst. destruct (N.eqb_spec (f_owner g) o) as [E|E].
  - apply find_fund_none_iff. rewrite <- E. exact Hn.
  - cbn [find_fund]. destruct (N.eqb_spec (f_owner g) o); [contradiction|]. apply IH. exact Hd.
Qed.

Lemma NoDup_app_last {A} (l : list A) a : NoDup l -> ~ In a l -> NoDup (l ++ [a]).
Proof.
  induction l as [|x l IH]; cbn [app]; intros Hnd Hn; [constructor; [intros []|constructor]|].
  inversion Hnd as [|? ? Hx Hd]; subst. constructor.
  - intros Hin. apply in_app_or in Hin. destruct Hin as [Hin|[<-|[]]]; [contradiction|]. apply Hn. left. reflexivity.
  - apply IH; [exact Hd|]. intros Hin. apply Hn. right. exact Hin.
Qed.

(* putting a dropped fund back at the index it had restores the list *)
Lemma insert_at_fund_index fs o f : find_fund fs o = Some f -> insert_at (fund_index fs o) f (upd_fund fs o None) = fs.
Proof.
  induction fs as [|g fs IH]; cbn [find_fund fund_index upd_fund]; [discriminate|].
  destruct (f_owner g =? o).
  - intros [= <-]. reflexivity.
  - intros H. unfold insert_at in *. cbn [firstn skipn app]. rewrite (IH H). reflexivity.
Qed.

(* the funds of every pool have distinct owners.  Holds in every reachable ledger (Proofs/Undo4.v): ApplyStake and
   ApplyPosReward append a fund only when the pool has none of that owner *)
Definition FUniq (l : ledger) : Prop := forall id d, get_dlg l id = Some d -> NoDup (fowners (d_funds d)).

Lemma FUniq_ext l l' : dlgs l' = dlgs l -> FUniq l -> FUniq l'.
Proof. intros Hd HU id d Hg. apply (HU id d). unfold get_dlg in *. rewrite <- Hd. exact Hg. Qed.

Lemma FUniq_put l0 l d : FUniq l -> dlgs l0 = dlgs l -> NoDup (fowners (d_funds d)) -> FUniq (put_dlg l0 d).
Proof.
  intros HU Hd Hf id d' Hg. rewrite get_dlg_put in Hg. destruct (id =? d_id d).
  - injection Hg as <-. exact Hf.
  - apply (HU id d'). unfold get_dlg in *. rewrite <- Hd. exact Hg.
Qed.

(* every fund of every pool is non-empty.  Holds in every reachable ledger: a fund is created by a stake (amount at
   least MIN_STAKE_AMOUNT > 0, check 210 of prevalidate_tx) or by the rounding remainder of a staker reward, which is
   at least 1% of a non-zero reward (the coinbase has no zero staker output), and a fund that reaches 0 is dropped. *)
Definition FPos (l : ledger) : Prop :=
  forall id d f, get_dlg l id = Some d -> In f (d_funds d) -> 0 < f_amt f.

Lemma SInv_fund_bound l id d f : SInv l -> get_dlg l id = Some d -> In f (d_funds d) -> f_amt f <= staked l /\ staked l < two64.
Proof.
  intros (_ & _ & Hsum & H64) Hg Hin. split; [|exact H64].
  pose proof (nget_le_sum _ _ _ Hg) as Hle. rewrite Hsum.
  assert (Hf : f_amt f <= tot d).
  { unfold tot. clear - Hin. induction (d_funds d) as [|g fs IH]; [destruct Hin|].
    cbn [fold_right]. destruct Hin as [->|Hin]; [lia|specialize (IH Hin); lia]. }
  lia.
Qed.

(* ------------------------------------------------------------------------------------------------------------ *)
(* undo of the staking operations *)
Section StakeUndo.
Variable cfg : config.

(* a stake, then its undo (ApplyUnstake with reverse = true and the PrevUnlock of the transaction).
   Existing fund: the amount returns to what it was (not 0, by FPos) and the unlock height to PrevUnlock, which
   ApplyStake checked to be the fund's unlock height.  New fund: it was appended at the end, its amount returns to 0
   and it is dropped. *)
Lemma undo_stake l amt id pu signer top txid l1 :
  SInv l -> FPos l -> amt < two64 ->
  apply_stake cfg l amt id pu signer top txid false = Ok l1 ->
  forall l' top', dlgs l' = dlgs l1 -> staked l' = staked l1 ->
  exists l2, apply_unstake l' amt id signer top' txid true pu = Ok l2 /\
    dlgs l2 = dlgs l /\ staked l2 = staked l /\ accts l2 = accts l' /\ dhist l2 = dhist l'.
Proof.
  intros HI HP Ha64 H l' top' Hd' Hs'. pose proof HI as (Hsort & Hkey & Hsum & Hs64).
  unfold apply_stake in H. opt_inv H. rename x into d. bind_inv H. rename a into funds'. bind_inv H. injection H as <-.
  destruct (stats_staked_exact _ _ _ Hs64 Ha64 E1) as [-> H64].
  pose proof (nget_keyed _ _ _ Hkey E) as Hid.
  cbn [put_dlg set_dlgs set_staked dlgs staked d_id] in Hd', Hs'.
  set (d1 := mkdlg (d_id d) (d_owner d) (d_name d) funds') in *. rewrite Hid in Hd'.
  unfold apply_unstake.
  assert (Hg' : get_dlg l' id = Some d1) by (unfold get_dlg; rewrite Hd'; apply nget_dins_same).
  rewrite Hg'. cbn [of_opt bind d_funds d1].
  (* the fund found by the undo and what is left of the pool's funds afterwards *)
  assert (Hf : exists g, find_fund funds' signer = Some g /\ amt <= f_amt g /\
                 upd_fund funds' signer (if f_amt g - amt =? 0 then None else Some (mkfund signer (f_amt g - amt) pu)) = d_funds d).
  { destruct (find_fund (d_funds d) signer) as [f|] eqn:Ef.
    - guard_inv E0. cbn [orb] in G. apply N.eqb_eq in G. opt_inv E0. injection E0 as <-.
      pose proof (find_fund_in _ _ _ Ef) as Hin.
      destruct (SInv_fund_bound l id d f HI E Hin) as [Hfb _]. pose proof (HP id d f E Hin) as Hfp.
      apply safe_add_some in E2; [|lia|exact Ha64]. destruct E2 as [-> Hlt].
      eexists. split; [apply find_fund_upd; [reflexivity|exists f; exact Ef]|]. cbn [f_amt]. split; [lia|].
      replace (f_amt f + amt - amt) with (f_amt f) by lia.
      destruct (N.eqb_spec (f_amt f) 0); [lia|].
      rewrite upd_fund_upd by reflexivity. rewrite <- G, <- (find_fund_owner _ _ _ Ef), fund_eta.
      rewrite (find_fund_owner _ _ _ Ef). apply upd_fund_same. exact Ef.
    - injection E0 as <-. eexists. split; [apply find_fund_app_new; [reflexivity|exact Ef]|]. cbn [f_amt]. split; [lia|].
      rewrite N.sub_diag. cbn [N.eqb]. apply upd_fund_app_last; [exact Ef|reflexivity]. }
  destruct Hf as (g & Hfg & Hge & Hupd).
  rewrite Hfg. cbn [of_opt bind orb guard negb andb].
  destruct (N.ltb_spec (f_amt g) amt); [lia|]. cbn [negb guard bind].
  rewrite Hupd.
  unfold stats_unstaked. rewrite Hs'. rewrite wsub_small by lia.
  replace (staked l + amt - amt) with (staked l) by lia.
  destruct (N.ltb_spec (staked l + amt) (staked l)); [lia|]. cbn [bind].
  eexists. split; [reflexivity|].
  subst d1. cbn [put_dlg set_dlgs set_staked dlgs staked accts dhist d_id d_owner d_name].
  rewrite dlg_eta, Hid, Hd', dins_dins. split; [apply dins_same; assumption|]. repeat split.
Qed.

(* an unstake, then its undo (ApplyStake with reverse = true).  Partial unstake: the fund is still there, the amount
   is added back, the unlock height was not touched.  Full unstake: the fund was dropped and the pool saved in the
   delegate history under the transaction id; the undo re-creates the fund with the saved unlock height at the saved
   position.  The undo takes the "no fund of the signer" path only when the pool has no second fund of the signer
   (hypothesis [Huniq], a consequence of FUniq). *)
Lemma undo_unstake_gen l amt id signer top txid l1 d f :
  SInv l -> amt < two64 ->
  get_dlg l id = Some d -> find_fund (d_funds d) signer = Some f ->
  (f_amt f = amt -> find_fund (upd_fund (d_funds d) signer None) signer = None) ->
  apply_unstake l amt id signer top txid false 0 = Ok l1 ->
  forall l' top', dlgs l' = dlgs l1 -> staked l' = staked l1 -> nget (dhist l') txid = nget (dhist l1) txid ->
  exists l2, apply_stake cfg l' amt id 0 signer top' txid true = Ok l2 /\
    dlgs l2 = dlgs l /\ staked l2 = staked l /\ accts l2 = accts l' /\ dhist l2 = dhist l'.
Proof.
  intros HI Ha64 Hg Hf Huniq H l' top' Hd' Hs' Hh'. pose proof HI as (Hsort & Hkey & Hsum & Hs64).
  unfold apply_unstake in H. rewrite Hg in H. cbn [of_opt bind] in H. rewrite Hf in H. cbn [of_opt bind] in H.
  guard_inv H. clear G. guard_inv H. apply Bool.negb_true_iff in G. apply N.ltb_ge in G.
  cbn [negb andb] in H. bind_inv H. injection H as <-.
  match type of E with stats_unstaked ?L _ = _ => set (l0 := L) in * end.
  assert (Hst0 : staked l0 = staked l) by (unfold l0; destruct (_ =? _); reflexivity).
  assert (Hd0 : dlgs l0 = dlgs l) by (unfold l0; destruct (_ =? _); reflexivity).
  destruct (stats_unstaked_exact l0 amt a ltac:(rewrite Hst0; exact Hs64) Ha64 E) as [Hle ->].
  rewrite Hst0 in Hle.
  pose proof (nget_keyed _ _ _ Hkey Hg) as Hid.
  pose proof (find_fund_owner _ _ _ Hf) as Hown.
  pose proof (find_fund_in _ _ _ Hf) as Hin.
  destruct (SInv_fund_bound l id d f HI Hg Hin) as [Hfb _].
  cbn [put_dlg set_dlgs set_staked dlgs staked dhist d_id] in Hd', Hs', Hh'. rewrite Hd0 in Hd'. rewrite Hst0 in Hs'.
  match type of Hd' with _ = dins _ _ ?D => set (d1 := D) in * end. rewrite Hid in Hd'.
  unfold apply_stake.
  assert (Hg' : get_dlg l' id = Some d1) by (unfold get_dlg; rewrite Hd'; apply nget_dins_same).
  rewrite Hg'. cbn [of_opt bind d_funds d_id d1].
  assert (Hfunds : (match find_fund (upd_fund (d_funds d) signer (if f_amt f - amt =? 0 then None else Some (mkfund signer (f_amt f - amt) (f_unlock f)))) signer with
             | Some f0 =>
                 _ <- guard (true || (f_unlock f0 =? 0)) 302 ;;
                 amt' <- of_opt (safe_add (f_amt f0) amt) 303 ;;
                 Ok (upd_fund (upd_fund (d_funds d) signer (if f_amt f - amt =? 0 then None else Some (mkfund signer (f_amt f - amt) (f_unlock f)))) signer (Some (mkfund signer amt' (f_unlock f0))))
             | None =>
                 Ok (match saved_fund l' txid (d_id d) signer with
                     | Some (u, i) => insert_at i (mkfund signer amt u)
                         (upd_fund (d_funds d) signer (if f_amt f - amt =? 0 then None else Some (mkfund signer (f_amt f - amt) (f_unlock f))))
                     | None => upd_fund (d_funds d) signer (if f_amt f - amt =? 0 then None else Some (mkfund signer (f_amt f - amt) (f_unlock f))) ++
                                 [mkfund signer amt (wadd top' (unlock_time cfg))]
                     end)
             end) = Ok (d_funds d)).
  { destruct (N.eqb_spec (f_amt f) amt) as [Efull|Epart].
    - (* full *)
      replace (f_amt f - amt) with 0 by lia. cbn [N.eqb]. rewrite (Huniq Efull).
      assert (Hsaved : saved_fund l' txid (d_id d) signer = Some (f_unlock f, fund_index (d_funds d) signer)).
      { unfold saved_fund. rewrite Hh'. unfold l0. destruct (N.eqb_spec (f_amt f) amt); [|contradiction].
        cbn [dhist set_dhist]. rewrite nget_nset_same. rewrite N.eqb_refl, Hf. reflexivity. }
      rewrite Hsaved. rewrite <- Efull, <- Hown, fund_eta, Hown. rewrite (insert_at_fund_index _ _ _ Hf). reflexivity.
    - destruct (N.eqb_spec (f_amt f - amt) 0); [lia|].
      rewrite (find_fund_upd (d_funds d) signer (mkfund signer (f_amt f - amt) (f_unlock f)) eq_refl (ex_intro _ f Hf)).
      cbn [orb guard bind f_amt f_unlock].
      assert (Hsa : safe_add (f_amt f - amt) amt = Some (f_amt f)).
      { unfold safe_add. rewrite wadd_small by lia. replace (f_amt f - amt + amt) with (f_amt f) by lia.
        destruct (N.ltb_spec (f_amt f) (f_amt f - amt)); [lia|reflexivity]. }
      rewrite Hsa. cbn [of_opt bind]. rewrite upd_fund_upd by reflexivity.
      rewrite <- Hown, fund_eta, Hown. rewrite (upd_fund_same _ _ _ Hf). reflexivity. }
  cbn [orb] in Hfunds |- *. rewrite Hfunds. cbn [bind].
  unfold stats_staked. rewrite Hs'. rewrite wadd_small by lia.
  replace (staked l - amt + amt) with (staked l) by lia.
  destruct (N.ltb_spec (staked l) (staked l - amt)); [lia|]. cbn [bind].
  eexists. split; [reflexivity|].
  subst d1. cbn [put_dlg set_dlgs set_staked dlgs staked accts dhist d_id d_owner d_name].
  rewrite dlg_eta, Hid, Hd', dins_dins. split; [apply dins_same; assumption|]. repeat split.
Qed.

Lemma undo_unstake l amt id signer top txid l1 :
  SInv l -> FUniq l -> amt < two64 ->
  apply_unstake l amt id signer top txid false 0 = Ok l1 ->
  forall l' top', dlgs l' = dlgs l1 -> staked l' = staked l1 -> nget (dhist l') txid = nget (dhist l1) txid ->
  exists l2, apply_stake cfg l' amt id 0 signer top' txid true = Ok l2 /\
    dlgs l2 = dlgs l /\ staked l2 = staked l /\ accts l2 = accts l' /\ dhist l2 = dhist l'.
Proof.
  intros HI HU Ha64 H l' top' Hd' Hs' Hh'.
  destruct (unstake_respects_lock _ _ _ _ _ _ _ _ H) as (d & f & Hg & Hf & _).
  exact (undo_unstake_gen l amt id signer top txid l1 d f HI Ha64 Hg Hf
           ltac:(intros _; apply find_upd_none; exact (HU id d Hg)) H l' top' Hd' Hs' Hh').
Qed.

End StakeUndo.

(* ------------------------------------------------------------------------------------------------------------ *)
(* undo of the staker reward *)

Lemma upd_fund_some_nonempty fs o x : fs <> [] -> upd_fund fs o (Some x) <> [].
Proof. destruct fs as [|g fs]; [congruence|]. intros _. cbn [upd_fund]. destruct (f_owner g =? o); discriminate. Qed.

(* ApplyPosReward saves the pool under the block hash before paying; RemovePosReward writes that record back.
   The delegate history keeps the saved record (it is overwritten by the next block with this hash, i.e. never). *)
Lemma undo_pos_reward l bh o l1 :
  SInv l -> o_amt o < two64 -> apply_pos_reward l bh o = Ok l1 ->
  forall l', dlgs l' = dlgs l1 -> staked l' = staked l1 -> nget (dhist l') bh = nget (dhist l1) bh ->
  exists l2, remove_pos_reward l' bh o = Ok l2 /\
    dlgs l2 = dlgs l /\ staked l2 = staked l /\ accts l2 = accts l' /\ dhist l2 = dhist l'.
Proof.
  intros HI Ho64 H l' Hd' Hs' Hh'. pose proof HI as (Hsort & Hkey & Hsum & Hs64). unfold apply_pos_reward in H.
  guard_inv H. opt_inv H. rename x into d. guard_inv H. bind_inv H. guard_inv H. bind_inv H.
  match goal with p : (list fund * N)%type |- _ => destruct p as [funds1 added] end.
  guard_inv H. bind_inv H. rename a0 into funds2. bind_inv H. guard_inv H. bind_inv H. injection H as <-.
  match goal with Hs : stats_staked ?L _ = Ok _ |- _ =>
    destruct (stats_staked_exact L (o_amt o) _ Hs64 Ho64 Hs) as [-> H64] end.
  pose proof (nget_keyed _ _ _ Hkey E) as Hid.
  cbn [put_dlg set_dlgs set_staked set_dhist dlgs staked dhist d_id] in Hd', Hs', Hh', H64.
  match type of Hd' with _ = dins _ _ ?D => set (d2 := D) in * end. rewrite Hid in Hd'.
  assert (Hne2 : funds2 <> []).
  { match goal with Hpd : pos_distribute _ _ _ _ = Ok _ |- _ =>
      destruct (pos_distribute_spec _ _ _ _ _ Hpd) as (Hf1 & _ & _); cbn [fst] in Hf1 end.
    assert (Hne1 : funds1 <> []).
    { rewrite Hf1. destruct (d_funds d); [discriminate G0|discriminate]. }
    match goal with Hm : match find_fund funds1 ?ow with _ => _ end = Ok funds2 |- _ =>
      destruct (find_fund funds1 ow) as [f|]; [opt_inv Hm; injection Hm as <-|injection Hm as <-] end.
    - apply upd_fund_some_nonempty. exact Hne1.
    - destruct funds1; discriminate. }
  unfold remove_pos_reward. rewrite G. cbn [guard bind].
  assert (Hg' : get_dlg l' (o_extra o) = Some d2) by (unfold get_dlg; rewrite Hd'; apply nget_dins_same).
  rewrite Hg'. cbn [of_opt bind d_funds d2].
  destruct funds2 as [|f2 funds2']; [congruence|]. cbn [length]. rewrite Nat2N.inj_succ.
  destruct (N.eqb_spec (N.succ (N.of_nat (length funds2'))) 0); [lia|]. cbn [negb guard bind].
  rewrite Hh', nget_nset_same. cbn [of_opt bind d_id d_owner]. rewrite !N.eqb_refl. cbn [andb guard bind].
  unfold stats_unstaked. rewrite Hs'. rewrite wsub_small by lia.
  replace (staked l + o_amt o - o_amt o) with (staked l) by lia.
  destruct (N.ltb_spec (staked l + o_amt o) (staked l)); [lia|]. cbn [bind].
  eexists. split; [reflexivity|].
  cbn [put_dlg set_dlgs set_staked dlgs staked accts dhist].
  rewrite Hid, Hd', dins_dins. split; [apply dins_same; assumption|]. repeat split.
Qed.

(* ------------------------------------------------------------------------------------------------------------ *)
(* the kind-specific part of ApplyTxToState / RemoveTxFromState *)
Section KindUndo.
Variable cfg : config.

Definition kind_apply (l : ledger) (t : tx) (st : acct) (top_h : N) : res (ledger * acct) :=
  let signer := addr_of_key (tx_signer t) in
  match tx_data t with
  | TStake a id pu =>
      if tx_version t =? 4 then
        _ <- guard (negb (id =? 0)) 363 ;; _ <- guard (deleg st =? id) 364 ;;
        l1 <- apply_stake cfg l a id pu signer top_h (tx_id t) false ;; Ok (l1, st)
      else Ok (l, st)
  | TUnstake a id =>
      if tx_version t =? 5 then
        _ <- guard (negb (id =? 0)) 365 ;; _ <- guard (deleg st =? id) 366 ;;
        l1 <- apply_unstake l a id signer top_h (tx_id t) false 0 ;; Ok (l1, st)
      else Ok (l, st)
  | TRegister _ name id =>
      if tx_version t =? 2 then
        _ <- guard (match get_dlg l id with Some _ => false | None => true end) 367 ;;
        Ok (put_dlg l (mkdlg id (tx_signer t) name []), st)
      else Ok (l, st)
  | TSetDelegate new prev =>
      if tx_version t =? 3 then
        _ <- guard (prev =? deleg st) 368 ;;
        _ <- guard (match get_dlg l prev with
                    | Some d => match find_fund (d_funds d) signer with Some _ => false | None => true end
                    | None => true end) 369 ;;
        _ <- guard (match get_dlg l new with Some _ => true | None => false end) 370 ;;
        Ok (l, mkacct (bal st) (nonce st) (inc st) new)
      else Ok (l, st)
  | TTransfer _ => Ok (l, st)
  end.

Definition kind_remove (l2 : ledger) (t : tx) (st1 : acct) (top_h : N) : res (ledger * acct) :=
  let signer := addr_of_key (tx_signer t) in
  match tx_data t with
  | TStake a id pu =>
      if tx_version t =? 4 then
        _ <- guard (negb (id =? 0)) 434 ;; _ <- guard (deleg st1 =? id) 435 ;;
        l3 <- apply_unstake l2 a id signer top_h (tx_id t) true pu ;; Ok (l3, st1)
      else Ok (l2, st1)
  | TUnstake a id =>
      if tx_version t =? 5 then
        _ <- guard (negb (id =? 0)) 436 ;; _ <- guard (deleg st1 =? id) 437 ;;
        l3 <- apply_stake cfg l2 a id 0 signer top_h (tx_id t) true ;; Ok (l3, st1)
      else Ok (l2, st1)
  | TRegister _ _ id =>
      if tx_version t =? 2 then
        d <- of_opt (get_dlg l2 id) 438 ;;
        _ <- guard (N.of_nat (length (d_funds d)) =? 0) 439 ;;
        Ok (del_dlg l2 id, st1)
      else Ok (l2, st1)
  | TSetDelegate new prev =>
      if tx_version t =? 3 then
        _ <- guard (new =? deleg st1) 440 ;;
        _ <- guard (match get_dlg l2 new with Some _ => true | None => false end) 441 ;;
        Ok (l2, mkacct (bal st1) (nonce st1) (inc st1) prev)
      else Ok (l2, st1)
  | TTransfer _ => Ok (l2, st1)
  end.

(* ApplyTxToState / RemoveTxFromState in terms of the two *)
Lemma apply_tx_unfold l t height blockhash top_h :
  apply_tx cfg l t height blockhash top_h =
  (let signer := addr_of_key (tx_signer t) in
   st <- of_opt (get_state l signer) 361 ;;
   _ <- guard (tx_nonce t =? wadd (nonce st) 1) 362 ;;
   r1 <- kind_apply l t st top_h ;;
   let '(l1, st1) := r1 in
   let st2 := mkacct (bal st1) (wadd (nonce st1) 1) (inc st1) (deleg st1) in
   let l2 := put_state l1 signer st2 in
   l3 <- apply_inputs l2 (state_inputs cfg t signer) ;;
   outs <- state_outputs cfg t signer ;;
   let l4 := fst (apply_outputs l3 blockhash outs (tx_id t)) in
   let l5 := set_outtx l4 (pset (outtx l4) (signer, nonce st2) (tx_id t)) in
   Ok (set_txh l5 (nset (txh l5) (tx_id t) height))).
Proof. reflexivity. Qed.

Lemma remove_tx_unfold l t blockhash top_h :
  remove_tx cfg l t blockhash top_h =
  (let signer := addr_of_key (tx_signer t) in
   let l0 := set_txh l (nset (txh l) (tx_id t) 0) in
   outs <- state_outputs cfg t signer ;;
   let l1 := fst (remove_outputs l0 blockhash outs) in
   l2 <- remove_inputs l1 (state_inputs cfg t signer) ;;
   st <- of_opt (get_state l2 signer) 431 ;;
   _ <- guard (negb (nonce st =? 0)) 432 ;;
   _ <- guard (nonce st =? tx_nonce t) 433 ;;
   let st1 := mkacct (bal st) (nonce st - 1) (inc st) (deleg st) in
   r <- kind_remove l2 t st1 top_h ;;
   let '(l3, st2) := r in
   Ok (put_state l3 signer st2)).
Proof. reflexivity. Qed.

Lemma undo_kind l t st top l1k st1 :
  SInv l -> FPos l -> FUniq l -> wf_tx cfg t ->
  kind_apply l t st top = Ok (l1k, st1) ->
  accts l1k = accts l /\ bal st1 = bal st /\ nonce st1 = nonce st /\ inc st1 = inc st /\
  forall l' top', dlgs l' = dlgs l1k -> staked l' = staked l1k ->
    nget (dhist l') (tx_id t) = nget (dhist l1k) (tx_id t) ->
    exists l2, kind_remove l' t st1 top' = Ok (l2, st) /\
      dlgs l2 = dlgs l /\ staked l2 = staked l /\ accts l2 = accts l' /\ dhist l2 = dhist l'.
Proof.
  intros HI HP HU (_ & Hwd & _) H. unfold kind_apply in H. unfold kind_remove in *.
  assert (Htriv : forall l' : ledger, dlgs l' = dlgs l -> staked l' = staked l ->
            exists l2, Ok (l', st) = Ok (l2, st) /\ dlgs l2 = dlgs l /\ staked l2 = staked l /\ accts l2 = accts l' /\ dhist l2 = dhist l').
  { intros l' D S. exists l'. repeat split; assumption. }
  destruct (tx_data t) as [os|nl name id|nw pv|a id pu|a id]; cbn [wf_data] in Hwd.
  - injection H as <- <-. repeat split. intros l' top' D S _. apply Htriv; assumption.
  - destruct (tx_version t =? 2); [|injection H as <- <-; repeat split; intros l' top' D S _; apply Htriv; assumption].
    guard_inv H. injection H as <- <-. repeat split. intros l' top' D S _.
    cbn [put_dlg set_dlgs dlgs staked d_id] in D, S.
    assert (Hn : get_dlg l id = None) by (destruct (get_dlg l id); [discriminate|reflexivity]).
    assert (Hg' : get_dlg l' id = Some (mkdlg id (tx_signer t) name [])) by (unfold get_dlg; rewrite D; apply nget_dins_same).
    rewrite Hg'. cbn [of_opt bind d_funds length N.of_nat N.eqb guard].
    eexists. split; [reflexivity|]. cbn [del_dlg set_dlgs dlgs staked accts dhist]. rewrite D.
    split; [apply ndel_dins; exact Hn|]. repeat split. exact S.
  - destruct (tx_version t =? 3); [|injection H as <- <-; repeat split; intros l' top' D S _; apply Htriv; assumption].
    guard_inv H. guard_inv H. guard_inv H. injection H as <- <-. cbn [bal nonce inc deleg]. repeat split.
    intros l' top' D S _. rewrite N.eqb_refl. cbn [guard bind].
    unfold get_dlg in *. rewrite D. destruct (nget (dlgs l) nw); [|discriminate]. cbn [guard bind].
    apply N.eqb_eq in G. rewrite G, acct_eta. apply Htriv; assumption.
  - destruct (tx_version t =? 4); [|injection H as <- <-; repeat split; intros l' top' D S _; apply Htriv; assumption].
    guard_inv H. guard_inv H. bind_inv H. injection H as <- <-.
    split; [eapply accts_apply_stake; eassumption|]. repeat split.
    intros l' top' D S _. rewrite G0. cbn [guard bind].
    destruct (undo_stake cfg l a id pu _ top (tx_id t) _ HI HP Hwd E l' top' D S) as (l2 & Hr & R).
    rewrite Hr. cbn [bind]. exists l2. split; [reflexivity|exact R].
  - destruct (tx_version t =? 5); [|injection H as <- <-; repeat split; intros l' top' D S _; apply Htriv; assumption].
    guard_inv H. guard_inv H. bind_inv H. injection H as <- <-.
    split; [eapply accts_apply_unstake; eassumption|]. repeat split.
    intros l' top' D S Hh. rewrite G0. cbn [guard bind].
    destruct (undo_unstake cfg l a id _ top (tx_id t) _ HI HU Hwd E l' top' D S Hh) as (l2 & Hr & R).
    rewrite Hr. cbn [bind]. exists l2. split; [reflexivity|exact R].
Qed.

End KindUndo.

(* ------------------------------------------------------------------------------------------------------------ *)
(* the account part, for every kind of transaction *)

(* [l'] carries at least the accounts of [l] *)
Definition dom_le (l l' : ledger) : Prop := forall a, get_state l a <> None -> get_state l' a <> None.

(* [l'] agrees with [l] on everything the ledger properties speak about: accounts extensionally (an absent account
   = an all-zero account, but every account present in [l] is present in [l']), delegate table (up to the relation
   [Rd]: equality, or equality up to the order of the funds inside each pool), staked total.
   The wallet indexes (intx, outtx, txh) and the delegate history may differ. *)
Definition leqv_g (Rd : list (N * dlg) -> list (N * dlg) -> Prop) (l l' : ledger) : Prop :=
  same_accounts l' l /\ dom_le l l' /\ Rd (dlgs l) (dlgs l') /\ staked l' = staked l.
Definition leqv : ledger -> ledger -> Prop := leqv_g eq.

Lemma leqv_refl l : leqv l l.
Proof. split; [intros a; reflexivity|]. split; [intros a Ha; exact Ha|]. split; reflexivity. Qed.

Lemma acct_at_ext l l' a : accts l' = accts l -> acct_at l' a = acct_at l a.
Proof. intros H. unfold acct_at, get_state. rewrite H. reflexivity. Qed.
Lemma get_state_ext l l' a : accts l' = accts l -> get_state l' a = get_state l a.
Proof. intros H. unfold get_state. rewrite H. reflexivity. Qed.

Lemma bal_acct_at l a : bal (acct_at l a) = bal_at l a.
Proof. unfold acct_at, bal_at. destruct (get_state l a); reflexivity. Qed.

Lemma safe_add_ok a b : a + b < two64 -> safe_add a b = Some (a + b).
Proof.
  intros H. unfold safe_add. rewrite wadd_small by exact H.
  destruct (N.ltb_spec (a + b) a); [lia|reflexivity].
Qed.

Lemma remove_inputs_single l amt sender :
  get_state l sender <> None -> bal (acct_at l sender) + amt < two64 ->
  exists l', remove_inputs l [(amt, sender)] = Ok l' /\
    (forall a, acct_at l' a = if a =? sender
                              then mkacct (bal (acct_at l sender) + amt) (nonce (acct_at l sender))
                                          (inc (acct_at l sender)) (deleg (acct_at l sender))
                              else acct_at l a) /\
    dlgs l' = dlgs l /\ staked l' = staked l /\ dhist l' = dhist l /\ dom_le l l'.
Proof.
  intros Hex Hb. cbn [remove_inputs].
  destruct (get_state l sender) as [x|] eqn:E; [|congruence]. cbn [of_opt bind].
  assert (Hx : acct_at l sender = x) by (unfold acct_at; rewrite E; reflexivity).
  rewrite Hx in *. rewrite (safe_add_ok _ _ Hb). cbn [of_opt bind].
  eexists. split; [reflexivity|]. split; [intros a; apply acct_at_put|].
  split; [reflexivity|]. split; [reflexivity|]. split; [reflexivity|].
  intros a Ha. rewrite get_state_put. destruct (a =? sender); [discriminate|exact Ha].
Qed.

(* the delegate history is only written by a full unstake (under the transaction id) and by a staker reward *)
Lemma dhist_apply_inputs ins : forall l l', apply_inputs l ins = Ok l' -> dhist l' = dhist l.
Proof.
  induction ins as [|[amt sender] ins IH]; intros l l' H; cbn [apply_inputs] in H.
  - injection H as <-. reflexivity.
  - opt_inv H. guard_inv H. rewrite (IH _ _ H). reflexivity.
Qed.

Lemma dhist_apply_outputs_nopos outs : forall l bh txid, no_pos outs ->
  dhist (fst (apply_outputs l bh outs txid)) = dhist l.
Proof.
  induction outs as [|o outs IH]; intros l bh txid Hnp; cbn [apply_outputs]; [reflexivity|].
  inversion Hnp as [|? ? Ho Hnp']; subst.
  destruct (safe_add _ (o_amt o)); [|reflexivity]. rewrite Ho, IH by exact Hnp'. reflexivity.
Qed.

Lemma dhist_stats_staked l amt l' : stats_staked l amt = Ok l' -> dhist l' = dhist l.
Proof. unfold stats_staked. destruct (_ <? _); [discriminate|]. intros [= <-]. reflexivity. Qed.
Lemma dhist_stats_unstaked l amt l' : stats_unstaked l amt = Ok l' -> dhist l' = dhist l.
Proof. unfold stats_unstaked. destruct (_ <? _); [discriminate|]. intros [= <-]. reflexivity. Qed.

Section TxUndo.
Variable cfg : config.

Lemma state_inputs_single t signer : exists amt sender, state_inputs cfg t signer = [(amt, sender)].
Proof. unfold state_inputs. destruct (tx_data t); eexists; eexists; reflexivity. Qed.

(* number of state outputs of a transaction *)
Definition tx_nouts (t : tx) : N :=
  match tx_data t with
  | TTransfer outs => N.of_nat (length outs)
  | TSetDelegate _ _ => 0
  | _ => 1
  end.

Lemma out_cnt_le_length outs a : out_cnt outs a <= N.of_nat (length outs).
Proof.
  induction outs as [|o outs IH]; [cbn; lia|]. cbn [out_cnt fold_right length]. fold (out_cnt outs a).
  rewrite Nat2N.inj_succ. destruct (o_rcpt o =? a); lia.
Qed.

Lemma out_cnt_le_nouts t signer outs a : state_outputs cfg t signer = Ok outs -> out_cnt outs a <= tx_nouts t.
Proof.
  intros H. pose proof (out_cnt_le_length outs a) as Hle. unfold state_outputs, tx_nouts in *.
  destruct (tx_data t) as [os|nl name id|nw pv|sa id pu|sa id].
  - injection H as <-. rewrite map_length in Hle. exact Hle.
  - injection H as <-. exact Hle.
  - injection H as <-. exact Hle.
  - injection H as <-. exact Hle.
  - destruct (sa <? tx_fee t); [discriminate|]. injection H as <-. exact Hle.
Qed.

Lemma kind_apply_dhist l t st top l1k st1 k :
  kind_apply cfg l t st top = Ok (l1k, st1) -> k <> tx_id t -> nget (dhist l1k) k = nget (dhist l) k.
Proof.
  intros H Hk. unfold kind_apply in H.
  destruct (tx_data t) as [os|nl name id|nw pv|a id pu|a id].
  - injection H as <- _. reflexivity.
  - destruct (tx_version t =? 2); [|injection H as <- _; reflexivity]. guard_inv H. injection H as <- _. reflexivity.
  - destruct (tx_version t =? 3); [|injection H as <- _; reflexivity].
    guard_inv H. guard_inv H. guard_inv H. injection H as <- _. reflexivity.
  - destruct (tx_version t =? 4); [|injection H as <- _; reflexivity].
    guard_inv H. guard_inv H. bind_inv H. injection H as <- _.
    unfold apply_stake in E. bind_inv E. bind_inv E. bind_inv E. injection E as <-.
    cbn [put_dlg set_dlgs dhist].
    match goal with Hs : stats_staked _ _ = Ok _ |- _ => rewrite (dhist_stats_staked _ _ _ Hs) end. reflexivity.
  - destruct (tx_version t =? 5); [|injection H as <- _; reflexivity].
    guard_inv H. guard_inv H. bind_inv H. injection H as <- _.
    unfold apply_unstake in E. bind_inv E. bind_inv E. guard_inv E. guard_inv E. bind_inv E. injection E as <-.
    cbn [put_dlg set_dlgs dhist].
    match goal with Hs : stats_unstaked _ _ = Ok _ |- _ => rewrite (dhist_stats_unstaked _ _ _ Hs) end.
    destruct (_ && _); [|reflexivity].
    cbn [dhist set_dhist]. apply nget_nset_other. exact Hk.
Qed.

Lemma apply_tx_dhist l t h bh top l1 k :
  apply_tx cfg l t h bh top = Ok l1 -> k <> tx_id t -> nget (dhist l1) k = nget (dhist l) k.
Proof.
  intros H Hk. rewrite apply_tx_unfold in H. cbn zeta in H.
  opt_inv H. guard_inv H. bind_inv H. destruct a as [l1k st1]. bind_inv H. bind_inv H. injection H as <-.
  cbn [dhist set_txh set_outtx].
  rewrite dhist_apply_outputs_nopos by (eapply state_outputs_nopos; eassumption).
  rewrite (dhist_apply_inputs _ _ _ E1). cbn [dhist put_state set_accts].
  eapply kind_apply_dhist; eassumption.
Qed.

(* inputs then outputs of a transaction applied to [l2]; then, from any ledger with the same accounts, outputs
   then inputs removed: every account is back to its value in [l2] *)
Lemma undo_accounts t signer tot l2 l3 l4 e outs bh txid :
  wf_tx cfg t -> tx_total cfg t = Some tot -> state_outputs cfg t signer = Ok outs ->
  total_bal l2 < two64 ->
  (forall a, inc (acct_at l2 a) + out_cnt outs a < two64) ->
  apply_inputs l2 (state_inputs cfg t signer) = Ok l3 ->
  apply_outputs l3 bh outs txid = (l4, e) ->
  e = None /\ dlgs l4 = dlgs l2 /\ staked l4 = staked l2 /\ dhist l4 = dhist l2 /\ dom_le l2 l4 /\
  (forall a, inc (acct_at l4 a) = inc (acct_at l2 a) + out_cnt outs a /\ nonce (acct_at l4 a) = nonce (acct_at l2 a)) /\
  forall l', same_accounts l' l4 -> dom_le l4 l' ->
    exists l1' l2', remove_outputs l' bh outs = (l1', None) /\
      remove_inputs l1' (state_inputs cfg t signer) = Ok l2' /\
      same_accounts l2' l2 /\ dom_le l2 l2' /\ dlgs l2' = dlgs l' /\ staked l2' = staked l' /\ dhist l2' = dhist l'.
Proof.
  intros Hwf Htot Eouts Hb Hinc Ein Eao.
  destruct (ins_outs_balance cfg t signer tot outs Hwf Htot Eouts) as (Hbal & Hin64 & Hnp).
  pose proof (apply_inputs_total _ _ _ Ein) as Hin.
  destruct (apply_inputs_pointwise _ _ _ Ein) as (P1 & P2 & P3 & P4 & P5 & P6 & P7).
  pose proof (apply_outputs_noerr outs l3 bh txid ltac:(lia) Hnp) as Hne.
  rewrite Eao in Hne. cbn [snd] in Hne. subst e.
  assert (Hinc3 : forall a, inc (acct_at l3 a) + out_cnt outs a < two64).
  { intros a. rewrite P1. cbn [inc]. apply Hinc. }
  destruct (apply_outputs_pointwise outs l3 bh txid l4 Hnp ltac:(lia) Hinc3 Eao) as (A1 & A2 & A3 & A4 & A5 & A6).
  split; [reflexivity|]. split; [congruence|]. split; [congruence|]. split; [congruence|].
  split; [intros a Ha; apply A6, P7; exact Ha|].
  split; [intros a; rewrite A1, P1; cbn [inc nonce]; split; reflexivity|].
  intros l' Hsame Hdom.
  destruct (remove_outputs_pointwise outs l' bh Hnp) as (l1' & Hrm & R1 & R2 & R3 & R4 & R5).
  { intros o Hin'. apply Hdom, A5. exact Hin'. }
  { intros a. rewrite Hsame, A1. cbn [bal inc]. split; lia. }
  assert (Hacct1 : forall a, acct_at l1' a = acct_at l3 a).
  { intros a. rewrite R1, Hsame, A1. cbn [bal nonce inc deleg]. destruct (acct_at l3 a); cbn. f_equal; lia. }
  destruct (state_inputs_single t signer) as (amt & sender & Eins). rewrite Eins in *.
  assert (Hin_s : in_sum [(amt, sender)] sender = amt).
  { cbn [in_sum fold_right fst snd]. rewrite N.eqb_refl. lia. }
  pose proof (P2 sender) as P2s. rewrite Hin_s in P2s.
  pose proof (bal_at_le_total l2 sender) as Hle. rewrite <- bal_acct_at in Hle.
  destruct (remove_inputs_single l1' amt sender) as (l2' & Hri & Q1 & Q2 & Q3 & Q4 & Q5).
  { apply R5, Hdom, A6, (P6 (amt, sender)). left. reflexivity. }
  { rewrite Hacct1, P1. cbn [bal]. rewrite Hin_s. lia. }
  exists l1', l2'. split; [exact Hrm|]. split; [exact Hri|].
  split; [|split; [|split; [congruence|split; congruence]]].
  - intros a. rewrite Q1. destruct (N.eqb_spec a sender) as [->|Hne'].
    + rewrite Hacct1, P1. cbn [bal nonce inc deleg]. rewrite Hin_s.
      destruct (acct_at l2 sender) as [b n i dg]; cbn [bal nonce inc deleg] in *. f_equal. lia.
    + rewrite Hacct1, P1. cbn [in_sum fold_right fst snd]. destruct (N.eqb_spec sender a); [congruence|].
      destruct (acct_at l2 a); cbn. f_equal. lia.
  - intros a Ha. apply Q5, R5, Hdom, A6, P7. exact Ha.
Qed.

(* ---- whole transactions, generically in the relation on delegate tables ---- *)
Section Gen.
Variable Rd : list (N * dlg) -> list (N * dlg) -> Prop.

(* what the generic composition needs to know about the kind-specific part on [l] *)
Definition kind_undo_ok (l : ledger) (t : tx) : Prop :=
  forall st top l1k st1, kind_apply cfg l t st top = Ok (l1k, st1) ->
  accts l1k = accts l /\ bal st1 = bal st /\ nonce st1 = nonce st /\ inc st1 = inc st /\
  forall l' top', Rd (dlgs l1k) (dlgs l') -> staked l' = staked l1k ->
    nget (dhist l') (tx_id t) = nget (dhist l1k) (tx_id t) ->
    exists l2, kind_remove cfg l' t st1 top' = Ok (l2, st) /\
      Rd (dlgs l) (dlgs l2) /\ staked l2 = staked l /\ accts l2 = accts l' /\ dhist l2 = dhist l'.

(* counters after a transaction *)
Definition tx_frame (l : ledger) (t : tx) (l1 : ledger) : Prop :=
  forall a, inc (acct_at l1 a) <= inc (acct_at l a) + tx_nouts t /\ nonce (acct_at l1 a) <= nonce (acct_at l a) + 1.

Theorem undo_tx_gen l t h bh top_h l1 tot :
  kind_undo_ok l t -> total_bal l < two64 -> wf_tx cfg t -> tx_total cfg t = Some tot ->
  (forall a, inc (acct_at l a) + tx_nouts t < two64) ->
  nonce (acct_at l (addr_of_key (tx_signer t))) + 1 < two64 ->
  apply_tx cfg l t h bh top_h = Ok l1 ->
  tx_frame l t l1 /\
  forall l' top', leqv_g Rd l1 l' -> nget (dhist l') (tx_id t) = nget (dhist l1) (tx_id t) ->
  exists l2, remove_tx cfg l' t bh top' = Ok l2 /\ leqv_g Rd l l2 /\ dhist l2 = dhist l'.
Proof.
  intros Hkind Hb Hwf Htot Hinc Hnonce Happ.
  rewrite apply_tx_unfold in Happ. cbn zeta in Happ. set (signer := addr_of_key (tx_signer t)) in *.
  opt_inv Happ. rename x into st. guard_inv Happ. apply N.eqb_eq in G.
  assert (Hx : acct_at l signer = st) by (unfold acct_at; rewrite E; reflexivity).
  rewrite Hx in Hnonce. rewrite wadd_small in G by exact Hnonce.
  bind_inv Happ. destruct a as [l1k st1].
  destruct (Hkind st top_h l1k st1 E0) as (Ha & Hbs & Hns & His & Hk).
  set (st2 := mkacct (bal st1) (wadd (nonce st1) 1) (inc st1) (deleg st1)) in *.
  set (l2 := put_state l1k signer st2) in *.
  bind_inv Happ. rename a into l3. bind_inv Happ. rename a into outs. injection Happ as <-.
  assert (Hacct2 : forall a, acct_at l2 a = if a =? signer then st2 else acct_at l a).
  { intros a. unfold l2. rewrite acct_at_put. rewrite (acct_at_ext l l1k a Ha). reflexivity. }
  assert (Hget2 : forall a, get_state l2 a = if a =? signer then Some st2 else get_state l a).
  { intros a. unfold l2. rewrite get_state_put. rewrite (get_state_ext l l1k a Ha). reflexivity. }
  assert (Ht2 : total_bal l2 = total_bal l).
  { pose proof (total_put_state l1k signer st2) as Hp. fold l2 in Hp.
    assert (Hbs' : bal_at l1k signer = bal st).
    { unfold bal_at. rewrite (get_state_ext l l1k signer Ha), E. reflexivity. }
    assert (Ht1 : total_bal l1k = total_bal l) by (unfold total_bal; rewrite Ha; reflexivity).
    rewrite Hbs', Ht1 in Hp. cbn [bal st2] in Hp. lia. }
  assert (Hinc2 : forall a, inc (acct_at l2 a) + out_cnt outs a < two64).
  { intros a. rewrite Hacct2. specialize (Hinc a). pose proof (out_cnt_le_nouts t signer outs a E2) as Hc.
    destruct (N.eqb_spec a signer) as [Ea|_]; [rewrite Ea in Hinc; rewrite Hx in Hinc; cbn [inc st2]; lia|lia]. }
  destruct (apply_outputs l3 bh outs (tx_id t)) as [l4 e] eqn:Eao. cbn [fst] in *.
  destruct (undo_accounts t signer tot l2 l3 l4 e outs bh (tx_id t) Hwf Htot E2 ltac:(lia) Hinc2 E1 Eao)
    as (-> & D4 & S4 & H4 & Dom4 & Hcnt & Hrm).
  split.
  { intros a. change (acct_at (set_txh _ _) a) with (acct_at l4 a).
    destruct (Hcnt a) as [-> ->]. rewrite Hacct2. pose proof (out_cnt_le_nouts t signer outs a E2) as Hc.
    destruct (N.eqb_spec a signer) as [Ea|_]; cbv iota; [|lia].
    rewrite Ea, Hx. cbn [inc nonce st2]. rewrite Hns, His, wadd_small by exact Hnonce. rewrite Ea in Hc. lia. }
  intros l' top' (Hsame & Hdom & Hd' & Hs') Hh'.
  (* ---- the removal ---- *)
  rewrite remove_tx_unfold. cbn zeta. fold signer. rewrite E2. cbn [bind].
  match goal with |- context [remove_outputs ?l0' bh outs] => set (l0 := l0') end.
  destruct (Hrm l0) as (l1' & l2' & Hro & Hri & Hs2 & Hd2 & D2 & S2 & H2).
  { intros a. exact (Hsame a). }
  { intros a Ha4. exact (Hdom a Ha4). }
  rewrite Hro. cbn [fst]. rewrite Hri. cbn [bind].
  assert (Hs7 : get_state l2' signer <> None).
  { apply Hd2. rewrite Hget2, N.eqb_refl. discriminate. }
  destruct (get_state l2' signer) as [s7|] eqn:Es7; [|contradiction]. cbn [of_opt bind].
  assert (Hs7v : s7 = st2).
  { pose proof (Hs2 signer) as Hq. unfold acct_at at 1 in Hq. rewrite Es7 in Hq. rewrite Hacct2, N.eqb_refl in Hq. exact Hq. }
  subst s7. cbn [nonce bal inc deleg st2]. rewrite Hns. rewrite wadd_small by exact Hnonce.
  destruct (N.eqb_spec (nonce st + 1) 0); [lia|]. cbn [negb guard bind].
  rewrite G, N.eqb_refl. cbn [guard bind].
  replace (nonce st + 1 - 1) with (nonce st1) by lia. rewrite acct_eta.
  destruct (Hk l2' top') as (l3k & Hkr & D3 & S3 & A3 & H3).
  { rewrite D2. change (dlgs l0) with (dlgs l'). cbn [dlgs set_txh set_outtx] in Hd'. rewrite D4 in Hd'. exact Hd'. }
  { rewrite S2. change (staked l0) with (staked l'). rewrite Hs'. cbn [staked set_txh set_outtx]. rewrite S4. reflexivity. }
  { rewrite H2. change (dhist l0) with (dhist l'). rewrite Hh'. cbn [dhist set_txh set_outtx]. rewrite H4. reflexivity. }
  rewrite Hkr. cbn [bind].
  eexists. split; [reflexivity|]. split; [|cbn [put_state set_accts dhist]; rewrite H3, H2; reflexivity].
  split; [|split; [|split]].
  - intros a. rewrite acct_at_put. destruct (N.eqb_spec a signer) as [Ea|Hne].
    + rewrite Ea, Hx. reflexivity.
    + rewrite (acct_at_ext l2' l3k a A3), Hs2, Hacct2. destruct (N.eqb_spec a signer); [contradiction|reflexivity].
  - intros a Ha'. rewrite get_state_put. destruct (N.eqb_spec a signer) as [Ea|Hne]; [discriminate|].
    rewrite (get_state_ext l2' l3k a A3). apply Hd2. rewrite Hget2. destruct (N.eqb_spec a signer); [contradiction|exact Ha'].
  - cbn [put_state set_accts dlgs]. exact D3.
  - cbn [put_state set_accts staked]. exact S3.
Qed.
End Gen.

(* ---- the exact instance: the delegate table is restored as a list ---- *)
Lemma kind_undo_ok_eq l t : SInv l -> FPos l -> FUniq l -> wf_tx cfg t -> kind_undo_ok eq l t.
Proof.
  intros HI HP HU Hwf st top l1k st1 H.
  destruct (undo_kind cfg l t st top l1k st1 HI HP HU Hwf H) as (A & B & C & D & Hk).
  split; [exact A|]. split; [exact B|]. split; [exact C|]. split; [exact D|].
  intros l' top' Hd Hs Hh. destruct (Hk l' top' (eq_sym Hd) Hs Hh) as (l2 & Hr & D2 & R).
  exists l2. split; [exact Hr|]. split; [symmetry; exact D2|exact R].
Qed.

(* RemoveTxFromState is the exact inverse of ApplyTxToState, for every kind of transaction, on accounts, delegate
   table and staked total.  [l'] is any ledger that agrees with the result [l1] of the application. *)
Theorem undo_tx l t h bh top_h l1 tot :
  SInv l -> FPos l -> FUniq l -> total_bal l < two64 -> wf_tx cfg t -> tx_total cfg t = Some tot ->
  (forall a, inc (acct_at l a) + tx_nouts t < two64) ->
  nonce (acct_at l (addr_of_key (tx_signer t))) + 1 < two64 ->
  apply_tx cfg l t h bh top_h = Ok l1 ->
  forall l' top', leqv l1 l' -> nget (dhist l') (tx_id t) = nget (dhist l1) (tx_id t) ->
  exists l2, remove_tx cfg l' t bh top' = Ok l2 /\ leqv l l2 /\ dhist l2 = dhist l'.
Proof.
  intros HI HP HU Hb Hwf Htot Hinc Hnonce Happ.
  exact (proj2 (undo_tx_gen eq l t h bh top_h l1 tot (kind_undo_ok_eq l t HI HP HU Hwf) Hb Hwf Htot Hinc Hnonce Happ)).
Qed.

(* the statement in the form of remove_apply_transfer (removal from the very ledger the application produced) *)
Corollary remove_apply_tx l t h bh top_h l1 tot :
  SInv l -> FPos l -> FUniq l -> total_bal l < two64 -> wf_tx cfg t -> tx_total cfg t = Some tot ->
  (forall a, inc (acct_at l a) + tx_nouts t < two64) ->
  nonce (acct_at l (addr_of_key (tx_signer t))) + 1 < two64 ->
  apply_tx cfg l t h bh top_h = Ok l1 ->
  forall top', exists l2, remove_tx cfg l1 t bh top' = Ok l2 /\ same_accounts l2 l /\ dlgs l2 = dlgs l /\ staked l2 = staked l.
Proof.
  intros HI HP HU Hb Hwf Htot Hinc Hnonce Happ top'.
  destruct (undo_tx l t h bh top_h l1 tot HI HP HU Hb Hwf Htot Hinc Hnonce Happ l1 top' (leqv_refl l1) eq_refl)
    as (l2 & Hr & (Hs & _ & Hd & Hst) & _).
  exists l2. split; [exact Hr|]. split; [exact Hs|]. split; [symmetry; exact Hd|exact Hst].
Qed.

End TxUndo.
