(* Panic-freedom of the line handlers of Model/Lines.v (C12, line families). *)
From Coq Require Import Lia ZifyN ZifyBool.
From Virel Require Import Lib.Config Lib.U64 Model.Des Model.Codec Model.CodecBlock Model.Address Model.Lines
  Proofs.Des Proofs.DesSafe Proofs.Codec Proofs.CodecSafe Proofs.CodecBlock Proofs.CodecBlockSafe Proofs.Address Gen.Params.
Open Scope bool_scope.
Open Scope N_scope.

(* ---------------------------------------------------------------- lists *)
Lemma blen_nil {A} : blen (@nil A) = 0. Proof. reflexivity. Qed.
Lemma blen_cons {A} (x : A) l : blen (x :: l) = blen l + 1.
Proof. unfold blen. cbn [length]. lia. Qed.

Lemma length_removelast {A} (l : list A) : length (removelast l) = pred (length l).
Proof.
  induction l as [|x l IH]; [reflexivity|]. destruct l as [|y l]; [reflexivity|].
  change (removelast (x :: y :: l)) with (x :: removelast (y :: l)). cbn [length]. rewrite IH. reflexivity.
Qed.

Lemma blen_middle c : 2 <= blen c -> blen (middle c) = blen c - 2.
Proof.
  intros H. unfold middle, blen in *. rewrite length_removelast. destruct c as [|x c]; cbn [tl length] in *; lia.
Qed.

Lemma hex_decode_len : forall n s b, (length s <= n)%nat -> hex_decode s = Some b -> 2 * blen b = blen s.
Proof.
  induction n as [|n IH]; intros s b Hn H.
  - destruct s; [|cbn in Hn; lia]. cbn in H. injection H as <-. reflexivity.
  - destruct s as [|a [|c r]].
    + cbn in H. injection H as <-. reflexivity.
    + cbn in H. discriminate.
    + cbn [hex_decode] in H. destruct (from_hex_char a); [|discriminate]. destruct (from_hex_char c); [|discriminate].
      destruct (hex_decode r) as [t|] eqn:E; [|discriminate]. injection H as <-.
      assert (Hr : 2 * blen t = blen r) by (apply (IH r t); [cbn in Hn; lia|exact E]).
      rewrite !blen_cons. lia.
Qed.

(* ---------------------------------------------------------------- custom unmarshalers *)
Lemma hex_unmarshal_json_no_panic c : hex_unmarshal_json c <> RPanic.
Proof.
  unfold hex_unmarshal_json. destruct (blen c <? 2) eqn:E1; [discriminate|]. destruct (blen c =? 2); [discriminate|].
  destruct c as [|c0 r]; [rewrite blen_nil in E1; discriminate|].
  destruct (negb (c0 =? QUOTE) || negb (last_byte (c0 :: r) =? QUOTE)); [discriminate|].
  destruct (hex_decode (middle (c0 :: r))); discriminate.
Qed.

Lemma opt_hex_no_panic t : opt_hex t <> RPanic.
Proof. destruct t; [apply hex_unmarshal_json_no_panic|discriminate]. Qed.

(* accepted tokens: quoted, an even number of hex digits between the quotes - or any two-byte token *)
Lemma hex_unmarshal_json_accepts c b : hex_unmarshal_json c = ROk b ->
  (blen c = 2 /\ b = []) \/ (2 < blen c /\ hd 0 c = QUOTE /\ last_byte c = QUOTE /\ hex_decode (middle c) = Some b /\ 2 * blen b = blen c - 2).
Proof.
  unfold hex_unmarshal_json. destruct (blen c <? 2) eqn:E1; [discriminate|]. destruct (blen c =? 2) eqn:E2.
  - intros H. injection H as <-. left. split; [lia|reflexivity].
  - destruct c as [|c0 r]; [discriminate|].
    destruct (c0 =? QUOTE) eqn:Q1; cbn [negb orb]; [|discriminate].
    destruct (last_byte (c0 :: r) =? QUOTE) eqn:Q2; cbn [negb]; [|discriminate].
    destruct (hex_decode (middle (c0 :: r))) as [t|] eqn:E; [|discriminate]. intros H. injection H as <-. right.
    repeat split; try lia; try (cbn [hd]; lia).
    pose proof (hex_decode_len (length (middle (c0 :: r))) _ _ (le_n _) E) as L. rewrite blen_middle in L by lia. exact L.
Qed.

Lemma hash_unmarshal_json_no_panic c : hash_unmarshal_json c <> RPanic.
Proof.
  unfold hash_unmarshal_json. destruct (blen c =? 66) eqn:E1; cbn [negb]; [|discriminate].
  destruct c as [|c0 r]; [rewrite blen_nil in E1; discriminate|].
  destruct (negb (c0 =? QUOTE) || negb (last_byte (c0 :: r) =? QUOTE)); [discriminate|].
  destruct (hex_decode (middle (c0 :: r))) as [t|] eqn:E; [|discriminate].
  pose proof (hex_decode_len (length (middle (c0 :: r))) _ _ (le_n _) E) as L. rewrite blen_middle in L by lia.
  assert (blen t =? 32 = true) as -> by lia. discriminate.
Qed.

Lemma hash_unmarshal_json_accepts c b : hash_unmarshal_json c = ROk b -> blen c = 66 /\ blen b = 32.
Proof.
  unfold hash_unmarshal_json. destruct (blen c =? 66) eqn:E1; cbn [negb]; [|discriminate].
  destruct c as [|c0 r]; [discriminate|].
  destruct (negb (c0 =? QUOTE) || negb (last_byte (c0 :: r) =? QUOTE)); [discriminate|].
  destruct (hex_decode (middle (c0 :: r))) as [t|]; [|discriminate]. destruct (blen t =? 32) eqn:E2; [|discriminate].
  intros H. injection H as <-. lia.
Qed.

Lemma integrated_unmarshal_json_no_panic cfg c : integrated_unmarshal_json cfg c <> RPanic.
Proof.
  unfold integrated_unmarshal_json. destruct (blen c <? 2) eqn:E1; [discriminate|].
  destruct c as [|c0 r]; [rewrite blen_nil in E1; discriminate|].
  destruct (negb (c0 =? QUOTE) || negb (last_byte (c0 :: r) =? QUOTE)); [discriminate|].
  pose proof (parse_total cfg (middle (c0 :: r))) as P. destruct (parse_addr cfg (middle (c0 :: r))); try discriminate. congruence.
Qed.

(* ---------------------------------------------------------------- targets *)
Lemma byte_target_panics_iff t :
  byte_target_to_diff t = RPanic <-> (blen t <> 16 /\ blen t <> 8 /\ blen t <> 4).
Proof.
  unfold byte_target_to_diff. destruct (blen t =? 16) eqn:A; [split; [discriminate|lia]|].
  destruct (blen t =? 8) eqn:B; [split; [discriminate|lia]|]. destruct (blen t =? 4) eqn:C; [split; [discriminate|lia]|].
  split; [lia|reflexivity].
Qed.

(* ---------------------------------------------------------------- merge-mining stratum client *)
Section Client.
Variable cfg : config.

Lemma dec_blob_run_no_panic bs : run (dec_blob cfg) bs <> MPanic.
Proof.
  pose proof (proj1 (blob_no_panic cfg bs)) as H. intros E. rewrite E in H. apply H. reflexivity.
Qed.

Lemma add_stratum_job_no_panic blob target jid : add_stratum_job cfg blob target jid <> SCPanic.
Proof.
  unfold add_stratum_job, add_stratum_job_gen. pose proof (dec_blob_run_no_panic blob) as H.
  destruct (run (dec_blob cfg) blob) as [m s| |]; [|discriminate|congruence].
  destruct (mb_chains m) as [|c [|c2 r]]; try discriminate. cbn [andb].
  destruct ((blen target =? 16) || (blen target =? 8) || (blen target =? 4)) eqn:G; cbn [negb]; [|discriminate].
  destruct (byte_target_to_diff target) eqn:E; try discriminate.
  apply byte_target_panics_iff in E. lia.
Qed.

(* a job is accepted exactly when its blob decodes to one chain and its target is 4, 8 or 16 bytes long *)
Lemma add_stratum_job_accepts blob target jid j d n :
  add_stratum_job cfg blob target jid = SCAccept j d n ->
  (blen target = 4 \/ blen target = 8 \/ blen target = 16) /\ j = jid /\ byte_target_to_diff target = ROk d /\
  exists m s c, run (dec_blob cfg) blob = MOk m s /\ mb_chains m = [c] /\ n = hid_network c.
Proof.
  unfold add_stratum_job, add_stratum_job_gen. destruct (run (dec_blob cfg) blob) as [m s| |]; try discriminate.
  destruct (mb_chains m) as [|c [|c2 r]] eqn:Hc; try discriminate. cbn [andb].
  destruct ((blen target =? 16) || (blen target =? 8) || (blen target =? 4)) eqn:G; cbn [negb]; [|discriminate].
  destruct (byte_target_to_diff target) eqn:E; try discriminate. intros H. injection H as <- <- <-.
  repeat split; try lia. exists m, s, c. repeat split; assumption.
Qed.

Lemma decode_job_no_panic j : decode_job j <> JDPanic.
Proof.
  destruct j as [so b t s id]. unfold decode_job. destruct so; cbn [negb]; [|discriminate].
  pose proof (opt_hex_no_panic b). pose proof (opt_hex_no_panic t). pose proof (opt_hex_no_panic s).
  destruct (opt_hex b), (opt_hex t), (opt_hex s); try discriminate; congruence.
Qed.

Lemma sc_login_no_panic l : sc_login l <> 2.
Proof.
  destruct l as [j|]; cbn; [|lia]. pose proof (decode_job_no_panic j). destruct (decode_job j); try lia. congruence.
Qed.

Lemma sc_run_no_panic evs : forall st, fst (sc_run cfg st evs) <> 2.
Proof.
  induction evs as [|e r IH]; intros st; [cbn; lia|]. destruct e as [| |j]; cbn [sc_run]; [cbn; lia|apply IH|].
  pose proof (decode_job_no_panic j). destruct (decode_job j) as [b t| |]; [|cbn; lia|congruence].
  pose proof (add_stratum_job_no_panic b t (job_id_of j)). destruct (add_stratum_job cfg b t (job_id_of j)); [apply IH|cbn; lia|congruence].
Qed.
End Client.

(* the loop without its target-length test panics on a five-byte target (the blob is a valid one-chain blob) *)
Definition witness_blob : mining_blob := mkblob 1700000000000 7 (repeat 9 16) [mkhid 3 (repeat 5 32)].
Lemma add_stratum_unguarded_panics :
  add_stratum_job_gen cfg_mainnet false (enc_blob witness_blob) [0; 0; 0; 0; 0] [106] = SCPanic
  /\ add_stratum_job_gen cfg_mainnet true (enc_blob witness_blob) [0; 0; 0; 0; 0] [106] = SCRefuse
  /\ add_stratum_job_gen cfg_mainnet true (enc_blob witness_blob) [0; 0; 0; 128] [106] = SCAccept [106] 8589934591 3.
Proof. vm_compute. repeat split; reflexivity. Qed.

(* ---------------------------------------------------------------- stratum server *)
Section Server.
Variable cfg : config.

Lemma addr_usable_no_panic p : addr_usable cfg (parse_addr cfg p) <> LPanic.
Proof.
  pose proof (parse_total cfg p) as P. unfold addr_usable. destruct (parse_addr cfg p); try discriminate; [|congruence].
  destruct (list_N_eqb a (zero_addr cfg)); discriminate.
Qed.

Lemma srv_login_no_panic json_ok method std_ok text : srv_login cfg json_ok method std_ok text <> LPanic.
Proof.
  unfold srv_login. destruct json_ok; cbn [negb]; [|discriminate]. destruct (list_N_eqb method T_LOGIN); cbn [negb]; [|discriminate].
  destruct std_ok; cbn [negb]; [|discriminate].
  pose proof (parse_total cfg text) as P. pose proof (addr_usable_no_panic text) as U.
  destruct (parse_addr cfg text) eqn:E; [exact U| |congruence].
  destruct ((blen MERGE_PREFIX <? blen text) && has_prefix MERGE_PREFIX text); [|discriminate].
  destruct (is_masterchain cfg); [discriminate|]. apply addr_usable_no_panic.
Qed.

Lemma srv_submit_no_panic std_ok nonce blob extra known : srv_submit cfg std_ok nonce blob extra known <> LPanic.
Proof.
  unfold srv_submit. destruct std_ok; cbn [negb]; [|discriminate].
  pose proof (opt_hex_no_panic blob) as Hb. pose proof (opt_hex_no_panic extra) as Hx.
  destruct (opt_hex blob) as [b| |]; [|destruct (opt_hex extra); try discriminate; congruence|congruence].
  destruct (opt_hex extra) as [x| |]; [|discriminate|congruence].
  destruct (hex_decode nonce) as [nb|]; [|discriminate].
  pose proof (proj1 (stratum_nonce_no_panic nb)) as Hn.
  destruct (run stratum_nonce nb) as [v s| |]; [|discriminate|exfalso; apply Hn; reflexivity].
  destruct known; cbn [negb]; [|discriminate].
  assert (Hex : (if blen x =? 16 then match run (to_array 16 x) [] with MPanic => false | _ => true end else true) = true).
  { destruct (blen x =? 16) eqn:E; [|reflexivity]. unfold run, to_array.
    destruct (split_at_enough x 16 ltac:(lia)) as (a & r & Es). rewrite Es. reflexivity. }
  rewrite Hex. cbn [negb]. destruct (blen b =? 0); [discriminate|]. destruct (is_masterchain cfg); [discriminate|].
  pose proof (dec_blob_run_no_panic cfg b) as Hd. destruct (run (dec_blob cfg) b) as [m s'| |]; [|discriminate|congruence].
  destruct (set_mining_blob_ok cfg m); discriminate.
Qed.

Lemma srv_line_no_panic json_ok method std_ok nonce blob extra known :
  srv_line cfg json_ok method std_ok nonce blob extra known <> LPanic.
Proof.
  unfold srv_line. destruct json_ok; cbn [negb]; [|discriminate].
  destruct (list_N_eqb method T_SUBMIT); [apply srv_submit_no_panic|]. destruct (list_N_eqb method T_KEEPALIVED); discriminate.
Qed.
End Server.

(* ---------------------------------------------------------------- JSON-RPC *)
Section Rpc.
Variable cfg : config.
Hypothesis Hok : cfg_ok_codec cfg = true.

Lemma rfield_dec_no_panic f : rfield_dec cfg f <> RPanic.
Proof.
  destruct f as [k [c|]]; cbn [rfield_dec]; [|discriminate].
  destruct (k =? 1); [apply hash_unmarshal_json_no_panic|]. destruct (k =? 2); [apply hex_unmarshal_json_no_panic|].
  apply integrated_unmarshal_json_no_panic.
Qed.

Lemma rfields_class_no_panic l : rfields_class cfg l = 0 \/ rfields_class cfg l = 1.
Proof.
  induction l as [|f r IH]; cbn [rfields_class]; [left; reflexivity|]. pose proof (rfield_dec_no_panic f).
  destruct (rfield_dec cfg f); [exact IH|right; reflexivity|congruence].
Qed.

Lemma rfields_class_0 l : rfields_class cfg l = 0 -> forall f, In f l -> exists b, rfield_dec cfg f = ROk b.
Proof.
  induction l as [|g r IH]; cbn [rfields_class]; intros H f Hin; [destruct Hin|].
  destruct (rfield_dec cfg g) as [b| |] eqn:E; try lia. destruct Hin as [<-|Hin]; [exists b; exact E|apply IH; assumption].
Qed.

Definition fields_shape (method : list N) (fields : list rfield) : Prop :=
  (list_N_eqb method M_SUBMIT_STAKE_SIGNATURE = true -> length fields = 2%nat) /\
  (list_N_eqb method M_SUBMIT_TRANSACTION = true -> length fields = 1%nat).

Lemma rpc_method_no_panic method fields addr ttype top :
  rfields_class cfg fields = 0 -> fields_shape method fields -> rpc_method cfg method fields addr ttype top <> RPanicX.
Proof.
  intros H0 [S1 S2]. unfold rpc_method.
  destruct (list_N_eqb method M_SUBMIT_STAKE_SIGNATURE).
  { specialize (S1 eq_refl). destruct fields as [|h [|s [|x r]]]; try discriminate S1.
    destruct (rfields_class_0 _ H0 h (or_introl eq_refl)) as (hb & ->).
    destruct (rfields_class_0 _ H0 s (or_intror (or_introl eq_refl))) as (sb & ->).
    destruct ((blen hb =? 32) && (blen sb =? signature_size cfg)); discriminate. }
  destruct (list_N_eqb method M_SUBMIT_TRANSACTION).
  { specialize (S2 eq_refl). destruct fields as [|x [|y r]]; try discriminate S2.
    destruct (rfields_class_0 _ H0 x (or_introl eq_refl)) as (b & ->).
    pose proof (proj1 (tx_no_panic cfg Hok (hf_v2 cfg <=? top + 1) b)) as T.
    destruct (run (dec_tx cfg (hf_v2 cfg <=? top + 1)) b); try discriminate. exfalso. apply T. reflexivity. }
  destruct (list_N_eqb method M_GET_ADDRESS).
  { pose proof (parse_total cfg addr). destruct (parse_addr cfg addr); try discriminate. congruence. }
  destruct (list_N_eqb method M_VALIDATE_ADDRESS).
  { pose proof (parse_total cfg addr). destruct (parse_addr cfg addr); try discriminate. congruence. }
  destruct (list_N_eqb method M_GET_TX_LIST); [|discriminate].
  destruct (list_N_eqb ttype T_INCOMING || list_N_eqb ttype T_OUTGOING); discriminate.
Qed.

Lemma rpc_expect_no_panic http body_len json_ok jsonrpc method has_params std_ok fields addr ttype top :
  fields_shape method fields ->
  rpc_expect cfg http body_len json_ok jsonrpc method has_params std_ok fields addr ttype top <> RPanicX.
Proof.
  intros S. unfold rpc_expect, PARSE_ERROR.
  repeat match goal with |- (if ?c then _ else _) <> _ => destruct c; try discriminate end.
  destruct (rfields_class_no_panic fields) as [E|E]; rewrite E; [apply rpc_method_no_panic; assumption|discriminate].
Qed.
End Rpc.
