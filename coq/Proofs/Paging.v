(* The pages of a history partition it (property C17, "every history page"). *)
From Virel Require Import Lib.U64 Model.Paging.
Open Scope N_scope.

Definition two63 : N := 9223372036854775808.

Lemma page_range_spec n p : n < two63 -> p <= (if 0 <? n then (n - 1) / page_size else 0) ->
  page_range n p =
    ((if n - p * page_size <? page_size then 0 else n - p * page_size - page_size) + 1, n - p * page_size,
     if 0 <? n then (n - 1) / page_size else 0).
Proof.
  intros Hn Hp. unfold page_range. set (mp := if 0 <? n then (n - 1) / page_size else 0) in *.
  destruct (N.ltb_spec mp p); [lia|].
  assert (Hpn : p * page_size <= n).
  { unfold mp in Hp. destruct (N.ltb_spec 0 n); [|assert (p = 0) by lia; subst; lia].
    unfold page_size in *. assert ((n - 1) / 25 * 25 <= n - 1) by (rewrite N.mul_comm; apply N.mul_div_le; lia). nia. }
  unfold two63 in Hn. unfold page_size in *.
  rewrite wmul_small by (unfold two64; lia). rewrite wsub_small by (unfold two64; lia).
  f_equal. f_equal. f_equal.
  unfold int64_of. rewrite N.mod_small by (unfold two64; lia).
  destruct (N.ltb_spec (n - p * 25) 9223372036854775808); [|lia].
  destruct (N.ltb_spec (n - p * 25) 25); lia.
Qed.

(* page p (0 = newest) serves exactly the ids  max(0, n - 25(p+1)) + 1 .. n - 25 p ; consecutive pages are adjacent,
   page 0 ends at n and the last page starts at 1: the pages 0..maxPage partition 1..n *)
Theorem pages_partition n : n < two63 ->
  let mp := if 0 <? n then (n - 1) / page_size else 0 in
  (* page 0 ends at the newest entry *)
  snd (fst (page_range n 0)) = n /\
  (* the last page starts at the oldest entry *)
  fst (fst (page_range n mp)) = 1 /\
  (* consecutive pages are adjacent and non-overlapping *)
  (forall p, p < mp -> fst (fst (page_range n p)) = snd (fst (page_range n (p + 1))) + 1) /\
  (* every page but the last has exactly 25 entries; no page has more *)
  (forall p, p <= mp -> snd (fst (page_range n p)) + 1 - fst (fst (page_range n p)) <= page_size) /\
  (* a page number beyond the last serves the last page *)
  (forall p, mp < p -> page_range n p = page_range n mp).
Proof.
  intros Hn mp.
  assert (Hmp : mp * page_size <= n /\ (0 < n -> n <= mp * page_size + page_size)).
  { unfold mp, page_size. destruct (N.ltb_spec 0 n); [|split; lia].
    pose proof (N.div_mod (n - 1) 25 ltac:(lia)). pose proof (N.mod_lt (n - 1) 25 ltac:(lia)). split; lia. }
  destruct Hmp as [Hlo Hhi].
  split; [rewrite page_range_spec by (fold mp; lia); cbn [fst snd]; lia|].
  split.
  { rewrite page_range_spec by (fold mp; lia). cbn [fst snd].
    destruct (N.ltb_spec (n - mp * page_size) page_size); [lia|].
    destruct (N.ltb_spec 0 n); [unfold page_size in *; lia|unfold mp, page_size in *; lia]. }
  split.
  { intros p Hp. rewrite !page_range_spec by (fold mp; lia). cbn [fst snd].
    assert ((p + 1) * page_size <= n) by (unfold page_size in *; nia).
    destruct (N.ltb_spec (n - p * page_size) page_size); unfold page_size in *; lia. }
  split.
  { intros p Hp. rewrite page_range_spec by (fold mp; lia). cbn [fst snd].
    destruct (N.ltb_spec (n - p * page_size) page_size); unfold page_size in *; lia. }
  intros p Hp. unfold page_range. fold mp.
  destruct (N.ltb_spec mp p); [|lia]. destruct (N.ltb_spec mp mp); [lia|]. reflexivity.
Qed.
