(* Property C03 / C10, "the ledger is the replay of the main chain", first part: the application side respects the
   agreement relation [leqv] of Proofs/Undo.v.

   [leqv ls lb]: the ledgers agree on accounts as functions (an absent account = an all-zero account), on the delegate
   table and on the staked total; [lb] may carry more (all-zero) account records than [ls] - that is what the ledger of a
   node looks like after a reorganisation (the undo leaves the records of the accounts it emptied) next to the ledger
   of a node that only ever applied the main chain.

   Main result [cong_apply_chain]: when the blocks apply to the bigger ledger [lb], they apply to [ls] with agreeing
   results, and both delegate histories receive the same writes.  The only places where ApplyTxToState asks whether an
   account record EXISTS are the signer and the debited account; a transaction that passes there debits a positive
   amount (fee > 0) or belongs to a signer with a delegate, so the record is not all-zero and exists in [ls] too.
   Needs per transaction: uint64-typed amounts, overflow-free total, fee > 0, version byte of the payload kind. *)
From Coq Require Import Sorting.Sorted.
From Virel Require Import Lib.Config Lib.U64 Lib.AMap Lib.CheckLib Model.Emission Model.Ledger Spec.Rules
  Proofs.AMapLemmas Proofs.Emission Proofs.Conservation Proofs.Pointwise Proofs.Refine Proofs.Staking Proofs.StakedSum
  Proofs.Refine2 Proofs.Undo Proofs.Undo2 Proofs.Undo4.
Open Scope N_scope.
Open Scope bool_scope.

(* ---- writes to the delegate history ---- *)
Definition wr (W : list (N * dlg)) (D : list (N * dlg)) : list (N * dlg) :=
  fold_left (fun D kv => nset D (fst kv) (snd kv)) W D.

Lemma wr_app W1 W2 D : wr (W1 ++ W2) D = wr W2 (wr W1 D).
Proof. unfold wr. apply fold_left_app. Qed.

(* the last value written under [k] *)
Fixpoint wlast (W : list (N * dlg)) (k : N) : option dlg :=
  match W with
  | [] => None
  | (k', v) :: r => match wlast r k with Some x => Some x | None => if k =? k' then Some v else None end
  end.

Lemma wr_nget W : forall D k, nget (wr W D) k = match wlast W k with Some v => Some v | None => nget D k end.
Proof.
  induction W as [|[k' v] W IH]; intros D k; cbn [wr fold_left wlast fst snd]; [reflexivity|].
  fold (wr W (nset D k' v)). rewrite IH. destruct (wlast W k); [reflexivity|]. rewrite nget_nset. destruct (k =? k'); reflexivity.
Qed.

Lemma wlast_keys W k : wlast W k <> None -> In k (map fst W).
Proof.
  induction W as [|[k' v'] W IH]; cbn [wlast map fst In]; [congruence|].
  destruct (wlast W k) as [x|]; [intros _; right; apply IH; discriminate|].
  destruct (N.eqb_spec k k'); [intros _; left; congruence|congruence].
Qed.

(* ---- results in lockstep ---- *)
Definition res_rel {A} (P : A -> A -> Prop) (r r' : res A) : Prop :=
  match r, r' with
  | Ok a, Ok a' => P a a'
  | Err c, Err c' => c = c'
  | Panic c, Panic c' => c = c'
  | _, _ => False
  end.

(* ---- accounts ---- *)
Definition accE (ls lb : ledger) : Prop := same_accounts lb ls /\ dom_le ls lb.

Lemma leqv_split ls lb : leqv ls lb <-> accE ls lb /\ dlgs lb = dlgs ls /\ staked lb = staked ls.
Proof.
  unfold leqv, leqv_g, accE. split.
  - intros (A & B & C & D). split; [split; assumption|]. split; [symmetry; exact C|exact D].
  - intros ((A & B) & C & D). split; [exact A|]. split; [exact B|]. split; [symmetry; exact C|exact D].
Qed.

Lemma accE_ext ls lb ls' lb' : accts ls' = accts ls -> accts lb' = accts lb -> accE ls lb -> accE ls' lb'.
Proof.
  intros Hs Hb (A & B). split.
  - intros a. rewrite (acct_at_ext lb lb' a Hb), (acct_at_ext ls ls' a Hs). apply A.
  - intros a. rewrite (get_state_ext ls ls' a Hs), (get_state_ext lb lb' a Hb). apply B.
Qed.

Lemma accE_put ls lb a s : accE ls lb -> accE (put_state ls a s) (put_state lb a s).
Proof.
  intros (A & B). split.
  - intros x. rewrite !acct_at_put. destruct (x =? a); [reflexivity|apply A].
  - intros x. rewrite !get_state_put. destruct (x =? a); [intros _; discriminate|apply B].
Qed.

Lemma accE_refl l : accE l l.
Proof. split; [intros a; reflexivity|intros a Ha; exact Ha]. Qed.

Lemma accE_trans a b c : accE a b -> accE b c -> accE a c.
Proof.
  intros (A1 & A2) (B1 & B2). split; [intros x; rewrite B1; apply A1|intros x Hx; apply B2, A2; exact Hx].
Qed.

Lemma leqv_trans a b c : leqv a b -> leqv b c -> leqv a c.
Proof.
  rewrite !leqv_split. intros (A & A1 & A2) (B & B1 & B2). split; [eapply accE_trans; eassumption|]. split; congruence.
Qed.

(* a record that is not all-zero in the bigger ledger exists in the smaller one *)
Lemma nonzero_exists ls lb a s : accE ls lb -> get_state lb a = Some s -> s <> acct0 -> get_state ls a = Some s.
Proof.
  intros (A & _) Hb Hnz. specialize (A a). unfold acct_at in A. rewrite Hb in A.
  destruct (get_state ls a) as [x|]; [congruence|]. congruence.
Qed.

Lemma acct_at_accE ls lb a : accE ls lb -> acct_at lb a = acct_at ls a.
Proof. intros (A & _). apply A. Qed.

(* ---- inputs ---- *)
Lemma cong_inputs ins : forall ls lb lb1,
  accE ls lb -> Forall (fun i : N * N => 0 < fst i) ins -> apply_inputs lb ins = Ok lb1 ->
  exists ls1, apply_inputs ls ins = Ok ls1 /\ accE ls1 lb1 /\
    dlgs ls1 = dlgs ls /\ staked ls1 = staked ls /\ dhist ls1 = dhist ls /\
    dlgs lb1 = dlgs lb /\ staked lb1 = staked lb /\ dhist lb1 = dhist lb.
Proof.
  induction ins as [|[amt sender] ins IH]; intros ls lb lb1 HE Hpos H; cbn [apply_inputs] in H |- *.
  - injection H as <-. exists ls. repeat split; try reflexivity; apply HE.
  - inversion Hpos as [|? ? Hp Hpos']; subst. cbn [fst] in Hp.
    opt_inv H. rename x into s. guard_inv H. apply Bool.negb_true_iff in G. apply N.ltb_ge in G.
    assert (Hnz : s <> acct0) by (intros ->; cbn [bal acct0] in G; lia).
    rewrite (nonzero_exists ls lb sender s HE E Hnz). cbn [of_opt bind].
    destruct (N.ltb_spec (bal s) amt); [lia|]. cbn [negb guard bind].
    destruct (IH _ _ _ (accE_put ls lb sender (mkacct (bal s - amt) (nonce s) (inc s) (deleg s)) HE) Hpos' H)
      as (ls1 & Hr & HE1 & R).
    exists ls1. split; [exact Hr|]. split; [exact HE1|exact R].
Qed.

(* ---- the staking operations read the delegate table and the staked total only ---- *)
Lemma pos_reward_ext l l' bh o : dlgs l' = dlgs l -> staked l' = staked l ->
  res_rel (fun a a' => dlgs a' = dlgs a /\ staked a' = staked a /\ accts a = accts l /\ accts a' = accts l' /\
                       exists d, dhist a = nset (dhist l) bh d /\ dhist a' = nset (dhist l') bh d)
          (apply_pos_reward l bh o) (apply_pos_reward l' bh o).
Proof.
  intros Hd Hs. unfold apply_pos_reward, get_dlg. rewrite Hd.
  destruct (negb (o_extra o =? 0)); cbn [guard bind res_rel]; [|reflexivity].
  destruct (nget (dlgs l) (o_extra o)) as [d|]; cbn [of_opt bind res_rel]; [|reflexivity].
  destruct (negb (N.of_nat (length (d_funds d)) =? 0)); cbn [guard bind res_rel]; [|reflexivity].
  destruct (total_amount d) as [total|c|c]; cbn [bind res_rel]; [|reflexivity|reflexivity].
  destruct (negb (total =? 0)); cbn [guard bind res_rel]; [|reflexivity].
  destruct (pos_distribute (d_funds d) (o_amt o) total 0) as [[funds1 added]|c|c]; cbn [bind res_rel]; [|reflexivity|reflexivity].
  destruct (negb (o_amt o <? added)); cbn [guard bind res_rel]; [|reflexivity].
  match goal with |- context [bind ?r _] => destruct r as [funds2|c|c]; cbn [bind res_rel]; [|reflexivity|reflexivity] end.
  destruct (total_amount _) as [total2|c|c]; cbn [bind res_rel]; [|reflexivity|reflexivity].
  destruct (total2 =? wadd total (o_amt o)); cbn [guard bind res_rel]; [|reflexivity].
  unfold stats_staked. cbn [staked set_dhist]. rewrite Hs.
  destruct (wadd (staked l) (o_amt o) <? staked l); cbn [bind res_rel]; [reflexivity|].
  cbn [put_dlg set_dlgs set_staked set_dhist dlgs staked accts dhist]. rewrite Hd.
  repeat split. exists d. split; reflexivity.
Qed.

Section Cong.
Variable cfg : config.

Lemma stake_ext l l' amt id pu signer top txid : dlgs l' = dlgs l -> staked l' = staked l ->
  res_rel (fun a a' => dlgs a' = dlgs a /\ staked a' = staked a /\ accts a = accts l /\ accts a' = accts l' /\
                       dhist a = dhist l /\ dhist a' = dhist l')
          (apply_stake cfg l amt id pu signer top txid false) (apply_stake cfg l' amt id pu signer top txid false).
Proof.
  intros Hd Hs. unfold apply_stake, get_dlg. rewrite Hd.
  destruct (nget (dlgs l) id) as [d|]; cbn [of_opt bind res_rel]; [|reflexivity].
  match goal with |- context [bind ?r _] => destruct r as [funds'|c|c]; cbn [bind res_rel]; [|reflexivity|reflexivity] end.
  unfold stats_staked. rewrite Hs.
  destruct (wadd (staked l) amt <? staked l); cbn [bind res_rel]; [reflexivity|].
  cbn [put_dlg set_dlgs set_staked dlgs staked accts dhist]. rewrite Hd. repeat split.
Qed.

Lemma unstake_ext l l' amt id signer top txid : dlgs l' = dlgs l -> staked l' = staked l ->
  res_rel (fun a a' => dlgs a' = dlgs a /\ staked a' = staked a /\ accts a = accts l /\ accts a' = accts l' /\
                       exists W, map fst W = (if W then [] else [txid]) /\ dhist a = wr W (dhist l) /\ dhist a' = wr W (dhist l'))
          (apply_unstake l amt id signer top txid false 0) (apply_unstake l' amt id signer top txid false 0).
Proof.
  intros Hd Hs. unfold apply_unstake, get_dlg. rewrite Hd.
  destruct (nget (dlgs l) id) as [d|]; cbn [of_opt bind res_rel]; [|reflexivity].
  destruct (find_fund (d_funds d) signer) as [f|]; cbn [of_opt bind res_rel]; [|reflexivity].
  destruct (false || negb (top <? f_unlock f)); cbn [guard bind res_rel]; [|reflexivity].
  destruct (negb (f_amt f <? amt)); cbn [guard bind res_rel]; [|reflexivity].
  cbn [negb andb].
  destruct (f_amt f =? amt); unfold stats_unstaked; cbn [staked set_dhist]; rewrite Hs;
    (destruct (staked l <? wsub (staked l) amt); cbn [bind res_rel]; [reflexivity|]);
    cbn [put_dlg set_dlgs set_staked set_dhist dlgs staked accts dhist]; rewrite Hd; repeat split.
  - exists [(txid, d)]. repeat split.
  - exists []. repeat split.
Qed.

Lemma kind_apply_ext l l' t st top : dlgs l' = dlgs l -> staked l' = staked l ->
  res_rel (fun r r' : ledger * acct => snd r' = snd r /\
             dlgs (fst r') = dlgs (fst r) /\ staked (fst r') = staked (fst r) /\
             accts (fst r) = accts l /\ accts (fst r') = accts l' /\
             exists W, (forall k, In k (map fst W) -> k = tx_id t) /\
                       dhist (fst r) = wr W (dhist l) /\ dhist (fst r') = wr W (dhist l'))
          (kind_apply cfg l t st top) (kind_apply cfg l' t st top).
Proof.
  intros Hd Hs. unfold kind_apply.
  assert (Htriv : res_rel (fun r r' : ledger * acct => snd r' = snd r /\
             dlgs (fst r') = dlgs (fst r) /\ staked (fst r') = staked (fst r) /\
             accts (fst r) = accts l /\ accts (fst r') = accts l' /\
             exists W, (forall k, In k (map fst W) -> k = tx_id t) /\
                       dhist (fst r) = wr W (dhist l) /\ dhist (fst r') = wr W (dhist l')) (Ok (l, st)) (Ok (l', st))).
  { cbn [res_rel fst snd]. repeat split; try assumption. exists []. repeat split. intros k []. }
  destruct (tx_data t) as [os|nl name id|nw pv|a id pu|a id].
  - exact Htriv.
  - destruct (tx_version t =? 2); [|exact Htriv]. unfold get_dlg. rewrite Hd.
    destruct (nget (dlgs l) id); cbn [guard bind res_rel fst snd]; [reflexivity|].
    cbn [put_dlg set_dlgs dlgs staked accts dhist]. rewrite Hd. repeat split; try assumption.
    exists []. repeat split. intros k [].
  - destruct (tx_version t =? 3); [|exact Htriv]. unfold get_dlg. rewrite Hd.
    destruct (pv =? deleg st); cbn [guard bind res_rel]; [|reflexivity].
    match goal with |- context [guard ?b 369] => destruct b; cbn [guard bind res_rel]; [|reflexivity] end.
    destruct (nget (dlgs l) nw); cbn [guard bind res_rel fst snd]; [|reflexivity].
    repeat split; try assumption. exists []. repeat split. intros k [].
  - destruct (tx_version t =? 4); [|exact Htriv].
    destruct (negb (id =? 0)); cbn [guard bind res_rel]; [|reflexivity].
    destruct (deleg st =? id); cbn [guard bind res_rel]; [|reflexivity].
    pose proof (stake_ext l l' a id pu (addr_of_key (tx_signer t)) top (tx_id t) Hd Hs) as H.
    destruct (apply_stake cfg l a id pu (addr_of_key (tx_signer t)) top (tx_id t) false) as [x|c|c];
      destruct (apply_stake cfg l' a id pu (addr_of_key (tx_signer t)) top (tx_id t) false) as [x'|c'|c'];
      cbn [res_rel bind fst snd] in H |- *; try contradiction; try exact H.
    destruct H as (A & B & C & D & E & F). repeat split; try assumption.
    exists []. split; [intros k []|]. split; assumption.
  - destruct (tx_version t =? 5); [|exact Htriv].
    destruct (negb (id =? 0)); cbn [guard bind res_rel]; [|reflexivity].
    destruct (deleg st =? id); cbn [guard bind res_rel]; [|reflexivity].
    pose proof (unstake_ext l l' a id (addr_of_key (tx_signer t)) top (tx_id t) Hd Hs) as H.
    destruct (apply_unstake l a id (addr_of_key (tx_signer t)) top (tx_id t) false 0) as [x|c|c];
      destruct (apply_unstake l' a id (addr_of_key (tx_signer t)) top (tx_id t) false 0) as [x'|c'|c'];
      cbn [res_rel bind fst snd] in H |- *; try contradiction; try exact H.
    destruct H as (A & B & C & D & W & Hk & E & F). repeat split; try assumption.
    exists W. split; [|split; assumption].
    intros k Hin. rewrite Hk in Hin. destruct W; [destruct Hin|destruct Hin as [<-|[]]; reflexivity].
Qed.

Lemma kind_apply_bal l t st top lk st1 : kind_apply cfg l t st top = Ok (lk, st1) -> bal st1 = bal st.
Proof.
  unfold kind_apply. intros H.
  destruct (tx_data t) as [os|nl name id|nw pv|a id pu|a id].
  - injection H as _ <-. reflexivity.
  - destruct (tx_version t =? 2); [|injection H as _ <-; reflexivity]. guard_inv H. injection H as _ <-. reflexivity.
  - destruct (tx_version t =? 3); [|injection H as _ <-; reflexivity].
    guard_inv H. guard_inv H. guard_inv H. injection H as _ <-. reflexivity.
  - destruct (tx_version t =? 4); [|injection H as _ <-; reflexivity].
    guard_inv H. guard_inv H. bind_inv H. injection H as _ <-. reflexivity.
  - destruct (tx_version t =? 5); [|injection H as _ <-; reflexivity].
    guard_inv H. guard_inv H. bind_inv H. injection H as _ <-. reflexivity.
Qed.

(* ---- outputs (staker rewards allowed), in lockstep including the error ---- *)
Lemma cong_outputs outs : forall ls lb bh txid lb1 e,
  leqv ls lb -> apply_outputs lb bh outs txid = (lb1, e) ->
  exists ls1 W, apply_outputs ls bh outs txid = (ls1, e) /\ leqv ls1 lb1 /\
    (forall k, In k (map fst W) -> k = bh) /\ dhist ls1 = wr W (dhist ls) /\ dhist lb1 = wr W (dhist lb).
Proof.
  induction outs as [|o outs IH]; intros ls lb bh txid lb1 e HL H; cbn [apply_outputs] in H |- *.
  - injection H as <- <-. exists ls, []. split; [reflexivity|]. split; [exact HL|]. split; [intros k []|split; reflexivity].
  - pose proof HL as HL0. apply leqv_split in HL. destruct HL as (HE & Hd & Hs).
    change (match get_state lb (o_rcpt o) with Some s => s | None => acct0 end) with (acct_at lb (o_rcpt o)) in H.
    change (match get_state ls (o_rcpt o) with Some s => s | None => acct0 end) with (acct_at ls (o_rcpt o)).
    rewrite <- (acct_at_accE ls lb (o_rcpt o) HE).
    set (st := acct_at lb (o_rcpt o)) in *.
    destruct (safe_add (bal st) (o_amt o)) as [b|].
    2:{ injection H as <- <-. exists ls, []. split; [reflexivity|]. split; [exact HL0|]. split; [intros k []|split; reflexivity]. }
    set (s' := mkacct b (nonce st) (wadd (inc st) 1) (deleg st)) in *.
    match type of H with context [put_state ?L (o_rcpt o) s'] => set (l2b := put_state L (o_rcpt o) s') in * end.
    match goal with |- context [put_state ?L (o_rcpt o) s'] => set (l2s := put_state L (o_rcpt o) s') in * end.
    assert (HL2 : leqv l2s l2b).
    { apply leqv_split. split; [|split; [exact Hd|exact Hs]].
      unfold l2s, l2b. apply (accE_ext (put_state ls (o_rcpt o) s') (put_state lb (o_rcpt o) s')); [reflexivity|reflexivity|].
      apply accE_put. exact HE. }
    destruct (o_type o =? OUT_COINBASE_POS).
    + pose proof (pos_reward_ext l2b l2s bh o (eq_sym Hd) (eq_sym Hs)) as Hp.
      destruct (apply_pos_reward l2b bh o) as [l3b|c|c]; destruct (apply_pos_reward l2s bh o) as [l3s|c'|c'];
        cbn [res_rel] in Hp; try contradiction.
      * destruct Hp as (D3 & S3 & A3b & A3s & d & H3b & H3s).
        assert (HL3 : leqv l3s l3b).
        { apply leqv_split. split; [|split; [symmetry; exact D3|symmetry; exact S3]].
          apply leqv_split in HL2. destruct HL2 as (HE2 & _). exact (accE_ext l2s l2b l3s l3b A3s A3b HE2). }
        destruct (IH l3s l3b bh txid lb1 e HL3 H) as (ls1 & W & Hr & HL1 & Hk & Hhs & Hhb).
        exists ls1, ((bh, d) :: W). split; [exact Hr|]. split; [exact HL1|]. split.
        { cbn [map fst In]. intros k [<-|Hin]; [reflexivity|apply Hk; exact Hin]. }
        cbn [wr fold_left fst snd]. fold (wr W (nset (dhist ls) bh d)). fold (wr W (nset (dhist lb) bh d)).
        split; [rewrite Hhs, H3s; reflexivity|rewrite Hhb, H3b; reflexivity].
      * injection H as <- <-. subst c'. exists l2s, []. split; [reflexivity|]. split; [exact HL2|].
        split; [intros k []|split; reflexivity].
      * injection H as <- <-. subst c'. exists l2s, []. split; [reflexivity|]. split; [exact HL2|].
        split; [intros k []|split; reflexivity].
    + destruct (IH l2s l2b bh txid lb1 e HL2 H) as (ls1 & W & Hr & HL1 & Hk & Hhs & Hhb).
      exists ls1, W. split; [exact Hr|]. split; [exact HL1|]. split; [exact Hk|]. split; assumption.
Qed.

(* ---- transactions ---- *)
(* what the congruence needs of a transaction: uint64-typed amounts, an overflow-free total, a fee (Prevalidate demands
   fee >= rate * size > 0), the version byte of the payload kind (ver_ok of Proofs/Refine2.v: guaranteed by the codec) *)
Definition tx_cond (t : tx) : Prop := wf_tx cfg t /\ tx_total cfg t <> None /\ 0 < tx_fee t /\ ver_ok t = true.

Lemma cong_apply_tx ls lb t h bh top lb1 :
  leqv ls lb -> tx_cond t -> apply_tx cfg lb t h bh top = Ok lb1 ->
  exists ls1 W, apply_tx cfg ls t h bh top = Ok ls1 /\ leqv ls1 lb1 /\
    (forall k, In k (map fst W) -> k = tx_id t \/ k = bh) /\ dhist ls1 = wr W (dhist ls) /\ dhist lb1 = wr W (dhist lb).
Proof.
  intros HL (Hwf & Htot & Hfee & Hver) H. apply leqv_split in HL. destruct HL as (HE & Hd & Hs).
  destruct (tx_total cfg t) as [tot|] eqn:Et; [clear Htot|congruence].
  rewrite apply_tx_unfold in H |- *. cbn zeta in H |- *. set (signer := addr_of_key (tx_signer t)) in *.
  opt_inv H. rename x into st. guard_inv H.
  destruct (kind_apply cfg lb t st top) as [[lbk st1]|c|c] eqn:Ek; cbn [bind] in H; [|discriminate H|discriminate H].
  bind_inv H. rename a into l3b. bind_inv H. rename a into outs.
  destruct (apply_outputs l3b bh outs (tx_id t)) as [l4b e] eqn:Eao. cbn [fst] in H. injection H as <-.
  pose proof (kind_apply_ext lb ls t st top (eq_sym Hd) (eq_sym Hs)) as Hk. rewrite Ek in Hk.
  destruct (kind_apply cfg ls t st top) as [[lsk st1']|c|c] eqn:Eks; cbn [res_rel fst snd] in Hk; try contradiction.
  destruct Hk as (-> & Dk & Sk & Abk & Ask & Wk & HWk & Hhbk & Hhsk).
  pose proof (kind_apply_bal lb t st top lbk st1 Ek) as Hbal1.
  (* the debited amount is positive *)
  destruct (ins_outs_balance cfg t signer tot outs Hwf Et E1) as (Hbal & _ & _).
  destruct (state_inputs_single cfg t signer) as (amt & sender & Eins). rewrite Eins in *.
  cbn [sum_ins fold_right fst] in Hbal.
  assert (Hamt : 0 < amt) by lia.
  set (st2 := mkacct (bal st1) (wadd (nonce st1) 1) (inc st1) (deleg st1)) in *.
  (* the signer's record is not all-zero *)
  assert (Hnz : st <> acct0).
  { pose proof E0 as Ein. cbn [apply_inputs] in Ein. opt_inv Ein. guard_inv Ein. clear Ein.
    apply Bool.negb_true_iff in G0. apply N.ltb_ge in G0. rewrite get_state_put in E2.
    destruct (N.eqb_spec sender signer) as [Es|Ens].
    - injection E2 as <-. cbn [bal st2] in G0. intros ->. rewrite Hbal1 in G0. cbn [bal acct0] in G0. lia.
    - (* only an unstake debits another account: the signer has chosen the pool *)
      unfold state_inputs in Eins. unfold ver_ok in Hver. unfold kind_apply in Ek.
      destruct (tx_data t) as [os|nl name id|nw pv|a id pu|a id] eqn:Ed; rewrite ?Ed in Eins, Hver, Ek.
      1-4: (exfalso; apply Ens; clear - Eins; injection Eins as _ Hq; symmetry; exact Hq).
      cbn [data_version] in Hver.
      assert (Ev : (tx_version t =? 5) = true).
      { destruct (tx_version t =? 5) eqn:Ev5; [reflexivity|]. rewrite ?Ev5 in Hver. rewrite Bool.orb_false_r in Hver.
        apply Bool.andb_true_iff in Hver. destruct Hver as [_ Hv]. discriminate Hv. }
      rewrite Ev in Ek. guard_inv Ek. guard_inv Ek. clear Ek.
      apply Bool.negb_true_iff in G1. apply N.eqb_neq in G1. apply N.eqb_eq in G2.
      intros ->. cbn [deleg acct0] in G2. congruence. }
  rewrite (nonzero_exists ls lb signer st HE E Hnz). cbn [of_opt bind]. rewrite G. cbn [guard bind].
  rewrite Eks. cbn [bind]. fold st2.
  assert (HE2 : accE (put_state lsk signer st2) (put_state lbk signer st2)).
  { apply accE_put. exact (accE_ext ls lb lsk lbk Ask Abk HE). }
  destruct (cong_inputs [(amt, sender)] _ _ l3b HE2 ltac:(constructor; [exact Hamt|constructor]) E0)
    as (l3s & Hri & HE3 & D3s & S3s & H3s & D3b & S3b & H3b).
  rewrite Hri. cbn [bind]. rewrite ?E1. cbn [bind].
  assert (HL3 : leqv l3s l3b).
  { apply leqv_split. split; [exact HE3|]. cbn [put_state set_accts dlgs staked] in D3s, S3s, D3b, S3b.
    split; congruence. }
  destruct (cong_outputs outs l3s l3b bh (tx_id t) l4b e HL3 Eao) as (l4s & Wo & Hro & HL4 & HWo & H4s & H4b).
  rewrite Hro. cbn [fst].
  eexists. exists (Wk ++ Wo). split; [reflexivity|]. split.
  { apply leqv_split in HL4. destruct HL4 as (HE4 & D4 & S4). apply leqv_split.
    split; [|split; [exact D4|exact S4]]. exact (accE_ext l4s l4b _ _ eq_refl eq_refl HE4). }
  split.
  { intros k Hin. rewrite map_app in Hin. apply in_app_or in Hin.
    destruct Hin as [Hin|Hin]; [left; apply HWk; exact Hin|right; apply HWo; exact Hin]. }
  cbn [dhist set_txh set_outtx]. rewrite wr_app, wr_app, H4s, H4b, H3s, H3b.
  cbn [put_state set_accts dhist]. rewrite Hhsk, Hhbk. split; reflexivity.
Qed.

Lemma cong_apply_txs txs : forall ls lb h bh top fee lbn fee',
  leqv ls lb -> Forall tx_cond txs -> apply_txs cfg lb txs h bh top fee = Ok (lbn, fee') ->
  exists lsn W, apply_txs cfg ls txs h bh top fee = Ok (lsn, fee') /\ leqv lsn lbn /\
    (forall k, In k (map fst W) -> In k (map tx_id txs) \/ k = bh) /\
    dhist lsn = wr W (dhist ls) /\ dhist lbn = wr W (dhist lb).
Proof.
  induction txs as [|t txs IH]; intros ls lb h bh top fee lbn fee' HL Hc H; cbn [apply_txs] in H |- *.
  - injection H as <- <-. exists ls, []. split; [reflexivity|]. split; [exact HL|]. split; [intros k []|split; reflexivity].
  - inversion Hc as [|? ? Hc1 Hc']; subst. bind_inv H. rename a into lb1. guard_inv H.
    destruct (cong_apply_tx ls lb t h bh top lb1 HL Hc1 E) as (ls1 & W1 & Hr1 & HL1 & HW1 & Hs1 & Hb1).
    rewrite Hr1. cbn [bind]. rewrite ?G. cbn [guard bind].
    destruct (IH ls1 lb1 h bh top _ lbn fee' HL1 Hc' H) as (lsn & W2 & Hr2 & HL2 & HW2 & Hs2 & Hb2).
    exists lsn, (W1 ++ W2). split; [exact Hr2|]. split; [exact HL2|]. split.
    { intros k Hin. rewrite map_app in Hin. apply in_app_or in Hin. cbn [map In].
      destruct Hin as [Hin|Hin]; [destruct (HW1 k Hin) as [-> | ->]; [left; left; reflexivity|right; reflexivity]|].
      destruct (HW2 k Hin) as [Hk | ->]; [left; right; exact Hk|right; reflexivity]. }
    rewrite !wr_app, Hs2, Hb2, Hs1, Hb1. split; reflexivity.
Qed.

Variable genesis_addr : N.

Lemma cong_apply_block ls lb b top lb1 :
  leqv ls lb -> Forall tx_cond (lb_txs b) -> apply_block cfg genesis_addr lb b top = Ok lb1 ->
  exists ls1 W, apply_block cfg genesis_addr ls b top = Ok ls1 /\ leqv ls1 lb1 /\
    (forall k, In k (map fst W) -> In k (block_keys b)) /\
    dhist ls1 = wr W (dhist ls) /\ dhist lb1 = wr W (dhist lb).
Proof.
  intros HL Hc H. pose proof HL as HL0. apply leqv_split in HL0. destruct HL0 as (_ & Hd & Hs).
  unfold apply_block in H |- *.
  assert (Hst : forall hv, get_staker ls hv = get_staker lb hv).
  { intros hv. unfold get_staker. rewrite Hd, Hs. reflexivity. }
  rewrite Hst. bind_inv H. cbn [bind]. clear E.
  bind_inv H. match goal with x : (ledger * N)%type |- _ => destruct x as [lbn fee] end.
  guard_inv H. bind_inv H. match goal with x : list sout |- _ => rename x into outs end.
  destruct (cong_apply_txs (lb_txs b) ls lb _ _ top 0 lbn fee HL Hc E) as (lsn & W1 & Hr1 & HL1 & HW1 & Hs1 & Hb1).
  rewrite Hr1. cbn [bind]. rewrite ?G. cbn [guard bind]. rewrite ?E0. cbn [bind].
  destruct (apply_outputs lbn (lb_hash b) outs (lb_hash b)) as [lb2 e] eqn:Eao.
  destruct (cong_outputs outs lsn lbn (lb_hash b) (lb_hash b) lb2 e HL1 Eao) as (ls2 & W2 & Hr2 & HL2 & HW2 & Hs2 & Hb2).
  rewrite Hr2. destruct e as [[u|c|c]|]; try discriminate H. injection H as <-.
  exists ls2, (W1 ++ W2). split; [reflexivity|]. split; [exact HL2|]. split.
  { intros k Hin. rewrite map_app in Hin. apply in_app_or in Hin. cbn [block_keys In].
    destruct Hin as [Hin|Hin]; [destruct (HW1 k Hin) as [Hk | ->]; [right; exact Hk|left; reflexivity]|].
    left. symmetry. apply HW2. exact Hin. }
  rewrite !wr_app, Hs2, Hb2, Hs1, Hb1. split; reflexivity.
Qed.

Lemma cong_apply_chain bs : forall ls lb lbn,
  leqv ls lb -> Forall (fun b => Forall tx_cond (lb_txs b)) bs -> apply_chain cfg genesis_addr lb bs = Ok lbn ->
  exists lsn W, apply_chain cfg genesis_addr ls bs = Ok lsn /\ leqv lsn lbn /\
    (forall k, In k (map fst W) -> In k (chain_keys bs)) /\
    dhist lsn = wr W (dhist ls) /\ dhist lbn = wr W (dhist lb).
Proof.
  induction bs as [|b bs IH]; intros ls lb lbn HL Hc H; cbn [apply_chain] in H |- *.
  - injection H as <-. exists ls, []. split; [reflexivity|]. split; [exact HL|]. split; [intros k []|split; reflexivity].
  - inversion Hc as [|? ? Hc1 Hc']; subst. bind_inv H. rename a into lb1.
    destruct (cong_apply_block ls lb b _ lb1 HL Hc1 E) as (ls1 & W1 & Hr1 & HL1 & HW1 & Hs1 & Hb1).
    rewrite Hr1. cbn [bind].
    destruct (IH ls1 lb1 lbn HL1 Hc' H) as (lsn & W2 & Hr2 & HL2 & HW2 & Hs2 & Hb2).
    exists lsn, (W1 ++ W2). split; [exact Hr2|]. split; [exact HL2|]. split.
    { intros k Hin. rewrite map_app in Hin. apply in_app_or in Hin. cbn [chain_keys flat_map]. apply in_or_app.
      destruct Hin as [Hin|Hin]; [left; apply HW1; exact Hin|right; apply HW2; exact Hin]. }
    rewrite !wr_app, Hs2, Hb2, Hs1, Hb1. split; reflexivity.
Qed.

End Cong.
