(* Accepted byte strings decode to well-formed values, hence re-encoding the decoded value decodes to that same value
   (transaction outputs, transactions of all kinds, account states, delegate records). *)
From Virel Require Import Lib.Config Lib.U64 Model.Des Model.Codec Proofs.Des Proofs.DesSafe Proofs.Codec Proofs.CodecSafe.
Open Scope N_scope.

Lemma safe_result L {A} (m : M A) (P : A -> Prop) c bs v :
  safe L m P c -> blen bs <= L -> result_of (run m bs) = ROk v -> P v.
Proof.
  intros H Hl. specialize (H (init bs) Hl). unfold run. destruct (m (init bs)) as [a s'| |]; cbn; try discriminate.
  intros [= <-]. apply H.
Qed.

Ltac wf_close :=
  repeat (apply andb_true_intro; split);
  first [ apply N.ltb_lt; assumption | apply N.ltb_lt; lia | apply N.eqb_eq; assumption | apply N.eqb_eq; lia
        | apply N.leb_le; lia | assumption | reflexivity ].

Lemma safe_dec_state_wf L : safe L dec_state (fun x => wf_state x = true) 0.
Proof.
  unfold dec_state. repeat sstep; unfold wf_state, u64b; cbn [st_balance st_last_nonce st_last_incoming st_delegate_id];
    wf_close.
Qed.

Theorem state_dec_wf bs x : result_of (run dec_state bs) = ROk x -> wf_state x = true.
Proof. intros H. apply (safe_result (blen bs) dec_state (fun x => wf_state x = true) 0 bs x); [apply safe_dec_state_wf|lia|exact H]. Qed.

Theorem state_reencode bs x :
  result_of (run dec_state bs) = ROk x -> result_of (run dec_state (enc_state x)) = ROk x.
Proof. intros H. apply state_roundtrip. eapply state_dec_wf. exact H. Qed.

Theorem uvarint_reencode bs v :
  result_of (run (x <- read_uvarint ;; ret_err x) bs) = ROk v ->
  result_of (run (x <- read_uvarint ;; ret_err x) (put_uvarint v)) = ROk v.
Proof.
  intros H. apply uvarint_roundtrip.
  apply (safe_result (blen bs) (x <- read_uvarint ;; ret_err x) (fun v => v < two64) 0 bs v); [|lia|exact H].
  repeat sstep. assumption.
Qed.

Section Wf.
Variable cfg : config.
Hypothesis Hok : cfg_ok_codec cfg = true.
Variable L : N.
Hypothesis HL : L < two64.

Lemma safe_dec_output_wf : safe L (dec_output cfg) (fun o => wf_output cfg o = true) 22.
Proof.
  destruct (ok_consts cfg Hok) as (_ & Ha & _). unfold dec_output. rewrite Ha.
  repeat sstep. unfold wf_output, lenb, u64b. cbn [o_recipient o_payment_id o_amount]. rewrite Ha. wf_close.
Qed.

Lemma Forall_forallb {A} (f : A -> bool) l : Forall (fun x => f x = true) l -> forallb f l = true.
Proof. intros H. apply forallb_forall. apply Forall_forall. exact H. Qed.

Lemma safe_dec_transfer_wf :
  safe L (dec_transfer cfg) (fun d => wf_txdata cfg d = true /\ data_version d = 1) (C_TXDATA cfg).
Proof.
  unfold dec_transfer, C_TXDATA. sstep. sstep; [sstep|].
  apply orb_false_elim in Heqb. destruct Heqb as [Hmax Hz]. apply N.ltb_ge in Hmax. apply N.eqb_neq in Hz.
  eapply (safe_bind' _ _ _ _ _ (SZ_OUTPUT * a)); [nia | apply safe_alloc; lia | intros _ _].
  eapply (safe_bind' _ _ _ _ _ (N.of_nat (N.to_nat a) * 22)); [nia | apply safe_rep, safe_dec_output_wf | intros outs [Hall Hlen]].
  sstep. split; [|reflexivity]. cbn [wf_txdata].
  assert (Hb : blen outs = a) by (unfold blen; lia).
  rewrite Hb. rewrite (Forall_forallb _ _ Hall). wf_close.
Qed.

Lemma safe_dec_register_wf : safe L dec_register (fun d => wf_txdata cfg d = true /\ data_version d = 2) 0.
Proof.
  unfold dec_register. repeat sstep. split; [|reflexivity]. cbn [wf_txdata]. unfold u64b. wf_close.
Qed.
Lemma safe_dec_set_delegate_wf : safe L dec_set_delegate (fun d => wf_txdata cfg d = true /\ data_version d = 3) 0.
Proof. unfold dec_set_delegate. repeat sstep. split; [|reflexivity]. cbn [wf_txdata]. unfold u64b. wf_close. Qed.
Lemma safe_dec_stake_wf : safe L dec_stake (fun d => wf_txdata cfg d = true /\ data_version d = 4) 0.
Proof. unfold dec_stake. repeat sstep. split; [|reflexivity]. cbn [wf_txdata]. unfold u64b. wf_close. Qed.
Lemma safe_dec_unstake_wf : safe L dec_unstake (fun d => wf_txdata cfg d = true /\ data_version d = 5) 0.
Proof. unfold dec_unstake. repeat sstep. split; [|reflexivity]. cbn [wf_txdata]. unfold u64b. wf_close. Qed.

Lemma safe_dec_tx_wf hv : safe L (dec_tx cfg hv) (fun t => wf_tx cfg hv t = true) (C_TX cfg).
Proof.
  destruct (ok_consts cfg Hok) as (Hmv & _ & Hp & Hs & _). unfold dec_tx, C_TX. rewrite Hp, Hs, Hmv.
  eapply (safe_bind' _ _ _ (fun ver => if hv then 1 <= ver <= 5 else ver = 0) _ 0); [lia | | intros ver Hver].
  { destruct hv; [|apply safe_ret; reflexivity]. sstep. sstep; [sstep|]. sstep.
    apply orb_false_elim in Heqb. destruct Heqb as [H5 H0]. apply N.ltb_ge in H5. apply N.eqb_neq in H0. lia. }
  do 4 sstep.
  eapply (safe_bind' _ _ _ (fun d => wf_txdata cfg d = true /\ data_version d = (if ver =? 0 then 1 else ver)) _ (C_TXDATA cfg));
    [lia | | intros d [Hd Hdv]].
  { destruct (N.eqb_spec ver 0) as [->|Hn0]; [cbn [orb]; apply safe_dec_transfer_wf|].
    cbn [orb].
    destruct (N.eqb_spec ver 1) as [->|Hn1]; [apply safe_dec_transfer_wf|].
    destruct (N.eqb_spec ver 2) as [->|Hn2]; [eapply safe_weaken; [apply safe_dec_register_wf|auto|lia]|].
    destruct (N.eqb_spec ver 3) as [->|Hn3]; [eapply safe_weaken; [apply safe_dec_set_delegate_wf|auto|lia]|].
    destruct (N.eqb_spec ver 4) as [->|Hn4]; [eapply safe_weaken; [apply safe_dec_stake_wf|auto|lia]|].
    destruct (N.eqb_spec ver 5) as [->|Hn5]; [eapply safe_weaken; [apply safe_dec_unstake_wf|auto|lia]|].
    apply safe_fail. }
  do 2 sstep. sstep.
  unfold wf_tx, lenb, u64b. cbn [tx_version tx_signer tx_signature tx_data tx_nonce tx_fee]. rewrite Hp, Hs, Hd.
  destruct hv.
  - replace (ver =? 0) with false in Hdv by eqb_false. rewrite Hdv. rewrite N.eqb_refl. wf_close.
  - subst ver. cbn [N.eqb] in Hdv. destruct d; cbn in Hdv; try discriminate. wf_close.
Qed.

Lemma safe_dec_fund_wf : safe L (dec_fund cfg) (fun f => wf_fund cfg f = true) (SZ_FUND + 22).
Proof.
  destruct (ok_consts cfg Hok) as (_ & Ha & _). unfold dec_fund. rewrite Ha.
  eapply (safe_bind' _ _ _ _ _ SZ_FUND); [lia | apply safe_alloc; lia | intros _ _].
  repeat sstep. unfold wf_fund, lenb, u64b. cbn [f_owner f_amount f_unlock]. rewrite Ha. wf_close.
Qed.

Lemma safe_dec_delegate_wf : safe L (dec_delegate cfg) (fun g => wf_delegate cfg g = true) (C_DELEGATE L).
Proof.
  destruct (ok_consts cfg Hok) as (_ & _ & Hp & _). unfold dec_delegate, C_DELEGATE, read_byte_slice. rewrite Hp.
  sstep. sstep; [sstep|]. do 6 sstep. sstep; [sstep|].
  apply N.ltb_ge in Heqb0.
  assert (Hnf : a4 <= L / 20).
  { eapply N.le_trans; [exact Heqb0|]. apply N.div_le_mono; [discriminate|assumption]. }
  clear Heqb0. generalize dependent (L / 20). intros q Hq.
  eapply (safe_bind' _ _ _ _ _ (SZ_PTR * a4)); [unfold SZ_PTR, SZ_FUND in *; nia | apply safe_alloc; lia | intros _ _].
  eapply (safe_bind' _ _ _ _ _ (N.of_nat (N.to_nat a4) * (SZ_FUND + 22))); [unfold SZ_PTR, SZ_FUND in *; nia | apply safe_rep, safe_dec_fund_wf | intros funds [Hall Hlen]].
  sstep. unfold wf_delegate, lenb, u64b. cbn [dg_id dg_owner dg_name dg_funds]. rewrite Hp.
  assert (Hb : blen funds = a4) by (unfold blen; lia).
  rewrite Hb. rewrite (Forall_forallb _ _ Hall). wf_close.
Qed.

End Wf.

Section Reencode.
Variable cfg : config.
Hypothesis Hok : cfg_ok_codec cfg = true.

Theorem tx_dec_wf hv bs t : blen bs < two64 -> result_of (run (dec_tx cfg hv) bs) = ROk t -> wf_tx cfg hv t = true.
Proof.
  intros Hl H. apply (safe_result (blen bs) (dec_tx cfg hv) (fun t => wf_tx cfg hv t = true) (C_TX cfg) bs t);
    [apply safe_dec_tx_wf; assumption|lia|exact H].
Qed.

Theorem tx_reencode hv bs t : blen bs < two64 ->
  result_of (run (dec_tx cfg hv) bs) = ROk t -> result_of (run (dec_tx cfg hv) (enc_tx t)) = ROk t.
Proof. intros Hl H. apply tx_roundtrip; [exact Hok|]. eapply tx_dec_wf; eassumption. Qed.

Theorem delegate_dec_wf bs g : blen bs < two64 -> result_of (run (dec_delegate cfg) bs) = ROk g -> wf_delegate cfg g = true.
Proof.
  intros Hl H. apply (safe_result (blen bs) (dec_delegate cfg) (fun g => wf_delegate cfg g = true) (C_DELEGATE (blen bs)) bs g);
    [apply safe_dec_delegate_wf; assumption|lia|exact H].
Qed.

Theorem delegate_reencode bs g : blen bs < two64 ->
  result_of (run (dec_delegate cfg) bs) = ROk g -> result_of (run (dec_delegate cfg) (enc_delegate g)) = ROk g.
Proof. intros Hl H. apply delegate_roundtrip; [exact Hok|]. eapply delegate_dec_wf; eassumption. Qed.

Theorem output_reencode bs o : blen bs < two64 ->
  result_of (run (dec_output cfg) bs) = ROk o -> result_of (run (dec_output cfg) (enc_output o)) = ROk o.
Proof.
  intros Hl H. apply output_roundtrip.
  apply (safe_result (blen bs) (dec_output cfg) (fun o => wf_output cfg o = true) 22 bs o); [|lia|exact H].
  apply safe_dec_output_wf; assumption.
Qed.
End Reencode.
