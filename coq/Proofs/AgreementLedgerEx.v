(* Non-vacuity of the ledger half of agreement (Proofs/AgreementLedger.v): the five blocks of the reorganising history of
   Proofs/ChainExamples.v delivered in two orders.  Node 1 receives A1, A2, A3, B, D: it follows G-A1-A2-A3 and reorganises
   to the heavier G-B-D (three blocks disconnected, two connected).  Node 2 receives B, D, A1, A2, A3: it follows G-B-D from
   the start and files the A blocks as an alternative branch; it never reorganises.  Both store the same six blocks, D is
   the only block of cumulative difficulty 14, and every premise of the theorem holds: same tip, same main chain [B; D],
   same accounts, delegate table and staked total - the ledger of node 1 went through the undo of three blocks, the one
   of node 2 did not. *)
From Virel Require Import Lib.Config Lib.U64 Lib.AMap Model.Emission Model.Ledger Model.Node Spec.Chain
  Proofs.AMapLemmas Proofs.Emission Proofs.Conservation Proofs.Pointwise Proofs.ForkChoice Proofs.ChainInv Proofs.ChainExamples
  Proofs.Refine2 Proofs.Replay1 Proofs.Replay2 Proofs.Replay3 Proofs.Replay4 Proofs.Replay5 Proofs.Replay6
  Proofs.AgreementLedger Gen.Params.
Open Scope N_scope.

(* the same deliveries, the two blocks of the heavier chain first *)
Definition sr_ops_perm : list (block * N) := skipn 3 sr_ops ++ firstn 3 sr_ops.
Definition ex_n_perm : node := Eval vm_compute in run cfg_verifnet 7 0 ex_n0 sr_ops_perm.
Lemma ex_n_perm_eq : run cfg_verifnet 7 0 ex_n0 sr_ops_perm = ex_n_perm. Proof. vm_compute. reflexivity. Qed.

Theorem agreement_ledger_example :
  let n1 := run cfg_verifnet 7 0 ex_n0 sr_ops in
  let n2 := run cfg_verifnet 7 0 ex_n0 sr_ops_perm in
  (* the premises *)
  node0 cfg_verifnet 7 w_genesis = Ok ex_n0 /\
  cfg_ok_emission cfg_verifnet = true /\ cfg_ok_feepos cfg_verifnet = true /\
  b_height w_genesis = 0 /\ b_cd w_genesis = b_diff w_genesis /\
  N.of_nat (length sr_ops) < two64 - 1 /\ N.of_nat (length sr_ops_perm) < two64 - 1 /\
  Forall (tx_c cfg_verifnet) (b_txs w_genesis) /\
  (forall h b, get_block n1 h = Some b -> Forall (fun t => wf_tx cfg_verifnet t /\ ver_ok t = true) (b_txs b)) /\
  (forall bs, up (b_hash w_genesis) (blocks n1) (b_hash w_genesis) bs ->
     NoDup (bkeys w_genesis ++ flat_map bkeys bs) /\ c0 w_genesis + bnouts bs < two64 /\ c0 w_genesis + bntx bs < two64) /\
  (forall h, get_block n1 h = get_block n2 h) /\
  (forall h h' b b', get_block n1 h = Some b -> get_block n1 h' = Some b' ->
                     b_cd b = top_cd n1 -> b_cd b' = top_cd n1 -> h = h') /\
  (* the two nodes took different routes and hold their blocks in different orders *)
  map fst (blocks n1) = [1; 2; 3; 8; 4; 6] /\ map fst (blocks n2) = [1; 4; 6; 2; 3; 8] /\
  top (run cfg_verifnet 7 0 ex_n0 (firstn 4 sr_ops)) = 8 /\ top (run cfg_verifnet 7 0 ex_n0 (firstn 4 sr_ops_perm)) = 6 /\
  tips n1 = [(8, mktip 8 3 11)] /\ tips n2 = [(8, mktip 8 3 11)] /\
  (* the conclusion *)
  top n1 = 6 /\ top n2 = 6 /\ top_h n1 = 2 /\ top_h n2 = 2 /\ map b_hash (mchain n1) = [4; 6] /\
  top n1 = top n2 /\ top_h n1 = top_h n2 /\ top_cd n1 = top_cd n2 /\ mchain n1 = mchain n2 /\
  same_accounts (ldg n1) (ldg n2) /\ dlgs (ldg n1) = dlgs (ldg n2) /\ staked (ldg n1) = staked (ldg n2).
Proof.
  destruct replay_premises_satisfiable as (H0 & H). cbn zeta in H.
  destruct H as (Hok & Hfp & Hg0 & Hcd & Hlen & Hgen & Htyped & Hpaths & Hm & _).
  assert (Hlen2 : N.of_nat (length sr_ops_perm) < two64 - 1) by (vm_compute; reflexivity).
  assert (Hsame : forall h, get_block (run cfg_verifnet 7 0 ex_n0 sr_ops) h = get_block (run cfg_verifnet 7 0 ex_n0 sr_ops_perm) h).
  { rewrite ex_n_eq, ex_n_perm_eq. unfold get_block. apply nget_ext_keys. intros k Hin.
    vm_compute in Hin. repeat (destruct Hin as [<-|Hin]; [vm_compute; reflexivity|]). destruct Hin. }
  assert (Huniq : forall h h' b b',
            get_block (run cfg_verifnet 7 0 ex_n0 sr_ops) h = Some b -> get_block (run cfg_verifnet 7 0 ex_n0 sr_ops) h' = Some b' ->
            b_cd b = top_cd (run cfg_verifnet 7 0 ex_n0 sr_ops) -> b_cd b' = top_cd (run cfg_verifnet 7 0 ex_n0 sr_ops) -> h = h').
  { rewrite ex_n_eq. unfold get_block. intros h h' b b' Hb Hb' Hc Hc'.
    assert (Hall : forall k v, In (k, v) (blocks ex_n) -> b_cd v = top_cd ex_n -> k = 6).
    { intros k v Hin Hv. vm_compute in Hin.
      repeat (destruct Hin as [Hin|Hin]; [injection Hin as <- <-; vm_compute in Hv; try discriminate Hv; try reflexivity|]).
      destruct Hin. }
    rewrite (Hall h b (nget_in _ _ _ Hb) Hc), (Hall h' b' (nget_in _ _ _ Hb') Hc'). reflexivity. }
  cbn zeta.
  split; [exact H0|]. split; [exact Hok|]. split; [exact Hfp|]. split; [exact Hg0|]. split; [exact Hcd|].
  split; [exact Hlen|]. split; [exact Hlen2|]. split; [exact Hgen|]. split; [exact Htyped|]. split; [exact Hpaths|].
  split; [exact Hsame|]. split; [exact Huniq|].
  split; [vm_compute; reflexivity|]. split; [vm_compute; reflexivity|]. split; [vm_compute; reflexivity|].
  split; [vm_compute; reflexivity|]. split; [vm_compute; reflexivity|]. split; [vm_compute; reflexivity|].
  split; [vm_compute; reflexivity|]. split; [vm_compute; reflexivity|]. split; [vm_compute; reflexivity|].
  split; [vm_compute; reflexivity|]. split; [exact Hm|].
  exact (agreement_ledger cfg_verifnet 7 0 w_genesis ex_n0 sr_ops sr_ops_perm Hok Hfp H0 Hg0 Hcd Hlen Hlen2
           Hgen Htyped Hpaths Hsame Huniq).
Qed.
