(* Property C09, simulation part: (1) the hypotheses of the general theorem hold together on a scenario with earlier
   entries of all five kinds by two signers (non-vacuity); (2) the simulation is sound but not complete: after a pending
   unstake that empties a fund the mempool refuses transactions of the same signer that the ledger applies. *)
From Coq Require Import Sorting.Sorted.
From Virel Require Import Lib.Config Lib.U64 Lib.AMap Lib.CheckLib Model.Emission Model.Ledger Model.Node Model.Mempool
  Proofs.AMapLemmas Proofs.Conservation Proofs.Staking Proofs.StakedSum Proofs.Mempool Proofs.Mempool2 Proofs.MempoolPot
  Proofs.Mempool3 Proofs.Mempool4 Gen.Params.
Open Scope N_scope.
Open Scope bool_scope.

(* the ledger of the witnesses of Proofs/Mempool.v: key 1 = address 3 (delegate 2, fund of 5 000 000 000 unlocking at 7 in
   pool 2), key 2 = address 5 (no delegate), pool 2 = address 4 *)
Lemma wit_ledger_linv : linv (wit_ledger 2 0).
Proof.
  split; [|split].
  - split; [|split; [|split]].
    + constructor; [constructor|constructor].
    + constructor; [reflexivity|constructor].
    + vm_compute. reflexivity.
    + vm_compute. reflexivity.
  - intros id d Hg. unfold get_dlg, wit_ledger, nget in Hg. cbn [dlgs aget] in Hg.
    destruct (id =? 2); [|discriminate Hg]. injection Hg as <-. cbn. constructor; [intros []|constructor].
  - reflexivity.
Qed.

Lemma wit_ledger_bound : staked (wit_ledger 2 0) + total_bal (wit_ledger 2 0) < two64.
Proof. vm_compute. reflexivity. Qed.

(* earlier entries, at height 10: key 2 registers pool 3, moves to it, stakes into it; key 1 unstakes a part, pays three
   recipients (key 2, the pool address 4, a new address), restakes; then key 2 stakes again, naming the unlock height its
   own pending stake will have written (9 + 3) *)
Definition k_reg : tx := mktx 201 2 2 2 true false (TRegister 4 77 3) 1 (wfee (16 + 4)).
Definition k_setd : tx := mktx 202 3 2 2 true false (TSetDelegate 3 0) 2 (wfee (max_tx_per_block cfg_verifnet)).
Definition k_stake2 : tx := mktx 203 4 2 2 true false (TStake 2000000000 3 0) 3 (wfee 256).
Definition k_unst1 : tx := mktx 204 5 1 1 true false (TUnstake 2000000000 2) 1 (wfee 8).
Definition k_xfer1 : tx :=
  mktx 205 1 1 1 true false (TTransfer [(5, 1000); (4, 2000); (9, 3000)]) 2 (wfee (3 * output_overhead cfg_verifnet)).
Definition k_stake1 : tx := mktx 206 4 1 1 true false (TStake 1000000000 2 7) 3 (wfee 256).
Definition k_ts : list tx := [k_reg; k_setd; k_stake2; k_unst1; k_xfer1; k_stake1].
Definition k_t : tx := mktx 208 4 2 2 true false (TStake 500000000 3 12) 4 (wfee 256).

Ltac adm_tac :=
  split; [split; [reflexivity|split; [|split; [vm_compute; discriminate|intros nl nm Hd; discriminate Hd]]]|vm_compute; discriminate];
  (split; [vm_compute; reflexivity|split; [|vm_compute; reflexivity]]).

Lemma k_good t : In t (k_t :: k_ts) -> tx_adm cfg_verifnet t.
Proof.
  intros Hin. cbn [In k_ts] in Hin.
  destruct Hin as [<-|[<-|[<-|[<-|[<-|[<-|[<-|[]]]]]]]]; adm_tac;
    first [exact I|solve [repeat constructor]].
Qed.

(* every hypothesis of [simulation_sound_all_kinds] holds on this scenario (and so does its conclusion) *)
Lemma all_kinds_nonvacuous :
  exists es l1,
    0 < 10 < two64 /\ Forall (tx_good cfg_verifnet) k_ts /\ NoDup (map tx_id k_ts) /\
    entries_of cfg_verifnet k_ts = Ok es /\ apply_all cfg_verifnet (wit_ledger 2 0) k_ts 10 = Ok l1 /\
    linv (wit_ledger 2 0) /\ staked (wit_ledger 2 0) + total_bal (wit_ledger 2 0) < two64 /\
    tx_typed k_t /\ wf_tx cfg_verifnet k_t /\ tx_vsize cfg_verifnet k_t <= max_tx_size cfg_verifnet /\
    validate_mempool_tx cfg_verifnet false (wit_ledger 2 0) (store_of k_ts) k_t es 10 = Ok tt /\
    exists l2, apply_tx cfg_verifnet l1 k_t 10 0 (10 - 1) = Ok l2.
Proof.
  destruct (entries_of cfg_verifnet k_ts) as [es| |] eqn:Ee; [|vm_compute in Ee; discriminate|vm_compute in Ee; discriminate].
  destruct (apply_all cfg_verifnet (wit_ledger 2 0) k_ts 10) as [l1| |] eqn:Ea; [|vm_compute in Ea; discriminate|vm_compute in Ea; discriminate].
  exists es, l1.
  assert (Hall : Forall (tx_good cfg_verifnet) k_ts).
  { apply Forall_forall. intros t Hin. exact (proj1 (k_good t (or_intror Hin))). }
  assert (Hnd : NoDup (map tx_id k_ts)).
  { cbn. repeat (constructor; [cbn; intros Hx; repeat (destruct Hx as [Hx|Hx]; [discriminate Hx|]); exact Hx|]). constructor. }
  assert (Hv : validate_mempool_tx cfg_verifnet false (wit_ledger 2 0) (store_of k_ts) k_t es 10 = Ok tt).
  { vm_compute in Ee. injection Ee as <-. vm_compute. reflexivity. }
  destruct (k_good k_t (or_introl eq_refl)) as [(Hty & Hwf & _) Hvs].
  split; [split; reflexivity|]. split; [exact Hall|]. split; [exact Hnd|]. split; [reflexivity|]. split; [reflexivity|].
  split; [exact wit_ledger_linv|]. split; [exact wit_ledger_bound|]. split; [exact Hty|]. split; [exact Hwf|].
  split; [exact Hvs|]. split; [exact Hv|].
  exact (simulation_sound_all_kinds cfg_verifnet ltac:(vm_compute; reflexivity) (wit_ledger 2 0) k_ts es k_t 10 l1
           ltac:(split; reflexivity) Hall Hnd Ee Ea wit_ledger_linv wit_ledger_bound Hty Hwf Hvs Hv).
Qed.

(* ---- sound, not complete ---- *)
(* key 1 unstakes its whole fund (pending); then (a) a change of delegate, (b) a new stake naming prev_unlock = 0 are
   applied by the ledger (the emptied fund is dropped) but refused by validateMempoolTx (the emptied fund stays in the
   simulated pool: codes 925, 916); (c) the stake naming the dropped fund's unlock height passes both *)
Definition g_unst : tx := mktx 301 5 1 1 true false (TUnstake 5000000000 2) 1 (wfee 8).
Definition g_setd : tx := mktx 302 3 1 1 true false (TSetDelegate 2 2) 2 (wfee (max_tx_per_block cfg_verifnet)).
Definition g_stake (pu : N) : tx := mktx 303 4 1 1 true false (TStake 1000000000 2 pu) 2 (wfee 256).

Lemma simulation_not_complete :
  exists es l1, entries_of cfg_verifnet [g_unst] = Ok es /\ apply_all cfg_verifnet (wit_ledger 2 0) [g_unst] 10 = Ok l1 /\
    validate_mempool_tx cfg_verifnet false (wit_ledger 2 0) (store_of [g_unst]) g_setd es 10 = Err 925 /\
    (exists l2, apply_tx cfg_verifnet l1 g_setd 10 0 (10 - 1) = Ok l2) /\
    validate_mempool_tx cfg_verifnet false (wit_ledger 2 0) (store_of [g_unst]) (g_stake 0) es 10 = Err 916 /\
    (exists l2, apply_tx cfg_verifnet l1 (g_stake 0) 10 0 (10 - 1) = Ok l2) /\
    validate_mempool_tx cfg_verifnet false (wit_ledger 2 0) (store_of [g_unst]) (g_stake 7) es 10 = Ok tt /\
    (exists l2, apply_tx cfg_verifnet l1 (g_stake 7) 10 0 (10 - 1) = Ok l2).
Proof.
  destruct (entries_of cfg_verifnet [g_unst]) as [es| |] eqn:Ee; [|vm_compute in Ee; discriminate|vm_compute in Ee; discriminate].
  destruct (apply_all cfg_verifnet (wit_ledger 2 0) [g_unst] 10) as [l1| |] eqn:Ea; [|vm_compute in Ea; discriminate|vm_compute in Ea; discriminate].
  exists es, l1. vm_compute in Ee. injection Ee as <-. vm_compute in Ea. injection Ea as <-.
  repeat split; try (vm_compute; reflexivity); eexists; vm_compute; reflexivity.
Qed.
