(* Proofs about the wallet model (property C19). *)
From Virel Require Import Lib.Config Lib.U64 Model.Ledger Model.Wallet.
Open Scope N_scope.
Open Scope bool_scope.

(* ================================================================== mnemonic *)
Section MnemonicProofs.
Variables entropy mnemonic key address : Type.
Variable mnemonic_of : entropy -> mnemonic.
Variable entropy_of : mnemonic -> option entropy.
Variable derive : entropy -> key.
Variable address_of : key -> address.
(* the law of the BIP-39 library: decoding an encoded entropy gives it back *)
Hypothesis bip39_roundtrip : forall e, entropy_of (mnemonic_of e) = Some e.

Notation create := (create_wallet entropy mnemonic key address mnemonic_of derive address_of).
Notation restore := (restore_wallet entropy mnemonic key address entropy_of derive address_of).

Lemma restore_same_key_l : forall e, restore (fst (fst (create e))) = Ok (create e).
Proof.
  intros e. unfold create_wallet, restore_wallet, decode_mnemonic, new_mnemonic. cbn.
  rewrite bip39_roundtrip. reflexivity.
Qed.

(* a word sequence the library refuses is refused by the wallet: no key is made up *)
Lemma restore_invalid_l : forall m, entropy_of m = None -> restore m = Err 701.
Proof. intros m H. unfold restore_wallet, decode_mnemonic. rewrite H. reflexivity. Qed.
End MnemonicProofs.

(* ================================================================== wallet file *)
Lemma kdfkey_eqb_eq a b : kdfkey_eqb a b = true <-> a = b.
Proof.
  destruct a as [p s t m], b as [p' s' t' m']. unfold kdfkey_eqb.
  rewrite !Bool.andb_true_iff, !N.eqb_eq. split.
  - intros [[[-> ->] ->] ->]. reflexivity.
  - intros [= -> -> -> ->]. tauto.
Qed.

Lemma kdfkey_eqb_refl a : kdfkey_eqb a a = true.
Proof. apply kdfkey_eqb_eq. reflexivity. Qed.

Lemma params_ok_facts t m : params_ok t m = true <->
  1 <= t /\ t <= kdf_time_max /\ m <= kdf_mem_max /\ t * m <= kdf_cost_max.
Proof. unfold params_ok. rewrite !Bool.andb_true_iff, !N.leb_le. tauto. Qed.

Lemma writer_params_ok_l :
  params_ok (fst kdf_default) (snd kdf_default) = true /\ params_ok (fst kdf_fast) (snd kdf_fast) = true.
Proof. split; vm_compute; reflexivity. Qed.

Ltac sw := cbn [open_wallet open_wallet_unchecked bind guard aead_open].

Section FileProofs.
Variable avail : N.
(* the process can allocate what the accepted parameters may ask for *)
Hypothesis Havail : kdf_mem_max <= avail.

Lemma kdf_ok pw s t m : params_ok t m = true -> kdf avail pw s t m = Ok (Kdf pw s t m).
Proof.
  intros H. apply params_ok_facts in H. destruct H as (H1 & _ & H3 & _). unfold kdf.
  destruct (N.eqb_spec t 0) as [E|_]; [lia|].
  destruct (N.ltb_spec avail m) as [E|_]; [lia|]. reflexivity.
Qed.

(* characterisation: a file opens with a password exactly when its parameters are within the bounds and its
   ciphertext was sealed under the key derived from that password, this salt and these parameters *)
Lemma open_ok_iff_l f pw key :
  open_wallet avail f pw = Ok key <->
  exists s t m n, f = WFile s t m (Sealed (Kdf pw s t m) n key) /\ params_ok t m = true.
Proof.
  split.
  - destruct f as [|s t m c]; sw; [discriminate|].
    destruct (params_ok t m) eqn:P; sw; [|discriminate].
    rewrite (kdf_ok pw s t m P). sw.
    destruct c as [k n payload|]; sw; [|discriminate].
    destruct (kdfkey_eqb (Kdf pw s t m) k) eqn:E; [|discriminate].
    apply kdfkey_eqb_eq in E. subst k. intros [= ->]. exists s, t, m, n. split; [reflexivity|exact P].
  - intros (s & t & m & n & -> & P). sw. rewrite P. sw. rewrite (kdf_ok pw s t m P). sw.
    rewrite kdfkey_eqb_refl. reflexivity.
Qed.

Lemma open_never_panics_l f pw c : open_wallet avail f pw <> Panic c.
Proof.
  destruct f as [|s t m ct]; sw; [discriminate|].
  destruct (params_ok t m) eqn:P; sw; [|discriminate].
  rewrite (kdf_ok pw s t m P). sw. destruct (aead_open (Kdf pw s t m) ct); discriminate.
Qed.

Lemma open_result f pw : (exists k, open_wallet avail f pw = Ok k) \/ (exists c, open_wallet avail f pw = Err c).
Proof.
  destruct (open_wallet avail f pw) as [k|c|c] eqn:E.
  - left. exists k. reflexivity.
  - right. exists c. reflexivity.
  - exfalso. exact (open_never_panics_l f pw c E).
Qed.

Lemma save_then_open_l key pw s t m n :
  params_ok t m = true ->
  save_wallet avail key pw s t m n = Ok (WFile s t m (Sealed (Kdf pw s t m) n key)) /\
  open_wallet avail (WFile s t m (Sealed (Kdf pw s t m) n key)) pw = Ok key.
Proof.
  intros P. split.
  - unfold save_wallet. rewrite (kdf_ok pw s t m P). reflexivity.
  - apply open_ok_iff_l. exists s, t, m, n. split; [reflexivity|exact P].
Qed.

(* [f'] is what is left of the file after any corruption that does not forge a ciphertext: the header fields are
   arbitrary, the ciphertext is the original byte string or something the AEAD did not produce; or fewer than 24 bytes *)
Definition corruption_of (c0 : ctext) (f' : wfile) : Prop :=
  f' = WShort \/ exists s' t' m' c', f' = WFile s' t' m' c' /\ (c' = c0 \/ c' = Junk).

Lemma file_opens_only_with_password_l key pw s t m n :
  params_ok t m = true ->
  let c0 := Sealed (Kdf pw s t m) n key in
  open_wallet avail (WFile s t m c0) pw = Ok key /\
  forall f' pw', corruption_of c0 f' ->
    (pw' = pw /\ f' = WFile s t m c0 /\ open_wallet avail f' pw' = Ok key) \/
    ((pw' <> pw \/ f' <> WFile s t m c0) /\ exists code, open_wallet avail f' pw' = Err code).
Proof.
  intros P c0. split; [apply save_then_open_l; exact P|].
  intros f' pw' Hc.
  destruct (open_result f' pw') as [[k Hk]|[c Hcode]].
  - left. apply open_ok_iff_l in Hk. destruct Hk as (s' & t' & m' & n' & -> & P').
    destruct Hc as [Hc|(s2 & t2 & m2 & c2 & E & [Hc|Hc])]; [discriminate| |].
    + injection E as -> -> -> <-. unfold c0 in Hc. injection Hc as -> -> -> -> -> ->.
      split; [reflexivity|]. split; [reflexivity|]. apply save_then_open_l; exact P.
    + injection E as _ _ _ <-. discriminate.
  - right. split; [|exists c; exact Hcode].
    destruct (N.eq_dec pw' pw) as [->|Hne]; [|left; exact Hne].
    right. intros ->. unfold c0 in Hcode.
    destruct (save_then_open_l key pw s t m n P) as [_ Ho]. rewrite Ho in Hcode. discriminate.
Qed.

Lemma file_header_no_panic_l f pw :
  (forall c, open_wallet avail f pw <> Panic c) /\
  ((exists c, open_wallet avail f pw = Err c) \/
   exists s t m ct, f = WFile s t m ct /\ 1 <= t /\ t <= kdf_time_max /\ m <= kdf_mem_max /\ t * m <= kdf_cost_max).
Proof.
  split; [intros c; apply open_never_panics_l|].
  destruct f as [|s t m ct]; [left; exists 611; reflexivity|].
  destruct (params_ok t m) eqn:P.
  - right. exists s, t, m, ct. split; [reflexivity|]. apply params_ok_facts. exact P.
  - left. exists 612. sw. rewrite P. reflexivity.
Qed.
End FileProofs.

(* what R15 was: without the guard, headers exist on which the call panics or the process runs out of memory *)
Lemma unchecked_open_panics_l avail :
  (forall s m c pw, open_wallet_unchecked avail (WFile s 0 m c) pw = Panic 601) /\
  (forall s t m c pw, t <> 0 -> avail < m -> open_wallet_unchecked avail (WFile s t m c) pw = Panic 602).
Proof.
  split.
  - intros. reflexivity.
  - intros s t m c pw Ht Hm. sw. unfold kdf.
    destruct (N.eqb_spec t 0) as [E|_]; [contradiction|].
    destruct (N.ltb_spec avail m) as [_|E]; [reflexivity|lia].
Qed.

(* ---- byte level of the header ---- *)
Definition is_byte (x : N) : Prop := x < 256.

Lemma le_num_inj : forall a b, length a = length b -> Forall is_byte a -> Forall is_byte b ->
  le_num a = le_num b -> a = b.
Proof.
  induction a as [|x a IH]; intros [|y b] Hl Ha Hb E; try discriminate; [reflexivity|].
  inversion Ha as [|? ? Hx Ha']; inversion Hb as [|? ? Hy Hb']; subst. unfold is_byte in Hx, Hy.
  cbn [le_num] in E. injection Hl as Hl.
  assert (x = y /\ le_num a = le_num b) as [-> E'] by lia.
  f_equal. apply IH; assumption.
Qed.

Lemma wfile_inj s t m c s' t' m' c' : WFile s t m c = WFile s' t' m' c' -> s = s' /\ t = t' /\ m = m' /\ c = c'.
Proof. intros [= -> -> -> ->]. repeat split. Qed.

(* the 24 header bytes determine (salt, time, memory) and are determined by them: any changed byte changes a field *)
Lemma header_bytes_injective_l : forall h h' len len' c c',
  length h = 24%nat -> length h' = 24%nat -> Forall is_byte h -> Forall is_byte h' -> 24 <= len -> 24 <= len' ->
  parse_file h len c = parse_file h' len' c' -> h = h' /\ c = c'.
Proof.
  intros h h' len len' c c' Hl Hl' Hb Hb' Hn Hn'.
  do 25 (destruct h as [|? h]; try discriminate Hl).
  do 25 (destruct h' as [|? h']; try discriminate Hl').
  unfold parse_file.
  destruct (N.ltb_spec len 24) as [E|_]; [lia|]. destruct (N.ltb_spec len' 24) as [E|_]; [lia|].
  cbn [length orb]. change (N.of_nat 24 <? 24) with false. cbn iota.
  unfold hdr_salt, hdr_time, hdr_mem. cbn [firstn skipn].
  repeat match goal with H : Forall _ (_ :: _) |- _ => inversion H; clear H; subst end.
  intros E. apply wfile_inj in E. destruct E as (E1 & E2 & E3 & ->).
  apply le_num_inj in E1; [|reflexivity|repeat constructor; assumption|repeat constructor; assumption].
  apply le_num_inj in E2; [|reflexivity|repeat constructor; assumption|repeat constructor; assumption].
  apply le_num_inj in E3; [|reflexivity|repeat constructor; assumption|repeat constructor; assumption].
  injection E1 as -> -> -> -> -> -> -> -> -> -> -> -> -> -> -> ->.
  injection E2 as -> -> -> ->. injection E3 as -> -> -> ->. split; reflexivity.
Qed.

Lemma parse_file_long h len c : length h = 24%nat -> 24 <= len ->
  parse_file h len c = WFile (hdr_salt h) (hdr_time h) (hdr_mem h) c.
Proof.
  intros Hl Hn. unfold parse_file. rewrite Hl.
  destruct (N.ltb_spec len 24) as [E|_]; [lia|]. reflexivity.
Qed.

Lemma parse_file_short h len c : len < 24 -> parse_file h len c = WShort.
Proof. intros Hn. unfold parse_file. destruct (N.ltb_spec len 24) as [_|E]; [reflexivity|lia]. Qed.

Section FileBytes.
Variable avail : N.
Hypothesis Havail : kdf_mem_max <= avail.

(* byte level: the file is header bytes ++ ciphertext.  Every change of any of the 24 header bytes, of the password
   or of the ciphertext, and every truncation below the header, is an error; only the untouched file opens *)
Lemma file_bytes_l key pw n h flen :
  length h = 24%nat -> Forall is_byte h -> 24 <= flen -> params_ok (hdr_time h) (hdr_mem h) = true ->
  let c0 := Sealed (Kdf pw (hdr_salt h) (hdr_time h) (hdr_mem h)) n key in
  open_wallet avail (parse_file h flen c0) pw = Ok key /\
  forall h' flen' c' pw', Forall is_byte h' -> (c' = c0 \/ c' = Junk) -> (flen' < 24 \/ length h' = 24%nat) ->
    (24 <= flen' /\ pw' = pw /\ h' = h /\ c' = c0 /\ open_wallet avail (parse_file h' flen' c') pw' = Ok key) \/
    ((flen' < 24 \/ pw' <> pw \/ h' <> h \/ c' <> c0) /\ exists code, open_wallet avail (parse_file h' flen' c') pw' = Err code).
Proof.
  intros Hl Hb Hn P c0.
  destruct (file_opens_only_with_password_l avail Havail key pw (hdr_salt h) (hdr_time h) (hdr_mem h) n P) as [Hopen Hall].
  fold c0 in Hopen, Hall.
  split; [rewrite parse_file_long by assumption; exact Hopen|].
  intros h' flen' c' pw' Hb' Hc' Hlen'.
  destruct (N.lt_ge_cases flen' 24) as [Hs|Hge].
  - right. split; [left; exact Hs|]. rewrite parse_file_short by exact Hs. exists 611. reflexivity.
  - destruct Hlen' as [Hs|Hl']; [lia|].
    rewrite (parse_file_long h' flen' c' Hl' Hge).
    destruct (Hall (WFile (hdr_salt h') (hdr_time h') (hdr_mem h') c') pw') as [(Hp & Hf & Ho)|(Hd & Herr)].
    + right. exists (hdr_salt h'), (hdr_time h'), (hdr_mem h'), c'. split; [reflexivity|exact Hc'].
    + left. rewrite <- (parse_file_long h' flen' c' Hl' Hge) in Hf.
      rewrite <- (parse_file_long h flen c0 Hl Hn) in Hf.
      destruct (header_bytes_injective_l h' h flen' flen c' c0 Hl' Hl Hb' Hb Hge Hn Hf) as [-> ->].
      repeat split; try assumption; reflexivity.
    + right. split; [|exact Herr]. right.
      destruct Hd as [Hd|Hd]; [left; exact Hd|right].
      destruct (list_eq_dec N.eq_dec h' h) as [->|Hne]; [|left; exact Hne].
      right. intros ->. apply Hd. reflexivity.
Qed.
End FileBytes.

(* ================================================================== transaction builders *)

(* Boolean side condition on the configuration; discharged by vm_compute at every generated config. *)
Definition cfg_ok_wallet (cfg : config) : bool :=
  (hf_v2 cfg <=? hf_v3 cfg) && (fee_per_byte cfg <=? fee_per_byte_v2 cfg) &&
  (fee_per_byte_v2 cfg * max_tx_size cfg <? two64) &&
  (base_overhead cfg + max_outputs cfg * output_overhead cfg <=? max_tx_size cfg) &&
  (base_overhead cfg + 32 <=? max_tx_size cfg) &&
  (base_overhead cfg + max_tx_per_block cfg <=? max_tx_size cfg) &&
  (base_overhead cfg + 256 <=? max_tx_size cfg) &&
  (register_burn cfg <? two64).

(* ---- merging of outputs with the same destination ---- *)
Lemma absorb_spec : forall r o,
  wo_rcpt (fst (absorb o r)) = wo_rcpt o /\ wo_pid (fst (absorb o r)) = wo_pid o /\
  (length (snd (absorb o r)) <= length r)%nat /\
  (wo_amt o + sum_amts r < two64 -> wo_amt (fst (absorb o r)) + sum_amts (snd (absorb o r)) = wo_amt o + sum_amts r).
Proof.
  induction r as [|x r IH]; intros o.
  - cbn. repeat split; try reflexivity; try apply Nat.le_refl.
  - cbn [absorb]. destruct (same_dest o x).
    + destruct (IH (mkwout (wo_rcpt o) (wo_pid o) (wadd (wo_amt o) (wo_amt x)))) as (H1 & H2 & H3 & H4).
      cbn [wo_rcpt wo_pid wo_amt] in *. repeat split; try assumption.
      * cbn [length]. apply Nat.le_trans with (1 := H3). apply Nat.le_succ_diag_r.
      * cbn [sum_amts fold_right]. intros Hs. fold (sum_amts r) in *.
        assert (Hw : wadd (wo_amt o) (wo_amt x) = wo_amt o + wo_amt x) by (apply wadd_small; lia).
        rewrite Hw in *. rewrite H4 by lia. lia.
    + destruct (IH o) as (H1 & H2 & H3 & H4). destruct (absorb o r) as [o' k] eqn:E.
      cbn [fst snd] in *. repeat split; try assumption.
      * cbn [length]. apply le_n_S. exact H3.
      * cbn [sum_amts fold_right]. fold (sum_amts r) (sum_amts k) in *. intros Hs.
        specialize (H4 ltac:(lia)). lia.
Qed.

Lemma merge_fuel_sum : forall n l, (length l <= n)%nat -> sum_amts l < two64 ->
  sum_amts (merge_fuel n l) = sum_amts l.
Proof.
  induction n as [|n IH]; intros l Hl Hs.
  - destruct l; [reflexivity|cbn in Hl; inversion Hl].
  - destruct l as [|o r]; [reflexivity|].
    cbn [merge_fuel]. destruct (absorb_spec r o) as (_ & _ & H3 & H4).
    destruct (absorb o r) as [o' r'] eqn:E. cbn [fst snd] in *.
    cbn [sum_amts fold_right] in *. fold (sum_amts r) (sum_amts r') (sum_amts (merge_fuel n r')) in *.
    specialize (H4 Hs). cbn [length] in Hl.
    rewrite IH; [lia| |lia].
    apply Nat.le_trans with (1 := H3). apply le_S_n. exact Hl.
Qed.

Lemma merge_outputs_sum l : sum_amts l < two64 -> sum_amts (merge_outputs l) = sum_amts l.
Proof. intros H. unfold merge_outputs. apply merge_fuel_sum; [apply Nat.le_refl|exact H]. Qed.

Lemma merge_outputs_nonempty l : l <> [] -> merge_outputs l <> [].
Proof.
  destruct l as [|o r]; [congruence|]. intros _. unfold merge_outputs. cbn [length merge_fuel].
  destruct (absorb o r). discriminate.
Qed.

Lemma merge_keeps_total_l : forall outs, sum_amts outs < two64 ->
  sum_amts (merge_outputs outs) = sum_amts outs /\ (outs <> [] -> merge_outputs outs <> []).
Proof. intros outs H. split; [exact (merge_outputs_sum outs H)|exact (merge_outputs_nonempty outs)]. Qed.

(* ---- the sums Prevalidate recomputes ---- *)
Lemma sum_outs_merged : forall l s, s + sum_amts l < two64 -> sum_outs (map drop_pid l) s = Some (s + sum_amts l).
Proof.
  induction l as [|o r IH]; intros s Hs.
  - cbn. f_equal. lia.
  - cbn [map sum_outs drop_pid sum_amts fold_right] in *. fold (sum_amts r) in *.
    rewrite wadd_small by lia.
    destruct (N.ltb_spec (s + wo_amt o) s) as [E|_]; [lia|].
    rewrite IH by lia. f_equal. lia.
Qed.

Lemma fold_outputs_merged : forall l f, f + sum_amts l < two64 ->
  fold_left (fun s o => wadd s (o_amt o)) (map (fun o : N * N => mksout OUT_NORMAL (snd o) (fst o) 0) (map drop_pid l)) f = f + sum_amts l.
Proof.
  induction l as [|o r IH]; intros f Hf.
  - cbn. lia.
  - cbn [map fold_left drop_pid sum_amts fold_right o_amt snd fst] in *. fold (sum_amts r) in *.
    rewrite wadd_small by lia. rewrite IH by lia. lia.
Qed.

Section TxProofs.
Variable cfg : config.
Hypothesis Hok : cfg_ok_wallet cfg = true.
Variable team_key : N.

Notation BASE := (base_overhead cfg).
Notation RATE := (fee_per_byte_v2 cfg).
Notation MAXSZ := (max_tx_size cfg).

Lemma wallet_ok_facts :
  hf_v2 cfg <= hf_v3 cfg /\ fee_per_byte cfg <= RATE /\ RATE * MAXSZ < two64 /\
  BASE + max_outputs cfg * output_overhead cfg <= MAXSZ /\ BASE + 32 <= MAXSZ /\
  BASE + max_tx_per_block cfg <= MAXSZ /\ BASE + 256 <= MAXSZ /\ register_burn cfg < two64.
Proof.
  unfold cfg_ok_wallet in Hok.
  rewrite !Bool.andb_true_iff, !N.ltb_lt, !N.leb_le in Hok. tauto.
Qed.

(* the version rule of Prevalidate *)
Definition version_rule (h v : N) : bool :=
  if h <? hf_v2 cfg then v =? 0 else if h <? hf_v3 cfg then v =? 1 else (1 <=? v) && (v <=? 5).

Lemma version_transfer h hv : (if h <? hf_v2 cfg then negb hv else hv) = true ->
  version_rule h (if hv then 1 else 0) = true.
Proof.
  unfold version_rule. destruct (h <? hf_v2 cfg); destruct hv; cbn; try discriminate; try reflexivity.
  intros _. destruct (h <? hf_v3 cfg); reflexivity.
Qed.

Lemma version_post h v : hf_v3 cfg <= h -> 1 <= v -> v <= 5 -> version_rule h v = true.
Proof.
  destruct wallet_ok_facts as (H23 & _). intros Hh H1 H5. unfold version_rule.
  destruct (N.ltb_spec h (hf_v2 cfg)) as [E|_]; [lia|].
  destruct (N.ltb_spec h (hf_v3 cfg)) as [E|_]; [lia|].
  apply Bool.andb_true_iff. split; apply N.leb_le; assumption.
Qed.

(* the generic part of Prevalidate on a transaction the wallet signed, once the size fits *)
Lemma prevalidate_signed v k d nonce h tot outs :
  let fee := RATE * (BASE + data_vsize cfg d) in
  let t := mktx 0 v k k true false d nonce fee in
  k <> 0 ->
  BASE + data_vsize cfg d <= MAXSZ ->
  version_rule h v = true ->
  (match d with
   | TTransfer o => guard (negb (N.of_nat (length o) =? 0) && (N.of_nat (length o) <=? max_outputs cfg)) 206
   | TRegister nl _ id => _ <- guard (nl <=? 16) 207 ;; _ <- guard (negb (id =? 0)) 208 ;;
                          guard (negb (id =? 1) || (k =? team_key)) 209
   | TSetDelegate _ _ => Ok tt
   | TStake a _ _ => guard (min_stake cfg <=? a) 210
   | TUnstake a _ => guard (fee <=? a) 211
   end) = Ok tt ->
  tx_total cfg t = Some tot ->
  state_outputs cfg t (addr_of_key k) = Ok outs ->
  fold_left (fun s o => wadd s (o_amt o)) outs fee = tot ->
  prevalidate_tx cfg team_key t h = Ok tt.
Proof.
  intros fee t Hk Hsz Hv Hd Ht Ho Hf.
  destruct wallet_ok_facts as (H23 & Hr & Hm & _).
  assert (Hfee : RATE * (BASE + data_vsize cfg d) < two64).
  { apply N.le_lt_trans with (2 := Hm). apply N.mul_le_mono_l. exact Hsz. }
  unfold prevalidate_tx.
  change (tx_vsize cfg t) with (BASE + data_vsize cfg d).
  change (tx_version t) with v. change (tx_signer_invalid t) with false. change (tx_fee t) with fee.
  change (tx_data t) with d. change (tx_signer t) with k.
  replace (BASE + data_vsize cfg d <=? MAXSZ) with true by (symmetry; apply N.leb_le; exact Hsz).
  cbn [guard bind]. fold (version_rule h v). rewrite Hv. cbn [guard bind negb].
  assert (Hrate : wmul (if hf_v3 cfg <=? h then RATE else fee_per_byte cfg) (BASE + data_vsize cfg d) <=? fee = true).
  { apply N.leb_le. unfold fee.
    destruct (hf_v3 cfg <=? h).
    - rewrite wmul_small by exact Hfee. apply N.le_refl.
    - assert (Hle : fee_per_byte cfg * (BASE + data_vsize cfg d) <= RATE * (BASE + data_vsize cfg d))
        by (apply N.mul_le_mono_r; exact Hr).
      rewrite wmul_small by lia. exact Hle. }
  rewrite Hrate. cbn [guard bind].
  assert (Hsig : sig_valid t = true).
  { unfold sig_valid. cbn [tx_sig_by tx_signer tx_sig_msg t]. rewrite N.eqb_refl.
    destruct (N.eqb_spec k 0) as [E|_]; [contradiction|]. reflexivity. }
  rewrite Hsig. cbn [guard bind]. rewrite Hd. cbn [bind].
  rewrite Ht. cbn [of_opt bind]. rewrite Ho. cbn [bind]. rewrite Hf. rewrite N.eqb_refl. reflexivity.
Qed.

Lemma fee_no_wrap d : BASE + data_vsize cfg d <= MAXSZ ->
  wmul (BASE + data_vsize cfg d) RATE = RATE * (BASE + data_vsize cfg d) /\ RATE * (BASE + data_vsize cfg d) < two64.
Proof.
  intros Hsz. destruct wallet_ok_facts as (_ & _ & Hm & _).
  assert (H : RATE * (BASE + data_vsize cfg d) < two64).
  { apply N.le_lt_trans with (2 := Hm). apply N.mul_le_mono_l. exact Hsz. }
  split; [|exact H]. rewrite N.mul_comm. apply wmul_small. rewrite N.mul_comm. exact H.
Qed.

Definition signed_tx (st : wstate) (v : N) (d : txdata) : tx :=
  mktx 0 v (w_key st) (w_key st) true false d (wadd (w_nonce st) 1) (RATE * (BASE + data_vsize cfg d)).

(* checkAndSignTx succeeds when the size fits and what the transaction takes from the wallet is within the balance *)
Lemma check_and_sign_ok st v d :
  w_key_invalid st = false -> BASE + data_vsize cfg d <= MAXSZ ->
  spent_by cfg (signed_tx st v d) (addr_of_key (w_key st)) <= w_bal st ->
  check_and_sign cfg st (unsigned_tx st v d) = Ok (signed_tx st v d).
Proof.
  intros Hinv Hsz Hsp. unfold check_and_sign, unsigned_tx, set_fee.
  cbn [tx_id tx_version tx_signer tx_sig_by tx_sig_msg tx_signer_invalid tx_data tx_nonce].
  change (tx_vsize cfg _) with (BASE + data_vsize cfg d).
  destruct (fee_no_wrap d Hsz) as [-> _]. rewrite Hinv. fold (signed_tx st v d).
  destruct (N.ltb_spec (w_bal st) (spent_by cfg (signed_tx st v d) (addr_of_key (w_key st)))) as [E|_]; [lia|reflexivity].
Qed.

Theorem wallet_tx_valid_l : forall st rq h,
  in_domain cfg team_key st rq = true -> regime_ok cfg rq h = true ->
  exists t, build cfg st rq = Ok t /\ prevalidate_tx cfg team_key t h = Ok tt /\
            tx_signer t = w_key st /\ tx_sig_by t = w_key st /\ tx_sig_msg t = true /\
            tx_data t = request_data rq /\ tx_fee t = request_fee cfg rq /\ tx_nonce t = wadd (w_nonce st) 1.
Proof.
  intros st rq h Hdom Hreg.
  destruct wallet_ok_facts as (H23 & Hr & Hm & Hszt & Hszr & Hszd & Hszs & Hburn).
  unfold in_domain in Hdom. rewrite !Bool.andb_true_iff in Hdom.
  destruct Hdom as [[[Hk Hinv] Hbal] Hdom].
  apply Bool.negb_true_iff in Hk. apply N.eqb_neq in Hk.
  apply Bool.negb_true_iff in Hinv. apply N.ltb_lt in Hbal.
  destruct rq as [outs hv|nl name id|new prev|id amt pu|id amt].
  - (* transfer *)
    rewrite !Bool.andb_true_iff in Hdom. destruct Hdom as [[[Hself Hlen] Hmax] Hsum].
    apply Bool.negb_true_iff in Hself. apply N.leb_le in Hlen, Hmax, Hsum.
    set (M := merge_outputs outs) in *.
    set (d := TTransfer (map drop_pid M)).
    unfold request_fee, request_data in Hsum. fold M d in Hsum.
    assert (Hsz : BASE + data_vsize cfg d <= MAXSZ).
    { unfold d. cbn [data_vsize]. rewrite map_length.
      apply N.le_trans with (2 := Hszt). apply N.add_le_mono_l. apply N.mul_le_mono_r. exact Hmax. }
    destruct (fee_no_wrap d Hsz) as [_ Hfee].
    set (fee := RATE * (BASE + data_vsize cfg d)) in *.
    assert (HsumM : sum_amts M = sum_amts outs) by (apply merge_outputs_sum; lia).
    assert (Hne : M <> []).
    { apply merge_outputs_nonempty. destruct outs; [cbn in Hlen; lia|discriminate]. }
    assert (Hso : sum_outs (map drop_pid M) 0 = Some (sum_amts M)).
    { rewrite sum_outs_merged by lia. f_equal. }
    exists (signed_tx st (if hv then 1 else 0) d).
    split.
    { cbn [build]. rewrite Hself. fold M d. apply check_and_sign_ok; [exact Hinv|exact Hsz|].
      unfold spent_by, signed_tx, state_inputs. cbn [tx_data tx_fee d]. rewrite Hso.
      cbn [fold_left snd fst]. rewrite N.eqb_refl. fold fee.
      rewrite (wadd_small (sum_amts M) fee) by lia. rewrite wadd_small by lia. lia. }
    split; [|repeat split; reflexivity].
    apply (prevalidate_signed (if hv then 1 else 0) (w_key st) d (wadd (w_nonce st) 1) h (sum_amts M + fee)
             (map (fun o : N * N => mksout OUT_NORMAL (snd o) (fst o) 0) (map drop_pid M))).
    + exact Hk.
    + exact Hsz.
    + apply version_transfer. exact Hreg.
    + unfold d. rewrite map_length. unfold guard.
      replace (N.of_nat (length M) =? 0) with false
        by (symmetry; apply N.eqb_neq; destruct M; [congruence|cbn [length]; lia]).
      replace (N.of_nat (length M) <=? max_outputs cfg) with true by (symmetry; apply N.leb_le; exact Hmax).
      reflexivity.
    + unfold tx_total, data_total. cbn [tx_data tx_fee d]. rewrite Hso. fold fee.
      rewrite wadd_small by lia.
      destruct (N.ltb_spec (sum_amts M + fee) (sum_amts M)) as [E|_]; [lia|reflexivity].
    + reflexivity.
    + fold fee. rewrite fold_outputs_merged by lia. lia.
  - (* register delegate *)
    rewrite !Bool.andb_true_iff in Hdom. destruct Hdom as [[[Hnl Hid0] Hid1] Hsum].
    apply N.leb_le in Hnl, Hsum. cbn [regime_ok] in Hreg. apply N.leb_le in Hreg.
    set (d := TRegister nl name id).
    unfold request_fee, request_data in Hsum. fold d in Hsum.
    assert (Hsz : BASE + data_vsize cfg d <= MAXSZ) by (unfold d; cbn [data_vsize]; lia).
    destruct (fee_no_wrap d Hsz) as [_ Hfee].
    set (fee := RATE * (BASE + data_vsize cfg d)) in *.
    exists (signed_tx st 2 d). split.
    { cbn [build]. fold d. apply check_and_sign_ok; [exact Hinv|exact Hsz|].
      unfold spent_by, signed_tx, state_inputs. cbn [tx_data tx_fee d fold_left snd fst]. rewrite N.eqb_refl. fold d fee.
      rewrite (wadd_small fee) by lia. rewrite wadd_small by lia. lia. }
    split; [|repeat split; reflexivity].
    apply (prevalidate_signed 2 (w_key st) d (wadd (w_nonce st) 1) h (register_burn cfg + fee)
             [mksout OUT_NORMAL (register_burn cfg) burn_addr 0]).
    + exact Hk.
    + exact Hsz.
    + apply version_post; [exact Hreg|lia|lia].
    + unfold d. unfold guard. replace (nl <=? 16) with true by (symmetry; apply N.leb_le; exact Hnl).
      cbn [bind]. rewrite Hid0. cbn [bind]. rewrite Hid1. reflexivity.
    + unfold tx_total, data_total. cbn [tx_data tx_fee d]. fold d fee.
      rewrite wadd_small by lia.
      destruct (N.ltb_spec (register_burn cfg + fee) (register_burn cfg)) as [E|_]; [lia|reflexivity].
    + reflexivity.
    + fold fee. cbn [fold_left o_amt]. rewrite wadd_small by lia. lia.
  - (* set delegate *)
    apply N.leb_le in Hdom. cbn [regime_ok] in Hreg. apply N.leb_le in Hreg.
    set (d := TSetDelegate new prev).
    unfold request_fee, request_data in Hdom. fold d in Hdom.
    assert (Hsz : BASE + data_vsize cfg d <= MAXSZ) by (unfold d; cbn [data_vsize]; lia).
    destruct (fee_no_wrap d Hsz) as [_ Hfee].
    set (fee := RATE * (BASE + data_vsize cfg d)) in *.
    exists (signed_tx st 3 d). split.
    { cbn [build]. fold d. apply check_and_sign_ok; [exact Hinv|exact Hsz|].
      unfold spent_by, signed_tx, state_inputs. cbn [tx_data tx_fee d fold_left snd fst]. rewrite N.eqb_refl. fold d fee.
      rewrite wadd_small by lia. lia. }
    split; [|repeat split; reflexivity].
    apply (prevalidate_signed 3 (w_key st) d (wadd (w_nonce st) 1) h fee []).
    + exact Hk.
    + exact Hsz.
    + apply version_post; [exact Hreg|lia|lia].
    + reflexivity.
    + unfold tx_total, data_total. cbn [tx_data tx_fee d]. fold d fee.
      rewrite wadd_small by lia. destruct (N.ltb_spec (0 + fee) 0) as [E|_]; [lia|reflexivity].
    + reflexivity.
    + fold fee. cbn [fold_left]. lia.
  - (* stake *)
    rewrite !Bool.andb_true_iff in Hdom. destruct Hdom as [Hmin Hsum].
    apply N.leb_le in Hsum. cbn [regime_ok] in Hreg. apply N.leb_le in Hreg.
    set (d := TStake amt id pu).
    unfold request_fee, request_data in Hsum. fold d in Hsum.
    assert (Hsz : BASE + data_vsize cfg d <= MAXSZ) by (unfold d; cbn [data_vsize]; lia).
    destruct (fee_no_wrap d Hsz) as [_ Hfee].
    set (fee := RATE * (BASE + data_vsize cfg d)) in *.
    exists (signed_tx st 4 d). split.
    { cbn [build]. fold d. apply check_and_sign_ok; [exact Hinv|exact Hsz|].
      unfold spent_by, signed_tx, state_inputs. cbn [tx_data tx_fee tx_signer d fold_left snd fst]. rewrite N.eqb_refl. fold d fee.
      rewrite (wadd_small amt) by lia. rewrite wadd_small by lia. lia. }
    split; [|repeat split; reflexivity].
    apply (prevalidate_signed 4 (w_key st) d (wadd (w_nonce st) 1) h (amt + fee)
             [mksout OUT_STAKE amt (delegate_addr id) id]).
    + exact Hk.
    + exact Hsz.
    + apply version_post; [exact Hreg|lia|lia].
    + unfold d, guard. rewrite Hmin. reflexivity.
    + unfold tx_total, data_total. cbn [tx_data tx_fee d]. fold d fee.
      rewrite wadd_small by lia. destruct (N.ltb_spec (amt + fee) amt) as [E|_]; [lia|reflexivity].
    + reflexivity.
    + fold fee. cbn [fold_left o_amt]. rewrite wadd_small by lia. lia.
  - (* unstake *)
    rewrite !Bool.andb_true_iff in Hdom. destruct Hdom as [Hge Hamt].
    apply N.leb_le in Hge. apply N.ltb_lt in Hamt. cbn [regime_ok] in Hreg. apply N.leb_le in Hreg.
    set (d := TUnstake amt id).
    unfold request_fee, request_data in Hge. fold d in Hge.
    assert (Hsz : BASE + data_vsize cfg d <= MAXSZ) by (unfold d; cbn [data_vsize]; lia).
    destruct (fee_no_wrap d Hsz) as [_ Hfee].
    set (fee := RATE * (BASE + data_vsize cfg d)) in *.
    exists (signed_tx st 5 d). split.
    { cbn [build]. fold d. apply check_and_sign_ok; [exact Hinv|exact Hsz|].
      unfold spent_by, signed_tx, state_inputs. cbn [tx_data tx_fee d fold_left snd fst].
      replace (delegate_addr id =? addr_of_key (w_key st)) with false; [apply N.le_0_l|].
      symmetry. apply N.eqb_neq. unfold delegate_addr, addr_of_key. lia. }
    split; [|repeat split; reflexivity].
    apply (prevalidate_signed 5 (w_key st) d (wadd (w_nonce st) 1) h amt
             [mksout OUT_NORMAL (amt - fee) (addr_of_key (w_key st)) 0]).
    + exact Hk.
    + exact Hsz.
    + apply version_post; [exact Hreg|lia|lia].
    + unfold d, guard. fold d fee. replace (fee <=? amt) with true by (symmetry; apply N.leb_le; exact Hge). reflexivity.
    + unfold tx_total, data_total. cbn [tx_data tx_fee d]. fold d fee.
      destruct (N.ltb_spec amt fee) as [E|_]; [lia|].
      rewrite wadd_small by lia. destruct (N.ltb_spec (amt - fee + fee) (amt - fee)) as [E|_]; [lia|].
      f_equal. lia.
    + unfold state_outputs. cbn [tx_data tx_fee d]. fold d fee.
      destruct (N.ltb_spec amt fee) as [E|_]; [lia|]. rewrite wsub_small by lia. reflexivity.
    + fold fee. cbn [fold_left o_amt]. rewrite wadd_small by lia. lia.
Qed.

End TxProofs.
