(* Property C03 / C10, "the ledger is the replay of the main chain", second part: at the level of ledgers.
   [RInv C L]: the chain of blocks [C] applies, one block after the other, to the genesis ledger [l0], the result agrees
   with the ledger [L] (accounts as functions, delegate table, staked total) and every delegate-history entry of the
   replay is present in [L] (which may hold stale entries of abandoned branches besides).
   It is kept when [L] applies one more block (extend) and when [L] disconnects the blocks [O] above a prefix [P] and
   connects other blocks [N] (reorg): the disconnection is the undo of Proofs/Undo4.v started from [L], the
   connection is followed by the replay through the congruence of Proofs/Replay1.v. *)
From Coq Require Import Sorting.Sorted.
From Virel Require Import Lib.Config Lib.U64 Lib.AMap Lib.CheckLib Model.Emission Model.Ledger Spec.Rules
  Proofs.AMapLemmas Proofs.Emission Proofs.Conservation Proofs.Pointwise Proofs.Refine Proofs.Staking Proofs.StakedSum
  Proofs.Refine2 Proofs.Undo Proofs.Undo2 Proofs.Undo4 Proofs.Replay1.
Open Scope N_scope.
Open Scope bool_scope.

(* every entry of the first history is in the second *)
Definition dle (D1 D2 : list (N * dlg)) : Prop := forall k v, nget D1 k = Some v -> nget D2 k = Some v.

Lemma dle_wr W D1 D2 : dle D1 D2 -> dle (wr W D1) (wr W D2).
Proof.
  intros H k v. rewrite !wr_nget. destruct (wlast W k); [exact (fun e => e)|apply H].
Qed.

Lemma leqv_fields l l' : accts l' = accts l -> dlgs l' = dlgs l -> staked l' = staked l -> leqv l l'.
Proof.
  intros A D S. apply leqv_split. split; [|split; assumption].
  exact (accE_ext l l l l' eq_refl A (accE_refl l)).
Qed.

Lemma heights_from_app a : forall h b, heights_from h (a ++ b) <-> heights_from h a /\ heights_from (h + length a) b.
Proof.
  induction a as [|x a IH]; intros h b; cbn [app heights_from length].
  - rewrite Nat.add_0_r. tauto.
  - rewrite IH. replace (h + S (length a))%nat with (S h + length a)%nat by lia. tauto.
Qed.

Lemma chain_keys_app a b : chain_keys (a ++ b) = chain_keys a ++ chain_keys b.
Proof. unfold chain_keys. apply flat_map_app. Qed.
Lemma chain_nouts_app a b : chain_nouts (a ++ b) = chain_nouts a + chain_nouts b.
Proof. unfold chain_nouts. induction a as [|x a IH]; cbn [app fold_right]; [reflexivity|]. rewrite IH. lia. Qed.
Lemma chain_ntx_app a b : chain_ntx (a ++ b) = chain_ntx a + chain_ntx b.
Proof. unfold chain_ntx. induction a as [|x a IH]; cbn [app fold_right]; [reflexivity|]. rewrite IH. lia. Qed.

Section Ledgers.
Variable cfg : config.
Variable genesis_addr : N.
Hypothesis Hok : cfg_ok_emission cfg = true.

Notation apply_chain := (apply_chain cfg genesis_addr).
Notation remove_chain := (remove_chain cfg genesis_addr).

Lemma apply_chain_app a : forall l b, apply_chain l (a ++ b) = (l1 <- apply_chain l a ;; apply_chain l1 b).
Proof.
  induction a as [|x a IH]; intros l b; cbn [app Conservation.apply_chain bind]; [reflexivity|].
  destruct (apply_block cfg genesis_addr l x (lb_height x - 1)) as [l1|c|c]; cbn [bind]; [apply IH|reflexivity|reflexivity].
Qed.

(* per-transaction and per-block conditions *)
Definition tx_c (t : tx) : Prop := tx_cond cfg t /\ stake_pos t.
Definition blocks_c (C : list lblock) : Prop := Forall (fun b => Forall tx_c (lb_txs b)) C.

Lemma blocks_c_ok C : blocks_c C -> Forall (fun b => Forall (tx_ok cfg) (lb_txs b) /\ Forall stake_pos (lb_txs b)) C.
Proof.
  intros H. eapply Forall_impl; [|exact H]. intros b Hb. split; eapply Forall_impl; try exact Hb.
  - intros t ((Hwf & Htot & _) & _). split; assumption.
  - intros t (_ & Hsp). exact Hsp.
Qed.
Lemma blocks_c_txok C : blocks_c C -> Forall (fun b => Forall (tx_ok cfg) (lb_txs b)) C.
Proof. intros H. eapply Forall_impl; [|apply blocks_c_ok; exact H]. intros b [Hb _]. exact Hb. Qed.
Lemma blocks_c_cond C : blocks_c C -> Forall (fun b => Forall (tx_cond cfg) (lb_txs b)) C.
Proof.
  intros H. eapply Forall_impl; [|exact H]. intros b Hb. eapply Forall_impl; [|exact Hb]. intros t [Hc _]. exact Hc.
Qed.

(* counters along a chain *)
Lemma apply_chain_frame bs : forall l (h : nat) ln,
  total_bal l = sum_rewards cfg h -> heights_from h bs -> PInv l ->
  Forall (fun b => Forall (tx_ok cfg) (lb_txs b) /\ Forall stake_pos (lb_txs b)) bs ->
  NoDup (chain_keys bs) ->
  (forall a, inc (acct_at l a) + chain_nouts bs < two64) ->
  (forall a, nonce (acct_at l a) + chain_ntx bs < two64) ->
  apply_chain l bs = Ok ln ->
  forall a, inc (acct_at ln a) <= inc (acct_at l a) + chain_nouts bs /\
            nonce (acct_at ln a) <= nonce (acct_at l a) + chain_ntx bs.
Proof.
  induction bs as [|b bs IH]; intros l h ln Ht Hh HI Hok' Hnd Hinc Hnon H; cbn [Conservation.apply_chain] in H.
  - injection H as <-. intros a. cbn. lia.
  - destruct Hh as [Hhb Hh]. inversion Hok' as [|? ? [Hb Hsp] Hbs]; subst. bind_inv H. rename a into l1.
    cbn [chain_keys flat_map] in Hnd. fold (chain_keys bs) in Hnd.
    destruct (NoDup_app_parts _ _ Hnd) as (Hndb & Hndr & _).
    cbn [block_keys] in Hndb. inversion Hndb as [|? ? Hbh Hndt]; subst.
    cbn [chain_nouts chain_ntx fold_right] in Hinc, Hnon |- *. fold (chain_nouts bs) in Hinc |- *. fold (chain_ntx bs) in Hnon |- *.
    assert (Hroom : total_bal l + reward cfg (lb_height b) <= max_supply cfg).
    { rewrite Ht, Hhb. change (sum_rewards cfg h + reward cfg (N.of_nat (S h))) with (sum_rewards cfg (S h)).
      apply (sum_rewards_le_max cfg Hok). }
    assert (Hstep : total_bal l1 = sum_rewards cfg (S h)).
    { rewrite (apply_block_total cfg genesis_addr Hok _ _ _ _ Hroom Hb E). rewrite Ht, Hhb. reflexivity. }
    pose proof (apply_block_PInv cfg genesis_addr Hok _ _ _ _ Hroom Hb Hsp HI E) as HI1.
    destruct HI as (HS & HP & HU).
    assert (Hhyps : block_hyps cfg l b).
    { split; [exact Hok|]. split; [exact HS|]. split; [exact HP|]. split; [exact HU|]. split; [exact Hroom|].
      split; [exact Hb|]. split; [exact Hsp|]. split; [exact Hndt|]. split; [exact Hbh|].
      split; intros a; [specialize (Hinc a)|specialize (Hnon a)]; lia. }
    pose proof (apply_block_frame cfg genesis_addr l b _ l1 Hhyps E) as Hfr.
    pose proof (IH l1 (S h) ln Hstep Hh HI1 Hbs Hndr
                  ltac:(intros a; destruct (Hfr a); specialize (Hinc a); lia)
                  ltac:(intros a; destruct (Hfr a); specialize (Hnon a); lia) H) as Hrest.
    intros a. destruct (Hfr a). destruct (Hrest a). split; lia.
Qed.

(* ---- the genesis ledger and the static premises ---- *)
Variable l0 : ledger.            (* the ledger after the genesis block *)
Variable gk : list N.            (* the delegate-history keys the genesis block may have written *)
Variable c0 : N.                 (* bound on the counters of the genesis ledger *)

Definition base_ok : Prop :=
  PInv l0 /\ total_bal l0 = sum_rewards cfg 0 /\
  (forall k v, nget (dhist l0) k = Some v -> In k gk) /\
  (forall a, inc (acct_at l0 a) <= c0 /\ nonce (acct_at l0 a) <= c0).

(* a chain of blocks above genesis: heights 1, 2, ...; transactions well formed; all delegate-history keys (block hashes,
   transaction ids) distinct; counters cannot wrap *)
Definition chain_ok (C : list lblock) : Prop :=
  heights_from 0 C /\ blocks_c C /\ NoDup (gk ++ chain_keys C) /\
  c0 + chain_nouts C < two64 /\ c0 + chain_ntx C < two64.

Definition RInv (C : list lblock) (L : ledger) : Prop :=
  exists lr, apply_chain l0 C = Ok lr /\ leqv lr L /\ dle (dhist lr) (dhist L).

Lemma RInv_nil : RInv [] l0.
Proof. exists l0. split; [reflexivity|]. split; [apply leqv_refl|intros k v H; exact H]. Qed.

(* one more block *)
Lemma RInv_extend C L b L' :
  RInv C L -> Forall tx_c (lb_txs b) ->
  apply_block cfg genesis_addr L b (lb_height b - 1) = Ok L' -> RInv (C ++ [b]) L'.
Proof.
  intros (lr & Hr & HL & HD) Hc H.
  assert (Hc' : Forall (tx_cond cfg) (lb_txs b)) by (eapply Forall_impl; [|exact Hc]; intros t [X _]; exact X).
  destruct (cong_apply_block cfg genesis_addr lr L b _ L' HL Hc' H) as (lr1 & W & Hr1 & HL1 & _ & Hs1 & Hb1).
  exists lr1. split; [|split; [exact HL1|]].
  - rewrite apply_chain_app, Hr. cbn [bind Conservation.apply_chain]. rewrite Hr1. reflexivity.
  - rewrite Hs1, Hb1. apply dle_wr. exact HD.
Qed.

(* facts about the replay of a prefix *)
Lemma prefix_facts P Q lrP :
  base_ok -> chain_ok (P ++ Q) -> apply_chain l0 P = Ok lrP ->
  PInv lrP /\ total_bal lrP = sum_rewards cfg (length P) /\ heights_from (length P) Q /\
  NoDup (chain_keys Q) /\
  (forall a, inc (acct_at lrP a) + chain_nouts Q < two64) /\
  (forall a, nonce (acct_at lrP a) + chain_ntx Q < two64) /\
  (forall k v, nget (dhist lrP) k = Some v -> In k (gk ++ chain_keys P)) /\
  (forall k, In k (gk ++ chain_keys P) -> ~ In k (chain_keys Q)).
Proof.
  intros (HI0 & Ht0 & Hk0 & Hc0) (Hh & Hbc & Hnd & Hn1 & Hn2) Hr.
  apply heights_from_app in Hh. destruct Hh as [HhP HhQ]. cbn [Nat.add] in HhQ.
  unfold blocks_c in Hbc. apply Forall_app in Hbc. destruct Hbc as [HbP HbQ].
  rewrite chain_keys_app, app_assoc in Hnd. destruct (NoDup_app_parts _ _ Hnd) as (HndP & HndQ & Hdis).
  destruct (NoDup_app_parts _ _ HndP) as (_ & HndP' & _).
  rewrite chain_nouts_app in Hn1. rewrite chain_ntx_app in Hn2.
  pose proof (apply_chain_PInv cfg genesis_addr Hok P l0 0 lrP Ht0 HhP (blocks_c_ok P HbP) HI0 Hr) as HIP.
  destruct (apply_chain_supply cfg genesis_addr Hok P l0 0 lrP Ht0 HhP (blocks_c_txok P HbP) Hr) as [HtP _].
  pose proof (apply_chain_frame P l0 0 lrP Ht0 HhP HI0 (blocks_c_ok P HbP) HndP'
                ltac:(intros a; destruct (Hc0 a); lia) ltac:(intros a; destruct (Hc0 a); lia) Hr) as Hfr.
  split; [exact HIP|]. split; [exact HtP|]. split; [exact HhQ|]. split; [exact HndQ|].
  split; [intros a; destruct (Hfr a); destruct (Hc0 a); lia|].
  split; [intros a; destruct (Hfr a); destruct (Hc0 a); lia|].
  split; [|exact Hdis].
  intros k v Hkv. apply in_or_app.
  destruct (in_dec N.eq_dec k (chain_keys P)) as [Hin|Hnin]; [right; exact Hin|left].
  rewrite (apply_chain_dhist cfg genesis_addr P l0 lrP k Hr Hnin) in Hkv. exact (Hk0 k v Hkv).
Qed.

(* a reorganisation: the blocks [O] above the prefix [P] are disconnected (highest first), the blocks [N] connected *)
Theorem RInv_reorg P O N L L2 L3 :
  base_ok -> chain_ok (P ++ O) -> chain_ok (P ++ N) ->
  RInv (P ++ O) L ->
  remove_chain L (rev O) = Ok L2 ->
  Conservation.apply_chain cfg genesis_addr L2 N = Ok L3 ->
  RInv (P ++ N) L3.
Proof.
  intros HB HcO HcN (lr & Hr & HL & HD) Hrm Hap.
  rewrite apply_chain_app in Hr. bind_inv Hr. rename a into lrP.
  destruct (prefix_facts P O lrP HB HcO E) as (HIP & HtP & HhO & HndO & HincO & HnonO & HkP & HdisO).
  destruct HcO as (_ & HbcO & _). unfold blocks_c in HbcO. apply Forall_app in HbcO. destruct HbcO as [HbP HbO].
  destruct HcN as (_ & HbcN & _). unfold blocks_c in HbcN. apply Forall_app in HbcN. destruct HbcN as [_ HbN].
  (* the reference for the undo: the replay of the prefix, carrying the node's delegate history *)
  set (lP' := set_dhist lrP (dhist L)).
  assert (HLP : leqv lP' lrP) by (apply leqv_fields; reflexivity).
  destruct (cong_apply_chain cfg genesis_addr O lP' lrP lr HLP (blocks_c_cond O HbO) Hr) as (lO' & W & HrO & HLO & HW & HsO & HbO').
  cbn [dhist set_dhist lP'] in HsO.
  assert (HLO' : leqv lO' L) by (eapply leqv_trans; eassumption).
  assert (HIP' : PInv lP') by (apply (PInv_ext lrP lP'); [reflexivity|reflexivity|exact HIP]).
  assert (Hkeys : forall k, In k (chain_keys O) -> nget (dhist L) k = nget (dhist lO') k).
  { intros k Hk. rewrite HsO, wr_nget. destruct (wlast W k) as [v|] eqn:Ew; [|reflexivity].
    apply HD. rewrite HbO', wr_nget, Ew. reflexivity. }
  destruct (undo_chain cfg genesis_addr Hok O lP' (length P) lO' HtP HhO HIP' (blocks_c_ok O HbO) HndO HincO HnonO HrO
              L HLO' Hkeys) as (l2 & Hrm2 & HL2 & Hh2).
  rewrite Hrm in Hrm2. injection Hrm2 as <-.
  assert (HLP2 : leqv lrP L2) by (eapply leqv_trans; [apply (leqv_fields lrP lP'); reflexivity|exact HL2]).
  (* the connection *)
  destruct (cong_apply_chain cfg genesis_addr N lrP L2 L3 HLP2 (blocks_c_cond N HbN) Hap) as (lr' & W' & Hr' & HL' & _ & Hs' & Hb').
  exists lr'. split; [rewrite apply_chain_app, E; cbn [bind]; exact Hr'|]. split; [exact HL'|].
  rewrite Hs', Hb', Hh2. apply dle_wr.
  intros k v Hkv. apply HD.
  rewrite (apply_chain_dhist cfg genesis_addr O lrP lr k Hr (HdisO k (HkP k v Hkv))). exact Hkv.
Qed.

End Ledgers.
