(* The chain-structure invariant of Proofs/ChainInv.v is established by genesis and preserved by every delivery
   (accepted on the main chain, accepted on a side chain with or without reorganisation, refused, crashed), hence it
   holds after every delivery sequence shorter than 2^64 - 1 (run_CInv).  Walking [prev_hash] from the tip visits exactly
   the entries of the height index, highest first (walk_index).  Final theorems: Proofs/ChainHeights.v. *)
From Virel Require Import Lib.Config Lib.U64 Lib.AMap Model.Ledger Model.Node Proofs.AMapLemmas Proofs.Conservation
  Spec.Chain Proofs.NodeBasics Proofs.ForkChoice Proofs.Restart Proofs.ChainInv.
Open Scope N_scope.

Lemma length_nset_le {V} (m : list (N * V)) k v : (length (nset m k v) <= S (length m))%nat.
Proof.
  unfold nset. induction m as [|[k0 v0] m IH]; cbn; [apply le_n|].
  destruct (k =? k0); cbn; [apply le_S, le_n|]. apply le_n_S. exact IH.
Qed.

Section ChainRun.
Variable cfg : config.
Variable genesis_addr team_key : N.
Variable gh : N.

Notation CInv := (CInv gh).

(* the tip entries after an alternative block: the old ones (possibly without the parent's) and the new block's own *)
Lemma alt_tips_cases n b k tp :
  In (k, tp) (match nget (tips n) (prev_hash b) with
              | Some t => if t_hash t =? prev_hash b
                          then nset (ndel (tips n) (prev_hash b)) (b_hash b) (mktip (b_hash b) (b_height b) (b_cd b))
                          else nset (tips n) (b_hash b) (mktip (b_hash b) (b_height b) (b_cd b))
              | None => nset (tips n) (b_hash b) (mktip (b_hash b) (b_height b) (b_cd b))
              end) ->
  (k = b_hash b /\ tp = mktip (b_hash b) (b_height b) (b_cd b)) \/ In (k, tp) (tips n).
Proof.
  destruct (nget (tips n) (prev_hash b)) as [t|]; [destruct (t_hash t =? prev_hash b)|]; intros Hin; apply in_nset in Hin;
    (destruct Hin as [[= -> ->]|Hin]; [left; split; reflexivity|right; try apply in_ndel in Hin; exact Hin]).
Qed.

Lemma add_block_CInv n b n' amb :
  CInv n -> FInv n -> N.of_nat (length (blocks n)) < two64 ->
  add_block cfg genesis_addr n b = Ok (n', amb) -> CInv n'.
Proof.
  intros (HB & HT) (Hts & Htips & Hmax) Hlen H. unfold add_block in H.
  guard_inv H. opt_inv H. rename x into prev. bind_inv H. destruct a.
  assert (Hnew : nget (blocks n) (b_hash b) = None).
  { unfold get_block in G. destruct (nget (blocks n) (b_hash b)); [discriminate|reflexivity]. }
  unfold get_block in E.
  pose proof (check_block_height _ _ _ _ E0) as Hh.
  assert (Hh' : b_height b = b_height prev + 1).
  { destruct HB as (_ & _ & _ & Hb). pose proof (Hb _ _ E). rewrite wadd_small in Hh; lia. }
  pose proof (BInv_insert gh _ _ _ HB Hnew E Hh') as HB1.
  destruct (N.eqb_spec (prev_hash b) (top n)) as [Emain|Ealt].
  - (* extension of the main chain *)
    bind_inv H. injection H as <- <-. unfold add_mainchain_block in E1. bind_inv E1. injection E1 as <-.
    apply apply_block_node_eq in E2. destruct E2 as (l & ->).
    unfold ChainInv.CInv. cbn [blocks topo top set_topo set_blocks set_top set_ldg].
    split; [exact HB1|].
    apply (TInv_extend gh _ _ (top n) prev b).
    + apply TInv_insert_block; assumption.
    + apply nget_nset_keep; [exact Hnew|rewrite <- Emain; exact E].
    + apply nget_nset_same.
    + exact Emain.
    + exact Hh'.
  - (* alternative chain *)
    unfold add_altchain_block in H.
    apply (check_reorgs_struct cfg genesis_addr gh) in H; cbn [blocks topo top top_cd tips set_blocks set_tips] in *.
    + destruct H as (Fb & HT' & _). split; [rewrite Fb; exact HB1|exact HT'].
    + exact HB1.
    + apply TInv_insert_block; assumption.
    + intros k tp Hin Hlt. apply alt_tips_cases in Hin. destruct Hin as [(_ & ->)|Hin].
      * cbn [t_hash]. intros Egh. destruct HB as (_ & (g & Hg & _) & _). rewrite Egh in Hnew. congruence.
      * exfalso. destruct (Htips k tp Hin) as (tb & Htb & Hcd). pose proof (Hmax _ _ Htb). lia.
Qed.

Lemma add_block_len n b n' amb :
  add_block cfg genesis_addr n b = Ok (n', amb) -> (length (blocks n') <= S (length (blocks n)))%nat.
Proof.
  intros H. unfold add_block in H. guard_inv H. opt_inv H. bind_inv H.
  destruct (prev_hash b =? top n).
  - bind_inv H. injection H as <- _. unfold add_mainchain_block in E1. bind_inv E1. injection E1 as <-.
    apply apply_block_node_eq in E2. destruct E2 as (l & ->).
    cbn [blocks set_topo set_blocks set_top set_ldg]. apply length_nset_le.
  - unfold add_altchain_block in H. apply check_reorgs_blocks in H. rewrite H.
    cbn [blocks set_blocks set_tips]. apply length_nset_le.
Qed.

Lemma deliver_CInv n b now n' out amb :
  CInv n -> FInv n -> N.of_nat (length (blocks n)) < two64 ->
  deliver cfg genesis_addr team_key n b now = (n', out, amb) -> CInv n'.
Proof.
  intros HC HF Hlen H. unfold deliver in H.
  destruct (prevalidate_block cfg team_key b now); try (injection H as <- _ _; exact HC).
  destruct (add_block cfg genesis_addr n b) as [[n1 amb1]|c|c] eqn:E; try (injection H as <- _ _; exact HC).
  injection H as <- _ _. eapply add_block_CInv; eassumption.
Qed.

Lemma deliver_len n b now n' out amb :
  deliver cfg genesis_addr team_key n b now = (n', out, amb) -> (length (blocks n') <= S (length (blocks n)))%nat.
Proof.
  intros H. unfold deliver in H.
  destruct (prevalidate_block cfg team_key b now); try (injection H as <- _ _; apply le_S, le_n).
  destruct (add_block cfg genesis_addr n b) as [[n1 amb1]|c|c] eqn:E; try (injection H as <- _ _; apply le_S, le_n).
  injection H as <- _ _. eapply add_block_len; eassumption.
Qed.

Notation run := (run cfg genesis_addr team_key).

Lemma run_CInv ops : forall n,
  CInv n -> FInv n -> N.of_nat (length (blocks n) + length ops) <= two64 ->
  CInv (run n ops) /\ FInv (run n ops).
Proof.
  induction ops as [|[b now] ops IH]; intros n HC HF Hlen; cbn [ForkChoice.run fold_left fst snd]; [split; assumption|].
  destruct (deliver cfg genesis_addr team_key n b now) as [[n1 out] amb] eqn:E. cbn [fst snd].
  cbn [length] in Hlen. apply IH.
  - eapply deliver_CInv; [exact HC|exact HF| |exact E]. lia.
  - eapply deliver_inv; eassumption.
  - apply deliver_len in E. lia.
Qed.

End ChainRun.

Section Genesis.
Variable cfg : config.
Variable genesis_addr team_key : N.

Lemma node0_CInv g n0 : node0 cfg genesis_addr g = Ok n0 -> b_height g = 0 -> CInv (b_hash g) n0.
Proof.
  unfold node0. intros H Hg0. apply apply_block_node_eq in H. destruct H as (l & ->).
  unfold CInv. cbn [blocks topo top set_ldg].
  assert (Hget : forall h b, nget [(b_hash g, g)] h = Some b -> h = b_hash g /\ b = g).
  { intros h b. unfold nget. cbn. destruct (N.eqb_spec h (b_hash g)); [intros [= <-]; split; congruence|discriminate]. }
  assert (Hgg : nget [(b_hash g, g)] (b_hash g) = Some g) by (unfold nget; cbn; rewrite N.eqb_refl; reflexivity).
  split.
  - repeat split.
    + intros h b Hb. destruct (Hget h b Hb) as (-> & ->). reflexivity.
    + exists g. split; assumption.
    + intros h b Hb Hne. destruct (Hget h b Hb) as (-> & _). congruence.
    + intros h b Hb. destruct (Hget h b Hb) as (_ & ->). cbn. lia.
  - split; [cbn; constructor; [intros []|constructor]|].
    exists g. split; [exact Hgg|]. rewrite Hg0.
    split; [reflexivity|]. split; [|split; [reflexivity|]].
    + intros ht Hlt. unfold nget. cbn. destruct (N.eqb_spec ht 0); [lia|reflexivity].
    + intros ht Hle. assert (ht = 0) by lia. subst ht. exists (b_hash g), g.
      split; [reflexivity|]. split; [exact Hgg|]. split; [exact Hg0|]. intros Hlt. lia.
Qed.

(* ---- (d) walking prev_hash from the tip visits the height index, highest entry first ---- *)
Lemma walk_index gh bl tp x bx :
  TInv gh bl tp x -> nget bl x = Some bx ->
  forall k y, N.of_nat k <= b_height bx -> nget tp (N.of_nat k) = Some y ->
  map (nget tp) (heights_down k) = map Some (walk bl k y).
Proof.
  intros (_ & bx' & Hbx' & _ & _ & _ & Hch) Hbx. rewrite Hbx in Hbx'. injection Hbx' as <-.
  induction k as [|k IH]; intros y Hle Hy; cbn [heights_down walk map].
  - change (N.of_nat 0) with 0 in Hy. rewrite Hy. reflexivity.
  - destruct (Hch _ Hle) as (y' & yb & Hy' & Hyb & Hyh & Hyp). rewrite Hy in Hy'. injection Hy' as <-.
    rewrite Hy, Hyb. f_equal. apply IH; [lia|].
    replace (N.of_nat k) with (N.of_nat (S k) - 1) by lia. apply Hyp. lia.
Qed.

End Genesis.
